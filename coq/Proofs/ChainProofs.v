(* Proofs for C01: transparency is closed under composition; each library wrapper
   (hand model of its closure) is transparent; chain theorems by induction on the list. *)
From IV Require Import Base.Word Model.TwccHdrExt Model.Chain.
From Coq Require Import Lia.
Open Scope Z_scope.

(* ========================================================================= *)
Section WriterProofs.
  Variable P : Type.
  (* "the same packet up to the transport-wide-CC header extension" *)
  Variable upto : P -> P -> Prop.
  Hypothesis upto_refl : forall p, upto p p.
  Hypothesis upto_trans : forall a b c, upto a b -> upto b c -> upto a c.
  (* packets in scope of the property (closed under everything wrappers do) *)
  Variable Pok : P -> Prop.

  Definition layer (T : Type) := forall S : Type, writer P S -> writer P (T * S).
  Definition hdres (l : list wres) : wres := hd (0, []) l.

  (* [L] is transparent: for EVERY inner writer (any state type, any behaviour) one call
     of [L inner] on an in-scope packet p performs exactly the inner calls p' :: inj in
     this order (the inner state afterwards is the state after exactly these calls),
     where p' is p up to the TWCC extension and inj are packets L made itself; it
     returns the n of the call for p' and that call's errors (plus, possibly, errors
     the inner writer returned for the injected packets - errors.Join). *)
  Definition transparentL {T} (L : layer T) : Prop :=
    forall S (inner : writer P S) own s p, Pok p ->
    exists p' inj own' extra,
      upto p p' /\ Pok p' /\ Forall Pok inj /\
      L S inner p (own, s) =
        ((own', fst (run_list inner (p' :: inj) s)),
         (fst (hdres (snd (run_list inner (p' :: inj) s))),
          snd (hdres (snd (run_list inner (p' :: inj) s))) ++ extra)) /\
      incl extra (flat_map snd (tl (snd (run_list inner (p' :: inj) s)))).

  Definition transparent (w : wrapper P) : Prop := transparentL w.

  Lemma run_list_app S (inner : writer P S) a b s :
    run_list inner (a ++ b) s =
    (fst (run_list inner b (fst (run_list inner a s))),
     snd (run_list inner a s) ++ snd (run_list inner b (fst (run_list inner a s)))).
  Proof.
    revert s; induction a as [|x a IH]; intros s; simpl.
    - destruct (run_list inner b s); reflexivity.
    - destruct (inner x s) as [s1 r]. rewrite IH.
      destruct (run_list inner a s1) as [s2 rs]. simpl. reflexivity.
  Qed.

  Lemma run_list_one S (inner : writer P S) p s :
    run_list inner [p] s = (fst (inner p s), [snd (inner p s)]).
  Proof. simpl. destruct (inner p s); reflexivity. Qed.

  Lemma run_list_cons S (inner : writer P S) p l s :
    run_list inner (p :: l) s =
    (fst (run_list inner l (fst (inner p s))), snd (inner p s) :: snd (run_list inner l (fst (inner p s)))).
  Proof. simpl. destruct (inner p s) as [s1 r]. simpl. destruct (run_list inner l s1); reflexivity. Qed.

  (* running a transparent layer over a list of in-scope packets: the inner writer sees
     some list of in-scope packets, and every error the layer returned came from it *)
  Lemma transparent_run_list T (L : layer T) : transparentL L ->
    forall S (inner : writer P S) qs own s, Forall Pok qs ->
    exists qs' own', Forall Pok qs' /\
      fst (run_list (L S inner) qs (own, s)) = (own', fst (run_list inner qs' s)) /\
      incl (flat_map snd (snd (run_list (L S inner) qs (own, s))))
           (flat_map snd (snd (run_list inner qs' s))).
  Proof.
    intros HL S inner qs; induction qs as [|q qs IH]; intros own s Hok.
    - exists [], own. simpl. repeat split; auto. intros x Hx; exact Hx.
    - inversion Hok as [|? ? Hq Hqs]; subst.
      destruct (HL S inner own s q Hq) as (p' & inj & own1 & extra & Hu & Hp' & Hinj & Heq & Hincl).
      rewrite run_list_cons. rewrite Heq. cbn [fst snd].
      destruct (IH own1 (fst (run_list inner (p' :: inj) s)) Hqs) as (qs2 & own2 & Hok2 & Hst & Herr).
      exists ((p' :: inj) ++ qs2), own2. split; [|split].
      + apply Forall_app; split; auto.
      + rewrite Hst. rewrite run_list_app. reflexivity.
      + rewrite run_list_app. cbn [snd]. rewrite flat_map_app.
        cbn [flat_map]. intros x Hx. apply in_app_or in Hx as [Hx|Hx].
        * apply in_or_app; left.
          destruct (snd (run_list inner (p' :: inj) s)) as [|r0 rs0] eqn:E.
          { rewrite run_list_cons in E. discriminate. }
          cbn [hdres hd tl flat_map] in *. apply in_app_or in Hx as [Hx|Hx].
          { apply in_or_app; left; exact Hx. }
          { apply in_or_app; right. apply Hincl; exact Hx. }
        * apply in_or_app; right. apply Herr; exact Hx.
  Qed.

  (* ---- closure under composition ---- *)
  Definition compose {T1 T2} (L2 : layer T2) (L1 : layer T1) : layer (T2 * T1) :=
    fun S inner p st =>
      let '((o2, o1), s) := st in
      let '((o2', (o1', s')), r) := L2 _ (L1 S inner) p (o2, (o1, s)) in
      (((o2', o1'), s'), r).

  Lemma transparent_compose T1 T2 (L2 : layer T2) (L1 : layer T1) :
    transparentL L2 -> transparentL L1 -> transparentL (compose L2 L1).
  Proof.
    intros H2 H1 S inner [o2 o1] s p Hp.
    destruct (H2 _ (L1 S inner) o2 (o1, s) p Hp) as (p1 & inj1 & o2' & extra1 & Hu1 & Hp1 & Hinj1 & Heq1 & Hincl1).
    unfold compose. rewrite Heq1. clear Heq1.
    rewrite run_list_cons in *. cbn [fst snd hdres hd tl] in *.
    destruct (H1 S inner o1 s p1 Hp1) as (p2 & inja & o1a & extraa & Hua & Hpa & Hinja & Heqa & Hincla).
    rewrite Heqa in *. cbn [fst snd] in *.
    destruct (transparent_run_list _ L1 H1 S inner inj1 o1a (fst (run_list inner (p2 :: inja) s)) Hinj1)
      as (qs' & o1b & Hqs' & Hst & Herr).
    rewrite Hst. cbn [fst snd].
    exists p2, (inja ++ qs'), (o2', o1b), (extraa ++ extra1).
    split; [eapply upto_trans; eauto|]. split; [exact Hpa|]. split; [apply Forall_app; split; auto|].
    change (p2 :: inja ++ qs') with ((p2 :: inja) ++ qs').
    rewrite run_list_app. cbn [fst snd].
    assert (Hne : exists r0 rs0, snd (run_list inner (p2 :: inja) s) = r0 :: rs0).
    { rewrite run_list_cons. cbn. eauto. }
    destruct Hne as (r0 & rs0 & E). rewrite E in *. cbn [hdres hd tl app] in *.
    split.
    - rewrite app_assoc. reflexivity.
    - rewrite flat_map_app. intros x Hx. apply in_app_or in Hx as [Hx|Hx].
      + apply in_or_app; left. apply Hincla; exact Hx.
      + apply in_or_app; right. apply Herr. apply Hincl1. exact Hx.
  Qed.

  (* ---- the chain ---- *)
  Definition chainL (l : list (wrapper P)) : layer (list (ws P)) := fun S inner => bind_outer l inner.

  Lemma transparent_nil : transparentL (chainL []).
  Proof.
    intros S inner own s p Hp. exists p, [], own, [].
    split; [apply upto_refl|]. split; [exact Hp|]. split; [constructor|].
    unfold chainL; cbn [bind_outer]. rewrite run_list_one. cbn [fst snd hdres hd tl flat_map].
    destruct (inner p s) as [s' r]. cbn. rewrite app_nil_r. split; [destruct r; reflexivity|].
    intros x Hx; exact Hx.
  Qed.

  Lemma transparent_cons w l : transparent w -> transparentL (chainL l) -> transparentL (chainL (w :: l)).
  Proof.
    intros Hw Hl S inner sts s p Hp.
    destruct (transparent_compose _ _ w (chainL l) Hw Hl S inner (hd ws0 sts, List.tl sts) s p Hp)
      as (p' & inj & [o2 o1] & extra & Hu & Hp' & Hinj & Heq & Hincl).
    exists p', inj, (o2 :: o1), extra. repeat (split; auto).
    unfold chainL in *. cbn [bind_outer]. unfold compose in Heq.
    destruct (w (list (ws P) * S)%type (bind_outer l inner) p (hd ws0 sts, (List.tl sts, s)))
      as [[o2' [o1' s']] r] eqn:E.
    inversion Heq; subst. reflexivity.
  Qed.

  (* C01: every chain of transparent wrappers - any members, any order, any length -
     is transparent.  [l] is outermost first. *)
  Theorem chain_transparent_outer (l : list (wrapper P)) :
    Forall transparent l -> transparentL (chainL l).
  Proof.
    induction 1 as [|w l Hw _ IH]; [apply transparent_nil|apply transparent_cons; auto].
  Qed.

  (* Chain.interceptors order (member 0 next to the transport) *)
  Theorem chain_transparent (l : list (wrapper P)) :
    Forall transparent l -> transparentL (fun S inner => chain_bind l inner).
  Proof.
    intros H. unfold chain_bind. apply (chain_transparent_outer (rev l)).
    apply Forall_rev; exact H.
  Qed.

  (* chain.go's loop "writer = member.BindLocalStream(info, writer)": binding l ++ [w]
     is w wrapped around the binding of l (the last member is outermost) *)
  Lemma chain_bind_snoc (l : list (wrapper P)) w S (inner : writer P S) p sts s :
    chain_bind (l ++ [w]) inner p (sts, s) =
    (let '((own', (sts', s')), r) := w _ (chain_bind l inner) p (hd ws0 sts, (List.tl sts, s)) in
     ((own' :: sts', s'), r)).
  Proof. unfold chain_bind. rewrite rev_app_distr. reflexivity. Qed.

  (* a member injecting a packet of its own into ITS inner writer: the wrappers below it
     treat it like any packet (transparently); members above never see it *)
  Lemma inject_transparent (l : list (wrapper P)) k : Forall transparent l ->
    forall S (inner : writer P S) sts s q, Pok q ->
    exists q' inj sts' extra, upto q q' /\ Pok q' /\ Forall Pok inj /\
      chain_inject l k inner q (sts, s) =
        ((firstn (Datatypes.S k) sts ++ sts', fst (run_list inner (q' :: inj) s)),
         (fst (hdres (snd (run_list inner (q' :: inj) s))),
          snd (hdres (snd (run_list inner (q' :: inj) s))) ++ extra)) /\
      incl extra (flat_map snd (tl (snd (run_list inner (q' :: inj) s)))).
  Proof.
    intros Hl S inner sts s q Hq.
    assert (Hsk : Forall transparent (skipn (Datatypes.S k) l)).
    { rewrite <- (firstn_skipn (Datatypes.S k) l) in Hl. apply Forall_app in Hl. tauto. }
    destruct (chain_transparent_outer _ Hsk S inner (skipn (Datatypes.S k) sts) s q Hq)
      as (q' & inj & sts' & extra & Hu & Hq' & Hinj & Heq & Hincl).
    exists q', inj, sts', extra. repeat (split; auto).
    unfold chain_inject. unfold chainL in Heq. rewrite Heq. reflexivity.
  Qed.

  (* ---- the library wrappers ---- *)
  Lemma transparent_id : transparent (w_id).
  Proof.
    intros S inner own s p Hp. exists p, [], own, [].
    split; [apply upto_refl|]. split; [exact Hp|]. split; [constructor|].
    rewrite run_list_one. cbn [fst snd hdres hd tl flat_map]. unfold w_id.
    destruct (inner p s) as [s' [n e]]. cbn. rewrite app_nil_r. split; [reflexivity|intros x Hx; exact Hx].
  Qed.

  Lemma transparent_record : transparent (w_record).
  Proof.
    intros S inner own s p Hp. exists p, [], (mkWs (w_ctr own + 1) (w_log own ++ [p])), [].
    split; [apply upto_refl|]. split; [exact Hp|]. split; [constructor|].
    rewrite run_list_one. cbn [fst snd hdres hd tl flat_map]. unfold w_record.
    destruct (inner p s) as [s' [n e]]. cbn. rewrite app_nil_r. split; [reflexivity|intros x Hx; exact Hx].
  Qed.

  Variable same_stream : P -> bool.
  Variable np_fail : P -> bool.
  Hypothesis Pok_np : forall p, Pok p -> same_stream p = true -> np_fail p = false.

  Lemma transparent_responder bound : transparent (w_responder same_stream np_fail bound).
  Proof.
    destruct bound; [|apply transparent_id].
    intros S inner own s p Hp. unfold w_responder. cbn [negb].
    destruct (same_stream p) eqn:Ess; cbn [negb].
    - rewrite (Pok_np p Hp Ess).
      exists p, [], (mkWs (w_ctr own + 1) (w_log own ++ [p])), [].
      split; [apply upto_refl|]. split; [exact Hp|]. split; [constructor|].
      rewrite run_list_one. cbn [fst snd hdres hd tl flat_map].
      destruct (inner p s) as [s' [n e]]. cbn. rewrite app_nil_r. split; [reflexivity|intros x Hx; exact Hx].
    - exists p, [], own, [].
      split; [apply upto_refl|]. split; [exact Hp|]. split; [constructor|].
      rewrite run_list_one. cbn [fst snd hdres hd tl flat_map].
      destruct (inner p s) as [s' [n e]]. cbn. rewrite app_nil_r. split; [reflexivity|intros x Hx; exact Hx].
  Qed.

  Variable set_tcc : Z -> Z -> P -> option P.
  Variable sid_ok : Z -> Prop.
  Hypothesis set_tcc_ok : forall sid n p, sid_ok sid -> Pok p ->
    exists p', set_tcc sid n p = Some p' /\ upto p p' /\ Pok p'.

  Lemma transparent_twcc_ext sid : sid = 0 \/ sid_ok sid -> transparent (w_twcc_ext set_tcc sid).
  Proof.
    intros Hsid S inner own s p Hp. unfold w_twcc_ext.
    destruct (sid =? 0) eqn:E0; [apply transparent_id; exact Hp|].
    destruct Hsid as [->|Hsid]; [discriminate|].
    destruct (set_tcc_ok sid (w_ctr own) p Hsid Hp) as (p' & Hset & Hu & Hp').
    rewrite Hset.
    exists p', [], (mkWs ((w_ctr own + 1) mod 4294967296) (w_log own)), [].
    split; [exact Hu|]. split; [exact Hp'|]. split; [constructor|].
    rewrite run_list_one. cbn [fst snd hdres hd tl flat_map].
    destruct (inner p' s) as [s' [n e]]. cbn. rewrite app_nil_r. split; [reflexivity|intros x Hx; exact Hx].
  Qed.

  Variable encode : list P -> list P.
  Hypothesis encode_ok : forall buf, Forall Pok (encode buf).

  Lemma transparent_flexfec on num_media : transparent (w_flexfec same_stream encode on num_media).
  Proof.
    destruct on; [|apply transparent_id].
    intros S inner own s p Hp. unfold w_flexfec. cbn [negb].
    destruct (same_stream p) eqn:Ess; cbn [negb].
    - set (buf := w_log own ++ [p]).
      set (full := Z.of_nat (length buf) =? num_media).
      set (fec := if full then encode buf else []).
      exists p, fec, (mkWs (w_ctr own) (if full then [] else buf)), (flat_map snd (snd (run_list inner fec (fst (inner p s))))).
      split; [apply upto_refl|]. split; [exact Hp|].
      split; [unfold fec; destruct full; [apply encode_ok|constructor]|].
      rewrite run_list_cons. cbn [fst snd hdres hd tl].
      destruct (inner p s) as [s1 [n e]]. cbn [fst snd].
      destruct (run_list inner fec s1) as [s2 rs]. cbn [fst snd].
      split; [reflexivity|intros x Hx; exact Hx].
    - exists p, [], own, [].
      split; [apply upto_refl|]. split; [exact Hp|]. split; [constructor|].
      rewrite run_list_one. cbn [fst snd hdres hd tl flat_map].
      destruct (inner p s) as [s' [n e]]. cbn. rewrite app_nil_r. split; [reflexivity|intros x Hx; exact Hx].
  Qed.

  (* what transparency gives the application, spelled out for a logging transport:
     after any sequence of application writes through any chain of transparent wrappers
     the transport has seen, per write and in order, that write's packet (up to TWCC)
     first and then only packets made by wrappers. *)
  Definition log_writer (script : P -> wres) : writer P (list P) := fun p log => (log ++ [p], script p).

  Inductive log_of : list P -> list P -> Prop :=
  | log_nil : log_of [] []
  | log_cons p p' inj ps rest : upto p p' -> Forall Pok inj -> log_of ps rest ->
      log_of (p :: ps) (p' :: inj ++ rest).

  Lemma run_log_writer script qs log :
    fst (run_list (log_writer script) qs log) = log ++ qs.
  Proof.
    revert log; induction qs as [|q qs IH]; intros log; simpl.
    - rewrite app_nil_r; reflexivity.
    - specialize (IH (log ++ [q])). destruct (run_list (log_writer script) qs (log ++ [q])) as [s2 rs].
      cbn in *. rewrite IH, <- app_assoc. reflexivity.
  Qed.

  Theorem transport_log T (L : layer T) : transparentL L ->
    forall script ps own log0, Forall Pok ps ->
    exists suffix, snd (fst (run_list (L _ (log_writer script)) ps (own, log0))) = log0 ++ suffix /\
                   log_of ps suffix.
  Proof.
    intros HL script ps; induction ps as [|p ps IH]; intros own log0 Hok.
    - exists []. simpl. rewrite app_nil_r. split; [reflexivity|constructor].
    - inversion Hok as [|? ? Hp Hps]; subst.
      destruct (HL _ (log_writer script) own log0 p Hp) as (p' & inj & own1 & extra & Hu & Hp' & Hinj & Heq & _).
      rewrite run_list_cons, Heq. cbn [fst snd].
      rewrite run_log_writer.
      destruct (IH own1 (log0 ++ p' :: inj) Hps) as (suf & Hsuf & Hlog).
      exists (p' :: inj ++ suf). split.
      + rewrite Hsuf. rewrite <- app_assoc. reflexivity.
      + constructor; auto.
  Qed.
End WriterProofs.

(* ========================================================================= *)
Section ReaderProofs.
  Variables (D H : Type) (parse : D -> option H).
  Variable tcc_ext : H -> option bool.

  Definition rn (r : rres D H) : Z := fst (fst (fst r)).
  Definition rd (r : rres D H) : D := snd (fst (fst r)).
  Definition ra (r : rres D H) : option (attrs H) := snd (fst r).
  Definition re (r : rres D H) : list Z := snd r.

  (* the parse cache travelling with the attributes describes the bytes delivered, b[:n] *)
  Definition cache_ok (a : option (attrs H)) (d : D) : Prop :=
    forall x h, a = Some x -> a_cache x = Some h -> parse d = Some h.

  (* a' is the map a (same identity), possibly with the cache filled in and keys added;
     a nil map may have been replaced by one the wrapper made *)
  Definition attr_ext (a a' : option (attrs H)) : Prop :=
    match a, a' with
    | Some x, Some y => a_id x = a_id y /\ incl (a_keys x) (a_keys y) /\ (forall h, a_cache x = Some h -> a_cache y = Some h)
    | None, _ => True
    | Some _, None => False
    end.

  Lemma attr_ext_refl a : attr_ext a a.
  Proof. destruct a; cbn; auto. repeat split; auto. intros x Hx; exact Hx. Qed.

  Lemma attr_ext_trans a b c : attr_ext a b -> attr_ext b c -> attr_ext a c.
  Proof.
    destruct a as [x|], b as [y|], c as [z|]; cbn; try tauto.
    intros (H1 & H2 & H3) (H4 & H5 & H6). repeat split; [congruence| |auto].
    intros k Hk. apply H5, H2, Hk.
  Qed.

  (* well-formed packet: parses, and a transport-wide-CC extension, if present, has two bytes *)
  Definition Dok (d : D) : Prop := exists h, parse d = Some h /\ tcc_ext h <> Some false.

  Definition rlayer (T : Type) := forall S : Type, reader D H S -> reader D H (T * S).

  (* read-side transparency, for EVERY inner reader:
     1. the inner reader is called exactly once (inner state = state after that call);
     2. the bytes are the inner reader's; 3. the cache invariant is preserved (always);
     4. an inner error is returned and the wrapper's own state is unchanged;
     5. on success with a well-formed packet: same n, no error, same attributes (up to
        the cache / added keys). *)
  Definition rtransparentL {T} (ok : T -> Prop) (L : rlayer T) : Prop :=
    forall S (inner : reader D H S) a own s, ok own ->
      let r := snd (inner a s) in
      let R := L S inner a (own, s) in
      snd (fst R) = fst (inner a s) /\
      rd (snd R) = rd r /\
      (cache_ok (ra r) (rd r) -> cache_ok (ra (snd R)) (rd r)) /\
      (re r <> [] -> fst (fst R) = own /\ re (snd R) = re r) /\
      (re r = [] -> Dok (rd r) -> cache_ok (ra r) (rd r) ->
         rn (snd R) = rn r /\ re (snd R) = [] /\ attr_ext (ra r) (ra (snd R))).

  Definition rtransparent (w : rwrapper D H) : Prop := rtransparentL (fun _ => True) w.

  Definition rcompose {T1 T2} (L2 : rlayer T2) (L1 : rlayer T1) : rlayer (T2 * T1) :=
    fun S inner a st =>
      let '((o2, o1), s) := st in
      let '((o2', (o1', s')), r) := L2 _ (L1 S inner) a (o2, (o1, s)) in
      (((o2', o1'), s'), r).

  Lemma rtransparent_compose T1 T2 ok2 ok1 (L2 : rlayer T2) (L1 : rlayer T1) :
    rtransparentL ok2 L2 -> rtransparentL ok1 L1 ->
    rtransparentL (fun o => ok2 (fst o) /\ ok1 (snd o)) (rcompose L2 L1).
  Proof.
    intros H2 H1 S inner a [o2 o1] s [Hok2 Hok1]. cbv zeta. cbn [fst snd] in Hok1, Hok2.
    specialize (H2 _ (L1 S inner) a o2 (o1, s) Hok2). specialize (H1 S inner a o1 s Hok1). cbv zeta in H1, H2.
    unfold rcompose.
    destruct (L2 (T1 * S)%type (L1 S inner) a (o2, (o1, s))) as [[o2' [o1' s']] R] eqn:E2.
    destruct (L1 S inner a (o1, s)) as [[o1a sa] R1] eqn:E1.
    destruct (inner a s) as [s0 r] eqn:E0.
    cbn [fst snd] in *.
    destruct H2 as (A1 & A2 & A3 & A4 & A5). destruct H1 as (B1 & B2 & B3 & B4 & B5).
    inversion A1; subst o1' s'. subst sa.
    split; [reflexivity|]. split; [congruence|].
    split; [intros Hc; rewrite <- B2; apply A3; rewrite B2; apply B3; exact Hc|].
    split.
    - intros He. destruct (B4 He) as [-> Hre1].
      assert (He1 : re R1 <> []) by (rewrite Hre1; exact He).
      destruct (A4 He1) as [-> Hre2]. split; [reflexivity|congruence].
    - intros He Hd Hc. destruct (B5 He Hd Hc) as (C1 & C2 & C3).
      assert (Hd1 : Dok (rd R1)) by (rewrite B2; exact Hd).
      assert (Hc1 : cache_ok (ra R1) (rd R1)) by (rewrite B2; apply B3; exact Hc).
      destruct (A5 C2 Hd1 Hc1) as (E1' & E2' & E3').
      split; [congruence|]. split; [exact E2'|]. eapply attr_ext_trans; eauto.
  Qed.

  Definition rchainL (l : list (rwrapper D H)) : rlayer (list (rs H)) := fun S inner => rbind_outer l inner.

  (* C01 (read side): every chain of transparent reader wrappers is transparent; the own
     state of a chain is one state per member. [l] is outermost first. *)
  Theorem rchain_transparent_outer (l : list (rwrapper D H)) : Forall rtransparent l ->
    rtransparentL (fun sts => length sts = length l) (rchainL l).
  Proof.
    induction 1 as [|w l Hw Hl IH].
    - intros S inner a own s Hlen. cbv zeta. unfold rchainL. cbn [rbind_outer].
      destruct (inner a s) as [s' r]. cbn [fst snd].
      repeat split; auto. apply attr_ext_refl.
    - intros S inner a own s Hlen. destruct own as [|o sts]; [discriminate|].
      cbn [length] in Hlen. assert (Hlen' : length sts = length l) by lia. cbv zeta.
      pose proof (rtransparent_compose _ _ _ _ w (rchainL l) Hw IH S inner a (o, sts) s (conj I Hlen')) as Hc.
      cbv zeta in Hc. unfold rchainL in *. cbn [rbind_outer hd List.tl]. unfold rcompose in Hc.
      destruct (w (list (rs H) * S)%type (rbind_outer l inner) a (o, (sts, s))) as [[o2' [o1' s']] R] eqn:E.
      cbn [fst snd] in *. destruct Hc as (A1 & A2 & A3 & A4 & A5).
      split; [exact A1|]. split; [exact A2|]. split; [exact A3|]. split; [|exact A5].
      intros He. destruct (A4 He) as [Heq Hre]. split; [|exact Hre].
      inversion Heq; reflexivity.
  Qed.

  Theorem rchain_transparent (l : list (rwrapper D H)) : Forall rtransparent l ->
    rtransparentL (fun sts => length sts = length l) (fun S inner => rchain_bind l inner).
  Proof.
    intros Hl. unfold rchain_bind.
    pose proof (rchain_transparent_outer (rev l) (Forall_rev Hl)) as Hr.
    intros S inner a own s Hlen. apply Hr. rewrite rev_length; exact Hlen.
  Qed.

  (* ---- the library reader wrappers ---- *)
  Lemma rtransparent_id : rtransparent (r_id).
  Proof.
    intros S inner a own s _. cbv zeta. unfold r_id.
    destruct (inner a s) as [s' r]. cbn [fst snd]. repeat split; auto. apply attr_ext_refl.
  Qed.

  Lemma get_parsed_ok (x : attrs H) d : cache_ok (Some x) d -> Dok d ->
    exists h x', get_parsed parse x d = Some (h, x') /\ parse d = Some h /\ a_id x' = a_id x /\
                 a_keys x' = a_keys x /\ a_cache x' = Some h.
  Proof.
    intros Hc (h & Hp & _). unfold get_parsed. destruct (a_cache x) as [h0|] eqn:E.
    - exists h0, x. repeat split; auto. apply (Hc x h0 eq_refl E).
    - rewrite Hp. exists h, (mkA (a_id x) (Some h) (a_keys x)). repeat split; auto.
  Qed.

  Lemma get_parsed_cache (x : attrs H) d h x' : cache_ok (Some x) d ->
    get_parsed parse x d = Some (h, x') -> cache_ok (Some x') d /\ a_id x' = a_id x /\ a_keys x' = a_keys x /\
      (forall k, a_cache x = Some k -> a_cache x' = Some k).
  Proof.
    intros Hc. unfold get_parsed. destruct (a_cache x) as [h0|] eqn:E.
    - intros Heq; inversion Heq; subst. repeat split; auto. intros k Hk; congruence.
    - destruct (parse d) as [h1|] eqn:Ep; [|discriminate]. intros Heq; inversion Heq; subst.
      repeat split; auto; cbn; try discriminate.
      intros y k Hy Hk. inversion Hy; subst. cbn in Hk. congruence.
  Qed.

  Lemma cache_ok_fresh (a : option (attrs H)) d : cache_ok a d -> cache_ok (Some (or_fresh a)) d.
  Proof.
    intros Hc x h Hx Hh. inversion Hx; subst. destruct a as [y|]; cbn in Hh; [|discriminate].
    apply (Hc y h eq_refl Hh).
  Qed.

  Lemma attr_ext_fresh (a : option (attrs H)) (x' : attrs H) :
    a_id x' = a_id (or_fresh a) -> a_keys x' = a_keys (or_fresh a) ->
    (forall k, a_cache (or_fresh a) = Some k -> a_cache x' = Some k) -> attr_ext a (Some x').
  Proof.
    destruct a as [y|]; cbn; auto. intros H1 H2 H3. repeat split; auto. rewrite H2. intros k Hk; exact Hk.
  Qed.

  Lemma cache_ok_none d : cache_ok None d.
  Proof. intros x h Hx; discriminate. Qed.

  Lemma rtransparent_parse_record keep : rtransparent (r_parse_record parse keep).
  Proof.
    intros S inner a own s _. cbv zeta. unfold r_parse_record.
    destruct (inner a s) as [s' [[[n d] at_] e]]. cbn [fst snd rd ra re rn].
    destruct e as [|e0 e].
    - destruct (get_parsed parse (or_fresh at_) d) as [[h at']|] eqn:G; cbn [fst snd rd ra re rn].
      + split; [reflexivity|]. split; [reflexivity|].
        split; [intros Hc; apply (get_parsed_cache _ _ _ _ (cache_ok_fresh _ _ Hc) G)|].
        split; [intros Hne; congruence|].
        intros _ Hd Hc. split; [reflexivity|]. split; [reflexivity|].
        destruct (get_parsed_cache _ _ _ _ (cache_ok_fresh _ _ Hc) G) as (_ & Hid & Hk & Hcc).
        apply attr_ext_fresh; auto.
      + split; [reflexivity|]. split; [reflexivity|]. split; [intros _; apply cache_ok_none|].
        split; [intros Hne; congruence|].
        intros _ Hd Hc. destruct (get_parsed_ok _ _ (cache_ok_fresh _ _ Hc) Hd) as (h & x' & G' & _). congruence.
    - cbn [fst snd rd ra re rn]. split; [reflexivity|]. split; [reflexivity|].
      split; [intros _; apply cache_ok_none|]. split; [intros _; split; reflexivity|]. intros Hf; discriminate.
  Qed.

  (* packetdump receiver, RTCP side: parses a private copy, leaves the cache alone *)
  Lemma rtransparent_parse_nocache : rtransparent (r_parse_nocache parse).
  Proof.
    intros S inner a own s _. cbv zeta. unfold r_parse_nocache.
    destruct (inner a s) as [s' [[[n d] at_] e]]. cbn [fst snd rd ra re rn].
    destruct e as [|e0 e].
    - destruct (parse d) as [h|] eqn:G; cbn [fst snd rd ra re rn].
      + split; [reflexivity|]. split; [reflexivity|].
        split; [intros Hc; apply cache_ok_fresh; exact Hc|].
        split; [intros Hne; congruence|].
        intros _ Hd Hc. split; [reflexivity|]. split; [reflexivity|].
        apply attr_ext_fresh; auto.
      + split; [reflexivity|]. split; [reflexivity|]. split; [intros _; apply cache_ok_none|].
        split; [intros Hne; congruence|].
        intros _ (h & Hp & _) Hc. congruence.
    - cbn [fst snd rd ra re rn]. split; [reflexivity|]. split; [reflexivity|].
      split; [intros _; apply cache_ok_none|]. split; [intros _; split; reflexivity|]. intros Hf; discriminate.
  Qed.

  Lemma rtransparent_twcc_sender sid : rtransparent (r_twcc_sender parse tcc_ext sid).
  Proof.
    unfold r_twcc_sender. destruct (sid =? 0); [apply rtransparent_id|].
    intros S inner a own s _. cbv zeta.
    destruct (inner a s) as [s' [[[n d] at_] e]]. cbn [fst snd rd ra re rn].
    destruct e as [|e0 e].
    - destruct (get_parsed parse (or_fresh at_) d) as [[h at']|] eqn:G; cbn [fst snd rd ra re rn].
      + assert (Hcase : forall own' res,
                  (res = (n, d, Some at', @nil Z) \/ (tcc_ext h = Some false /\ own' = own /\ res = (0, d, None, [E_TCCEXT]))) ->
                  let R := ((own', s'), res) in
                  snd (fst R) = s' /\ rd (snd R) = d /\
                  (cache_ok at_ d -> cache_ok (ra (snd R)) d) /\
                  ((@nil Z) <> [] -> fst (fst R) = own /\ re (snd R) = []) /\
                  (@nil Z = [] -> Dok d -> cache_ok at_ d -> rn (snd R) = n /\ re (snd R) = [] /\ attr_ext at_ (ra (snd R)))).
        { intros own' res Hres. cbv zeta. cbn [fst snd].
          split; [reflexivity|].
          destruct Hres as [->|(Hf & -> & ->)]; cbn [fst snd rd ra re rn].
          - split; [reflexivity|].
            split; [intros Hc; apply (get_parsed_cache _ _ _ _ (cache_ok_fresh _ _ Hc) G)|].
            split; [intros Hne; congruence|].
            intros _ Hd Hc. split; [reflexivity|]. split; [reflexivity|].
            destruct (get_parsed_cache _ _ _ _ (cache_ok_fresh _ _ Hc) G) as (_ & Hid & Hk & Hcc).
            apply attr_ext_fresh; auto.
          - split; [reflexivity|]. split; [intros _; apply cache_ok_none|].
            split; [intros Hne; congruence|].
            intros _ Hd Hc. exfalso.
            destruct (get_parsed_ok _ _ (cache_ok_fresh _ _ Hc) Hd) as (h1 & x1 & G1 & Hp1 & _).
            destruct Hd as (h2 & Hp2 & Hext). rewrite G in G1. inversion G1; subst. congruence. }
        destruct (tcc_ext h) as [[|]|] eqn:Et.
        * apply (Hcase _ _ (or_introl eq_refl)).
        * apply (Hcase own _ (or_intror (conj eq_refl (conj eq_refl eq_refl)))).
        * apply (Hcase _ _ (or_introl eq_refl)).
      + split; [reflexivity|]. split; [reflexivity|]. split; [intros _; apply cache_ok_none|].
        split; [intros Hne; congruence|].
        intros _ Hd Hc. destruct (get_parsed_ok _ _ (cache_ok_fresh _ _ Hc) Hd) as (h & x' & G' & _). congruence.
    - cbn [fst snd rd ra re rn]. split; [reflexivity|]. split; [reflexivity|].
      split; [intros _; apply cache_ok_none|]. split; [intros _; split; reflexivity|]. intros Hf; discriminate.
  Qed.

  Lemma rtransparent_stats : rtransparent (r_stats parse).
  Proof.
    intros S inner a own s _. cbv zeta. unfold r_stats.
    destruct (inner a s) as [s' [[[n d] at_] e]]. cbn [fst snd rd ra re rn].
    destruct e as [|e0 e].
    - destruct (get_parsed parse (or_fresh at_) d) as [[h at']|] eqn:G; cbn [fst snd rd ra re rn].
      + split; [reflexivity|]. split; [reflexivity|].
        split.
        { intros Hc. destruct at_ as [y|]; [|apply cache_ok_none].
          apply (get_parsed_cache _ _ _ _ (cache_ok_fresh _ _ Hc) G). }
        split; [intros Hne; congruence|].
        intros _ Hd Hc. split; [reflexivity|]. split; [reflexivity|].
        destruct at_ as [y|]; [|exact I].
        destruct (get_parsed_cache _ _ _ _ (cache_ok_fresh _ _ Hc) G) as (_ & Hid & Hk & Hcc).
        apply (attr_ext_fresh (Some y)); auto.
      + split; [reflexivity|]. split; [reflexivity|]. split; [auto|].
        split; [intros Hne; congruence|].
        intros _ Hd Hc. split; [reflexivity|]. split; [reflexivity|]. apply attr_ext_refl.
    - cbn [fst snd rd ra re rn]. split; [reflexivity|]. split; [reflexivity|].
      split; [intros _; apply cache_ok_none|]. split; [intros _; split; reflexivity|]. intros Hf; discriminate.
  Qed.

  Lemma rtransparent_stats_rtcp : rtransparent (r_stats_rtcp parse).
  Proof.
    intros S inner a own s _. cbv zeta. unfold r_stats_rtcp.
    destruct (inner a s) as [s' [[[n d] at_] e]]. cbn [fst snd rd ra re rn].
    destruct e as [|e0 e].
    - set (same := match a, at_ with Some ai, Some ar => a_id ai =? a_id ar | _, _ => false end).
      destruct same eqn:Esame.
      + destruct (get_parsed parse (or_fresh at_) d) as [[h at']|] eqn:G; cbn [fst snd rd ra re rn].
        * split; [reflexivity|]. split; [reflexivity|].
          split; [intros Hc; apply (get_parsed_cache _ _ _ _ (cache_ok_fresh _ _ Hc) G)|].
          split; [intros Hne; congruence|].
          intros _ Hd Hc. split; [reflexivity|]. split; [reflexivity|].
          destruct (get_parsed_cache _ _ _ _ (cache_ok_fresh _ _ Hc) G) as (_ & Hid & Hk & Hcc).
          apply attr_ext_fresh; auto.
        * split; [reflexivity|]. split; [reflexivity|]. split; [auto|].
          split; [intros Hne; congruence|].
          intros _ Hd Hc. split; [reflexivity|]. split; [reflexivity|]. apply attr_ext_refl.
      + destruct (get_parsed parse (or_fresh a) d) as [[h at']|] eqn:G; cbn [fst snd rd ra re rn];
          (split; [reflexivity|]; split; [reflexivity|]; split; [auto|];
           split; [intros Hne; congruence|];
           intros _ Hd Hc; split; [reflexivity|]; split; [reflexivity|]; apply attr_ext_refl).
    - cbn [fst snd rd ra re rn]. split; [reflexivity|]. split; [reflexivity|].
      split; [auto|]. split; [intros _; split; reflexivity|]. intros Hf; discriminate.
  Qed.

  Variable has_report : rs H -> H -> bool.
  Lemma rtransparent_rtpfb : rtransparent (r_rtpfb parse has_report).
  Proof.
    intros S inner a own s _. cbv zeta. unfold r_rtpfb.
    destruct (inner a s) as [s' [[[n d] at_] e]]. cbn [fst snd rd ra re rn].
    destruct e as [|e0 e].
    - destruct (get_parsed parse (or_fresh at_) d) as [[h at']|] eqn:G; cbn [fst snd rd ra re rn].
      + split; [reflexivity|]. split; [reflexivity|].
        split.
        { intros Hc. destruct (get_parsed_cache _ _ _ _ (cache_ok_fresh _ _ Hc) G) as (Hc' & _).
          destruct (has_report own h); [|exact Hc'].
          intros x k Hx Hk. inversion Hx; subst. cbn in Hk. apply (Hc' at' k eq_refl Hk). }
        split; [intros Hne; congruence|].
        intros _ Hd Hc. split; [reflexivity|]. split; [reflexivity|].
        destruct (get_parsed_cache _ _ _ _ (cache_ok_fresh _ _ Hc) G) as (_ & Hid & Hk & Hcc).
        destruct (has_report own h); [|apply attr_ext_fresh; auto].
        destruct at_ as [y|]; cbn; auto. cbn in Hid, Hk, Hcc. repeat split; auto.
        rewrite Hk. intros z Hz; right; exact Hz.
      + split; [reflexivity|]. split; [reflexivity|].
        split; [intros Hc; apply cache_ok_fresh; exact Hc|].
        split; [intros Hne; congruence|].
        intros _ Hd Hc. destruct (get_parsed_ok _ _ (cache_ok_fresh _ _ Hc) Hd) as (h & x' & G' & _). congruence.
    - cbn [fst snd rd ra re rn]. split; [reflexivity|]. split; [reflexivity|].
      split; [auto|]. split; [intros _; split; reflexivity|]. intros Hf; discriminate.
  Qed.
End ReaderProofs.

(* ========================================================================= *)
(* Close / Unbind *)

Lemma close_all_length l : length (fst (close_all l)) = length l /\ length (snd (close_all l)) = length l.
Proof.
  induction l as [|m l [IH1 IH2]]; [auto|]. cbn. destruct (close_all l) as [l' es]. cbn in *. lia.
Qed.

(* every member is closed exactly once, nothing else about it changes *)
Lemma close_all_once l : forall i m, nth_error l i = Some m ->
  exists m', nth_error (fst (close_all l)) i = Some m' /\ m_closed m' = m_closed m + 1 /\
             m_unbound_local m' = m_unbound_local m /\ m_unbound_remote m' = m_unbound_remote m /\
             nth_error (snd (close_all l)) i = Some (m_close_err m).
Proof.
  induction l as [|x l IH]; intros [|i] m Hm; try discriminate; cbn in *.
  - inversion Hm; subst. destruct (close_all l) as [l' es]. cbn. eexists; repeat split.
  - destruct (IH i m Hm) as (m' & H1 & H2). destruct (close_all l) as [l' es]. cbn in *. eauto.
Qed.

Lemma drop_nil_in l e : In (Some e) l <-> In e (drop_nil l).
Proof.
  induction l as [|[x|] l IH]; cbn; [tauto| |].
  - split; intros [Hx|Hx]; [inversion Hx; auto|right; apply IH; auto|left; congruence|right; apply IH; auto].
  - split; [intros [Hx|Hx]; [discriminate|apply IH; auto]|intros Hx; right; apply IH; auto].
Qed.

Lemma err_is_multi l t : err_is (EMulti l) t = existsb (fun x => err_is x t) l.
Proof. induction l as [|x l IH]; cbn in *; [reflexivity|]. rewrite <- IH. reflexivity. Qed.

(* flattenErrs: nil iff every error is nil; otherwise errors.Is finds exactly what
   errors.Is finds in one of the members' errors *)
Lemma flatten_errs_none l : flatten_errs l = None <-> Forall (fun e => e = None) l.
Proof.
  unfold flatten_errs. induction l as [|[x|] l IH]; cbn.
  - split; auto.
  - split; [discriminate|intros Hf; inversion Hf; discriminate].
  - destruct (drop_nil l) eqn:E.
    + split; [intros _; constructor; auto; apply IH; reflexivity|reflexivity].
    + split; [discriminate|intros Hf; inversion Hf; subst; apply IH in H2; discriminate].
Qed.

Lemma flatten_errs_is l t :
  (exists e, flatten_errs l = Some e /\ err_is e t = true) <->
  (exists e, In (Some e) l /\ err_is e t = true).
Proof.
  unfold flatten_errs. split.
  - intros (e & He & Ht). destruct (drop_nil l) as [|x tl] eqn:E; [discriminate|].
    inversion He; subst. rewrite err_is_multi in Ht. apply existsb_exists in Ht as (y & Hy & Hyt).
    exists y. split; [apply drop_nil_in; rewrite E; exact Hy|exact Hyt].
  - intros (e & He & Ht). apply drop_nil_in in He. destruct (drop_nil l) as [|x tl] eqn:E; [destruct He|].
    exists (EMulti (x :: tl)). split; [reflexivity|]. rewrite err_is_multi. apply existsb_exists. eauto.
Qed.
