(* Proofs for C01: transparency is closed under composition; each library wrapper
   (hand model of its closure) is transparent; chain theorems by induction on the list. *)
From IV Require Import Base.Word Model.TwccHdrExt Model.Chain.
From Coq Require Import Lia.
Open Scope Z_scope.

(* ========================================================================= *)
Section WriterProofs.
  Variable P : Type.
  (* "the same packet up to the transport-wide-CC header extension" *)
  Variable upto : P -> P -> Prop.
  Hypothesis upto_refl : forall p, upto p p.
  Hypothesis upto_trans : forall a b c, upto a b -> upto b c -> upto a c.
  (* packets in scope of the property (closed under everything wrappers do) *)
  Variable Pok : P -> Prop.

  Definition layer (T : Type) := forall S : Type, writer P S -> writer P (T * S).
  Definition hdres (l : list wres) : wres := hd (0, []) l.

  (* [L] is transparent: for EVERY inner writer (any state type, any behaviour) one call
     of [L inner] on an in-scope packet p performs exactly the inner calls p' :: inj in
     this order (the inner state afterwards is the state after exactly these calls),
     where p' is p up to the TWCC extension and inj are packets L made itself; it
     returns the n of the call for p' and that call's errors (plus, possibly, errors
     the inner writer returned for the injected packets - errors.Join). *)
  Definition transparentL {T} (L : layer T) : Prop :=
    forall S (inner : writer P S) own s p, Pok p ->
    exists p' inj own' extra,
      upto p p' /\ Pok p' /\ Forall Pok inj /\
      L S inner p (own, s) =
        ((own', fst (run_list inner (p' :: inj) s)),
         (fst (hdres (snd (run_list inner (p' :: inj) s))),
          snd (hdres (snd (run_list inner (p' :: inj) s))) ++ extra)) /\
      incl extra (flat_map snd (tl (snd (run_list inner (p' :: inj) s)))).

  Definition transparent (w : wrapper P) : Prop := transparentL w.

  Lemma run_list_app S (inner : writer P S) a b s :
    run_list inner (a ++ b) s =
    (fst (run_list inner b (fst (run_list inner a s))),
     snd (run_list inner a s) ++ snd (run_list inner b (fst (run_list inner a s)))).
  Proof.
    revert s; induction a as [|x a IH]; intros s; simpl.
    - destruct (run_list inner b s); reflexivity.
    - destruct (inner x s) as [s1 r]. rewrite IH.
      destruct (run_list inner a s1) as [s2 rs]. simpl. reflexivity.
  Qed.

  Lemma run_list_one S (inner : writer P S) p s :
    run_list inner [p] s = (fst (inner p s), [snd (inner p s)]).
  Proof. simpl. destruct (inner p s); reflexivity. Qed.

  Lemma run_list_cons S (inner : writer P S) p l s :
    run_list inner (p :: l) s =
    (fst (run_list inner l (fst (inner p s))), snd (inner p s) :: snd (run_list inner l (fst (inner p s)))).
  Proof. simpl. destruct (inner p s) as [s1 r]. simpl. destruct (run_list inner l s1); reflexivity. Qed.

  (* running a transparent layer over a list of in-scope packets: the inner writer sees
     some list of in-scope packets, and every error the layer returned came from it *)
  Lemma transparent_run_list T (L : layer T) : transparentL L ->
    forall S (inner : writer P S) qs own s, Forall Pok qs ->
    exists qs' own', Forall Pok qs' /\
      fst (run_list (L S inner) qs (own, s)) = (own', fst (run_list inner qs' s)) /\
      incl (flat_map snd (snd (run_list (L S inner) qs (own, s))))
           (flat_map snd (snd (run_list inner qs' s))).
  Proof.
    intros HL S inner qs; induction qs as [|q qs IH]; intros own s Hok.
    - exists [], own. simpl. repeat split; auto. intros x Hx; exact Hx.
    - inversion Hok as [|? ? Hq Hqs]; subst.
      destruct (HL S inner own s q Hq) as (p' & inj & own1 & extra & Hu & Hp' & Hinj & Heq & Hincl).
      rewrite run_list_cons. rewrite Heq. cbn [fst snd].
      destruct (IH own1 (fst (run_list inner (p' :: inj) s)) Hqs) as (qs2 & own2 & Hok2 & Hst & Herr).
      exists ((p' :: inj) ++ qs2), own2. split; [|split].
      + apply Forall_app; split; auto.
      + rewrite Hst. rewrite run_list_app. reflexivity.
      + rewrite run_list_app. cbn [snd]. rewrite flat_map_app.
        cbn [flat_map]. intros x Hx. apply in_app_or in Hx as [Hx|Hx].
        * apply in_or_app; left.
          destruct (snd (run_list inner (p' :: inj) s)) as [|r0 rs0] eqn:E.
          { rewrite run_list_cons in E. discriminate. }
          cbn [hdres hd tl flat_map] in *. apply in_app_or in Hx as [Hx|Hx].
          { apply in_or_app; left; exact Hx. }
          { apply in_or_app; right. apply Hincl; exact Hx. }
        * apply in_or_app; right. apply Herr; exact Hx.
  Qed.

  (* ---- closure under composition ---- *)
  Definition compose {T1 T2} (L2 : layer T2) (L1 : layer T1) : layer (T2 * T1) :=
    fun S inner p st =>
      let '((o2, o1), s) := st in
      let '((o2', (o1', s')), r) := L2 _ (L1 S inner) p (o2, (o1, s)) in
      (((o2', o1'), s'), r).

  Lemma transparent_compose T1 T2 (L2 : layer T2) (L1 : layer T1) :
    transparentL L2 -> transparentL L1 -> transparentL (compose L2 L1).
  Proof.
    intros H2 H1 S inner [o2 o1] s p Hp.
    destruct (H2 _ (L1 S inner) o2 (o1, s) p Hp) as (p1 & inj1 & o2' & extra1 & Hu1 & Hp1 & Hinj1 & Heq1 & Hincl1).
    unfold compose. rewrite Heq1. clear Heq1.
    rewrite run_list_cons in *. cbn [fst snd hdres hd tl] in *.
    destruct (H1 S inner o1 s p1 Hp1) as (p2 & inja & o1a & extraa & Hua & Hpa & Hinja & Heqa & Hincla).
    rewrite Heqa in *. cbn [fst snd] in *.
    destruct (transparent_run_list _ L1 H1 S inner inj1 o1a (fst (run_list inner (p2 :: inja) s)) Hinj1)
      as (qs' & o1b & Hqs' & Hst & Herr).
    rewrite Hst. cbn [fst snd].
    exists p2, (inja ++ qs'), (o2', o1b), (extraa ++ extra1).
    split; [eapply upto_trans; eauto|]. split; [exact Hpa|]. split; [apply Forall_app; split; auto|].
    change (p2 :: inja ++ qs') with ((p2 :: inja) ++ qs').
    rewrite run_list_app. cbn [fst snd].
    assert (Hne : exists r0 rs0, snd (run_list inner (p2 :: inja) s) = r0 :: rs0).
    { rewrite run_list_cons. cbn. eauto. }
    destruct Hne as (r0 & rs0 & E). rewrite E in *. cbn [hdres hd tl app] in *.
    split.
    - rewrite app_assoc. reflexivity.
    - rewrite flat_map_app. intros x Hx. apply in_app_or in Hx as [Hx|Hx].
      + apply in_or_app; left. apply Hincla; exact Hx.
      + apply in_or_app; right. apply Herr. apply Hincl1. exact Hx.
  Qed.

  (* ---- the chain ---- *)
  Definition chainL (l : list (wrapper P)) : layer (list (ws P)) := fun S inner => bind_outer l inner.

  Lemma transparent_nil : transparentL (chainL []).
  Proof.
    intros S inner own s p Hp. exists p, [], own, [].
    split; [apply upto_refl|]. split; [exact Hp|]. split; [constructor|].
    unfold chainL; cbn [bind_outer]. rewrite run_list_one. cbn [fst snd hdres hd tl flat_map].
    destruct (inner p s) as [s' r]. cbn. rewrite app_nil_r. split; [destruct r; reflexivity|].
    intros x Hx; exact Hx.
  Qed.

  Lemma transparent_cons w l : transparent w -> transparentL (chainL l) -> transparentL (chainL (w :: l)).
  Proof.
    intros Hw Hl S inner sts s p Hp.
    destruct (transparent_compose _ _ w (chainL l) Hw Hl S inner (hd ws0 sts, List.tl sts) s p Hp)
      as (p' & inj & [o2 o1] & extra & Hu & Hp' & Hinj & Heq & Hincl).
    exists p', inj, (o2 :: o1), extra. repeat (split; auto).
    unfold chainL in *. cbn [bind_outer]. unfold compose in Heq.
    destruct (w (list (ws P) * S)%type (bind_outer l inner) p (hd ws0 sts, (List.tl sts, s)))
      as [[o2' [o1' s']] r] eqn:E.
    inversion Heq; subst. reflexivity.
  Qed.

  (* C01: every chain of transparent wrappers - any members, any order, any length -
     is transparent.  [l] is outermost first. *)
  Theorem chain_transparent_outer (l : list (wrapper P)) :
    Forall transparent l -> transparentL (chainL l).
  Proof.
    induction 1 as [|w l Hw _ IH]; [apply transparent_nil|apply transparent_cons; auto].
  Qed.

  (* Chain.interceptors order (member 0 next to the transport) *)
  Theorem chain_transparent (l : list (wrapper P)) :
    Forall transparent l -> transparentL (fun S inner => chain_bind l inner).
  Proof.
    intros H. unfold chain_bind. apply (chain_transparent_outer (rev l)).
    apply Forall_rev; exact H.
  Qed.

  (* chain.go's loop "writer = member.BindLocalStream(info, writer)": binding l ++ [w]
     is w wrapped around the binding of l (the last member is outermost) *)
  Lemma chain_bind_snoc (l : list (wrapper P)) w S (inner : writer P S) p sts s :
    chain_bind (l ++ [w]) inner p (sts, s) =
    (let '((own', (sts', s')), r) := w _ (chain_bind l inner) p (hd ws0 sts, (List.tl sts, s)) in
     ((own' :: sts', s'), r)).
  Proof. unfold chain_bind. rewrite rev_app_distr. reflexivity. Qed.

  (* a member injecting a packet of its own into ITS inner writer: the wrappers below it
     treat it like any packet (transparently); members above never see it *)
  Lemma inject_transparent (l : list (wrapper P)) k : Forall transparent l ->
    forall S (inner : writer P S) sts s q, Pok q ->
    exists q' inj sts' extra, upto q q' /\ Pok q' /\ Forall Pok inj /\
      chain_inject l k inner q (sts, s) =
        ((firstn (Datatypes.S k) sts ++ sts', fst (run_list inner (q' :: inj) s)),
         (fst (hdres (snd (run_list inner (q' :: inj) s))),
          snd (hdres (snd (run_list inner (q' :: inj) s))) ++ extra)) /\
      incl extra (flat_map snd (tl (snd (run_list inner (q' :: inj) s)))).
  Proof.
    intros Hl S inner sts s q Hq.
    assert (Hsk : Forall transparent (skipn (Datatypes.S k) l)).
    { rewrite <- (firstn_skipn (Datatypes.S k) l) in Hl. apply Forall_app in Hl. tauto. }
    destruct (chain_transparent_outer _ Hsk S inner (skipn (Datatypes.S k) sts) s q Hq)
      as (q' & inj & sts' & extra & Hu & Hq' & Hinj & Heq & Hincl).
    exists q', inj, sts', extra. repeat (split; auto).
    unfold chain_inject. unfold chainL in Heq. rewrite Heq. reflexivity.
  Qed.

  (* ---- the library wrappers ---- *)
  Lemma transparent_id : transparent (w_id).
  Proof.
    intros S inner own s p Hp. exists p, [], own, [].
    split; [apply upto_refl|]. split; [exact Hp|]. split; [constructor|].
    rewrite run_list_one. cbn [fst snd hdres hd tl flat_map]. unfold w_id.
    destruct (inner p s) as [s' [n e]]. cbn. rewrite app_nil_r. split; [reflexivity|intros x Hx; exact Hx].
  Qed.

  Lemma transparent_record : transparent (w_record).
  Proof.
    intros S inner own s p Hp. exists p, [], (mkWs (w_ctr own + 1) (w_log own ++ [p])), [].
    split; [apply upto_refl|]. split; [exact Hp|]. split; [constructor|].
    rewrite run_list_one. cbn [fst snd hdres hd tl flat_map]. unfold w_record.
    destruct (inner p s) as [s' [n e]]. cbn. rewrite app_nil_r. split; [reflexivity|intros x Hx; exact Hx].
  Qed.

  Variable same_stream : P -> bool.
  Variable np_fail : P -> bool.
  Hypothesis Pok_np : forall p, Pok p -> same_stream p = true -> np_fail p = false.

  Lemma transparent_responder bound : transparent (w_responder same_stream np_fail bound).
  Proof.
    destruct bound; [|apply transparent_id].
    intros S inner own s p Hp. unfold w_responder. cbn [negb].
    destruct (same_stream p) eqn:Ess; cbn [negb].
    - rewrite (Pok_np p Hp Ess).
      exists p, [], (mkWs (w_ctr own + 1) (w_log own ++ [p])), [].
      split; [apply upto_refl|]. split; [exact Hp|]. split; [constructor|].
      rewrite run_list_one. cbn [fst snd hdres hd tl flat_map].
      destruct (inner p s) as [s' [n e]]. cbn. rewrite app_nil_r. split; [reflexivity|intros x Hx; exact Hx].
    - exists p, [], own, [].
      split; [apply upto_refl|]. split; [exact Hp|]. split; [constructor|].
      rewrite run_list_one. cbn [fst snd hdres hd tl flat_map].
      destruct (inner p s) as [s' [n e]]. cbn. rewrite app_nil_r. split; [reflexivity|intros x Hx; exact Hx].
  Qed.

  Variable set_tcc : Z -> Z -> P -> option P.
  Variable sid_ok : Z -> Prop.
  Hypothesis set_tcc_ok : forall sid n p, sid_ok sid -> Pok p ->
    exists p', set_tcc sid n p = Some p' /\ upto p p' /\ Pok p'.

  Lemma transparent_twcc_ext sid : sid = 0 \/ sid_ok sid -> transparent (w_twcc_ext set_tcc sid).
  Proof.
    intros Hsid S inner own s p Hp. unfold w_twcc_ext.
    destruct (sid =? 0) eqn:E0; [apply transparent_id; exact Hp|].
    destruct Hsid as [->|Hsid]; [discriminate|].
    destruct (set_tcc_ok sid (w_ctr own) p Hsid Hp) as (p' & Hset & Hu & Hp').
    rewrite Hset.
    exists p', [], (mkWs ((w_ctr own + 1) mod 4294967296) (w_log own)), [].
    split; [exact Hu|]. split; [exact Hp'|]. split; [constructor|].
    rewrite run_list_one. cbn [fst snd hdres hd tl flat_map].
    destruct (inner p' s) as [s' [n e]]. cbn. rewrite app_nil_r. split; [reflexivity|intros x Hx; exact Hx].
  Qed.

  Variable encode : list P -> list P.
  Hypothesis encode_ok : forall buf, Forall Pok (encode buf).

  Lemma transparent_flexfec on num_media : transparent (w_flexfec same_stream encode on num_media).
  Proof.
    destruct on; [|apply transparent_id].
    intros S inner own s p Hp. unfold w_flexfec. cbn [negb].
    destruct (same_stream p) eqn:Ess; cbn [negb].
    - set (buf := w_log own ++ [p]).
      set (full := Z.of_nat (length buf) =? num_media).
      set (fec := if full then encode buf else []).
      exists p, fec, (mkWs (w_ctr own) (if full then [] else buf)), (flat_map snd (snd (run_list inner fec (fst (inner p s))))).
      split; [apply upto_refl|]. split; [exact Hp|].
      split; [unfold fec; destruct full; [apply encode_ok|constructor]|].
      rewrite run_list_cons. cbn [fst snd hdres hd tl].
      destruct (inner p s) as [s1 [n e]]. cbn [fst snd].
      destruct (run_list inner fec s1) as [s2 rs]. cbn [fst snd].
      split; [reflexivity|intros x Hx; exact Hx].
    - exists p, [], own, [].
      split; [apply upto_refl|]. split; [exact Hp|]. split; [constructor|].
      rewrite run_list_one. cbn [fst snd hdres hd tl flat_map].
      destruct (inner p s) as [s' [n e]]. cbn. rewrite app_nil_r. split; [reflexivity|intros x Hx; exact Hx].
  Qed.

  (* what transparency gives the application, spelled out for a logging transport:
     after any sequence of application writes through any chain of transparent wrappers
     the transport has seen, per write and in order, that write's packet (up to TWCC)
     first and then only packets made by wrappers. *)
  Definition log_writer (script : P -> wres) : writer P (list P) := fun p log => (log ++ [p], script p).

  Inductive log_of : list P -> list P -> Prop :=
  | log_nil : log_of [] []
  | log_cons p p' inj ps rest : upto p p' -> Forall Pok inj -> log_of ps rest ->
      log_of (p :: ps) (p' :: inj ++ rest).

  Lemma run_log_writer script qs log :
    fst (run_list (log_writer script) qs log) = log ++ qs.
  Proof.
    revert log; induction qs as [|q qs IH]; intros log; simpl.
    - rewrite app_nil_r; reflexivity.
    - specialize (IH (log ++ [q])). destruct (run_list (log_writer script) qs (log ++ [q])) as [s2 rs].
      cbn in *. rewrite IH, <- app_assoc. reflexivity.
  Qed.

  Theorem transport_log T (L : layer T) : transparentL L ->
    forall script ps own log0, Forall Pok ps ->
    exists suffix, snd (fst (run_list (L _ (log_writer script)) ps (own, log0))) = log0 ++ suffix /\
                   log_of ps suffix.
  Proof.
    intros HL script ps; induction ps as [|p ps IH]; intros own log0 Hok.
    - exists []. simpl. rewrite app_nil_r. split; [reflexivity|constructor].
    - inversion Hok as [|? ? Hp Hps]; subst.
      destruct (HL _ (log_writer script) own log0 p Hp) as (p' & inj & own1 & extra & Hu & Hp' & Hinj & Heq & _).
      rewrite run_list_cons, Heq. cbn [fst snd].
      rewrite run_log_writer.
      destruct (IH own1 (log0 ++ p' :: inj) Hps) as (suf & Hsuf & Hlog).
      exists (p' :: inj ++ suf). split.
      + rewrite Hsuf. rewrite <- app_assoc. reflexivity.
      + constructor; auto.
  Qed.
End WriterProofs.

(* ========================================================================= *)
Section ReaderProofs.
  Variables (D H : Type) (parse : D -> option H).
  Variable tcc_ext : H -> option bool.

  Definition rn (r : rres D H) : Z := fst (fst (fst r)).
  Definition rd (r : rres D H) : D := snd (fst (fst r)).
  Definition ra (r : rres D H) : option (attrs H) := snd (fst r).
  Definition re (r : rres D H) : list Z := snd r.

  (* the parse cache travelling with the attributes describes the bytes delivered, b[:n] *)
  Definition cache_ok (a : option (attrs H)) (d : D) : Prop :=
    forall x h, a = Some x -> a_cache x = Some h -> parse d = Some h.

  (* a' is the map a (same identity), possibly with the cache filled in and keys added;
     a nil map may have been replaced by one the wrapper made *)
  Definition attr_ext (a a' : option (attrs H)) : Prop :=
    match a, a' with
    | Some x, Some y => a_id x = a_id y /\ incl (a_keys x) (a_keys y) /                        (forall h, a_cache x = Some h -> a_cache y = Some h)
    | None, _ => True
    | Some _, None => False
    end.

  Lemma attr_ext_refl a : attr_ext a a.
  Proof. destruct a; cbn; auto. repeat split; auto. intros x Hx; exact Hx. Qed.

  Lemma attr_ext_trans a b c : attr_ext a b -> attr_ext b c -> attr_ext a c.
  Proof.
    destruct a as [x|], b as [y|], c as [z|]; cbn; try tauto.
    intros (H1 & H2 & H3) (H4 & H5 & H6). repeat split; [congruence| |auto].
    intros k Hk. apply H5, H2, Hk.
  Qed.

  (* well-formed packet: parses, and a transport-wide-CC extension, if present, has two bytes *)
  Definition Dok (d : D) : Prop := exists h, parse d = Some h /\ tcc_ext h <> Some false.

  Definition rlayer (T : Type) := forall S : Type, reader D H S -> reader D H (T * S).

  (* read-side transparency, for EVERY inner reader:
     1. the inner reader is called exactly once (inner state = state after that call);
     2. the bytes are the inner reader's; 3. the cache invariant is preserved (always);
     4. an inner error is returned and the wrapper's own state is unchanged;
     5. on success with a well-formed packet: same n, no error, same attributes (up to
        the cache / added keys). *)
  Definition rtransparentL {T} (L : rlayer T) : Prop :=
    forall S (inner : reader D H S) a own s,
      let r := snd (inner a s) in
      let R := L S inner a (own, s) in
      snd (fst R) = fst (inner a s) /      rd (snd R) = rd r /      (cache_ok (ra r) (rd r) -> cache_ok (ra (snd R)) (rd r)) /      (re r <> [] -> fst (fst R) = own /\ re (snd R) = re r) /      (re r = [] -> Dok (rd r) -> cache_ok (ra r) (rd r) ->
         rn (snd R) = rn r /\ re (snd R) = [] /\ attr_ext (ra r) (ra (snd R))).

  Definition rtransparent (w : rwrapper D H) : Prop := rtransparentL w.

  Definition rcompose {T1 T2} (L2 : rlayer T2) (L1 : rlayer T1) : rlayer (T2 * T1) :=
    fun S inner a st =>
      let '((o2, o1), s) := st in
      let '((o2', (o1', s')), r) := L2 _ (L1 S inner) a (o2, (o1, s)) in
      (((o2', o1'), s'), r).

  Lemma rtransparent_compose T1 T2 (L2 : rlayer T2) (L1 : rlayer T1) :
    rtransparentL L2 -> rtransparentL L1 -> rtransparentL (rcompose L2 L1).
  Proof.
    intros H2 H1 S inner a [o2 o1] s. cbv zeta.
    specialize (H2 _ (L1 S inner) a o2 (o1, s)). specialize (H1 S inner a o1 s). cbv zeta in H1, H2.
    unfold rcompose.
    destruct (L2 (T1 * S)%type (L1 S inner) a (o2, (o1, s))) as [[o2' [o1' s']] R] eqn:E2.
    destruct (L1 S inner a (o1, s)) as [[o1a sa] R1] eqn:E1.
    destruct (inner a s) as [s0 r] eqn:E0.
    cbn [fst snd] in *.
    destruct H2 as (A1 & A2 & A3 & A4 & A5). destruct H1 as (B1 & B2 & B3 & B4 & B5).
    inversion A1; subst o1' s'. subst sa.
    split; [reflexivity|]. split; [congruence|].
    split; [intros Hc; rewrite <- B2; apply A3; rewrite B2; apply B3; exact Hc|].
    split.
    - intros He. destruct (B4 He) as [-> Hre1].
      assert (He1 : re R1 <> []) by (rewrite Hre1; exact He).
      destruct (A4 He1) as [-> Hre2]. split; [reflexivity|congruence].
    - intros He Hd Hc. destruct (B5 He Hd Hc) as (C1 & C2 & C3).
      assert (Hd1 : Dok (rd R1)) by (rewrite B2; exact Hd).
      assert (Hc1 : cache_ok (ra R1) (rd R1)) by (rewrite B2; apply B3; exact Hc).
      destruct (A5 C2 Hd1 Hc1) as (E1' & E2' & E3').
      split; [congruence|]. split; [exact E2'|]. eapply attr_ext_trans; eauto.
  Qed.

  Definition rchainL (l : list (rwrapper D H)) : rlayer (list (rs H)) := fun S inner => rbind_outer l inner.

  Lemma rtransparent_nil_gen : forall S (inner : reader D H S) a (own : list (rs H)) s,
      let r := snd (inner a s) in
      let R := rchainL [] S inner a (own, s) in
      snd (fst R) = fst (inner a s) /\ snd R = r /\ fst (fst R) = own.
  Proof. intros. unfold R, r, rchainL. cbn. destruct (inner a s); auto. Qed.

  Lemma rtransparent_nil : rtransparentL (rchainL []).
  Proof.
    intros S inner a own s. cbv zeta.
    destruct (rtransparent_nil_gen S inner a own s) as (A & B & C). cbv zeta in *.
    rewrite B. repeat split; auto. apply attr_ext_refl.
  Qed.

  (* own states of a chain: one per member *)
  Lemma rtransparent_cons w l : rtransparent w -> rtransparentL (rchainL l) ->
    forall S (inner : reader D H S) a o sts s,
      let r := snd (inner a s) in
      let R := rchainL (w :: l) S inner a (o :: sts, s) in
      snd (fst R) = fst (inner a s) /      rd (snd R) = rd r /      (cache_ok (ra r) (rd r) -> cache_ok (ra (snd R)) (rd r)) /      (re r <> [] -> fst (fst R) = o :: sts /\ re (snd R) = re r) /      (re r = [] -> Dok (rd r) -> cache_ok (ra r) (rd r) ->
         rn (snd R) = rn r /\ re (snd R) = [] /\ attr_ext (ra r) (ra (snd R))).
  Proof.
    intros Hw Hl S inner a o sts s. cbv zeta.
    pose proof (rtransparent_compose _ _ w (rchainL l) Hw Hl S inner a (o, sts) s) as Hc. cbv zeta in Hc.
    unfold rchainL in *. cbn [rbind_outer hd List.tl]. unfold rcompose in Hc.
    destruct (w (list (rs H) * S)%type (rbind_outer l inner) a (o, (sts, s))) as [[o2' [o1' s']] R] eqn:E.
    cbn [fst snd] in *.
    destruct Hc as (A1 & A2 & A3 & A4 & A5).
    repeat split; auto; try (apply A4; assumption); try (apply A5; assumption).
    destruct (A4 H0) as [Heq _]. inversion Heq; reflexivity.
  Qed.

  Theorem rchain_transparent_outer (l : list (rwrapper D H)) : Forall rtransparent l ->
    forall S (inner : reader D H S) a sts s, length sts = length l ->
      let r := snd (inner a s) in
      let R := rchainL l S inner a (sts, s) in
      snd (fst R) = fst (inner a s) /      rd (snd R) = rd r /      (cache_ok (ra r) (rd r) -> cache_ok (ra (snd R)) (rd r)) /      (re r <> [] -> fst (fst R) = sts /\ re (snd R) = re r) /      (re r = [] -> Dok (rd r) -> cache_ok (ra r) (rd r) ->
         rn (snd R) = rn r /\ re (snd R) = [] /\ attr_ext (ra r) (ra (snd R))).
  Proof.
    intros Hl. assert (HL : rtransparentL (rchainL l)).
    { induction Hl as [|w l Hw Hl IH]; [apply rtransparent_nil|].
      intros S inner a own s. cbv zeta.
      pose proof (rtransparent_compose _ _ w (rchainL l) Hw IH S inner a (hd rs0 own, List.tl own) s) as Hc.
      cbv zeta in Hc. unfold rchainL in *. cbn [rbind_outer]. unfold rcompose in Hc.
      destruct (w (list (rs H) * S)%type (rbind_outer l inner) a (hd rs0 own, (List.tl own, s))) as [[o2' [o1' s']] R] eqn:E.
      cbn [fst snd] in *. destruct Hc as (A1 & A2 & A3 & A4 & A5).
      repeat split; auto; try (apply A5; assumption).
      - (* own unchanged: only for well-shaped state lists; not claimed here *)
        admit.
      - apply A4; assumption. }
  Abort.
End ReaderProofs.
