(* Proofs for C19: the recorder model (Model/StatsRecorder.v) computes the
   recount (Spec/StatsSpec.v), for every event history, every SSRC, every
   clock rate and every choice of the float kernels. *)
From IV Require Import Base.Word Model.Unwrapper Model.Ntp Model.StatsRecorder Spec.StatsSpec Proofs.UnwrapperProofs.
From Coq Require Import ZifyBool.
Ltac Zify.zify_post_hook ::= Z.div_mod_to_equations.

(* ---- list helpers ---- *)
Lemma zsum_app l1 l2 : zsum (l1 ++ l2) = zsum l1 + zsum l2.
Proof. unfold zsum. induction l1; simpl; lia. Qed.

Lemma zlen_app {A} (l1 l2 : list A) : zlen (l1 ++ l2) = zlen l1 + zlen l2.
Proof. unfold zlen. rewrite app_length. lia. Qed.

Lemma zlen_nonneg {A} (l : list A) : 0 <= zlen l.
Proof. unfold zlen. lia. Qed.

Lemma last_opt_app {A} (l : list A) x : last_opt (l ++ [x]) = Some x.
Proof.
  unfold last_opt. rewrite map_app. simpl.
  induction (map Some l) as [|y ys IH]; simpl; auto.
  destruct (ys ++ [Some x]) eqn:E; [destruct ys; discriminate|]. exact IH.
Qed.

Lemma last_opt_nil {A} : @last_opt A [] = None.
Proof. reflexivity. Qed.

Lemma last_opt_app_l {A} (l1 l2 : list A) :
  last_opt (l1 ++ l2) = match last_opt l2 with Some x => Some x | None => last_opt l1 end.
Proof.
  induction l2 as [|x l2 IH] using rev_ind.
  - rewrite app_nil_r. simpl. destruct (last_opt l1); auto.
  - rewrite app_assoc, !last_opt_app. reflexivity.
Qed.

Lemma flat_map_app' {A B} (f : A -> list B) l1 l2 : flat_map f (l1 ++ l2) = flat_map f l1 ++ flat_map f l2.
Proof. induction l1; simpl; auto. rewrite IHl1, app_assoc. reflexivity. Qed.

Lemma flat_map_snoc {A B} (f : A -> list B) l x : flat_map f (l ++ [x]) = flat_map f l ++ f x.
Proof. rewrite flat_map_app'. simpl. rewrite app_nil_r. reflexivity. Qed.

Lemma prefixes_from_snoc {A} (pre l : list A) x :
  prefixes_from pre (l ++ [x]) = prefixes_from pre l ++ [(pre ++ l, x)].
Proof.
  revert pre; induction l as [|y l IH]; intros pre; simpl.
  - rewrite app_nil_r. reflexivity.
  - rewrite IH, <- app_assoc. reflexivity.
Qed.

Lemma prefixes_snoc {A} (l : list A) x : prefixes (l ++ [x]) = prefixes l ++ [(l, x)].
Proof. unfold prefixes. rewrite prefixes_from_snoc. reflexivity. Qed.

(* firstn n (x :: firstn n l) = firstn n (x :: l): trimming after every append
   equals trimming once *)
Lemma firstn_cons_firstn {A} n (x : A) l : firstn n (x :: firstn n l) = firstn n (x :: l).
Proof.
  destruct n; [reflexivity|]. rewrite !firstn_cons. f_equal.
  rewrite firstn_firstn. f_equal. lia.
Qed.

Lemma u32_succ_mod a : u32 (a mod 4294967296 + 1) = (a + 1) mod 4294967296.
Proof. unfold u32. lia. Qed.

Lemma last_opt_cons {A} (a : A) l : last_opt (a :: l) = match last_opt l with Some x => Some x | None => Some a end.
Proof. change (a :: l) with ([a] ++ l). rewrite last_opt_app_l. reflexivity. Qed.

Lemma unwrap_state st i : fst (unwrap st i) = Some (snd (unwrap st i)).
Proof. destruct st; reflexivity. Qed.

Lemma unwrap_all_length st l : length (unwrap_all st l) = length l.
Proof.
  revert st; induction l as [|i tl IH]; intros st; simpl; auto.
  destruct (unwrap st i). simpl. f_equal. apply IH.
Qed.

Lemma unwrap_all_snoc st l x :
  unwrap_all st (l ++ [x]) =
  unwrap_all st l ++ [snd (unwrap (match last_opt (unwrap_all st l) with Some r => Some r | None => st end) x)].
Proof.
  revert st; induction l as [|i tl IH]; intros st; simpl.
  - destruct (unwrap st x); reflexivity.
  - pose proof (unwrap_state st i) as G. destruct (unwrap st i) as [st' r]. simpl in G. subst st'.
    simpl. rewrite IH. rewrite last_opt_cons.
    destruct (last_opt (unwrap_all (Some r) tl)); reflexivity.
Qed.

Section P.
  Context {F : Type} (fzero : F) (k_units : Z -> Z -> Z) (k_jitter : Z -> F -> Z -> F)
          (k_rjitter : Z -> Z -> F) (k_frac : Z -> F) (k_delay : Z -> Z) (k_ntpfrac : Z -> Z)
          (ssrc rate : Z).

  Notation step := (step k_units k_jitter k_rjitter k_frac k_delay k_ntpfrac ssrc rate).
  Notation run := (run fzero k_units k_jitter k_rjitter k_frac k_delay k_ntpfrac ssrc rate).
  Notation st0 := (st0 fzero).

  Lemma run_snoc evs e : run (evs ++ [e]) = step (run evs) e.
  Proof. unfold StatsRecorder.run. rewrite fold_left_app. reflexivity. Qed.

  Lemma run_nil : run [] = st0.
  Proof. reflexivity. Qed.

  (* ================= group B: recordOutgoingRTP ================= *)
  Definition invB (evs : list event) (b : outb) : Prop :=
    o_sent b = spec_out_sent ssrc evs /\
    o_bytes b = spec_out_bytes ssrc evs /\
    o_hdr b = spec_out_hdr ssrc evs /\
    match first_out_seq ssrc evs with
    | Some f => rf_init b = true /\ rf b = f
    | None => rf_init b = false
    end.

  Lemma out_pks_snoc evs e : out_pks ssrc (evs ++ [e]) = out_pks ssrc evs ++ out_pk ssrc e.
  Proof. apply flat_map_snoc. Qed.

  Lemma first_out_seq_snoc evs e :
    first_out_seq ssrc (evs ++ [e]) =
    match first_out_seq ssrc evs with
    | Some f => Some f
    | None => hd_error (map (fun p => fst (fst p)) (out_pk ssrc e))
    end.
  Proof.
    unfold first_out_seq. rewrite out_pks_snoc, map_app.
    destruct (map _ (out_pks ssrc evs)); reflexivity.
  Qed.

  Lemma invB_run evs : invB evs (sb (run evs)).
  Proof.
    induction evs as [|e evs IH] using rev_ind.
    - repeat split.
    - rewrite run_snoc. destruct IH as (H1 & H2 & H3 & H4).
      unfold invB, spec_out_sent, spec_out_bytes, spec_out_hdr in *.
      rewrite first_out_seq_snoc, out_pks_snoc, !map_app, !zsum_app, zlen_app.
      destruct e; simpl; try (rewrite ?Z.add_0_r; destruct (first_out_seq ssrc evs); tauto).
      unfold rec_out_rtp. destruct (ss =? ssrc) eqn:E; simpl.
      + rewrite H1, H2, H3. unfold zlen, zsum; simpl.
        repeat split; try lia.
        destruct (first_out_seq ssrc evs).
        * destruct H4 as [H4 H5]. rewrite H4. auto.
        * rewrite H4. auto.
      + rewrite ?Z.add_0_r. destruct (first_out_seq ssrc evs); tauto.
  Qed.

  (* ================= group C: recordOutgoingRTCP ================= *)
  Definition invC (evs : list event) (c : fbk) : Prop :=
    i_fir c = spec_fb_sent ssrc is_fir evs /\
    i_pli c = spec_fb_sent ssrc is_pli evs /\
    i_nack c = spec_fb_sent ssrc is_nack evs /\
    srs c = recent (sr_ntps ssrc evs) /\
    rrtrs c = recent (rrtr_ntps evs).

  (* the same invariant over a list of outgoing packets *)
  Definition invCp (ps : list rtcp) (c : fbk) : Prop :=
    i_fir c = (count (fun p => is_fir p && fb_to_s ssrc p) ps) mod 4294967296 /\
    i_pli c = (count (fun p => is_pli p && fb_to_s ssrc p) ps) mod 4294967296 /\
    i_nack c = (count (fun p => is_nack p && fb_to_s ssrc p) ps) mod 4294967296 /\
    srs c = recent (flat_map (sr_ntp ssrc) ps) /\
    rrtrs c = recent (flat_map rrtr_ntp ps).

  Lemma count_snoc f ps p : count f (ps ++ [p]) = count f ps + (if f p then 1 else 0).
  Proof.
    unfold count. rewrite filter_app, zlen_app. simpl. destruct (f p); reflexivity.
  Qed.

  Lemma recent_snoc l x : recent (l ++ [x]) = firstn 5 (x :: recent l).
  Proof.
    unfold recent. rewrite rev_app_distr. simpl rev at 1. simpl app.
    rewrite firstn_cons_firstn. reflexivity.
  Qed.

  Lemma recent_app_blocks (blocks : list xrblock) (l : list Z) c :
    rrtrs c = recent l ->
    let c' := fold_left (rec_rrtr) blocks c in
    i_fir c' = i_fir c /\ i_pli c' = i_pli c /\ i_nack c' = i_nack c /\ srs c' = srs c /\
    rrtrs c' = recent (l ++ flat_map (fun b => match b with XRrtr n => [n] | _ => [] end) blocks).
  Proof.
    revert l c; induction blocks as [|b bs IH]; intros l c H; simpl.
    - rewrite app_nil_r. auto.
    - destruct b; simpl; try (apply IH; assumption).
      specialize (IH (l ++ [ntp]) (mkFbk (i_fir c) (i_pli c) (i_nack c) (srs c) (firstn 5 (ntp :: rrtrs c)))).
      simpl in IH. rewrite <- app_assoc in IH. simpl in IH. apply IH.
      rewrite recent_snoc, H. reflexivity.
  Qed.

  Lemma invCp_step ps p c : invCp ps c -> invCp (ps ++ [p]) (rec_out_rtcp1 ssrc c p).
  Proof.
    intros (H1 & H2 & H3 & H4 & H5). unfold invCp.
    rewrite !count_snoc, !flat_map_snoc.
    destruct p; simpl; rewrite ?Z.add_0_r, ?app_nil_r; auto.
    - (* SR *) unfold addressed. simpl.
      destruct (mem ssrc (map rep_ssrc reps ++ [sender])); simpl; rewrite ?app_nil_r; auto.
      repeat split; auto. rewrite recent_snoc, H4. reflexivity.
    - (* XR *) pose proof (recent_app_blocks blocks _ c H5) as (G1 & G2 & G3 & G4 & G5).
      rewrite G1, G2, G3, G4, G5. auto.
    - (* NACK *) unfold mem; simpl. rewrite orb_false_r, Z.eqb_sym.
      destruct (media =? ssrc); simpl; rewrite ?Z.add_0_r; auto.
      repeat split; auto. rewrite H3. apply u32_succ_mod.
    - (* PLI *) unfold mem; simpl. rewrite orb_false_r, Z.eqb_sym.
      destruct (media =? ssrc); simpl; rewrite ?Z.add_0_r; auto.
      repeat split; auto. rewrite H2. apply u32_succ_mod.
    - (* FIR *) destruct (mem ssrc entries); simpl; rewrite ?Z.add_0_r; auto.
      repeat split; auto. rewrite H1. apply u32_succ_mod.
  Qed.

  Lemma invCp_fold ps0 ps c : invCp ps0 c -> invCp (ps0 ++ ps) (fold_left (rec_out_rtcp1 ssrc) ps c).
  Proof.
    revert ps0 c; induction ps as [|p ps IH]; intros ps0 c H; simpl.
    - rewrite app_nil_r. exact H.
    - replace (ps0 ++ p :: ps) with ((ps0 ++ [p]) ++ ps) by (rewrite <- app_assoc; reflexivity).
      apply IH. apply invCp_step. exact H.
  Qed.

  Lemma invC_run evs : invC evs (sc (run evs)).
  Proof.
    assert (G : invCp (flat_map out_rtcp evs) (sc (run evs))).
    { induction evs as [|e evs IH] using rev_ind.
      - repeat split.
      - rewrite run_snoc, flat_map_snoc.
        destruct e; simpl; rewrite ?app_nil_r; auto.
        apply invCp_fold. exact IH. }
    exact G.
  Qed.

  (* ================= group A: recordIncomingRTP ================= *)
  Definition invA (evs : list event) (a : inb F) : Prop :=
    let U := in_unwrapped ssrc evs in
    uw a = last_opt U /\
    match U with [] => in_init a = false | f :: _ => in_init a = true /\ in_first a = f end /\
    in_high a = fold_left Z.max U 0 /\
    i_recv a = spec_in_recv ssrc evs /\
    i_lost a = spec_in_lost ssrc evs /\
    i_hdr a = spec_in_hdr ssrc evs /\
    i_bytes a = spec_in_bytes ssrc evs /\
    i_last a = spec_in_last ssrc evs.

  Lemma in_pks_snoc evs e : in_pks ssrc (evs ++ [e]) = in_pks ssrc evs ++ in_pk ssrc e.
  Proof. apply flat_map_snoc. Qed.

  Lemma invA_run evs : invA evs (sa (run evs)).
  Proof.
    induction evs as [|e evs IH] using rev_ind.
    - repeat split.
    - rewrite run_snoc.
      assert (Hskip : in_pk ssrc e = [] -> invA (evs ++ [e]) (sa (run evs))).
      { intros E. unfold invA, spec_in_lost, in_unwrapped, spec_in_recv, spec_in_hdr, spec_in_bytes, spec_in_last, in_unwrapped in *.
        rewrite in_pks_snoc, E, app_nil_r. exact IH. }
      destruct e; simpl; try (apply Hskip; reflexivity).
      unfold rec_in_rtp. destruct (ss =? ssrc) eqn:E; simpl; [|apply Hskip; simpl; rewrite E; reflexivity].
      clear Hskip. destruct IH as (H1 & H2 & H3 & H4 & H5 & H6 & H7 & H8).
      unfold invA, spec_in_lost, in_unwrapped, spec_in_recv, spec_in_hdr, spec_in_bytes, spec_in_last, in_unwrapped in *.
      rewrite in_pks_snoc. simpl in_pk. rewrite E. rewrite !map_app. simpl map.
      rewrite unwrap_all_snoc, !zsum_app, zlen_app, !last_opt_app.
      set (U := unwrap_all None (map (pk_seq) (in_pks ssrc evs))) in *.
      rewrite H1. 
      replace (match last_opt U with Some r => Some r | None => None end) with (last_opt U) by (destruct (last_opt U); reflexivity).
      destruct (unwrap (last_opt U) seq) as [uw' sn] eqn:EU.
      assert (Euw : uw' = Some sn).
      { pose proof (unwrap_state (last_opt U) seq) as G. rewrite EU in G. exact G. }
      simpl snd.
      assert (Hhigh : (if sn >? in_high (sa (run evs)) then sn else in_high (sa (run evs))) = fold_left Z.max (U ++ [sn]) 0).
      { rewrite fold_left_app. simpl. rewrite H3. destruct (sn >? _) eqn:G; lia. }
      assert (Hfirst : match U ++ [sn] with [] => False | f :: _ => (if in_init (sa (run evs)) then in_first (sa (run evs)) else sn) = f end).
      { destruct U as [|f U']; simpl.
        - rewrite H2. reflexivity.
        - destruct H2 as [G1 G2]. rewrite G1. exact G2. }
      assert (Hlost : (if sn >? in_high (sa (run evs)) then sn else in_high (sa (run evs)))
                      - (if in_init (sa (run evs)) then in_first (sa (run evs)) else sn) + 1 - (i_recv (sa (run evs)) + 1)
                      = match U ++ [sn] with [] => 0 | first :: _ => fold_left Z.max (U ++ [sn]) 0 - first + 1 - (zlen (in_pks ssrc evs) + zlen [(ts, seq, hdr, pay)]) end).
      { rewrite Hhigh, H4. destruct (U ++ [sn]) eqn:EE; [destruct U; discriminate|]. rewrite Hfirst. unfold zlen; simpl; lia. }
      destruct (arr_init (sa (run evs))); simpl;
        (split; [exact Euw|]); (split; [destruct (U ++ [sn]) eqn:EE; [destruct U; discriminate|split; [reflexivity|exact Hfirst]]|]);
        (split; [exact Hhigh|]); (split; [rewrite H4; unfold zlen; simpl; lia|]); (split; [exact Hlost|]);
        (split; [rewrite H6; unfold zsum; simpl; lia|]); (split; [rewrite H7; unfold zsum; simpl; lia|]); reflexivity.
  Qed.

  (* under well-typed input (sequence numbers are uint16) "highest" is the maximum of the unwrapped numbers *)
  Lemma fold_max_ge l a : a <= fold_left Z.max l a /\ forall x, In x l -> x <= fold_left Z.max l a.
  Proof.
    revert a; induction l as [|y l IH]; intros a; simpl.
    - split; [lia|tauto].
    - destruct (IH (Z.max a y)) as [G1 G2]. split; [lia|].
      intros x [->|Hx]; [lia|auto].
  Qed.

  Lemma fold_max_in l a : fold_left Z.max l a = a \/ In (fold_left Z.max l a) l.
  Proof.
    revert a; induction l as [|y l IH]; intros a; simpl; auto.
    destruct (IH (Z.max a y)) as [G|G]; [|auto].
    rewrite G. destruct (Z.max_spec a y) as [[_ ->]|[_ ->]]; auto.
  Qed.

  Lemma fold_max_is_max l : l <> [] -> Forall (fun x => 0 <= x) l ->
    In (fold_left Z.max l 0) l /\ forall x, In x l -> x <= fold_left Z.max l 0.
  Proof.
    intros Hne Hpos. split; [|apply fold_max_ge].
    destruct (fold_max_in l 0) as [G|G]; auto.
    destruct l as [|y l]; [congruence|].
    inversion Hpos as [|? ? Hy _]; subst.
    destruct (fold_max_ge (y :: l) 0) as [_ G2]. specialize (G2 y (or_introl eq_refl)).
    assert (y = 0) by lia. subst y. rewrite G. left; reflexivity.
  Qed.

  (* ================= group D: recordIncomingRTCP ================= *)
  Definition rtt3 (smp : Z * Z * Z) : Z := let '(ts, d, n) := smp in rtt_of k_delay k_ntpfrac ts d n.
  Definition is_sr_to_s (p : rtcp) : bool :=
    match p with PSR _ _ _ _ _ _ => addressed ssrc p | _ => false end.

  (* the remote-side state summarises: P incoming packets, O reception-report
     occurrences about ssrc, X DLRR occurrences about ssrc *)
  Definition invD4 (P : list rtcp) (O : list (list event * Z * report)) (X : list (list event * Z * dlrr))
             (d : rem F) : Prop :=
    o_nack d = (count (fun p => is_nack p && fb_to_s ssrc p) P) mod 4294967296 /\
    o_fir d = (count (fun p => is_fir p && fb_to_s ssrc p) P) mod 4294967296 /\
    o_pli d = (count (fun p => is_pli p && fb_to_s ssrc p) P) mod 4294967296 /\
    ri_lost d = match last_opt (map occ_rep O) with Some (Rep _ _ lost _ _ _ _) => lost | None => 0 end /\
    ri_jit d = match last_opt (map occ_rep O) with Some (Rep _ _ _ _ jit _ _) => k_rjitter rate jit | None => fzero end /\
    ri_frac d = match last_opt (map occ_rep O) with Some (Rep _ fr _ _ _ _ _) => k_frac fr | None => fzero end /\
    ri_recv d = match last_opt (flat_map (recv_src ssrc) O) with Some v => v | None => 0 end /\
    ri_rtt d = match last_opt (flat_map (lsr_sample ssrc) O) with Some smp => rtt3 smp | None => 0 end /\
    ri_total d = zsum (map rtt3 (flat_map (lsr_sample ssrc) O)) /\
    ri_meas d = zlen (flat_map (lsr_sample ssrc) O) /\
    ro_rtt d = match last_opt (flat_map dlrr_sample X) with Some smp => rtt3 smp | None => 0 end /\
    ro_total d = zsum (map rtt3 (flat_map dlrr_sample X)) /\
    ro_meas d = zlen (flat_map dlrr_sample X) /\
    ro_reports d = zlen (filter is_sr_to_s P) /\
    match last_opt (filter is_sr_to_s P) with
    | Some (PSR _ ntp _ pc oc _) => ro_sent d = pc /\ ro_bytes d = oc /\ ro_ts d = Some (to_time k_ntpfrac ntp)
    | _ => ro_sent d = 0 /\ ro_bytes d = 0 /\ ro_ts d = None
    end.

  Definition invD (evs : list event) (d : rem F) : Prop :=
    invD4 (flat_map in_rtcp evs) (rr_occs ssrc evs) (dl_occs ssrc evs) d.

  (* what the recorder knows from the other groups when an incoming compound arrives after [pre] *)
  Definition ctx (pre : list event) (b : outb) (c : fbk) : Prop :=
    match first_out_seq ssrc pre with
    | Some f => rf_init b = true /\ rf b = f
    | None => rf_init b = false
    end /\ srs c = recent (sr_ntps ssrc pre) /\ rrtrs c = recent (rrtr_ntps pre).

  Lemma highest_id ls : (ls / 65536) * 65536 + ls mod 65536 = ls.
  Proof. lia. Qed.

  (* one matching reception report *)
  Lemma rr1_match pre b c ts P O X d r :
    ctx pre b c -> rep_ssrc r = ssrc -> invD4 P O X d ->
    invD4 P (O ++ [(pre, ts, r)]) X (rec_rr1 k_rjitter k_frac k_delay k_ntpfrac ssrc rate b c ts d r).
  Proof.
    intros (Hb & Hs & _) Hm (H1 & H2 & H3 & H4 & H5 & H6 & H7 & H8 & H9 & H10 & H11 & H12 & H13 & H14 & H15).
    destruct r as [rs fr lost ls jit lsr dly]. simpl in Hm. subst rs.
    unfold rec_rr1. rewrite Z.eqb_refl. simpl negb. cbv iota.
    unfold invD4. rewrite !map_app, !flat_map_snoc, !map_app, !zsum_app, !zlen_app, !last_opt_app_l.
    cbn [map occ_rep snd last_opt last].
    rewrite highest_id.
    assert (Hrecv : (if rf_init b then Z.max (ls - rf b + 1 - lost) 0 else ri_recv d) =
                    match match last_opt (recv_src ssrc (pre, ts, Rep ssrc fr lost ls jit lsr dly)) with
                          | Some x => Some x
                          | None => last_opt (flat_map (recv_src ssrc) O)
                          end with Some v => v | None => 0 end).
    { unfold recv_src. destruct (first_out_seq ssrc pre) as [f|].
      - destruct Hb as [Hb1 Hb2]. rewrite Hb1, Hb2. reflexivity.
      - rewrite Hb. simpl. exact H7. }
    assert (Hsmp : lsr_sample ssrc (pre, ts, Rep ssrc fr lost ls jit lsr dly) =
                   if negb (dly =? 0) && negb (lsr =? 0)
                   then match find (fun n => mid32 n =? lsr) (srs c) with Some n => [(ts, dly, n)] | None => [] end
                   else []).
    { unfold lsr_sample. rewrite Hs. reflexivity. }
    rewrite Hsmp. clear Hsmp.
    destruct (negb (dly =? 0) && negb (lsr =? 0)).
    - destruct (find (fun n => mid32 n =? lsr) (srs c)) as [n|]; simpl.
      + repeat split; auto;
          try (rewrite H9; unfold zsum, rtt3; simpl; lia); try (rewrite H10; unfold zlen; simpl; lia).
      + rewrite !Z.add_0_r. repeat split; auto.
    - simpl. rewrite !Z.add_0_r. repeat split; auto.
  Qed.

  Lemma rr1_skip b c ts d r : rep_ssrc r <> ssrc ->
    rec_rr1 k_rjitter k_frac k_delay k_ntpfrac ssrc rate b c ts d r = d.
  Proof.
    intros Hm. destruct r; simpl in *. destruct (rssrc =? ssrc) eqn:E; [lia|reflexivity].
  Qed.

  Lemma rr_fold pre b c ts P X reps : ctx pre b c -> forall O d, invD4 P O X d ->
    invD4 P (O ++ map (fun r => (pre, ts, r)) (filter (fun r => rep_ssrc r =? ssrc) reps)) X
          (fold_left (rec_rr1 k_rjitter k_frac k_delay k_ntpfrac ssrc rate b c ts) reps d).
  Proof.
    intros Hc. induction reps as [|r reps IH]; intros O d H; simpl.
    - rewrite app_nil_r. exact H.
    - destruct (rep_ssrc r =? ssrc) eqn:E.
      + simpl. replace (O ++ (pre, ts, r) :: map (fun r0 => (pre, ts, r0)) (filter (fun r0 => rep_ssrc r0 =? ssrc) reps))
          with ((O ++ [(pre, ts, r)]) ++ map (fun r0 => (pre, ts, r0)) (filter (fun r0 => rep_ssrc r0 =? ssrc) reps))
          by (rewrite <- app_assoc; reflexivity).
        apply IH. apply rr1_match; auto. lia.
      + rewrite rr1_skip by lia. apply IH. exact H.
  Qed.

  (* one DLRR sub-report *)
  Lemma dl1_match pre b c ts P O X d x :
    ctx pre b c -> dl_ssrc x = ssrc -> invD4 P O X d ->
    invD4 P O (X ++ [(pre, ts, x)]) (rec_dlrr1 k_delay k_ntpfrac ssrc c ts d x).
  Proof.
    intros (_ & _ & Hr) Hm (H1 & H2 & H3 & H4 & H5 & H6 & H7 & H8 & H9 & H10 & H11 & H12 & H13 & H14 & H15).
    destruct x as [xs lrr dl]. simpl in Hm. subst xs.
    unfold rec_dlrr1. rewrite Z.eqb_refl, andb_true_r.
    unfold invD4. rewrite !flat_map_snoc, !map_app, !zsum_app, !zlen_app, !last_opt_app_l.
    assert (Hsmp : dlrr_sample (pre, ts, Dl ssrc lrr dl) =
                   if negb (lrr =? 0) && negb (dl =? 0)
                   then match find (fun n => mid32 n =? lrr) (rrtrs c) with Some n => [(ts, dl, n)] | None => [] end
                   else []).
    { unfold dlrr_sample. rewrite Hr. reflexivity. }
    rewrite Hsmp. clear Hsmp.
    destruct (negb (lrr =? 0) && negb (dl =? 0)).
    - destruct (find (fun n => mid32 n =? lrr) (rrtrs c)) as [n|]; simpl.
      + repeat split; auto;
          try (rewrite H12; unfold zsum, rtt3; simpl; lia); try (rewrite H13; unfold zlen; simpl; lia).
      + rewrite !Z.add_0_r. repeat split; auto.
    - simpl. rewrite !Z.add_0_r. repeat split; auto.
  Qed.

  Lemma dl1_skip c ts d x : dl_ssrc x <> ssrc -> rec_dlrr1 k_delay k_ntpfrac ssrc c ts (d : rem F) x = d.
  Proof.
    intros Hm. destruct x; simpl in *. destruct (dssrc =? ssrc) eqn:E; [lia|].
    rewrite andb_false_r. reflexivity.
  Qed.

  Lemma dl_fold pre b c ts P O l : ctx pre b c -> forall X d, invD4 P O X d ->
    invD4 P O (X ++ map (fun x => (pre, ts, x)) (filter (fun x => dl_ssrc x =? ssrc) l))
          (fold_left (rec_dlrr1 k_delay k_ntpfrac ssrc c ts) l d).
  Proof.
    intros Hc. induction l as [|x l IH]; intros X d H; simpl.
    - rewrite app_nil_r. exact H.
    - destruct (dl_ssrc x =? ssrc) eqn:E.
      + simpl. replace (X ++ (pre, ts, x) :: map (fun x0 => (pre, ts, x0)) (filter (fun x0 => dl_ssrc x0 =? ssrc) l))
          with ((X ++ [(pre, ts, x)]) ++ map (fun x0 => (pre, ts, x0)) (filter (fun x0 => dl_ssrc x0 =? ssrc) l))
          by (rewrite <- app_assoc; reflexivity).
        apply IH. eapply dl1_match; eauto. lia.
      + rewrite dl1_skip by lia. apply IH. exact H.
  Qed.

  Lemma xr_blocks_flat c ts blocks (d : rem F) :
    fold_left (rec_xrblock k_delay k_ntpfrac ssrc c ts) blocks d =
    fold_left (rec_dlrr1 k_delay k_ntpfrac ssrc c ts)
              (flat_map (fun b => match b with XDlrr l => l | _ => [] end) blocks) d.
  Proof.
    revert d; induction blocks as [|blk bs IH]; intros d; simpl; auto.
    rewrite fold_left_app. destruct blk; simpl; apply IH.
  Qed.

  (* spec side: contributions of one more packet *)
  Lemma reps_for_snoc ps p : reps_for ssrc (ps ++ [p]) =
    reps_for ssrc ps ++ (if addressed ssrc p then filter (fun r => rep_ssrc r =? ssrc) (reps_of p) else []).
  Proof.
    unfold reps_for. rewrite filter_app, flat_map_app', filter_app. f_equal.
    simpl. destruct (addressed ssrc p); simpl; rewrite ?app_nil_r; reflexivity.
  Qed.

  Lemma dlrrs_for_snoc ps p : dlrrs_for ssrc (ps ++ [p]) =
    dlrrs_for ssrc ps ++ (if addressed ssrc p then filter (fun x => dl_ssrc x =? ssrc) (dlrrs_of p) else []).
  Proof.
    unfold dlrrs_for. rewrite filter_app, flat_map_app', filter_app. f_equal.
    simpl. destruct (addressed ssrc p); simpl; rewrite ?app_nil_r; reflexivity.
  Qed.

  Lemma invD4_counts_only P O X (d d' : rem F) p :
    invD4 P O X d ->
    is_sr_to_s p = false ->
    o_nack d' = u32 (o_nack d + (if is_nack p && fb_to_s ssrc p then 1 else 0)) ->
    o_fir d' = u32 (o_fir d + (if is_fir p && fb_to_s ssrc p then 1 else 0)) ->
    o_pli d' = u32 (o_pli d + (if is_pli p && fb_to_s ssrc p then 1 else 0)) ->
    ri_lost d' = ri_lost d -> ri_jit d' = ri_jit d -> ri_frac d' = ri_frac d -> ri_recv d' = ri_recv d ->
    ri_rtt d' = ri_rtt d -> ri_total d' = ri_total d -> ri_meas d' = ri_meas d ->
    ro_rtt d' = ro_rtt d -> ro_total d' = ro_total d -> ro_meas d' = ro_meas d ->
    ro_reports d' = ro_reports d -> ro_sent d' = ro_sent d -> ro_bytes d' = ro_bytes d -> ro_ts d' = ro_ts d ->
    invD4 (P ++ [p]) O X d'.
  Proof.
    intros (H1 & H2 & H3 & H4 & H5 & H6 & H7 & H8 & H9 & H10 & H11 & H12 & H13 & H14 & H15) Hsr
           E1 E2 E3 E4 E5 E6 E7 E8 E9 E10 E11 E12 E13 E14 E15 E16 E17.
    unfold invD4. rewrite !count_snoc, filter_app. simpl filter. rewrite Hsr, app_nil_r.
    rewrite E1, E2, E3, E4, E5, E6, E7, E8, E9, E10, E11, E12, E13, E14, E15, E16, E17.
    rewrite H1, H2, H3.
    repeat split; auto; unfold u32;
      match goal with |- context [if ?c then _ else _] => destruct c end; lia.
  Qed.

  (* one packet of an incoming compound *)
  Lemma in_rtcp1_step pre b c ts P O X ps p d : ctx pre b c ->
    invD4 (P ++ ps) (O ++ map (fun r => (pre, ts, r)) (reps_for ssrc ps))
          (X ++ map (fun x => (pre, ts, x)) (dlrrs_for ssrc ps)) d ->
    invD4 (P ++ ps ++ [p]) (O ++ map (fun r => (pre, ts, r)) (reps_for ssrc (ps ++ [p])))
          (X ++ map (fun x => (pre, ts, x)) (dlrrs_for ssrc (ps ++ [p])))
          (rec_in_rtcp1 k_rjitter k_frac k_delay k_ntpfrac ssrc rate b c ts d p).
  Proof.
    intros Hc H. rewrite reps_for_snoc, dlrrs_for_snoc, !map_app, !app_assoc.
    unfold rec_in_rtcp1. unfold addressed.
    destruct (mem ssrc (dest p)) eqn:Ea; simpl negb; cbv iota.
    2:{ (* not addressed: skipped; the recount ignores it too *)
      simpl map. rewrite !app_nil_r.
      eapply invD4_counts_only; eauto.
      - destruct p; simpl; auto; try (unfold addressed; exact Ea).
      - destruct p; simpl; rewrite ?Z.add_0_r; unfold u32; try (destruct H as (G & _); rewrite G; lia).
        simpl in Ea. unfold mem in Ea; simpl in Ea. rewrite orb_false_r, Z.eqb_sym in Ea. rewrite Ea. simpl.
        destruct H as (G & _); rewrite G, Z.add_0_r; lia.
      - destruct p; simpl; rewrite ?Z.add_0_r; unfold u32; try (destruct H as (_ & G & _); rewrite G; lia).
        simpl in Ea. rewrite Ea. simpl. destruct H as (_ & G & _); rewrite G, Z.add_0_r; lia.
      - destruct p; simpl; rewrite ?Z.add_0_r; unfold u32; try (destruct H as (_ & _ & G & _); rewrite G; lia).
        simpl in Ea. unfold mem in Ea; simpl in Ea. rewrite orb_false_r, Z.eqb_sym in Ea. rewrite Ea. simpl.
        destruct H as (_ & _ & G & _); rewrite G, Z.add_0_r; lia. }
    destruct p; simpl reps_of; simpl dlrrs_of; simpl filter; simpl map; rewrite ?app_nil_r.
    - (* SR *)
      apply rr_fold; auto.
      destruct H as (H1 & H2 & H3 & H4 & H5 & H6 & H7 & H8 & H9 & H10 & H11 & H12 & H13 & H14 & H15).
      unfold invD4. rewrite !count_snoc, filter_app. simpl filter. unfold addressed. rewrite Ea.
      rewrite last_opt_app, zlen_app. simpl.
      rewrite !Z.add_0_r. repeat split; auto. rewrite H14. unfold zlen; simpl; lia.
    - (* RR *)
      apply rr_fold; auto.
      eapply invD4_counts_only; eauto; simpl; rewrite ?Z.add_0_r; unfold u32;
        [destruct H as (G & _)|destruct H as (_ & G & _)|destruct H as (_ & _ & G & _)]; rewrite G; lia.
    - (* XR *)
      rewrite xr_blocks_flat. eapply dl_fold; eauto.
      eapply invD4_counts_only; eauto; simpl; rewrite ?Z.add_0_r; unfold u32;
        [destruct H as (G & _)|destruct H as (_ & G & _)|destruct H as (_ & _ & G & _)]; rewrite G; lia.
    - (* NACK *)
      simpl in Ea. unfold mem in Ea; simpl in Ea. rewrite orb_false_r, Z.eqb_sym in Ea. rewrite Ea.
      eapply invD4_counts_only; eauto; simpl; rewrite ?Ea, ?Z.add_0_r; unfold u32; auto;
        [destruct H as (_ & G & _)|destruct H as (_ & _ & G & _)]; rewrite G; lia.
    - (* PLI *)
      simpl in Ea. unfold mem in Ea; simpl in Ea. rewrite orb_false_r, Z.eqb_sym in Ea. rewrite Ea.
      eapply invD4_counts_only; eauto; simpl; rewrite ?Ea, ?Z.add_0_r; unfold u32; auto;
        [destruct H as (G & _)|destruct H as (_ & G & _)]; rewrite G; lia.
    - (* FIR *)
      simpl in Ea.
      eapply invD4_counts_only; eauto; simpl; rewrite ?Ea, ?Z.add_0_r; unfold u32; auto;
        [destruct H as (G & _)|destruct H as (_ & _ & G & _)]; rewrite G; lia.
    - (* other *)
      eapply invD4_counts_only; eauto; simpl; rewrite ?Z.add_0_r; unfold u32;
        [destruct H as (G & _)|destruct H as (_ & G & _)|destruct H as (_ & _ & G & _)]; rewrite G; lia.
  Qed.

  Lemma in_rtcp_fold pre b c ts P O X pkts : ctx pre b c -> forall ps d,
    invD4 (P ++ ps) (O ++ map (fun r => (pre, ts, r)) (reps_for ssrc ps))
          (X ++ map (fun x => (pre, ts, x)) (dlrrs_for ssrc ps)) d ->
    invD4 (P ++ ps ++ pkts) (O ++ map (fun r => (pre, ts, r)) (reps_for ssrc (ps ++ pkts)))
          (X ++ map (fun x => (pre, ts, x)) (dlrrs_for ssrc (ps ++ pkts)))
          (fold_left (rec_in_rtcp1 k_rjitter k_frac k_delay k_ntpfrac ssrc rate b c ts) pkts d).
  Proof.
    intros Hc. induction pkts as [|p pkts IH]; intros ps d H; simpl.
    - rewrite !app_nil_r. exact H.
    - replace (ps ++ p :: pkts) with ((ps ++ [p]) ++ pkts) by (rewrite <- app_assoc; reflexivity).
      apply IH. apply in_rtcp1_step; auto.
  Qed.

  Lemma ctx_run evs : ctx evs (sb (run evs)) (sc (run evs)).
  Proof.
    pose proof (invB_run evs) as (_ & _ & _ & Hb). pose proof (invC_run evs) as (_ & _ & _ & Hs & Hr).
    split; [exact Hb|split; assumption].
  Qed.

  Lemma invD_run evs : invD evs (sd (run evs)).
  Proof.
    induction evs as [|e evs IH] using rev_ind.
    - unfold invD, invD4. simpl. repeat split.
    - rewrite run_snoc. unfold invD, rr_occs, dl_occs in *.
      rewrite prefixes_snoc, !flat_map_snoc.
      destruct e; simpl; rewrite ?app_nil_r; try exact IH.
      unfold rr_occ, dl_occ. simpl.
      pose proof (in_rtcp_fold evs (sb (run evs)) (sc (run evs)) ts
                    (flat_map in_rtcp evs) (flat_map (rr_occ ssrc) (prefixes evs)) (flat_map (dl_occ ssrc) (prefixes evs))
                    pkts (ctx_run evs) [] (sd (run evs))) as G.
      simpl in G. rewrite !app_nil_r in G. apply G. exact IH.
  Qed.

  (* ================= the statements used by Properties/C19.v ================= *)
  Lemma thm_outbound_counts evs :
    o_sent (sb (run evs)) = spec_out_sent ssrc evs /\
    o_bytes (sb (run evs)) = spec_out_bytes ssrc evs /\
    o_hdr (sb (run evs)) = spec_out_hdr ssrc evs.
  Proof. pose proof (invB_run evs) as H. unfold invB in H. tauto. Qed.

  Lemma thm_inbound_counts evs :
    i_recv (sa (run evs)) = spec_in_recv ssrc evs /\
    i_hdr (sa (run evs)) = spec_in_hdr ssrc evs /\
    i_bytes (sa (run evs)) = spec_in_bytes ssrc evs /\
    i_last (sa (run evs)) = spec_in_last ssrc evs.
  Proof. pose proof (invA_run evs) as H. unfold invA in H. cbv zeta in H. tauto. Qed.

  Lemma thm_lost evs : i_lost (sa (run evs)) = spec_in_lost ssrc evs.
  Proof. pose proof (invA_run evs) as H. unfold invA in H. cbv zeta in H. tauto. Qed.

  Lemma thm_feedback_in evs :
    i_fir (sc (run evs)) = spec_fb_sent ssrc is_fir evs /\
    i_pli (sc (run evs)) = spec_fb_sent ssrc is_pli evs /\
    i_nack (sc (run evs)) = spec_fb_sent ssrc is_nack evs.
  Proof. pose proof (invC_run evs) as H. unfold invC in H. tauto. Qed.

  Lemma thm_feedback_out evs :
    o_fir (sd (run evs)) = spec_fb_recv ssrc is_fir evs /\
    o_pli (sd (run evs)) = spec_fb_recv ssrc is_pli evs /\
    o_nack (sd (run evs)) = spec_fb_recv ssrc is_nack evs.
  Proof. pose proof (invD_run evs) as H. unfold invD, invD4 in H. unfold spec_fb_recv. tauto. Qed.

  Lemma thm_remote_latest evs :
    match spec_last_report ssrc evs with
    | Some (Rep _ fr lost _ jit _ _) =>
        ri_lost (sd (run evs)) = lost /\ ri_jit (sd (run evs)) = k_rjitter rate jit /\ ri_frac (sd (run evs)) = k_frac fr
    | None => ri_lost (sd (run evs)) = 0 /\ ri_jit (sd (run evs)) = fzero /\ ri_frac (sd (run evs)) = fzero
    end /\
    ri_recv (sd (run evs)) = spec_remote_recv ssrc evs.
  Proof.
    pose proof (invD_run evs) as (_ & _ & _ & H4 & H5 & H6 & H7 & _).
    unfold spec_last_report, spec_remote_recv. split; [|exact H7].
    destruct (last_opt (map occ_rep (rr_occs ssrc evs))) as [[? ? ? ? ? ? ?]|]; auto.
  Qed.

  Lemma thm_rtt_lsr evs :
    ri_meas (sd (run evs)) = zlen (lsr_samples ssrc evs) /\
    ri_total (sd (run evs)) = zsum (map rtt3 (lsr_samples ssrc evs)) /\
    ri_rtt (sd (run evs)) = match last_opt (lsr_samples ssrc evs) with Some smp => rtt3 smp | None => 0 end.
  Proof. pose proof (invD_run evs) as H. unfold invD, invD4 in H. unfold lsr_samples. tauto. Qed.

  Lemma thm_rtt_dlrr evs :
    ro_meas (sd (run evs)) = zlen (dlrr_samples ssrc evs) /\
    ro_total (sd (run evs)) = zsum (map rtt3 (dlrr_samples ssrc evs)) /\
    ro_rtt (sd (run evs)) = match last_opt (dlrr_samples ssrc evs) with Some smp => rtt3 smp | None => 0 end.
  Proof. pose proof (invD_run evs) as H. unfold invD, invD4 in H. unfold dlrr_samples. tauto. Qed.

  Lemma thm_remote_sr evs :
    ro_reports (sd (run evs)) = spec_reports_sent ssrc evs /\
    match spec_last_sr ssrc evs with
    | Some (PSR _ ntp _ pc oc _) =>
        ro_sent (sd (run evs)) = pc /\ ro_bytes (sd (run evs)) = oc /\
        ro_ts (sd (run evs)) = Some (to_time k_ntpfrac ntp)
    | _ => ro_sent (sd (run evs)) = 0 /\ ro_bytes (sd (run evs)) = 0 /\ ro_ts (sd (run evs)) = None
    end.
  Proof.
    pose proof (invD_run evs) as H. unfold invD, invD4 in H.
    unfold spec_reports_sent, spec_last_sr, srs_in. split; tauto.
  Qed.

  (* the recorder never remembers more than five report times *)
  Lemma thm_last_five evs : (length (srs (sc (run evs))) <= 5)%nat /\ (length (rrtrs (sc (run evs))) <= 5)%nat.
  Proof.
    pose proof (invC_run evs) as (_ & _ & _ & Hs & Hr). rewrite Hs, Hr. unfold recent.
    split; apply firstn_le_length.
  Qed.

  (* well-typed input: every incoming RTP sequence number is a uint16 *)
  Definition wf_event (e : event) : Prop :=
    match e with InRTP _ _ seq _ _ _ => 0 <= seq < 65536 | _ => True end.

  Lemma wf_seqs evs : Forall wf_event evs -> all_u16 (map pk_seq (in_pks ssrc evs)).
  Proof.
    unfold all_u16. induction 1 as [|e evs He _ IH]; simpl; [constructor|].
    rewrite map_app. apply Forall_app. split; [|exact IH].
    destruct e; simpl; try constructor. destruct (ss =? ssrc); simpl; constructor; auto.
  Qed.

  Lemma thm_lost_range evs : Forall wf_event evs -> in_pks ssrc evs <> [] ->
    let U := in_unwrapped ssrc evs in
    exists first highest,
      hd_error U = Some first /\ In highest U /\ (forall x, In x U -> x <= highest) /\
      i_lost (sa (run evs)) = (highest - first + 1) - zlen U.
  Proof.
    intros Hwf Hne U. pose proof (thm_lost evs) as HL. unfold spec_in_lost in HL. fold U in HL.
    assert (Hlen : length U = length (in_pks ssrc evs)).
    { unfold U, in_unwrapped. rewrite unwrap_all_length, map_length. reflexivity. }
    assert (Hpos : Forall (fun x => 0 <= x) U).
    { apply (unwrap_all_nonneg None _ I). apply wf_seqs. exact Hwf. }
    destruct U as [|f U'] eqn:EU.
    - destruct (in_pks ssrc evs); [congruence|discriminate].
    - destruct (fold_max_is_max (f :: U')) as [G1 G2]; [discriminate|exact Hpos|].
      exists f, (fold_left Z.max (f :: U') 0).
      split; [reflexivity|]. split; [exact G1|]. split; [exact G2|].
      rewrite HL. unfold spec_in_recv, zlen. rewrite <- Hlen. reflexivity.
  Qed.

  (* run_all (used by the correspondence check) lists run at every query point *)
  Lemma run_all_nth evs : forall s0 k s,
    nth_error (run_all k_units k_jitter k_rjitter k_frac k_delay k_ntpfrac ssrc rate s0 evs) k = Some s ->
    s = fold_left step (firstn (S k) evs) s0.
  Proof.
    induction evs as [|e evs IH]; intros s0 k s H; simpl in *.
    - destruct k; discriminate.
    - destruct k; simpl in *.
      + inversion H. reflexivity.
      + apply IH. exact H.
  Qed.
End P.

  (* a reception report about ssrc makes its SR/RR "addressed to ssrc": the
     addressed-filter of the recount drops nothing *)
  Lemma mem_app_false s l1 l2 : mem s (l1 ++ l2) = false -> mem s l1 = false.
  Proof. unfold mem. rewrite existsb_app. intros H. apply orb_false_iff in H. tauto. Qed.

  Lemma no_report_if_not_mem ssrc reps : mem ssrc (map rep_ssrc reps) = false ->
    filter (fun r => rep_ssrc r =? ssrc) reps = [].
  Proof.
    induction reps as [|r reps IH]; simpl; auto.
    intros H. apply orb_false_iff in H as [H1 H2]. rewrite Z.eqb_sym, H1. auto.
  Qed.

  Lemma thm_reps_for ssrc pkts :
    reps_for ssrc pkts = filter (fun r => rep_ssrc r =? ssrc) (flat_map reps_of pkts).
  Proof.
    unfold reps_for. induction pkts as [|p pkts IH]; simpl; auto.
    rewrite filter_app, <- IH. destruct (addressed ssrc p) eqn:E; simpl.
    - rewrite filter_app. reflexivity.
    - replace (filter (fun r => rep_ssrc r =? ssrc) (reps_of p)) with (@nil report); [reflexivity|].
      unfold addressed in E. destruct p; simpl in *; auto; symmetry; apply no_report_if_not_mem; auto.
      eapply mem_app_false; eauto.
  Qed.

