(* Proofs for C19: the recorder model (Model/StatsRecorder.v) computes the
   recount (Spec/StatsSpec.v), for every event history, every SSRC, every
   clock rate and every choice of the float kernels. *)
From IV Require Import Base.Word Model.Unwrapper Model.Ntp Model.StatsRecorder Spec.StatsSpec Proofs.UnwrapperProofs.
From Coq Require Import ZifyBool.
Ltac Zify.zify_post_hook ::= Z.div_mod_to_equations.

(* ---- list helpers ---- *)
Lemma zsum_app l1 l2 : zsum (l1 ++ l2) = zsum l1 + zsum l2.
Proof. unfold zsum. induction l1; simpl; lia. Qed.

Lemma zlen_app {A} (l1 l2 : list A) : zlen (l1 ++ l2) = zlen l1 + zlen l2.
Proof. unfold zlen. rewrite app_length. lia. Qed.

Lemma zlen_nonneg {A} (l : list A) : 0 <= zlen l.
Proof. unfold zlen. lia. Qed.

Lemma last_opt_app {A} (l : list A) x : last_opt (l ++ [x]) = Some x.
Proof.
  unfold last_opt. rewrite map_app. simpl.
  induction (map Some l) as [|y ys IH]; simpl; auto.
  destruct (ys ++ [Some x]) eqn:E; [destruct ys; discriminate|]. exact IH.
Qed.

Lemma last_opt_nil {A} : @last_opt A [] = None.
Proof. reflexivity. Qed.

Lemma last_opt_app_l {A} (l1 l2 : list A) :
  last_opt (l1 ++ l2) = match last_opt l2 with Some x => Some x | None => last_opt l1 end.
Proof.
  induction l2 as [|x l2 IH] using rev_ind.
  - rewrite app_nil_r. simpl. destruct (last_opt l1); auto.
  - rewrite app_assoc, !last_opt_app. reflexivity.
Qed.

Lemma flat_map_app' {A B} (f : A -> list B) l1 l2 : flat_map f (l1 ++ l2) = flat_map f l1 ++ flat_map f l2.
Proof. induction l1; simpl; auto. rewrite IHl1, app_assoc. reflexivity. Qed.

Lemma flat_map_snoc {A B} (f : A -> list B) l x : flat_map f (l ++ [x]) = flat_map f l ++ f x.
Proof. rewrite flat_map_app'. simpl. rewrite app_nil_r. reflexivity. Qed.

Lemma prefixes_from_snoc {A} (pre l : list A) x :
  prefixes_from pre (l ++ [x]) = prefixes_from pre l ++ [(pre ++ l, x)].
Proof.
  revert pre; induction l as [|y l IH]; intros pre; simpl.
  - rewrite app_nil_r. reflexivity.
  - rewrite IH, <- app_assoc. reflexivity.
Qed.

Lemma prefixes_snoc {A} (l : list A) x : prefixes (l ++ [x]) = prefixes l ++ [(l, x)].
Proof. unfold prefixes. rewrite prefixes_from_snoc. reflexivity. Qed.

(* firstn n (x :: firstn n l) = firstn n (x :: l): trimming after every append
   equals trimming once *)
Lemma firstn_cons_firstn {A} n (x : A) l : firstn n (x :: firstn n l) = firstn n (x :: l).
Proof.
  destruct n; [reflexivity|]. rewrite !firstn_cons. f_equal.
  rewrite firstn_firstn. f_equal. lia.
Qed.

Lemma u32_succ_mod a : u32 (a mod 4294967296 + 1) = (a + 1) mod 4294967296.
Proof. unfold u32. lia. Qed.

Section P.
  Context {F : Type} (fzero : F) (k_units : Z -> Z -> Z) (k_jitter : Z -> F -> Z -> F)
          (k_rjitter : Z -> Z -> F) (k_frac : Z -> F) (k_delay : Z -> Z) (k_ntpfrac : Z -> Z)
          (ssrc rate : Z).

  Notation step := (step k_units k_jitter k_rjitter k_frac k_delay k_ntpfrac ssrc rate).
  Notation run := (run fzero k_units k_jitter k_rjitter k_frac k_delay k_ntpfrac ssrc rate).
  Notation st0 := (st0 fzero).

  Lemma run_snoc evs e : run (evs ++ [e]) = step (run evs) e.
  Proof. unfold StatsRecorder.run. rewrite fold_left_app. reflexivity. Qed.

  Lemma run_nil : run [] = st0.
  Proof. reflexivity. Qed.

  (* ================= group B: recordOutgoingRTP ================= *)
  Definition invB (evs : list event) (b : outb) : Prop :=
    o_sent b = spec_out_sent ssrc evs /\
    o_bytes b = spec_out_bytes ssrc evs /\
    o_hdr b = spec_out_hdr ssrc evs /\
    match first_out_seq ssrc evs with
    | Some f => rf_init b = true /\ rf b = f
    | None => rf_init b = false
    end.

  Lemma out_pks_snoc evs e : out_pks ssrc (evs ++ [e]) = out_pks ssrc evs ++ out_pk ssrc e.
  Proof. apply flat_map_snoc. Qed.

  Lemma first_out_seq_snoc evs e :
    first_out_seq ssrc (evs ++ [e]) =
    match first_out_seq ssrc evs with
    | Some f => Some f
    | None => hd_error (map (fun p => fst (fst p)) (out_pk ssrc e))
    end.
  Proof.
    unfold first_out_seq. rewrite out_pks_snoc, map_app.
    destruct (map _ (out_pks ssrc evs)); reflexivity.
  Qed.

  Lemma invB_run evs : invB evs (sb (run evs)).
  Proof.
    induction evs as [|e evs IH] using rev_ind.
    - repeat split.
    - rewrite run_snoc. destruct IH as (H1 & H2 & H3 & H4).
      unfold invB, spec_out_sent, spec_out_bytes, spec_out_hdr in *.
      rewrite first_out_seq_snoc, out_pks_snoc, !map_app, !zsum_app, zlen_app.
      destruct e; simpl; try (rewrite ?Z.add_0_r; destruct (first_out_seq ssrc evs); tauto).
      unfold rec_out_rtp. destruct (ss =? ssrc) eqn:E; simpl.
      + rewrite H1, H2, H3. unfold zlen, zsum; simpl.
        repeat split; try lia.
        destruct (first_out_seq ssrc evs).
        * destruct H4 as [H4 H5]. rewrite H4. auto.
        * rewrite H4. auto.
      + rewrite ?Z.add_0_r. destruct (first_out_seq ssrc evs); tauto.
  Qed.

  (* ================= group C: recordOutgoingRTCP ================= *)
  Definition invC (evs : list event) (c : fbk) : Prop :=
    i_fir c = spec_fb_sent ssrc is_fir evs /\
    i_pli c = spec_fb_sent ssrc is_pli evs /\
    i_nack c = spec_fb_sent ssrc is_nack evs /\
    srs c = recent (sr_ntps ssrc evs) /\
    rrtrs c = recent (rrtr_ntps evs).

  (* the same invariant over a list of outgoing packets *)
  Definition invCp (ps : list rtcp) (c : fbk) : Prop :=
    i_fir c = (count (fun p => is_fir p && fb_to_s ssrc p) ps) mod 4294967296 /\
    i_pli c = (count (fun p => is_pli p && fb_to_s ssrc p) ps) mod 4294967296 /\
    i_nack c = (count (fun p => is_nack p && fb_to_s ssrc p) ps) mod 4294967296 /\
    srs c = recent (flat_map (sr_ntp ssrc) ps) /\
    rrtrs c = recent (flat_map rrtr_ntp ps).

  Lemma count_snoc f ps p : count f (ps ++ [p]) = count f ps + (if f p then 1 else 0).
  Proof.
    unfold count. rewrite filter_app, zlen_app. simpl. destruct (f p); reflexivity.
  Qed.

  Lemma recent_snoc l x : recent (l ++ [x]) = firstn 5 (x :: recent l).
  Proof.
    unfold recent. rewrite rev_app_distr. simpl rev at 1. simpl app.
    rewrite firstn_cons_firstn. reflexivity.
  Qed.

  Lemma recent_app_blocks (blocks : list xrblock) (l : list Z) c :
    rrtrs c = recent l ->
    let c' := fold_left (rec_rrtr) blocks c in
    i_fir c' = i_fir c /\ i_pli c' = i_pli c /\ i_nack c' = i_nack c /\ srs c' = srs c /\
    rrtrs c' = recent (l ++ flat_map (fun b => match b with XRrtr n => [n] | _ => [] end) blocks).
  Proof.
    revert l c; induction blocks as [|b bs IH]; intros l c H; simpl.
    - rewrite app_nil_r. auto.
    - destruct b; simpl; try (apply IH; assumption).
      specialize (IH (l ++ [ntp]) (mkFbk (i_fir c) (i_pli c) (i_nack c) (srs c) (firstn 5 (ntp :: rrtrs c)))).
      simpl in IH. rewrite <- app_assoc in IH. simpl in IH. apply IH.
      rewrite recent_snoc, H. reflexivity.
  Qed.

  Lemma invCp_step ps p c : invCp ps c -> invCp (ps ++ [p]) (rec_out_rtcp1 ssrc c p).
  Proof.
    intros (H1 & H2 & H3 & H4 & H5). unfold invCp.
    rewrite !count_snoc, !flat_map_snoc.
    destruct p; simpl; rewrite ?Z.add_0_r, ?app_nil_r; auto.
    - (* SR *) unfold addressed. simpl.
      destruct (mem ssrc (map rep_ssrc reps ++ [sender])); simpl; rewrite ?app_nil_r; auto.
      repeat split; auto. rewrite recent_snoc, H4. reflexivity.
    - (* XR *) pose proof (recent_app_blocks blocks _ c H5) as (G1 & G2 & G3 & G4 & G5).
      rewrite G1, G2, G3, G4, G5. auto.
    - (* NACK *) unfold mem; simpl. rewrite orb_false_r, Z.eqb_sym.
      destruct (media =? ssrc); simpl; rewrite ?Z.add_0_r; auto.
      repeat split; auto. rewrite H3. apply u32_succ_mod.
    - (* PLI *) unfold mem; simpl. rewrite orb_false_r, Z.eqb_sym.
      destruct (media =? ssrc); simpl; rewrite ?Z.add_0_r; auto.
      repeat split; auto. rewrite H2. apply u32_succ_mod.
    - (* FIR *) destruct (mem ssrc entries); simpl; rewrite ?Z.add_0_r; auto.
      repeat split; auto. rewrite H1. apply u32_succ_mod.
  Qed.

  Lemma invCp_fold ps0 ps c : invCp ps0 c -> invCp (ps0 ++ ps) (fold_left (rec_out_rtcp1 ssrc) ps c).
  Proof.
    revert ps0 c; induction ps as [|p ps IH]; intros ps0 c H; simpl.
    - rewrite app_nil_r. exact H.
    - replace (ps0 ++ p :: ps) with ((ps0 ++ [p]) ++ ps) by (rewrite <- app_assoc; reflexivity).
      apply IH. apply invCp_step. exact H.
  Qed.

  Lemma invC_run evs : invC evs (sc (run evs)).
  Proof.
    assert (G : invCp (flat_map out_rtcp evs) (sc (run evs))).
    { induction evs as [|e evs IH] using rev_ind.
      - repeat split.
      - rewrite run_snoc, flat_map_snoc.
        destruct e; simpl; rewrite ?app_nil_r; auto.
        apply invCp_fold. exact IH. }
    exact G.
  Qed.
End P.
