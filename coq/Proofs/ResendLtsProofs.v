(* For every interleaving of the atomic steps of Model/ResendLts.v: what a
   resend hands to the downstream writer is the bytes NewPacket stored in that
   packet object - a buffer is never back in the pool (hence never rewritten)
   while a packet with a positive reference count points to it. *)
From IV Require Import Base.Word Model.ResendLts.
Local Open Scope nat_scope.

Section LtsProofs.
  Variable C : Type.
  Notation obj := (obj C). Notation state := (state C). Notation label := (label C).

  Definition obj_ok (st : state) (o : obj) : Prop :=
    o_count C o = (if o_inring C o || o_limbo C o then 1 else 0) + o_holds C o /\
    o_inring C o && o_limbo C o = false /\
    (o_count C o <> 0 -> exists b, o_buf C o = Some b /\ b < nheap C st /\
                         c_free C (heap C st b) = false /\ c_data C (heap C st b) = o_orig C o) /\
    (o_count C o = 0 -> o_buf C o = None).

  Definition Inv (st : state) : Prop :=
    (forall p, p < nobj C st -> obj_ok st (objs C st p)) /\
    (forall p q b, p < nobj C st -> q < nobj C st ->
       o_buf C (objs C st p) = Some b -> o_buf C (objs C st q) = Some b -> p = q).

  Lemma upd_same {A} (f : nat -> A) i v : upd f i v i = v.
  Proof. unfold upd. rewrite Nat.eqb_refl. reflexivity. Qed.
  Lemma upd_other {A} (f : nat -> A) i v j : j <> i -> upd f i v j = f j.
  Proof. intros H. unfold upd. apply Nat.eqb_neq in H. rewrite H. reflexivity. Qed.

  (* an update of the ghost fields / count of one object that keeps its buffer *)
  Lemma Inv_upd_obj st p o' : Inv st -> p < nobj C st ->
    o_buf C o' = o_buf C (objs C st p) -> o_orig C o' = o_orig C (objs C st p) ->
    (o_count C o' = 0 <-> o_count C (objs C st p) = 0) ->
    o_count C o' = (if o_inring C o' || o_limbo C o' then 1 else 0) + o_holds C o' ->
    o_inring C o' && o_limbo C o' = false ->
    Inv (mkSt C (upd (objs C st) p o') (nobj C st) (heap C st) (nheap C st)).
  Proof.
    intros [Hobj Hinj] Hp Hb Ho Hc Hg Hx. split; cbn [objs nobj heap nheap].
    - intros q Hq. destruct (Nat.eq_dec q p) as [->|Hne].
      + rewrite upd_same. destruct (Hobj p Hp) as (_ & _ & H3 & H4).
        split; [exact Hg|]. split; [exact Hx|]. split.
        * intros Hn. rewrite Hb, Ho. apply H3. intros H0. apply Hn. apply Hc. exact H0.
        * intros H0. rewrite Hb. apply H4. apply Hc. exact H0.
      + rewrite upd_other by auto. apply (Hobj q Hq).
    - intros q1 q2 b Hq1 Hq2.
      assert (E : forall q, o_buf C (upd (objs C st) p o' q) = o_buf C (objs C st q)).
      { intros q. destruct (Nat.eq_dec q p) as [->|Hne]; [rewrite upd_same; auto|rewrite upd_other; auto]. }
      rewrite !E. apply Hinj; auto.
  Qed.

  Lemma Inv_release st p ir lb hd : Inv st -> p < nobj C st ->
    o_count C (objs C st p) <> 0 ->
    pred (o_count C (objs C st p)) = (if ir || lb then 1 else 0) + hd ->
    ir && lb = false ->
    Inv (release C st p ir lb hd).
  Proof.
    intros HI Hp Hn Hg Hx. unfold release.
    destruct (o_count C (objs C st p)) as [|[|n]] eqn:Ec; [contradiction| |].
    - (* last reference: buffer goes back to the pool *)
      destruct HI as [Hobj Hinj]. destruct (Hobj p Hp) as (_ & _ & H3 & _).
      destruct H3 as (b & Hb & Hlt & Hfree & Hdata); [rewrite Ec; discriminate|]. rewrite Hb.
      split; cbn [objs nobj heap nheap].
      + intros q Hq. destruct (Nat.eq_dec q p) as [->|Hne].
        * rewrite upd_same. split; [simpl in *; exact Hg|]. split; [exact Hx|]. split; simpl; [intros H; contradiction|auto].
        * rewrite upd_other by auto. destruct (Hobj q Hq) as (G1 & G2 & G3 & G4).
          split; [exact G1|]. split; [exact G2|]. split; [|exact G4].
          intros Hc. destruct (G3 Hc) as (b' & Hb' & Hlt' & Hf' & Hd'). exists b'.
          assert (b' <> b) by (intros ->; apply Hne; apply (Hinj q p b); auto).
          cbn [objs nobj heap nheap]. rewrite upd_other by auto. auto.
      + intros q1 q2 b' Hq1 Hq2.
        destruct (Nat.eq_dec q1 p) as [->|N1]; [rewrite upd_same; simpl; discriminate|].
        destruct (Nat.eq_dec q2 p) as [->|N2]; [rewrite upd_same; simpl; discriminate|].
        rewrite !upd_other by auto. apply Hinj; auto.
    - apply (Inv_upd_obj st p); auto; simpl in *; try lia; try (split; intros; [discriminate|lia]).
  Qed.

  Lemma Inv_new st c b : Inv st ->
    (b < nheap C st /\ c_free C (heap C st b) = true) \/ b = nheap C st ->
    Inv (mkSt C (upd (objs C st) (nobj C st) (new_obj C c b)) (S (nobj C st))
              (upd (heap C st) b (mkCell C c false)) (Nat.max (nheap C st) (S b))).
  Proof.
    intros [Hobj Hinj] Hb.
    assert (Hlive : forall q b', q < nobj C st -> o_buf C (objs C st q) = Some b' -> b' <> b).
    { intros q b' Hq Hq' ->. destruct (Hobj q Hq) as (_ & _ & G3 & G4).
      destruct (Nat.eq_dec (o_count C (objs C st q)) 0) as [E|E].
      - rewrite (G4 E) in Hq'. discriminate.
      - destruct (G3 E) as (b2 & Hb2 & Hlt & Hf & _). rewrite Hq' in Hb2. inversion Hb2; subst.
        destruct Hb as [[_ Hfree]| ->]; [congruence|lia]. }
    split; cbn [objs nobj heap nheap].
    - intros q Hq. destruct (Nat.eq_dec q (nobj C st)) as [->|Hne].
      + rewrite upd_same. split; [reflexivity|]. split; [reflexivity|]. split; [|discriminate].
        intros _. exists b. cbn [objs nobj heap nheap new_obj o_buf o_orig]. rewrite upd_same.
        cbn [c_free c_data]. repeat split; auto. lia.
      + rewrite upd_other by auto. assert (Hq' : q < nobj C st) by lia.
        destruct (Hobj q Hq') as (G1 & G2 & G3 & G4).
        split; [exact G1|]. split; [exact G2|]. split; [|exact G4].
        intros Hc. destruct (G3 Hc) as (b' & Hb' & Hlt' & Hf' & Hd'). exists b'.
        cbn [objs nobj heap nheap]. rewrite upd_other by (eapply Hlive; eauto). repeat split; auto. lia.
    - intros q1 q2 b' Hq1 Hq2.
      destruct (Nat.eq_dec q1 (nobj C st)) as [->|N1]; destruct (Nat.eq_dec q2 (nobj C st)) as [->|N2]; auto;
        rewrite ?upd_same, ?upd_other by auto; simpl.
      + intros H1 H2. inversion H1; subst. exfalso. apply (Hlive q2 b'); auto. lia.
      + intros H1 H2. inversion H2; subst. exfalso. apply (Hlive q1 b'); auto. lia.
      + apply Hinj; lia.
  Qed.

  Lemma count_of_ghost st p : Inv st -> p < nobj C st ->
    (o_inring C (objs C st p) = true \/ o_limbo C (objs C st p) = true \/ o_holds C (objs C st p) <> 0) ->
    o_count C (objs C st p) <> 0.
  Proof.
    intros [Hobj _] Hp H. destruct (Hobj p Hp) as (G1 & _). rewrite G1.
    destruct H as [->|[H|H]]; simpl; try lia. rewrite H, orb_true_r. lia.
  Qed.

  Lemma step_Inv st l st' : Inv st -> step C st l st' -> Inv st'.
  Proof.
    intros HI Hs. pose proof HI as [Hobj _]. inversion Hs; subst; clear Hs.
    - pose proof (Inv_new st c b HI (or_introl (conj H H0))) as HN.
      replace (Nat.max (nheap C st) (S b)) with (nheap C st) in HN by lia. exact HN.
    - pose proof (Inv_new st c (nheap C st) HI (or_intror eq_refl)) as HN.
      replace (Nat.max (nheap C st) (S (nheap C st))) with (S (nheap C st)) in HN by lia. exact HN.
    - destruct (Hobj p H) as (G1 & G2 & _). subst o. rewrite H0 in *.
      apply Inv_upd_obj; auto; simpl; try tauto. rewrite G1. rewrite orb_true_r. reflexivity.
    - destruct (Hobj p H) as (G1 & G2 & _). rewrite H0 in G1, G2. simpl in G1, G2.
      apply Inv_release; [assumption|assumption|eapply count_of_ghost; eauto| |reflexivity].
      rewrite G1, G2. reflexivity.
    - destruct (Hobj p H) as (G1 & G2 & _). rewrite H0 in G1, G2. rewrite andb_true_r in G2. rewrite orb_true_r in G1.
      apply Inv_release; [assumption|assumption|eapply count_of_ghost; eauto| |apply andb_false_r].
      rewrite G1, G2. reflexivity.
    - destruct (Hobj p H) as (G1 & G2 & _). subst o.
      apply Inv_upd_obj; auto; cbn [o_count o_buf o_orig o_inring o_limbo o_holds]; try tauto; try lia;
        try (split; intros; [discriminate|contradiction]).
    - exact HI.
    - exact HI.
    - destruct (Hobj p H) as (G1 & G2 & _).
      apply Inv_release; [assumption|assumption|eapply count_of_ghost; eauto| |assumption].
      rewrite G1. destruct (o_inring C (objs C st p) || o_limbo C (objs C st p)); lia.
  Qed.

  (* what a resend reads *)
  Lemma emit_reads_original st p : Inv st -> p < nobj C st -> o_holds C (objs C st p) <> 0 ->
    match o_buf C (objs C st p) with
    | Some b => Some (c_data C (heap C st b)) | None => None end = Some (o_orig C (objs C st p)).
  Proof.
    intros HI Hp Hh. pose proof (count_of_ghost st p HI Hp (or_intror (or_intror Hh))) as Hc.
    destruct HI as [Hobj _]. destruct (Hobj p Hp) as (_ & _ & G3 & _).
    destruct (G3 Hc) as (b & Hb & _ & _ & Hd). rewrite Hb, Hd. reflexivity.
  Qed.

  (* the original bytes of an object are those of its LNew label *)
  Definition HInv (ls : list label) (st : state) : Prop :=
    (forall p, p < nobj C st -> In (LNew C p (o_orig C (objs C st p))) ls) /\
    (forall p c, In (LNew C p c) ls -> p < nobj C st /\ o_orig C (objs C st p) = c).

  Lemma release_orig st p ir lb hd q : o_orig C (objs C (release C st p ir lb hd) q) = o_orig C (objs C st q).
  Proof.
    unfold release. destruct (o_count C (objs C st p)) as [|[|n]]; simpl;
      (destruct (Nat.eq_dec q p) as [->|Hne]; [rewrite upd_same; reflexivity|rewrite upd_other by auto; reflexivity]).
  Qed.
  Lemma release_nobj st p ir lb hd : nobj C (release C st p ir lb hd) = nobj C st.
  Proof. unfold release. destruct (o_count C (objs C st p)) as [|[|n]]; reflexivity. Qed.

  Lemma step_orig st l st' : step C st l st' ->
    nobj C st <= nobj C st' /\
    (forall q, q < nobj C st -> o_orig C (objs C st' q) = o_orig C (objs C st q)) /\
    match l with
    | LNew _ p c => p = nobj C st /\ nobj C st' = S p /\ o_orig C (objs C st' p) = c
    | _ => nobj C st' = nobj C st
    end.
  Proof.
    intros Hs. inversion Hs; subst; clear Hs; simpl;
      rewrite ?release_nobj; try (split; [lia|]); try (split; [|auto; try (rewrite upd_same; auto)]);
      intros q Hq; rewrite ?release_orig; auto;
      try (destruct (Nat.eq_dec q p) as [->|Hne]; [rewrite upd_same; reflexivity|rewrite upd_other by auto; reflexivity]);
      try (rewrite upd_other by lia; reflexivity).
  Qed.

  Lemma step_HInv ls st l st' : HInv ls st -> step C st l st' -> HInv (l :: ls) st'.
  Proof.
    intros [H1 H2] Hs. destruct (step_orig st l st' Hs) as (Hle & Hsame & Hl). split.
    - intros p Hp. destruct l; try (rewrite Hl in Hp; rewrite Hsame by auto; right; apply H1; exact Hp).
      destruct Hl as (-> & Hn & Ho). destruct (Nat.eq_dec p (nobj C st)) as [->|Hne].
      + rewrite Ho. left; reflexivity.
      + assert (p < nobj C st) by lia. rewrite Hsame by auto. right. apply H1; auto.
    - intros p c [Hin|Hin].
      + subst l. destruct Hl as (-> & Hn & Ho). split; [lia|exact Ho].
      + destruct (H2 p c Hin) as [Hp Ho]. split; [lia|]. rewrite Hsame by auto. exact Ho.
  Qed.

  Lemma Inv_init o0 c0 : Inv (init C o0 c0).
  Proof. split; simpl; intros; lia. Qed.
  Lemma HInv_init o0 c0 : HInv [] (init C o0 c0).
  Proof. split; simpl; intros; [lia|contradiction]. Qed.

  (* every reachable state satisfies the invariants, and every resend of every
     trace hands the downstream writer exactly the bytes given to NewPacket *)
  Theorem resend_content_any_schedule o0 c0 ls st :
    run C (init C o0 c0) ls st ->
    Inv st /\ HInv ls st /\
    forall p seen, In (LEmit C p seen) ls -> exists c, In (LNew C p c) ls /\ seen = Some c.
  Proof.
    remember (init C o0 c0) as s0 eqn:Es. induction 1 as [st0|st0 ls st1 l st2 Hrun IH Hs].
    - subst. split; [apply Inv_init|]. split; [apply HInv_init|]. intros p seen [].
    - destruct (IH Es) as (HI & HH & HE). split; [eapply step_Inv; eauto|]. split; [eapply step_HInv; eauto|].
      intros p seen [Hl|Hin].
      + subst l. inversion Hs; subst. exists (o_orig C (objs C st2 p)). split.
        * right. destruct HH as [H1 _]. apply H1; auto.
        * apply emit_reads_original; auto.
      + destruct (HE p seen Hin) as (c & Hc & Hseen). exists c. split; [right; exact Hc|exact Hseen].
  Qed.

  (* a packet object is created once: the bytes of LNew are unambiguous *)
  Theorem new_label_unique o0 c0 ls st p c1 c2 :
    run C (init C o0 c0) ls st -> In (LNew C p c1) ls -> In (LNew C p c2) ls -> c1 = c2.
  Proof.
    intros Hr H1 H2. destruct (resend_content_any_schedule o0 c0 ls st Hr) as (_ & [_ HH] & _).
    destruct (HH p c1 H1) as [_ E1]. destruct (HH p c2 H2) as [_ E2]. congruence.
  Qed.

  (* the pool never holds a buffer that a live packet points to *)
  Theorem pool_disjoint_from_live o0 c0 ls st p b :
    run C (init C o0 c0) ls st -> p < nobj C st -> o_count C (objs C st p) <> 0 ->
    o_buf C (objs C st p) = Some b -> c_free C (heap C st b) = false.
  Proof.
    intros Hr Hp Hc Hb. destruct (resend_content_any_schedule o0 c0 ls st Hr) as ([Hobj _] & _ & _).
    destruct (Hobj p Hp) as (_ & _ & G3 & _). destruct (G3 Hc) as (b' & Hb' & _ & Hf & _). congruence.
  Qed.
End LtsProofs.
