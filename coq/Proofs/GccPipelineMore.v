(* GCC pipeline LTS: lock order and progress of parked senders. *)
From Coq Require Import ZArith List Bool Arith Lia.
Import ListNotations.
From IV Require Import Model.GccPipeline Proofs.GccPipelineProofs.
From IV Require Model.LockTable Proofs.LockTableProofs.

Ltac sset := cbn [setT setCa setCr setCp setChA setChR setClosed setPdone setRds setW setLk
                  thr ca cr cp chA chR closed pdone rds wann wheld lk] in *.

Section More.
Variable wpref : bool.

(* ---------- (d) lock order ---------- *)

Theorem acquire_respects_order s o l s' :
  Inv s -> step wpref s (LAcq o l) s' ->
  forall h, holds_lock s o h -> In (lock_rank h, lock_rank l) gcc_lock_edges.
Proof.
  intros I H. inversion H; subst; intros h Hh;
    destruct h; cbn [holds_lock] in Hh;
    try match goal with Hx : thr ?s ?t = _, Hh : holdsRL (thr ?s ?t) = true \/ _ |- _ =>
          rewrite Hx in Hh; cbn in Hh; destruct Hh; try discriminate end;
    try contradiction;
    try (pose proof (i_lk _ I _ _ Hh) as OW; cbn [owns] in OW; try contradiction;
         try congruence;
         try match goal with Hc : ca ?s = _, OW' : aholdsE (ca ?s) = true |- _ =>
               rewrite Hc in OW'; cbn in OW'; try discriminate OW' end);
    cbn; auto 6.
Qed.

Lemma edges_increasing : Forall (fun e => fst e < snd e) gcc_lock_edges.
Proof. repeat constructor. Qed.

(* the same edges in the lock-order machine of C10 (Proofs/LockTableProofs.v): no cycle in the
   waits-for graph of any number of threads that nest locks only along these edges *)
Definition gcc_lock_edges_Z : list (Z * Z) :=
  map (fun e => (Z.of_nat (fst e), Z.of_nat (snd e))) gcc_lock_edges.

Theorem gcc_lock_order_no_deadlock :
  forall s, LockTableProofs.lreachable gcc_lock_edges_Z s ->
  forall t, ~ Relation_Operators.clos_trans_1n nat (LockTableProofs.waits_for s) t t.
Proof. apply LockTableProofs.lock_order_no_deadlock. vm_compute. reflexivity. Qed.

(* ---------- (b) progress ---------- *)

Definition parked (p : pc) : bool := match p with WSendA | WSendR => true | _ => false end.
Definition keepP (s s' : st) : Prop := forall t, parked (thr s t) = true -> thr s' t = thr s t.

Lemma keepP_refl s : keepP s s.
Proof. intros t _. reflexivity. Qed.
Lemma keepP_trans s1 s2 s3 : keepP s1 s2 -> keepP s2 s3 -> keepP s1 s3.
Proof. intros A B t Ht. rewrite (B t); [apply A; assumption|]. rewrite (A t Ht). assumption. Qed.

Lemma run_app s tr s1 tr' s2 : run wpref s tr s1 -> run wpref s1 tr' s2 -> run wpref s (tr ++ tr') s2.
Proof. intros R R'. induction R; cbn; [assumption|]. econstructor; eauto. Qed.
Lemma run_one s l s' : step wpref s l s' -> run wpref s [l] s'.
Proof. intros H. econstructor; [eassumption|constructor]. Qed.

(* A can be brought back to its receive (or has exited), moving only A itself and the holders of
   the locks it needs, each of which releases its lock in one step *)
Definition drainsA (s : st) : Prop :=
  exists tr s', run wpref s tr s' /\ (ca s' = AIdle \/ ca s' = AExit) /\ keepP s s'.
Definition drainsR (s : st) : Prop :=
  exists tr s', run wpref s tr s' /\ (cr s' = RIdle \/ cr s' = RExit) /\ keepP s s'.

Lemma drainsA_step s l s1 : step wpref s l s1 -> keepP s s1 -> drainsA s1 -> drainsA s.
Proof.
  intros H K (tr & s' & R & E & K'). exists (l :: tr), s'. split; [econstructor; eauto|].
  split; [assumption|]. eapply keepP_trans; eauto.
Qed.

Lemma keep_same s s1 : thr s1 = thr s -> keepP s s1.
Proof. intros E t _. now rewrite E. Qed.

Lemma keep_upd s t p s1 : parked (thr s t) = false -> thr s1 = upd (thr s) t p -> keepP s s1.
Proof.
  intros Np E u Hu. rewrite E. apply upd_neq. intros ->. congruence.
Qed.

Lemma dA_done s : ca s = AIdle \/ ca s = AExit -> drainsA s.
Proof. intros E. exists [], s. split; [constructor|]. split; [assumption|apply keepP_refl]. Qed.

Lemma dA_busy s : ca s = ABusy -> drainsA s.
Proof.
  intros E. eapply drainsA_step; [apply S_AIdle; assumption|apply keep_same; reflexivity|].
  apply dA_done. left. reflexivity.
Qed.
Lemma dA_e3 s : ca s = AE3 -> drainsA s.
Proof.
  intros E. eapply drainsA_step; [apply S_AERel; assumption|apply keep_same; reflexivity|].
  apply dA_busy. reflexivity.
Qed.
Lemma dA_ep s : ca s = AEP -> drainsA s.
Proof.
  intros E. eapply drainsA_step; [apply S_APRel; assumption|apply keep_same; reflexivity|].
  apply dA_e3. reflexivity.
Qed.
Lemma dA_e2 s : ca s = AE2 -> drainsA s.
Proof.
  intros E. eapply drainsA_step; [apply S_ANoChange; assumption|apply keep_same; reflexivity|].
  apply dA_e3. reflexivity.
Qed.
Lemma dA_el s : ca s = AEL -> drainsA s.
Proof.
  intros E. eapply drainsA_step; [apply S_ALRel; assumption|apply keep_same; reflexivity|].
  apply dA_e2. reflexivity.
Qed.
Lemma dA_e s : Inv s -> ca s = AE -> drainsA s.
Proof.
  intros I E. destruct (lk s LL) as [o|] eqn:L.
  - pose proof (i_lk _ I _ _ L) as OW. destruct o; cbn in OW; try contradiction; [|congruence].
    (* a WriteRTCP thread is inside updateLossEstimate: it leaves in one step *)
    pose proof (S_WLossRel wpref s t OW) as St.
    eapply drainsA_step; [exact St| |].
    + eapply keep_upd with (t := t) (p := WSendA); [rewrite OW; reflexivity|reflexivity].
    + assert (St2 : step wpref (setLk (setT s t WSendA) LL None) (LAcq OA LL)
                      (setLk (setCa (setLk (setT s t WSendA) LL None) AEL) LL (Some OA))).
      { apply S_ALAcq; sset; [assumption|reflexivity]. }
      eapply drainsA_step; [exact St2|apply keep_same; reflexivity|].
      apply dA_el. reflexivity.
  - pose proof (S_ALAcq wpref s E L) as St.
    eapply drainsA_step; [exact St|apply keep_same; reflexivity|].
    apply dA_el. reflexivity.
Qed.
Lemma dA_d s : Inv s -> ca s = AD -> drainsA s.
Proof.
  intros I E. destruct (lk s LE) as [o|] eqn:L.
  - pose proof (i_lk _ I _ _ L) as OW. destruct o; cbn in OW; try contradiction;
      [|rewrite E in OW; discriminate].
    (* a getter holds e.lock: it leaves in one step *)
    pose proof (S_GRel wpref s t OW) as St.
    eapply drainsA_step; [exact St| |].
    + eapply keep_upd with (t := t) (p := GDone); [rewrite OW; reflexivity|reflexivity].
    + pose proof (inv_step wpref _ _ _ I St) as I1.
      assert (St2 : step wpref (setLk (setT s t GDone) LE None) (LAcq OA LE)
                      (setLk (setCa (setLk (setT s t GDone) LE None) AE) LE (Some OA))).
      { apply S_AEAcq; sset; [assumption|reflexivity]. }
      eapply drainsA_step; [exact St2|apply keep_same; reflexivity|].
      apply dA_e; [eapply inv_step; eauto|reflexivity].
  - pose proof (S_AEAcq wpref s E L) as St.
    eapply drainsA_step; [exact St|apply keep_same; reflexivity|].
    apply dA_e; [eapply inv_step; eauto|reflexivity].
Qed.
Lemma dA_c s : Inv s -> ca s = AC -> drainsA s.
Proof.
  intros I E. pose proof (S_ACRel wpref s E) as St.
  eapply drainsA_step; [exact St|apply keep_same; reflexivity|].
  apply dA_d; [eapply inv_step; eauto|reflexivity].
Qed.

Lemma drainA s : Inv s -> drainsA s.
Proof.
  intros I. destruct (ca s) eqn:E;
    eauto using dA_done, dA_busy, dA_c, dA_d, dA_e, dA_el, dA_e2, dA_ep, dA_e3.
Qed.

Lemma drainR s : drainsR s.
Proof.
  destruct (cr s) eqn:E.
  - exists [], s. split; [constructor|]. split; [auto|apply keepP_refl].
  - exists [Tau], (setCr s RIdle). split; [apply run_one, S_RIdle; assumption|]. split; [auto|apply keep_same; reflexivity].
  - eexists [_; _], _. split.
    + econstructor; [apply S_RCRel; assumption|]. apply run_one. apply S_RIdle. reflexivity.
    + split; [left; reflexivity|apply keep_same; reflexivity].
  - exists [], s. split; [constructor|]. split; [auto|apply keepP_refl].
Qed.

(* thread t returns: it reaches WEnd r (lock released, result delivered) *)
Definition finishes (s : st) (t : nat) : Prop :=
  exists tr s' r, run wpref s tr s' /\ thr s' t = WEnd r.

Lemma fin_step s l s1 t : step wpref s l s1 -> finishes s1 t -> finishes s t.
Proof. intros H (tr & s' & r & R & E). exists (l :: tr), s', r. split; [econstructor; eauto|assumption]. Qed.
Lemma fin_run s tr s1 t : run wpref s tr s1 -> finishes s1 t -> finishes s t.
Proof. intros R (tr' & s' & r & R' & E). exists (tr ++ tr'), s', r. split; [eapply run_app; eauto|assumption]. Qed.

Lemma fin_done s t r : thr s t = WDone r -> finishes s t.
Proof.
  intros E. exists [LRetW t r], (setT s t (WEnd r)), r. split; [apply run_one, S_WEnd; assumption|].
  sset. apply upd_eq.
Qed.
Lemma fin_ret s t r : thr s t = WRet r -> finishes s t.
Proof.
  intros E. eapply fin_step; [apply S_WRUnlock; eassumption|]. eapply fin_done. sset. apply upd_eq.
Qed.
Lemma fin_loop s t : thr s t = WLoop -> finishes s t.
Proof.
  intros E. eapply fin_step; [apply S_WFin; eassumption|]. eapply fin_ret. sset. apply upd_eq.
Qed.

Lemma fin_sendR s t : Inv s -> thr s t = WSendR -> finishes s t.
Proof.
  intros I E. destruct (drainR s) as (tr & s1 & R & Hc & K).
  pose proof (inv_run wpref _ _ _ I R) as I1.
  assert (E1 : thr s1 t = WSendR) by (rewrite (K t); [assumption|rewrite E; reflexivity]).
  assert (NC : chR s1 = false).
  { destruct (chR s1) eqn:C; [|reflexivity]. exfalso. apply (inv_not_bad _ I1).
    right; left. exists t. auto. }
  destruct Hc as [Hc|Hc]; [|rewrite (i_rex _ I1 Hc) in NC; discriminate].
  eapply fin_run; [exact R|].
  eapply fin_step; [apply S_WSendR; eassumption|]. eapply fin_loop. sset. apply upd_eq.
Qed.

Lemma fin_sendA s t : Inv s -> thr s t = WSendA -> finishes s t.
Proof.
  intros I E. destruct (drainA s I) as (tr & s1 & R & Hc & K).
  pose proof (inv_run wpref _ _ _ I R) as I1.
  assert (E1 : thr s1 t = WSendA) by (rewrite (K t); [assumption|rewrite E; reflexivity]).
  assert (NC : chA s1 = false).
  { destruct (chA s1) eqn:C; [|reflexivity]. exfalso. apply (inv_not_bad _ I1).
    left. exists t. auto. }
  destruct Hc as [Hc|Hc]; [|rewrite (i_aex _ I1 Hc) in NC; discriminate].
  eapply fin_run; [exact R|].
  pose proof (S_WSendA wpref s1 t E1 Hc NC) as St.
  eapply fin_step; [exact St|].
  eapply fin_sendR; [eapply inv_step; eauto|]. sset. apply upd_eq.
Qed.

Lemma fin_loss s t : Inv s -> thr s t = WLoss -> finishes s t.
Proof.
  intros I E. pose proof (S_WLossRel wpref s t E) as St.
  eapply fin_step; [exact St|]. eapply fin_sendA; [eapply inv_step; eauto|]. sset. apply upd_eq.
Qed.
Lemma fin_loop2 s t : Inv s -> thr s t = WLoop2 -> finishes s t.
Proof.
  intros I E. pose proof (S_WNoLoss wpref s t E) as St.
  eapply fin_step; [exact St|]. eapply fin_sendA; [eapply inv_step; eauto|]. sset. apply upd_eq.
Qed.
Lemma fin_rtt s t : Inv s -> thr s t = WRtt -> finishes s t.
Proof.
  intros I E. pose proof (S_WRttRel wpref s t E) as St.
  eapply fin_step; [exact St|]. eapply fin_loop2; [eapply inv_step; eauto|]. sset. apply upd_eq.
Qed.
Lemma fin_w1 s t : thr s t = W1 -> finishes s t.
Proof.
  intros E. destruct (closed s) eqn:C.
  - eapply fin_step; [apply S_WClosed; eassumption|]. eapply fin_ret. sset. apply upd_eq.
  - eapply fin_step; [apply S_WOpen; eassumption|]. eapply fin_loop. sset. apply upd_eq.
Qed.

(* (b) every WriteRTCP that holds the read lock - in particular one parked on either channel -
   has a continuation in which it returns; this holds in every reachable state, whatever the
   other callers, the getters, the Close callers and the goroutines are doing *)
Theorem sender_returns s t : reachable wpref s -> holdsRL (thr s t) = true -> finishes s t.
Proof.
  intros R H. pose proof (reachable_inv wpref _ R) as I.
  destruct (thr s t) eqn:E; try discriminate H;
    eauto using fin_w1, fin_loop, fin_rtt, fin_loop2, fin_loss, fin_sendA, fin_sendR, fin_ret.
Qed.

(* a caller that has not got the read lock yet proceeds as soon as no Close is in progress *)
Theorem caller_returns_when_no_close_in_progress s t :
  reachable wpref s -> thr s t = WCall \/ thr s t = W0 -> wann s = None -> finishes s t.
Proof.
  intros R H W. pose proof (reachable_inv wpref _ R) as I.
  assert (Hh : wheld s = false).
  { destruct (wheld s) eqn:Hh; [|reflexivity]. exfalso.
    (* wheld without an announced writer is impossible: shown through the readers' side is not
       available, so use the invariant on writers: every state with wheld has a thread in a writer pc *)
    revert Hh W. clear H. destruct R as (s0 & tr & I0 & Rn).
    assert (G : forall s, Inv s -> (wheld s = true -> wann s <> None) -> forall tr s', run wpref s tr s' ->
                (wheld s' = true -> wann s' <> None)).
    { clear. intros s I P tr s' Rn. induction Rn; [assumption|]. apply IHRn; [eapply inv_step; eauto|].
      destruct H; sset; auto; try congruence.
      intros _. pose proof (i_ann _ I u) as A. rewrite H in A. specialize (A eq_refl). congruence. }
    intros Hh W. eapply G; [apply inv_init; exact I0| |exact Rn|exact Hh|exact W].
    destruct I0 as (_ & _ & _ & _ & _ & _ & _ & _ & _ & _ & Hw & _). congruence. }
  destruct H as [H|H].
  - pose proof (S_WRLock wpref s t H Hh (fun _ => W)) as St.
    eapply fin_step; [exact St|]. eapply fin_w1. sset. apply upd_eq.
  - pose proof (S_WCall wpref s t H) as St0.
    eapply fin_step; [exact St0|].
    assert (H1 : thr (setT s t WCall) t = WCall) by (sset; apply upd_eq).
    pose proof (S_WRLock wpref (setT s t WCall) t H1 Hh (fun _ => W)) as St.
    eapply fin_step; [exact St|]. eapply fin_w1. sset. apply upd_eq.
Qed.

Lemma after_close_returned_pcs : forall s u, reachable wpref s ->
  (thr s u = CRet \/ thr s u = CDone \/ thr s u = CEnd) ->
  closed s = true /\ ca s = AExit /\ cr s = RExit /\ cp s = PExit /\ forall t, activeW (thr s t) = false.
Proof.
  intros s u R H. apply (after_close_returned wpref s u R).
  destruct H as [E|[E|E]]; rewrite E; reflexivity.
Qed.

Lemma write_after_close_fails_closed : forall s tr s' t, reachable wpref s ->
  closed s = true -> (thr s t = W0 \/ thr s t = WCall) -> run wpref s tr s' ->
  thr s' t = W0 \/ thr s' t = WCall \/ thr s' t = W1 \/
  thr s' t = WRet RClosed \/ thr s' t = WDone RClosed \/ thr s' t = WEnd RClosed.
Proof.
  intros s tr s' t R C H Rn.
  assert (G : forall s tr s', run wpref s tr s' -> closed s = true ->
              (thr s t = W0 \/ lateW (thr s t) = true) -> thr s' t = W0 \/ lateW (thr s' t) = true).
  { clear. intros s tr s' Rn. induction Rn as [|s l s1 tr s2 St Rn IH]; intros C H; [assumption|].
    apply IH; [eapply closed_mono; eassumption|].
    destruct H as [H|H]; [|right; eapply late_step; eassumption].
    destruct (lateW (thr s1 t)) eqn:E; [right; reflexivity|left].
    destruct St; cbn [setT setCa setCr setCp setChA setChR setClosed setPdone setRds setW setLk thr] in *;
      try assumption;
      match goal with
      | Hx : thr s ?x = _ |- _ =>
          destruct (Nat.eq_dec t x) as [->|Ne];
          [ rewrite upd_eq in E; first [discriminate E | congruence]
          | rewrite (upd_neq _ _ _ _ Ne); assumption ]
      end. }
  destruct (G s tr s' Rn C) as [E|E].
  - destruct H as [H|H]; [left; exact H|right; rewrite H; reflexivity].
  - left. exact E.
  - right. destruct (thr s' t) as [| | | | | | | | | |r|r|r| | | | | | | | | | | | | | | |]; try discriminate E; auto;
      destruct r; try discriminate E; auto 6.
Qed.

Lemma lock_order_ranked : forall s o l s', reachable wpref s -> step wpref s (LAcq o l) s' ->
  forall h, holds_lock s o h ->
  In (lock_rank h, lock_rank l) gcc_lock_edges /\ (lock_rank h < lock_rank l)%nat.
Proof.
  intros s o l s' R St h Hh.
  pose proof (acquire_respects_order s o l s' (reachable_inv wpref s R) St h Hh) as Hin.
  split; [exact Hin|].
  pose proof edges_increasing as F. rewrite Forall_forall in F. exact (F _ Hin).
Qed.

(* the LTS is not empty: a WriteRTCP completes a full feedback round and returns nil *)
Definition st0 : st :=
  mkSt (fun t => match t with O => W0 | 1 => G0 | 2 => C0 | _ => TNone end) AIdle RIdle PIdle
       false false false false [] None false (fun _ => None).

Lemma lts_nonvacuous : exists s0 tr s, init_ok s0 /\ run wpref s0 tr s /\ thr s 0 = WEnd ROk.
Proof.
  exists st0. 
  assert (I0 : init_ok st0).
  { unfold init_ok, st0; cbn. repeat split; auto.
    intros [|[|[|t]]]; auto. }
  eexists _, _. split; [exact I0|]. split.
  - econstructor; [apply (S_WCall wpref _ 0); reflexivity|].
    econstructor; [apply (S_WRLock wpref _ 0); reflexivity|].
    econstructor; [apply (S_WOpen wpref _ 0); reflexivity|].
    econstructor; [apply (S_WNoRtt wpref _ 0); reflexivity|].
    econstructor; [apply (S_WLossAcq wpref _ 0); reflexivity|].
    econstructor; [apply (S_WLossRel wpref _ 0); reflexivity|].
    econstructor; [apply (S_WSendA wpref _ 0); reflexivity|].
    econstructor; [apply (S_WSendR wpref _ 0); reflexivity|].
    econstructor; [apply (S_WFin wpref _ 0); reflexivity|].
    econstructor; [apply (S_WRUnlock wpref _ 0 ROk); reflexivity|].
    econstructor; [apply (S_WEnd wpref _ 0 ROk); reflexivity|].
    constructor.
  - reflexivity.
Qed.

End More.
