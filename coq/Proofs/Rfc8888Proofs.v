(* The model of streamLog/Recorder satisfies the specification oracle on every
   history: simulation between the model state and the oracle's independent
   recount (relation R), preserved by AddPacket and by report builds. *)
From IV Require Import Base.Word Model.Unwrapper Model.StreamLog Model.Rfc8888Recorder
  Spec.Rfc8888Spec Proofs.UnwrapperProofs Proofs.StreamLogProofs.
From Coq Require Import ZifyBool.
Ltac Zify.zify_post_hook ::= Z.div_mod_to_equations.

(* the kernel computes exactly: (1024*d s > 8189, floor(1024*d s)) for a duration d >= 0 in ns *)
Definition exact_kernel (atok : Z -> bool * Z) : Prop :=
  forall d, 0 <= d -> atok d = (1024 * d >? 8189 * 1000000000, (1024 * d) / 1000000000).

Definition exact_atok (d : Z) : bool * Z := (1024 * d >? 8189 * 1000000000, (1024 * d) / 1000000000).

Lemma exact_atok_exact : exact_kernel exact_atok.
Proof. intros d _. reflexivity. Qed.

Definition code_ok (c : nat) : Prop := c = 0%nat \/ c = 7%nat.

Lemma defer7_ok c c2 : code_ok c -> code_ok c2 -> code_ok (defer7 c c2).
Proof. intros [->| ->] [->| ->]; cbv; auto. Qed.

Ltac splits := repeat match goal with |- _ /\ _ => split end.

Section Sim.
  Variable atok : Z -> bool * Z.
  Hypothesis Hexact : exact_kernel atok.

  Lemma ato_exact now ts : ato atok now ts = ato_spec now ts.
  Proof.
    unfold ato, ato_spec. destruct (now <? ts) eqn:E; [reflexivity|].
    rewrite Hexact by lia. cbv zeta.
    destruct (1024 * (now - ts) >? 8189 * 1000000000) eqn:E2; [reflexivity|].
    rewrite Z.gtb_ltb in E2. apply Z.ltb_ge in E2. unfold u16. lia.
  Qed.

  Lemma ato_spec_range now ts : 0 <= ato_spec now ts < 8192.
  Proof.
    unfold ato_spec. destruct (now <? ts) eqn:E; [lia|]. cbv zeta.
    destruct (_ >? _) eqn:E2; [lia|].
    rewrite Z.gtb_ltb in E2. apply Z.ltb_ge in E2. lia.
  Qed.

  (* ---- the simulation relation between one streamLog and the oracle's stream ---- *)
  Definition R (s : slog) (o : ost) : Prop :=
    sl_init s = true /\ sl_seq s = o_uw o /\ (exists l, o_uw o = Some l /\ 0 <= l) /\
    sl_last s = o_hi o /\
    (forall k, sl_next s <= k -> lfind k (sl_log s) = lfind k (o_arr o)) /\
    (forall k, k < sl_next s -> lfind k (sl_log s) = None) /\
    (forall k, lfind k (o_arr o) <> None -> k <= o_hi o) /\
    lfind (o_hi o) (o_arr o) <> None /\
    sl_next s <= o_hi o + 1 /\
    o_ackhi o <= sl_next s /\ o_tfloor o <= sl_next s /\ o_first o <= sl_next s /\
    (forall k, o_first o <= k < sl_next s -> k < o_tfloor o \/ lfind k (o_arr o) <> None) /\
    (forall k, In k (o_fresh o) -> sl_next s <= k \/ k < o_first o \/ k < o_tfloor o) /\
    (forall k ts ecn, lfind k (o_arr o) = Some (ts, ecn) -> 0 <= ecn < 4).

  Lemma R_new ssrc ts seq ecn : 0 <= seq < 65536 -> 0 <= ecn < 4 ->
    R (sl_add (new_slog ssrc) ts seq ecn) (o_add o_new ts seq ecn)
    /\ sl_ssrc (sl_add (new_slog ssrc) ts seq ecn) = ssrc.
  Proof.
    intros Hs He. unfold sl_add, o_add, new_slog, o_new; cbn [sl_seq sl_init sl_next sl_last sl_log sl_ssrc o_uw unwrap].
    replace (seq <? seq) with false by lia. cbn [lfind].
    replace (if 0 <? seq then seq else 0) with seq by (destruct (0 <? seq) eqn:E; lia).
    split; [|reflexivity].
    unfold R; cbn [sl_seq sl_init sl_next sl_last sl_log o_uw o_first o_hi o_arr o_ackhi o_tfloor o_fresh].
    splits; try lia; auto.
    - exists seq. split; [reflexivity|lia].
    - intros k Hk0. simpl. replace (seq =? k) with false by lia. reflexivity.
    - intros k. simpl. destruct (seq =? k) eqn:E; [lia|congruence].
    - simpl. rewrite Z.eqb_refl. congruence.
    - intros k ts0 ecn0. simpl. destruct (seq =? k); [|discriminate]. intros H; inversion H; subst. lia.
  Qed.

  Lemma R_add s o ts seq ecn : R s o -> 0 <= seq < 65536 -> 0 <= ecn < 4 ->
    R (sl_add s ts seq ecn) (o_add o ts seq ecn)
    /\ sl_ssrc (sl_add s ts seq ecn) = sl_ssrc s.
  Proof.
    intros (Hi & Hq & (l & Hu & Hl) & Hh & Hag & Hlo & Hle & Hhi & Hn & Hack & Htf & Hfi & H5 & Hfr & Hec) Hs He.
    unfold sl_add, o_add. rewrite Hq, Hu, Hi. cbn [unwrap].
    set (r := unwrap_next l seq).
    assert (Hr : 0 <= r) by (apply unwrap_next_nonneg; lia).
    destruct (r <? sl_next s) eqn:Elt.
    - (* below the cursor: dropped by the implementation *)
      split; [|reflexivity].
      destruct (lfind r (o_arr o)) as [v|] eqn:Ef.
      + unfold R; cbn [sl_seq sl_init sl_next sl_last sl_log o_uw o_first o_hi o_arr o_ackhi o_tfloor o_fresh].
        splits; auto. exists r; auto.
      + unfold R; cbn [sl_seq sl_init sl_next sl_last sl_log o_uw o_first o_hi o_arr o_ackhi o_tfloor o_fresh].
        assert (Hmax : Z.max (o_hi o) r = o_hi o) by lia. rewrite Hmax.
        splits; auto.
        * exists r; auto.
        * intros k Hk. simpl. replace (r =? k) with false by lia. apply Hag; exact Hk.
        * intros k. simpl. destruct (r =? k) eqn:E; [lia|apply Hle].
        * simpl. destruct (r =? o_hi o); [congruence|exact Hhi].
        * intros k Hk. destruct (H5 k Hk) as [?|H6]; [left; assumption|right].
          simpl. destruct (r =? k); [congruence|exact H6].
        * intros k [<-|Hin]; [|apply Hfr; exact Hin].
          destruct (Z_lt_dec r (o_first o)); [right; left; assumption|].
          destruct (H5 r) as [?|H6]; [lia|right; right; assumption|congruence].
        * intros k ts0 ecn0. simpl. destruct (r =? k); [|apply Hec].
          intros H; inversion H; subst; lia.
    - (* at or above the cursor *)
      rewrite (Hag r) by lia.
      destruct (lfind r (o_arr o)) as [v|] eqn:Ef.
      + split; [|reflexivity].
        unfold R; cbn [sl_seq sl_init sl_next sl_last sl_log o_uw o_first o_hi o_arr o_ackhi o_tfloor o_fresh].
        splits; auto. exists r; auto.
      + split; [|reflexivity].
        unfold R; cbn [sl_seq sl_init sl_next sl_last sl_log o_uw o_first o_hi o_arr o_ackhi o_tfloor o_fresh].
        assert (Hlast : (if sl_last s <? r then r else sl_last s) = Z.max (o_hi o) r)
          by (rewrite Hh; destruct (o_hi o <? r) eqn:E; lia).
        rewrite Hlast.
        splits; auto; try lia.
        * exists r; auto.
        * intros k Hk. simpl. destruct (r =? k); [reflexivity|apply Hag; exact Hk].
        * intros k Hk. simpl. replace (r =? k) with false by lia. apply Hlo; exact Hk.
        * intros k. simpl. destruct (r =? k) eqn:E; [lia|]. intros H. specialize (Hle k H). lia.
        * simpl. destruct (r =? Z.max (o_hi o) r) eqn:E; [congruence|].
          replace (Z.max (o_hi o) r) with (o_hi o) by lia. exact Hhi.
        * intros k Hk. destruct (H5 k Hk) as [?|H6]; [left; assumption|right].
          simpl. destruct (r =? k); [congruence|exact H6].
        * intros k [<-|Hin]; [left; lia|apply Hfr; exact Hin].
        * intros k ts0 ecn0. simpl. destruct (r =? k); [|apply Hec].
          intros H; inversion H; subst; lia.
  Qed.

  (* ---- a report block of the model passes the oracle ---- *)
  Lemma enc_mbof_expected o now log i :
    lfind i log = lfind i (o_arr o) -> enc_mb (mbof atok now log i) = expected_mb o now i.
  Proof.
    intros H. unfold mbof, expected_mb. rewrite H.
    destruct (lfind i (o_arr o)) as [[ts ecn]|]; cbn [enc_mb]; [rewrite ato_exact; reflexivity|reflexivity].
  Qed.

  Lemma check_entries_ok o now log cnt : forall i,
    (forall k, i <= k -> lfind k log = lfind k (o_arr o)) ->
    check_entries o now i (map enc_mb (map (mbof atok now log) (zrange i cnt))) = 0%nat.
  Proof.
    induction cnt as [|c IH]; intros i H; simpl; [reflexivity|].
    unfold entry_code. rewrite (enc_mbof_expected o now log i) by (apply H; lia).
    rewrite Z.eqb_refl. apply IH. intros k Hk. apply H. lia.
  Qed.

  Lemma prefix_len_pfx o now log cnt : forall i,
    (forall k, i <= k -> lfind k log = lfind k (o_arr o)) ->
    (forall k ts ecn, lfind k (o_arr o) = Some (ts, ecn) -> 0 <= ecn < 4) ->
    prefix_len (map enc_mb (map (mbof atok now log) (zrange i cnt))) = Z.of_nat (pfx log i cnt).
  Proof.
    induction cnt as [|c IH]; intros i H Hec; [reflexivity|].
    cbn [zrange map prefix_len pfx].
    unfold mbof at 1. destruct (lfind i log) as [[ts ecn]|] eqn:E.
    - cbn [enc_mb]. assert (0 <= ecn < 4) by (apply (Hec i ts ecn); rewrite <- H by lia; exact E).
      pose proof (ato_spec_range now ts). rewrite ato_exact.
      unfold mbz_received, mbz. replace (262144 <=? 262144 + ecn * 65536 + ato_spec now ts) with true by lia.
      rewrite IH by (auto; intros k Hk; apply H; lia). lia.
    - reflexivity.
  Qed.

  Lemma check_fresh_ok o start n B fr :
    (forall s, In s fr -> start <= s \/ B <= n \/ s < o_first o \/ s < o_tfloor o) ->
    code_ok (check_fresh o start n B fr).
  Proof.
    induction fr as [|s tl IH]; intros H; [left; reflexivity|].
    cbn [check_fresh]. unfold fresh_code.
    destruct (start <=? s) eqn:E1; [apply IH; intros; apply H; right; assumption|].
    destruct (n >=? B) eqn:E2; [apply IH; intros; apply H; right; assumption|].
    destruct (s <? o_first o) eqn:E3; [right; reflexivity|].
    destruct (s <? o_tfloor o) eqn:E4; [apply IH; intros; apply H; right; assumption|].
    exfalso. destruct (H s (or_introl eq_refl)) as [?|[?|[?|?]]]; lia.
  Qed.

  Lemma R_report s o now B s' ssrc begin mbs c o' :
    R s o -> 0 <= B ->
    metrics_after atok s now B = (s', (ssrc, begin, mbs)) ->
    o_report o now B begin (map enc_mb mbs) = (c, o') ->
    code_ok c /\ R s' o' /\ sl_ssrc s' = sl_ssrc s /\ ssrc = sl_ssrc s.
  Proof.
    intros (Hi & Hq & Huw & Hh & Hag & Hlo & Hle & Hhi & Hn & Hack & Htf & Hfi & H5 & Hfr & Hec) HB Em Eo.
    assert (Hd : sl_log s = [] \/ sl_log s <> []) by (destruct (sl_log s); [left; reflexivity|right; congruence]).
    destruct Hd as [El|El].
    - (* nothing retained *)
      rewrite metrics_after_empty in Em by exact El. inversion Em; subst s' ssrc begin mbs. clear Em.
      assert (Hnone : forall k, lfind k (sl_log s) = None) by (rewrite El; reflexivity).
      assert (Hnx : sl_next s = o_hi o + 1).
      { destruct (Z_le_dec (sl_next s) (o_hi o)) as [Hc|Hc]; [|lia].
        exfalso. apply Hhi. rewrite <- Hag by exact Hc. apply Hnone. }
      unfold o_report in Eo. cbn [map length prefix_len check_entries] in Eo.
      change (Z.of_nat 0) with 0 in Eo. rewrite Z.sub_0_r in Eo.
      unfold u16 in Eo. rewrite Hnx, Z.eqb_refl in Eo. cbn [negb] in Eo.
      replace (o_hi o + 1 <? o_ackhi o) with false in Eo by lia.
      inversion Eo; subst c o'. clear Eo.
      split; [|split; [|split; reflexivity]].
      + apply check_fresh_ok. intros x Hx. destruct (Hfr x Hx) as [?|[?|?]]; [left; lia|auto|auto].
      + unfold R; cbn [sl_seq sl_init sl_next sl_last sl_log o_uw o_first o_hi o_arr o_ackhi o_tfloor o_fresh].
        splits; auto.
        * destruct (0 >=? B); lia.
        * intros k Hk. destruct (H5 k Hk) as [?|?]; [left; destruct (0 >=? B); lia|right; assumption].
        * intros k [].
    - (* the log is not empty *)
      destruct (metrics_after_spec atok s now B) as (log2 & E & Hlog2); [exact El|].
      rewrite E in Em. inversion Em; subst s' ssrc begin mbs. clear Em E.
      set (next1 := trunc_next s B) in *. set (log1 := trunc_log s B) in *. set (cnt := range_cnt s B) in *.
      set (p := pfx log1 next1 cnt) in *.
      assert (Hn1 : sl_next s <= next1 <= o_hi o + 1)
        by (unfold next1, trunc_next; destruct (_ >? _) eqn:Et; [rewrite Z.gtb_ltb in Et; apply Z.ltb_lt in Et|]; lia).
      assert (Hcnt : Z.of_nat cnt = o_hi o - next1 + 1) by (unfold cnt, range_cnt; fold next1; lia).
      assert (Hag1 : forall k, next1 <= k -> lfind k log1 = lfind k (o_arr o)).
      { intros k Hk. unfold log1, trunc_log. destruct (_ >? _) eqn:Et.
        - rewrite lfind_lprune. unfold next1, trunc_next in Hk. rewrite Et in Hk.
          replace (sl_last s - B + 1 <=? k) with true by lia. apply Hag. lia.
        - apply Hag. lia. }
      assert (Hlo1 : forall k, k < next1 -> lfind k log1 = None).
      { intros k Hk. unfold log1, trunc_log. unfold next1, trunc_next in Hk. destruct (_ >? _) eqn:Et.
        - rewrite lfind_lprune. replace (sl_last s - B + 1 <=? k) with false by lia. reflexivity.
        - apply Hlo. exact Hk. }
      assert (Hfull : sl_next s < next1 -> Z.of_nat cnt = B).
      { unfold next1, trunc_next. destruct (_ >? _) eqn:Et; [|lia]. intros _.
        unfold cnt, range_cnt, trunc_next. rewrite Et. lia. }
      assert (Hp : (p <= cnt)%nat) by (unfold p; apply pfx_le).
      unfold o_report in Eo. rewrite !map_length, zrange_length in Eo.
      replace (o_hi o - Z.of_nat cnt + 1) with next1 in Eo by lia.
      unfold u16 in Eo. rewrite Z.eqb_refl in Eo. cbn [negb] in Eo.
      replace (next1 <? o_ackhi o) with false in Eo by lia.
      rewrite (check_entries_ok o now log1 cnt next1 Hag1) in Eo.
      rewrite (prefix_len_pfx o now log1 cnt next1 Hag1 Hec) in Eo. fold p in Eo.
      inversion Eo; subst c o'. clear Eo.
      split; [|split; [|split; reflexivity]].
      + apply check_fresh_ok. intros x Hx.
        destruct (Z_le_dec next1 x); [left; assumption|].
        destruct (Z_lt_dec (sl_next s) next1) as [Ht|Ht]; [right; left; rewrite Hfull by exact Ht; lia|].
        destruct (Hfr x Hx) as [?|[?|?]]; [lia|auto|auto].
      + unfold R; cbn [sl_seq sl_init sl_next sl_last sl_log o_uw o_first o_hi o_arr o_ackhi o_tfloor o_fresh].
        splits; auto; try lia.
        * intros k Hk. rewrite Hlog2. replace ((next1 <=? k) && (k <? next1 + Z.of_nat p)) with false by lia.
          apply Hag1. lia.
        * intros k Hk. rewrite Hlog2.
          destruct ((next1 <=? k) && (k <? next1 + Z.of_nat p)) eqn:Ein; [reflexivity|].
          apply Hlo1. lia.
        * destruct (0 <? Z.of_nat p); lia.
        * destruct (Z.of_nat cnt >=? B); lia.
        * intros k Hk.
          destruct (Z_lt_dec k (sl_next s)) as [H1|H1].
          { destruct (H5 k) as [?|?]; [lia|left; destruct (Z.of_nat cnt >=? B); lia|right; assumption]. }
          destruct (Z_lt_dec k next1) as [H2|H2].
          { left. assert (Z.of_nat cnt = B) by (apply Hfull; lia).
            replace (Z.of_nat cnt >=? B) with true by (rewrite Z.geb_leb; lia). lia. }
          right. rewrite <- Hag1 by lia. apply (pfx_present log1 next1 cnt). fold p. lia.
        * intros k [].
  Qed.
End Sim.

(* ---- size arithmetic of Recorder.BuildReport ---- *)
Lemma psb_fair maxSize k : 0 < k -> per_stream_budget maxSize k = fair_share maxSize k.
Proof.
  intros Hk. unfold per_stream_budget, fair_share. cbv zeta.
  assert (E1 : Z.max (Z.quot (maxSize - 12 - 8 * k) 2) 0 = Z.max ((maxSize - 12 - 8 * k) / 2) 0).
  { destruct (Z_le_dec 0 (maxSize - 12 - 8 * k)).
    - rewrite Z.quot_div_nonneg by lia. reflexivity.
    - assert (Z.quot (maxSize - 12 - 8 * k) 2 <= 0) by (apply Z.quot_le_upper_bound; lia || (apply Z.quot_le_upper_bound; lia)).
      lia. }
  rewrite E1. set (t := Z.max ((maxSize - 12 - 8 * k) / 2) 0).
  assert (Ht : 0 <= t) by (unfold t; lia).
  rewrite Z.quot_div_nonneg by lia.
  assert (0 <= t / k) by (apply Z.div_pos; lia).
  rewrite Z.rem_mod_nonneg by lia. reflexivity.
Qed.

Lemma fair_share_props maxSize k : 0 < k ->
  0 <= fair_share maxSize k <= 16384 /\ fair_share maxSize k mod 2 = 0 /\
  (12 + 8 * k <= maxSize -> 12 + k * (8 + 2 * fair_share maxSize k) <= maxSize).
Proof.
  intros Hk. unfold fair_share. cbv zeta.
  set (t := Z.max ((maxSize - 12 - 8 * k) / 2) 0).
  assert (Ht : 0 <= t) by (unfold t; lia).
  assert (Hq : 0 <= t / k) by (apply Z.div_pos; lia).
  assert (Hkq : k * (t / k) <= t) by (apply Z.mul_div_le; lia).
  set (q := t / k) in *. set (p := Z.min q 16384).
  assert (Hp : 0 <= p <= 16384 /\ p <= q) by (unfold p; lia).
  splits; try lia.
  intros Hm.
  assert (k * (p - p mod 2) <= k * q) by (apply Z.mul_le_mono_nonneg_l; lia).
  assert (2 * t <= maxSize - 12 - 8 * k) by (unfold t; lia).
  lia.
Qed.

Lemma block_len_bound (b : rblock) B : 0 <= B -> B mod 2 = 0 ->
  Z.of_nat (length (snd b)) <= B -> block_len b <= 8 + 2 * B.
Proof. intros. unfold block_len. cbv zeta. lia. Qed.

Lemma marshal_len_bound (rep : report) B : 0 <= B <= 16384 -> B mod 2 = 0 ->
  Forall (fun b : rblock => Z.of_nat (length (snd b)) <= B) rep ->
  0 <= marshal_len rep <= 12 + Z.of_nat (length rep) * (8 + 2 * B)
  /\ too_many (map enc_block rep) = false.
Proof.
  intros HB He H.
  assert (E : marshal_len rep = 12 + fold_right (fun b acc => block_len b + acc) 0 rep
              /\ too_many (map enc_block rep) = false
              /\ 0 <= fold_right (fun b acc => block_len b + acc) 0 rep <= Z.of_nat (length rep) * (8 + 2 * B)).
  { induction H as [|b tl Hb Htl IH]; [cbv; splits; congruence|].
    destruct IH as (I1 & I2 & I3).
    unfold marshal_len, too_many in *.
    cbn [existsb map fold_right length]. rewrite I2.
    destruct b as [[ssrc begin] mbs]. cbn [enc_block snd] in *. rewrite map_length.
    rewrite (gtb_false (Z.of_nat (length mbs)) 16384) by lia. cbn [orb].
    pose proof (block_len_bound (ssrc, begin, mbs) B ltac:(lia) He Hb) as Hbl.
    assert (0 <= block_len (ssrc, begin, mbs)) by (unfold block_len; cbv zeta; lia).
    splits; try reflexivity; try lia.
    match goal with |- context [existsb ?f tl] => destruct (existsb f tl) end; lia. }
  destruct E as (E1 & E2 & E3). rewrite E1. split; [lia|exact E2].
Qed.

Lemma Forall2_len {A B} (P : A -> B -> Prop) l1 l2 : Forall2 P l1 l2 -> length l1 = length l2.
Proof. induction 1; simpl; congruence. Qed.

Section Rec.
  Variable atok : Z -> bool * Z.
  Hypothesis Hexact : exact_kernel atok.

  Definition RR (r : recorder) (os : ostreams) : Prop :=
    Forall2 (fun a b => fst a = fst b /\ R (snd a) (snd b) /\ sl_ssrc (snd a) = fst a) r os.

  Lemma RR_add r os ts ssrc seq ecn : RR r os -> 0 <= seq < 65536 -> 0 <= ecn < 4 ->
    RR (rec_add r ts ssrc seq ecn) (os_add os ts ssrc seq ecn).
  Proof.
    intros H Hs He. induction H as [|[k s] [k' o] tl otl (Hk & HR & Hss) Htl IH]; cbn [rec_add os_add].
    - destruct (R_new ssrc ts seq ecn Hs He) as (H1 & H2).
      constructor; [cbn [fst snd]; auto|constructor].
    - cbn [fst snd] in *. subst k'.
      destruct (ssrc <? k) eqn:E1.
      + destruct (R_new ssrc ts seq ecn Hs He) as (H1 & H2).
        constructor; [cbn [fst snd]; auto|]. constructor; [cbn [fst snd]; auto|exact Htl].
      + destruct (ssrc =? k) eqn:E2.
        * destruct (R_add s o ts seq ecn HR Hs He) as (H1 & H2).
          constructor; [cbn [fst snd]; splits; auto; congruence|exact Htl].
        * constructor; [cbn [fst snd]; auto|exact IH].
  Qed.

  Lemma RR_metrics now B r os : RR r os -> 0 <= B -> forall r' rep c os',
    rec_metrics atok r now B = (r', rep) ->
    os_report os now B (map enc_block rep) = (c, os') ->
    code_ok c /\ RR r' os'.
  Proof.
    intros H HB. induction H as [|[k s] [k' o] tl otl (Hk & HR & Hss) Htl IH]; intros r' rep c os' Em Eo.
    - cbn in Em. inversion Em; subst. cbn in Eo. inversion Eo; subst. split; [left; reflexivity|constructor].
    - cbn [fst snd] in *. subst k'.
      cbn [rec_metrics] in Em.
      destruct (metrics_after atok s now B) as [s' [[ssrc begin] mbs]] eqn:Es.
      destruct (rec_metrics atok tl now B) as [tl' bs] eqn:Et.
      inversion Em; subst r' rep. clear Em.
      cbn [map enc_block os_report] in Eo.
      destruct (o_report o now B begin (map enc_mb mbs)) as [c1 o1] eqn:Eo1.
      destruct (R_report atok Hexact s o now B s' ssrc begin mbs c1 o1 HR HB Es Eo1) as (Hc1 & HR1 & Hs1 & Hs2).
      replace (ssrc =? k) with true in Eo by lia. cbn [negb] in Eo.
      destruct (os_report otl now B (map enc_block bs)) as [c2 otl'] eqn:Eo2.
      destruct (IH tl' bs c2 otl' eq_refl Eo2) as (Hc2 & HRR).
      inversion Eo; subst c os'. split; [apply defer7_ok; assumption|].
      constructor; [cbn [fst snd]; splits; auto; congruence|exact HRR].
  Qed.

  Lemma rec_metrics_lengths now B r : 0 <= B -> forall r' rep,
    rec_metrics atok r now B = (r', rep) ->
    length rep = length r /\ Forall (fun b : rblock => Z.of_nat (length (snd b)) <= B) rep.
  Proof.
    intros HB. induction r as [|[k s] tl IH]; intros r' rep E.
    - cbn in E. inversion E; subst. split; [reflexivity|constructor].
    - cbn [rec_metrics] in E.
      pose proof (metrics_after_length atok s now B HB) as Hl.
      destruct (metrics_after atok s now B) as [s' b] eqn:Es.
      destruct (rec_metrics atok tl now B) as [tl' bs] eqn:Et.
      inversion E; subst r' rep. destruct (IH tl' bs eq_refl) as (I1 & I2).
      split; [simpl; congruence|constructor; [exact Hl|exact I2]].
  Qed.

  Definition wf_op (o : c08op) : Prop :=
    match o with
    | Add _ _ seq ecn => 0 <= seq < 65536 /\ 0 <= ecn < 4
    | Build _ _ => True
    | BuildRaw _ b => 0 <= b
    end.

  (* what the harness records for the model: marshalled length and encoded blocks *)
  Definition model_outs (r : recorder) (ops : list c08op) : list oreport :=
    map (fun rep : report => (marshal_len rep, map enc_block rep)) (rec_run atok r ops).

  Lemma walk_ok ops : forall r os, RR r os -> Forall wf_op ops ->
    code_ok (spec_walk os ops (model_outs r ops)).
  Proof.
    induction ops as [|op tl IH]; intros r os HRR Hwf.
    - left; reflexivity.
    - inversion Hwf as [|? ? Hop Htl]; subst.
      assert (Hlen : length os = length r) by (symmetry; eapply Forall2_len; exact HRR).
      destruct op as [ts ssrc seq ecn|now maxSize|now budget]; unfold model_outs; cbn [rec_run rec_step spec_walk].
      + destruct Hop as (Hs & He). apply IH; [apply RR_add; assumption|exact Htl].
      + destruct r as [|x r0] eqn:Er.
        * inversion HRR; subst. cbn [rec_build map spec_walk length os_report].
          change (Z.of_nat 0) with 0. unfold size_code. cbn [existsb marshal_len fold_right orb].
          change (12 + 0) with 12. change (8 * 0) with 0.
          replace ((12 <? 0) || false) with false by reflexivity.
          replace ((12 + 0 <=? maxSize) && (maxSize <? 12)) with false by lia.
          cbn [defer7 orb]. change (12 <? 0) with false. cbn [orb].
          apply (IH [] []); [constructor|exact Htl].
        * unfold rec_build. clear Er. remember (x :: r0) as r1 eqn:Er.
          assert (Hkpos : 0 < Z.of_nat (length r1)) by (rewrite Er; simpl; lia).
          rewrite psb_fair by exact Hkpos.
          destruct (fair_share_props maxSize (Z.of_nat (length r1)) Hkpos) as (HB & Hev & Hsz).
          destruct (rec_metrics atok r1 now (fair_share maxSize (Z.of_nat (length r1)))) as [r' rep] eqn:Em.
          cbn [map spec_walk]. rewrite Hlen.
          destruct (os_report os now (fair_share maxSize (Z.of_nat (length r1))) (map enc_block rep)) as [c os'] eqn:Eo.
          destruct (RR_metrics now _ r1 os HRR (proj1 HB) r' rep c os' Em Eo) as (Hc & HRR').
          destruct (rec_metrics_lengths now _ r1 (proj1 HB) r' rep Em) as (Hl1 & Hl2).
          destruct (marshal_len_bound rep _ HB Hev Hl2) as (Hm1 & Hm2).
          assert (Hsc : size_code maxSize (Z.of_nat (length r1)) (marshal_len rep) (map enc_block rep) = 0%nat).
          { unfold size_code. rewrite Hm2. replace (marshal_len rep <? 0) with false by lia. cbn [orb].
            destruct (12 + 8 * Z.of_nat (length r1) <=? maxSize) eqn:E1; [|reflexivity].
            rewrite Hl1 in Hm1. replace (maxSize <? marshal_len rep) with false by lia. reflexivity. }
          rewrite Hsc. apply defer7_ok; [exact Hc|]. apply IH; [exact HRR'|exact Htl].
      + destruct (rec_metrics atok r now budget) as [r' rep] eqn:Em.
        cbn [map spec_walk].
        destruct (os_report os now budget (map enc_block rep)) as [c os'] eqn:Eo.
        destruct (RR_metrics now budget r os HRR Hop r' rep c os' Em Eo) as (Hc & HRR').
        apply defer7_ok; [exact Hc|]. apply IH; [exact HRR'|exact Htl].
  Qed.

  (* every history, from the empty recorder *)
  Theorem model_meets_spec ops : Forall wf_op ops -> code_ok (spec_walk [] ops (model_outs [] ops)).
  Proof. intros H. apply walk_ok; [constructor|exact H]. Qed.
End Rec.

(* ---- size limit and block limit of BuildReport: every recorder state, every kernel ---- *)
Lemma build_size atok r now maxSize r' rep :
  rec_build atok r now maxSize = (r', rep) ->
  Forall (fun b : rblock => Z.of_nat (length (snd b)) <= 16384) rep /\
  (12 + 8 * Z.of_nat (length r) <= maxSize -> 0 <= marshal_len rep <= maxSize).
Proof.
  unfold rec_build. destruct r as [|x r0] eqn:Er.
  - intros E. inversion E; subst. split; [constructor|]. cbv [marshal_len existsb fold_right length]. simpl. lia.
  - rewrite <- Er. clear Er x r0. intros E.
    destruct (Z_le_dec (Z.of_nat (length r)) 0) as [H0|H0].
    + destruct r; [|simpl in H0; lia]. cbn in E. inversion E; subst. split; [constructor|].
      cbv [marshal_len existsb fold_right length]. simpl. lia.
    + assert (Hk : 0 < Z.of_nat (length r)) by lia.
      rewrite psb_fair in E by exact Hk.
      destruct (fair_share_props maxSize (Z.of_nat (length r)) Hk) as (HB & Hev & Hsz).
      destruct (rec_metrics_lengths atok now _ r (proj1 HB) r' rep E) as (Hl1 & Hl2).
      destruct (marshal_len_bound rep _ HB Hev Hl2) as (Hm1 & _).
      split.
      * eapply Forall_impl; [|exact Hl2]. intros b Hb. cbv beta in *. lia.
      * intros Hm. rewrite Hl1 in Hm1. specialize (Hsz Hm). lia.
Qed.
