(* Proofs about Model/FbAdapter.v against Spec/FbSpec.v (C09, cc adapter). *)
From IV Require Import Base.Word Model.FbAdapter Spec.FbSpec.
From Coq Require Import ZifyBool.
Ltac Zify.zify_post_hook ::= Z.div_mod_to_equations.

(* ---------- history lookups ---------- *)

Lemma key_is_true ssrc seq a : key_is ssrc seq a = true <-> ack_ssrc a = ssrc /\ ack_seq a = seq.
Proof. unfold key_is. rewrite andb_true_iff, !Z.eqb_eq. tauto. Qed.

Lemma hget_key h ssrc seq a : hget h ssrc seq = Some a -> ack_ssrc a = ssrc /\ ack_seq a = seq.
Proof.
  induction h as [|x t IH]; simpl; [discriminate|].
  destruct (key_is ssrc seq x) eqn:E.
  - intros H; inversion H; subst. now apply key_is_true.
  - exact IH.
Qed.

Lemma hget_In h ssrc seq a : hget h ssrc seq = Some a -> In a h.
Proof.
  induction h as [|x t IH]; simpl; [discriminate|].
  destruct (key_is ssrc seq x); [intros H; inversion H; auto | auto].
Qed.

Lemma hget_none_iff h ssrc seq : hget h ssrc seq = None <-> forall a, In a h -> key_is ssrc seq a = false.
Proof.
  induction h as [|x t IH]; simpl.
  - split; [intros _ a []|auto].
  - destruct (key_is ssrc seq x) eqn:E.
    + split; [discriminate|]. intros H. specialize (H x (or_introl eq_refl)). congruence.
    + rewrite IH. split; [intros H a [<-|Ha]; auto|intros H a Ha; auto].
Qed.

Lemma hget_app_some l1 l2 ssrc seq a : hget l1 ssrc seq = Some a -> hget (l1 ++ l2) ssrc seq = Some a.
Proof.
  induction l1 as [|x t IH]; simpl; [discriminate|]. destruct (key_is ssrc seq x); auto.
Qed.

Lemma hget_hremove_same h ssrc seq : hget (hremove h ssrc seq) ssrc seq = None.
Proof.
  apply hget_none_iff. intros a Ha. apply filter_In in Ha as [_ Ha].
  now apply negb_true_iff in Ha.
Qed.

Lemma hget_hremove_other h s1 q1 s2 q2 :
  (s1 <> s2 \/ q1 <> q2) -> hget (hremove h s1 q1) s2 q2 = hget h s2 q2.
Proof.
  intros Hne. induction h as [|x t IH]; simpl; auto.
  destruct (key_is s1 q1 x) eqn:E1; simpl.
  - destruct (key_is s2 q2 x) eqn:E2; auto.
    apply key_is_true in E1, E2. exfalso. destruct E1, E2. destruct Hne; congruence.
  - destruct (key_is s2 q2 x); auto.
Qed.

Lemma removelast_prefix {A} (l : list A) : l <> [] -> exists x, l = removelast l ++ [x].
Proof.
  intros H. destruct (exists_last H) as [l' [x ->]]. exists x. now rewrite removelast_last.
Qed.

Lemma hget_removelast_some h ssrc seq a :
  hget (removelast h) ssrc seq = Some a -> hget h ssrc seq = Some a.
Proof.
  destruct h as [|x t]; [simpl; discriminate|].
  destruct (removelast_prefix (x :: t)) as [y Hy]; [discriminate|].
  intros H. rewrite Hy. now apply hget_app_some.
Qed.

(* ---------- OnSent: the history only holds what was sent, most recent record per key ---------- *)

(* every entry the bounded history returns is the most recent record of that
   key in the unbounded send log *)
Definition hist_sound (h log : list ack) : Prop :=
  forall ssrc seq a, hget h ssrc seq = Some a -> hget log ssrc seq = Some a.

Lemma hadd_sound cap h log a : hist_sound h log -> hist_sound (hadd cap h a) (a :: log).
Proof.
  intros Hs ssrc seq b. unfold hadd. simpl (hget (a :: log) _ _).
  destruct (key_is ssrc seq a) eqn:Ek.
  - (* the key of the new record: it is at the front in every branch *)
    destruct (hget h (ack_ssrc a) (ack_seq a)).
    + simpl. rewrite Ek. auto.
    + destruct (_ >? _).
      * destruct h as [|x t]; cbn [removelast].
        -- simpl. discriminate.
        -- cbn [hget]. rewrite Ek. auto.
      * simpl. rewrite Ek. auto.
  - assert (Hne : ack_ssrc a <> ssrc \/ ack_seq a <> seq).
    { destruct (Z.eq_dec (ack_ssrc a) ssrc), (Z.eq_dec (ack_seq a) seq); auto.
      exfalso. assert (key_is ssrc seq a = true) by (apply key_is_true; auto). congruence. }
    destruct (hget h (ack_ssrc a) (ack_seq a)).
    + simpl. rewrite Ek. rewrite hget_hremove_other by exact Hne. apply Hs.
    + destruct (_ >? _).
      * intros H. apply hget_removelast_some in H. simpl in H. rewrite Ek in H. now apply Hs.
      * simpl. rewrite Ek. apply Hs.
Qed.

Lemma filter_len_le {A} (f : A -> bool) l : (length (filter f l) <= length l)%nat.
Proof. induction l as [|x t IH]; simpl; [lia|]. destruct (f x); simpl; lia. Qed.

Lemma hremove_shorter h ssrc seq a :
  hget h ssrc seq = Some a -> (length (hremove h ssrc seq) < length h)%nat.
Proof.
  induction h as [|x t IH]; simpl; [discriminate|].
  destruct (key_is ssrc seq x) eqn:Ex; simpl.
  - intros _. pose proof (filter_len_le (fun a0 => negb (key_is ssrc seq a0)) t).
    unfold hremove. lia.
  - intros H. specialize (IH H). lia.
Qed.

Lemma hadd_length cap h a : 0 < cap -> Z.of_nat (length h) <= cap -> Z.of_nat (length (hadd cap h a)) <= cap.
Proof.
  intros Hc Hl. unfold hadd. destruct (hget h (ack_ssrc a) (ack_seq a)) eqn:E.
  - simpl length. apply hremove_shorter in E. lia.
  - destruct (_ >? _) eqn:G; [|lia].
    destruct (removelast_prefix (a :: h)) as [y Hy]; [discriminate|].
    apply (f_equal (@length _)) in Hy. rewrite app_length in Hy. cbn [length] in Hy.
    set (n := length (removelast (a :: h))) in *. clearbody n. lia.
Qed.

(* ---------- the invariant over whole histories ---------- *)

Lemma step_sound reftime h log o :
  hist_sound h log -> hist_sound (fst (step reftime h o)) (sent_record o ++ log).
Proof.
  intros Hs. destruct o as [extid twcc ssrc seq hsize size dep | base count ref24 cs ds | ts bs]; simpl.
  - unfold on_sent. destruct (extid =? 0); simpl.
    + now apply hadd_sound.
    + destruct twcc; simpl; [now apply hadd_sound|exact Hs].
  - destruct (on_twcc h base ref24 cs ds); exact Hs.
  - exact Hs.
Qed.

Lemma final_sound reftime ops : forall h log,
  hist_sound h log -> hist_sound (final reftime h ops) (send_log ops log).
Proof.
  induction ops as [|o ops IH]; intros h log Hs; simpl; [exact Hs|].
  apply IH. now apply step_sound.
Qed.

Lemma step_length reftime h o :
  Z.of_nat (length h) <= CAP -> Z.of_nat (length (fst (step reftime h o))) <= CAP.
Proof.
  intros Hl. destruct o as [extid twcc ssrc seq hsize size dep | base count ref24 cs ds | ts bs]; simpl.
  - unfold on_sent. destruct (extid =? 0); simpl.
    + apply hadd_length; [reflexivity|exact Hl].
    + destruct twcc; simpl; [apply hadd_length; [reflexivity|exact Hl]|exact Hl].
  - destruct (on_twcc h base ref24 cs ds); exact Hl.
  - exact Hl.
Qed.

Lemma final_length reftime ops : forall h,
  Z.of_nat (length h) <= CAP -> Z.of_nat (length (final reftime h ops)) <= CAP.
Proof.
  induction ops as [|o ops IH]; intros h Hl; simpl; [exact Hl|]. apply IH. now apply step_length.
Qed.

(* run and final agree: the outputs of a history are those of its steps *)
Lemma run_app reftime ops1 : forall h ops2,
  run reftime h (ops1 ++ ops2) = run reftime h ops1 ++ run reftime (final reftime h ops1) ops2.
Proof.
  induction ops1 as [|o ops IH]; intros h ops2; simpl; [reflexivity|].
  destruct (step reftime h o) as [h' r] eqn:E. simpl. rewrite IH. reflexivity.
Qed.

(* ---------- TWCC: position semantics ---------- *)

Lemma zsum_cons d l : zsum (d :: l) = d + zsum l.
Proof. reflexivity. Qed.

(* one pass over a symbol list, generalised over the running reference time and remaining deltas *)
Lemma unpack_syms_spec h : forall syms start ref ds ref' ds' acks,
  0 <= start < 65536 ->
  unpack_syms h start ref syms ds = Some (ref', ds', acks) ->
  length acks = length syms /\
  ref' = ref + 1000 * zsum (firstn (ndeltas syms) ds) /\
  ds' = skipn (ndeltas syms) ds /\
  (ndeltas syms <= length ds)%nat /\
  forall k, (k < length syms)%nat ->
    nth k acks zero_ack =
      match hget h 0 ((start + Z.of_nat k) mod 65536) with
      | None => zero_ack
      | Some a => if is_delta_sym (nth k syms 0)
                  then set_arr a (ref + 1000 * zsum (firstn (ndeltas (firstn (S k) syms)) ds))
                  else a
      end.
Proof.
  induction syms as [|s syms IH]; intros start ref ds ref' ds' acks Hst H.
  - simpl in H. inversion H; subst. unfold ndeltas; simpl. repeat split; try lia; intros k Hk; simpl in Hk; lia.
  - cbn [unpack_syms] in H. unfold sym_step in H.
    destruct (is_delta_sym s) eqn:Es.
    + destruct ds as [|d ds0]; [discriminate|].
      destruct (unpack_syms h (add16 start 1) (ref + d * 1000) syms ds0) as [[[r2 d2] a2]|] eqn:E; [|discriminate].
      inversion H; subst; clear H.
      apply IH in E; [|apply add16_range]. destruct E as (El & Er & Ed & En & Ek).
      assert (Hnd : ndeltas (s :: syms) = S (ndeltas syms)) by (unfold ndeltas; simpl; rewrite Es; reflexivity).
      rewrite Hnd. cbn [firstn skipn length]. rewrite zsum_cons. repeat split; try lia; try assumption.
      intros [|k] Hk.
      * cbn [nth firstn]. rewrite Z.add_0_r, Z.mod_small by lia. rewrite Es.
        unfold ndeltas; cbn [filter]; rewrite Es; cbn [length firstn]. unfold zsum; cbn [fold_right].
        destruct (hget h 0 start); [f_equal; lia|reflexivity].
      * cbn [nth]. rewrite Ek by (simpl in Hk; lia).
        replace ((add16 start 1 + Z.of_nat k) mod 65536) with ((start + Z.of_nat (S k)) mod 65536)
          by (unfold add16; lia).
        destruct (hget h 0 _); [|reflexivity]. destruct (is_delta_sym (nth k syms 0)); [|reflexivity].
        f_equal. cbn [firstn]. unfold ndeltas at 2. cbn [filter]. rewrite Es. cbn [length firstn].
        rewrite zsum_cons. unfold ndeltas. lia.
    + destruct (unpack_syms h (add16 start 1) ref syms ds) as [[[r2 d2] a2]|] eqn:E; [|discriminate].
      inversion H; subst; clear H.
      apply IH in E; [|apply add16_range]. destruct E as (El & Er & Ed & En & Ek).
      assert (Hnd : ndeltas (s :: syms) = ndeltas syms) by (unfold ndeltas; simpl; rewrite Es; reflexivity).
      rewrite Hnd. cbn [length]. repeat split; try lia; try assumption.
      intros [|k] Hk.
      * cbn [nth]. rewrite Z.add_0_r, Z.mod_small by lia. rewrite Es. reflexivity.
      * cbn [nth]. rewrite Ek by (simpl in Hk; lia).
        replace ((add16 start 1 + Z.of_nat k) mod 65536) with ((start + Z.of_nat (S k)) mod 65536)
          by (unfold add16; lia).
        destruct (hget h 0 _); [|reflexivity]. destruct (is_delta_sym (nth k syms 0)); [|reflexivity].
        f_equal. cbn [firstn]. unfold ndeltas at 2. cbn [filter]. rewrite Es. reflexivity.
Qed.

Lemma unpack_syms_none h : forall syms start ref ds,
  unpack_syms h start ref syms ds = None <-> (length ds < ndeltas syms)%nat.
Proof.
  induction syms as [|s syms IH]; intros start ref ds.
  - simpl. unfold ndeltas; simpl. split; [discriminate|lia].
  - cbn [unpack_syms]. unfold sym_step. unfold ndeltas; cbn [filter]. destruct (is_delta_sym s) eqn:Es.
    + destruct ds as [|d ds0]; cbn [length].
      * split; [lia|reflexivity].
      * destruct (unpack_syms h (add16 start 1) (ref + d * 1000) syms ds0) as [[[r2 d2] a2]|] eqn:E.
        -- split; [discriminate|]. intros Hl. exfalso.
           assert (unpack_syms h (add16 start 1) (ref + d * 1000) syms ds0 = None)
             by (apply IH; unfold ndeltas; lia). congruence.
        -- apply IH in E. unfold ndeltas in E. split; [lia|reflexivity].
    + destruct (unpack_syms h (add16 start 1) ref syms ds) as [[[r2 d2] a2]|] eqn:E.
      * split; [discriminate|]. intros Hl. exfalso.
        assert (unpack_syms h (add16 start 1) ref syms ds = None) by (apply IH; unfold ndeltas; lia).
        congruence.
      * apply IH in E. unfold ndeltas in E. split; [lia|reflexivity].
Qed.

Lemma unpack_syms_app h : forall l1 l2 start ref ds,
  0 <= start < 65536 ->
  unpack_syms h start ref (l1 ++ l2) ds =
    match unpack_syms h start ref l1 ds with
    | None => None
    | Some (r1, d1, a1) =>
        match unpack_syms h ((start + Z.of_nat (length l1)) mod 65536) r1 l2 d1 with
        | None => None
        | Some (r2, d2, a2) => Some (r2, d2, a1 ++ a2)
        end
    end.
Proof.
  induction l1 as [|s l1 IH]; intros l2 start ref ds Hst.
  - cbn [app unpack_syms length]. rewrite Z.add_0_r, Z.mod_small by lia.
    destruct (unpack_syms h start ref l2 ds) as [[[r2 d2] a2]|]; reflexivity.
  - cbn [app unpack_syms length]. destruct (sym_step h start s ref ds) as [[[r1 d1] a]|]; [|reflexivity].
    rewrite IH by apply add16_range.
    replace ((add16 start 1 + Z.of_nat (length l1)) mod 65536) with ((start + Z.of_nat (S (length l1))) mod 65536)
      by (unfold add16; lia).
    destruct (unpack_syms h (add16 start 1) r1 l1 d1) as [[[r2 d2] a2]|]; [|reflexivity].
    destruct (unpack_syms h _ r2 l2 d2) as [[[r3 d3] a3]|]; reflexivity.
Qed.

(* the chunk loop is the symbol loop over the expanded chunks *)
Lemma unpack_chunks_flat h : forall cs index ref ds,
  0 <= index < 65536 ->
  unpack_chunks h index ref cs ds =
    match unpack_syms h index ref (symbols cs) ds with
    | None => None
    | Some (_, _, acks) => Some acks
    end.
Proof.
  induction cs as [|c cs IH]; intros index ref ds Hi.
  - reflexivity.
  - cbn [unpack_chunks symbols flat_map]. fold (symbols cs). rewrite unpack_syms_app by exact Hi.
    destruct (unpack_syms h index ref (chunk_syms c) ds) as [[[r1 d1] a1]|] eqn:E; [|reflexivity].
    apply unpack_syms_spec in E as (El & _); [|exact Hi]. rewrite El.
    rewrite IH by (unfold u16; lia). unfold u16.
    destruct (unpack_syms h _ r1 (symbols cs) d1) as [[[r2 d2] a2]|]; reflexivity.
Qed.

(* C09 position semantics of OnTransportCCFeedback *)
Theorem twcc_position h base ref24 cs ds acks :
  0 <= base < 65536 ->
  on_twcc h base ref24 cs ds = Some acks ->
  length acks = length (symbols cs) /\
  forall k, (k < length (symbols cs))%nat ->
    nth k acks zero_ack =
      decode_at (hget h 0 ((base + Z.of_nat k) mod 65536)) ref24 (symbols cs) ds k.
Proof.
  intros Hb H. unfold on_twcc in H. rewrite unpack_chunks_flat in H by exact Hb.
  destruct (unpack_syms h base _ (symbols cs) ds) as [[[r d] a]|] eqn:E; [|discriminate].
  inversion H; subst; clear H. apply unpack_syms_spec in E as (El & _ & _ & _ & Ek); [|exact Hb].
  split; [exact El|]. intros k Hk. rewrite Ek by exact Hk. unfold decode_at, arrival_at.
  destruct (hget h 0 _); [|reflexivity]. destruct (is_delta_sym _); [|reflexivity]. f_equal. lia.
Qed.

(* the feedback is rejected exactly when it carries fewer deltas than delta-carrying symbols *)
Theorem twcc_rejected_iff h base ref24 cs ds :
  0 <= base < 65536 ->
  (on_twcc h base ref24 cs ds = None <-> (length ds < ndeltas (symbols cs))%nat).
Proof.
  intros Hb. unfold on_twcc. rewrite unpack_chunks_flat by exact Hb.
  rewrite <- (unpack_syms_none h (symbols cs) base (ref24 * 64 * 1000000) ds).
  destruct (unpack_syms h base _ (symbols cs) ds) as [[[r d] a]|]; split; congruence.
Qed.

(* every acknowledgement that is not the zero value names a sent packet: it is
   the history record of sequence number base + k, which is the most recent
   record of that key in the send log; size and departure are that record's *)
Theorem twcc_names_sent h log base ref24 cs ds acks k :
  hist_sound h log ->
  0 <= base < 65536 ->
  on_twcc h base ref24 cs ds = Some acks ->
  (k < length acks)%nat ->
  nth k acks zero_ack = zero_ack \/
  exists e, hget log 0 ((base + Z.of_nat k) mod 65536) = Some e /\
            ack_seq e = (base + Z.of_nat k) mod 65536 /\ ack_ssrc e = 0 /\
            ack_seq (nth k acks zero_ack) = ack_seq e /\
            ack_ssrc (nth k acks zero_ack) = ack_ssrc e /\
            ack_size (nth k acks zero_ack) = ack_size e /\
            ack_dep (nth k acks zero_ack) = ack_dep e /\
            ack_ecn (nth k acks zero_ack) = ack_ecn e.
Proof.
  intros Hs Hb H Hk. destruct (twcc_position _ _ _ _ _ _ Hb H) as [El Hp].
  rewrite Hp by lia. unfold decode_at.
  destruct (hget h 0 _) as [e|] eqn:E; [right|left; reflexivity].
  exists e. split; [now apply Hs|]. apply hget_key in E as [E1 E2]. split; [exact E2|]. split; [exact E1|].
  destruct e as [[[[[s c] z] d] r] x]. destruct (is_delta_sym _); simpl; auto 10.
Qed.

(* ---------- RFC 8888 ---------- *)

(* what metric block number n of a report block encodes for the packet (ssrc, begin + n) *)
Definition ccfb_at (h : hist) (rt ssrc begin : Z) (n : nat) (mb : mblock) : list ack :=
  match hget h ssrc ((begin + Z.of_nat n) mod 65536) with
  | Some a => let '(recv, ecn, ato) := mb in
              [if recv : bool then set_arr_ecn a (rt - ato * 1000000000 / 1024) ecn else a]
  | None => []
  end.

Fixpoint ccfb_spec (h : hist) (rt ssrc begin : Z) (n : nat) (mbs : list mblock) : list ack :=
  match mbs with
  | [] => []
  | mb :: t => ccfb_at h rt ssrc begin n mb ++ ccfb_spec h rt ssrc begin (S n) t
  end.

Lemma ccfb_block_spec h rt ssrc begin : forall mbs n,
  ccfb_block h rt ssrc ((begin + Z.of_nat n) mod 65536) mbs = ccfb_spec h rt ssrc begin n mbs.
Proof.
  induction mbs as [|[[recv ecn] ato] t IH]; intros n; [reflexivity|].
  cbn [ccfb_block ccfb_spec]. unfold ccfb_at at 1.
  replace (add16 ((begin + Z.of_nat n) mod 65536) 1) with ((begin + Z.of_nat (S n)) mod 65536)
    by (unfold add16; lia).
  rewrite IH. unfold ato_ns. destruct (hget h ssrc _); reflexivity.
Qed.

Theorem ccfb_position h rt bs :
  Forall (fun b : rblock => 0 <= snd (fst b) < 65536) bs ->
  on_ccfb h rt bs =
  flat_map (fun b : rblock => let '(ssrc, begin, mbs) := b in ccfb_spec h rt ssrc begin 0 mbs) bs.
Proof.
  intros Hf. unfold on_ccfb. induction bs as [|[[ssrc begin] mbs] t IH]; [reflexivity|].
  inversion Hf as [|? ? Hb Ht]; subst. cbn [flat_map]. rewrite IH by exact Ht. f_equal.
  rewrite <- (ccfb_block_spec h rt ssrc begin mbs 0). simpl in Hb.
  rewrite Z.add_0_r, Z.mod_small by lia. reflexivity.
Qed.

Lemma ccfb_spec_In h log rt ssrc begin : forall mbs n a,
  hist_sound h log ->
  In a (ccfb_spec h rt ssrc begin n mbs) ->
  exists e, hget log (ack_ssrc a) (ack_seq a) = Some e /\ ack_ssrc a = ssrc /\
            ack_size a = ack_size e /\ ack_dep a = ack_dep e.
Proof.
  induction mbs as [|[[recv ecn] ato] t IH]; intros n a Hs Hin; [destruct Hin|].
  cbn [ccfb_spec] in Hin. apply in_app_or in Hin as [Hin|Hin]; [|now apply (IH (S n))].
  unfold ccfb_at in Hin. destruct (hget h ssrc _) as [e|] eqn:E; [|destruct Hin].
  destruct Hin as [<-|[]]. pose proof (hget_key _ _ _ _ E) as [K1 K2]. apply Hs in E.
  exists e. destruct e as [[[[[s c] z] d] r] x]. simpl in K1, K2. subst.
  destruct recv; simpl; auto.
Qed.

(* every RFC 8888 acknowledgement names a sent packet with its recorded size and departure *)
Theorem ccfb_names_sent h log rt bs a :
  hist_sound h log ->
  Forall (fun b : rblock => 0 <= snd (fst b) < 65536) bs ->
  In a (on_ccfb h rt bs) ->
  exists e, hget log (ack_ssrc a) (ack_seq a) = Some e /\
            ack_size a = ack_size e /\ ack_dep a = ack_dep e.
Proof.
  intros Hs Hf Hin. rewrite ccfb_position in Hin by exact Hf.
  apply in_flat_map in Hin as [[[ssrc begin] mbs] [_ Hin]].
  destruct (ccfb_spec_In _ _ _ _ _ _ _ _ Hs Hin) as (e & H1 & _ & H2 & H3). eauto.
Qed.

(* ---------- what the faithful model refutes (known findings) ---------- *)

(* F12: a status for a packet that was never sent yields a zero-valued acknowledgement *)
Lemma zero_ack_for_unknown_witness :
  on_twcc [(10, 0, 1020, 1, 0, 0)] 10 1 [SV [1; 1; 0; 0; 0; 0; 0]] [1000; 5000]
  = Some [(10, 0, 1020, 1, 65000000, 0); zero_ack; zero_ack; zero_ack; zero_ack; zero_ack; zero_ack].
Proof. vm_compute. reflexivity. Qed.

(* F13: PacketStatusCount = 2, the two-bit vector has 7 symbols: packets 12..16,
   all sent, are reported (as lost) although the feedback does not cover them *)
Definition h7 : hist := map (fun s => (s, 0, 1000, s, 0, 0)) [16; 15; 14; 13; 12; 11; 10].
Lemma beyond_count_witness :
  exists acks, on_twcc h7 10 1 [SV [1; 1; 0; 0; 0; 0; 0]] [1000; 5000] = Some acks /\
               nth 4 acks zero_ack = (14, 0, 1000, 14, 0, 0).
Proof. eexists. split; [vm_compute; reflexivity|reflexivity]. Qed.

(* F13: run length 5 of "received" with PacketStatusCount 3: the parser creates
   3 deltas, the adapter wants 5 and rejects the whole feedback *)
Lemma run_beyond_count_witness :
  on_twcc h7 10 1 [RL 1 5] [1000; 1000; 1000] = None.
Proof. vm_compute. reflexivity. Qed.
