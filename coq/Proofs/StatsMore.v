(* Deepening round of C19: inbound jitter recurrence; the two readings of the
   remote-outbound figures. *)
From IV Require Import Base.Word Model.Unwrapper Model.Ntp Model.StatsRecorder Spec.StatsSpec Spec.StatsMoreSpec
  Proofs.StatsProofs.
From Coq Require Import ZifyBool.
Ltac Zify.zify_post_hook ::= Z.div_mod_to_equations.

Section J.
  Context {F : Type} (fzero : F) (k_units : Z -> Z -> Z) (k_jitter : Z -> F -> Z -> F)
          (k_rjitter : Z -> Z -> F) (k_frac : Z -> F) (k_delay : Z -> Z) (k_ntpfrac : Z -> Z)
          (ssrc rate : Z).
  Notation step := (step k_units k_jitter k_rjitter k_frac k_delay k_ntpfrac ssrc rate).
  Notation run := (run fzero k_units k_jitter k_rjitter k_frac k_delay k_ntpfrac ssrc rate).

  Definition invJ (acc : jacc) (a : inb F) : Prop :=
    match ja_prev acc with
    | None => arr_init a = false
    | Some (a0, r0) => arr_init a = true /\ arr_last a = a0 /\ arr_rtp a = r0
    end /\
    arr_transit a = ja_transit acc /\
    i_jit a = fold_left (k_jitter rate) (ja_ds acc) fzero.

  Lemma invJ_run evs : invJ (fold_left (pion_jstep k_units rate) (jit_pks ssrc evs) jacc0) (sa (run evs)).
  Proof.
    induction evs as [|e evs IH] using rev_ind.
    - repeat split.
    - rewrite (run_snoc fzero k_units k_jitter k_rjitter k_frac k_delay k_ntpfrac ssrc rate).
      unfold jit_pks. rewrite flat_map_snoc, fold_left_app. fold (jit_pks ssrc evs).
      set (acc := fold_left (pion_jstep k_units rate) (jit_pks ssrc evs) jacc0) in *.
      destruct e; simpl; try exact IH.
      unfold rec_in_rtp. destruct (ss =? ssrc) eqn:E; simpl; [|exact IH].
      destruct (unwrap (uw (sa (run evs))) seq) as [uw' sn].
      destruct IH as (H1 & H2 & H3). unfold invJ, pion_jstep.
      destruct (ja_prev acc) as [[a0 r0]|].
      + destruct H1 as (G1 & G2 & G3). rewrite G1. simpl.
        rewrite G2, G3, H2. split; [auto|]. split; [reflexivity|].
        rewrite fold_left_app. simpl. rewrite H3. reflexivity.
      + rewrite H1. simpl. auto.
  Qed.

  Lemma thm_jitter_recurrence evs :
    i_jit (sa (run evs)) = fold_left (k_jitter rate) (pion_ds k_units rate (jit_pks ssrc evs)) fzero.
  Proof. pose proof (invJ_run evs) as (_ & _ & H). exact H. Qed.

  (* ---------------- remote-outbound readings ---------------- *)
  Lemma mem_dest_sr s sender ntp rt pc oc reps :
    mem s (dest (PSR sender ntp rt pc oc reps)) = sr_pion s (PSR sender ntp rt pc oc reps).
  Proof.
    unfold sr_pion, mem. simpl. rewrite existsb_app. simpl. rewrite orb_false_r, orb_comm.
    rewrite (Z.eqb_sym s sender). f_equal.
    induction reps as [|r reps IH]; simpl; auto. rewrite IH, (Z.eqb_sym s (rep_ssrc r)). reflexivity.
  Qed.

  Lemma srs_in_is_pion s evs : srs_in s evs = srs_pion s evs.
  Proof.
    unfold srs_in, srs_pion. apply filter_ext. intros p. destruct p; try reflexivity.
    unfold addressed. apply mem_dest_sr.
  Qed.

  Lemma srs_strict_when_no_foreign s evs : no_foreign_sr_about s evs -> srs_pion s evs = srs_strict s evs.
  Proof.
    intros H. unfold srs_pion, srs_strict. apply filter_ext_in. intros p Hp.
    unfold sr_pion. destruct (sr_sent_by s p) eqn:E1; [reflexivity|].
    destruct (sr_reports_on s p) eqn:E2; [|reflexivity].
    rewrite (H p Hp E2) in E1. discriminate.
  Qed.

  Lemma thm_remote_sr_pion evs :
    ro_reports (sd (run evs)) = zlen (srs_pion ssrc evs) /\
    match last_opt (srs_pion ssrc evs) with
    | Some (PSR _ ntp _ pc oc _) =>
        ro_sent (sd (run evs)) = pc /\ ro_bytes (sd (run evs)) = oc /\
        ro_ts (sd (run evs)) = Some (to_time k_ntpfrac ntp)
    | _ => ro_sent (sd (run evs)) = 0 /\ ro_bytes (sd (run evs)) = 0 /\ ro_ts (sd (run evs)) = None
    end.
  Proof.
    pose proof (thm_remote_sr fzero k_units k_jitter k_rjitter k_frac k_delay k_ntpfrac ssrc rate evs) as H.
    unfold spec_reports_sent, spec_last_sr in H. rewrite srs_in_is_pion in H. exact H.
  Qed.

  Lemma thm_remote_sr_strict evs : no_foreign_sr_about ssrc evs ->
    ro_reports (sd (run evs)) = zlen (srs_strict ssrc evs) /\
    match last_opt (srs_strict ssrc evs) with
    | Some (PSR _ ntp _ pc oc _) =>
        ro_sent (sd (run evs)) = pc /\ ro_bytes (sd (run evs)) = oc /\
        ro_ts (sd (run evs)) = Some (to_time k_ntpfrac ntp)
    | _ => ro_sent (sd (run evs)) = 0 /\ ro_bytes (sd (run evs)) = 0 /\ ro_ts (sd (run evs)) = None
    end.
  Proof. intros H. rewrite <- (srs_strict_when_no_foreign ssrc evs H). apply thm_remote_sr_pion. Qed.

  (* an SR from another source that merely carries a report block about ssrc
     replaces the remote-outbound figures by that OTHER source's counters *)
  Lemma thm_foreign_sr_overwrites evs ts x ntp rt pc oc reps before after :
    x <> ssrc -> existsb (fun r => rep_ssrc r =? ssrc) reps = true ->
    let evs' := evs ++ [InRTCP ts (before ++ PSR x ntp rt pc oc reps :: after)] in
    (forall p, In p after -> sr_pion ssrc p = false) ->
    ro_sent (sd (run evs')) = pc /\ ro_bytes (sd (run evs')) = oc /\
    ro_ts (sd (run evs')) = Some (to_time k_ntpfrac ntp) /\
    sr_sent_by ssrc (PSR x ntp rt pc oc reps) = false.
  Proof.
    intros Hx Hr evs' Hafter.
    pose proof (thm_remote_sr_pion evs') as (_ & H).
    assert (E : last_opt (srs_pion ssrc evs') = Some (PSR x ntp rt pc oc reps)).
    { unfold srs_pion, evs'. rewrite flat_map_snoc. simpl in_rtcp.
      rewrite !filter_app. simpl filter.
      assert (Ep : sr_pion ssrc (PSR x ntp rt pc oc reps) = true).
      { unfold sr_pion. simpl sr_reports_on. rewrite Hr. apply orb_true_r. }
      rewrite Ep.
      assert (Ea : filter (sr_pion ssrc) after = []).
      { clear -Hafter. induction after as [|p l IH]; simpl; auto.
        rewrite (Hafter p (or_introl eq_refl)). apply IH. intros q Hq. apply Hafter. right. exact Hq. }
      rewrite Ea. rewrite app_assoc. apply last_opt_app. }
    rewrite E in H. destruct H as (H1 & H2 & H3).
    repeat split; auto. simpl. apply Z.eqb_neq. exact Hx.
  Qed.
End J.

(* ---------------- the RFC 3550 reference is insensitive to the origin of the RTP timestamps ---------------- *)
Lemma add32_shift x c u : add32 (add32 x c) u = add32 (add32 x u) c.
Proof. unfold add32. lia. Qed.

Lemma sub32_shift a r c : sub32 (add32 a c) (u32 (r + c)) = sub32 a r.
Proof. unfold sub32, add32, u32. lia. Qed.

Definition shifted_acc (c : Z) (a b : jacc) : Prop :=
  match ja_prev a, ja_prev b with
  | None, None => True
  | Some (t, arr), Some (t', arr') => t' = t /\ arr' = add32 arr c
  | _, _ => False
  end /\ ja_transit b = ja_transit a /\ ja_ds b = ja_ds a.

Lemma rfc_step_shift ku rate c a b p :
  shifted_acc c a b -> shifted_acc c (rfc_jstep ku rate a p) (rfc_jstep ku rate b (shift_pk c p)).
Proof.
  intros (H1 & H2 & H3). unfold rfc_jstep, shifted_acc.
  destruct (ja_prev a) as [[t arr]|], (ja_prev b) as [[t' arr']|]; try contradiction.
  - destruct H1 as [-> ->]. simpl.
    split; [split; [reflexivity|apply add32_shift]|].
    rewrite add32_shift, sub32_shift, H2, H3. auto.
  - simpl. split; [|auto]. split; [reflexivity|]. unfold add32, u32. lia.
Qed.

Lemma rfc_fold_shift ku rate c pks : forall a b, shifted_acc c a b ->
  shifted_acc c (fold_left (rfc_jstep ku rate) pks a) (fold_left (rfc_jstep ku rate) (map (shift_pk c) pks) b).
Proof.
  induction pks as [|p pks IH]; intros a b H; simpl; [exact H|].
  apply IH. apply rfc_step_shift. exact H.
Qed.

Lemma rfc_ds_shift_invariant ku rate c pks : rfc_ds ku rate (map (shift_pk c) pks) = rfc_ds ku rate pks.
Proof.
  unfold rfc_ds. destruct (rfc_fold_shift ku rate c pks jacc0 jacc0) as (_ & _ & H); [repeat split|exact H].
Qed.
