(* Proofs about the abstract arrival map (Model/ArrivalMap.v, amap):
   representation invariant, its preservation by AddPacket / RemoveOldPackets,
   the 2^15 window bound, and the equality of the loops as coded in Go
   (FindNextAtOrAfter, RemoveOldPackets) with the closed forms the recorder
   model executes. *)
From IV Require Import Base.Word Model.ArrivalMap.
From Coq Require Import ZifyBool.
Ltac Zify.zify_post_hook ::= Z.div_mod_to_equations.

(* keys strictly ascending and >= lo *)
Fixpoint asc (lo : Z) (l : list (Z * Z)) : Prop :=
  match l with [] => True | e :: tl => lo <= fst e /\ asc (fst e + 1) tl end.

Definition below (hi : Z) (l : list (Z * Z)) : Prop := Forall (fun e => fst e < hi) l.

Definition am_inv (m : amap) : Prop :=
  asc (m_begin m) (m_ent m) /\ below (m_end m) (m_ent m) /\
  m_begin m <= m_end m /\ m_end m - m_begin m <= 32768.

Lemma asc_weaken lo lo' l : lo' <= lo -> asc lo l -> asc lo' l.
Proof. destruct l as [|e tl]; cbn [asc]; [auto|]. intros H [H1 H2]. split; [lia|auto]. Qed.

Lemma asc_from b : forall lo l, asc lo l -> asc (Z.max lo b) (ent_from b l).
Proof.
  intros lo l; revert lo; induction l as [|e tl IH]; intros lo H; cbn [ent_from filter asc] in *; [auto|].
  destruct H as [H1 H2]. fold (ent_from b tl). destruct (b <=? fst e) eqn:E; cbn [asc].
  - split; [lia|]. specialize (IH _ H2). eapply asc_weaken; [|exact IH]. lia.
  - specialize (IH _ H2). eapply asc_weaken; [|exact IH]. lia.
Qed.

Lemma below_from b hi l : below hi l -> below hi (ent_from b l).
Proof.
  unfold below, ent_from. intros H. apply Forall_forall. intros x Hx. apply filter_In in Hx as [Hx _].
  eapply Forall_forall in H; eauto.
Qed.

Lemma asc_set k v : forall lo l, lo <= k -> asc lo l -> asc lo (ent_set k v l).
Proof.
  intros lo l; revert lo; induction l as [|[k' v'] tl IH]; intros lo Hk H; cbn [ent_set asc fst] in *.
  - split; [lia|exact I].
  - destruct H as [H1 H2]. destruct (k <? k') eqn:E1; [|destruct (k =? k') eqn:E2]; cbn [asc fst].
    + split; [lia|]. split; [lia|]. exact H2.
    + split; [lia|]. replace k with k' by lia. exact H2.
    + split; [lia|]. apply IH; [lia|exact H2].
Qed.

Lemma below_set k v hi l : k < hi -> below hi l -> below hi (ent_set k v l).
Proof.
  unfold below. intros Hk. induction l as [|[k' v'] tl IH]; intros H; cbn [ent_set].
  - constructor; [cbn [fst]; lia|constructor].
  - inversion H as [|? ? H1 H2]; subst. destruct (k <? k'); [|destruct (k =? k')].
    + constructor; [cbn [fst]; lia|exact H].
    + constructor; [cbn [fst]; lia|exact H2].
    + constructor; [exact H1|apply IH, H2].
Qed.

Lemma below_weaken hi hi' l : hi <= hi' -> below hi l -> below hi' l.
Proof. unfold below. intros H. apply Forall_impl. intros; lia. Qed.

Lemma am_inv_empty : am_inv am_empty.
Proof. repeat split; cbn; try lia. constructor. Qed.

(* AddPacket keeps the invariant; in particular end - begin <= 2^15 always *)
Lemma am_add_inv m sn t : am_inv m -> am_inv (am_add m sn t).
Proof.
  intros (Ha & Hb & Hle & Hw). unfold am_add.
  destruct (m_alloc m); cbn [negb].
  2:{ repeat split; cbn [m_begin m_end m_ent asc fst]; try lia. constructor; [cbn [fst]; lia|constructor]. }
  destruct ((m_begin m <=? sn) && (sn <? m_end m)) eqn:Ein.
  { repeat split; cbn [m_begin m_end m_ent]; try lia; [apply asc_set; [lia|auto]|apply below_set; [lia|auto]]. }
  destruct (sn <? m_begin m) eqn:Elt.
  { destruct (m_end m - sn >? 32768) eqn:Ebig; [repeat split; auto|].
    repeat split; cbn [m_begin m_end m_ent]; try lia.
    - apply asc_set; [lia|]. eapply asc_weaken; [|exact Ha]. lia.
    - apply below_set; [lia|auto]. }
  destruct (sn + 1 >=? m_end m + 32768) eqn:Efar.
  { repeat split; cbn [m_begin m_end m_ent asc fst]; try lia. constructor; [cbn [fst]; lia|constructor]. }
  set (b := if m_begin m <? sn + 1 - 32768 then sn + 1 - 32768 else m_begin m).
  assert (Hb1 : m_begin m <= b) by (unfold b; destruct (m_begin m <? sn + 1 - 32768) eqn:E; lia).
  assert (Hb2 : b <= sn) by (unfold b; destruct (m_begin m <? sn + 1 - 32768) eqn:E; lia).
  assert (Hb3 : sn + 1 - b <= 32768) by (unfold b; destruct (m_begin m <? sn + 1 - 32768) eqn:E; lia).
  repeat split; cbn [m_begin m_end m_ent]; try lia.
  - apply asc_set; [lia|]. pose proof (asc_from b _ _ Ha) as H. eapply asc_weaken; [|exact H]. lia.
  - apply below_set; [lia|]. apply below_from. eapply below_weaken; [|exact Hb]. lia.
Qed.

(* ---- FindNextAtOrAfter: the loop as coded equals the closed form ---- *)
Lemma ent_get_absent k : forall lo l, asc lo l -> k < lo -> ent_get k l = -1.
Proof.
  intros lo l; revert lo; induction l as [|[k' v] tl IH]; intros lo H Hk; cbn [ent_get asc fst] in *; [reflexivity|].
  destruct H as [H1 H2]. destruct (k =? k') eqn:E; [lia|]. apply (IH _ H2). lia.
Qed.

Lemma ent_first_none p l : Forall (fun e => p e = false) l -> ent_first p l = None.
Proof. induction 1 as [|e tl He _ IH]; cbn [ent_first]; [reflexivity|]. rewrite He. exact IH. Qed.

(* the slot of seq holds a time >= 0: it is the first entry at or after seq *)
Lemma ent_first_hit seq : forall lo l v, asc lo l -> ent_get seq l = v -> 0 <= v ->
  ent_first (fun e => (seq <=? fst e) && (snd e >=? 0)) l = Some (seq, v).
Proof.
  intros lo l; revert lo; induction l as [|[k v'] tl IH]; intros lo v Ha Hg Hv; cbn [ent_get ent_first asc fst snd] in *; [lia|].
  destruct Ha as [H1 H2]. destruct (seq =? k) eqn:E.
  - assert (seq = k) by lia. subst k v'. replace (seq <=? seq) with true by lia.
    replace (v >=? 0) with true by lia. reflexivity.
  - destruct (seq <=? k) eqn:E2.
    + rewrite (ent_get_absent seq (k + 1) tl H2) in Hg by lia. lia.
    + cbn [andb]. eapply IH; eauto.
Qed.

(* the slot of seq is empty or negative: searching from seq or from seq+1 is the same *)
Lemma ent_first_skip seq : forall lo l, asc lo l -> ent_get seq l < 0 ->
  ent_first (fun e => (seq <=? fst e) && (snd e >=? 0)) l =
  ent_first (fun e => (seq + 1 <=? fst e) && (snd e >=? 0)) l.
Proof.
  intros lo l; revert lo; induction l as [|[k v'] tl IH]; intros lo Ha Hg; cbn [ent_get ent_first asc fst snd] in *; [reflexivity|].
  destruct Ha as [H1 H2]. destruct (seq =? k) eqn:E.
  - assert (seq = k) by lia. subst k. replace (v' >=? 0) with false by lia. rewrite !andb_false_r.
    apply (IH _ H2). rewrite (ent_get_absent seq (seq + 1) tl H2) by lia. lia.
  - replace (seq + 1 <=? k) with (seq <=? k) by lia.
    destruct ((seq <=? k) && (v' >=? 0)); [reflexivity|]. apply (IH _ H2). exact Hg.
Qed.

Lemma find_loop_eq fuel : forall m seq,
  asc (m_begin m) (m_ent m) -> below (m_end m) (m_ent m) -> m_begin m <= seq ->
  (Z.to_nat (m_end m - seq) <= fuel)%nat ->
  am_find_loop fuel m seq = ent_first (fun e => (seq <=? fst e) && (snd e >=? 0)) (m_ent m).
Proof.
  induction fuel as [|fuel IH]; intros m seq Ha Hb Hs Hf; cbn [am_find_loop].
  - symmetry. apply ent_first_none. eapply Forall_impl; [|exact Hb]. cbn beta. intros e He.
    replace (seq <=? fst e) with false by lia. reflexivity.
  - destruct (seq <? m_end m) eqn:E.
    + assert (Hget : am_get m seq = ent_get seq (m_ent m)).
      { unfold am_get. replace ((seq <? m_begin m) || (seq >=? m_end m)) with false by lia. reflexivity. }
      rewrite Hget. destruct (ent_get seq (m_ent m) >=? 0) eqn:Ev.
      * symmetry. eapply ent_first_hit; eauto. lia.
      * rewrite (ent_first_skip seq _ _ Ha) by lia. apply IH; auto; lia.
    + symmetry. apply ent_first_none. eapply Forall_impl; [|exact Hb]. cbn beta. intros e He.
      replace (seq <=? fst e) with false by lia. reflexivity.
Qed.

(* FindNextAtOrAfter as coded = the closed form the recorder model runs *)
Theorem am_find_go_eq m sn : am_inv m -> am_find_go m sn = am_find m sn.
Proof.
  intros (Ha & Hb & Hle & _). unfold am_find_go, am_find. cbv zeta.
  apply find_loop_eq; auto.
  unfold am_clamp. destruct (sn <? m_begin m) eqn:E1; [lia|]. destruct (m_end m <? sn) eqn:E2; lia.
Qed.

(* ---- RemoveOldPackets: the loop as coded equals the closed form ---- *)
Lemma ent_from_all b : forall lo l, asc lo l -> b <= lo -> ent_from b l = l.
Proof.
  intros lo l; revert lo; induction l as [|e tl IH]; intros lo Ha Hb; cbn [ent_from filter asc] in *; [reflexivity|].
  destruct Ha as [H1 H2]. replace (b <=? fst e) with true by lia. f_equal. apply (IH _ H2). lia.
Qed.

Lemma ent_from_from a b l : a <= b -> ent_from b (ent_from a l) = ent_from b l.
Proof.
  intros Hab. unfold ent_from. induction l as [|e tl IH]; cbn [filter]; [reflexivity|].
  destruct (a <=? fst e) eqn:E1; cbn [filter]; destruct (b <=? fst e) eqn:E2; try rewrite IH; try reflexivity. lia.
Qed.

(* the young entries are not affected by dropping the slot [b] when that slot is old *)
Lemma ent_first_young_from limit b : forall lo l, asc lo l -> b <= lo -> ent_get b l <= limit ->
  ent_first (fun e => snd e >? limit) (ent_from (b + 1) l) = ent_first (fun e => snd e >? limit) l.
Proof.
  intros lo l Ha Hb Hg. destruct l as [|[k v] tl]; [reflexivity|].
  cbn [asc fst] in Ha. destruct Ha as [H1 H2]. cbn [ent_from filter fst]. fold (ent_from (b + 1) tl).
  rewrite (ent_from_all (b + 1) (k + 1) tl H2) by lia.
  destruct (b + 1 <=? k) eqn:E; [reflexivity|].
  assert (k = b) by lia. subst k. cbn [ent_get] in Hg. rewrite Z.eqb_refl in Hg.
  cbn [ent_first snd]. replace (v >? limit) with false by lia. reflexivity.
Qed.

Lemma ent_first_key_ge p : forall lo l k v, asc lo l -> ent_first p l = Some (k, v) -> lo <= k.
Proof.
  intros lo l; revert lo; induction l as [|e tl IH]; intros lo k v Ha H; cbn [ent_first asc] in *; [discriminate|].
  destruct Ha as [H1 H2]. destruct (p e); [inversion H; subst; cbn [fst] in H1; exact H1|].
  specialize (IH _ _ _ H2 H). lia.
Qed.

Lemma remove_loop_eq fuel : forall m checkTo limit,
  asc (m_begin m) (m_ent m) -> checkTo <= m_end m -> -1 <= limit ->
  (Z.to_nat (checkTo - m_begin m) <= fuel)%nat ->
  am_remove_loop fuel m checkTo limit =
  (if m_begin m <? checkTo then
     let nb := match ent_first (fun e => snd e >? limit) (m_ent m) with
               | Some (k, _) => Z.min k checkTo
               | None => checkTo
               end in
     mkAmap (m_alloc m) nb (m_end m) (ent_from nb (m_ent m))
   else m).
Proof.
  induction fuel as [|fuel IH]; intros m checkTo limit Ha Hc Hl Hf; cbn [am_remove_loop].
  - replace (m_begin m <? checkTo) with false by lia. reflexivity.
  - destruct (m_begin m <? checkTo) eqn:Eb; cbn [andb]; [|reflexivity].
    assert (Hget : am_get m (m_begin m) = ent_get (m_begin m) (m_ent m)).
    { unfold am_get. replace ((m_begin m <? m_begin m) || (m_begin m >=? m_end m)) with false by lia. reflexivity. }
    rewrite Hget. destruct (ent_get (m_begin m) (m_ent m) <=? limit) eqn:Eold.
    + (* the slot at begin is old: step, then the closed form of the rest *)
      rewrite IH; cbn [m_begin m_end m_ent m_alloc]; auto; try lia.
      2:{ pose proof (asc_from (m_begin m + 1) _ _ Ha) as H. eapply asc_weaken; [|exact H]. lia. }
      rewrite (ent_first_young_from limit (m_begin m) (m_begin m) (m_ent m) Ha) by lia.
      cbv zeta.
      destruct (ent_first (fun e => snd e >? limit) (m_ent m)) as [[k v]|] eqn:Ey.
      * assert (Hk : m_begin m + 1 <= k).
        { pose proof (ent_first_key_ge _ _ _ _ _ Ha Ey) as Hge.
          destruct (k =? m_begin m) eqn:Ek; [|lia]. assert (k = m_begin m) by lia. subst k.
          (* the first young entry would sit in the old slot *)
          destruct (m_ent m) as [|[k0 v0] tl]; [discriminate|]. cbn [asc fst] in Ha. destruct Ha as [Ha1 Ha2].
          cbn [ent_first snd] in Ey. cbn [ent_get] in Eold.
          destruct (v0 >? limit) eqn:Ev.
          - inversion Ey; subst. rewrite Z.eqb_refl in Eold. lia.
          - pose proof (ent_first_key_ge _ _ _ _ _ Ha2 Ey). lia. }
        destruct (m_begin m + 1 <? checkTo) eqn:E1.
        -- rewrite ent_from_from by lia. reflexivity.
        -- replace (Z.min k checkTo) with (m_begin m + 1) by lia. reflexivity.
      * destruct (m_begin m + 1 <? checkTo) eqn:E1.
        -- rewrite ent_from_from by lia. reflexivity.
        -- replace checkTo with (m_begin m + 1) by lia. reflexivity.
    + (* young (or the limit is below every time): the loop stops, the closed form does nothing *)
      cbv zeta. destruct (m_ent m) as [|[k0 v0] tl] eqn:Eent; [cbn [ent_get] in Eold; lia|].
      pose proof Ha as Ha'. cbn [asc fst] in Ha'. destruct Ha' as [Ha1 Ha2].
      cbn [ent_get] in Eold. destruct (m_begin m =? k0) eqn:Ek.
      * assert (k0 = m_begin m) by lia. subst k0. cbn [ent_first snd]. replace (v0 >? limit) with true by lia.
        replace (Z.min (m_begin m) checkTo) with (m_begin m) by lia.
        rewrite (ent_from_all (m_begin m) (m_begin m) _ Ha) by lia.
        destruct m as [al bg en ents]; cbn [m_alloc m_begin m_end m_ent] in *. subst ents. reflexivity.
      * rewrite (ent_get_absent (m_begin m) (k0 + 1) tl Ha2) in Eold by lia. lia.
Qed.

Theorem am_remove_old_go_eq m sn limit : am_inv m -> -1 <= limit ->
  am_remove_old_go m sn limit = am_remove_old m sn limit.
Proof.
  intros (Ha & Hb & Hle & _) Hl. unfold am_remove_old_go, am_remove_old. cbv zeta.
  apply remove_loop_eq; auto; lia.
Qed.

Lemma am_remove_old_inv m sn limit : am_inv m -> am_inv (am_remove_old m sn limit).
Proof.
  intros (Ha & Hb & Hle & Hw). unfold am_remove_old. cbv zeta.
  destruct (m_begin m <? Z.min sn (m_end m)) eqn:E; [|repeat split; auto].
  set (nb := match ent_first _ _ with Some (k, _) => Z.min k (Z.min sn (m_end m)) | None => Z.min sn (m_end m) end).
  assert (Hnb : m_begin m <= nb <= m_end m).
  { unfold nb. destruct (ent_first _ _) as [[k v]|] eqn:Ey; [|lia].
    pose proof (ent_first_key_ge _ _ _ _ _ Ha Ey). lia. }
  repeat split; cbn [m_begin m_end m_ent]; try lia.
  - pose proof (asc_from nb _ _ Ha) as H. eapply asc_weaken; [|exact H]. lia.
  - apply below_from, Hb.
Qed.
