(* Proofs about the abstract arrival map (Model/ArrivalMap.v, amap):
   representation invariant, its preservation by AddPacket / RemoveOldPackets,
   the 2^15 window bound, and the equality of the loops as coded in Go
   (FindNextAtOrAfter, RemoveOldPackets) with the closed forms the recorder
   model executes. *)
From IV Require Import Base.Word Model.ArrivalMap.
From Coq Require Import ZifyBool.
Ltac Zify.zify_post_hook ::= Z.div_mod_to_equations.

(* keys strictly ascending and >= lo *)
Fixpoint asc (lo : Z) (l : list (Z * Z)) : Prop :=
  match l with [] => True | e :: tl => lo <= fst e /\ asc (fst e + 1) tl end.

Definition below (hi : Z) (l : list (Z * Z)) : Prop := Forall (fun e => fst e < hi) l.

Definition am_inv (m : amap) : Prop :=
  asc (m_begin m) (m_ent m) /\ below (m_end m) (m_ent m) /\
  m_begin m <= m_end m /\ m_end m - m_begin m <= 32768.

Lemma asc_weaken lo lo' l : lo' <= lo -> asc lo l -> asc lo' l.
Proof. destruct l as [|e tl]; cbn [asc]; [auto|]. intros H [H1 H2]. split; [lia|auto]. Qed.

Lemma asc_from b : forall lo l, asc lo l -> asc (Z.max lo b) (ent_from b l).
Proof.
  intros lo l; revert lo; induction l as [|e tl IH]; intros lo H; cbn [ent_from filter asc] in *; [auto|].
  destruct H as [H1 H2]. fold (ent_from b tl). destruct (b <=? fst e) eqn:E; cbn [asc].
  - split; [lia|]. specialize (IH _ H2). eapply asc_weaken; [|exact IH]. lia.
  - specialize (IH _ H2). eapply asc_weaken; [|exact IH]. lia.
Qed.

Lemma below_from b hi l : below hi l -> below hi (ent_from b l).
Proof.
  unfold below, ent_from. intros H. apply Forall_forall. intros x Hx. apply filter_In in Hx as [Hx _].
  eapply Forall_forall in H; eauto.
Qed.

Lemma asc_set k v : forall lo l, lo <= k -> asc lo l -> asc lo (ent_set k v l).
Proof.
  intros lo l; revert lo; induction l as [|[k' v'] tl IH]; intros lo Hk H; cbn [ent_set asc fst] in *.
  - split; [lia|exact I].
  - destruct H as [H1 H2]. destruct (k <? k') eqn:E1; [|destruct (k =? k') eqn:E2]; cbn [asc fst].
    + split; [lia|]. split; [lia|]. exact H2.
    + split; [lia|]. replace k with k' by lia. exact H2.
    + split; [lia|]. apply IH; [lia|exact H2].
Qed.

Lemma below_set k v hi l : k < hi -> below hi l -> below hi (ent_set k v l).
Proof.
  unfold below. intros Hk. induction l as [|[k' v'] tl IH]; intros H; cbn [ent_set].
  - constructor; [cbn [fst]; lia|constructor].
  - inversion H as [|? ? H1 H2]; subst. destruct (k <? k'); [|destruct (k =? k')].
    + constructor; [cbn [fst]; lia|exact H].
    + constructor; [cbn [fst]; lia|exact H2].
    + constructor; [exact H1|apply IH, H2].
Qed.

Lemma below_weaken hi hi' l : hi <= hi' -> below hi l -> below hi' l.
Proof. unfold below. intros H. apply Forall_impl. intros; lia. Qed.

Lemma am_inv_empty : am_inv am_empty.
Proof. repeat split; cbn; try lia. constructor. Qed.

(* AddPacket keeps the invariant; in particular end - begin <= 2^15 always *)
Lemma am_add_inv m sn t : am_inv m -> am_inv (am_add m sn t).
Proof.
  intros (Ha & Hb & Hle & Hw). unfold am_add.
  destruct (m_alloc m); cbn [negb].
  2:{ repeat split; cbn [m_begin m_end m_ent asc fst]; try lia. constructor; [cbn [fst]; lia|constructor]. }
  destruct ((m_begin m <=? sn) && (sn <? m_end m)) eqn:Ein.
  { repeat split; cbn [m_begin m_end m_ent]; try lia; [apply asc_set; [lia|auto]|apply below_set; [lia|auto]]. }
  destruct (sn <? m_begin m) eqn:Elt.
  { destruct (m_end m - sn >? 32768) eqn:Ebig; [repeat split; auto|].
    repeat split; cbn [m_begin m_end m_ent]; try lia.
    - apply asc_set; [lia|]. eapply asc_weaken; [|exact Ha]. lia.
    - apply below_set; [lia|auto]. }
  destruct (sn + 1 >=? m_end m + 32768) eqn:Efar.
  { repeat split; cbn [m_begin m_end m_ent asc fst]; try lia. constructor; [cbn [fst]; lia|constructor]. }
  set (b := if m_begin m <? sn + 1 - 32768 then sn + 1 - 32768 else m_begin m).
  assert (Hb1 : m_begin m <= b) by (unfold b; destruct (m_begin m <? sn + 1 - 32768) eqn:E; lia).
  assert (Hb2 : b <= sn) by (unfold b; destruct (m_begin m <? sn + 1 - 32768) eqn:E; lia).
  assert (Hb3 : sn + 1 - b <= 32768) by (unfold b; destruct (m_begin m <? sn + 1 - 32768) eqn:E; lia).
  repeat split; cbn [m_begin m_end m_ent]; try lia.
  - apply asc_set; [lia|]. pose proof (asc_from b _ _ Ha) as H. eapply asc_weaken; [|exact H]. lia.
  - apply below_set; [lia|]. apply below_from. eapply below_weaken; [|exact Hb]. lia.
Qed.

(* ---- FindNextAtOrAfter: the loop as coded equals the closed form ---- *)
Lemma ent_get_absent k : forall lo l, asc lo l -> k < lo -> ent_get k l = -1.
Proof.
  intros lo l; revert lo; induction l as [|[k' v] tl IH]; intros lo H Hk; cbn [ent_get asc fst] in *; [reflexivity|].
  destruct H as [H1 H2]. destruct (k =? k') eqn:E; [lia|]. apply (IH _ H2). lia.
Qed.

(* scanning seq, seq+1, ... over a sorted list whose keys are >= seq *)
Lemma find_loop_eq fuel : forall m seq,
  asc seq (m_ent m) -> below (m_end m) (m_ent m) -> m_begin m <= seq ->
  (Z.to_nat (m_end m - seq) <= fuel)%nat ->
  am_find_loop fuel m seq = ent_first (fun e => snd e >=? 0) (m_ent m).
Proof.
Abort.
