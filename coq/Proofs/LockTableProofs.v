(* C10: the generic lockset theorem.

   An abstract machine of threads executing rows of an access table on one object under mutex
   semantics.  Any number of threads (thread ids are [nat]), any interleaving (induction over
   the step relation).  A thread may take and release locks in any order and nesting
   (SAcquire / SRelease; an acquisition is enabled only if it is compatible with the current
   holders: Go's sync.Mutex / sync.RWMutex), and performs an access of a row between SBegin
   and SEnd; SBegin is enabled only if the thread holds the locks the row names and if the
   row's thread class permits it:
     CSetup rows: only the creating thread, only before SPublish;
     CAny rows:   any thread, after SPublish;
     COne k rows: only the one thread of class k, after SSpawn k (and after SPublish);
     a row with k in r_before can only begin while class k has not been spawned, and
     SSpawn k waits for such rows to end.
   [lockset_drf]: if [drf_ok table = true], then in every reachable state no two different
   threads are inside conflicting accesses (same location, one a write, not both atomic).
   [rmw_not_lost]: moreover increments are not lost: on a location whose writers are all
   increments, the value is the initial value plus the number of completed increments.
   Second machine (section LockOrder): threads request locks only in the recorded orders;
   [lock_order_no_deadlock]: if [lock_order_acyclic edges = true], the waits-for graph of every
   reachable state has no cycle.

   What is modelled, not proved: that the Go runtime's mutexes behave like SAcquire/SRelease,
   that the table lists every access with the locks really held (tools/lockscan), and the
   ownership annotations that assign thread classes (tools/lockscan/ownership.txt). *)
From Coq Require Import ZArith List Bool Lia Relations Arith.
From IV Require Import Model.LockTable.
Import ListNotations.
Open Scope Z_scope.

Definition pair_eq_dec : forall x y : nat * lmode, {x = y} + {x <> y}.
Proof. decide equality; [decide equality | apply Nat.eq_dec]. Defined.

Definition upd {A} (f : nat -> A) (t : nat) (v : A) : nat -> A :=
  fun t' => if Nat.eqb t' t then v else f t'.
Definition updZ {A} (f : Z -> A) (l : Z) (v : A) : Z -> A :=
  fun l' => if l' =? l then v else f l'.

Lemma upd_same {A} (f : nat -> A) t v : upd f t v t = v.
Proof. unfold upd. now rewrite Nat.eqb_refl. Qed.
Lemma upd_other {A} (f : nat -> A) t v t' : t' <> t -> upd f t v t' = f t'.
Proof. unfold upd. intros H. destruct (Nat.eqb_spec t' t); congruence. Qed.
Lemma updZ_same {A} (f : Z -> A) l v : updZ f l v l = v.
Proof. unfold updZ. now rewrite Z.eqb_refl. Qed.
Lemma updZ_other {A} (f : Z -> A) l v l' : l' <> l -> updZ f l v l' = f l'.
Proof. unfold updZ. intros H. destruct (Z.eqb_spec l' l); congruence. Qed.

Section Machine.
Variable table : list row.
Variable creator : nat.          (* the thread that constructs the object *)
Variable cthread : Z -> nat.     (* the one thread of each singleton class *)
Variable mem0 : Z -> Z.

Record state := mkState {
  holders   : Z -> list (nat * lmode);   (* lock -> threads holding it, with mode *)
  active    : nat -> option row;         (* the access a thread is inside, if any *)
  published : bool;
  spawned   : Z -> bool;
  mem       : Z -> Z;                    (* location -> value (for the lost-update theorem) *)
  snap      : nat -> Z;                  (* what a thread read at SBegin *)
  incs      : Z -> Z                     (* ghost: completed increments per location *)
}.

Definition init : state :=
  mkState (fun _ => []) (fun _ => None) false (fun _ => false) mem0 (fun _ => 0) (fun _ => 0).

Definition holds (s : state) (t : nat) (l : Z) (m : lmode) : Prop :=
  exists m', In (t, m') (holders s l) /\ (m = LW -> m' = LW).

Definition class_ok (s : state) (t : nat) (r : row) : Prop :=
  match r_class r with
  | CSetup => published s = false /\ t = creator
  | CAny => published s = true
  | COne k => published s = true /\ spawned s k = true /\ t = cthread k
  end.

Definition row_ok (s : state) (t : nat) (r : row) : Prop :=
  In r table
  /\ (forall l m, In (l, m) (r_locks r) -> holds s t l m)
  /\ class_ok s t r
  /\ (forall k, In k (r_before r) -> spawned s k = false).

Definition end_mem (s : state) (t : nat) (r : row) (v : Z) : Z -> Z :=
  match r_kind r with
  | KWrite | KAWrite => updZ (mem s) (r_loc r) v
  | KRmw => updZ (mem s) (r_loc r) (snap s t + 1)            (* read at SBegin, written back at SEnd *)
  | KARmw => updZ (mem s) (r_loc r) (mem s (r_loc r) + 1)    (* one indivisible instruction *)
  | _ => mem s
  end.
Definition end_incs (s : state) (r : row) : Z -> Z :=
  match r_kind r with
  | KRmw | KARmw => updZ (incs s) (r_loc r) (incs s (r_loc r) + 1)
  | _ => incs s
  end.

Inductive step : state -> state -> Prop :=
| SAcquire s t l m :
    (m = LW -> holders s l = []) ->
    (m = LR -> forall t', ~ In (t', LW) (holders s l)) ->
    step s (mkState (updZ (holders s) l ((t, m) :: holders s l)) (active s) (published s) (spawned s)
                    (mem s) (snap s) (incs s))
| SRelease s t l m :
    In (t, m) (holders s l) -> active s t = None ->
    step s (mkState (updZ (holders s) l (remove pair_eq_dec (t, m) (holders s l))) (active s) (published s)
                    (spawned s) (mem s) (snap s) (incs s))
| SBegin s t r :
    active s t = None -> row_ok s t r ->
    step s (mkState (holders s) (upd (active s) t (Some r)) (published s) (spawned s)
                    (mem s) (upd (snap s) t (mem s (r_loc r))) (incs s))
| SEnd s t r v :
    active s t = Some r ->
    step s (mkState (holders s) (upd (active s) t None) (published s) (spawned s)
                    (end_mem s t r v) (snap s) (end_incs s r))
| SPublish s :
    published s = false -> active s creator = None ->
    step s (mkState (holders s) (active s) true (spawned s) (mem s) (snap s) (incs s))
| SSpawn s k :
    spawned s k = false ->
    (forall t r, active s t = Some r -> ~ In k (r_before r)) ->
    step s (mkState (holders s) (active s) (published s) (updZ (spawned s) k true) (mem s) (snap s) (incs s)).

Inductive reachable : state -> Prop :=
| R0 : reachable init
| RS s s' : reachable s -> step s s' -> reachable s'.

(* ---- invariant ---- *)

Record Inv (s : state) : Prop := {
  inv_excl : forall l t1 t2 m1 m2,
      In (t1, m1) (holders s l) -> In (t2, m2) (holders s l) -> t1 <> t2 -> m1 = LR /\ m2 = LR;
  inv_act : forall t r, active s t = Some r -> row_ok s t r
}.

Lemma holds_mono s s' t l m :
  (forall x, In x (holders s l) -> In x (holders s' l)) -> holds s t l m -> holds s' t l m.
Proof. intros H [m' [Hin Hm]]. exists m'. split; auto. Qed.

Lemma inv_init : Inv init.
Proof. split; cbn; intros; [contradiction | discriminate]. Qed.

Lemma inv_step s s' : Inv s -> step s s' -> Inv s'.
Proof.
  intros [Hex Hact] Hs. destruct Hs.
  - (* acquire *)
    split; cbn.
    + intros l0 t1 t2 m1 m2 H1 H2 Hne. unfold updZ in *.
      destruct (Z.eqb_spec l0 l) as [->|]; [|eauto].
      destruct m.
      * (* LR *)
        assert (Hn : forall t' m', In (t', m') (holders s l) -> m' = LR).
        { intros t' m' Hin. destruct m'; auto. exfalso. eapply (H0 eq_refl); eauto. }
        destruct H1 as [E1|H1], H2 as [E2|H2].
        -- inversion E1; inversion E2; subst. congruence.
        -- inversion E1; subst. split; auto. eapply Hn; eauto.
        -- inversion E2; subst. split; auto. eapply Hn; eauto.
        -- eauto.
      * (* LW *)
        rewrite (H eq_refl) in *. destruct H1 as [E1|[]], H2 as [E2|[]].
        inversion E1; inversion E2; subst. congruence.
    + intros t0 r Ha. destruct (Hact _ _ Ha) as (Hi & Hl & Hc & Hb).
      split; [|split; [|split]]; auto.
      intros l0 m0 Hin. destruct (Hl _ _ Hin) as [m' [Hh Hm]]. exists m'. split; auto.
      cbn. unfold updZ. destruct (Z.eqb_spec l0 l) as [->|]; auto. now right.
  - (* release *)
    split; cbn.
    + intros l0 t1 t2 m1 m2 H1 H2 Hne. unfold updZ in *.
      destruct (Z.eqb_spec l0 l) as [->|]; [|eauto].
      apply in_remove in H1. apply in_remove in H2. destruct H1, H2. eauto.
    + intros t0 r Ha. destruct (Hact _ _ Ha) as (Hi & Hl & Hc & Hb).
      split; [|split; [|split]]; auto.
      intros l0 m0 Hin. destruct (Hl _ _ Hin) as [m' [Hh Hm]]. exists m'. split; auto.
      cbn. unfold updZ. destruct (Z.eqb_spec l0 l) as [->|]; auto.
      apply in_in_remove; auto. intros E. inversion E; subst. congruence.
  - (* begin *)
    split; cbn; [eauto|].
    intros t0 r0 Ha. unfold upd in Ha. destruct (Nat.eqb_spec t0 t) as [->|].
    + inversion Ha; subst. exact H0.
    + exact (Hact _ _ Ha).
  - (* end *)
    split; cbn; [eauto|].
    intros t0 r0 Ha. unfold upd in Ha. destruct (Nat.eqb_spec t0 t) as [->|]; [discriminate|].
    exact (Hact _ _ Ha).
  - (* publish: nothing is active *)
    split; cbn; [eauto|].
    intros t0 r0 Ha. exfalso.
    destruct (Hact _ _ Ha) as (_ & _ & Hc & _). unfold class_ok in Hc.
    destruct (r_class r0); try congruence.
    + destruct Hc as [_ ->]. congruence.
    + destruct Hc as [Hp _]. congruence.
  - (* spawn *)
    split; cbn; [eauto|].
    intros t0 r0 Ha. destruct (Hact _ _ Ha) as (Hi & Hl & Hc & Hb).
    split; [|split; [|split]]; auto.
    + unfold class_ok in *. cbn. destruct (r_class r0); auto.
      destruct Hc as (Hp & Hsp & Ht). split; [|split]; auto.
      unfold updZ. destruct (Z.eqb_spec k0 k); auto.
    + intros k0 Hk. cbn. unfold updZ. destruct (Z.eqb_spec k0 k) as [->|]; auto.
      exfalso. eapply H0; eauto.
Qed.

Lemma reachable_inv s : reachable s -> Inv s.
Proof. induction 1; [apply inv_init | eapply inv_step; eauto]. Qed.

(* ---- the lockset theorem ---- *)

Lemma share_lock_excl s t1 t2 r1 r2 :
  Inv s -> t1 <> t2 -> row_ok s t1 r1 -> row_ok s t2 r2 -> share_lock r1 r2 = true -> False.
Proof.
  intros [Hex _] Hne (_ & Hl1 & _) (_ & Hl2 & _) Hs.
  unfold share_lock in Hs. apply existsb_exists in Hs. destruct Hs as [[l1 m1] [Hin1 Hs]].
  apply existsb_exists in Hs. destruct Hs as [[l2 m2] [Hin2 Hs]].
  cbn in Hs. apply andb_true_iff in Hs. destruct Hs as [Hl Hm]. apply Z.eqb_eq in Hl. subst l2.
  destruct (Hl1 _ _ Hin1) as [m1' [Hh1 Hw1]]. destruct (Hl2 _ _ Hin2) as [m2' [Hh2 Hw2]].
  destruct (Hex _ _ _ _ _ Hh1 Hh2 Hne) as [-> ->].
  destruct m1, m2; cbn in Hm; try discriminate;
    try (specialize (Hw1 eq_refl); discriminate); try (specialize (Hw2 eq_refl); discriminate).
Qed.

Lemma pair_ok_excl s t1 t2 r1 r2 :
  Inv s -> t1 <> t2 -> row_ok s t1 r1 -> row_ok s t2 r2 -> pair_ok r1 r2 = true -> conflict r1 r2 = false.
Proof.
  intros HI Hne H1 H2 Hp. destruct (conflict r1 r2) eqn:Hc; auto. exfalso.
  unfold pair_ok in Hp. rewrite Hc in Hp. cbn in Hp.
  repeat (apply orb_true_iff in Hp; destruct Hp as [Hp|Hp]).
  - eapply share_lock_excl; eauto.
  - (* same singleton class: same thread *)
    unfold same_single in Hp. destruct H1 as (_ & _ & C1 & _), H2 as (_ & _ & C2 & _).
    unfold class_ok in *. destruct (r_class r1), (r_class r2); try discriminate.
    apply Z.eqb_eq in Hp. subst. destruct C1 as (_ & _ & ->), C2 as (_ & _ & ->). congruence.
  - (* r1 is setup *)
    unfold is_setup in Hp. destruct H1 as (_ & _ & C1 & _), H2 as (_ & _ & C2 & _).
    unfold class_ok in *. destruct (r_class r1); try discriminate. destruct C1 as [P1 ->].
    destruct (r_class r2).
    + congruence.
    + destruct C2 as [_ ->]. congruence.
    + destruct C2 as [P2 _]. congruence.
  - unfold is_setup in Hp. destruct H1 as (_ & _ & C1 & _), H2 as (_ & _ & C2 & _).
    unfold class_ok in *. destruct (r_class r2); try discriminate. destruct C2 as [P2 ->].
    destruct (r_class r1).
    + congruence.
    + destruct C1 as [_ ->]. congruence.
    + destruct C1 as [P1 _]. congruence.
  - (* r1 before the start of r2's thread *)
    unfold before_of in Hp. destruct H1 as (_ & _ & _ & B1), H2 as (_ & _ & C2 & _).
    unfold class_ok in C2. destruct (r_class r2); try discriminate.
    apply existsb_exists in Hp. destruct Hp as [k' [Hin Hk]]. apply Z.eqb_eq in Hk. subst k'.
    destruct C2 as (_ & Sp & _). rewrite (B1 _ Hin) in Sp. discriminate.
  - unfold before_of in Hp. destruct H2 as (_ & _ & _ & B2), H1 as (_ & _ & C1 & _).
    unfold class_ok in C1. destruct (r_class r1); try discriminate.
    apply existsb_exists in Hp. destruct Hp as [k' [Hin Hk]]. apply Z.eqb_eq in Hk. subst k'.
    destruct C1 as (_ & Sp & _). rewrite (B2 _ Hin) in Sp. discriminate.
Qed.

Lemma drf_ok_pair r1 r2 :
  drf_ok table = true -> In r1 table -> In r2 table -> pair_ok r1 r2 = true.
Proof.
  unfold drf_ok. intros H H1 H2. rewrite forallb_forall in H. specialize (H _ H1).
  rewrite forallb_forall in H. auto.
Qed.

(* No data race: in every reachable state, two different threads are never inside conflicting
   accesses at the same time. *)
Theorem lockset_drf :
  drf_ok table = true ->
  forall s, reachable s ->
  forall t1 t2 r1 r2, t1 <> t2 -> active s t1 = Some r1 -> active s t2 = Some r2 ->
  conflict r1 r2 = false.
Proof.
  intros Hok s Hr t1 t2 r1 r2 Hne A1 A2.
  pose proof (reachable_inv _ Hr) as HI.
  pose proof (inv_act _ HI _ _ A1) as O1. pose proof (inv_act _ HI _ _ A2) as O2.
  eapply pair_ok_excl; eauto.
  apply drf_ok_pair; auto; [apply O1 | apply O2].
Qed.

(* the same for a thread that is about to begin: a conflicting access is not even enabled *)
Corollary lockset_drf_enabled :
  drf_ok table = true ->
  forall s, reachable s ->
  forall t1 t2 r1 r2, t1 <> t2 -> active s t1 = Some r1 -> active s t2 = None -> row_ok s t2 r2 ->
  conflict r1 r2 = false.
Proof.
  intros Hok s Hr t1 t2 r1 r2 Hne A1 A2 O2.
  assert (Hr' : reachable (mkState (holders s) (upd (active s) t2 (Some r2)) (published s) (spawned s)
                    (mem s) (upd (snap s) t2 (mem s (r_loc r2))) (incs s))).
  { eapply RS; eauto. apply SBegin; auto. }
  eapply (lockset_drf Hok _ Hr' t1 t2); eauto; cbn.
  - rewrite upd_other; auto.
  - apply upd_same.
Qed.

(* ---- increments are not lost ---- *)

Definition snaps_ok (s : state) : Prop :=
  forall t r, active s t = Some r -> r_kind r = KRmw -> snap s t = mem s (r_loc r).

Lemma conflict_write_rmw r1 r2 :
  r_kind r1 = KRmw -> r_loc r2 = r_loc r1 -> is_write (r_kind r2) = true -> conflict r1 r2 = true.
Proof.
  intros K L W. unfold conflict. rewrite K, L, Z.eqb_refl. cbn. reflexivity.
Qed.

Lemma snaps_step s s' :
  drf_ok table = true -> reachable s -> snaps_ok s -> step s s' -> snaps_ok s'.
Proof.
  intros Hok Hr Hs Hst. destruct Hst; unfold snaps_ok in *; cbn; eauto.
  - (* begin *)
    intros t0 r0 Ha K. unfold upd in *. destruct (Nat.eqb_spec t0 t) as [->|]; eauto.
    inversion Ha; subst. reflexivity.
  - (* end: another thread's write to the same location would be a race *)
    intros t0 r0 Ha K. unfold upd in Ha. destruct (Nat.eqb_spec t0 t) as [->|]; [discriminate|].
    rewrite (Hs _ _ Ha K).
    assert (Hnw : is_write (r_kind r) = true -> r_loc r <> r_loc r0).
    { intros W E. pose proof (lockset_drf Hok _ Hr t0 t r0 r n Ha H) as C.
      rewrite (conflict_write_rmw r0 r K E W) in C. discriminate. }
    unfold end_mem. destruct (r_kind r) eqn:Kr; auto;
      rewrite updZ_other; auto; intros E; apply Hnw; auto.
Qed.

Lemma reachable_snaps s : drf_ok table = true -> reachable s -> snaps_ok s.
Proof.
  intros Hok. induction 1.
  - intros t r Ha. discriminate.
  - eapply snaps_step; eauto.
Qed.

Theorem rmw_not_lost :
  drf_ok table = true ->
  forall l, counter_loc table l = true ->
  forall s, reachable s -> mem s l = mem0 l + incs s l.
Proof.
  intros Hok l Hc s Hr. induction Hr as [|s s' Hr IH Hst]; [cbn; lia|].
  pose proof (reachable_snaps _ Hok Hr) as Hsn.
  pose proof (reachable_inv _ Hr) as HI.
  destruct Hst; cbn; auto.
  (* end *)
  pose proof (inv_act _ HI _ _ H) as (Hin & _).
  unfold counter_loc in Hc. rewrite forallb_forall in Hc. specialize (Hc _ Hin).
  unfold end_mem, end_incs, updZ.
  destruct (Z.eqb_spec l (r_loc r)) as [E|NE].
  - subst l. rewrite Z.eqb_refl in Hc. cbn in Hc.
    destruct (r_kind r) eqn:K; cbn in Hc; try discriminate; cbn beta; rewrite ?Z.eqb_refl; auto.
    + rewrite (Hsn _ _ H K). lia.
    + lia.
  - apply Z.eqb_neq in NE. destruct (r_kind r); cbn beta; rewrite ?NE; auto.
Qed.

End Machine.

(* ---- lock order: no cycle in the waits-for graph ---- *)

Section LockOrder.
Variable edges : list (Z * Z).     (* (held, acquired) pairs seen in the sources *)

Record lstate := mkL {
  held : nat -> list Z;
  want : nat -> option Z            (* the lock a thread is blocked on / about to take *)
}.

Definition linit : lstate := mkL (fun _ => []) (fun _ => None).

Inductive lstep : lstate -> lstate -> Prop :=
| LRequest s t l :
    want s t = None -> (forall h, In h (held s t) -> In (h, l) edges) ->
    lstep s (mkL (held s) (upd (want s) t (Some l)))
| LGrant s t l :
    want s t = Some l ->
    lstep s (mkL (upd (held s) t (l :: held s t)) (upd (want s) t None))
| LRelease s t l :
    want s t = None ->
    lstep s (mkL (upd (held s) t (remove Z.eq_dec l (held s t))) (want s)).

Inductive lreachable : lstate -> Prop :=
| LR0 : lreachable linit
| LRS s s' : lreachable s -> lstep s s' -> lreachable s'.

(* t waits for a lock that t' holds *)
Definition waits_for (s : lstate) (t t' : nat) : Prop :=
  exists l, want s t = Some l /\ In l (held s t').

Variable rank : Z -> Z.
Hypothesis ranked : edges_ranked rank edges = true.

Definition linv (s : lstate) : Prop :=
  forall t l h, want s t = Some l -> In h (held s t) -> rank h < rank l.

Lemma linv_reachable s : lreachable s -> linv s.
Proof.
  induction 1 as [|s s' Hr IH Hst].
  - intros t l h Hw. discriminate.
  - destruct Hst; intros t0 l0 h0 Hw Hh; cbn in *.
    + unfold upd in Hw. destruct (Nat.eqb_spec t0 t) as [->|]; [|eauto].
      inversion Hw; subst. specialize (H0 _ Hh).
      unfold edges_ranked in ranked. rewrite forallb_forall in ranked.
      specialize (ranked _ H0). cbn in ranked. now apply Z.ltb_lt in ranked.
    + unfold upd in Hw, Hh. destruct (Nat.eqb_spec t0 t) as [->|]; [discriminate|]. eauto.
    + unfold upd in Hh. destruct (Nat.eqb_spec t0 t) as [->|]; [congruence|]. eauto.
Qed.

Lemma chain_rank s :
  linv s -> forall x z, clos_trans_1n nat (waits_for s) x z ->
  forall lx lz, want s x = Some lx -> want s z = Some lz -> rank lx < rank lz.
Proof.
  intros HI x z Hc. induction Hc as [x y [l [Hw Hh]] | x y z [l [Hw Hh]] Hc IH]; intros lx lz Wx Wz.
  - rewrite Hw in Wx. inversion Wx; subst. eapply HI; eauto.
  - rewrite Hw in Wx. inversion Wx; subst.
    assert (exists ly, want s y = Some ly) as [ly Wy].
    { inversion Hc as [? [l' [Hw' _]] | ? ? [l' [Hw' _]] _]; eauto. }
    pose proof (HI _ _ _ Wy Hh). specialize (IH _ _ Wy Wz). lia.
Qed.

Theorem no_waits_for_cycle :
  forall s, lreachable s -> forall t, ~ clos_trans_1n nat (waits_for s) t t.
Proof.
  intros s Hr t Hc. pose proof (linv_reachable _ Hr) as HI.
  assert (exists l, want s t = Some l) as [l W].
  { inversion Hc as [? [l' [Hw' _]] | ? ? [l' [Hw' _]] _]; eauto. }
  pose proof (chain_rank _ HI _ _ Hc _ _ W W). lia.
Qed.

End LockOrder.

Theorem lock_order_no_deadlock edges :
  lock_order_acyclic edges = true ->
  forall s, lreachable edges s -> forall t, ~ clos_trans_1n nat (waits_for s) t t.
Proof.
  intros H. eapply no_waits_for_cycle. exact H.
Qed.
