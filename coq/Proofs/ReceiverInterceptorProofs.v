(* C06 at the interceptor level: the stream table of ReceiverInterceptor keeps
   one independent receiverStream per bound SSRC; a tick reports exactly the
   bound SSRCs, each with the report its stream core produces after ITS OWN
   history (packets, sender reports and earlier ticks since its latest bind). *)
From IV Require Import Base.Word Base.KMap Model.SenderStream Model.ReceiverStream.

Section RI.
  Variable J : Type.
  Variable j0 : J.
  Variable jstep : J -> Z -> Z -> Z -> J.
  Variable jout : J -> Z.
  Variable dk : Z -> Z.

  Notation ristep := (ri_step J j0 jstep jout dk).
  Notation rifinal := (ri_final J j0 jstep jout dk).

  Fixpoint r_final (rate : Z) (st : rstate J) (ops : list rop) : rstate J :=
    match ops with [] => st | op :: tl => r_final rate (fst (r_step J jstep jout dk rate st op)) tl end.

  Lemma r_final_app rate st a b : r_final rate st (a ++ b) = r_final rate (r_final rate st a) b.
  Proof. revert st; induction a as [|op a IH]; intros st; simpl; auto. Qed.

  Lemma r_run_app rate st a b :
    r_run J jstep jout dk rate st (a ++ b) =
    r_run J jstep jout dk rate st a ++ r_run J jstep jout dk rate (r_final rate st a) b.
  Proof.
    revert st; induction a as [|op a IH]; intros st; simpl; auto.
    destruct (r_step J jstep jout dk rate st op) as [st' o] eqn:E. simpl.
    destruct o; simpl; rewrite IH; reflexivity.
  Qed.

  (* clock rate and event history of SSRC s *)
  Definition trackh (s : Z) (cur : option (Z * list rop)) (op : riop) : option (Z * list rop) :=
    let ext (e : rop) := match cur with Some (r, h) => Some (r, h ++ [e]) | None => None end in
    match op with
    | RIBind s' r => if s' =? s then Some (r, []) else cur
    | RIUnbind s' => if s' =? s then None else cur
    | RIRtp s' now seq ts => if s' =? s then ext (RRtp now seq ts) else cur
    | RISr s' now ntp => if s' =? s then ext (RSr now ntp) else cur
    | RITick now => ext (RRep now)
    end.

  Definition entry_of (cur : option (Z * list rop)) : option (Z * rstate J) :=
    match cur with Some (r, h) => Some (r, r_final r (r_init J j0) h) | None => None end.

  Lemma tick_keys now : forall t, map fst (fst (rt_tick J jout dk now t)) = map fst t.
  Proof.
    induction t as [|[k [rate st]] tl IH]; simpl; auto.
    destruct (r_report J jout dk st now) as [st' r]. destruct (rt_tick J jout dk now tl) as [tl' rs].
    simpl in *. rewrite IH. reflexivity.
  Qed.

  Lemma ksorted_keys : forall (t1 t2 : list (Z * (Z * rstate J))),
    map fst t1 = map fst t2 -> ksorted t1 -> ksorted t2.
  Proof.
    induction t1 as [|[k1 v1] tl1 IH]; intros [|[k2 v2] tl2] Hm Hs; simpl in *; try discriminate; auto.
    inversion Hm; subst k2. destruct Hs as [Hlt Hs]. split; [|apply (IH tl2); assumption].
    intros e He. apply (in_map fst) in He. rewrite <- H1 in He.
    apply in_map_iff in He as (e0 & Hf & Hin). rewrite <- Hf. apply Hlt. exact Hin.
  Qed.

  Lemma tick_get now s : forall t,
    rt_get J s (fst (rt_tick J jout dk now t)) =
    match rt_get J s t with
    | Some (rate, st) => Some (rate, fst (r_report J jout dk st now))
    | None => None
    end.
  Proof.
    induction t as [|[k [rate st]] tl IH]; simpl; auto.
    destruct (r_report J jout dk st now) as [st' r] eqn:E.
    destruct (rt_tick J jout dk now tl) as [tl' rs]. simpl in *.
    unfold rt_get in *. simpl. destruct (s =? k); [reflexivity|exact IH].
  Qed.

  Lemma tick_out now : forall t,
    snd (rt_tick J jout dk now t) =
    map (fun e => (fst e, snd (r_report J jout dk (snd (snd e)) now))) t.
  Proof.
    induction t as [|[k [rate st]] tl IH]; simpl; auto.
    destruct (r_report J jout dk st now) as [st' r] eqn:E.
    destruct (rt_tick J jout dk now tl) as [tl' rs]. simpl in *. rewrite IH. reflexivity.
  Qed.

  Lemma ri_step_sorted t op : ksorted t -> ksorted (fst (ristep t op)).
  Proof.
    intros Hs. destruct op as [s r|s|s now seq ts|s now ntp|now]; simpl.
    - apply ksorted_put; assumption.
    - apply ksorted_del; assumption.
    - destruct (rt_get J s t) as [[rate st]|]; simpl; [apply ksorted_put|]; assumption.
    - destruct (rt_get J s t) as [[rate st]|]; simpl; [apply ksorted_put|]; assumption.
    - apply (ksorted_keys t); [symmetry; apply tick_keys|assumption].
  Qed.

  Lemma step_entry t op s cur : ksorted t -> rt_get J s t = entry_of cur ->
    rt_get J s (fst (ristep t op)) = entry_of (trackh s cur op).
  Proof.
    intros Hs Hg. destruct op as [s' r|s'|s' now seq ts|s' now ntp|now]; cbn [ri_step fst trackh].
    - destruct (s' =? s) eqn:E.
      + apply Z.eqb_eq in E. subst s'. unfold rt_get, rt_put. rewrite kget_put_same. reflexivity.
      + unfold rt_get, rt_put. rewrite kget_put_other by lia. exact Hg.
    - destruct (s' =? s) eqn:E.
      + apply Z.eqb_eq in E. subst s'. unfold rt_get, rt_del. rewrite kget_del_same by assumption. reflexivity.
      + unfold rt_get, rt_del. rewrite kget_del_other by lia. exact Hg.
    - destruct (s' =? s) eqn:E.
      + apply Z.eqb_eq in E. subst s'. rewrite Hg.
        destruct cur as [[r h]|]; cbn [entry_of fst].
        * unfold rt_get, rt_put. rewrite kget_put_same. rewrite r_final_app. reflexivity.
        * exact Hg.
      + destruct (rt_get J s' t) as [[rate st]|]; cbn [fst]; [|exact Hg].
        unfold rt_get, rt_put. rewrite kget_put_other by lia. exact Hg.
    - destruct (s' =? s) eqn:E.
      + apply Z.eqb_eq in E. subst s'. rewrite Hg.
        destruct cur as [[r h]|]; cbn [entry_of fst].
        * unfold rt_get, rt_put. rewrite kget_put_same. rewrite r_final_app. reflexivity.
        * exact Hg.
      + destruct (rt_get J s' t) as [[rate st]|]; cbn [fst]; [|exact Hg].
        unfold rt_get, rt_put. rewrite kget_put_other by lia. exact Hg.
    - rewrite tick_get, Hg. destruct cur as [[r h]|]; cbn [entry_of]; [|reflexivity].
      rewrite r_final_app. cbn [r_final r_step].
      destruct (r_report J jout dk (r_final r (r_init J j0) h) now) as [st' rp]. reflexivity.
  Qed.

  Theorem ri_entries s : forall ops t cur, ksorted t -> rt_get J s t = entry_of cur ->
    rt_get J s (rifinal t ops) = entry_of (fold_left (trackh s) ops cur).
  Proof.
    induction ops as [|op ops IH]; intros t cur Hs Hg; simpl; auto.
    apply IH; [apply ri_step_sorted; assumption|apply step_entry; assumption].
  Qed.

  Lemma ri_final_sorted : forall ops t, ksorted t -> ksorted (rifinal t ops).
  Proof.
    induction ops as [|op ops IH]; intros t Hs; simpl; auto.
    apply IH. apply ri_step_sorted. assumption.
  Qed.

  Theorem tick_reports ops now s rep :
    In (s, rep) (snd (ristep (rifinal [] ops) (RITick now))) <->
    exists rate h, fold_left (trackh s) ops None = Some (rate, h) /\
      r_run J jstep jout dk rate (r_init J j0) (h ++ [RRep now]) =
      r_run J jstep jout dk rate (r_init J j0) h ++ [rep].
  Proof.
    set (t := rifinal [] ops).
    assert (Hs : ksorted t) by (apply ri_final_sorted; exact I).
    assert (He : rt_get J s t = entry_of (fold_left (trackh s) ops None))
      by (apply ri_entries; [exact I|reflexivity]).
    cbn [ri_step snd]. rewrite tick_out, in_map_iff.
    assert (Hrun : forall rate h, r_run J jstep jout dk rate (r_init J j0) (h ++ [RRep now]) =
              r_run J jstep jout dk rate (r_init J j0) h ++
              [snd (r_report J jout dk (r_final rate (r_init J j0) h) now)]).
    { intros. rewrite r_run_app. cbn [r_run r_step].
      destruct (r_report J jout dk (r_final rate (r_init J j0) h) now). reflexivity. }
    split.
    - intros ([k [rate st]] & Heq & Hin). cbn [fst snd] in Heq. inversion Heq; subst k rep.
      apply (kget_In _ s (rate, st) t Hs) in Hin. unfold rt_get in He. rewrite Hin in He.
      destruct (fold_left (trackh s) ops None) as [[r h]|]; cbn [entry_of] in He; [|discriminate].
      inversion He; subst. exists r, h. split; [reflexivity|]. apply Hrun.
    - intros (rate & h & Hf & Hr). rewrite Hf in He. cbn [entry_of] in He.
      exists (s, (rate, r_final rate (r_init J j0) h)). cbn [fst snd]. split.
      + rewrite Hrun in Hr. apply app_inv_head in Hr. inversion Hr. reflexivity.
      + apply (kget_In _ s _ t Hs). exact He.
  Qed.
End RI.
