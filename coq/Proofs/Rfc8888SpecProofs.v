(* The boolean oracle of one report block is equivalent to its Prop-level
   reading (what the property text says about one block of one stream). *)
From IV Require Import Base.Word Model.Unwrapper Model.StreamLog Model.Rfc8888Recorder Spec.Rfc8888Spec.
From Coq Require Import ZifyBool.
Ltac Zify.zify_post_hook ::= Z.div_mod_to_equations.

(* Prop-level specification of one block, in terms of the recount [st]:
   - the block is the contiguous range [start, highest received] (begin is start mod 2^16);
   - it does not re-cover a packet acknowledged in a gap-free prefix of an earlier report;
   - entry i is exactly what the recount expects for number start+i: not received
     (0) when no copy ever arrived, else Received with the ECN and the arrival-time
     offset of the FIRST copy (expected_mb / ato_spec);
   - every number that arrived for the first time since the last report lies in the
     range, unless the block is full (>= B entries, newest kept) or the number is below
     the start of an earlier full report (and not older than the stream's first packet). *)
Definition block_spec (st : ost) (now B begin : Z) (mbs : list Z) : Prop :=
  let n := Z.of_nat (length mbs) in
  let start := o_hi st - n + 1 in
  begin = start mod 65536 /\
  o_ackhi st <= start /\
  (forall i, (i < length mbs)%nat -> nth i mbs 0 = expected_mb st now (start + Z.of_nat i)) /\
  (forall s, In s (o_fresh st) -> start <= s \/ B <= n \/ (o_first st <= s /\ s < o_tfloor st)).

Lemma entry_code_0 st now s m : entry_code st now s m = 0%nat <-> m = expected_mb st now s.
Proof.
  unfold entry_code. cbv zeta. destruct (m =? expected_mb st now s) eqn:E.
  - split; [intros _; lia|reflexivity].
  - split; [|lia]. destruct (negb _); [discriminate|]. destruct (_ =? 8190); discriminate.
Qed.

Lemma check_entries_0 st now mbs : forall s,
  check_entries st now s mbs = 0%nat <->
  (forall i, (i < length mbs)%nat -> nth i mbs 0 = expected_mb st now (s + Z.of_nat i)).
Proof.
  induction mbs as [|m tl IH]; intros s; cbn [check_entries length].
  - split; [intros _ i Hi; lia|reflexivity].
  - destruct (entry_code st now s m) eqn:E.
    + apply entry_code_0 in E. rewrite IH. split.
      * intros H [|i] Hi; [cbn; rewrite Z.add_0_r; exact E|].
        cbn [nth]. replace (s + Z.of_nat (S i)) with (s + 1 + Z.of_nat i) by lia. apply H. lia.
      * intros H i Hi. specialize (H (S i) ltac:(lia)). cbn [nth] in H.
        replace (s + Z.of_nat (S i)) with (s + 1 + Z.of_nat i) in H by lia. exact H.
    + split; [discriminate|]. intros H. specialize (H 0%nat ltac:(lia)). cbn in H.
      rewrite Z.add_0_r in H. apply entry_code_0 in H. congruence.
Qed.

Lemma fresh_code_0 st start n B s :
  fresh_code st start n B s = 0%nat <-> start <= s \/ B <= n \/ (o_first st <= s /\ s < o_tfloor st).
Proof.
  unfold fresh_code.
  destruct (start <=? s) eqn:E1; [split; [left; lia|reflexivity]|].
  destruct (n >=? B) eqn:E2; [split; [right; left; lia|reflexivity]|].
  destruct (s <? o_first st) eqn:E3; [split; [discriminate|lia]|].
  destruct (s <? o_tfloor st) eqn:E4; [split; [right; right; lia|reflexivity]|].
  split; [discriminate|lia].
Qed.

Lemma check_fresh_0 st start n B fr :
  check_fresh st start n B fr = 0%nat <->
  (forall s, In s fr -> start <= s \/ B <= n \/ (o_first st <= s /\ s < o_tfloor st)).
Proof.
  induction fr as [|s tl IH]; cbn [check_fresh].
  - split; [intros _ s []|reflexivity].
  - destruct (fresh_code st start n B s) eqn:E.
    + apply fresh_code_0 in E. rewrite IH. split.
      * intros H x [<-|Hx]; [exact E|apply H; exact Hx].
      * intros H x Hx. apply H. right. exact Hx.
    + split; [discriminate|]. intros H. specialize (H s (or_introl eq_refl)).
      apply fresh_code_0 in H. congruence.
Qed.

Theorem o_report_ok_iff st now B begin mbs :
  fst (o_report st now B begin mbs) = 0%nat <-> block_spec st now B begin mbs.
Proof.
  unfold o_report, block_spec. cbv zeta. cbn [fst].
  set (start := o_hi st - Z.of_nat (length mbs) + 1).
  destruct (begin =? start mod 65536) eqn:E1; cbn [negb].
  2:{ split; [discriminate|]. intros (H & _). lia. }
  destruct (start <? o_ackhi st) eqn:E2.
  1:{ split; [discriminate|]. intros (_ & H & _). lia. }
  destruct (check_entries st now start mbs) eqn:E3.
  - rewrite check_fresh_0. pose proof (proj1 (check_entries_0 st now mbs start) E3) as E3'. split.
    + intros H. split; [lia|]. split; [lia|]. split; [exact E3'|exact H].
    + intros (_ & _ & _ & H). exact H.
  - split; [discriminate|]. intros (_ & _ & H & _). apply (proj2 (check_entries_0 st now mbs start)) in H. congruence.
Qed.

(* meaning of the expected entry: the Received bit is set exactly when a copy of
   that number has arrived (for 2-bit ECN values) *)
Lemma expected_mb_received st now s :
  (forall ts ecn, lfind s (o_arr st) = Some (ts, ecn) -> 0 <= ecn < 4) ->
  (mbz_received (expected_mb st now s) = true <-> lfind s (o_arr st) <> None).
Proof.
  intros He. unfold expected_mb. destruct (lfind s (o_arr st)) as [[ts ecn]|] eqn:E.
  - specialize (He ts ecn eq_refl). split; [congruence|intros _].
    assert (Ha : 0 <= ato_spec now ts).
    { unfold ato_spec. destruct (now <? ts) eqn:E1; [lia|]. cbv zeta. destruct (_ >? _) eqn:E2; [lia|].
      rewrite Z.gtb_ltb in E2. apply Z.ltb_ge in E2. lia. }
    unfold mbz_received, mbz. apply Z.leb_le. lia.
  - cbv. split; [discriminate|congruence].
Qed.
