(* C18, round-4 strengthening: the finger queue of Model/FastQueue.v refines the
   ordered list queue, the jitter buffer over it produces the outputs of the
   buffer over the list queue (hence of the pointer-level buffer) on every
   history, and the count-carrying oracle of Check/C18dCheck.v is the oracle of
   Check/C18Check.v. *)
From IV Require Import Base.Word Model.PriorityQueue Model.JitterBuffer Model.FastQueue
  Proofs.PriorityQueueProofs Proofs.JitterBufferProofs Proofs.PriorityQueueSorted
  Check.C18Check Check.C18dCheck.
From Coq Require Import ZifyBool PeanoNat Sorted.
Ltac Zify.zify_post_hook ::= Z.div_mod_to_equations.

(* ================= the finger queue refines the list ================= *)
Definition RF (f : fq) (L : aq) : Prop :=
  fq_list f = L /\ sorted L /\ fn f = aq_len L.

Lemma fq_list_eq f : fq_list f = rev (frf f) ++ fbk f.
Proof. unfold fq_list. apply rev_append_rev. Qed.

Lemma RF_new : RF fq_new [].
Proof. repeat split. apply sorted_nil. Qed.

(* everything before an element of a sorted list is <= it *)
Lemma sorted_app_le : forall (l1 : aq) x l2, sorted (l1 ++ x :: l2) -> Forall (fun e => fst e <= fst x) l1.
Proof.
  induction l1 as [|e l1 IH]; intros x l2 H; [constructor|].
  cbn [app] in H. apply sorted_cons_inv in H as [Hs Hall]. constructor.
  - rewrite Forall_forall in Hall. apply Hall. apply in_or_app. right. left. reflexivity.
  - eapply IH. exact Hs.
Qed.

Lemma seek_left_spec : forall rf bk p rf1 bk1,
  sorted (rev rf ++ bk) -> seek_left rf bk p = (rf1, bk1) ->
  rev rf1 ++ bk1 = rev rf ++ bk /\ Forall (fun e => fst e < p) rf1.
Proof.
  induction rf as [|x rf IH]; intros bk p rf1 bk1 Hs E; cbn [seek_left] in E.
  - inversion E; subst. split; [reflexivity|constructor].
  - destruct (p <=? fst x) eqn:Ep.
    + cbn [rev] in *. rewrite <- app_assoc in *. cbn [app] in *.
      apply IH in E; [|exact Hs]. exact E.
    + inversion E; subst. split; [reflexivity|].
      cbn [rev] in Hs. rewrite <- app_assoc in Hs. cbn [app] in Hs.
      apply sorted_app_le in Hs. constructor; [lia|].
      rewrite Forall_forall in *. intros e He. specialize (Hs e). rewrite <- in_rev in Hs. specialize (Hs He). lia.
Qed.

Lemma seek_right_spec : forall bk rf p rf2 bk2,
  Forall (fun e => fst e < p) rf -> seek_right rf bk p = (rf2, bk2) ->
  rev rf2 ++ bk2 = rev rf ++ bk /\ Forall (fun e => fst e < p) rf2 /\
  match bk2 with [] => True | x :: _ => p <= fst x end.
Proof.
  induction bk as [|x bk IH]; intros rf p rf2 bk2 Hf E; cbn [seek_right] in E.
  - inversion E; subst. auto.
  - destruct (p <=? fst x) eqn:Ep.
    + inversion E; subst. repeat split; auto. lia.
    + apply IH in E.
      * destruct E as (E1 & E2 & E3). repeat split; auto. rewrite E1. cbn [rev]. rewrite <- app_assoc. reflexivity.
      * constructor; [lia|exact Hf].
Qed.

Lemma aq_push_app_lt : forall (l1 : aq) l2 v p,
  Forall (fun e => fst e < p) l1 -> aq_push (l1 ++ l2) v p = l1 ++ aq_push l2 v p.
Proof.
  induction l1 as [|[q w] l1 IH]; intros l2 v p H; [reflexivity|].
  inversion H; subst. cbn [app aq_push]. cbn [fst] in *.
  destruct (p <=? q) eqn:E; [lia|]. rewrite IH by assumption. reflexivity.
Qed.

Lemma aq_push_head (l : aq) v p :
  match l with [] => True | x :: _ => p <= fst x end -> aq_push l v p = (p, v) :: l.
Proof.
  destruct l as [|[q w] l]; intros H; [reflexivity|]. cbn [aq_push]. cbn [fst] in H.
  destruct (p <=? q) eqn:E; [reflexivity|lia].
Qed.

Lemma aq_len_cons e (L : aq) : aq_len (e :: L) = u16 (aq_len L + 1).
Proof. unfold aq_len, u16. cbn [length]. rewrite Nat2Z.inj_succ. lia. Qed.

Lemma aq_push_length : forall (L : aq) v p, length (aq_push L v p) = S (length L).
Proof.
  induction L as [|[q w] L IH]; intros v p; [reflexivity|]. cbn [aq_push].
  destruct (p <=? q); cbn [length]; [reflexivity|]. rewrite IH. reflexivity.
Qed.

Lemma RF_len f L : RF f L -> fn f = aq_len L.
Proof. intros (_ & _ & H). exact H. Qed.

Lemma RF_find f L sq : RF f L -> fq_find f sq = aq_find L sq.
Proof. intros (<- & _ & _). reflexivity. Qed.

Lemma RF_push f L v prio : RF f L ->
  exists f', fq_push f v prio = Ok f' /\ RF f' (aq_push L v prio).
Proof.
  intros (HL & Hs & Hn). unfold fq_push.
  destruct (seek_left (frf f) (fbk f) prio) as [rf1 bk1] eqn:E1.
  destruct (seek_right rf1 bk1 prio) as [rf2 bk2] eqn:E2.
  rewrite fq_list_eq in HL.
  apply seek_left_spec in E1; [|rewrite HL; exact Hs]. destruct E1 as [Ea Eb].
  apply seek_right_spec in E2; [|exact Eb]. destruct E2 as (Ec & Ed & Ee).
  eexists. split; [reflexivity|].
  assert (HP : aq_push L v prio = rev rf2 ++ (prio, v) :: bk2).
  { rewrite <- HL, <- Ea, <- Ec. rewrite aq_push_app_lt.
    - rewrite aq_push_head by exact Ee. reflexivity.
    - apply Forall_rev. exact Ed. }
  split; [|split].
  - rewrite fq_list_eq. cbn [frf fbk]. symmetry. exact HP.
  - apply aq_push_sorted. exact Hs.
  - cbn [fn]. rewrite Hn. unfold aq_len, u16. rewrite aq_push_length, Nat2Z.inj_succ. lia.
Qed.

Lemma aq_remove_length k : forall (l : aq) w l', aq_remove l k = Ok (w, l') -> length l = S (length l').
Proof.
  induction l as [|e l IH]; intros w l' H; cbn [aq_remove] in H; [discriminate|].
  destruct (entry_match k e) as [[|]|]; try discriminate.
  - inversion H; subst. reflexivity.
  - destruct (aq_remove l k) as [[w1 l1]|x| |]; try discriminate.
    inversion H; subst. cbn [length]. f_equal. eapply IH. reflexivity.
Qed.

Lemma aq_popat_length k (l : aq) w l' : aq_popat l k = Ok (w, l') -> length l = S (length l').
Proof. destruct l; [discriminate|]. apply aq_remove_length. Qed.

Lemma fq_list_nil l : fq_list (mkFQ [] l 0) = l.
Proof. reflexivity. Qed.

Lemma RF_popat f L k : RF f L ->
  match aq_popat L k with
  | Ok (w, t) => exists f', fq_popat f k = Ok (w, f') /\ RF f' t
  | Err e => fq_popat f k = Err e
  | Panic => fq_popat f k = Panic
  | Diverge => fq_popat f k = Diverge
  end.
Proof.
  intros (HL & Hs & Hn). unfold fq_popat. rewrite HL.
  destruct (aq_popat L k) as [[w t]|e| |] eqn:E; try reflexivity.
  eexists. split; [reflexivity|]. split; [reflexivity|]. split.
  - eapply aq_popat_sorted; eauto.
  - cbn [fn]. rewrite Hn. apply aq_popat_length in E. unfold aq_len, u16. rewrite E, Nat2Z.inj_succ. lia.
Qed.

Lemma RF_pop f L : RF f L ->
  match aq_pop L with
  | Ok (w, t) => exists f', fq_pop f = Ok (w, f') /\ RF f' t
  | Err e => fq_pop f = Err e
  | Panic => fq_pop f = Panic
  | Diverge => fq_pop f = Diverge
  end.
Proof.
  intros (HL & Hs & Hn). unfold fq_pop. rewrite HL.
  destruct L as [|[p w] t]; cbn [aq_pop]; [reflexivity|].
  eexists. split; [reflexivity|]. split; [reflexivity|]. split.
  - apply sorted_cons_inv in Hs. apply Hs.
  - cbn [fn]. rewrite Hn. unfold aq_len, u16. cbn [length]. rewrite Nat2Z.inj_succ. lia.
Qed.

Lemma RF_clear f L : RF f L -> exists f', fq_clear f = Ok f' /\ RF f' [].
Proof. intros _. exists fq_new. split; [reflexivity|apply RF_new]. Qed.

(* ================= the buffer over any queue that refines the list ================= *)
(* Proofs/JitterBufferProofs.v (Part A) proves this for the pointer-level queue;
   here the same simulation for any implementation [O] of the queue interface
   related to the list queue by a relation [R] that the five operations
   preserve. *)
Section Sim.
Context {Q : Type} (O : pq_ops Q) (R : Q -> aq -> Prop).
Hypothesis R_len : forall q L, R q L -> o_len O q = aq_len L.
Hypothesis R_find : forall q L sq, R q L -> o_find O q sq = aq_find L sq.
Hypothesis R_push : forall q L p prio, R q L ->
  exists q', o_push O q (Some p) prio = Ok q' /\ R q' (aq_push L (Some p) prio).
Hypothesis R_popat : forall q L k, R q L ->
  match aq_popat L k with
  | Ok (w, t) => exists q', o_popat O q k = Ok (w, q') /\ R q' t
  | Err e => o_popat O q k = Err e
  | _ => False
  end.
Hypothesis R_clear : forall q L, R q L -> exists q', o_clear O q = Ok q' /\ R q' [].

Definition RJg (s : jb Q) (a : jb aq) : Prop :=
  R (jpackets s) (jpackets a) /\ jmin s = jmin a /\ joverflow s = joverflow a /\ jlast s = jlast a /\
  jhead s = jhead a /\ jready s = jready a /\ jemit s = jemit a /\ jooo s = jooo a /\
  junder s = junder a /\ jover s = jover a /\ jnextid s = jnextid a.

Lemma update_state_simg s a : RJg s a ->
  snd (update_state O s) = snd (update_state list_ops a) /\
  RJg (fst (update_state O s)) (fst (update_state list_ops a)).
Proof.
  intros H. assert (H' := H). destruct H' as (HQ & Hmin & Hov & Hl & Hh & Hr & He & Ho & Hu & Hovr & Hn).
  unfold update_state. cbn [o_len list_ops].
  rewrite (R_len _ _ HQ), Hmin, He.
  destruct ((aq_len (jpackets a) >=? jmin a)%Z && negb (jemit a)); cbn [fst snd]; split; auto.
  unfold RJg. cbn. repeat split; auto.
Qed.

Ltac us_simg :=
  match goal with
  | |- context [update_state O ?s1] =>
      match goal with
      | |- context [update_state list_ops ?a1] =>
          let H := fresh "Hus" in
          assert (H : RJg s1 a1) by (unfold RJg; cbn; repeat split; auto);
          apply update_state_simg in H; destruct H as [Hev Hst];
          destruct (update_state O s1) as [s2 ev2];
          destruct (update_state list_ops a1) as [a2 ev2']; cbn [fst snd] in Hev, Hst; subst
      end
  end.

Ltac fing := split; [reflexivity|split; [reflexivity|split;
  [first [assumption | unfold RJg, with_packets; cbn; repeat split; auto]
  |first [apply good_out_of | split; discriminate]]]].

Lemma aq_find_good : forall (l : aq) z, match aq_find l z with Panic | Diverge => False | _ => True end.
Proof.
  induction l as [|[p w] t IH]; intros z; cbn [aq_find]; [exact I|].
  destruct (p =? z); [exact I|apply IH].
Qed.

Theorem jb_step_simg s a o : RJg s a ->
  let '(s', r, ev) := jb_step O s o in
  let '(a', r', ev') := jb_step list_ops a o in
  r = r' /\ ev = ev' /\ RJg s' a' /\ good r'.
Proof.
  intros H. assert (H' := H). destruct H' as (HQ & Hmin & Hov & Hl & Hh & Hr & He & Ho & Hu & Hovr & Hn).
  destruct o; unfold jb_step; cbn [o_len o_push o_find o_popat o_clear list_ops].
  - (* push *)
    rewrite (R_len _ _ HQ), Hov, Hovr, Hr, Hh, Hl, Ho, Hn.
    destruct (R_push _ _ (mkPkt (jnextid a) sq ts) sq HQ) as (q' & -> & HQ').
    destruct (aq_len (jpackets a) >? joverflow a)%Z.
    + us_simg. fing.
    + us_simg. fing.
  - (* pop *)
    rewrite He, Hh. destruct (negb (jemit a)); [fing|].
    pose proof (R_popat _ _ (KSeq (jhead a)) HQ) as Hp.
    destruct (aq_popat (jpackets a) (KSeq (jhead a))) as [[w t]|e| |]; try contradiction.
    + destruct Hp as (q' & -> & HQ'). us_simg. fing.
    + rewrite Hp. unfold underflow. rewrite Hu. fing.
  - (* pop at sequence *)
    rewrite He, Hh. destruct (negb (jemit a)); [fing|].
    pose proof (R_popat _ _ (KSeq sq) HQ) as Hp.
    destruct (aq_popat (jpackets a) (KSeq sq)) as [[w t]|e| |]; try contradiction.
    + destruct Hp as (q' & -> & HQ'). us_simg. fing.
    + rewrite Hp. unfold underflow. rewrite Hu. fing.
  - (* pop at timestamp *)
    rewrite He. destruct (negb (jemit a)); [fing|].
    pose proof (R_popat _ _ (KTs ts) HQ) as Hp.
    destruct (aq_popat (jpackets a) (KTs ts)) as [[w t]|e| |]; try contradiction.
    + destruct Hp as (q' & -> & HQ'). unfold with_packets. us_simg. fing.
    + rewrite Hp. unfold underflow. rewrite Hu. fing.
  - (* peek *)
    rewrite (R_len _ _ HQ). destruct (aq_len (jpackets a) <? 1)%Z; [fing|].
    rewrite He, Hh, Hl. rewrite (R_find _ _ _ HQ).
    pose proof (aq_find_good (jpackets a) (if ph && jemit a then jhead a else jlast a)) as Hg.
    destruct (aq_find (jpackets a) _) as [w|e| |]; [fing|fing|contradiction|contradiction].
  - (* peek at sequence *)
    rewrite (R_find _ _ _ HQ).
    pose proof (aq_find_good (jpackets a) sq) as Hg.
    destruct (aq_find (jpackets a) sq) as [w|e| |]; [fing|fing|contradiction|contradiction].
  - (* set head *)
    fing.
  - (* head *)
    rewrite Hh. fing.
  - (* clear *)
    destruct (R_clear _ _ HQ) as (q' & -> & HQ').
    destruct reset; fing.
Qed.

Lemma jb_run_simg : forall ops s a, RJg s a -> jb_run O s ops = jb_run list_ops a ops.
Proof.
  induction ops as [|o ops IH]; intros s a H; [reflexivity|].
  cbn [jb_run]. pose proof (jb_step_simg s a o H) as Hs.
  destruct (jb_step O s o) as [[s' r] ev]. destruct (jb_step list_ops a o) as [[a' r'] ev'].
  destruct Hs as (-> & -> & HR & Hg1 & Hg2).
  destruct r'; try congruence; f_equal; apply IH; exact HR.
Qed.

End Sim.

(* the list queue of a jitter buffer never panics in PopAt: its values are never nil *)
Definition RFv (f : fq) (L : aq) : Prop := RF f L /\ Forall (fun e => snd e <> None) L.

Lemma aq_push_vals : forall (L : aq) v p,
  Forall (fun e => snd e <> None) L -> v <> None -> Forall (fun e => snd e <> None) (aq_push L v p).
Proof.
  induction L as [|[q w] L IH]; intros v p H Hv; cbn [aq_push].
  - constructor; [exact Hv|constructor].
  - destruct (p <=? q); [constructor; [exact Hv|exact H]|].
    inversion H; subst. constructor; [assumption|]. apply IH; assumption.
Qed.

Lemma aq_remove_vals k : forall (L : aq),
  Forall (fun e => snd e <> None) L ->
  match aq_remove L k with
  | Ok (_, t) => Forall (fun e => snd e <> None) t
  | Err _ => True
  | _ => False
  end.
Proof.
  induction L as [|e L IH]; intros H; cbn [aq_remove]; [exact I|].
  inversion H; subst.
  destruct k as [sq|ts]; cbn [entry_match].
  - destruct (fst e =? sq); [assumption|].
    specialize (IH H3). destruct (aq_remove L (KSeq sq)) as [[w t]|x| |]; auto.
  - destruct (snd e) as [p|] eqn:Es; [|congruence].
    destruct (pts p =? ts); [assumption|].
    specialize (IH H3). destruct (aq_remove L (KTs ts)) as [[w t]|x| |]; auto.
    constructor; [congruence|exact IH].
Qed.

Lemma RFv_popat f L k : RFv f L ->
  match aq_popat L k with
  | Ok (w, t) => exists f', fq_popat f k = Ok (w, f') /\ RFv f' t
  | Err e => fq_popat f k = Err e
  | _ => False
  end.
Proof.
  intros [HR Hv]. pose proof (RF_popat f L k HR) as Hp.
  pose proof (aq_remove_vals k L Hv) as Hr.
  destruct L as [|e L]; [exact Hp|].
  cbn [aq_popat] in *.
  destruct (aq_remove (e :: L) k) as [[w t]|x| |]; auto.
  destruct Hp as (f' & E & HR'). exists f'. split; [exact E|]. split; assumption.
Qed.

Theorem fjb_run_eq_ajb_run min ops : fjb_run min ops = ajb_run min ops.
Proof.
  unfold fjb_run, ajb_run. apply (jb_run_simg fast_ops RFv).
  - intros q L [H _]. apply RF_len. exact H.
  - intros q L sq [H _]. apply RF_find. exact H.
  - intros q L p prio [H Hv]. destruct (RF_push q L (Some p) prio H) as (q' & E & H').
    exists q'. split; [exact E|]. split; [exact H'|]. apply aq_push_vals; [exact Hv|discriminate].
  - intros q L k H. apply RFv_popat. exact H.
  - intros q L _. exists fq_new. split; [reflexivity|]. split; [apply RF_new|constructor].
  - unfold RJg, fjb_new, ajb_new, jb_new. cbn. repeat split; auto. apply sorted_nil.
Qed.

Theorem fjb_run_eq_cjb_run min ops : fjb_run min ops = cjb_run min ops.
Proof. rewrite fjb_run_eq_ajb_run. symmetry. apply cjb_run_eq_ajb_run. Qed.

(* ================= the exported queue driven directly ================= *)
Theorem fq_run_refines : forall ops f L nid, RF f L -> fq_run f nid ops = aq_run L nid ops.
Proof.
  induction ops as [|o ops IH]; intros f L nid H; [reflexivity|].
  destruct o; cbn [fq_run aq_run].
  - destruct (RF_push f L (Some (mkPkt nid sq ts)) prio H) as (f' & -> & H'). f_equal. apply IH. exact H'.
  - rewrite (RF_find f L sq H). destruct (aq_find L sq); try reflexivity; f_equal; apply IH; exact H.
  - pose proof (RF_pop f L H) as Hp. destruct (aq_pop L) as [[w t]|e| |].
    + destruct Hp as (f' & -> & H'). f_equal. apply IH. exact H'.
    + rewrite Hp. f_equal. apply IH. exact H.
    + rewrite Hp. reflexivity.
    + rewrite Hp. reflexivity.
  - pose proof (RF_popat f L (KSeq sq) H) as Hp. destruct (aq_popat L (KSeq sq)) as [[w t]|e| |].
    + destruct Hp as (f' & -> & H'). f_equal. apply IH. exact H'.
    + rewrite Hp. f_equal. apply IH. exact H.
    + rewrite Hp. reflexivity.
    + rewrite Hp. reflexivity.
  - pose proof (RF_popat f L (KTs ts) H) as Hp. destruct (aq_popat L (KTs ts)) as [[w t]|e| |].
    + destruct Hp as (f' & -> & H'). f_equal. apply IH. exact H'.
    + rewrite Hp. f_equal. apply IH. exact H.
    + rewrite Hp. reflexivity.
    + rewrite Hp. reflexivity.
  - cbn [fq_clear]. f_equal. apply IH. apply RF_new.
  - rewrite (RF_len f L H). f_equal. apply IH. exact H.
Qed.

Theorem fq_run_eq_aq_run ops : fq_run fq_new 0 ops = aq_run [] 0 ops.
Proof. apply fq_run_refines. apply RF_new. Qed.

Theorem fq_run_eq_pq_run ops : fq_run fq_new 0 ops = pq_run pq_new 0 ops.
Proof. rewrite fq_run_eq_aq_run. symmetry. apply pq_run_eq_aq_run. Qed.

Theorem fq_run_eq_both ops :
  fq_run fq_new 0 ops = aq_run [] 0 ops /\ fq_run fq_new 0 ops = pq_run pq_new 0 ops.
Proof. split; [apply fq_run_eq_aq_run|apply fq_run_eq_pq_run]. Qed.

Theorem RF_all f L : RF f L ->
  (forall v prio, exists f', fq_push f v prio = Ok f' /\ RF f' (aq_push L v prio)) /\
  (forall sq, fq_find f sq = aq_find L sq) /\
  (forall k, match aq_popat L k with
             | Ok (w, t) => exists f', fq_popat f k = Ok (w, f') /\ RF f' t
             | Err e => fq_popat f k = Err e
             | Panic => fq_popat f k = Panic
             | Diverge => fq_popat f k = Diverge
             end) /\
  (exists f', fq_clear f = Ok f' /\ RF f' []) /\
  fn f = u16 (Z.of_nat (length L)).
Proof.
  intros H. split; [intros v prio; apply RF_push; exact H|].
  split; [intros sq; apply RF_find; exact H|].
  split; [intros k; apply RF_popat; exact H|].
  split; [eapply RF_clear; exact H|apply RF_len; exact H].
Qed.

(* ================= the count-carrying oracle is the oracle ================= *)
Lemma sp_step_fast_eq t o r :
  sp_step_fast t (blen t) o r =
  match sp_step t o r with inl t' => inl (t', blen t') | inr c => inr c end.
Proof.
  destruct o; try reflexivity.
  cbn [sp_step_fast sp_step].
  assert (E : Z.of_nat (length (mkPkt (snext t) sq ts :: sbuf t)) = blen t + 1).
  { unfold blen. cbn [length]. rewrite Nat2Z.inj_succ. lia. }
  rewrite E. destruct r; cbn [expect_unit]; try reflexivity.
  f_equal. f_equal. unfold blen. cbn [sbuf length]. rewrite Nat2Z.inj_succ. lia.
Qed.

Theorem sp_run_fast_eq : forall ops outs t, sp_run_fast t (blen t) ops outs = sp_run t ops outs.
Proof.
  induction ops as [|o ops IH]; intros outs t; destruct outs as [|[r ev] outs]; try reflexivity.
  cbn [sp_run_fast sp_run]. rewrite sp_step_fast_eq.
  destruct (sp_step t o r) as [t'|c]; [apply IH|reflexivity].
Qed.

Theorem jbl_spec_code_eq min lops louts :
  jbl_spec_code (min, lops, louts) = jb_spec_code (min, expand_ops lops, expand_runs louts).
Proof. unfold jbl_spec_code, jb_spec_code. apply (sp_run_fast_eq _ _ (sp_new min)). Qed.

(* the model's own outputs on a long history are accepted by both long checkers *)
Lemma list_eqb_refl {A} (eqb : A -> A -> bool) : (forall x, eqb x x = true) -> forall l, list_eqb eqb l l = true.
Proof. intros H. induction l as [|x l IH]; [reflexivity|]. cbn [list_eqb]. rewrite H, IH. reflexivity. Qed.

Lemma outev_eqb_refl x : outev_eqb x x = true.
Proof.
  destruct x as [r ev]. unfold outev_eqb. cbn [fst snd].
  rewrite (list_eqb_refl Z.eqb Z.eqb_refl).
  destruct r; cbn [out_eqb]; rewrite ?Z.eqb_refl; reflexivity.
Qed.

Theorem long_model_accepted min lops louts : 0 <= min < 65536 ->
  expand_runs louts = fjb_run min (expand_ops lops) ->
  jbl_model_ok (min, lops, louts) = true /\ jbl_spec_code (min, lops, louts) = 0%nat.
Proof.
  intros Hm E. split.
  - unfold jbl_model_ok. rewrite E. apply list_eqb_refl. apply outev_eqb_refl.
  - rewrite jbl_spec_code_eq, E, fjb_run_eq_cjb_run. apply cjb_run_spec. exact Hm.
Qed.
