(* C07 round-3 strengthening: the ZERO-PRODUCT corner of the RTP-time extrapolation
       lastRTPTimeRTP + uint32(now.Sub(lastRTPTimeTime).Seconds() * clockRate).
   A stream bound with clock rate 0 ("all clock rates" includes it: StreamInfo.ClockRate
   is 0 until the codec parameters are known), or a report taken at the reference instant
   itself, advances the reference timestamp by EXACTLY 0: in binary64 x * 0.0 = +-0.0 for
   every finite x and uint32(+-0.0) = 0, so there is no float tolerance in this corner.
   Float layer, history level, interceptor level, and the oracle's code 7. *)
From IV Require Import Base.Word Base.F64 Base.KMap Model.Ntp Model.SenderStream Spec.SenderSpec
  Proofs.NtpFloatProofs Proofs.SenderStreamProofs Proofs.SenderInterceptorProofs
  Proofs.ReportFloatProofs Proofs.ReportFloatMore Proofs.SenderMore Check.C07Check.
From Coq Require Import ZArith Reals Lia Lra ZifyBool.
From Flocq Require Import Core.Core.
Ltac Zify.zify_post_hook ::= Z.div_mod_to_equations.

(* ---------- float layer ---------- *)
Open Scope R_scope.

Lemma rnd64_0 : rnd64 0 = 0.
Proof. unfold rnd64. apply round_0. auto with typeclass_instances. Qed.

Lemma prodR_rate0 d : prodR d 0 = 0.
Proof. unfold prodR. rewrite Rmult_0_r. apply rnd64_0. Qed.

Lemma secR_0 : secR 0 = 0.
Proof.
  unfold secR, fracR.
  change (0 mod 1000000000)%Z with 0%Z. change (0 / 1000000000)%Z with 0%Z.
  replace (0 / 1000000000) with 0 by lra. rewrite rnd64_0, Rplus_0_r. apply rnd64_0.
Qed.

Lemma prodR_d0 rate : prodR 0 rate = 0.
Proof. unfold prodR. rewrite secR_0, Rmult_0_l. apply rnd64_0. Qed.

Lemma Zfloor_0 : Zfloor 0 = 0%Z.
Proof. exact (Zfloor_IZR 0). Qed.

Open Scope Z_scope.

Lemma ticks_rate0 d : 0 <= d < 9223372036854775808 -> elapsed_ticks d 0 = 0.
Proof. intros Hd. rewrite ticks_floor by lia. rewrite prodR_rate0. exact Zfloor_0. Qed.

Lemma ticks_d0 rate : 0 <= rate < 4294967296 -> elapsed_ticks 0 rate = 0.
Proof. intros Hr. rewrite ticks_floor by lia. rewrite prodR_d0. exact Zfloor_0. Qed.

(* clock rate 0: the kernel is 0 for EVERY Duration except the saturated MinDur, either sign *)
Theorem elapsed_kernel_rate0 d : - MaxDur <= d <= MaxDur -> elapsed_kernel d 0 = 0.
Proof.
  unfold MaxDur. intros Hd.
  destruct (Z_lt_le_dec d 0) as [N|P].
  - replace d with (- (- d)) by lia.
    rewrite elapsed_kernel_neg by (unfold MaxDur; rewrite ?Z.mul_0_r; lia).
    rewrite ticks_rate0 by lia. reflexivity.
  - rewrite kernel_ticks by (rewrite ?Z.mul_0_r; lia).
    rewrite ticks_rate0 by lia. reflexivity.
Qed.

(* elapsed time 0 (report at the reference instant): the kernel is 0 for every uint32 rate *)
Theorem elapsed_kernel_d0 rate : 0 <= rate < 4294967296 -> elapsed_kernel 0 rate = 0.
Proof.
  intros Hr. rewrite kernel_ticks by (rewrite ?Z.mul_0_l; lia).
  rewrite ticks_d0 by lia. reflexivity.
Qed.

Lemma elapsed_kernel_zero_product d rate :
  - MaxDur <= d <= MaxDur -> 0 <= rate < 4294967296 -> rate = 0 \/ d = 0 ->
  elapsed_kernel d rate = 0.
Proof.
  intros Hd Hr [E|E]; subst.
  - apply elapsed_kernel_rate0; assumption.
  - apply elapsed_kernel_d0; assumption.
Qed.

Example elapsed_kernel_rate0_nonvacuous :
  elapsed_kernel 2000000000 0 = 0 /\ elapsed_kernel (-2000000000) 0 = 0 /\
  elapsed_kernel 9223372036854775807 0 = 0 /\ elapsed_kernel 0 4294967295 = 0 /\
  elapsed_kernel 2000000000 90000 = 180000.
Proof. vm_compute. repeat split; reflexivity. Qed.

(* ---------- history level ---------- *)
Lemma dur_sub_in_range now t : - MaxDur <= now - t <= MaxDur -> dur_sub now t = now - t.
Proof.
  unfold dur_sub, MinDur, MaxDur. intros H.
  destruct (now - t <? _) eqn:?; [lia|]. destruct (_ <? now - t) eqn:?; lia.
Qed.

Lemma sp_report_zero_product k1 rate ul h now ts t :
  0 <= rate < 4294967296 ->
  sp_ref (sp_accepted ul [] h) = Some (ts, t) ->
  - MaxDur <= now - t <= MaxDur ->
  rate = 0 \/ now = t ->
  let '(_, rtp, _, _) := sp_report elapsed_kernel k1 rate ul h now in
  rtp = ts mod 4294967296.
Proof.
  intros Hr Href Hd Hz. unfold sp_report. rewrite Href.
  rewrite dur_sub_in_range by assumption.
  rewrite elapsed_kernel_zero_product by (auto; lia).
  rewrite Z.mod_0_l by lia. rewrite Z.add_0_r. reflexivity.
Qed.

(* after every send history whose reference is (ts, t): a stream with clock rate 0 reports
   RTP time = ts at ANY instant (within +-292 years of t), and a stream with any rate
   reports ts at the reference instant itself - exactly, no tolerance *)
Theorem rtp_time_zero_product k1 rate ul h now ts t :
  0 <= rate < 4294967296 ->
  sp_ref (sp_accepted ul [] h) = Some (ts, t) ->
  - MaxDur <= now - t <= MaxDur ->
  rate = 0 \/ now = t ->
  let '(_, rtp, _, _) := s_report elapsed_kernel k1 rate (s_final elapsed_kernel k1 rate ul s_init h) now in
  rtp = ts mod 4294967296.
Proof. intros Hr Href Hd Hz. rewrite report_after. exact (sp_report_zero_product k1 rate ul h now ts t Hr Href Hd Hz). Qed.

(* the demonstration shape of the missed change, on the model: three packets with timestamp
   5000, a report 2 s later: clock rate 0 -> 5000, clock rate 8000 -> 21000 *)
Example rtp_time_rate_zero_nonvacuous :
  s_run elapsed_kernel ntp_kernel 0 false s_init
    [SRtp 1700000000000000000 100 5000 10; SRtp 1700000000000000000 101 5000 20;
     SRtp 1700000000000000000 102 5000 30; SRep 1700000002000000000]
  = [(to_ntp ntp_kernel 1700000002000000000, 5000, 3, 60)] /\
  s_run elapsed_kernel ntp_kernel 8000 false s_init
    [SRtp 1700000000000000000 100 5000 10; SRtp 1700000000000000000 101 5000 20;
     SRtp 1700000000000000000 102 5000 30; SRep 1700000002000000000]
  = [(to_ntp ntp_kernel 1700000002000000000, 21000, 3, 60)].
Proof. vm_compute. split; reflexivity. Qed.

(* ---------- interceptor level ---------- *)
(* a tick after any sequence of binds / unbinds / writes / ticks: the report of an SSRC whose
   LATEST bind carried clock rate 0 has RTP time = the reference timestamp of its own history
   (the clock rate handed to BindLocalStream is the one the report is extrapolated with -
   nothing else, no default) *)
Theorem interceptor_rate_zero k1 ul ops now s rep h ts t :
  In (s, rep) (snd (si_step elapsed_kernel k1 ul (si_final elapsed_kernel k1 ul [] ops) (SITick now))) ->
  fold_left (trackh s) ops None = Some (0, h) ->
  sp_ref (sp_accepted ul [] h) = Some (ts, t) ->
  - MaxDur <= now - t <= MaxDur ->
  let '(_, rtp, _, _) := rep in rtp = ts mod 4294967296.
Proof.
  intros Hin Hh Href Hd.
  apply tick_reports in Hin. destruct Hin as (rate & h' & Hh' & ->).
  rewrite Hh in Hh'. inversion Hh'; subst rate h'.
  apply (sp_report_zero_product k1 0 ul h now ts t); auto. lia.
Qed.

(* two streams on one interceptor, the demonstration of the missed change: SSRC 1 bound with
   clock rate 0, SSRC 2 with 8000, same packets, one tick 2 s later *)
Example interceptor_rate_zero_nonvacuous :
  si_run elapsed_kernel ntp_kernel false []
    [SIBind 1 0; SIBind 2 8000;
     SIWrite 1 1700000000000000000 100 5000 10; SIWrite 2 1700000000000000000 100 5000 10;
     SITick 1700000002000000000]
  = [[(1, (to_ntp ntp_kernel 1700000002000000000, 5000, 1, 10));
      (2, (to_ntp ntp_kernel 1700000002000000000, 21000, 1, 10))]].
Proof. vm_compute. reflexivity. Qed.

(* ---------- the oracle's code 7 ---------- *)
(* code 7 is exactly the Prop-level clause (oracle <-> specification, no model involved) *)
Lemma rtp_zero_okb_iff rate now rtp ts t :
  - MaxDur <= now - t <= MaxDur -> rate = 0 \/ now = t ->
  (rtp_zero_okb rate (Some (ts, t)) now rtp = true <-> rtp mod 4294967296 = ts mod 4294967296).
Proof.
  intros Hd Hz. unfold rtp_zero_okb. cbv zeta.
  replace ((- MaxDur <=? now - t) && (now - t <=? MaxDur) && ((rate =? 0) || (now - t =? 0))) with true
    by (unfold MaxDur in *; lia).
  rewrite Z.eqb_eq. split; intros H; lia.
Qed.

Lemma report_code3_rtp rate ul h now ntp rtp pc oc ts t :
  report_code3 rate ul h now (ntp, rtp, pc, oc) = 0%nat ->
  sp_ref (sp_accepted ul [] h) = Some (ts, t) ->
  - MaxDur <= now - t <= MaxDur -> rate = 0 \/ now = t ->
  rtp mod 4294967296 = ts mod 4294967296.
Proof.
  intros H Href Hd Hz. unfold report_code3 in H.
  destruct (report_code2 rate ul h now (ntp, rtp, pc, oc)); [|discriminate].
  rewrite Href in H.
  destruct (rtp_zero_okb rate (Some (ts, t)) now rtp) eqn:E; [|discriminate].
  apply (rtp_zero_okb_iff rate now rtp ts t Hd Hz). exact E.
Qed.

(* the extended oracle asks no more than the theorems give: for ANY kernels within the
   tolerances of C07_oracle_not_stronger_any_clock that in addition return 0 on a zero
   product, the specified report passes codes 1..4, 6, 7 after every history *)
Section OracleSound3.
  Variable ek : Z -> Z -> Z.
  Variable k1 : Z -> Z * Z.
  Variable rate : Z.
  Variable ul : bool.
  Hypothesis rate_nonneg : 0 <= rate.
  Hypothesis ek_accurate : forall d, 0 <= d <= MaxDur -> d * rate / 1000000000 < 4611686018427387904 ->
    exists e, Z.abs e <= 1 + (d * rate / 1000000000) / 1125899906842624 /\
              ek d rate = (d * rate / 1000000000 + e) mod 4294967296.
  Hypothesis ek_accurate_neg : forall d, 0 < d <= MaxDur -> d * rate / 1000000000 < 4611686018427387904 ->
    exists e, Z.abs e <= 1 + (d * rate / 1000000000) / 1125899906842624 /\
              ek (- d) rate = (- (d * rate / 1000000000) + e) mod 4294967296.
  Hypothesis ek_zero : forall d, - MaxDur <= d <= MaxDur -> rate = 0 \/ d = 0 -> ek d rate = 0.
  Hypothesis k1_accurate : forall now, 0 <= now < 2085978496 * 1000000000 ->
    Z.abs (to_ntp k1 now - ntp_exact now) <= 8192.

  Lemma model_passes_oracle3 h now :
    report_code3 rate ul h now (sp_report ek k1 rate ul h now) = 0%nat.
  Proof.
    unfold report_code3.
    rewrite (model_passes_oracle2 ek k1 rate ul rate_nonneg ek_accurate ek_accurate_neg k1_accurate h now).
    unfold sp_report.
    destruct (sp_ref (sp_accepted ul [] h)) as [[ts t]|] eqn:E; [|reflexivity].
    unfold rtp_zero_okb. cbv zeta.
    destruct ((- MaxDur <=? now - t) && (now - t <=? MaxDur) && ((rate =? 0) || (now - t =? 0))) eqn:B;
      [|reflexivity].
    rewrite dur_sub_in_range by (unfold MaxDur in *; lia).
    rewrite ek_zero by (unfold MaxDur in *; lia).
    rewrite Z.mod_0_l by lia. rewrite Z.add_0_r.
    replace ((ts mod 4294967296 - ts) mod 4294967296 =? 0) with true by lia.
    reflexivity.
  Qed.
End OracleSound3.

(* for the EXECUTABLE RTP-time kernel all three kernel hypotheses are theorems *)
Theorem exec_model_passes_oracle3 k1 rate ul : 0 <= rate < 4294967296 ->
  (forall now, 0 <= now < 2085978496 * 1000000000 -> Z.abs (to_ntp k1 now - ntp_exact now) <= 8192) ->
  forall h now, report_code3 rate ul h now (sp_report elapsed_kernel k1 rate ul h now) = 0%nat.
Proof.
  intros Hr Hk h now. apply model_passes_oracle3; auto. lia.
  apply exec_ek_accurate; assumption. apply exec_ek_accurate_neg; assumption.
  intros d Hd Hz. apply elapsed_kernel_zero_product; assumption.
Qed.

(* DETECTABILITY of a wrong clock rate in the wiring: a report extrapolated at r' ticks per
   second where the stream was bound with rate 0 fails the oracle as soon as the exact advance
   elapsed * r' / 1e9 is non-zero modulo 2^32 - stated on the report value: anything but the
   reference timestamp is rejected with code 4, 6 or 7 *)
Theorem oracle_rejects_advance_at_rate_zero ul h now ntp rtp pc oc ts t :
  sp_ref (sp_accepted ul [] h) = Some (ts, t) ->
  - MaxDur <= now - t <= MaxDur ->
  rtp mod 4294967296 <> ts mod 4294967296 ->
  report_code3 0 ul h now (ntp, rtp, pc, oc) <> 0%nat.
Proof.
  intros Href Hd Hne H. apply Hne.
  apply (report_code3_rtp 0 ul h now ntp rtp pc oc ts t H Href Hd). left. reflexivity.
Qed.
