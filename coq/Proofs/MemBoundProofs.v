(* C12 - invariants of the size models (Model/MemBound.v): bounds that hold
   after every operation history, by induction over the operation list. *)
From IV Require Import Base.Word Model.Unwrapper Model.MemBound.
From Coq Require Import ZifyBool.
Ltac Zify.zify_post_hook ::= Z.div_mod_to_equations.
Open Scope Z_scope.

(* ---------- generic list facts ---------- *)
Lemma zlen_cons {A} (x : A) l : zlen (x :: l) = zlen l + 1.
Proof. unfold zlen. cbn [length]. lia. Qed.
Lemma zlen_nonneg {A} (l : list A) : 0 <= zlen l.
Proof. unfold zlen. lia. Qed.
Lemma zlen_nil {A} : zlen (@nil A) = 0.
Proof. reflexivity. Qed.

Lemma memZ_In x l : memZ x l = true <-> In x l.
Proof.
  unfold memZ. rewrite existsb_exists. split.
  - intros [y [Hy He]]. apply Z.eqb_eq in He. now subst.
  - intros H. exists x. split; [assumption|apply Z.eqb_refl].
Qed.
Lemma memZ_false x l : memZ x l = false <-> ~ In x l.
Proof. rewrite <- memZ_In. destruct (memZ x l); split; congruence. Qed.

Lemma remove1_length x l : In x l -> zlen (remove1 x l) = zlen l - 1.
Proof.
  induction l as [|y t IH]; cbn [remove1 In]; [tauto|].
  intros H. destruct (y =? x) eqn:E.
  - rewrite zlen_cons. lia.
  - apply Z.eqb_neq in E. destruct H as [H|H]; [congruence|].
    rewrite !zlen_cons, IH by assumption. lia.
Qed.
Lemma remove1_incl x l : incl (remove1 x l) l.
Proof.
  induction l as [|y t IH]; cbn [remove1]; [apply incl_refl|].
  destruct (y =? x); [apply incl_tl, incl_refl|].
  intros z [Hz|Hz]; [left; assumption|right; apply IH; assumption].
Qed.
Lemma removelast_length {A} (l : list A) : l <> [] -> zlen (removelast l) = zlen l - 1.
Proof.
  induction l as [|x t IH]; [congruence|]. intros _. destruct t as [|y t'].
  - reflexivity.
  - change (removelast (x :: y :: t')) with (x :: removelast (y :: t')).
    rewrite !zlen_cons, IH by congruence. rewrite zlen_cons. lia.
Qed.

Lemma filter_length_le {A} (f : A -> bool) l : zlen (filter f l) <= zlen l.
Proof.
  induction l as [|x t IH]; cbn [filter]; [lia|].
  destruct (f x); rewrite ?zlen_cons; lia.
Qed.
Lemma delset_length_le x l : zlen (delset x l) <= zlen l.
Proof. apply filter_length_le. Qed.
Lemma delset_In y x l : In y (delset x l) <-> In y l /\ y <> x.
Proof.
  unfold delset. rewrite filter_In. rewrite negb_true_iff, Z.eqb_neq. tauto.
Qed.
Lemma delset_NoDup x l : NoDup l -> NoDup (delset x l).
Proof. apply NoDup_filter. Qed.
Lemma addset_In y x l : In y (addset x l) <-> y = x \/ In y l.
Proof.
  unfold addset. destruct (memZ x l) eqn:E.
  - apply memZ_In in E. split; [tauto|]. intros [->|H]; assumption.
  - cbn [In]. split; intros [H|H]; auto.
Qed.
Lemma addset_NoDup x l : NoDup l -> NoDup (addset x l).
Proof.
  unfold addset. destruct (memZ x l) eqn:E; [tauto|].
  apply memZ_false in E. intros H. constructor; assumption.
Qed.
Lemma addset_length_le x l : zlen (addset x l) <= zlen l + 1.
Proof. unfold addset. destruct (memZ x l); rewrite ?zlen_cons; lia. Qed.

(* a duplicate-free list of integers drawn from [a, a+n) has at most n elements *)
Lemma NoDup_range_length l a n :
  NoDup l -> (forall x, In x l -> a <= x < a + n) -> zlen l <= Z.max n 0.
Proof.
  intros Hnd Hr.
  assert (Hincl : incl l (zrange a (Z.to_nat n))).
  { intros x Hx. apply zrange_In. specialize (Hr x Hx). lia. }
  pose proof (NoDup_incl_length Hnd Hincl) as H. rewrite zrange_length in H.
  unfold zlen. lia.
Qed.
Lemma NoDup_incl_zlen (l m : list Z) : NoDup l -> incl l m -> zlen l <= zlen m.
Proof. intros H1 H2. pose proof (NoDup_incl_length H1 H2). unfold zlen. lia. Qed.

(* ====================================================================== *)
(* 1. fixed bitmaps *)
Lemma rl_run size ops : fold_left rl_step ops (rl_init size) = size / 64.
Proof. unfold rl_init. generalize (size / 64). induction ops; cbn; auto. Qed.
Lemma rs_run ops : fold_left rs_step ops rs_init = 128.
Proof. unfold rs_init. generalize 128. induction ops; cbn; auto. Qed.

(* ====================================================================== *)
(* 5. LRU *)
Lemma lru_add_bound cap l key : 0 <= cap -> zlen l <= cap -> zlen (lru_add cap l key) <= cap.
Proof.
  intros Hc Hl. unfold lru_add. destruct (memZ key l) eqn:E.
  - apply memZ_In in E. rewrite zlen_cons, remove1_length by assumption. lia.
  - destruct (zlen (key :: l) >? cap) eqn:G.
    + rewrite removelast_length by congruence. rewrite zlen_cons in *. lia.
    + lia.
Qed.
Lemma lru_bounded cap keys : 0 <= cap -> zlen (fold_left (lru_add cap) keys []) <= cap.
Proof.
  intros Hc. assert (H : zlen (@nil Z) <= cap) by (rewrite zlen_nil; lia).
  revert H. generalize (@nil Z). induction keys as [|k t IH]; cbn [fold_left]; intros l Hl; [assumption|].
  apply IH. apply lru_add_bound; assumption.
Qed.

(* ====================================================================== *)
(* 4. arrival-time map: capacity is 0 (not allocated) or one of 128..32768 *)
Definition pow2cap (c : Z) : Prop :=
  c = 128 \/ c = 256 \/ c = 512 \/ c = 1024 \/ c = 2048 \/ c = 4096 \/ c = 8192 \/ c = 16384 \/ c = 32768.
Lemma am_grow_ok fuel c n : pow2cap c -> n <= 32768 -> pow2cap (am_grow fuel c n).
Proof.
  revert c. induction fuel as [|f IH]; intros c Hc Hn; cbn [am_grow]; [assumption|].
  destruct (c <? n) eqn:E; [|assumption]. apply IH; [|assumption].
  unfold pow2cap in *. lia.
Qed.
Lemma am_shrink_ok fuel c n : pow2cap c -> pow2cap (am_shrink fuel c n).
Proof.
  revert c. induction fuel as [|f IH]; intros c Hc; cbn [am_shrink]; [assumption|].
  destruct (c >=? 2 * Z.max n 128) eqn:E; [|assumption]. apply IH.
  unfold pow2cap in *. lia.
Qed.
Lemma am_adjust_ok c n : pow2cap c -> n <= 32768 -> pow2cap (am_adjust c n).
Proof.
  intros Hc Hn. unfold am_adjust.
  assert (H1 : pow2cap (if n >? c then am_grow 64 c n else c)).
  { destruct (n >? c); [apply am_grow_ok|]; assumption. }
  destruct (_ >? Z.max 128 (4 * n)); [apply am_shrink_ok|]; assumption.
Qed.
Definition am_inv (st : am) : Prop :=
  (am_cap st = 0 /\ am_begin st = am_end st) \/
  (pow2cap (am_cap st) /\ 0 <= am_end st - am_begin st <= 32768).
Lemma am_skip_range fuel st b checkTo limit :
  b <= checkTo \/ fuel = O -> b <= am_skip fuel st b checkTo limit <= Z.max b checkTo.
Proof.
  revert b. induction fuel as [|f IH]; intros b Hb; cbn [am_skip]; [lia|].
  destruct ((b <? checkTo) && _) eqn:E; [|lia].
  apply andb_true_iff in E. destruct E as [E _]. apply Z.ltb_lt in E.
  specialize (IH (b + 1)). lia.
Qed.
Lemma am_step_inv st o : am_inv st -> am_inv (am_step st o).
Proof.
  intros H. destruct o as [s t|s|s l]; cbn [am_step].
  - unfold am_add. destruct (am_cap st =? 0) eqn:E0.
    + right. cbn. unfold pow2cap. lia.
    + apply Z.eqb_neq in E0. destruct H as [[H _]|[Hc Hr]]; [congruence|].
      destruct ((am_begin st <=? s) && (s <? am_end st)) eqn:E1; [right; cbn; tauto|].
      destruct (s <? am_begin st) eqn:E2.
      * destruct (am_end st - s >? 32768) eqn:E3; [right; tauto|].
        right. cbn. split; [apply am_adjust_ok; [assumption|lia]|lia].
      * destruct (s + 1 >=? am_end st + 32768) eqn:E3; [right; cbn; split; [assumption|lia]|].
        destruct (am_begin st <? s + 1 - 32768) eqn:E4; right; cbn;
          (split; [apply am_adjust_ok; [assumption|lia]|lia]).
  - unfold am_erase. destruct (s <? am_begin st) eqn:E1; [assumption|].
    destruct (s >=? am_end st) eqn:E2.
    + destruct H as [[H1 H2]|[Hc Hr]]; [left|right]; cbn; split; try assumption; lia.
    + destruct H as [[H1 H2]|[Hc Hr]]; [lia|].
      right. cbn. split; [apply am_adjust_ok; [assumption|lia]|lia].
  - unfold am_remove_old.
    set (checkTo := Z.min s (am_end st)).
    set (b' := am_skip _ st (am_begin st) checkTo l).
    assert (Hb : am_begin st <= b' <= Z.max (am_begin st) checkTo).
    { apply am_skip_range. destruct (Z_le_gt_dec (am_begin st) checkTo); [left; assumption|right].
      destruct (checkTo - am_begin st) eqn:E; cbn; try reflexivity; lia. }
    destruct H as [[H1 H2]|[Hc Hr]].
    + left. cbn. unfold am_adjust. rewrite H1. subst checkTo.
      assert (b' = am_end st) by lia. rewrite H. replace (am_end st - am_end st) with 0 by lia.
      cbn. split; [reflexivity|reflexivity].
    + right. cbn. subst checkTo. split; [apply am_adjust_ok; [assumption|lia]|lia].
Qed.
Lemma am_run_inv ops : am_inv (fold_left am_step ops am_init).
Proof.
  assert (H : am_inv am_init) by (left; cbn; split; reflexivity).
  revert H. generalize am_init. induction ops as [|o t IH]; cbn [fold_left]; intros st H; [assumption|].
  apply IH, am_step_inv, H.
Qed.
Lemma am_bounded ops : am_cap (fold_left am_step ops am_init) <= 32768.
Proof.
  destruct (am_run_inv ops) as [[H _]|[H _]]; [lia|]. unfold pow2cap in H. lia.
Qed.

(* ====================================================================== *)
(* 7. stats report lists *)
Lemma sr_push_bound m n : 0 <= m -> n <= m -> sr_push m n <= m.
Proof. intros. unfold sr_push. destruct (n + 1 >? m) eqn:E; lia. Qed.
Lemma sr_step_bound m st o : 0 <= m -> fst st <= m /\ snd st <= m ->
  fst (sr_step m st o) <= m /\ snd (sr_step m st o) <= m.
Proof.
  intros Hm [H1 H2]. destruct o as [|k]; cbn [sr_step fst snd].
  - split; [apply sr_push_bound; assumption|assumption].
  - split; [assumption|]. revert H2. generalize (snd st). generalize (seq 0 (Z.to_nat k)).
    induction l as [|x t IH]; cbn [fold_left]; intros n Hn; [assumption|].
    apply IH, sr_push_bound; assumption.
Qed.
Lemma sr_bounded m ops : 0 <= m ->
  let st := fold_left (sr_step m) ops (0, 0) in fst st <= m /\ snd st <= m.
Proof.
  intros Hm. cbv zeta. assert (H : fst (0, 0) <= m /\ snd (0, 0) <= m) by (cbn; lia).
  revert H. generalize (0, 0). induction ops as [|o t IH]; cbn [fold_left]; intros st H; [assumption|].
  apply IH, sr_step_bound; assumption.
Qed.

(* ====================================================================== *)
(* 11. FIFO queues without admission limit: n packets queued and nothing released => n entries *)
Lemma fq_enq_only n st : fold_left fq_step (repeat FqEnq n) st = st + Z.of_nat n.
Proof.
  revert st. induction n as [|n IH]; intros st; cbn [repeat fold_left]; [lia|].
  rewrite IH. cbn [fq_step]. lia.
Qed.
Lemma fq_nonneg ops st : 0 <= st -> 0 <= fold_left fq_step ops st.
Proof.
  revert st. induction ops as [|o t IH]; intros st H; cbn [fold_left]; [assumption|].
  apply IH. destruct o; cbn [fq_step]; lia.
Qed.
