(* C12 - invariants of the size models (Model/MemBound.v): bounds that hold
   after every operation history, by induction over the operation list. *)
From IV Require Import Base.Word Model.Unwrapper Model.MemBound.
From Coq Require Import ZifyBool.
Ltac Zify.zify_post_hook ::= Z.div_mod_to_equations.
Open Scope Z_scope.

(* ---------- generic list facts ---------- *)
Lemma zlen_cons {A} (x : A) l : zlen (x :: l) = zlen l + 1.
Proof. unfold zlen. cbn [length]. lia. Qed.
Lemma zlen_nonneg {A} (l : list A) : 0 <= zlen l.
Proof. unfold zlen. lia. Qed.
Lemma zlen_nil {A} : zlen (@nil A) = 0.
Proof. reflexivity. Qed.

Lemma memZ_In x l : memZ x l = true <-> In x l.
Proof.
  unfold memZ. rewrite existsb_exists. split.
  - intros [y [Hy He]]. apply Z.eqb_eq in He. now subst.
  - intros H. exists x. split; [assumption|apply Z.eqb_refl].
Qed.
Lemma memZ_false x l : memZ x l = false <-> ~ In x l.
Proof. rewrite <- memZ_In. destruct (memZ x l); split; congruence. Qed.

Lemma remove1_length x l : In x l -> zlen (remove1 x l) = zlen l - 1.
Proof.
  induction l as [|y t IH]; cbn [remove1 In]; [tauto|].
  intros H. destruct (y =? x) eqn:E.
  - rewrite zlen_cons. lia.
  - apply Z.eqb_neq in E. destruct H as [H|H]; [congruence|].
    rewrite !zlen_cons, IH by assumption. lia.
Qed.
Lemma remove1_incl x l : incl (remove1 x l) l.
Proof.
  induction l as [|y t IH]; cbn [remove1]; [apply incl_refl|].
  destruct (y =? x); [apply incl_tl, incl_refl|].
  intros z [Hz|Hz]; [left; assumption|right; apply IH; assumption].
Qed.
Lemma removelast_length {A} (l : list A) : l <> [] -> zlen (removelast l) = zlen l - 1.
Proof.
  induction l as [|x t IH]; [congruence|]. intros _. destruct t as [|y t'].
  - reflexivity.
  - change (removelast (x :: y :: t')) with (x :: removelast (y :: t')).
    rewrite !zlen_cons, IH by congruence. rewrite zlen_cons. lia.
Qed.

Lemma filter_length_le {A} (f : A -> bool) l : zlen (filter f l) <= zlen l.
Proof.
  induction l as [|x t IH]; cbn [filter]; [lia|].
  destruct (f x); rewrite ?zlen_cons; lia.
Qed.
Lemma delset_length_le x l : zlen (delset x l) <= zlen l.
Proof. apply filter_length_le. Qed.
Lemma delset_In y x l : In y (delset x l) <-> In y l /\ y <> x.
Proof.
  unfold delset. rewrite filter_In. rewrite negb_true_iff, Z.eqb_neq. tauto.
Qed.
Lemma delset_NoDup x l : NoDup l -> NoDup (delset x l).
Proof. apply NoDup_filter. Qed.
Lemma addset_In y x l : In y (addset x l) <-> y = x \/ In y l.
Proof.
  unfold addset. destruct (memZ x l) eqn:E.
  - apply memZ_In in E. split; [tauto|]. intros [->|H]; assumption.
  - cbn [In]. split; intros [H|H]; auto.
Qed.
Lemma addset_NoDup x l : NoDup l -> NoDup (addset x l).
Proof.
  unfold addset. destruct (memZ x l) eqn:E; [tauto|].
  apply memZ_false in E. intros H. constructor; assumption.
Qed.
Lemma addset_length_le x l : zlen (addset x l) <= zlen l + 1.
Proof. unfold addset. destruct (memZ x l); rewrite ?zlen_cons; lia. Qed.

(* a duplicate-free list of integers drawn from [a, a+n) has at most n elements *)
Lemma NoDup_range_length l a n :
  NoDup l -> (forall x, In x l -> a <= x < a + n) -> zlen l <= Z.max n 0.
Proof.
  intros Hnd Hr.
  assert (Hincl : incl l (zrange a (Z.to_nat n))).
  { intros x Hx. apply zrange_In. specialize (Hr x Hx). lia. }
  pose proof (NoDup_incl_length Hnd Hincl) as H. rewrite zrange_length in H.
  unfold zlen. lia.
Qed.
Lemma NoDup_incl_zlen (l m : list Z) : NoDup l -> incl l m -> zlen l <= zlen m.
Proof. intros H1 H2. pose proof (NoDup_incl_length H1 H2). unfold zlen. lia. Qed.

(* ====================================================================== *)
(* 1. fixed bitmaps *)
Lemma rl_run size ops : fold_left rl_step ops (rl_init size) = size / 64.
Proof. unfold rl_init. generalize (size / 64). induction ops; cbn; auto. Qed.
Lemma rs_run ops : fold_left rs_step ops rs_init = 128.
Proof. unfold rs_init. generalize 128. induction ops; cbn; auto. Qed.

(* ====================================================================== *)
(* 5. LRU *)
Lemma lru_add_bound cap l key : 0 <= cap -> zlen l <= cap -> zlen (lru_add cap l key) <= cap.
Proof.
  intros Hc Hl. unfold lru_add. destruct (memZ key l) eqn:E.
  - apply memZ_In in E. rewrite zlen_cons, remove1_length by assumption. lia.
  - destruct (zlen (key :: l) >? cap) eqn:G.
    + rewrite removelast_length by congruence. rewrite zlen_cons in *. lia.
    + lia.
Qed.
Lemma lru_bounded cap keys : 0 <= cap -> zlen (fold_left (lru_add cap) keys []) <= cap.
Proof.
  intros Hc. assert (H : zlen (@nil Z) <= cap) by (rewrite zlen_nil; lia).
  revert H. generalize (@nil Z). induction keys as [|k t IH]; cbn [fold_left]; intros l Hl; [assumption|].
  apply IH. apply lru_add_bound; assumption.
Qed.

(* ====================================================================== *)
(* 4. arrival-time map: capacity is 0 (not allocated) or one of 128..32768 *)
Definition pow2cap (c : Z) : Prop :=
  c = 128 \/ c = 256 \/ c = 512 \/ c = 1024 \/ c = 2048 \/ c = 4096 \/ c = 8192 \/ c = 16384 \/ c = 32768.
Lemma am_grow_ok fuel c n : pow2cap c -> n <= 32768 -> pow2cap (am_grow fuel c n).
Proof.
  revert c. induction fuel as [|f IH]; intros c Hc Hn; cbn [am_grow]; [assumption|].
  destruct (c <? n) eqn:E; [|assumption]. apply IH; [|assumption].
  unfold pow2cap in *. lia.
Qed.
Lemma am_shrink_ok fuel c n : pow2cap c -> pow2cap (am_shrink fuel c n).
Proof.
  revert c. induction fuel as [|f IH]; intros c Hc; cbn [am_shrink]; [assumption|].
  destruct (c >=? 2 * Z.max n 128) eqn:E; [|assumption]. apply IH.
  unfold pow2cap in *. lia.
Qed.
Lemma am_adjust_ok c n : pow2cap c -> n <= 32768 -> pow2cap (am_adjust c n).
Proof.
  intros Hc Hn. unfold am_adjust.
  assert (H1 : pow2cap (if n >? c then am_grow 64 c n else c)).
  { destruct (n >? c); [apply am_grow_ok|]; assumption. }
  destruct (_ >? Z.max 128 (4 * n)); [apply am_shrink_ok|]; assumption.
Qed.
Definition am_inv (st : am) : Prop :=
  (am_cap st = 0 /\ am_begin st = am_end st) \/
  (pow2cap (am_cap st) /\ 0 <= am_end st - am_begin st <= 32768).
Lemma am_skip_range fuel st b checkTo limit :
  b <= checkTo \/ fuel = O -> b <= am_skip fuel st b checkTo limit <= Z.max b checkTo.
Proof.
  revert b. induction fuel as [|f IH]; intros b Hb; cbn [am_skip]; [lia|].
  destruct ((b <? checkTo) && _) eqn:E; [|lia].
  apply andb_true_iff in E. destruct E as [E _]. apply Z.ltb_lt in E.
  specialize (IH (b + 1)). lia.
Qed.
Lemma am_step_inv st o : am_inv st -> am_inv (am_step st o).
Proof.
  intros H. destruct o as [s t|s|s l]; cbn [am_step].
  - unfold am_add. destruct (am_cap st =? 0) eqn:E0.
    + right. cbn. unfold pow2cap. lia.
    + apply Z.eqb_neq in E0. destruct H as [[H _]|[Hc Hr]]; [congruence|].
      destruct ((am_begin st <=? s) && (s <? am_end st)) eqn:E1; [right; cbn; tauto|].
      destruct (s <? am_begin st) eqn:E2.
      * destruct (am_end st - s >? 32768) eqn:E3; [right; tauto|].
        right. cbn. split; [apply am_adjust_ok; [assumption|lia]|lia].
      * destruct (s + 1 >=? am_end st + 32768) eqn:E3; [right; cbn; split; [assumption|lia]|].
        destruct (am_begin st <? s + 1 - 32768) eqn:E4; right; cbn;
          (split; [apply am_adjust_ok; [assumption|lia]|lia]).
  - unfold am_erase. destruct (s <? am_begin st) eqn:E1; [assumption|].
    destruct (s >=? am_end st) eqn:E2.
    + destruct H as [[H1 H2]|[Hc Hr]]; [left|right]; cbn; split; try assumption; lia.
    + destruct H as [[H1 H2]|[Hc Hr]]; [lia|].
      right. cbn. split; [apply am_adjust_ok; [assumption|lia]|lia].
  - unfold am_remove_old.
    set (checkTo := Z.min s (am_end st)).
    set (b' := am_skip _ st (am_begin st) checkTo l).
    assert (Hb : am_begin st <= b' <= Z.max (am_begin st) checkTo).
    { apply am_skip_range. destruct (Z_le_gt_dec (am_begin st) checkTo); [left; assumption|right].
      destruct (checkTo - am_begin st) eqn:E; cbn; try reflexivity; lia. }
    destruct H as [[H1 H2]|[Hc Hr]].
    + left. cbn. unfold am_adjust. rewrite H1. subst checkTo.
      assert (b' = am_end st) by lia. rewrite H. replace (am_end st - am_end st) with 0 by lia.
      cbn. split; [reflexivity|reflexivity].
    + right. cbn. subst checkTo. split; [apply am_adjust_ok; [assumption|lia]|lia].
Qed.
Lemma am_run_inv ops : am_inv (fold_left am_step ops am_init).
Proof.
  assert (H : am_inv am_init) by (left; cbn; split; reflexivity).
  revert H. generalize am_init. induction ops as [|o t IH]; cbn [fold_left]; intros st H; [assumption|].
  apply IH, am_step_inv, H.
Qed.
Lemma am_bounded ops : am_cap (fold_left am_step ops am_init) <= 32768.
Proof.
  destruct (am_run_inv ops) as [[H _]|[H _]]; [lia|]. unfold pow2cap in H. lia.
Qed.

(* ====================================================================== *)
(* 7. stats report lists *)
Lemma sr_push_bound m n : 0 <= m -> n <= m -> sr_push m n <= m.
Proof. intros. unfold sr_push. destruct (n + 1 >? m) eqn:E; lia. Qed.
Lemma sr_step_bound m st o : 0 <= m -> fst st <= m /\ snd st <= m ->
  fst (sr_step m st o) <= m /\ snd (sr_step m st o) <= m.
Proof.
  intros Hm [H1 H2]. destruct o as [|k]; cbn [sr_step fst snd].
  - split; [apply sr_push_bound; assumption|assumption].
  - split; [assumption|]. revert H2. generalize (snd st). generalize (seq 0 (Z.to_nat k)).
    induction l as [|x t IH]; cbn [fold_left]; intros n Hn; [assumption|].
    apply IH, sr_push_bound; assumption.
Qed.
Lemma sr_bounded m ops : 0 <= m ->
  let st := fold_left (sr_step m) ops (0, 0) in fst st <= m /\ snd st <= m.
Proof.
  intros Hm. cbv zeta. assert (H : fst (0, 0) <= m /\ snd (0, 0) <= m) by (cbn; lia).
  revert H. generalize (0, 0). induction ops as [|o t IH]; cbn [fold_left]; intros st H; [assumption|].
  apply IH, sr_step_bound; assumption.
Qed.

(* ====================================================================== *)
(* 11. FIFO queues without admission limit: n packets queued and nothing released => n entries *)
Lemma fq_enq_only n st : fold_left fq_step (repeat FqEnq n) st = st + Z.of_nat n.
Proof.
  revert st. induction n as [|n IH]; intros st; cbn [repeat fold_left]; [lia|].
  rewrite IH. cbn [fq_step]. lia.
Qed.
Lemma fq_nonneg ops st : 0 <= st -> 0 <= fold_left fq_step ops st.
Proof.
  revert st. induction ops as [|o t IH]; intros st H; cbn [fold_left]; [assumption|].
  apply IH. destruct o; cbn [fq_step]; lia.
Qed.

(* ====================================================================== *)
(* association-list facts *)
Lemma aget_In_keys {A} k (l : list (Z * A)) v : aget k l = Some v -> In k (akeys l).
Proof.
  induction l as [|[k' v'] t IH]; cbn [aget akeys map fst In]; [discriminate|].
  destruct (k' =? k) eqn:E; [apply Z.eqb_eq in E; auto|]. intros H. right. apply IH, H.
Qed.
Lemma aget_None_keys {A} k (l : list (Z * A)) : aget k l = None -> ~ In k (akeys l).
Proof.
  induction l as [|[k' v'] t IH]; cbn [aget akeys map fst In]; [tauto|].
  destruct (k' =? k) eqn:E; [discriminate|]. apply Z.eqb_neq in E. intros H [H1|H1]; [congruence|].
  apply (IH H H1).
Qed.
Lemma akeys_adel {A} c (l : list (Z * A)) k : In k (akeys (adel c l)) <-> In k (akeys l) /\ k <> c.
Proof.
  unfold adel, akeys. induction l as [|[k' v'] t IH]; cbn [filter map fst In]; [tauto|].
  destruct (k' =? c) eqn:E; cbn [negb].
  - apply Z.eqb_eq in E. rewrite IH. split; [tauto|]. intros [[H|H] H2]; [congruence|tauto].
  - apply Z.eqb_neq in E. cbn [map fst In]. rewrite IH. split; [|tauto].
    intros [H|H]; [subst; tauto|tauto].
Qed.
Lemma akeys_adel_NoDup {A} c (l : list (Z * A)) : NoDup (akeys l) -> NoDup (akeys (adel c l)).
Proof.
  unfold adel, akeys. induction l as [|[k' v'] t IH]; cbn [filter map fst]; [tauto|].
  intros H. inversion H as [|? ? Hn Hd]; subst. destruct (negb (k' =? c)); [|apply IH, Hd].
  cbn [map fst]. constructor; [|apply IH, Hd].
  intros Hin. apply Hn. clear -Hin. induction t as [|[a b] t IH]; cbn [filter map fst In] in *; [tauto|].
  destruct (negb (a =? c)); cbn [map fst In] in *; tauto.
Qed.
Lemma adel_length_le {A} c (l : list (Z * A)) : zlen (adel c l) <= zlen l.
Proof. apply filter_length_le. Qed.
Lemma akeys_aset {A} c (v : A) l k : In k (akeys (aset c v l)) <-> k = c \/ In k (akeys l).
Proof.
  unfold akeys. induction l as [|[k' v'] t IH]; cbn [aset map fst In]; [intuition|].
  destruct (k' =? c) eqn:E; cbn [map fst In].
  - apply Z.eqb_eq in E. subst. intuition.
  - rewrite IH. intuition.
Qed.
Lemma akeys_aset_NoDup {A} c (v : A) l : NoDup (akeys l) -> NoDup (akeys (aset c v l)).
Proof.
  unfold akeys. induction l as [|[k' v'] t IH]; cbn [aset map fst]; intros H.
  - constructor; [cbn; tauto|constructor].
  - inversion H as [|? ? Hn Hd]; subst. destruct (k' =? c) eqn:E; cbn [map fst].
    + apply Z.eqb_eq in E. subst. constructor; assumption.
    + apply Z.eqb_neq in E. constructor; [|apply IH, Hd].
      intros Hin. apply (akeys_aset c v t k') in Hin. destruct Hin as [Hin|Hin]; [congruence|].
      apply Hn, Hin.
Qed.
Lemma aset_length {A} c (v : A) l : zlen (aset c v l) = if memZ c (akeys l) then zlen l else zlen l + 1.
Proof.
  unfold akeys. induction l as [|[k' v'] t IH]; cbn [aset map fst]; [reflexivity|].
  unfold memZ in *. cbn [existsb]. rewrite (Z.eqb_sym c k'). destruct (k' =? c) eqn:E; cbn [orb].
  - rewrite !zlen_cons. reflexivity.
  - rewrite !zlen_cons, IH. destruct (existsb (Z.eqb c) (map fst t)); lia.
Qed.
Lemma aget_aset {A} k c (v : A) l : aget k (aset c v l) = if c =? k then Some v else aget k l.
Proof.
  induction l as [|[k' v'] t IH]; cbn [aset aget]; [reflexivity|].
  destruct (k' =? c) eqn:E; cbn [aget].
  - apply Z.eqb_eq in E. subst. destruct (c =? k); reflexivity.
  - rewrite IH. destruct (k' =? k) eqn:E2; [|reflexivity].
    apply Z.eqb_eq in E2. subst. rewrite Z.eqb_sym, E. reflexivity.
Qed.
Lemma aget_adel {A} k c (l : list (Z * A)) : aget k (adel c l) = if c =? k then None else aget k l.
Proof.
  unfold adel. induction l as [|[k' v'] t IH]; cbn [filter aget fst]; [destruct (c =? k); reflexivity|].
  destruct (k' =? c) eqn:E; cbn [negb aget].
  - apply Z.eqb_eq in E. subst. rewrite IH. destruct (c =? k); reflexivity.
  - rewrite IH. destruct (k' =? k) eqn:E2; [|reflexivity].
    apply Z.eqb_eq in E2. subst. rewrite Z.eqb_sym, E. reflexivity.
Qed.

(* ====================================================================== *)
(* 8. jitter-buffer interceptor *)
Definition jb_pop_ok (st : jb) (s : Z) : bool :=
  let head := if negb (jb_ready st) && (zlen (jb_q st) =? 0) then s else jb_head st in
  let q1 := s :: jb_q st in
  let em := jb_emitting st || ((zlen q1 >=? jb_min st) && negb (jb_emitting st)) in
  if em then memZ head q1 else true.
Fixpoint jb_all_ok (st : jb) (l : list Z) : bool :=
  match l with [] => true | s :: t => jb_pop_ok st s && jb_all_ok (jb_read st s) t end.
Lemma jb_read_min st s : jb_min (jb_read st s) = jb_min st.
Proof. unfold jb_read. repeat match goal with |- context [if ?c then _ else _] => destruct c end; reflexivity. Qed.
Lemma jb_read_ok_bound st s : jb_pop_ok st s = true -> zlen (jb_q st) < jb_min st ->
  zlen (jb_q (jb_read st s)) < jb_min st.
Proof.
  unfold jb_pop_ok, jb_read. intros Hok Hlt.
  set (head := if negb (jb_ready st) && (zlen (jb_q st) =? 0) then s else jb_head st) in *.
  destruct (jb_emitting st) eqn:Em; cbn [orb negb andb] in *.
  - rewrite Hok. cbn [jb_q]. apply memZ_In in Hok. rewrite remove1_length by assumption. rewrite zlen_cons. lia.
  - rewrite andb_true_r in *. destruct (zlen (s :: jb_q st) >=? jb_min st) eqn:G.
    + rewrite Hok. cbn [jb_q]. apply memZ_In in Hok. rewrite remove1_length by assumption. rewrite zlen_cons. lia.
    + cbn [jb_q]. lia.
Qed.
Lemma jb_bounded_ok l : forall st, jb_all_ok st l = true -> zlen (jb_q st) < jb_min st ->
  zlen (jb_q (fold_left jb_read l st)) < jb_min st.
Proof.
  induction l as [|s t IH]; intros st Hok Hlt; cbn [fold_left]; [assumption|].
  cbn [jb_all_ok] in Hok. apply andb_true_iff in Hok. destruct Hok as [H1 H2].
  rewrite <- (jb_read_min st s). apply IH; [assumption|]. rewrite jb_read_min. apply jb_read_ok_bound; assumption.
Qed.
Lemma jb_stuck l : forall st, jb_emitting st = true -> jb_ready st = true -> ~ In (jb_head st) (jb_q st) ->
  (forall s, In s l -> s <> jb_head st) ->
  zlen (jb_q (fold_left jb_read l st)) = zlen (jb_q st) + zlen l.
Proof.
  induction l as [|s t IH]; intros st Em Rd Hn Hl; cbn [fold_left]; [rewrite zlen_nil; lia|].
  assert (Hs : s <> jb_head st) by (apply Hl; left; reflexivity).
  assert (E : jb_read st s = {| jb_q := s :: jb_q st; jb_emitting := true; jb_ready := true;
                               jb_head := jb_head st; jb_min := jb_min st |}).
  { unfold jb_read. rewrite Em, Rd. cbn [negb andb orb].
    assert (M : memZ (jb_head st) (s :: jb_q st) = false).
    { apply memZ_false. intros [H|H]; [congruence|tauto]. }
    rewrite M. reflexivity. }
  rewrite E. rewrite IH; cbn [jb_q jb_emitting jb_ready jb_head]; try reflexivity.
  - rewrite !zlen_cons. lia.
  - intros [H|H]; [congruence|tauto].
  - intros x Hx. apply Hl. right. assumption.
Qed.

(* ====================================================================== *)
(* 2. rtp buffer *)
Definition rb_inv (st : rb) : Prop := NoDup (rb_occ st) /\ forall q, In q (rb_occ st) -> 0 <= q < rb_size st.
Lemma rb_add_size st s : rb_size (rb_add st s) = rb_size st.
Proof. unfold rb_add. repeat match goal with |- context [if ?c then _ else _] => destruct c end; reflexivity. Qed.
Lemma rb_add_inv st s : 0 < rb_size st -> rb_inv st -> rb_inv (rb_add st s).
Proof.
  intros Hs [Hn Hr].
  assert (Hset : forall occ, NoDup occ -> (forall q, In q occ -> 0 <= q < rb_size st) ->
             NoDup (addset (s mod rb_size st) occ) /\
             (forall q, In q (addset (s mod rb_size st) occ) -> 0 <= q < rb_size st)).
  { intros occ H1 H2. split; [apply addset_NoDup, H1|]. intros q Hq. apply addset_In in Hq.
    destruct Hq as [->|Hq]; [apply Z.mod_pos_bound; assumption|apply H2, Hq]. }
  unfold rb_add. destruct (negb (rb_started st)); [apply Hset; assumption|].
  destruct (sub16 s (rb_highest st) =? 0); [split; assumption|].
  destruct (sub16 s (rb_highest st) <? 32768).
  - unfold rb_inv; cbn [rb_occ rb_size]. apply Hset.
    + destruct (_ =? 1); [assumption|apply NoDup_filter, Hn].
    + intros q Hq. destruct (_ =? 1); [apply Hr, Hq|]. apply filter_In in Hq. apply Hr, Hq.
  - destruct (sub16 (rb_highest st) s >=? rb_size st); [split; assumption|].
    unfold rb_inv; cbn [rb_occ rb_size]. apply Hset; assumption.
Qed.
Lemma rb_bounded size seqs : 0 < size ->
  zlen (rb_occ (fold_left rb_add seqs (rb_init size))) <= size.
Proof.
  intros Hs.
  assert (H : rb_inv (rb_init size) /\ rb_size (rb_init size) = size).
  { split; [split; [constructor|cbn; tauto]|reflexivity]. }
  revert H. generalize (rb_init size). induction seqs as [|s t IH]; cbn [fold_left]; intros st [Hi Hz].
  - destruct Hi as [Hn Hr]. rewrite Hz in Hr. pose proof (NoDup_range_length _ 0 size Hn Hr). lia.
  - apply IH. split; [apply rb_add_inv; [lia|assumption]|rewrite rb_add_size; assumption].
Qed.

(* ====================================================================== *)
(* 6. rfc8888 stream log *)
Definition sl_inv (st : sl) : Prop :=
  NoDup (sl_keys st) /\ forall k, In k (sl_keys st) -> sl_init st = true /\ sl_next st <= k <= sl_last st.
Lemma sl_add_inv st s : sl_inv st -> sl_inv (sl_add st s).
Proof.
  intros [Hn Hr]. unfold sl_add. destruct (unwrap (sl_uw st) s) as [uw u].
  set (next := if sl_init st then sl_next st else u).
  destruct (u <? next) eqn:E.
  - split; cbn [sl_keys sl_next sl_last sl_init]; [assumption|]. intros k Hk. specialize (Hr k Hk).
    subst next. destruct Hr as [Hi Hr]. rewrite Hi in *. split; [reflexivity|lia].
  - split; cbn [sl_keys sl_next sl_last sl_init]; [apply addset_NoDup, Hn|]. intros k Hk. apply addset_In in Hk.
    subst next. split; [reflexivity|]. destruct Hk as [->|Hk].
    + destruct (sl_last st <? u) eqn:G; destruct (sl_init st); lia.
    + specialize (Hr k Hk). destruct Hr as [Hi Hr]. rewrite Hi in *. destruct (sl_last st <? u) eqn:G; lia.
Qed.
Lemma sl_add_growth st s : zlen (sl_keys (sl_add st s)) <= zlen (sl_keys st) + 1.
Proof.
  unfold sl_add. destruct (unwrap (sl_uw st) s) as [uw u]. destruct (u <? _); cbn [sl_keys]; [lia|].
  apply addset_length_le.
Qed.
Lemma sl_advance_ok fuel : forall next keys last,
  NoDup keys -> (forall k, In k keys -> next <= k <= last) ->
  let r := sl_advance fuel next keys in
  NoDup (snd r) /\ (forall k, In k (snd r) -> fst r <= k <= last) /\ zlen (snd r) <= zlen keys.
Proof.
  induction fuel as [|f IH]; intros next keys last Hn Hr; cbn [sl_advance]; cbv zeta.
  - cbn [fst snd]. repeat split; try assumption; try apply Hr; try assumption; lia.
  - destruct (memZ next keys) eqn:E.
    + specialize (IH (next + 1) (delset next keys) last (delset_NoDup _ _ Hn)).
      cbv zeta in IH. destruct IH as [H1 [H2 H3]].
      { intros k Hk. apply delset_In in Hk. destruct Hk as [Hk Hne]. specialize (Hr k Hk). lia. }
      repeat split; try assumption; try apply H2; try assumption.
      pose proof (delset_length_le next keys). lia.
    + cbn [fst snd]. repeat split; try assumption; try apply Hr; try assumption; lia.
Qed.
Lemma sl_report_inv st m : sl_inv st -> sl_inv (sl_report st m) /\ zlen (sl_keys (sl_report st m)) <= zlen (sl_keys st).
Proof.
  intros [Hn Hr]. unfold sl_report. destruct (sl_keys st) as [|k0 kt] eqn:Ek; [split; [split; rewrite ?Ek; assumption|rewrite Ek; lia]|].
  assert (Hi : sl_init st = true) by (apply (Hr k0); left; reflexivity).
  rewrite <- Ek in *. clear Ek k0 kt.
  assert (Hr' : forall k, In k (sl_keys st) -> sl_next st <= k <= sl_last st) by (intros k Hk; apply Hr, Hk).
  destruct (sl_last st - sl_next st + 1 >? m) eqn:G.
  - set (nn := sl_last st - m + 1).
    set (keys1 := filter (fun k => negb (k <? nn)) (sl_keys st)).
    pose proof (sl_advance_ok (S (length keys1)) nn keys1 (sl_last st)) as A. cbv zeta in A.
    destruct (sl_advance (S (length keys1)) nn keys1) as [next2 keys2]. cbn [fst snd] in A.
    destruct A as [A1 [A2 A3]].
    { apply NoDup_filter, Hn. }
    { intros k Hk. apply filter_In in Hk. destruct Hk as [Hk Hge]. specialize (Hr' k Hk). lia. }
    split; [split; cbn [sl_keys sl_next sl_last sl_init]; [assumption|intros k Hk; split; [assumption|apply A2, Hk]]|].
    cbn [sl_keys].
    pose proof (filter_length_le (fun k => negb (k <? nn)) (sl_keys st)). fold keys1 in H. lia.
  - pose proof (sl_advance_ok (S (length (sl_keys st))) (sl_next st) (sl_keys st) (sl_last st) Hn Hr') as A.
    cbv zeta in A. destruct (sl_advance _ _ _) as [next2 keys2]. cbn [fst snd] in A. destruct A as [A1 [A2 A3]].
    split; [split; cbn [sl_keys sl_next sl_last sl_init]; [assumption|intros k Hk; split; [assumption|apply A2, Hk]]|].
    cbn [sl_keys]. assumption.
Qed.
Lemma sl_report_bound st m : sl_inv st -> zlen (sl_keys (sl_report st m)) <= Z.max m 0.
Proof.
  intros [Hn Hr]. unfold sl_report. destruct (sl_keys st) as [|k0 kt] eqn:Ek; [rewrite Ek, zlen_nil; lia|].
  rewrite <- Ek in *. clear Ek k0 kt.
  assert (Hr' : forall k, In k (sl_keys st) -> sl_next st <= k <= sl_last st) by (intros k Hk; apply Hr, Hk).
  destruct (sl_last st - sl_next st + 1 >? m) eqn:G.
  - set (nn := sl_last st - m + 1).
    set (keys1 := filter (fun k => negb (k <? nn)) (sl_keys st)).
    assert (B1 : NoDup keys1) by (apply NoDup_filter, Hn).
    assert (B2 : forall k, In k keys1 -> nn <= k < nn + m).
    { intros k Hk. apply filter_In in Hk. destruct Hk as [Hk Hge]. specialize (Hr' k Hk). lia. }
    pose proof (NoDup_range_length keys1 nn m B1 B2) as B3.
    pose proof (sl_advance_ok (S (length keys1)) nn keys1 (sl_last st) B1) as A. cbv zeta in A.
    destruct (sl_advance (S (length keys1)) nn keys1) as [next2 keys2]. cbn [fst snd] in A.
    destruct A as [A1 [A2 A3]].
    { intros k Hk. specialize (B2 k Hk). lia. }
    cbn [sl_keys]. lia.
  - pose proof (sl_advance_ok (S (length (sl_keys st))) (sl_next st) (sl_keys st) (sl_last st) Hn Hr') as A.
    cbv zeta in A. destruct (sl_advance _ _ _) as [next2 keys2]. cbn [fst snd] in A. destruct A as [A1 [A2 A3]].
    cbn [sl_keys].
    assert (B2 : forall k, In k (sl_keys st) -> sl_next st <= k < sl_next st + (sl_last st - sl_next st + 1)).
    { intros k Hk. specialize (Hr' k Hk). lia. }
    pose proof (NoDup_range_length _ _ _ Hn B2). lia.
Qed.
Lemma sl_run_inv ops : sl_inv (fold_left sl_step ops sl_init_st).
Proof.
  assert (H : sl_inv sl_init_st) by (split; [constructor|cbn; tauto]).
  revert H. generalize sl_init_st. induction ops as [|o t IH]; cbn [fold_left]; intros st H; [assumption|].
  apply IH. destruct o; cbn [sl_step]; [apply sl_add_inv, H|apply sl_report_inv, H].
Qed.

(* ====================================================================== *)
(* 9. stats interceptor. Before fix 0d520bf (si_step_prefix) Unbind did not remove the recorder *)
Fixpoint si_churn (a : Z) (n : nat) : list si_op :=
  match n with O => [] | S k => SiBind a :: SiUnbind a :: si_churn (a + 1) k end.
Lemma si_churn_grows n : forall a st, (forall k, In k (si_recorders st) -> k < a) ->
  si_bound st = [] ->
  let st' := fold_left si_step_prefix (si_churn a n) st in
  zlen (si_recorders st') = zlen (si_recorders st) + Z.of_nat n /\ si_bound st' = [].
Proof.
  induction n as [|n IH]; intros a st Hlt Hb; cbn [si_churn fold_left]; cbv zeta; [split; [lia|assumption]|].
  cbn [si_step_prefix si_bound si_recorders].
  match goal with |- context [fold_left si_step_prefix _ ?x] => set (st1 := x) end.
  assert (Hm : memZ a (si_recorders st) = false).
  { apply memZ_false. intros H. specialize (Hlt a H). lia. }
  assert (Hb1 : si_bound st1 = []).
  { subst st1. cbn [si_bound]. rewrite Hb. unfold addset, delset. cbn. rewrite Z.eqb_refl. reflexivity. }
  assert (Hr1 : forall k, In k (si_recorders st1) -> k < a + 1).
  { subst st1. cbn [si_recorders]. intros k Hk. apply addset_In in Hk.
    destruct Hk as [->|Hk]; [lia|]. specialize (Hlt k Hk). lia. }
  destruct (IH (a + 1) st1 Hr1 Hb1) as [I1 I2]. split; [|assumption].
  rewrite I1. subst st1. cbn [si_recorders]. unfold addset. rewrite Hm, zlen_cons. lia.
Qed.

(* the code as it is now (releaseRecorder): the recorders are exactly the bound streams *)
Lemma si_run_eq ops : forall st, si_recorders st = si_bound st ->
  si_recorders (fold_left si_step ops st) = si_bound (fold_left si_step ops st).
Proof.
  induction ops as [|o t IH]; intros st H; cbn [fold_left]; [assumption|].
  apply IH. destruct o; cbn [si_step si_recorders si_bound]; rewrite H; reflexivity.
Qed.
Lemma si_run_NoDup ops : forall st, NoDup (si_recorders st) -> NoDup (si_recorders (fold_left si_step ops st)).
Proof.
  induction ops as [|o t IH]; intros st H; cbn [fold_left]; [assumption|].
  apply IH. destruct o; cbn [si_step si_recorders]; [apply addset_NoDup, H|apply delset_NoDup, H].
Qed.
Lemma si_unbind_releases st s : ~ In s (si_recorders (si_step st (SiUnbind s))).
Proof. cbn [si_step si_recorders]. intros H. apply delset_In in H. tauto. Qed.
(* churn on the fixed code: n streams bound and unbound again leave nothing *)
Lemma si_churn_releases n : forall a st, si_recorders st = [] -> si_bound st = [] ->
  let st' := fold_left si_step (si_churn a n) st in si_recorders st' = [] /\ si_bound st' = [].
Proof.
  induction n as [|n IH]; intros a st Hr Hb; cbn [si_churn fold_left]; cbv zeta; [split; assumption|].
  apply IH; cbn [si_step si_bound si_recorders]; [rewrite Hr|rewrite Hb];
    unfold addset, delset; cbn; rewrite Z.eqb_refl; reflexivity.
Qed.

(* ====================================================================== *)
(* 9b. flexfec encoder *)
Definition ff_inv (numMedia : Z) (st : list (Z * Z)) : Prop := forall s b, aget s st = Some b -> 0 <= b < numMedia.
Lemma ff_step_inv numMedia st o : 1 <= numMedia -> ff_inv numMedia st -> ff_inv numMedia (ff_step numMedia st o).
Proof.
  intros Hm H. destruct o as [s|s|s]; cbn [ff_step]; intros k b.
  - rewrite aget_aset. destruct (s =? k); [intros E; inversion E; lia|apply H].
  - rewrite aget_adel. destruct (s =? k); [discriminate|apply H].
  - destruct (aget s st) as [b0|] eqn:E; [|apply H].
    rewrite aget_aset. destruct (s =? k); [|apply H]. specialize (H s b0 E).
    intros E2. inversion E2. destruct (b0 + 1 =? numMedia) eqn:G; lia.
Qed.
Lemma ff_bounded numMedia ops : 1 <= numMedia -> ff_inv numMedia (fold_left (ff_step numMedia) ops []).
Proof.
  intros Hm. assert (H : ff_inv numMedia []) by (intros s b; cbn; discriminate).
  revert H. generalize (@nil (Z * Z)). induction ops as [|o t IH]; cbn [fold_left]; intros st H; [assumption|].
  apply IH, ff_step_inv; assumption.
Qed.
Lemma ff_zero_grows n : forall st s b, aget s st = Some b -> 0 <= b ->
  aget s (fold_left (ff_step 0) (repeat (FfWrite s) n) st) = Some (b + Z.of_nat n).
Proof.
  induction n as [|n IH]; intros st s b E Hb; cbn [repeat fold_left]; [rewrite E; f_equal; lia|].
  cbn [ff_step]. rewrite E. destruct (b + 1 =? 0) eqn:G; [lia|].
  rewrite (IH _ s (b + 1)); [f_equal; lia| |lia]. rewrite aget_aset, Z.eqb_refl. reflexivity.
Qed.

(* ====================================================================== *)
(* 12. rtpfb history: every packet record has a counter in [nextReport, counter) *)
Definition h_inv (st : hist) : Prop :=
  NoDup (akeys (h_packets st)) /\ (forall k, In k (akeys (h_packets st)) -> h_next st <= k < h_counter st) /\
  h_next st <= h_counter st.
(* weaker invariant used inside buildReport's loop: records below the scan position are gone *)
Definition h_scan (lo : Z) (st : hist) : Prop :=
  NoDup (akeys (h_packets st)) /\ (forall k, In k (akeys (h_packets st)) -> lo <= k < h_counter st) /\
  h_next st <= lo /\ h_next st <= h_counter st.
Lemma h_delete_keys st c p k : In k (akeys (h_packets (h_delete st c p))) <-> In k (akeys (h_packets st)) /\ k <> c.
Proof. cbn [h_delete h_packets]. apply akeys_adel. Qed.
Lemma h_report_one_scan st i : h_scan i st -> h_scan (i + 1) (h_report_one st i).
Proof.
  intros [Hn [Hr [Hl Hc]]]. unfold h_report_one. destruct (aget i (h_packets st)) as [p|] eqn:E.
  - pose proof (aget_In_keys _ _ _ E) as Hin. specialize (Hr i Hin) as Hi.
    assert (Hd : h_scan (i + 1) (h_set_next (h_delete st i p) (i + 1))).
    { split; [|split; [|split]]; cbn [h_set_next h_delete h_packets h_next h_counter].
      - apply akeys_adel_NoDup, Hn.
      - intros k Hk. apply akeys_adel in Hk. destruct Hk as [Hk Hne]. specialize (Hr k Hk). lia.
      - lia.
      - lia. }
    cbn [h_delete h_next] in *. destruct (i >=? h_next st) eqn:G; [exact Hd|lia].
  - pose proof (aget_None_keys _ _ E) as Hnin.
    split; [assumption|split; [|split; [lia|assumption]]].
    intros k Hk. specialize (Hr k Hk). assert (k <> i) by (intros ->; tauto). lia.
Qed.
Lemma h_report_scan n : forall i st, h_scan i st ->
  h_scan (i + Z.of_nat n) (fold_left h_report_one (zrange i n) st).
Proof.
  induction n as [|n IH]; intros i st H; cbn [zrange fold_left].
  - replace (i + Z.of_nat 0) with i by lia. assumption.
  - replace (i + Z.of_nat (S n)) with (i + 1 + Z.of_nat n) by lia. apply IH, h_report_one_scan, H.
Qed.
Lemma h_clean_one_inv st i : h_inv st -> h_inv (h_clean_one st i).
Proof.
  intros [Hn [Hr Hc]]. unfold h_clean_one. destruct (aget i (h_packets st)) as [p|]; [|split; [assumption|split; assumption]].
  split; [|split]; cbn [h_delete h_packets h_next h_counter].
  - apply akeys_adel_NoDup, Hn.
  - intros k Hk. apply akeys_adel in Hk. apply Hr, Hk.
  - assumption.
Qed.
Lemma h_clean_fold l : forall st, h_inv st -> h_inv (fold_left h_clean_one l st).
Proof. induction l as [|i t IH]; intros st H; cbn [fold_left]; [assumption|]. apply IH, h_clean_one_inv, H. Qed.
Lemma h_report_inv st : h_inv st -> h_inv (h_report st).
Proof.
  intros H. unfold h_report. destruct (negb (h_acked st) || (h_next st >? h_hi st)) eqn:G; [assumption|].
  destruct H as [Hn [Hr Hc]].
  assert (S0 : h_scan (h_next st) st).
  { split; [assumption|split; [intros k Hk; apply Hr, Hk|split; [lia|assumption]]]. }
  pose proof (h_report_scan (Z.to_nat (h_hi st - h_next st + 1)) _ _ S0) as S1.
  set (st1 := fold_left h_report_one _ st) in *. destruct S1 as [A1 [A2 [A3 A4]]].
  assert (I1 : h_inv st1).
  { split; [assumption|split; [|assumption]]. intros k Hk. specialize (A2 k Hk). lia. }
  pose proof (h_clean_fold (zrange (h_clean st1) (Z.to_nat (h_next st1 - h_clean st1))) st1 I1) as I2.
  destruct I2 as [B1 [B2 B3]]. repeat split; cbn [h_set_clean h_packets h_next h_counter]; try assumption; apply B2; assumption.
Qed.
Lemma h_step_inv b st o : h_inv st -> h_inv (h_step b st o).
Proof.
  intros H. destruct o as [ssrc sq isTw tw|tw arrived|ssrc sq arrived|]; cbn [h_step].
  - destruct H as [Hn [Hr Hc]]. split; [|split]; cbn [h_add h_packets h_next h_counter].
    + apply akeys_aset_NoDup, Hn.
    + intros k Hk. apply akeys_aset in Hk. destruct Hk as [->|Hk]; [lia|]. specialize (Hr k Hk). lia.
    + lia.
  - destruct (aget tw (h_tw st)); [|assumption]. unfold h_on_feedback.
    destruct (aget z (h_packets st)); [|assumption]. destruct (arrived && _); assumption.
  - destruct (aget (sskey ssrc sq) (h_ss st)); [|assumption]. unfold h_on_feedback.
    destruct (aget z (h_packets st)); [|assumption]. destruct (arrived && _); assumption.
  - apply h_report_inv, H.
Qed.
Lemma h_run_inv b ops : h_inv (fold_left (h_step b) ops h_init).
Proof.
  assert (H : h_inv h_init) by (split; [constructor|split; [cbn; tauto|cbn; lia]]).
  revert H. generalize h_init. induction ops as [|o t IH]; cbn [fold_left]; intros st H; [assumption|].
  apply IH, h_step_inv, H.
Qed.
Lemma h_bounded b ops : let st := fold_left (h_step b) ops h_init in
  zlen (h_packets st) <= h_counter st - h_next st.
Proof.
  cbv zeta. destruct (h_run_inv b ops) as [Hn [Hr Hc]].
  set (st := fold_left (h_step b) ops h_init) in *.
  assert (Hr' : forall k, In k (akeys (h_packets st)) -> h_next st <= k < h_next st + (h_counter st - h_next st)).
  { intros k Hk. specialize (Hr k Hk). lia. }
  pose proof (NoDup_range_length _ _ _ Hn Hr'). unfold akeys, zlen in *. rewrite map_length in H. lia.
Qed.
(* without feedback every sent packet stays *)
Lemma h_no_feedback b n : forall st, h_inv st ->
  let st' := fold_left (h_step b) (repeat (HAdd 1 0 false 0) n) st in
  zlen (h_packets st') = zlen (h_packets st) + Z.of_nat n.
Proof.
  induction n as [|n IH]; intros st H; cbn [repeat fold_left]; cbv zeta; [lia|].
  pose proof (h_step_inv b st (HAdd 1 0 false 0) H) as H1. specialize (IH _ H1). cbv zeta in IH. rewrite IH.
  cbn [h_step h_add h_packets]. rewrite aset_length.
  destruct H as [Hn [Hr Hc]].
  assert (M : memZ (h_counter st) (akeys (h_packets st)) = false).
  { apply memZ_false. intros Hin. specialize (Hr _ Hin). lia. }
  rewrite M. lia.
Qed.

(* ====================================================================== *)
(* 3. NACK generator counters *)
Definition ng_inv (size : Z) (st : ng) : Prop :=
  forall s m, aget s (ng_logs st) = Some m -> NoDup (akeys m) /\ zlen m <= size.
Lemma ng_count_step_ok max acc s : NoDup (akeys (fst acc)) -> 0 < max -> 0 <= snd acc ->
  let r := ng_count_step max acc s in
  NoDup (akeys (fst r)) /\ zlen (fst r) - snd r <= zlen (fst acc) - snd acc /\ 0 <= snd r.
Proof.
  destruct acc as [m c]. cbn [fst snd]. intros Hn Hm Hc. unfold ng_count_step. cbv zeta. cbn [fst snd].
  split; [apply akeys_aset_NoDup, Hn|]. rewrite aset_length. unfold cnt.
  destruct (memZ s (akeys m)) eqn:E.
  - destruct (_ <? max); lia.
  - apply memZ_false in E. destruct (aget s m) eqn:G; [exfalso; apply E; eapply aget_In_keys; eassumption|].
    assert (0 <? max = true) by lia. rewrite H. lia.
Qed.
Lemma ng_count_fold max l : forall acc, NoDup (akeys (fst acc)) -> 0 < max -> 0 <= snd acc ->
  let r := fold_left (ng_count_step max) l acc in
  NoDup (akeys (fst r)) /\ zlen (fst r) - snd r <= zlen (fst acc) - snd acc /\ 0 <= snd r.
Proof.
  induction l as [|s t IH]; intros acc Hn Hm Hc; cbn [fold_left]; cbv zeta; [repeat split; try assumption; lia|].
  pose proof (ng_count_step_ok max acc s Hn Hm Hc) as A. cbv zeta in A. destruct A as [A1 [A2 A3]].
  specialize (IH _ A1 Hm A3). cbv zeta in IH. destruct IH as [B1 [B2 B3]]. repeat split; try assumption; lia.
Qed.
Lemma filter_keys_bound (m : list (Z * Z)) (missing : list Z) : NoDup (akeys m) ->
  let m2 := filter (fun p => memZ (fst p) missing) m in NoDup (akeys m2) /\ zlen m2 <= zlen missing.
Proof.
  intros Hn. cbv zeta. set (m2 := filter _ m).
  assert (N2 : NoDup (akeys m2)).
  { subst m2. unfold akeys in *. induction m as [|[k v] t IH]; cbn [filter map fst]; [constructor|].
    inversion Hn as [|? ? Hni Hd]; subst. destruct (memZ k missing); [|apply IH, Hd].
    cbn [map fst]. constructor; [|apply IH, Hd]. intros Hin. apply Hni.
    clear -Hin. induction t as [|[a b] t IH]; cbn [filter map fst In] in *; [tauto|].
    destruct (memZ a missing); cbn [map fst In] in *; tauto. }
  split; [assumption|].
  assert (I : incl (akeys m2) missing).
  { intros k Hk. subst m2. unfold akeys in Hk. apply in_map_iff in Hk. destruct Hk as [[a b] [E Hk]].
    apply filter_In in Hk. cbn [fst] in *. subst. apply memZ_In. tauto. }
  pose proof (NoDup_incl_zlen _ _ N2 I). unfold akeys, zlen in *. rewrite map_length in H. lia.
Qed.
Lemma ng_tick_inv max size st s missing : 0 <= size -> zlen missing <= size -> ng_inv size st ->
  ng_inv size (ng_tick max st s missing).
Proof.
  intros Hs Hm H. unfold ng_tick. destruct (negb (memZ s (ng_bound st))); [assumption|].
  set (m0 := match aget s (ng_logs st) with Some m => match missing with [] => [] | _ => m end | None => [] end).
  assert (H0 : NoDup (akeys m0) /\ zlen m0 <= size).
  { subst m0. destruct (aget s (ng_logs st)) eqn:E; [|split; [constructor|rewrite zlen_nil; lia]].
    destruct missing; [split; [constructor|rewrite zlen_nil; lia]|apply (H s), E]. }
  assert (Hset : forall X, NoDup (akeys X) /\ zlen X <= size ->
            ng_inv size {| ng_bound := ng_bound st; ng_logs := aset s X (ng_logs st) |}).
  { intros X HX k m. cbn [ng_logs]. rewrite aget_aset. destruct (s =? k); [intros E; inversion E; subst; assumption|apply H]. }
  assert (Hdel : ng_inv size {| ng_bound := ng_bound st; ng_logs := adel s (ng_logs st) |}).
  { intros k m. cbn [ng_logs]. rewrite aget_adel. destruct (s =? k); [discriminate|apply H]. }
  destruct missing as [|x xs] eqn:Em; [apply Hset; split; [constructor|rewrite zlen_nil; lia]|].
  rewrite <- Em in *. clear Em x xs.
  destruct (max >? 0) eqn:G.
  - destruct H0 as [N0 L0].
    pose proof (ng_count_fold max missing (m0, 0) N0 ltac:(lia) ltac:(cbn; lia)) as A. cbv zeta in A.
    destruct (fold_left (ng_count_step max) missing (m0, 0)) as [m1 c]. cbn [fst snd] in A. destruct A as [A1 [A2 A3]].
    destruct (c =? 0) eqn:Ec; [apply Hset; split; [assumption|lia]|].
    pose proof (filter_keys_bound m1 missing A1) as F. cbv zeta in F. destruct F as [F1 F2].
    destruct (filter _ m1) eqn:Ef; [apply Hdel|]. rewrite <- Ef in *. apply Hset. split; [assumption|lia].
  - cbn [Z.eqb]. destruct H0 as [N0 L0].
    pose proof (filter_keys_bound m0 missing N0) as F. cbv zeta in F. destruct F as [F1 F2].
    destruct (filter _ m0) eqn:Ef; [apply Hdel|]. rewrite <- Ef in *. apply Hset. split; [assumption|lia].
Qed.
Definition ng_ops_ok (size : Z) (ops : list ng_op) : Prop :=
  Forall (fun o => match o with NgTick _ m => zlen m <= size | _ => True end) ops.
Lemma ng_run_inv max size ops : 0 <= size -> ng_ops_ok size ops -> ng_inv size (fold_left (ng_step max) ops ng_init).
Proof.
  intros Hs. assert (H : ng_inv size ng_init) by (intros s m; cbn; discriminate).
  revert H. generalize ng_init. induction ops as [|o t IH]; cbn [fold_left]; intros st H Hok; [assumption|].
  inversion Hok as [|? ? Ho Ht]; subst. apply IH; [|assumption].
  destruct o as [s|s|s m]; cbn [ng_step].
  - intros k m. cbn [ng_logs]. apply H.
  - intros k m. cbn [ng_logs]. rewrite aget_adel. destruct (s =? k); [discriminate|apply H].
  - apply ng_tick_inv; assumption.
Qed.

(* ====================================================================== *)
(* 10. gcc rate calculator *)
Lemma rc_drop_head d h : match rc_drop d h with [] => True | o :: _ => d <= o end.
Proof. induction h as [|a t IH]; cbn [rc_drop]; [exact I|]. destruct (a <? d) eqn:E; [assumption|lia]. Qed.
Lemma rc_const_grows w a n : 0 <= w -> forall k,
  fold_left (rc_step w) (repeat a n) (true, repeat a (S k)) = (true, repeat a (S k + n)).
Proof.
  intros Hw. induction n as [|n IH]; intros k; [cbn [repeat fold_left]; rewrite Nat.add_0_r; reflexivity|].
  change (repeat a (S n)) with (a :: repeat a n). cbn [fold_left].
  assert (E : rc_step w (true, repeat a (S k)) a = (true, repeat a (S (S k)))).
  { unfold rc_step. cbn [negb]. rewrite <- repeat_cons. cbn [repeat rc_drop].
    assert (a <? a - w = false) by lia. rewrite H. reflexivity. }
  rewrite E, IH. f_equal. f_equal. lia.
Qed.
