(* C06: the receiver-stream model (16-bit numbers, cycle counter, 8192-bit
   bitmap) refines the recount specification over true sequence numbers
   (Spec/ReceiverSpec.v) on every history within the 8192 scope, for every
   float kernel.  Plus: timestamp shift invariance of the model. *)
From IV Require Import Base.Word Model.SenderStream Model.ReceiverStream Spec.ReceiverSpec.
From Coq Require Import ZifyBool.
Ltac Zify.zify_post_hook ::= Z.div_mod_to_equations.

(* ---- arithmetic ---- *)
Lemma slot_mod x : slot x = x mod 8192.
Proof. unfold slot. change 8191 with (Z.ones 13). rewrite Z.land_ones by lia. reflexivity. Qed.

Lemma w16_mod x : w16 x = x mod 65536.
Proof. unfold w16. change 65535 with (Z.ones 16). rewrite Z.land_ones by lia. reflexivity. Qed.

Lemma slot_w16 x : slot (w16 x) = x mod 8192.
Proof. rewrite slot_mod, w16_mod. lia. Qed.

Lemma diff_mod v H : sub16 (v mod 65536) (H mod 65536) = (v - H) mod 65536.
Proof. unfold sub16. lia. Qed.

Lemma old_not_newer v H : H - 8192 < v <= H ->
  (0 <? (v - H) mod 65536) && ((v - H) mod 65536 <? 32768) = false.
Proof. intros. destruct (0 <? _) eqn:?; destruct (_ <? 32768) eqn:?; simpl; auto; lia. Qed.

Lemma new_is_newer v H : H < v <= H + 8192 ->
  (0 <? (v - H) mod 65536) && ((v - H) mod 65536 <? 32768) = true /\ (v - H) mod 65536 = v - H.
Proof. intros. split; [|lia]. destruct (0 <? _) eqn:?; destruct (_ <? 32768) eqn:?; simpl; auto; lia. Qed.

Lemma cycles_step v H : H < v <= H + 8192 ->
  (if v mod 65536 <? H mod 65536 then add16 ((H / 65536) mod 65536) 1 else (H / 65536) mod 65536)
  = (v / 65536) mod 65536.
Proof. intros. unfold add16. destruct (_ <? _) eqn:?; lia. Qed.

Lemma ext_value H : u32 (((H / 65536) mod 65536) * 65536 + H mod 65536) = H mod 4294967296.
Proof. unfold u32. lia. Qed.

Lemma slot_eq_in_window lo e v : lo < e <= lo + 8192 -> lo < v <= lo + 8192 ->
  (e mod 8192 =? slot (v mod 65536)) = (e =? v).
Proof.
  intros. rewrite slot_mod.
  destruct (e mod 8192 =? _) eqn:A; destruct (e =? v) eqn:B; auto; lia.
Qed.

Lemma cyc_dist_val e H :
  cyc_dist (e mod 8192) (slot (w16 (H mod 65536 + 1))) = (e - H - 1) mod 8192.
Proof. rewrite slot_w16. unfold cyc_dist. cbv zeta. destruct (_ <? 0) eqn:?; lia. Qed.

Lemma s32_sub32 a b : s32 (sub32 a b) = s32 (a - b).
Proof. unfold s32, sub32. cbv zeta. destruct (_ <? 2147483648) eqn:?; destruct ((a - b) mod 4294967296 <? 2147483648) eqn:?; lia. Qed.

(* ---- the received set ---- *)
Lemma memb_cons e v l : memb e (v :: l) = (e =? v) || memb e l.
Proof. reflexivity. Qed.

Lemma memb_above e H l : (forall x, In x l -> x <= H) -> H < e -> memb e l = false.
Proof.
  intros Hl He. induction l as [|x l IH]; simpl; auto.
  rewrite IH by (intros; apply Hl; simpl; auto).
  assert (x <= H) by (apply Hl; simpl; auto).
  destruct (e =? x) eqn:?; simpl; auto; lia.
Qed.

Lemma count_missing_range recv : forall n e, 0 <= count_missing recv e n <= Z.of_nat n.
Proof.
  induction n as [|n IH]; intros e; cbn [count_missing]; [lia|].
  specialize (IH (e + 1)). destruct (memb e recv); lia.
Qed.

(* the counting loop on the bitmap is the recount on the received set while
   the interval lies in the bitmap's window *)
Lemma count_lost_missing (bits : Z -> bool) recv H :
  (forall e, H - 8192 < e <= H -> bits (e mod 8192) = memb e recv) ->
  forall n i e0, i mod 8192 = e0 mod 8192 ->
    H - 8192 < e0 -> e0 + Z.of_nat n <= H + 1 ->
    count_lost bits i n = count_missing recv e0 n.
Proof.
  intros Hb. induction n as [|n IH]; intros i e0 Hc Hlo Hhi; cbn [count_lost count_missing]; auto.
  rewrite slot_w16, Hc, Hb by lia.
  rewrite (IH (i + 1) (e0 + 1)) by lia. reflexivity.
Qed.

(* the clearing loop as written is the closed form used by the model *)
Lemma clear_loop_closed : forall n f i q, Z.of_nat n <= 8192 -> 0 <= q < 8192 ->
  clear_loop f i n q = clear_range f (i mod 8192) (Z.of_nat n) q.
Proof.
  induction n as [|n IH]; intros f i q Hn Hq.
  - reflexivity.
  - cbn [clear_loop]. rewrite IH by lia.
    unfold clear_range, del_bit. rewrite slot_w16.
    destruct (Z.of_nat (S n) <=? 0) eqn:E0; [lia|].
    destruct (Z.of_nat n <=? 0) eqn:E1.
    + unfold cyc_dist. cbv zeta.
      destruct (q =? i mod 8192) eqn:A; destruct (q - i mod 8192 <? 0) eqn:B;
        destruct (_ <? Z.of_nat (S n)) eqn:C; auto; lia.
    + unfold cyc_dist. cbv zeta.
      destruct (q - (i + 1) mod 8192 <? 0) eqn:A; destruct (q - i mod 8192 <? 0) eqn:B;
        destruct (_ <? Z.of_nat n) eqn:C; destruct (_ <? Z.of_nat (S n)) eqn:D;
        destruct (q =? i mod 8192) eqn:F; auto; lia.
Qed.

Section Refinement.
  Variable J : Type.
  Variable j0 : J.
  Variable jstep : J -> Z -> Z -> Z -> J.
  Variable jout : J -> Z.
  Variable dk : Z -> Z.
  Variable rate : Z.

  Notation rstep := (r_step J jstep jout dk rate).
  Notation astep := (a_step J jstep jout dk rate).
  Notation rrun := (r_run J jstep jout dk rate).
  Notation arun := (a_run J jstep jout dk rate).

  (* abstraction relation between the stream state and the recount state *)
  Definition rel (st : rstate J) (a : astate J) : Prop :=
    r_jit st = a_jit a /\ r_lsr st = a_lsr a /\ r_lsr_time st = a_lsr_time a /\
    match a_hi a with
    | None =>
        r_started st = false /\ r_last st = 0 /\ r_last_report st = 0 /\ r_cycles st = 0 /\
        r_total st = Z.min 16777215 (a_cum a) /\ 0 <= a_cum a /\ (forall q, r_bits st q = false)
    | Some H =>
        r_started st = true /\
        r_last st = H mod 65536 /\
        r_cycles st = (H / 65536) mod 65536 /\
        r_last_report st = a_prev a mod 65536 /\
        a_prev a <= H /\
        r_last_rtp st = a_ts a /\ r_last_time st = a_time a /\
        r_total st = Z.min 16777215 (a_cum a) /\ 0 <= a_cum a /\
        (forall x, In x (a_recv a) -> x <= H) /\
        (forall e, H - 8192 < e <= H -> r_bits st (e mod 8192) = memb e (a_recv a))
    end.

  Lemma rel_init : rel (r_init J j0) (a_init J j0).
  Proof. unfold rel; simpl. repeat split; auto; lia. Qed.

  (* a fresh stream whose cumulative counter was preset (hook PresetTotalLost) *)
  Lemma rel_preset t0 : 0 <= t0 <= 16777215 ->
    rel (mkR false (fun _ => false) 0 0 0 0 0 j0 0 None t0) (mkA None [] 0 t0 0 0 j0 0 None).
  Proof. intros. unfold rel; simpl. repeat split; auto; lia. Qed.

  Lemma step_rtp st a now v ts :
    rel st a -> scope_okb J a (ARtp now v ts) = true ->
    rel (r_rtp J jstep rate st now (v mod 65536) ts) (a_rtp J jstep rate a now v ts).
  Proof.
    intros (Hj & Hl & Hlt & R) Hs. unfold scope_okb in Hs. unfold rel, a_rtp, r_rtp.
    destruct (a_hi a) as [H|] eqn:EH.
    - destruct R as (Rs & Rl & Rc & Rp & Rph & Rts & Rtm & Rt & Rcum & Rle & Rb).
      rewrite Rs. cbn [negb]. cbv zeta. rewrite Rl, diff_mod.
      cbn [a_hi a_jit a_lsr a_lsr_time a_prev a_ts a_time a_cum a_recv
           r_started r_bits r_cycles r_last r_last_report r_last_rtp r_last_time r_jit r_lsr r_lsr_time r_total].
      rewrite s32_sub32, Hj, Rts, Rtm.
      split; [reflexivity|]. split; [assumption|]. split; [assumption|].
      destruct (Z_le_gt_dec v H) as [Hle|Hgt].
      + (* late or duplicate: v <= H *)
        rewrite old_not_newer by lia. cbn [andb].
        replace (Z.max H v) with H by lia.
        repeat split; auto; try lia.
        * intros x [Hx|Hx]; [lia|auto].
        * intros e He. rewrite memb_cons. unfold set_bit.
          rewrite (slot_eq_in_window (H - 8192) e v) by lia.
          destruct (e =? v); simpl; auto.
      + (* new highest: H < v <= H + 8192 *)
        destruct (new_is_newer v H) as [Hn Hd]; [lia|].
        rewrite Hn, Hd. cbn [andb].
        replace (Z.max H v) with v by lia.
        rewrite Rc, cycles_step by lia.
        repeat split; auto; try lia.
        * intros x [Hx|Hx]; [lia|]. specialize (Rle x Hx). lia.
        * intros e He. rewrite memb_cons. unfold clear_range.
          destruct (v - H - 1 <=? 0) eqn:E0.
          -- (* v = H + 1: nothing to clear *)
             unfold set_bit. rewrite (slot_eq_in_window (v - 8192) e v) by lia.
             destruct (e =? v) eqn:Eev; simpl; auto. apply Rb. lia.
          -- rewrite cyc_dist_val. unfold set_bit.
             rewrite (slot_eq_in_window (v - 8192) e v) by lia.
             destruct (e =? v) eqn:Eev.
             ++ destruct (_ <? v - H - 1) eqn:?; simpl; auto; lia.
             ++ destruct (Z_le_gt_dec e H).
                ** destruct (_ <? v - H - 1) eqn:?; [lia|]. simpl. apply Rb. lia.
                ** destruct (_ <? v - H - 1) eqn:?; [|lia]. simpl.
                   symmetry. apply (memb_above e H); [auto|lia].
    - destruct R as (Rs & Rl & Rp & Rc & Rt & Rcum & Rb).
      rewrite Rs. cbn [negb].
      cbn [a_hi a_jit a_lsr a_lsr_time a_prev a_ts a_time a_cum a_recv
           r_started r_bits r_cycles r_last r_last_report r_last_rtp r_last_time r_jit r_lsr r_lsr_time r_total].
      rewrite Rc.
      repeat split; auto; try (unfold sub16; lia).
      + intros x [Hx|[]]. lia.
      + intros e He. rewrite memb_cons. unfold set_bit.
        rewrite (slot_eq_in_window (v - 8192) e v) by lia. rewrite Rb.
        destruct (e =? v); reflexivity.
  Qed.

  Lemma step_sr st a now ntp : rel st a -> rel (r_sr J st now ntp) (a_sr J a now ntp).
  Proof.
    intros (Hj & Hl & Hlt & R). unfold rel, r_sr, a_sr; simpl.
    repeat split; auto.
  Qed.

  Lemma step_report st a now :
    rel st a -> scope_okb J a (ARep now) = true ->
    rel (fst (r_report J jout dk st now)) (fst (a_report J jout dk a now)) /\
    snd (r_report J jout dk st now) = snd (a_report J jout dk a now).
  Proof.
    intros (Hj & Hl & Hlt & R) Hs. unfold scope_okb in Hs.
    unfold a_report, a_report_gen, r_report. cbv zeta.
    destruct (a_hi a) as [H|] eqn:EH.
    - destruct R as (Rs & Rl & Rc & Rp & Rph & Rts & Rtm & Rt & Rcum & Rle & Rb).
      set (P := a_prev a) in *.
      assert (HX : sub16 (r_last st) (r_last_report st) = H - P).
      { rewrite Rl, Rp, diff_mod. lia. }
      rewrite HX.
      (* the loss count *)
      set (lostA := count_missing (a_recv a) (P + 1) (Z.to_nat (H - P - 1))).
      assert (Hrange : 0 <= lostA <= Z.of_nat (Z.to_nat (H - P - 1))) by apply count_missing_range.
      assert (Hlost : (if r_last st =? r_last_report st then 0
                       else u32 (count_lost (r_bits st) (r_last_report st + 1) (Z.to_nat (H - P - 1)))) = lostA).
      { destruct (r_last st =? r_last_report st) eqn:E.
        - assert (H - P = 0) by (rewrite Rl, Rp in E; lia).
          unfold lostA. replace (H - P - 1) with (-1) by lia. reflexivity.
        - rewrite (count_lost_missing (r_bits st) (a_recv a) H Rb _ _ (P + 1)).
          + fold lostA. unfold u32. lia.
          + rewrite Rp. lia.
          + lia.
          + lia. }
      rewrite Hlost.
      assert (Hl8 : 0 <= lostA < 8192) by lia.
      assert (Hlt' : lostA = 0 \/ lostA < H - P) by lia.
      cbn [fst snd].
      unfold rel.
      cbn [a_hi a_jit a_lsr a_lsr_time a_prev a_ts a_time a_cum a_recv
           r_started r_bits r_cycles r_last r_last_report r_last_rtp r_last_time r_jit r_lsr r_lsr_time r_total].
      assert (Htl : (if 16777215 <? add32 (r_total st) lostA then 16777215 else add32 (r_total st) lostA)
                    = Z.min 16777215 (a_cum a + lostA)).
      { rewrite Rt. unfold add32. destruct (16777215 <? _) eqn:?; lia. }
      rewrite Htl.
      split.
      + rewrite Hj, Hl, Hlt. repeat split; auto; try lia.
      + rewrite Hj, Hl, Hlt, Rc, Rl, ext_value.
        assert (Hfr : (if H - P =? 0 then 0
                       else u8 (u32 ((if 16777215 <? lostA then 16777215 else lostA) * 256) / (H - P)))
                      = (if H - P =? 0 then 0 else 256 * lostA / (H - P))).
        { destruct (H - P =? 0) eqn:E; auto.
          destruct (16777215 <? lostA) eqn:?; [lia|].
          replace (u32 (lostA * 256)) with (256 * lostA) by (unfold u32; lia).
          assert (0 <= 256 * lostA / (H - P)) by (apply Z.div_pos; lia).
          assert (256 * lostA / (H - P) < 256) by (apply Z.div_lt_upper_bound; lia).
          unfold u8. lia. }
        rewrite Hfr. unfold u32. reflexivity.
    - destruct R as (Rs & Rl & Rp & Rc & Rt & Rcum & Rb).
      rewrite Rl, Rp, Rc. cbn [fst snd].
      assert (Htl : (if 16777215 <? add32 (r_total st) 0 then 16777215 else add32 (r_total st) 0)
                    = Z.min 16777215 (a_cum a)).
      { rewrite Rt. unfold add32. destruct (16777215 <? _) eqn:?; lia. }
      change (sub16 0 0) with 0. change (0 =? 0) with true. cbv iota. rewrite Htl.
      split.
      + unfold rel. rewrite EH.
        cbn [a_jit a_lsr a_lsr_time a_cum
             r_started r_bits r_cycles r_last r_last_report r_last_rtp r_last_time r_jit r_lsr r_lsr_time r_total].
        repeat split; auto; lia.
      + rewrite Hj, Hl, Hlt. reflexivity.
  Qed.

  Lemma step_refines st a op :
    rel st a -> scope_okb J a op = true ->
    rel (fst (rstep st (wrap_aop op))) (fst (astep a op)) /\
    snd (rstep st (wrap_aop op)) = snd (astep a op).
  Proof.
    intros R Hs. destruct op as [now v ts|now ntp|now]; cbn [wrap_aop r_step a_step fst snd].
    - split; [apply step_rtp; auto|reflexivity].
    - split; [apply step_sr; auto|reflexivity].
    - destruct (step_report st a now R Hs) as [A B].
      unfold a_report in *.
      destruct (r_report J jout dk st now) as [st' r], (a_report_gen J jout dk true a now) as [a' r'].
      simpl in *. split; [exact A|congruence].
  Qed.

  Theorem run_refines : forall ops st a,
    rel st a -> in_scope J jstep jout dk rate a ops ->
    rrun st (map wrap_aop ops) = arun a ops.
  Proof.
    induction ops as [|op ops IH]; intros st a R Hs; cbn [map r_run a_run]; auto.
    destruct Hs as [Hok Hs].
    destruct (step_refines st a op R Hok) as [A B].
    destruct (rstep st (wrap_aop op)) as [st' o], (astep a op) as [a' o'].
    simpl in *. subst o'. rewrite (IH st' a' A Hs). reflexivity.
  Qed.

  (* ---- RTP timestamp shift invariance (wrap safety of the jitter input) ---- *)
  Definition shift_op (c : Z) (op : rop) : rop :=
    match op with RRtp now seq ts => RRtp now seq ((ts + c) mod 4294967296) | o => o end.

  (* states that differ only in the stored timestamp, by c modulo 2^32 *)
  Definition shifted (c : Z) (s1 s2 : rstate J) : Prop :=
    r_started s2 = r_started s1 /\ r_bits s2 = r_bits s1 /\ r_cycles s2 = r_cycles s1 /\
    r_last s2 = r_last s1 /\ r_last_report s2 = r_last_report s1 /\
    (r_started s1 = true -> (r_last_rtp s2 - r_last_rtp s1 - c) mod 4294967296 = 0) /\
    r_last_time s2 = r_last_time s1 /\ r_jit s2 = r_jit s1 /\ r_lsr s2 = r_lsr s1 /\
    r_lsr_time s2 = r_lsr_time s1 /\ r_total s2 = r_total s1.

  Lemma s32_shift ts l1 l2 c : (l2 - l1 - c) mod 4294967296 = 0 ->
    s32 (sub32 ((ts + c) mod 4294967296) l2) = s32 (sub32 ts l1).
  Proof.
    intros Hc. rewrite !s32_sub32. unfold s32. cbv zeta.
    assert (E : ((ts + c) mod 4294967296 - l2) mod 4294967296 = (ts - l1) mod 4294967296) by lia.
    rewrite E. reflexivity.
  Qed.

  Lemma shift_step c s1 s2 op : shifted c s1 s2 ->
    shifted c (fst (rstep s1 op)) (fst (rstep s2 (shift_op c op))) /\
    snd (rstep s1 op) = snd (rstep s2 (shift_op c op)).
  Proof.
    intros (A1 & A2 & A3 & A4 & A5 & A6 & A7 & A8 & A9 & A10 & A11).
    destruct op as [now seq ts|now ntp|now]; cbn [shift_op r_step fst snd].
    - split; [|reflexivity]. unfold r_rtp. rewrite A1, A2, A3, A4, A5, A7, A8, A9, A10, A11.
      destruct (r_started s1) eqn:S; cbn [negb].
      + rewrite (s32_shift ts (r_last_rtp s1) (r_last_rtp s2) c (A6 eq_refl)).
        unfold shifted;
        cbn [r_started r_bits r_cycles r_last r_last_report r_last_rtp r_last_time r_jit r_lsr r_lsr_time r_total];
        repeat split; auto; intros; lia.
      + unfold shifted;
        cbn [r_started r_bits r_cycles r_last r_last_report r_last_rtp r_last_time r_jit r_lsr r_lsr_time r_total];
        repeat split; auto; intros; lia.
    - split; [|reflexivity]. unfold r_sr, shifted;
        cbn [r_started r_bits r_cycles r_last r_last_report r_last_rtp r_last_time r_jit r_lsr r_lsr_time r_total].
      repeat split; auto.
    - unfold r_report. cbv zeta. rewrite A1, A2, A3, A4, A5, A8, A9, A10, A11. cbn [fst snd].
      split; [|reflexivity]. unfold shifted;
        cbn [r_started r_bits r_cycles r_last r_last_report r_last_rtp r_last_time r_jit r_lsr r_lsr_time r_total].
      repeat split; auto.
  Qed.

  Theorem shift_invariant c : forall ops s1 s2, shifted c s1 s2 ->
    rrun s2 (map (shift_op c) ops) = rrun s1 ops.
  Proof.
    induction ops as [|op ops IH]; intros s1 s2 Hs; cbn [map r_run]; auto.
    destruct (shift_step c s1 s2 op Hs) as [A B].
    destruct (rstep s1 op) as [s1' o1], (rstep s2 (shift_op c op)) as [s2' o2].
    simpl in *. subst o2. rewrite (IH s1' s2' A). reflexivity.
  Qed.

  Lemma shifted_init c : shifted c (r_init J j0) (r_init J j0).
  Proof. unfold shifted; simpl. repeat split; auto; discriminate. Qed.
End Refinement.

(* ---- outside the 8192 scope the bitmap aliases: a packet arriving 8192
   behind the highest sets the bit of a missing recent packet ---- *)
Definition alias_history : list aop :=
  [ARtp 0 0 0; ARtp 1 8000 0; ARtp 2 9990 0; ARep 3;
   ARtp 4 10000 0; ARtp 5 1805 0; ARep 6].

Lemma alias_refuted :
  ~ in_scope unit (fun _ _ _ _ => tt) (fun _ => 0) (fun _ => 0) 0 (a_init unit tt) alias_history /\
  r_run unit (fun _ _ _ _ => tt) (fun _ => 0) (fun _ => 0) 0 (r_init unit tt) (map wrap_aop alias_history)
  <> a_run unit (fun _ _ _ _ => tt) (fun _ => 0) (fun _ => 0) 0 (a_init unit tt) alias_history.
Proof.
  split.
  - cbn. intros (_ & _ & _ & _ & _ & H & _). discriminate H.
  - vm_compute. discriminate.
Qed.

(* a non-vacuity witness for the scope hypothesis: loss, duplicate, late
   packet, sequence wrap (65534 -> 65537), SR, two reports *)
Definition scope_example : list aop :=
  [ARtp 0 65534 100; ARtp 10 65535 200; ASr 11 4294967296; ARtp 20 65537 400;
   ARep 25; ARtp 30 65536 300; ARtp 40 65537 400; ARtp 50 65540 700; ARep 60].

Lemma scope_example_ok :
  in_scope unit (fun _ _ _ _ => tt) (fun _ => 0) (fun d => d) 0 (a_init unit tt) scope_example /\
  a_run unit (fun _ _ _ _ => tt) (fun _ => 0) (fun d => d) 0 (a_init unit tt) scope_example
  = [(65537, 65536, 64, 1, 14, 0); (65540, 65536, 170, 3, 49, 0)].
Proof. split; [cbn; repeat split|vm_compute; reflexivity]. Qed.

(* ---- beyond the 8192 scope: extended highest, LSR, DLSR and jitter do not
   depend on the bitmap; they follow the recount on every history whose
   arrivals stay within 2^15 of the highest (any reordering depth, any jump
   below 2^15, any number of cycles) ---- *)
Section HalfRange.
  Variable J : Type.
  Variable j0 : J.
  Variable jstep : J -> Z -> Z -> Z -> J.
  Variable jout : J -> Z.
  Variable dk : Z -> Z.
  Variable rate : Z.

  Definition half_okb (a : astate J) (op : aop) : bool :=
    match op, a_hi a with
    | ARtp _ v _, None => (0 <=? v) && (v <? 65536)
    | ARtp _ v _, Some H => (H - 32768 <=? v) && (v <? H + 32768)
    | _, _ => true
    end.

  Fixpoint in_half_scope (a : astate J) (ops : list aop) : Prop :=
    match ops with
    | [] => True
    | op :: tl => half_okb a op = true /\ in_half_scope (fst (a_step J jstep jout dk rate a op)) tl
    end.

  (* (extended highest, LSR, DLSR, jitter) of a report *)
  Definition proj4 (r : rrep) : Z * Z * Z * Z :=
    let '(ext, lsr, _, _, delay, jit) := r in (ext, lsr, delay, jit).

  Definition rel4 (st : rstate J) (a : astate J) : Prop :=
    r_jit st = a_jit a /\ r_lsr st = a_lsr a /\ r_lsr_time st = a_lsr_time a /\
    match a_hi a with
    | None => r_started st = false /\ r_last st = 0 /\ r_cycles st = 0
    | Some H =>
        r_started st = true /\ r_last st = H mod 65536 /\ r_cycles st = (H / 65536) mod 65536 /\
        r_last_rtp st = a_ts a /\ r_last_time st = a_time a
    end.

  Lemma half_old v H : H - 32768 <= v <= H ->
    (0 <? (v - H) mod 65536) && ((v - H) mod 65536 <? 32768) = false.
  Proof. intros. destruct (0 <? _) eqn:?; destruct (_ <? 32768) eqn:?; simpl; auto; lia. Qed.

  Lemma half_new v H : H < v < H + 32768 ->
    (0 <? (v - H) mod 65536) && ((v - H) mod 65536 <? 32768) = true.
  Proof. intros. destruct (0 <? _) eqn:?; destruct (_ <? 32768) eqn:?; simpl; auto; lia. Qed.

  Lemma half_cycles v H : H < v < H + 32768 ->
    (if v mod 65536 <? H mod 65536 then add16 ((H / 65536) mod 65536) 1 else (H / 65536) mod 65536)
    = (v / 65536) mod 65536.
  Proof. intros. unfold add16. destruct (_ <? _) eqn:?; lia. Qed.

  Lemma step4 st a op : rel4 st a -> half_okb a op = true ->
    rel4 (fst (r_step J jstep jout dk rate st (wrap_aop op))) (fst (a_step J jstep jout dk rate a op)) /\
    option_map proj4 (snd (r_step J jstep jout dk rate st (wrap_aop op))) =
    option_map proj4 (snd (a_step J jstep jout dk rate a op)).
  Proof.
    intros (Hj & Hl & Hlt & R) Hs. unfold half_okb in Hs.
    destruct op as [now v ts|now ntp|now]; cbn [wrap_aop r_step a_step fst snd option_map].
    - split; [|reflexivity]. unfold rel4, a_rtp, r_rtp.
      destruct (a_hi a) as [H|] eqn:EH.
      + destruct R as (Rs & Rl & Rc & Rts & Rtm).
        rewrite Rs. cbn [negb]. cbv zeta. rewrite Rl, diff_mod.
        cbn [a_hi a_jit a_lsr a_lsr_time a_prev a_ts a_time a_cum a_recv
             r_started r_bits r_cycles r_last r_last_report r_last_rtp r_last_time r_jit r_lsr r_lsr_time r_total].
        rewrite s32_sub32, Hj, Rts, Rtm.
        split; [reflexivity|]. split; [assumption|]. split; [assumption|].
        destruct (Z_le_gt_dec v H) as [Hle|Hgt].
        * rewrite half_old by lia. cbn [andb]. replace (Z.max H v) with H by lia. repeat split; auto.
        * rewrite half_new by lia. cbn [andb]. replace (Z.max H v) with v by lia.
          rewrite Rc, half_cycles by lia. repeat split; auto.
      + destruct R as (Rs & Rl & Rc). rewrite Rs. cbn [negb].
        cbn [a_hi a_jit a_lsr a_lsr_time a_prev a_ts a_time a_cum a_recv
             r_started r_bits r_cycles r_last r_last_report r_last_rtp r_last_time r_jit r_lsr r_lsr_time r_total].
        rewrite Rc. repeat split; auto; lia.
    - split; [|reflexivity]. unfold rel4, r_sr, a_sr; simpl. repeat split; auto.
    - unfold a_report, a_report_gen, r_report. cbv zeta.
      destruct (a_hi a) as [H|] eqn:EH; cbn [fst snd option_map proj4].
      + destruct R as (Rs & Rl & Rc & Rts & Rtm).
        split.
        * unfold rel4. cbn [a_hi a_jit a_lsr a_lsr_time a_prev a_ts a_time a_cum a_recv
             r_started r_bits r_cycles r_last r_last_report r_last_rtp r_last_time r_jit r_lsr r_lsr_time r_total].
          repeat split; auto.
        * rewrite Hj, Hl, Hlt, Rc, Rl, ext_value. unfold u32. reflexivity.
      + destruct R as (Rs & Rl & Rc).
        split.
        * unfold rel4. rewrite EH. cbn [r_started r_bits r_cycles r_last r_last_report r_last_rtp r_last_time r_jit r_lsr r_lsr_time r_total].
          repeat split; auto.
        * rewrite Hj, Hl, Hlt, Rc, Rl. unfold u32. reflexivity.
  Qed.

  Theorem run4 : forall ops st a, rel4 st a -> in_half_scope a ops ->
    map proj4 (r_run J jstep jout dk rate st (map wrap_aop ops)) =
    map proj4 (a_run J jstep jout dk rate a ops).
  Proof.
    induction ops as [|op ops IH]; intros st a R Hs; cbn [map r_run a_run]; auto.
    destruct Hs as [Hok Hs].
    destruct (step4 st a op R Hok) as [A B].
    destruct (r_step J jstep jout dk rate st (wrap_aop op)) as [st' o],
             (a_step J jstep jout dk rate a op) as [a' o'].
    cbn [fst snd] in *. specialize (IH st' a' A Hs).
    destruct o as [r|], o' as [r'|]; cbn [option_map] in B; try discriminate; cbn [map].
    - inversion B. rewrite IH. reflexivity.
    - exact IH.
  Qed.

  Lemma rel4_init : rel4 (r_init J j0) (a_init J j0).
  Proof. unfold rel4; simpl. repeat split; auto. Qed.
End HalfRange.

(* ---- the recount state is what its names say: the received set is the list
   of all arrivals, the highest is their maximum ---- *)
Section SpecReading.
  Variable J : Type.
  Variable j0 : J.
  Variable jstep : J -> Z -> Z -> Z -> J.
  Variable jout : J -> Z.
  Variable dk : Z -> Z.
  Variable rate : Z.

  Fixpoint a_final (a : astate J) (ops : list aop) : astate J :=
    match ops with [] => a | op :: tl => a_final (fst (a_step J jstep jout dk rate a op)) tl end.

  Fixpoint arrivals (ops : list aop) : list Z :=
    match ops with [] => [] | ARtp _ v _ :: tl => v :: arrivals tl | _ :: tl => arrivals tl end.

  Definition max_opt (m : option Z) (v : Z) : option Z :=
    Some (match m with None => v | Some H => Z.max H v end).

  Lemma spec_hi_recv : forall ops a, (a_hi a = None -> a_recv a = []) ->
    a_hi (a_final a ops) = fold_left max_opt (arrivals ops) (a_hi a) /\
    a_recv (a_final a ops) = rev (arrivals ops) ++ a_recv a.
  Proof.
    induction ops as [|op ops IH]; intros a Hn; cbn [a_final arrivals fold_left rev app]; auto.
    destruct op as [now v ts|now ntp|now]; cbn [a_step fst arrivals fold_left rev].
    - destruct (IH (a_rtp J jstep rate a now v ts)) as [A B].
      { unfold a_rtp. destruct (a_hi a); simpl; discriminate. }
      rewrite A, B. unfold a_rtp, max_opt. destruct (a_hi a) eqn:E; cbn [a_hi a_recv].
      + rewrite <- app_assoc. auto.
      + rewrite (Hn eq_refl), <- app_assoc. auto.
    - apply (IH (a_sr J a now ntp)). exact Hn.
    - unfold a_report, a_report_gen. cbv zeta. destruct (a_hi a) eqn:E; cbn [fst].
      + match goal with |- context [a_final ?x ops] => destruct (IH x) as [A B] end.
        { cbn [a_hi]. discriminate. }
        cbn [a_hi a_recv] in A, B. split; assumption.
      + rewrite <- E. apply IH. rewrite E. exact Hn.
  Qed.
End SpecReading.
