(* Proofs for the round-4 strengthening of C14 (Model/FlexfecFail.v): the interceptor's writer when the
   next writer fails. *)
From IV Require Import Base.Word Model.Flexfec Model.Flexfec2 Model.FlexfecFail Spec.FlexfecSpec
  Proofs.FlexfecProofs Proofs.FlexfecMore.
From Coq Require Import Lia.

(* ------------------------------------------------------------------ *)
(* 1. the code (collect every error, go on): the calls made to the next writer do not depend on which
      of them fail *)

Lemma fec_writes_collect dw rs : forall j, map fst (fec_writes collect_all dw j rs) = map ORepair rs.
Proof.
  induction rs as [|r rs IH]; intros j; cbn [fec_writes map fst]; [reflexivity|].
  cbn [p_fec_stop collect_all]. rewrite Bool.andb_false_r. rewrite IH. reflexivity.
Qed.

Lemma down_writes_collect dw p rs : map fst (down_writes collect_all dw p rs) = OMedia p :: map ORepair rs.
Proof.
  unfold down_writes. cbn [p_media_stop collect_all]. rewrite Bool.andb_false_r.
  cbn [map fst]. rewrite fec_writes_collect. reflexivity.
Qed.

(* the state after a Write never depends on the next writer, whatever the error policy: the batch
   accumulator, the coverage and the repair sequence counter have moved before the first call *)
Lemma if_write_state pol s p dw : fst (if_write pol s p dw) = fst (i_write2 s p).
Proof.
  unfold if_write, i_write2. destruct (negb _); [reflexivity|].
  destruct (zlen (i_buf s ++ [p]) =? i_nm s); [|reflexivity].
  destruct (encode_fec2 _ _ _) as [e' r]. destruct r as [[rs|]|]; reflexivity.
Qed.

Lemma if_write_collect s p dw : handed (snd (if_write collect_all s p dw)) = snd (i_write2 s p).
Proof.
  unfold if_write, i_write2. destruct (negb _); [reflexivity|].
  destruct (zlen (i_buf s ++ [p]) =? i_nm s).
  - destruct (encode_fec2 _ _ _) as [e' r]. destruct r as [[rs|]|]; cbn [snd handed];
      rewrite ?down_writes_collect; reflexivity.
  - cbn [snd handed]. rewrite down_writes_collect. reflexivity.
Qed.

Theorem if_run_collect ws : forall s, map handed (if_run collect_all s ws) = i_run2 s (map fst ws).
Proof.
  induction ws as [|[p dw] ws IH]; intros s; cbn [if_run i_run2 map fst]; [reflexivity|].
  pose proof (if_write_state collect_all s p dw) as Es. pose proof (if_write_collect s p dw) as Er.
  destruct (if_write collect_all s p dw) as [s1 r1]. destruct (i_write2 s p) as [s2 r2].
  cbn [fst snd] in Es, Er. subst s2 r2. cbn [map]. f_equal.
  destruct r1 as [att|]; cbn [handed map]; [apply IH|reflexivity].
Qed.

(* ------------------------------------------------------------------ *)
(* 2. every call carries the answer of the next writer; the joined error is exactly the failed calls *)

Lemma fec_writes_flags dw rs : forall j i d, (i < length (fec_writes collect_all dw j rs))%nat ->
  snd (nth i (fec_writes collect_all dw j rs) d) = dw (j + i)%nat.
Proof.
  induction rs as [|r rs IH]; intros j i d; cbn [fec_writes]; [cbn [length]; lia|].
  cbn [p_fec_stop collect_all]. rewrite Bool.andb_false_r. cbn [length]. intros H.
  destruct i as [|i]; cbn [nth snd].
  - f_equal. lia.
  - rewrite IH by lia. f_equal. lia.
Qed.

Lemma down_writes_flags dw p rs i d : (i < length (down_writes collect_all dw p rs))%nat ->
  snd (nth i (down_writes collect_all dw p rs) d) = dw i.
Proof.
  unfold down_writes. cbn [p_media_stop collect_all]. rewrite Bool.andb_false_r. cbn [length]. intros H.
  destruct i as [|i]; cbn [nth snd]; [reflexivity|].
  rewrite fec_writes_flags by lia. reflexivity.
Qed.

Lemma errs_from_In att : forall j0 j d, In j (errs_from j0 att) <->
  (j0 <= j < j0 + length att)%nat /\ snd (nth (j - j0) att d) = true.
Proof.
  induction att as [|[o f] tl IH]; intros j0 j d; cbn [errs_from length].
  - cbn [In]. split; [tauto|lia].
  - rewrite in_app_iff, (IH (S j0) j d). split.
    + intros [H|[H1 H2]].
      * destruct f; cbn [In] in H; [|tauto]. destruct H as [<-|[]].
        rewrite Nat.sub_diag. cbn [nth snd]. split; [lia|reflexivity].
      * split; [lia|]. replace (j - j0)%nat with (S (j - S j0)) by lia. exact H2.
    + intros [H1 H2]. destruct (Nat.eq_dec j j0) as [->|Hne].
      * rewrite Nat.sub_diag in H2. cbn [nth snd] in H2. subst f. left. left. reflexivity.
      * right. split; [lia|]. replace (j - j0)%nat with (S (j - S j0)) in H2 by lia. exact H2.
Qed.

Lemma errs_of_In att j d : In j (errs_of att) <-> (j < length att)%nat /\ snd (nth j att d) = true.
Proof.
  unfold errs_of. rewrite (errs_from_In att 0 j d). rewrite Nat.sub_0_r. split; intros [H1 H2]; (split; [lia|exact H2]).
Qed.

(* one Write of the code: the written packet first and unmodified, then repair packets only; call j got
   the answer dw j; the returned error wraps the error of call j iff call j was made and failed *)
Lemma if_write_shape s p dw : exists rs att,
  snd (if_write collect_all s p dw) = Ok att /\
  map fst att = OMedia p :: map ORepair rs /\
  (forall j d, (j < length att)%nat -> snd (nth j att d) = dw j) /\
  (forall j, In j (errs_of att) <-> (j < length att)%nat /\ dw j = true).
Proof.
  assert (K : forall rs, exists att, down_writes collect_all dw p rs = att /\
            map fst att = OMedia p :: map ORepair rs /\
            (forall j d, (j < length att)%nat -> snd (nth j att d) = dw j) /\
            (forall j, In j (errs_of att) <-> (j < length att)%nat /\ dw j = true)).
  { intros rs. eexists. split; [reflexivity|]. split; [apply down_writes_collect|]. split.
    - intros j d H. apply down_writes_flags. exact H.
    - intros j. rewrite (errs_of_In _ j (OMedia [], false)). split; intros [H1 H2]; (split; [exact H1|]).
      + rewrite <- (down_writes_flags dw p rs j (OMedia [], false) H1). exact H2.
      + rewrite (down_writes_flags dw p rs j (OMedia [], false) H1). exact H2. }
  pose proof (i_write2_no_panic s p) as N. rewrite <- if_write_collect with (dw := dw) in N.
  revert N. unfold if_write. destruct (negb _).
  - intros _. destruct (K []) as [att [E R]]. exists [], att. cbn [snd]. rewrite <- E.
    split; [|rewrite E; exact R].
    unfold down_writes. cbn [fec_writes p_media_stop collect_all]. rewrite Bool.andb_false_r. reflexivity.
  - destruct (zlen (i_buf s ++ [p]) =? i_nm s).
    + destruct (encode_fec2 _ _ _) as [e' r]. destruct r as [[rs|]|]; cbn [snd handed]; intros N.
      * destruct (K rs) as [att [E R]]. exists rs, att. rewrite E. split; [reflexivity|exact R].
      * destruct (K []) as [att [E R]]. exists [], att. rewrite E. split; [reflexivity|exact R].
      * contradiction.
    + intros _. destruct (K []) as [att [E R]]. exists [], att. cbn [snd]. rewrite E. split; [reflexivity|exact R].
Qed.

Theorem if_run_history ws : forall s,
  Forall2 (fun (pw : pkt * dwf) r => exists rs att,
             r = Ok att /\ map fst att = OMedia (fst pw) :: map ORepair rs /\
             (forall j d, (j < length att)%nat -> snd (nth j att d) = snd pw j) /\
             (forall j, In j (errs_of att) <-> (j < length att)%nat /\ snd pw j = true))
          ws (if_run collect_all s ws).
Proof.
  induction ws as [|[p dw] ws IH]; intros s; cbn [if_run]; [constructor|].
  destruct (if_write_shape s p dw) as [rs [att [E R]]].
  destruct (if_write collect_all s p dw) as [s' r]. cbn [snd] in E. subst r.
  constructor; [exists rs, att; split; [reflexivity|exact R]|apply IH].
Qed.

(* the Write that completes a batch: whatever the next writer answers - also when it fails on the media
   packet itself - every repair packet EncodeFec produced for the batch is handed to it, in order *)
Theorem if_write_batch s p dw : list_Z_eqb (ssrc_bytes p) (i_ssrc s) = true -> zlen (i_buf s ++ [p]) = i_nm s ->
  handed (snd (if_write collect_all s p dw)) =
    match snd (encode_fec2 (i_enc s) (i_buf s ++ [p]) (i_nf s)) with
    | Panic => Panic
    | Ok None => Ok [OMedia p]
    | Ok (Some rs) => Ok (OMedia p :: map ORepair rs)
    end.
Proof. intros Hs Hk. rewrite if_write_collect. apply icpt_batch2; assumption. Qed.

(* ------------------------------------------------------------------ *)
(* 3. the other error policies are refuted *)

(* media packet of the stream 0x0BADF00D: version 2, PT 96, timestamp 1234 *)
Definition fmp (sn : Z) (payload : list Z) : pkt :=
  [128; 96; sn / 256; sn mod 256; 0; 0; 4; 210; 11; 173; 240; 13] ++ payload.
Definition dw_ok : dwf := fun _ => false.
Definition dw_fail (k : nat) : dwf := fun j => Nat.eqb j k.

(* 3 media / 1 FEC across 65535 -> 0; the next writer fails on the media packet that completes the first
   batch, and on nothing else *)
Definition fail_s0 : icpt := new_icpt 3 1 115 12648430 [11; 173; 240; 13].
Definition fail_batch1 : list pkt := [fmp 65533 [253; 255; 90; 3; 195]; fmp 65534 [254; 255; 90; 10; 195]; fmp 65535 [255; 255; 90; 17; 195]].
Definition fail_ws : list (pkt * dwf) :=
  [ (nth 0 fail_batch1 [], dw_ok); (nth 1 fail_batch1 [], dw_ok); (nth 2 fail_batch1 [], dw_fail 0);
    (fmp 0 [0; 0; 90; 0; 195], dw_ok); (fmp 1 [1; 0; 90; 7; 195], dw_ok); (fmp 2 [2; 0; 90; 14; 195], dw_ok) ].

Definition repair_sns (os : list out) : list Z :=
  flat_map (fun o => match o with ORepair r => [r_sn r] | OMedia _ => [] end) os.

Theorem return_on_media_error_refuted :
  (* the seeded policy: the batch is complete, nothing but the (failed) media packet is handed on *)
  nth 2 (if_run return_on_media_error fail_s0 fail_ws) Panic = Ok [(OMedia (nth 2 fail_batch1 []), true)] /\
  (* so the receiver sees repair sequence number 1001 and never 1000 *)
  repair_sns (delivered (if_run return_on_media_error fail_s0 fail_ws)) = [1001] /\
  (* the code: the repair packet follows; it names the three packets, and the receiver, which did not get
     packet 65535, rebuilds it from the repair packet and the two packets it got *)
  (exists r h, nth 2 (if_run collect_all fail_s0 fail_ws) Panic =
                 Ok [(OMedia (nth 2 fail_batch1 []), true); (ORepair r, false)] /\
               parse03 (r_payload r) = Some h /\ f_pos h = [0; 1; 2] /\
               recovers fail_batch1 (r_payload r) h 2) /\
  repair_sns (delivered (if_run collect_all fail_s0 fail_ws)) = [1000; 1001].
Proof.
  split; [vm_compute; reflexivity|]. split; [vm_compute; reflexivity|]. split; [|vm_compute; reflexivity].
  do 2 eexists. split; [vm_compute; reflexivity|]. split; [vm_compute; reflexivity|].
  split; vm_compute; reflexivity.
Qed.

(* the hypotheses of if_write_batch hold at the third Write of fail_ws *)
Lemma failing_writer_batch_example :
  let s := fst (if_write collect_all (fst (if_write collect_all fail_s0 (nth 0 fail_batch1 []) dw_ok))
                         (nth 1 fail_batch1 []) dw_ok) in
  list_Z_eqb (ssrc_bytes (nth 2 fail_batch1 [])) (i_ssrc s) = true /\
  zlen (i_buf s ++ [nth 2 fail_batch1 []]) = i_nm s.
Proof. split; vm_compute; reflexivity. Qed.

(* 2 media / 2 FEC; the next writer fails on the first repair packet.  Leaving the loop there means the
   second repair packet - the only one that names packet 1 - is never handed on *)
Definition fail_s1 : icpt := new_icpt 2 2 115 12648430 [11; 173; 240; 13].
Definition fail_ws1 : list (pkt * dwf) := [ (fmp 7 [9], dw_ok); (fmp 8 [10; 11], dw_fail 1) ].

Theorem stop_on_fec_error_refuted :
  (exists r0 h0, nth 1 (if_run stop_on_fec_error fail_s1 fail_ws1) Panic =
                   Ok [(OMedia (fmp 8 [10; 11]), false); (ORepair r0, true)] /\
                 parse03 (r_payload r0) = Some h0 /\ f_pos h0 = [0]) /\
  (exists r0 r1 h1, nth 1 (if_run collect_all fail_s1 fail_ws1) Panic =
                   Ok [(OMedia (fmp 8 [10; 11]), false); (ORepair r0, true); (ORepair r1, false)] /\
                 parse03 (r_payload r1) = Some h1 /\ f_pos h1 = [1] /\
                 recovers (map fst fail_ws1) (r_payload r1) h1 1).
Proof.
  split.
  - do 2 eexists. split; [vm_compute; reflexivity|]. split; vm_compute; reflexivity.
  - do 3 eexists. split; [vm_compute; reflexivity|]. split; [vm_compute; reflexivity|]. split; vm_compute; reflexivity.
Qed.
