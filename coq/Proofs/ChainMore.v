(* C01, deepening round: proofs for
     - the packet dumper's treatment of the shared RTCP slice (Model/DumpLog.v),
     - the packetdump receiver's RTCP read side after it stopped using the parse cache,
     - injections (retransmissions) passing the members below EXACTLY when no TWCC
       header-extension member is among them,
     - what the members do with packets outside the scope (refuse, send nothing). *)
From IV Require Import Base.Word Model.TwccHdrExt Model.Chain Model.DumpLog.
From IV Require Import Proofs.TwccHdrExtProofs Proofs.ChainProofs Check.C01Check Proofs.ChainInstanceProofs.
From Coq Require Import Lia.
Open Scope Z_scope.

(* ------------------------------------------------------------------------- *)
(* writeDumpedRTCP and the shared slice                                        *)

Section DumpProofs.
  Variable P : Type.
  Variable batch_ok : list P -> bool.
  Variable pkt_ok : P -> bool.

  Lemma dump_loop_spec arr i rest out :
    dump_loop pkt_ok arr i rest out = (out ++ filter pkt_ok rest, arr).
  Proof.
    revert i out; induction rest as [|p tl IH]; intros i out; cbn [dump_loop filter].
    - rewrite app_nil_r; reflexivity.
    - destruct (pkt_ok p); rewrite IH; [rewrite <- app_assoc|]; reflexivity.
  Qed.

  (* the backing array of the batch is exactly what it was: for every filter pair, every batch *)
  Theorem write_dumped_rtcp_keeps arr : snd (write_dumped_rtcp batch_ok pkt_ok arr) = arr.
  Proof.
    unfold write_dumped_rtcp. destruct (batch_ok arr); cbn [negb]; [|reflexivity].
    rewrite dump_loop_spec; reflexivity.
  Qed.

  (* and what is dumped is the accepted packets, in order, when the batch filter accepts *)
  Theorem write_dumped_rtcp_dumps arr :
    fst (write_dumped_rtcp batch_ok pkt_ok arr) = if batch_ok arr then filter pkt_ok arr else [].
  Proof.
    unfold write_dumped_rtcp. destruct (batch_ok arr); cbn [negb]; [|reflexivity].
    rewrite dump_loop_spec; reflexivity.
  Qed.
End DumpProofs.

(* the in-place variant dumps the same packets but alters the shared slice: a batch
   [RR; PLI; NACK] with a filter rejecting receiver reports ends as [PLI; NACK; NACK] *)
Lemma inplace_same_dump :
  fst (write_dumped_rtcp_inplace (fun _ => true) (fun k => negb (k =? 201)) [201; 206; 205]) =
  fst (write_dumped_rtcp (fun _ => true) (fun k => negb (k =? 201)) [201; 206; 205]).
Proof. reflexivity. Qed.

Lemma inplace_alters_batch :
  snd (write_dumped_rtcp_inplace (fun _ => true) (fun k => negb (k =? 201)) [201; 206; 205]) = [206; 205; 205].
Proof. reflexivity. Qed.

(* the check-level model (Check/C01Check.v): no member changes a shared RTCP slice *)
Lemma slice_after_chain_id dk ms arr : slice_after_chain dk ms arr = arr.
Proof.
  unfold slice_after_chain. revert arr; induction ms as [|m ms IH]; intros arr; cbn [fold_left]; [reflexivity|].
  rewrite IH. unfold slice_after_member. destruct (fst m =? dk); [apply write_dumped_rtcp_keeps|reflexivity].
Qed.

(* ------------------------------------------------------------------------- *)
(* packetdump receiver, RTCP: the cache is neither consulted nor filled        *)

Section NoCache.
  Variables (D H : Type) (parse : D -> option H).

  Lemma parse_nocache_cache S (inner : reader D H S) a own s :
    let r := snd (inner a s) in
    let R := snd (r_parse_nocache parse S inner a (own, s)) in
    re D H r = [] -> parse (rd D H r) <> None ->
    exists x, ra D H R = Some x /\ a_cache x = a_cache (or_fresh (ra D H r)) /\ a_id x = a_id (or_fresh (ra D H r)).
  Proof.
    cbv zeta. unfold r_parse_nocache. destruct (inner a s) as [s' [[[n d] at_] e]]. cbn [fst snd rd ra re rn].
    intros -> Hp. destruct (parse d) as [h|]; [|congruence]. cbn [fst snd ra]. eauto.
  Qed.
End NoCache.

(* ------------------------------------------------------------------------- *)
(* injections pass EXACTLY when the members below are transparent w.r.t. equality *)

Section InjectExact.
  Variable P : Type.
  Variable Pok : P -> Prop.

  Theorem inject_exact (l : list (wrapper P)) k :
    Forall (transparent P eq Pok) (skipn (Datatypes.S k) l) ->
    forall S (inner : writer P S) sts s q, Pok q ->
    exists inj sts' extra, Forall Pok inj /\
      chain_inject l k inner q (sts, s) =
        ((firstn (Datatypes.S k) sts ++ sts', fst (run_list inner (q :: inj) s)),
         (fst (hdres (snd (run_list inner (q :: inj) s))),
          snd (hdres (snd (run_list inner (q :: inj) s))) ++ extra)) /\
      incl extra (flat_map snd (tl (snd (run_list inner (q :: inj) s)))).
  Proof.
    intros Hsk S inner sts s q Hq.
    destruct (chain_transparent_outer P eq (@eq_refl P) (@eq_trans P) Pok _ Hsk S inner (skipn (Datatypes.S k) sts) s q Hq)
      as (q' & inj & sts' & extra & Hu & Hq' & Hinj & Heq & Hincl).
    subst q'. exists inj, sts', extra. split; [exact Hinj|]. split; [|exact Hincl].
    unfold chain_inject. unfold chainL in Heq. rewrite Heq. reflexivity.
  Qed.
End InjectExact.

(* every library member except the TWCC header-extension member (and that one too when no id
   is negotiated) hands the packet on EXACTLY as it got it *)
Lemma wr_of_transparent_eq c m : fst m <> 6 \/ c_sid c = 0 ->
  transparent pkt eq (Pok_c c) (wr_of c m).
Proof.
  intros Hm. unfold wr_of. cbv zeta.
  destruct (fst m =? 2).
  { apply transparent_responder; [reflexivity|]. intros p; apply np_fail_scope. }
  destruct ((fst m =? 4) || (fst m =? 8) || (fst m =? 9) || (fst m =? 11) || (fst m =? 15)).
  { apply transparent_record; reflexivity. }
  destruct (fst m =? 6) eqn:E6.
  { destruct Hm as [Hm|Hm]; [apply Z.eqb_eq in E6; contradiction|].
    apply (transparent_twcc_ext pkt eq (@eq_refl pkt) (Pok_c c) set_tcc (fun _ => False)).
    - intros sid n p [].
    - left; exact Hm. }
  destruct (fst m =? 13).
  { apply transparent_flexfec; [reflexivity|]. apply encode_scope. }
  apply transparent_id; reflexivity.
Qed.

(* [outer] lists the members OUTERMOST FIRST (= rev of Chain.interceptors); k is the outer index
   of the injecting member (the responder) *)
Theorem library_inject_exact c (outer : list member_desc) k :
  Forall (fun m => fst m <> 6 \/ c_sid c = 0) (skipn (Datatypes.S k) outer) ->
  forall S (inner : writer pkt S) sts s q, Pok_c c q ->
  exists inj sts' extra, Forall (Pok_c c) inj /\
    chain_inject (map (wr_of c) outer) k inner q (sts, s) =
      ((firstn (Datatypes.S k) sts ++ sts', fst (run_list inner (q :: inj) s)),
       (fst (hdres (snd (run_list inner (q :: inj) s))),
        snd (hdres (snd (run_list inner (q :: inj) s))) ++ extra)) /\
    incl extra (flat_map snd (tl (snd (run_list inner (q :: inj) s)))).
Proof.
  intros Hb. apply inject_exact. rewrite skipn_map. apply Forall_forall. intros w Hw.
  apply in_map_iff in Hw as (m & <- & Hin). apply wr_of_transparent_eq.
  rewrite Forall_forall in Hb. apply Hb; exact Hin.
Qed.

(* in general (a TWCC header-extension member may be below): up to that extension *)
Theorem library_inject_transparent c (outer : list member_desc) k :
  c_sid c = 0 \/ 1 <= c_sid c <= 14 ->
  forall S (inner : writer pkt S) sts s q, Pok_c c q ->
  exists q' inj sts' extra, upto_tcc (c_sid c) q q' /\ Pok_c c q' /\ Forall (Pok_c c) inj /\
    chain_inject (map (wr_of c) outer) k inner q (sts, s) =
      ((firstn (Datatypes.S k) sts ++ sts', fst (run_list inner (q' :: inj) s)),
       (fst (hdres (snd (run_list inner (q' :: inj) s))),
        snd (hdres (snd (run_list inner (q' :: inj) s))) ++ extra)) /\
    incl extra (flat_map snd (tl (snd (run_list inner (q' :: inj) s)))).
Proof.
  intros Hsid. apply inject_transparent; [apply upto_tcc_refl|apply upto_tcc_trans|].
  apply Forall_forall. intros w Hw. apply in_map_iff in Hw as (m & <- & _).
  apply wr_of_transparent; exact Hsid.
Qed.

(* ------------------------------------------------------------------------- *)
(* outside the scope: refused with an error, nothing sent, nothing recorded    *)

Section Refuse.
  Variable P : Type.
  Variables (same_stream np_fail : P -> bool).

  (* responder: NewPacket fails (payload above 1460 bytes; legacy padding count above the payload
     on an RTX stream) - the inner writer is not called, the buffer is not touched *)
  Lemma responder_refuses S (inner : writer P S) p w s :
    same_stream p = true -> np_fail p = true ->
    w_responder same_stream np_fail true S inner p (w, s) = ((w, s), (0, [E_NEWPACKET])).
  Proof. intros Hs Hf. unfold w_responder. cbn [negb]. rewrite Hs, Hf. reflexivity. Qed.

  (* ... and packets of other streams are never refused, whatever their size *)
  Lemma responder_other_stream S (inner : writer P S) p w s bound :
    same_stream p = false ->
    w_responder same_stream np_fail bound S inner p (w, s) =
    ((w, fst (inner p s)), snd (inner p s)).
  Proof.
    intros Hs. unfold w_responder, w_id. destruct bound; cbn [negb]; [rewrite Hs; cbn [negb]|];
      destruct (inner p s); reflexivity.
  Qed.

  Variable set_tcc : Z -> Z -> P -> option P.
  (* twcc header extension: SetExtension fails - the inner writer is not called; the
     transport-wide counter has been consumed all the same (atomic.AddUint32 comes first) *)
  Lemma twcc_ext_refuses S (inner : writer P S) p w s sid :
    sid <> 0 -> set_tcc sid (w_ctr w) p = None ->
    w_twcc_ext set_tcc sid S inner p (w, s) =
    ((mkWs ((w_ctr w + 1) mod 4294967296) (w_log w), s), (0, [E_SETEXT])).
  Proof.
    intros Hsid Hset. unfold w_twcc_ext. destruct (sid =? 0) eqn:E; [apply Z.eqb_eq in E; contradiction|].
    rewrite Hset. reflexivity.
  Qed.
End Refuse.

(* the concrete refusal conditions of the responder's packet factory *)
Lemma np_fail_iff dc rtx p :
  np_fail dc rtx p = true <->
  dc = false /\ (1460 < p_len p \/ (rtx = true /\ legacy_overflow p = true)).
Proof.
  unfold np_fail. destruct dc; cbn [negb andb]; [split; [discriminate|intros [H _]; discriminate]|].
  rewrite Bool.orb_true_iff, Bool.andb_true_iff, Z.gtb_lt. split; [intros H; split; [reflexivity|tauto]|tauto].
Qed.

Lemma legacy_overflow_iff p :
  legacy_overflow p = true <->
  h_padding (p_hdr p) = 1 /\ h_padsize (p_hdr p) = 0 /\ 0 < p_len p < last_byte p.
Proof.
  unfold legacy_overflow, legacy_form. rewrite !Bool.andb_true_iff, !Z.eqb_eq, !Z.ltb_lt. tauto.
Qed.

(* flexfec: at most the configured number of FEC packets, and never more than the 110 rows of
   the coverage table *)
Lemma encode_length c nfec buf :
  (length (encode c nfec buf) <= Z.to_nat nfec)%nat /\ (length (encode c nfec buf) <= 110)%nat.
Proof.
  unfold encode. destruct (_ && _); [|cbn; lia].
  rewrite repeat_length. lia.
Qed.

(* legacy-padded media packets are protected like any other: the count depends on the batch
   only through its length and the order of its sequence numbers *)
Lemma encode_count c nfec buf :
  consecutive (map (fun p => h_seq (p_hdr p)) buf) = true -> (1 <= length buf <= 109)%nat ->
  encode c nfec buf = repeat (fec_pkt c) (Z.to_nat (Z.min nfec 110)).
Proof.
  intros Hc [H1 H2]. unfold encode. rewrite Hc.
  apply Nat.leb_le in H1, H2. rewrite H1, H2. reflexivity.
Qed.

(* ------------------------------------------------------------------------- *)
(* the aliasing oracle says what it should: code 0 iff the object, at all four observation
   points, is what was handed in (kinds other than RTP writes, which compare up to TWCC) *)
Lemma alias_code_zero_iff sid tbl kind op cp cret cend tret tend : kind <> 1 ->
  alias_code sid tbl (kind, op, cp, (cret, cend), (tret, tend)) = 0%nat <->
  cret = cp /\ tret = cp /\ cend = cp /\ tend = cp.
Proof.
  intros Hk. unfold alias_code. destruct (kind =? 1) eqn:E; [apply Z.eqb_eq in E; contradiction|].
  destruct (list_eqb Z.eqb cp cret) eqn:E1; cbn [negb].
  2:{ split; [intros H; exfalso; lia|]. intros (-> & _). assert (list_eqb Z.eqb cp cp = true) by (apply list_eqb_Z_eq; reflexivity). congruence. }
  destruct (list_eqb Z.eqb cp tret) eqn:E2; cbn [negb].
  2:{ split; [intros H; exfalso; lia|]. intros (_ & -> & _). assert (list_eqb Z.eqb cp cp = true) by (apply list_eqb_Z_eq; reflexivity). congruence. }
  destruct (list_eqb Z.eqb cp cend) eqn:E3; cbn [negb].
  2:{ split; [intros H; exfalso; lia|]. intros (_ & _ & -> & _). assert (list_eqb Z.eqb cp cp = true) by (apply list_eqb_Z_eq; reflexivity). congruence. }
  destruct (list_eqb Z.eqb cp tend) eqn:E4; cbn [negb].
  2:{ split; [intros H; exfalso; lia|]. intros (_ & _ & _ & ->). assert (list_eqb Z.eqb cp cp = true) by (apply list_eqb_Z_eq; reflexivity). congruence. }
  apply list_eqb_Z_eq in E1, E2, E3, E4. subst. tauto.
Qed.
