(* arrival_map_refines: the concrete circular buffer (cmap: reallocate,
   adjustToSize, setNotReceived, index = sn mod capacity) implements the
   abstract map (amap) operation by operation. *)
From IV Require Import Base.Word Model.ArrivalMap Proofs.ArrivalMapProofs.
From Coq Require Import ZifyBool.
Ltac Zify.zify_post_hook ::= Z.div_mod_to_equations.

(* ---- lists ---- *)
Lemma list_set_length l : forall i v, length (list_set l i v) = length l.
Proof. induction l as [|x tl IH]; intros [|i] v; cbn [list_set length]; auto. Qed.

Lemma nth_list_set_same l : forall i v, (i < length l)%nat -> nth i (list_set l i v) 0 = v.
Proof.
  induction l as [|x tl IH]; intros [|i] v H; cbn [list_set nth length] in *; try lia; try reflexivity.
  apply IH. lia.
Qed.

Lemma nth_list_set_other l : forall i j v, i <> j -> nth j (list_set l i v) 0 = nth j l 0.
Proof.
  induction l as [|x tl IH]; intros [|i] [|j] v H; cbn [list_set nth]; auto; try congruence.
Qed.

Lemma nth_repeat0 n i : nth i (repeat 0 n) 0 = 0.
Proof. revert i; induction n as [|n IH]; intros [|i]; cbn [repeat nth]; auto. Qed.

(* ---- slots ---- *)
(* the slot of sequence number sn in a buffer *)
Definition slot (buf : list Z) (sn : Z) : Z := nth (Z.to_nat (sn mod Z.of_nat (length buf))) buf 0.
Definition put (buf : list Z) (sn v : Z) : list Z := list_set buf (Z.to_nat (sn mod Z.of_nat (length buf))) v.

Lemma put_length buf sn v : length (put buf sn v) = length buf.
Proof. apply list_set_length. Qed.

Lemma slot_put_same buf sn v : (0 < length buf)%nat -> slot (put buf sn v) sn = v.
Proof.
  intros H. unfold slot, put. rewrite list_set_length. apply nth_list_set_same.
  assert (0 <= sn mod Z.of_nat (length buf) < Z.of_nat (length buf)) by (apply Z.mod_pos_bound; lia). lia.
Qed.

(* two different numbers less than one capacity apart use different slots *)
Lemma mod_inj c a b : 0 < c -> a mod c = b mod c -> Z.abs (a - b) < c -> a = b.
Proof.
  intros Hc Hm Hd.
  assert (Hz : (a - b) mod c = 0).
  { rewrite Zminus_mod, Hm, Z.sub_diag. apply Z.mod_0_l. lia. }
  apply Z.mod_divide in Hz; [|lia]. destruct Hz as [q Hq].
  assert (q = 0) by nia. subst q. lia.
Qed.

Lemma slot_put_other buf sn sn' v : (0 < length buf)%nat -> sn <> sn' ->
  Z.abs (sn - sn') < Z.of_nat (length buf) -> slot (put buf sn v) sn' = slot buf sn'.
Proof.
  intros H Hne Hd. unfold slot, put. rewrite list_set_length. apply nth_list_set_other.
  intros Heq. apply Hne. apply (mod_inj (Z.of_nat (length buf))); lia.
Qed.

Lemma cm_get_slot m sn : cm_get m sn = if (sn <? cm_begin m) || (sn >=? cm_end m) then -1 else slot (cm_buf m) sn.
Proof. reflexivity. Qed.

Lemma cm_store_put m sn v : cm_store m sn v = mkCmap (put (cm_buf m) sn v) (cm_begin m) (cm_end m).
Proof. reflexivity. Qed.

(* ---- reallocate ---- *)
Lemma cm_copy_spec old newCap : 0 < newCap -> forall n sn buf,
  Z.of_nat (length buf) = newCap ->
  length (cm_copy n sn old newCap buf) = length buf /\
  (forall k, k < sn -> sn + Z.of_nat n - k <= newCap -> slot (cm_copy n sn old newCap buf) k = slot buf k) /\
  (Z.of_nat n <= newCap -> forall k, sn <= k < sn + Z.of_nat n -> slot (cm_copy n sn old newCap buf) k = cm_get old k).
Proof.
  intros Hc. induction n as [|n IH]; intros sn buf Hlen; cbn [cm_copy].
  - split; [reflexivity|]. split; [reflexivity|]. intros; lia.
  - assert (Hput : list_set buf (Z.to_nat (sn mod newCap)) (cm_get old sn) = put buf sn (cm_get old sn))
      by (unfold put; rewrite Hlen; reflexivity).
    rewrite Hput.
    destruct (IH (sn + 1) (put buf sn (cm_get old sn)) ltac:(rewrite put_length; exact Hlen)) as (H1 & H2 & H3).
    split; [rewrite H1; apply put_length|]. split.
    + intros k Hk Hw. rewrite H2 by lia. apply slot_put_other; lia.
    + intros Hn k Hk. destruct (k =? sn) eqn:E.
      * assert (k = sn) by lia. subst k. rewrite H2 by lia. apply slot_put_same. lia.
      * apply H3; lia.
Qed.

Lemma cm_reallocate_spec m newCap :
  0 < newCap -> cm_end m - cm_begin m <= newCap ->
  let m' := cm_reallocate m newCap in
  cm_begin m' = cm_begin m /\ cm_end m' = cm_end m /\ Z.of_nat (length (cm_buf m')) = newCap /\
  forall k, cm_get m' k = cm_get m k.
Proof.
  intros Hc Hfit. cbv zeta. unfold cm_reallocate. cbn [cm_begin cm_end cm_buf].
  assert (Hlen0 : Z.of_nat (length (repeat 0 (Z.to_nat newCap))) = newCap) by (rewrite repeat_length; lia).
  destruct (cm_copy_spec m newCap Hc (Z.to_nat (cm_end m - cm_begin m)) (cm_begin m) _ Hlen0) as (H1 & _ & H3).
  split; [reflexivity|]. split; [reflexivity|]. split; [rewrite H1; exact Hlen0|].
  intros k. rewrite cm_get_slot. cbn [cm_begin cm_end cm_buf].
  destruct ((k <? cm_begin m) || (k >=? cm_end m)) eqn:E.
  - unfold cm_get. rewrite E. reflexivity.
  - apply H3; lia.
Qed.

(* ---- adjustToSize ---- *)
Lemma grow_cap_ge fuel : forall c n, 0 < c -> n <= c * 2 ^ Z.of_nat fuel -> n <= grow_cap fuel c n.
Proof.
  induction fuel as [|fuel IH]; intros c n Hc Hn; cbn [grow_cap].
  - cbn in Hn. lia.
  - destruct (c <? n) eqn:E; [|lia]. apply IH; [lia|].
    rewrite Nat2Z.inj_succ, Z.pow_succ_r in Hn by lia. lia.
Qed.

Lemma grow_cap_pos fuel : forall c n, 0 < c -> 0 < grow_cap fuel c n.
Proof. induction fuel as [|fuel IH]; intros c n Hc; cbn [grow_cap]; [lia|]. destruct (c <? n); [apply IH; lia|lia]. Qed.

Lemma shrink_cap_ge fuel : forall c n, Z.max n 128 <= c -> Z.max n 128 <= shrink_cap fuel c n.
Proof.
  induction fuel as [|fuel IH]; intros c n Hc; cbn [shrink_cap]; [lia|].
  destruct (c >=? 2 * Z.max n 128) eqn:E; [|lia]. apply IH. lia.
Qed.

(* adjustToSize(newSize) keeps every get and leaves room for newSize slots *)
Lemma cm_adjust_spec m newSize :
  0 < cm_cap m -> cm_end m - cm_begin m <= newSize -> newSize <= 32768 ->
  let m' := cm_adjust m newSize in
  cm_begin m' = cm_begin m /\ cm_end m' = cm_end m /\ newSize <= cm_cap m' /\ 0 < cm_cap m' /\
  forall k, cm_get m' k = cm_get m k.
Proof.
  intros Hcap Hfit Hmax. cbv zeta. unfold cm_adjust.
  set (m1 := if newSize >? cm_cap m then cm_reallocate m (grow_cap 64 (cm_cap m) newSize) else m).
  assert (H1 : cm_begin m1 = cm_begin m /\ cm_end m1 = cm_end m /\ newSize <= cm_cap m1 /\ 0 < cm_cap m1 /\
               forall k, cm_get m1 k = cm_get m k).
  { unfold m1. destruct (newSize >? cm_cap m) eqn:E.
    - assert (Hg : newSize <= grow_cap 64 (cm_cap m) newSize).
      { apply grow_cap_ge; [lia|]. assert (32768 <= 2 ^ Z.of_nat 64) by (vm_compute; discriminate). nia. }
      pose proof (grow_cap_pos 64 (cm_cap m) newSize Hcap) as Hp.
      destruct (cm_reallocate_spec m _ Hp ltac:(lia)) as (A & B & C & D).
      assert (C' : cm_cap (cm_reallocate m (grow_cap 64 (cm_cap m) newSize)) = grow_cap 64 (cm_cap m) newSize) by exact C.
      rewrite C'. repeat split; auto; lia.
    - repeat split; auto; lia. }
  destruct H1 as (A1 & B1 & C1 & P1 & D1).
  destruct (cm_cap m1 >? Z.max 128 (newSize * 4)) eqn:E2.
  - pose proof (shrink_cap_ge 64 (cm_cap m1) newSize ltac:(lia)) as Hs.
    destruct (cm_reallocate_spec m1 (shrink_cap 64 (cm_cap m1) newSize) ltac:(lia) ltac:(lia)) as (A & B & C & D).
    assert (C' : cm_cap (cm_reallocate m1 (shrink_cap 64 (cm_cap m1) newSize)) = shrink_cap 64 (cm_cap m1) newSize) by exact C.
    rewrite C'. split; [congruence|]. split; [congruence|]. split; [lia|]. split; [lia|].
    intros k. rewrite D. apply D1.
  - repeat split; auto.
Qed.

Lemma cm_reallocate_length m newCap : 0 < newCap -> Z.of_nat (length (cm_buf (cm_reallocate m newCap))) = newCap.
Proof.
  intros Hc. unfold cm_reallocate. cbn [cm_buf].
  assert (Hlen0 : Z.of_nat (length (repeat 0 (Z.to_nat newCap))) = newCap) by (rewrite repeat_length; lia).
  destruct (cm_copy_spec m newCap Hc (Z.to_nat (cm_end m - cm_begin m)) (cm_begin m) _ Hlen0) as (H1 & _ & _).
  rewrite H1. exact Hlen0.
Qed.

(* ---- setNotReceived ---- *)
Lemma cm_clear_spec n : forall sn m, 0 < cm_cap m ->
  let m' := cm_clear n sn m in
  cm_begin m' = cm_begin m /\ cm_end m' = cm_end m /\ cm_cap m' = cm_cap m /\
  (forall k, k < sn -> sn + Z.of_nat n - k <= cm_cap m -> slot (cm_buf m') k = slot (cm_buf m) k) /\
  (forall k, sn + Z.of_nat n <= k -> k - sn < cm_cap m -> slot (cm_buf m') k = slot (cm_buf m) k) /\
  (Z.of_nat n <= cm_cap m -> forall k, sn <= k < sn + Z.of_nat n -> slot (cm_buf m') k = -1).
Proof.
  induction n as [|n IH]; intros sn m Hc; cbn [cm_clear]; cbv zeta.
  - repeat split; auto; intros; lia.
  - assert (Hc' : 0 < cm_cap (cm_store m sn (-1))) by (unfold cm_cap; rewrite cm_store_put; cbn [cm_buf]; rewrite put_length; exact Hc).
    assert (Hcap : cm_cap (cm_store m sn (-1)) = cm_cap m) by (unfold cm_cap; rewrite cm_store_put; cbn [cm_buf]; rewrite put_length; reflexivity).
    destruct (IH (sn + 1) (cm_store m sn (-1)) Hc') as (A & B & C & D & E & F). cbv zeta in *.
    rewrite Hcap in *. unfold cm_cap in Hc.
    split; [rewrite A; reflexivity|]. split; [rewrite B; reflexivity|]. split; [exact C|].
    split; [|split].
    + intros k Hk Hw. rewrite D by lia. rewrite cm_store_put. cbn [cm_buf]. apply slot_put_other; unfold cm_cap in *; lia.
    + intros k Hk Hw. rewrite E by lia. rewrite cm_store_put. cbn [cm_buf]. apply slot_put_other; unfold cm_cap in *; lia.
    + intros Hn k Hk. destruct (k =? sn) eqn:Ek.
      * assert (k = sn) by lia. subst k. rewrite D by lia. rewrite cm_store_put. cbn [cm_buf]. apply slot_put_same. lia.
      * apply F; lia.
Qed.

(* ---- lookups in the abstract entries ---- *)
Lemma ent_get_set k k' v : forall l, ent_get k (ent_set k' v l) = if k =? k' then v else ent_get k l.
Proof.
  induction l as [|[k0 v0] tl IH]; cbn [ent_set ent_get].
  - destruct (k =? k'); reflexivity.
  - destruct (k' <? k0) eqn:E1; [|destruct (k' =? k0) eqn:E2]; cbn [ent_get].
    + destruct (k =? k'); reflexivity.
    + destruct (k =? k') eqn:E3; [reflexivity|]. replace (k =? k0) with false by lia. reflexivity.
    + rewrite IH. destruct (k =? k0) eqn:E4; [|reflexivity]. replace (k =? k') with false by lia. reflexivity.
Qed.

Lemma ent_get_from b k : forall l, b <= k -> ent_get k (ent_from b l) = ent_get k l.
Proof.
  intros l Hb. unfold ent_from. induction l as [|[k0 v0] tl IH]; cbn [filter ent_get fst]; [reflexivity|].
  destruct (b <=? k0) eqn:E; cbn [ent_get].
  - rewrite IH. reflexivity.
  - replace (k =? k0) with false by lia. exact IH.
Qed.

Lemma ent_get_above hi k : forall l, below hi l -> hi <= k -> ent_get k l = -1.
Proof.
  intros l H Hk. induction H as [|[k0 v0] tl H0 _ IH]; cbn [ent_get]; [reflexivity|].
  cbn [fst] in H0. replace (k =? k0) with false by lia. exact IH.
Qed.

(* ---- the refinement relation ---- *)
Definition cm_alloc (c : cmap) : bool := match cm_buf c with [] => false | _ => true end.

Definition cm_rel (c : cmap) (a : amap) : Prop :=
  m_alloc a = cm_alloc c /\ cm_begin c = m_begin a /\ cm_end c = m_end a /\
  (cm_alloc c = true -> cm_end c - cm_begin c <= cm_cap c) /\
  (forall k, cm_begin c <= k < cm_end c -> slot (cm_buf c) k = ent_get k (m_ent a)).

Lemma cm_rel_empty : cm_rel cm_empty am_empty.
Proof. repeat split; cbn; intros; try lia; discriminate. Qed.

(* every read agrees *)
Theorem cm_rel_get c a k : cm_rel c a -> cm_get c k = am_get a k.
Proof.
  intros (_ & Hb & He & _ & Hs). rewrite cm_get_slot. unfold am_get. rewrite Hb, He.
  destruct ((k <? m_begin a) || (k >=? m_end a)) eqn:E; [reflexivity|]. apply Hs. lia.
Qed.

Lemma cm_alloc_cap c : cm_alloc c = true -> 0 < cm_cap c.
Proof. unfold cm_alloc, cm_cap. destruct (cm_buf c); [discriminate|cbn [length]; lia]. Qed.

Lemma cap_alloc c : 0 < cm_cap c -> cm_alloc c = true.
Proof. unfold cm_alloc, cm_cap. destruct (cm_buf c); [cbn; lia|reflexivity]. Qed.

Lemma mk_rel c a : m_alloc a = true -> 0 < cm_cap c ->
  cm_begin c = m_begin a -> cm_end c = m_end a -> cm_end c - cm_begin c <= cm_cap c ->
  (forall k, cm_begin c <= k < cm_end c -> slot (cm_buf c) k = ent_get k (m_ent a)) -> cm_rel c a.
Proof. intros Ha Hc Hb He Hw Hs. split; [rewrite Ha; symmetry; apply cap_alloc, Hc|]. repeat split; auto. Qed.

Definition cm_add_body (m : cmap) (sn t : Z) : cmap :=
    if (cm_begin m <=? sn) && (sn <? cm_end m) then cm_store m sn t
    else if sn <? cm_begin m then
      let newSize := cm_end m - sn in
      if newSize >? 32768 then m
      else
        let m1 := cm_adjust m newSize in
        let m2 := cm_store m1 sn t in
        let m3 := cm_set_not_received m2 (sn + 1) (cm_begin m2) in
        mkCmap (cm_buf m3) sn (cm_end m3)
    else
      let newEnd := sn + 1 in
      if newEnd >=? cm_end m + 32768 then cm_store (mkCmap (cm_buf m) sn newEnd) sn t
      else
        let m0 := if cm_begin m <? newEnd - 32768 then mkCmap (cm_buf m) (newEnd - 32768) (cm_end m) else m in
        let m1 := cm_adjust m0 (newEnd - cm_begin m0) in
        let m2 := cm_set_not_received m1 (cm_end m1) sn in
        cm_store (mkCmap (cm_buf m2) (cm_begin m2) newEnd) sn t.

Lemma cm_add_unfold m sn t : cm_add m sn t =
  if cm_alloc m then cm_add_body m sn t
  else cm_store (mkCmap (cm_buf (cm_reallocate m 128)) sn (sn + 1)) sn t.
Proof. unfold cm_add, cm_alloc, cm_add_body. destruct (cm_buf m); reflexivity. Qed.

Lemma cap_store m sn v : cm_cap (cm_store m sn v) = cm_cap m.
Proof. unfold cm_cap. rewrite cm_store_put. cbn [cm_buf]. rewrite put_length. reflexivity. Qed.

(* AddPacket: the buffer implements the abstract map *)
Theorem cm_add_refines c a sn t : cm_rel c a -> am_inv a -> cm_rel (cm_add c sn t) (am_add a sn t).
Proof.
  intros (Hal & Hb & He & Hw & Hs) (Ha & Hbel & Hle & Hwin).
  rewrite cm_add_unfold. unfold am_add. rewrite Hal.
  destruct (cm_alloc c) eqn:Ealloc; cbn [negb].
  2:{ (* first packet *)
    pose proof (cm_reallocate_length c 128 ltac:(lia)) as Hlen.
    apply mk_rel; cbn [m_alloc m_begin m_end m_ent]; rewrite ?cap_store; unfold cm_cap; rewrite ?cm_store_put; cbn [cm_buf cm_begin cm_end]; rewrite ?put_length; try lia; try reflexivity.
    intros k Hk. assert (k = sn) by lia. subst k. rewrite slot_put_same by lia. cbn [ent_get]. rewrite Z.eqb_refl. reflexivity. }
  pose proof (cm_alloc_cap c Ealloc) as Hcap. specialize (Hw eq_refl).
  unfold cm_add_body. rewrite Hb, He.
  destruct ((m_begin a <=? sn) && (sn <? m_end a)) eqn:Ein.
  { (* inside the range *)
    apply mk_rel; cbn [m_alloc m_begin m_end m_ent]; rewrite ?cap_store; rewrite ?cm_store_put; cbn [cm_buf cm_begin cm_end]; try lia; try reflexivity.
    intros k Hk. rewrite ent_get_set. destruct (k =? sn) eqn:Ek.
    - assert (k = sn) by lia. subst k. apply slot_put_same. unfold cm_cap in Hcap. lia.
    - rewrite slot_put_other by (unfold cm_cap in *; lia). apply Hs. lia. }
  destruct (sn <? m_begin a) eqn:Elt.
  { (* before the range *)
    cbv zeta. destruct (m_end a - sn >? 32768) eqn:Ebig.
    { split; [congruence|]. split; [exact Hb|]. split; [exact He|]. split; [intros _; exact Hw|exact Hs]. }
    destruct (cm_adjust_spec c (m_end a - sn) Hcap ltac:(lia) ltac:(lia)) as (A1 & B1 & C1 & P1 & D1). cbv zeta in *.
    set (m1 := cm_adjust c (m_end a - sn)) in *.
    set (m2 := cm_store m1 sn t).
    assert (Hcap2 : cm_cap m2 = cm_cap m1) by apply cap_store.
    destruct (cm_clear_spec (Z.to_nat (cm_begin m2 - (sn + 1))) (sn + 1) m2 ltac:(lia)) as (A3 & B3 & C3 & D3 & E3 & F3).
    cbv zeta in *. fold (cm_set_not_received m2 (sn + 1) (cm_begin m2)) in *.
    set (m3 := cm_set_not_received m2 (sn + 1) (cm_begin m2)) in *.
    assert (Hb2 : cm_begin m2 = m_begin a) by (unfold m2; rewrite cm_store_put; cbn [cm_begin]; lia).
    assert (He2 : cm_end m2 = m_end a) by (unfold m2; rewrite cm_store_put; cbn [cm_end]; lia).
    assert (Hslot1 : forall k, m_begin a <= k < m_end a -> slot (cm_buf m1) k = ent_get k (m_ent a)).
    { intros k Hk. specialize (D1 k). rewrite !cm_get_slot in D1.
      replace ((k <? cm_begin m1) || (k >=? cm_end m1)) with false in D1 by lia.
      replace ((k <? cm_begin c) || (k >=? cm_end c)) with false in D1 by lia.
      rewrite D1. apply Hs. lia. }
    apply mk_rel; cbn [m_alloc m_begin m_end m_ent cm_buf cm_begin cm_end]; try reflexivity; try lia.
    - change (0 < cm_cap m3). lia.
    - change (cm_end m3 - sn <= cm_cap m3). lia.
    - intros k Hk. rewrite ent_get_set. destruct (k =? sn) eqn:Ek.
      + assert (k = sn) by lia. subst k. rewrite D3 by lia.
        unfold m2. rewrite cm_store_put. cbn [cm_buf]. apply slot_put_same. unfold cm_cap in P1. lia.
      + destruct (k <? m_begin a) eqn:Ekb.
        * rewrite F3 by lia. symmetry. apply (ent_get_absent k (m_begin a)); [exact Ha|lia].
        * rewrite E3 by lia. unfold m2. rewrite cm_store_put. cbn [cm_buf].
          rewrite slot_put_other by (unfold cm_cap in *; lia). apply Hslot1. lia. }
  (* after the range *)
  cbv zeta. destruct (sn + 1 >=? m_end a + 32768) eqn:Efar.
  { apply mk_rel; cbn [m_alloc m_begin m_end m_ent]; rewrite ?cap_store; rewrite ?cm_store_put; cbn [cm_buf cm_begin cm_end]; try lia; try reflexivity.
    - change (0 < cm_cap c). lia.
    - change (sn + 1 - sn <= cm_cap c). lia.
    - intros k Hk. assert (k = sn) by lia. subst k. rewrite slot_put_same by (unfold cm_cap in *; lia).
      cbn [ent_get]. rewrite Z.eqb_refl. reflexivity. }
  set (b := if m_begin a <? sn + 1 - 32768 then sn + 1 - 32768 else m_begin a).
  assert (Hb1 : m_begin a <= b) by (unfold b; destruct (m_begin a <? sn + 1 - 32768) eqn:E; lia).
  assert (Hb2 : b <= m_end a) by (unfold b; destruct (m_begin a <? sn + 1 - 32768) eqn:E; lia).
  assert (Hb3 : sn + 1 - b <= 32768) by (unfold b; destruct (m_begin a <? sn + 1 - 32768) eqn:E; lia).
  set (m0 := if m_begin a <? sn + 1 - 32768 then mkCmap (cm_buf c) (sn + 1 - 32768) (m_end a) else c).
  assert (H0 : cm_buf m0 = cm_buf c /\ cm_begin m0 = b /\ cm_end m0 = m_end a).
  { unfold m0, b. destruct (m_begin a <? sn + 1 - 32768); cbn [cm_buf cm_begin cm_end]; auto. }
  destruct H0 as (Hbuf0 & Hbeg0 & Hend0).
  assert (Hcap0 : 0 < cm_cap m0) by (unfold cm_cap; rewrite Hbuf0; exact Hcap).
  rewrite Hbeg0.
  destruct (cm_adjust_spec m0 (sn + 1 - b) Hcap0 ltac:(lia) ltac:(lia)) as (A1 & B1 & C1 & P1 & D1). cbv zeta in *.
  set (m1 := cm_adjust m0 (sn + 1 - b)) in *.
  destruct (cm_clear_spec (Z.to_nat (sn - cm_end m1)) (cm_end m1) m1 P1) as (A3 & B3 & C3 & D3 & E3 & F3).
  cbv zeta in *. fold (cm_set_not_received m1 (cm_end m1) sn) in *.
  set (m2 := cm_set_not_received m1 (cm_end m1) sn) in *.
  assert (Hslot1 : forall k, b <= k < m_end a -> slot (cm_buf m1) k = ent_get k (m_ent a)).
  { intros k Hk. specialize (D1 k). rewrite !cm_get_slot in D1.
    replace ((k <? cm_begin m1) || (k >=? cm_end m1)) with false in D1 by lia.
    replace ((k <? cm_begin m0) || (k >=? cm_end m0)) with false in D1 by lia.
    rewrite D1, Hbuf0. apply Hs. lia. }
  apply mk_rel; cbn [m_alloc m_begin m_end m_ent]; rewrite ?cap_store; rewrite ?cm_store_put; cbn [cm_buf cm_begin cm_end]; try reflexivity; try lia.
  - change (0 < cm_cap m2). lia.
  - change (sn + 1 - cm_begin m2 <= cm_cap m2). lia.
  - intros k Hk. rewrite ent_get_set. destruct (k =? sn) eqn:Ek.
    + assert (k = sn) by lia. subst k. apply slot_put_same. unfold cm_cap in C3, P1. lia.
    + rewrite slot_put_other by (unfold cm_cap in *; lia).
      rewrite ent_get_from by lia. destruct (k <? m_end a) eqn:Eke.
      * rewrite D3 by lia. apply Hslot1. lia.
      * rewrite F3 by lia. symmetry. apply (ent_get_above (m_end a)); [exact Hbel|lia].
Qed.

(* ---- RemoveOldPackets ---- *)
Lemma remove_loop_refines fuel : forall c a checkTo limit,
  cm_rel c a -> m_begin a <= m_end a -> checkTo <= m_end a ->
  let c' := cm_remove_loop fuel c checkTo limit in
  let a' := am_remove_loop fuel a checkTo limit in
  cm_rel c' a' /\ m_begin a <= m_begin a' <= m_end a' /\ m_end a' = m_end a /\ m_alloc a' = m_alloc a /\
  cm_buf c' = cm_buf c.
Proof.
  induction fuel as [|fuel IH]; intros c a checkTo limit Hrel Hle Hc; cbn [cm_remove_loop am_remove_loop]; cbv zeta.
  - split; [exact Hrel|]. repeat split; lia.
  - pose proof Hrel as (Hal & Hb & He & Hw & Hs).
    rewrite (cm_rel_get c a _ Hrel), Hb.
    destruct ((m_begin a <? checkTo) && (am_get a (m_begin a) <=? limit)) eqn:E.
    + set (c1 := mkCmap (cm_buf c) (m_begin a + 1) (cm_end c)).
      set (a1 := mkAmap (m_alloc a) (m_begin a + 1) (m_end a) (ent_from (m_begin a + 1) (m_ent a))).
      assert (Hrel1 : cm_rel c1 a1).
      { split; [exact Hal|]. split; [reflexivity|]. split; [exact He|]. split.
        - intros H. specialize (Hw H). unfold c1, cm_cap in *. cbn [cm_buf cm_begin cm_end]. lia.
        - intros k Hk. unfold c1, a1 in *. cbn [cm_buf cm_begin cm_end m_ent] in *.
          rewrite ent_get_from by lia. apply Hs. lia. }
      destruct (IH c1 a1 checkTo limit Hrel1 ltac:(unfold a1; cbn [m_begin m_end]; lia) ltac:(unfold a1; cbn [m_end]; lia))
        as (R & Hbb & Hee & Haa & Hbuf).
      cbv zeta in *. change (m_begin a1) with (m_begin a + 1) in Hbb. change (m_end a1) with (m_end a) in Hee.
      change (m_alloc a1) with (m_alloc a) in Haa. change (cm_buf c1) with (cm_buf c) in Hbuf.
      split; [exact R|]. split; [lia|]. split; [exact Hee|]. split; [exact Haa|exact Hbuf].
    + split; [exact Hrel|]. repeat split; lia.
Qed.

Theorem cm_remove_old_refines c a sn limit :
  cm_rel c a -> am_inv a -> m_alloc a = true -> -1 <= limit ->
  cm_rel (cm_remove_old c sn limit) (am_remove_old a sn limit).
Proof.
  intros Hrel Hinv Hal Hl. rewrite <- (am_remove_old_go_eq a sn limit Hinv Hl).
  pose proof Hinv as (_ & _ & Hle & Hwin). pose proof Hrel as (Hal' & Hb & He & Hw & _).
  unfold cm_remove_old, am_remove_old_go. cbv zeta. rewrite Hb, He.
  destruct (remove_loop_refines (Z.to_nat (Z.min sn (m_end a) - m_begin a)) c a (Z.min sn (m_end a)) limit Hrel Hle ltac:(lia))
    as (R & Hbb & Hee & Haa & Hbuf). cbv zeta in *.
  set (c1 := cm_remove_loop _ c _ limit) in *. set (a1 := am_remove_loop _ a _ limit) in *.
  pose proof R as (Hal1 & Hb1 & He1 & Hw1 & Hs1).
  assert (Hcap1 : 0 < cm_cap c1).
  { unfold cm_cap. rewrite Hbuf. apply cm_alloc_cap. congruence. }
  destruct (cm_adjust_spec c1 (cm_end c1 - cm_begin c1) Hcap1 ltac:(lia) ltac:(lia)) as (A & B & C & P & D). cbv zeta in *.
  set (c2 := cm_adjust c1 (cm_end c1 - cm_begin c1)) in *.
  split; [rewrite Hal1; symmetry; rewrite (cap_alloc c1 Hcap1); apply cap_alloc, P|].
  split; [congruence|]. split; [congruence|]. split; [intros _; lia|].
  intros k Hk. specialize (D k). rewrite !cm_get_slot in D.
  replace ((k <? cm_begin c2) || (k >=? cm_end c2)) with false in D by lia.
  replace ((k <? cm_begin c1) || (k >=? cm_end c1)) with false in D by lia.
  rewrite D. apply Hs1. lia.
Qed.

(* arrival_map_refines, whole: starting from the empty buffer / empty map, any
   sequence of AddPacket and RemoveOldPackets keeps the two related; every
   get / HasReceived / Clamp / Begin / End / FindNextAtOrAfter then agrees
   (they only use begin, end and get) *)
Inductive map_op := OpAdd (sn t : Z) | OpRemoveOld (sn limit : Z).

Definition cm_step (c : cmap) (o : map_op) : cmap :=
  match o with OpAdd sn t => cm_add c sn t | OpRemoveOld sn limit => cm_remove_old c sn limit end.
Definition am_step (a : amap) (o : map_op) : amap :=
  match o with OpAdd sn t => am_add a sn t | OpRemoveOld sn limit => am_remove_old a sn limit end.

(* RemoveOldPackets is only reached after a first AddPacket (startSequenceNumber != nil)
   and with limit = arrivalTime - 500000 >= 0 *)
Fixpoint ops_ok (allocated : bool) (os : list map_op) : Prop :=
  match os with
  | [] => True
  | OpAdd _ _ :: tl => ops_ok true tl
  | OpRemoveOld _ limit :: tl => allocated = true /\ -1 <= limit /\ ops_ok allocated tl
  end.

Lemma am_add_alloc a sn t : m_alloc (am_add a sn t) = true \/ am_add a sn t = a.
Proof.
  unfold am_add. destruct (m_alloc a); cbn [negb]; [|left; reflexivity].
  destruct (_ && _); [left; reflexivity|]. destruct (sn <? m_begin a); [destruct (_ >? _); [right; reflexivity|left; reflexivity]|].
  destruct (_ >=? _); left; reflexivity.
Qed.

Lemma am_remove_old_alloc a sn limit : m_alloc (am_remove_old a sn limit) = m_alloc a.
Proof. unfold am_remove_old. cbv zeta. destruct (_ <? _); reflexivity. Qed.

Theorem arrival_map_refines os : forall c a,
  cm_rel c a -> am_inv a -> ops_ok (m_alloc a) os ->
  cm_rel (fold_left cm_step os c) (fold_left am_step os a) /\ am_inv (fold_left am_step os a).
Proof.
  induction os as [|o tl IH]; intros c a Hrel Hinv Hok; cbn [fold_left]; [auto|].
  destruct o as [sn t|sn limit]; cbn [cm_step am_step ops_ok] in *.
  - apply IH; [apply cm_add_refines; auto|apply am_add_inv; auto|].
    assert (Ht : m_alloc (am_add a sn t) = true).
    { unfold am_add. destruct (m_alloc a) eqn:E; cbn [negb]; [|reflexivity].
      destruct (_ && _); [reflexivity|]. destruct (sn <? m_begin a); [destruct (_ >? _); [exact E|reflexivity]|].
      destruct (_ >=? _); reflexivity. }
    rewrite Ht. exact Hok.
  - destruct Hok as (Hal & Hl & Hok).
    apply IH; [apply cm_remove_old_refines; auto|apply am_remove_old_inv; auto|].
    rewrite am_remove_old_alloc. exact Hok.
Qed.
