(* C03, round-5 strengthening: the constructor options (Model/NackOpts.v) against the configured
   values (Spec/NackOptsSpec.v), and the renewal of a stream's NACK budget by a tick that finds
   nothing missing. *)
From IV Require Import Base.Word Model.ReceiveLog Model.NackGen Model.NackSend Model.NackOpts
  Spec.NackSpec Spec.NackGenSpec Spec.NackOptsSpec
  Proofs.NackGenProofs Proofs.NackGenMore Proofs.NackSendProofs.
From Coq Require Import Permutation.

Ltac Zify.zify_post_hook ::= Z.div_mod_to_equations.

(* ---- options ---- *)

Lemma configured_snoc k d l o :
  configured k d (l ++ [o]) = if fst o =? k then snd o else configured k d l.
Proof.
  unfold configured. rewrite rev_app_distr. cbn [rev app find].
  destruct (fst o =? k); reflexivity.
Qed.

Lemma fold_cfg opts : forall c,
  fold_left apply_opt opts c =
  mk_cfg (configured 0 (c_size c) opts) (configured 1 (c_skip c) opts) (configured 2 (c_max c) opts).
Proof.
  induction opts as [|o l IH] using rev_ind; intros c.
  - destruct c; reflexivity.
  - rewrite fold_left_app. cbn [fold_left]. rewrite IH. rewrite !configured_snoc.
    destruct o as [k v]. unfold apply_opt. cbn [fst snd c_size c_skip c_max].
    destruct (k =? 0) eqn:E0; [apply Z.eqb_eq in E0; subst k; reflexivity|].
    destruct (k =? 1) eqn:E1; [apply Z.eqb_eq in E1; subst k; reflexivity|].
    destruct (k =? 2) eqn:E2; [apply Z.eqb_eq in E2; subst k; reflexivity|].
    reflexivity.
Qed.

(* the interceptor is built with exactly the configured values *)
Lemma new_cfg_configured opts : new_cfg opts = spec_cfg opts.
Proof. unfold new_cfg, spec_cfg. rewrite fold_cfg. reflexivity. Qed.

Lemma apply_opt_comm c o1 o2 : fst o1 <> fst o2 ->
  apply_opt (apply_opt c o1) o2 = apply_opt (apply_opt c o2) o1.
Proof.
  destruct o1 as [k1 v1], o2 as [k2 v2]. cbn [fst]. intros Hne. unfold apply_opt.
  destruct (k1 =? 0) eqn:A0; destruct (k1 =? 1) eqn:A1; destruct (k1 =? 2) eqn:A2;
  destruct (k2 =? 0) eqn:B0; destruct (k2 =? 1) eqn:B1; destruct (k2 =? 2) eqn:B2;
  cbn [c_size c_skip c_max]; try reflexivity;
  rewrite ?Z.eqb_eq in *; subst; try discriminate; try (exfalso; apply Hne; reflexivity).
Qed.

(* two neighbouring options of different kinds may change places *)
Lemma new_cfg_swap l1 o1 o2 l2 : fst o1 <> fst o2 ->
  new_cfg (l1 ++ o1 :: o2 :: l2) = new_cfg (l1 ++ o2 :: o1 :: l2).
Proof.
  intros H. unfold new_cfg. rewrite !fold_left_app. cbn [fold_left].
  rewrite (apply_opt_comm _ o1 o2 H). reflexivity.
Qed.

Lemma perm_fold l l' : Permutation l l' -> NoDup (map fst l) ->
  forall c, fold_left apply_opt l c = fold_left apply_opt l' c.
Proof.
  induction 1 as [|x l l' HP IH|x y l|l l' l'' HP1 IH1 HP2 IH2]; intros Hnd c.
  - reflexivity.
  - cbn [fold_left]. apply IH. cbn [map] in Hnd. inversion Hnd; assumption.
  - cbn [fold_left]. rewrite (apply_opt_comm c y x); [reflexivity|].
    cbn [map] in Hnd. inversion Hnd as [|? ? Hn _]. intros E. apply Hn. left. symmetry. exact E.
  - rewrite IH1 by assumption. apply IH2.
    apply (Permutation_NoDup (Permutation_map fst HP1) Hnd).
Qed.

(* any order of an option list that names each kind at most once builds the same interceptor *)
Lemma new_cfg_perm l l' : Permutation l l' -> NoDup (map fst l) -> new_cfg l = new_cfg l'.
Proof. intros HP Hnd. apply (perm_fold l l' HP Hnd). Qed.

(* whole histories: the NACKs handed to the writer are the specification's for the configured
   values, whatever the order of the options and whatever the writers return *)
Lemma generator_exact_configured opts s : cfg_ok (spec_cfg opts) ->
  forall ops, ops_u16 (map erase ops) ->
  map (out_for s) (wrun (new_cfg opts) gen_init ops) = spec_stream (spec_cfg opts) s ss_init (map erase ops).
Proof.
  intros Hc ops Hu. rewrite new_cfg_configured. apply generator_exact_any_writer; assumption.
Qed.

(* a skipLastN option that clamps to the size it finds depends on its position *)
Lemma clamp_order_dependent :
  c_skip (new_cfg_clamp [(0, 1024); (1, 600)]) = 600 /\
  c_skip (new_cfg_clamp [(1, 600); (0, 1024)]) = 512 /\
  c_size (new_cfg_clamp [(1, 600); (0, 1024)]) = 1024 /\
  new_cfg [(1, 600); (0, 1024)] = new_cfg [(0, 1024); (1, 600)].
Proof. repeat split; vm_compute; reflexivity. Qed.

(* ---- a tick with nothing missing renews the budget ---- *)

Lemma tick_one_empty_map mx m : tick_one mx m (Some []) = tick_one mx m None.
Proof. destruct m; reflexivity. Qed.

Lemma tick_run_empty_map mx ms : tick_run mx ms (Some []) = tick_run mx ms None.
Proof. destruct ms as [|m tl]; cbn [tick_run]; [reflexivity|]. rewrite tick_one_empty_map. reflexivity. Qed.

(* whatever the counters were: after a tick at which the stream had nothing missing, a number that
   is missing at the following ticks is requested min(limit, number of ticks) times *)
Lemma budget_renewed mx x ms c : 0 < mx < 65536 ->
  (forall m, In m ms -> NoDup m /\ In x m) ->
  req_count x (tick_run mx ([] :: ms) c) = Z.min (Z.of_nat (length ms)) mx.
Proof.
  intros Hm H. cbn [tick_run tick_one fst snd req_count]. rewrite tick_run_empty_map.
  rewrite (limit_fresh mx x ms Hm H). lia.
Qed.

Fixpoint tick_run_keep (mx : Z) (ms : list (list Z)) (c : option cmap) : list (option (list Z)) :=
  match ms with
  | [] => []
  | m :: tl => fst (tick_one_keep mx m c) :: tick_run_keep mx tl (snd (tick_one_keep mx m c))
  end.

(* the variant that keeps the counts over an empty tick: 3 is requested once, recovered (a tick
   with nothing missing), and when the number is missing again (one cycle later) it is not
   requested although the limit is per missing packet; the code requests it *)
Lemma keep_counts_refuted :
  tick_run_keep 1 [[3]; []; [3]] None = [Some [3]; None; None] /\
  tick_run 1 [[3]; []; [3]] None = [Some [3]; None; Some [3]].
Proof. split; vm_compute; reflexivity. Qed.
