(* Recorder-level facts: the feedback packet counter (fbcount_step). *)
From IV Require Import Base.Word Model.Unwrapper Model.TwccChunk Model.ArrivalMap Model.TwccRecorder
  Proofs.TwccChunkProofs Proofs.TwccFeedbackProofs.
From Coq Require Import ZifyBool.
Ltac Zify.zify_post_hook ::= Z.div_mod_to_equations.

Lemma ent_first_some p l e : ent_first p l = Some e -> p e = true.
Proof. induction l as [|x tl IH]; cbn [ent_first]; [discriminate|]. destruct (p x) eqn:E; [intros H; inversion H; subst; exact E|exact IH]. Qed.

(* maybeBuildFeedbackPacket bumps fbPktCnt exactly when it returns a packet:
   the "could not add a single packet" branch is dead (first_add_succeeds) *)
Lemma maybe_build_counter sender r b e :
  match rec_maybe_build sender r b e with
  | (None, _, c) => c = r_fb r
  | (Some _, _, c) => c = (r_fb r + 1) mod 256
  end.
Proof.
  unfold rec_maybe_build.
  destruct (ent_first _ _) as [[seq t]|] eqn:E; [|reflexivity].
  apply ent_first_some in E. cbn [snd] in E.
  pose proof (first_add_succeeds (u16 (Z.max b (seq - 32766))) (u16 seq) t ltac:(lia)) as Hne.
  destruct (fb_add_received _ _ _) as [fb1|]; [|congruence].
  destruct (mb_walk _ _ _). reflexivity.
Qed.

(* consecutive feedback counters, starting at c *)
Fixpoint fb_chain (c : Z) (ps : list pkt) : Prop :=
  match ps with [] => True | p :: tl => p_fb p = c /\ fb_chain ((c + 1) mod 256) tl end.

Lemma fb_chain_snoc ps : forall c p, fb_chain c ps -> p_fb p = (c + Z.of_nat (length ps)) mod 256 -> 0 <= c < 256 ->
  fb_chain c (ps ++ [p]).
Proof.
  induction ps as [|q tl IH]; intros c p Hc Hp Hr; cbn [app fb_chain length] in *.
  - split; [rewrite Hp; cbn; lia|exact I].
  - destruct Hc as [Hq Hc]. split; [exact Hq|]. apply IH; auto; [|lia]. rewrite Hp. lia.
Qed.

Lemma build_loop_counter fuel sender : forall r endSN acc c0,
  0 <= c0 < 256 -> fb_chain c0 acc -> r_fb r = (c0 + Z.of_nat (length acc)) mod 256 ->
  let '(r', ps) := rec_build_loop fuel sender r endSN acc in
  fb_chain c0 ps /\ r_fb r' = (c0 + Z.of_nat (length ps)) mod 256.
Proof.
  induction fuel as [|fuel IH]; intros r endSN acc c0 Hc0 Hch Hfb; cbn [rec_build_loop]; [auto|].
  destruct (r_start r) as [s|]; [|auto].
  destruct (s <? endSN); [|auto].
  pose proof (maybe_build_counter sender r s endSN) as Hm.
  destruct (rec_maybe_build sender r s endSN) as [[ofb start'] fbc'].
  destruct ofb as [fb|].
  - apply IH; auto.
    + apply fb_chain_snoc; auto.
    + cbn [r_fb]. rewrite Hm, Hfb, app_length. cbn [length]. lia.
  - cbn [r_fb]. split; [auto|]. rewrite Hm. exact Hfb.
Qed.

(* fbcount_step over one BuildFeedbackPacket: the packets of a build carry
   consecutive counters starting at the recorder's, which advances by their number *)
Lemma build_counter sender r : 0 <= r_fb r < 256 ->
  let '(r', ps) := rec_build sender r in
  fb_chain (r_fb r) ps /\ r_fb r' = (r_fb r + Z.of_nat (length ps)) mod 256.
Proof.
  intros Hr. unfold rec_build. destruct (r_start r) as [s|] eqn:Es.
  - pose proof (build_loop_counter (S (length (m_ent (r_map r)))) sender r (m_end (r_map r)) [] (r_fb r) Hr I) as H.
    cbn [length] in H. specialize (H ltac:(lia)).
    destruct (rec_build_loop _ _ _ _ _) as [r' ps]. cbn [r_fb]. exact H.
  - cbn [fb_chain length]. split; [exact I|lia].
Qed.

Lemma record_fb r ssrc seq t : r_fb (rec_record r ssrc seq t) = r_fb r.
Proof. unfold rec_record. destruct (unwrap _ _). destruct (am_has _ _); reflexivity. Qed.

Lemma fb_chain_app a : forall c b, 0 <= c < 256 -> fb_chain c a -> fb_chain ((c + Z.of_nat (length a)) mod 256) b -> fb_chain c (a ++ b).
Proof.
  induction a as [|p tl IH]; intros c b Hc Ha Hb; cbn [app fb_chain length] in *.
  - rewrite Z.add_0_r, Z.mod_small in Hb by lia. exact Hb.
  - destruct Ha as [Hp Ha]. split; [exact Hp|]. apply IH; [lia|exact Ha|].
    replace (((c + 1) mod 256 + Z.of_nat (length tl)) mod 256) with ((c + Z.of_nat (S (length tl))) mod 256) by lia. exact Hb.
Qed.

(* fbcount_step over whole histories: across all builds of any Record/Build
   history the emitted packets carry consecutive counters modulo 256 *)
Theorem run_counter sender ops : forall r, 0 <= r_fb r < 256 ->
  fb_chain (r_fb r) (concat (rec_run sender r ops)).
Proof.
  induction ops as [|o tl IH]; intros r Hr; cbn [rec_run concat]; [exact I|].
  destruct o as [ssrc seq t|].
  - rewrite <- (record_fb r ssrc seq t). apply IH. rewrite record_fb. exact Hr.
  - pose proof (build_counter sender r Hr) as H. destruct (rec_build sender r) as [r' ps].
    destruct H as [Hch Hfb]. cbn [concat]. apply fb_chain_app; auto.
    rewrite <- Hfb. apply IH. rewrite Hfb. lia.
Qed.
