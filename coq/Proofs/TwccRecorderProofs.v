(* Recorder-level facts: the feedback packet counter (fbcount_step). *)
From IV Require Import Base.Word Model.Unwrapper Model.TwccChunk Model.ArrivalMap Model.TwccRecorder
  Proofs.TwccChunkProofs Proofs.TwccFeedbackProofs.
From Coq Require Import ZifyBool.
Ltac Zify.zify_post_hook ::= Z.div_mod_to_equations.

Lemma ent_first_some p l e : ent_first p l = Some e -> p e = true.
Proof. induction l as [|x tl IH]; cbn [ent_first]; [discriminate|]. destruct (p x) eqn:E; [intros H; inversion H; subst; exact E|exact IH]. Qed.

(* maybeBuildFeedbackPacket bumps fbPktCnt exactly when it returns a packet:
   the "could not add a single packet" branch is dead (first_add_succeeds) *)
Lemma maybe_build_counter sender r b e :
  match rec_maybe_build sender r b e with
  | (None, _, c) => c = r_fb r
  | (Some _, _, c) => c = (r_fb r + 1) mod 256
  end.
Proof.
  unfold rec_maybe_build.
  destruct (ent_first _ _) as [[seq t]|] eqn:E; [|reflexivity].
  apply ent_first_some in E. cbn [snd] in E.
  pose proof (first_add_succeeds (u16 (Z.max b (seq - 32766))) (u16 seq) t ltac:(lia)) as Hne.
  destruct (fb_add_received _ _ _) as [fb1|]; [|congruence].
  destruct (mb_walk _ _ _). reflexivity.
Qed.

(* consecutive feedback counters, starting at c *)
Fixpoint fb_chain (c : Z) (ps : list pkt) : Prop :=
  match ps with [] => True | p :: tl => p_fb p = c /\ fb_chain ((c + 1) mod 256) tl end.

Lemma fb_chain_snoc ps : forall c p, fb_chain c ps -> p_fb p = (c + Z.of_nat (length ps)) mod 256 -> 0 <= c < 256 ->
  fb_chain c (ps ++ [p]).
Proof.
  induction ps as [|q tl IH]; intros c p Hc Hp Hr; cbn [app fb_chain length] in *.
  - split; [rewrite Hp; cbn; lia|exact I].
  - destruct Hc as [Hq Hc]. split; [exact Hq|]. apply IH; auto; [|lia]. rewrite Hp. lia.
Qed.

Lemma build_loop_counter fuel sender : forall r endSN acc c0,
  0 <= c0 < 256 -> fb_chain c0 acc -> r_fb r = (c0 + Z.of_nat (length acc)) mod 256 ->
  let '(r', ps) := rec_build_loop fuel sender r endSN acc in
  fb_chain c0 ps /\ r_fb r' = (c0 + Z.of_nat (length ps)) mod 256.
Proof.
  induction fuel as [|fuel IH]; intros r endSN acc c0 Hc0 Hch Hfb; cbn [rec_build_loop]; [auto|].
  destruct (r_start r) as [s|]; [|auto].
  destruct (s <? endSN); [|auto].
  pose proof (maybe_build_counter sender r s endSN) as Hm.
  destruct (rec_maybe_build sender r s endSN) as [[ofb start'] fbc'].
  destruct ofb as [fb|].
  - apply IH; auto.
    + apply fb_chain_snoc; auto.
    + cbn [r_fb]. rewrite Hm, Hfb, app_length. cbn [length]. lia.
  - cbn [r_fb]. split; [auto|]. rewrite Hm. exact Hfb.
Qed.

(* fbcount_step over one BuildFeedbackPacket: the packets of a build carry
   consecutive counters starting at the recorder's, which advances by their number *)
Lemma build_counter sender r : 0 <= r_fb r < 256 ->
  let '(r', ps) := rec_build sender r in
  fb_chain (r_fb r) ps /\ r_fb r' = (r_fb r + Z.of_nat (length ps)) mod 256.
Proof.
  intros Hr. unfold rec_build. destruct (r_start r) as [s|] eqn:Es.
  - pose proof (build_loop_counter (S (length (m_ent (r_map r)))) sender r (m_end (r_map r)) [] (r_fb r) Hr I) as H.
    cbn [length] in H. specialize (H ltac:(lia)).
    destruct (rec_build_loop _ _ _ _ _) as [r' ps]. cbn [r_fb]. exact H.
  - cbn [fb_chain length]. split; [exact I|lia].
Qed.

Lemma record_fb r ssrc seq t : r_fb (rec_record r ssrc seq t) = r_fb r.
Proof. unfold rec_record. destruct (unwrap _ _). destruct (am_has _ _); reflexivity. Qed.

Lemma fb_chain_app a : forall c b, 0 <= c < 256 -> fb_chain c a -> fb_chain ((c + Z.of_nat (length a)) mod 256) b -> fb_chain c (a ++ b).
Proof.
  induction a as [|p tl IH]; intros c b Hc Ha Hb; cbn [app fb_chain length] in *.
  - rewrite Z.add_0_r, Z.mod_small in Hb by lia. exact Hb.
  - destruct Ha as [Hp Ha]. split; [exact Hp|]. apply IH; [lia|exact Ha|].
    replace (((c + 1) mod 256 + Z.of_nat (length tl)) mod 256) with ((c + Z.of_nat (S (length tl))) mod 256) by lia. exact Hb.
Qed.

(* fbcount_step over whole histories: across all builds of any Record/Build
   history the emitted packets carry consecutive counters modulo 256 *)
Theorem run_counter sender ops : forall r, 0 <= r_fb r < 256 ->
  fb_chain (r_fb r) (concat (rec_run sender r ops)).
Proof.
  induction ops as [|o tl IH]; intros r Hr; cbn [rec_run concat]; [exact I|].
  destruct o as [ssrc seq t|].
  - rewrite <- (record_fb r ssrc seq t). apply IH. rewrite record_fb. exact Hr.
  - pose proof (build_counter sender r Hr) as H. destruct (rec_build sender r) as [r' ps].
    destruct H as [Hch Hfb]. cbn [concat]. apply fb_chain_app; auto.
    rewrite <- Hfb. apply IH. rewrite Hfb. lia.
Qed.

(* ------------------------------------------------------------------ *)
(* reachable recorder states keep the arrival-map invariant            *)
(* ------------------------------------------------------------------ *)
From IV Require Import Proofs.ArrivalMapProofs.

Inductive reachable (sender : Z) : recorder -> Prop :=
| reach_init : reachable sender rec_init
| reach_record r ssrc seq t : reachable sender r -> reachable sender (rec_record r ssrc seq t)
| reach_build r : reachable sender r -> reachable sender (fst (rec_build sender r)).

Lemma build_loop_map fuel sender : forall r endSN acc,
  r_map (fst (rec_build_loop fuel sender r endSN acc)) = r_map r.
Proof.
  induction fuel as [|fuel IH]; intros r endSN acc; cbn [rec_build_loop]; [reflexivity|].
  destruct (r_start r) as [s|]; [|reflexivity].
  destruct (s <? endSN); [|reflexivity].
  destruct (rec_maybe_build sender r s endSN) as [[ofb start'] fbc'].
  destruct ofb as [fb|]; [|reflexivity]. rewrite IH. reflexivity.
Qed.

Lemma build_map sender r : r_map (fst (rec_build sender r)) = r_map r.
Proof.
  unfold rec_build. destruct (r_start r); [|reflexivity].
  pose proof (build_loop_map (S (length (m_ent (r_map r)))) sender r (m_end (r_map r)) []) as H.
  destruct (rec_build_loop _ _ _ _ _) as [r' ps]. cbn [fst r_map] in *. exact H.
Qed.

Lemma cull_inv r u t : am_inv (r_map r) -> am_inv (rec_cull r u t).
Proof.
  intros H. unfold rec_cull. destruct (r_start r) as [s|]; [|exact H].
  destruct ((s >=? m_end (r_map r)) && (t >=? 500000)); [apply am_remove_old_inv, H|exact H].
Qed.

Lemma record_inv r ssrc seq t : am_inv (r_map r) -> am_inv (r_map (rec_record r ssrc seq t)).
Proof.
  intros H. unfold rec_record. destruct (unwrap (r_unw r) seq) as [unw u].
  pose proof (cull_inv r u t H) as Hc.
  destruct (am_has (rec_cull r u t) u); cbn [r_map]; [exact Hc|apply am_add_inv, Hc].
Qed.

(* every reachable state: sorted entries inside [begin,end), end - begin <= 2^15 *)
Theorem reachable_inv sender r : reachable sender r -> am_inv (r_map r).
Proof.
  induction 1 as [|r ssrc seq t _ IH|r _ IH].
  - apply am_inv_empty.
  - apply record_inv, IH.
  - rewrite build_map. exact IH.
Qed.

(* the culling Record performs is, in every reachable state, exactly the loop
   of RemoveOldPackets as coded *)
Theorem reachable_cull_go sender r u t : reachable sender r ->
  rec_cull r u t =
  match r_start r with
  | Some s => if (s >=? m_end (r_map r)) && (t >=? 500000)
              then am_remove_old_go (r_map r) u (t - 500000) else r_map r
  | None => r_map r
  end.
Proof.
  intros Hr. unfold rec_cull. destruct (r_start r) as [s|]; [|reflexivity].
  destruct ((s >=? m_end (r_map r)) && (t >=? 500000)) eqn:E; [|reflexivity].
  symmetry. apply am_remove_old_go_eq; [eapply reachable_inv; eauto|lia].
Qed.

(* ------------------------------------------------------------------ *)
(* what one feedback packet of a build covers (composite, per packet)  *)
(* ------------------------------------------------------------------ *)
(* statuses of the numbers nextU, nextU+1, ... given the reported
   (number, symbol) pairs in ascending order: zeros for the gaps *)
Fixpoint syms_of (nextU : Z) (es : list (Z * Z)) : list Z :=
  match es with
  | [] => []
  | e :: tl => repeat 0 (Z.to_nat (fst e - nextU)) ++ snd e :: syms_of (fst e + 1) tl
  end.

(* r reports entry e: same number, symbol 1 (small delta) or 2 (large delta) *)
Definition reports (e r : Z * Z) : Prop := fst r = fst e /\ (snd r = 1 \/ snd r = 2).

Lemma fb_fill_next n : forall f, f_next (fb_fill n f) = (f_next f + Z.of_nat n) mod 65536 \/ (n = 0%nat /\ f_next (fb_fill n f) = f_next f).
Proof.
  induction n as [|n IH]; intros f; cbn [fb_fill]; [right; auto|]. left.
  destruct (IH (fb_fill_step f)) as [H|[Hn H]]; rewrite H.
  - unfold fb_fill_step. destruct (push_sym _ _). cbn [f_next]. rewrite inc16_add16. unfold add16. lia.
  - subst n. unfold fb_fill_step. destruct (push_sym _ _). cbn [f_next]. rewrite inc16_add16. unfold add16. lia.
Qed.

Lemma add_next f seq16 t f' : fb_add_received f seq16 t = Some f' -> 0 <= f_next f < 65536 ->
  f_next f' = (f_next f + sub16 seq16 (f_next f) + 1) mod 65536.
Proof.
  unfold fb_add_received. destruct (_ || _); [discriminate|].
  pose proof (fb_fill_next (Z.to_nat (sub16 seq16 (f_next f))) f) as Hn.
  destruct (push_sym _ _). intros H Hr. inversion H; subst f'; clear H. cbn [f_next].
  rewrite inc16_add16. unfold add16. pose proof (sub16_range seq16 (f_next f)).
  destruct Hn as [Hn|[Hz Hn]]; rewrite Hn; lia.
Qed.

Lemma filter_none {A} (p : A -> bool) l : Forall (fun x => p x = false) l -> filter p l = [].
Proof. induction 1 as [|x tl Hx _ IH]; cbn [filter]; [reflexivity|]. rewrite Hx. exact IH. Qed.

Lemma asc_keys_ge lo l : asc lo l -> Forall (fun e => lo <= fst e) l.
Proof.
  revert lo; induction l as [|e tl IH]; intros lo H; cbn [asc] in *; constructor.
  - tauto.
  - destruct H as [H1 H2]. specialize (IH _ H2). eapply Forall_impl; [|exact IH]. cbn beta. intros; lia.
Qed.

(* the walk over the remaining entries: the packet ends up standing for the
   statuses so far followed by exactly the received entries below the new
   start pointer (none skipped), not-received in between *)
Lemma walk_spec hi : forall ents f nextU syms,
  fb_inv f syms -> f_next f = nextU mod 65536 -> asc nextU ents -> below hi ents -> hi - nextU <= 65536 ->
  exists rep,
    let '(f', next') := mb_walk ents f nextU in
    Forall2 reports (filter (fun e => (snd e >=? 0) && (fst e <? next')) ents) rep /\
    fb_inv f' (syms ++ syms_of nextU rep) /\ f_next f' = next' mod 65536 /\
    nextU <= next' /\ f_base f' = f_base f /\ f_ref f' = f_ref f.
Proof.
  induction ents as [|[seq t] tl IH]; intros f nextU syms Hinv Hnext Ha Hb Hhi; cbn [mb_walk].
  - exists []. cbn [filter syms_of]. rewrite app_nil_r.
    split; [constructor|]. split; [exact Hinv|]. split; [exact Hnext|]. split; [lia|]. split; reflexivity.
  - cbn [asc fst] in Ha. destruct Ha as [Ha1 Ha2]. inversion Hb as [|? ? Hb1 Hb2]; subst. cbn [fst] in Hb1.
    destruct (t >=? 0) eqn:Et.
    + destruct (fb_add_received f (u16 seq) t) as [f1|] eqn:Eadd.
      * destruct (fb_add_inv f syms (u16 seq) t f1 Hinv Eadd) as (Hinv1 & _ & Hbase1 & Href1).
        assert (Hn1 : f_next f1 = (seq + 1) mod 65536).
        { rewrite (add_next f (u16 seq) t f1 Eadd) by (rewrite Hnext; lia). rewrite Hnext. unfold sub16, u16. lia. }
        assert (Hgap : sub16 (u16 seq) (f_next f) = seq - nextU) by (rewrite Hnext; unfold sub16, u16; lia).
        unfold add_syms in Hinv1. rewrite Hgap in Hinv1.
        set (sym := if (0 <=? round250 (t - f_last f)) && (round250 (t - f_last f) <=? 255) then 1 else 2) in *.
        destruct (IH f1 (seq + 1) _ Hinv1 Hn1 Ha2 Hb2 ltac:(lia)) as (rep & Hrep).
        exists ((seq, sym) :: rep). destruct (mb_walk tl f1 (seq + 1)) as [f' next'].
        destruct Hrep as (HF & Hinv' & Hn' & Hle & Hb' & Hr').
        cbn [filter fst snd]. rewrite Et. replace (seq <? next') with true by lia. cbn [andb].
        split; [constructor; [split; [reflexivity|]; unfold sym; destruct (_ && _); auto|exact HF]|].
        split; [|split; [exact Hn'|]; split; [lia|]; split; congruence].
        cbn [syms_of fst snd]. rewrite <- app_assoc in Hinv'. cbn [app] in Hinv'.
        replace (repeat 0 (Z.to_nat (seq - nextU)) ++ sym :: syms_of (seq + 1) rep)
          with (repeat 0 (Z.to_nat (seq - nextU)) ++ [sym] ++ syms_of (seq + 1) rep) by reflexivity.
        rewrite <- (app_assoc (repeat 0 (Z.to_nat (seq - nextU))) [sym]) in Hinv'. exact Hinv'.
      * exists []. cbn [syms_of]. rewrite app_nil_r.
        rewrite filter_none;
          [split; [constructor|]; split; [exact Hinv|]; split; [exact Hnext|]; split; [lia|]; split; reflexivity|].
        constructor; [cbn [fst snd]; replace (seq <? nextU) with false by lia; apply andb_false_r|].
        pose proof (asc_keys_ge _ _ Ha2) as Hk. eapply Forall_impl; [|exact Hk]. cbn beta. intros e He.
        replace (fst e <? nextU) with false by lia. apply andb_false_r.
    + assert (Ha3 : asc nextU tl) by (eapply asc_weaken; [|exact Ha2]; lia).
      destruct (IH f nextU syms Hinv Hnext Ha3 Hb2 Hhi) as (rep & Hrep).
      exists rep. destruct (mb_walk tl f nextU) as [f' next'].
      cbn [filter fst snd]. rewrite Et. cbn [andb]. exact Hrep.
Qed.
