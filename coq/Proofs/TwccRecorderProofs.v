(* Recorder-level facts: the feedback packet counter (fbcount_step). *)
From IV Require Import Base.Word Model.Unwrapper Model.TwccChunk Model.ArrivalMap Model.TwccRecorder
  Proofs.TwccChunkProofs Proofs.TwccFeedbackProofs.
From Coq Require Import ZifyBool.
Ltac Zify.zify_post_hook ::= Z.div_mod_to_equations.

Lemma ent_first_some p l e : ent_first p l = Some e -> p e = true.
Proof. induction l as [|x tl IH]; cbn [ent_first]; [discriminate|]. destruct (p x) eqn:E; [intros H; inversion H; subst; exact E|exact IH]. Qed.

(* maybeBuildFeedbackPacket bumps fbPktCnt exactly when it returns a packet:
   the "could not add a single packet" branch is dead (first_add_succeeds) *)
Lemma maybe_build_counter sender r b e :
  match rec_maybe_build sender r b e with
  | (None, _, c) => c = r_fb r
  | (Some _, _, c) => c = (r_fb r + 1) mod 256
  end.
Proof.
  unfold rec_maybe_build.
  destruct (ent_first _ _) as [[seq t]|] eqn:E; [|reflexivity].
  apply ent_first_some in E. cbn [snd] in E.
  pose proof (first_add_succeeds (u16 (Z.max b (seq - 32766))) (u16 seq) t ltac:(lia)) as Hne.
  destruct (fb_add_received _ _ _) as [fb1|]; [|congruence].
  destruct (mb_walk _ _ _). reflexivity.
Qed.

(* consecutive feedback counters, starting at c *)
Fixpoint fb_chain (c : Z) (ps : list pkt) : Prop :=
  match ps with [] => True | p :: tl => p_fb p = c /\ fb_chain ((c + 1) mod 256) tl end.

Lemma fb_chain_snoc ps : forall c p, fb_chain c ps -> p_fb p = (c + Z.of_nat (length ps)) mod 256 -> 0 <= c < 256 ->
  fb_chain c (ps ++ [p]).
Proof.
  induction ps as [|q tl IH]; intros c p Hc Hp Hr; cbn [app fb_chain length] in *.
  - split; [rewrite Hp; cbn; lia|exact I].
  - destruct Hc as [Hq Hc]. split; [exact Hq|]. apply IH; auto; [|lia]. rewrite Hp. lia.
Qed.

Lemma build_loop_counter fuel sender : forall r endSN acc c0,
  0 <= c0 < 256 -> fb_chain c0 acc -> r_fb r = (c0 + Z.of_nat (length acc)) mod 256 ->
  let '(r', ps) := rec_build_loop fuel sender r endSN acc in
  fb_chain c0 ps /\ r_fb r' = (c0 + Z.of_nat (length ps)) mod 256.
Proof.
  induction fuel as [|fuel IH]; intros r endSN acc c0 Hc0 Hch Hfb; cbn [rec_build_loop]; [auto|].
  destruct (r_start r) as [s|]; [|auto].
  destruct (s <? endSN); [|auto].
  pose proof (maybe_build_counter sender r s endSN) as Hm.
  destruct (rec_maybe_build sender r s endSN) as [[ofb start'] fbc'].
  destruct ofb as [fb|].
  - apply IH; auto.
    + apply fb_chain_snoc; auto.
    + cbn [r_fb]. rewrite Hm, Hfb, app_length. cbn [length]. lia.
  - cbn [r_fb]. split; [auto|]. rewrite Hm. exact Hfb.
Qed.

(* fbcount_step over one BuildFeedbackPacket: the packets of a build carry
   consecutive counters starting at the recorder's, which advances by their number *)
Lemma build_counter sender r : 0 <= r_fb r < 256 ->
  let '(r', ps) := rec_build sender r in
  fb_chain (r_fb r) ps /\ r_fb r' = (r_fb r + Z.of_nat (length ps)) mod 256.
Proof.
  intros Hr. unfold rec_build. destruct (r_start r) as [s|] eqn:Es.
  - pose proof (build_loop_counter (S (length (m_ent (r_map r)))) sender r (m_end (r_map r)) [] (r_fb r) Hr I) as H.
    cbn [length] in H. specialize (H ltac:(lia)).
    destruct (rec_build_loop _ _ _ _ _) as [r' ps]. cbn [r_fb]. exact H.
  - cbn [fb_chain length]. split; [exact I|lia].
Qed.

Lemma record_fb r ssrc seq t : r_fb (rec_record r ssrc seq t) = r_fb r.
Proof. unfold rec_record. destruct (unwrap _ _). destruct (am_has _ _); reflexivity. Qed.

Lemma fb_chain_app a : forall c b, 0 <= c < 256 -> fb_chain c a -> fb_chain ((c + Z.of_nat (length a)) mod 256) b -> fb_chain c (a ++ b).
Proof.
  induction a as [|p tl IH]; intros c b Hc Ha Hb; cbn [app fb_chain length] in *.
  - rewrite Z.add_0_r, Z.mod_small in Hb by lia. exact Hb.
  - destruct Ha as [Hp Ha]. split; [exact Hp|]. apply IH; [lia|exact Ha|].
    replace (((c + 1) mod 256 + Z.of_nat (length tl)) mod 256) with ((c + Z.of_nat (S (length tl))) mod 256) by lia. exact Hb.
Qed.

(* fbcount_step over whole histories: across all builds of any Record/Build
   history the emitted packets carry consecutive counters modulo 256 *)
Theorem run_counter sender ops : forall r, 0 <= r_fb r < 256 ->
  fb_chain (r_fb r) (concat (rec_run sender r ops)).
Proof.
  induction ops as [|o tl IH]; intros r Hr; cbn [rec_run concat]; [exact I|].
  destruct o as [ssrc seq t|].
  - rewrite <- (record_fb r ssrc seq t). apply IH. rewrite record_fb. exact Hr.
  - pose proof (build_counter sender r Hr) as H. destruct (rec_build sender r) as [r' ps].
    destruct H as [Hch Hfb]. cbn [concat]. apply fb_chain_app; auto.
    rewrite <- Hfb. apply IH. rewrite Hfb. lia.
Qed.

(* ------------------------------------------------------------------ *)
(* reachable recorder states keep the arrival-map invariant            *)
(* ------------------------------------------------------------------ *)
From IV Require Import Proofs.ArrivalMapProofs.

Inductive reachable (sender : Z) : recorder -> Prop :=
| reach_init : reachable sender rec_init
| reach_record r ssrc seq t : reachable sender r -> reachable sender (rec_record r ssrc seq t)
| reach_build r : reachable sender r -> reachable sender (fst (rec_build sender r)).

Lemma build_loop_map fuel sender : forall r endSN acc,
  r_map (fst (rec_build_loop fuel sender r endSN acc)) = r_map r.
Proof.
  induction fuel as [|fuel IH]; intros r endSN acc; cbn [rec_build_loop]; [reflexivity|].
  destruct (r_start r) as [s|]; [|reflexivity].
  destruct (s <? endSN); [|reflexivity].
  destruct (rec_maybe_build sender r s endSN) as [[ofb start'] fbc'].
  destruct ofb as [fb|]; [|reflexivity]. rewrite IH. reflexivity.
Qed.

Lemma build_map sender r : r_map (fst (rec_build sender r)) = r_map r.
Proof.
  unfold rec_build. destruct (r_start r); [|reflexivity].
  pose proof (build_loop_map (S (length (m_ent (r_map r)))) sender r (m_end (r_map r)) []) as H.
  destruct (rec_build_loop _ _ _ _ _) as [r' ps]. cbn [fst r_map] in *. exact H.
Qed.

Lemma cull_inv r u t : am_inv (r_map r) -> am_inv (rec_cull r u t).
Proof.
  intros H. unfold rec_cull. destruct (r_start r) as [s|]; [|exact H].
  destruct ((s >=? m_end (r_map r)) && (t >=? 500000)); [apply am_remove_old_inv, H|exact H].
Qed.

Lemma record_inv r ssrc seq t : am_inv (r_map r) -> am_inv (r_map (rec_record r ssrc seq t)).
Proof.
  intros H. unfold rec_record. destruct (unwrap (r_unw r) seq) as [unw u].
  pose proof (cull_inv r u t H) as Hc.
  destruct (am_has (rec_cull r u t) u); cbn [r_map]; [exact Hc|apply am_add_inv, Hc].
Qed.

(* every reachable state: sorted entries inside [begin,end), end - begin <= 2^15 *)
Theorem reachable_inv sender r : reachable sender r -> am_inv (r_map r).
Proof.
  induction 1 as [|r ssrc seq t _ IH|r _ IH].
  - apply am_inv_empty.
  - apply record_inv, IH.
  - rewrite build_map. exact IH.
Qed.

(* the culling Record performs is, in every reachable state, exactly the loop
   of RemoveOldPackets as coded *)
Theorem reachable_cull_go sender r u t : reachable sender r ->
  rec_cull r u t =
  match r_start r with
  | Some s => if (s >=? m_end (r_map r)) && (t >=? 500000)
              then am_remove_old_go (r_map r) u (t - 500000) else r_map r
  | None => r_map r
  end.
Proof.
  intros Hr. unfold rec_cull. destruct (r_start r) as [s|]; [|reflexivity].
  destruct ((s >=? m_end (r_map r)) && (t >=? 500000)) eqn:E; [|reflexivity].
  symmetry. apply am_remove_old_go_eq; [eapply reachable_inv; eauto|lia].
Qed.

(* ------------------------------------------------------------------ *)
(* what one feedback packet of a build covers (composite, per packet)  *)
(* ------------------------------------------------------------------ *)
(* statuses of the numbers nextU, nextU+1, ... given the reported
   (number, symbol) pairs in ascending order: zeros for the gaps *)
Fixpoint syms_of (nextU : Z) (es : list (Z * Z)) : list Z :=
  match es with
  | [] => []
  | e :: tl => repeat 0 (Z.to_nat (fst e - nextU)) ++ snd e :: syms_of (fst e + 1) tl
  end.

(* r reports entry e: same number, symbol 1 (small delta) or 2 (large delta) *)
Definition reports (e r : Z * Z) : Prop := fst r = fst e /\ (snd r = 1 \/ snd r = 2).

Lemma fb_fill_next n : forall f, f_next (fb_fill n f) = (f_next f + Z.of_nat n) mod 65536 \/ (n = 0%nat /\ f_next (fb_fill n f) = f_next f).
Proof.
  induction n as [|n IH]; intros f; cbn [fb_fill]; [right; auto|]. left.
  destruct (IH (fb_fill_step f)) as [H|[Hn H]]; rewrite H.
  - unfold fb_fill_step. destruct (push_sym _ _). cbn [f_next]. rewrite inc16_add16. unfold add16. lia.
  - subst n. unfold fb_fill_step. destruct (push_sym _ _). cbn [f_next]. rewrite inc16_add16. unfold add16. lia.
Qed.

Lemma add_next f seq16 t f' : fb_add_received f seq16 t = Some f' -> 0 <= f_next f < 65536 ->
  f_next f' = (f_next f + sub16 seq16 (f_next f) + 1) mod 65536.
Proof.
  unfold fb_add_received. destruct (_ || _); [discriminate|].
  pose proof (fb_fill_next (Z.to_nat (sub16 seq16 (f_next f))) f) as Hn.
  destruct (push_sym _ _). intros H Hr. inversion H; subst f'; clear H. cbn [f_next].
  rewrite inc16_add16. unfold add16. pose proof (sub16_range seq16 (f_next f)).
  destruct Hn as [Hn|[Hz Hn]]; rewrite Hn; lia.
Qed.

Lemma filter_none {A} (p : A -> bool) l : Forall (fun x => p x = false) l -> filter p l = [].
Proof. induction 1 as [|x tl Hx _ IH]; cbn [filter]; [reflexivity|]. rewrite Hx. exact IH. Qed.

Lemma asc_keys_ge lo l : asc lo l -> Forall (fun e => lo <= fst e) l.
Proof.
  revert lo; induction l as [|e tl IH]; intros lo H; cbn [asc] in *; constructor.
  - tauto.
  - destruct H as [H1 H2]. specialize (IH _ H2). eapply Forall_impl; [|exact IH]. cbn beta. intros; lia.
Qed.

(* the walk over the remaining entries: the packet ends up standing for the
   statuses so far followed by exactly the received entries below the new
   start pointer (none skipped), not-received in between *)
Lemma walk_spec hi : forall ents f nextU syms ts,
  fb_inv f syms -> times_ok f ts ->
  f_next f = nextU mod 65536 -> asc nextU ents -> below hi ents -> hi - nextU <= 65536 ->
  exists rep,
    let '(f', next') := mb_walk ents f nextU in
    Forall2 reports (filter (fun e => (snd e >=? 0) && (fst e <? next')) ents) rep /\
    fb_inv f' (syms ++ syms_of nextU rep) /\ f_next f' = next' mod 65536 /\
    nextU <= next' /\ f_base f' = f_base f /\ f_ref f' = f_ref f /\
    next' = nextU + Z.of_nat (length (syms_of nextU rep)) /\
    times_ok f' (ts ++ map snd (filter (fun e => (snd e >=? 0) && (fst e <? next')) ents)).
Proof.
  induction ents as [|[seq t] tl IH]; intros f nextU syms ts Hinv Hts Hnext Ha Hb Hhi; cbn [mb_walk].
  - exists []. cbn [filter syms_of]. rewrite app_nil_r.
    split; [constructor|]. split; [exact Hinv|]. split; [exact Hnext|]. split; [lia|]. split; [reflexivity|].
    split; [reflexivity|]. split; [cbn [length]; lia|]. cbn [map]. rewrite app_nil_r. exact Hts.
  - cbn [asc fst] in Ha. destruct Ha as [Ha1 Ha2]. inversion Hb as [|? ? Hb1 Hb2]; subst. cbn [fst] in Hb1.
    destruct (t >=? 0) eqn:Et.
    + destruct (fb_add_received f (u16 seq) t) as [f1|] eqn:Eadd.
      * destruct (fb_add_inv f syms (u16 seq) t f1 Hinv Eadd) as (Hinv1 & _ & Hbase1 & Href1).
        assert (Hn1 : f_next f1 = (seq + 1) mod 65536).
        { rewrite (add_next f (u16 seq) t f1 Eadd) by (rewrite Hnext; lia). rewrite Hnext. unfold sub16, u16. lia. }
        assert (Hgap : sub16 (u16 seq) (f_next f) = seq - nextU) by (rewrite Hnext; unfold sub16, u16; lia).
        unfold add_syms in Hinv1. rewrite Hgap in Hinv1.
        set (sym := if (0 <=? round250 (t - f_last f)) && (round250 (t - f_last f) <=? 255) then 1 else 2) in *.
        pose proof (add_times f syms ts (u16 seq) t f1 Hinv Hts Eadd) as Hts1.
        destruct (IH f1 (seq + 1) _ _ Hinv1 Hts1 Hn1 Ha2 Hb2 ltac:(lia)) as (rep & Hrep).
        exists ((seq, sym) :: rep). destruct (mb_walk tl f1 (seq + 1)) as [f' next'].
        destruct Hrep as (HF & Hinv' & Hn' & Hle & Hb' & Hr' & Hlen' & Hts').
        cbn [filter fst snd]. rewrite Et. replace (seq <? next') with true by lia. cbn [andb].
        split; [constructor; [split; [reflexivity|]; unfold sym; destruct (_ && _); auto|exact HF]|].
        split; [|split; [exact Hn'|]; split; [lia|]; split; [congruence|]; split; [congruence|]; split;
                 [cbn [syms_of fst snd length]; rewrite app_length, repeat_length; cbn [length]; lia|
                  cbn [map snd]; rewrite <- app_assoc in Hts'; exact Hts']].
        cbn [syms_of fst snd]. rewrite <- app_assoc in Hinv'. cbn [app] in Hinv'.
        replace (repeat 0 (Z.to_nat (seq - nextU)) ++ sym :: syms_of (seq + 1) rep)
          with (repeat 0 (Z.to_nat (seq - nextU)) ++ [sym] ++ syms_of (seq + 1) rep) by reflexivity.
        rewrite <- (app_assoc (repeat 0 (Z.to_nat (seq - nextU))) [sym]) in Hinv'. exact Hinv'.
      * exists []. cbn [syms_of]. rewrite app_nil_r.
        rewrite filter_none;
          [split; [constructor|]; split; [exact Hinv|]; split; [exact Hnext|]; split; [lia|]; split; [reflexivity|];
           split; [reflexivity|]; split; [cbn [length]; lia|cbn [map]; rewrite app_nil_r; exact Hts]|].
        constructor; [cbn [fst snd]; replace (seq <? nextU) with false by lia; apply andb_false_r|].
        pose proof (asc_keys_ge _ _ Ha2) as Hk. eapply Forall_impl; [|exact Hk]. cbn beta. intros e He.
        replace (fst e <? nextU) with false by lia. apply andb_false_r.
    + assert (Ha3 : asc nextU tl) by (eapply asc_weaken; [|exact Ha2]; lia).
      destruct (IH f nextU syms ts Hinv Hts Hnext Ha3 Hb2 Hhi) as (rep & Hrep).
      exists rep. destruct (mb_walk tl f nextU) as [f' next'].
      cbn [filter fst snd]. rewrite Et. cbn [andb]. exact Hrep.
Qed.

Lemma asc_filter p : forall lo l, asc lo l -> asc lo (filter p l).
Proof.
  intros lo l; revert lo; induction l as [|e tl IH]; intros lo H; cbn [filter asc] in *; [auto|].
  destruct H as [H1 H2]. destruct (p e); cbn [asc].
  - split; [exact H1|apply IH, H2].
  - eapply asc_weaken; [|apply IH, H2]. lia.
Qed.

Lemma below_filter p hi l : below hi l -> below hi (filter p l).
Proof.
  unfold below. intros H. apply Forall_forall. intros x Hx. apply filter_In in Hx as [Hx _].
  eapply Forall_forall in H; eauto.
Qed.

(* the first entry satisfying p heads the filtered list; the rest comes from the entries after it *)
Lemma filter_split_first p next' : forall lo l e, asc lo l -> ent_first p l = Some e -> fst e < next' ->
  filter (fun x => p x && (fst x <? next')) l =
  e :: filter (fun x => p x && (fst x <? next')) (ent_from (fst e + 1) l).
Proof.
  intros lo l; revert lo; induction l as [|x tl IH]; intros lo e Ha Hf Hn; cbn [ent_first] in Hf; [discriminate|].
  cbn [asc] in Ha. destruct Ha as [H1 H2]. cbn [filter ent_from]. fold (ent_from (fst e + 1) tl).
  destruct (p x) eqn:Ep.
  - inversion Hf; subst x. replace (fst e <? next') with true by lia. cbn [andb].
    replace (fst e + 1 <=? fst e) with false by lia.
    rewrite (ent_from_all (fst e + 1) (fst e + 1) tl H2) by lia. reflexivity.
  - cbn [andb]. assert (Hk : fst x + 1 <= fst e).
    { destruct e as [k v]. cbn [fst]. eapply ent_first_key_ge; eauto. }
    replace (fst e + 1 <=? fst x) with false by lia. eapply IH; eauto.
Qed.

Lemma reports_asc : forall es rep lo, Forall2 reports es rep -> asc lo es -> asc lo rep.
Proof.
  induction es as [|e tl IH]; intros rep lo HF Ha; inversion HF as [|? r ? rtl [Hk _] HF']; subst; cbn [asc] in *; [auto|].
  destruct Ha as [H1 H2]. rewrite Hk. split; [exact H1|apply IH; auto].
Qed.

Lemma syms_of_length hi : forall rep lo, asc lo rep -> below hi rep -> lo <= hi ->
  Z.of_nat (length (syms_of lo rep)) <= hi - lo.
Proof.
  induction rep as [|e tl IH]; intros lo Ha Hb Hle; cbn [syms_of length asc] in *; [lia|].
  destruct Ha as [H1 H2]. inversion Hb as [|? ? Hb1 Hb2]; subst.
  rewrite app_length, repeat_length. cbn [length]. specialize (IH _ H2 Hb2 ltac:(lia)). lia.
Qed.

Lemma walk_next_le hi : forall l f nx, below hi l -> nx <= hi -> snd (mb_walk l f nx) <= hi.
Proof.
  induction l as [|[k v] tl IH]; intros f nx Hb Hn; cbn [mb_walk]; [exact Hn|].
  inversion Hb as [|? ? Hk Htl]; subst. cbn [fst] in Hk.
  destruct (v >=? 0); [destruct (fb_add_received f (u16 k) v) as [f'|]|]; cbn [snd]; auto.
  apply IH; auto. lia.
Qed.

(* the retained entries maybeBuildFeedbackPacket(b, end) looks at *)
Definition range_ents (m : amap) (b : Z) : list (Z * Z) :=
  filter (fun en => (am_clamp m b <=? fst en) && (fst en <? am_clamp m (m_end m))) (m_ent m).

(* C05_build, per packet: what maybeBuildFeedbackPacket(start, end) produces *)
Theorem maybe_build_spec sender r b :
  am_inv (r_map r) -> b < m_end (r_map r) ->
  let m := r_map r in
  match rec_maybe_build sender r b (m_end m) with
  | (Some fb, next', _) =>
      exists first t0 rep,
        ent_first (fun en => snd en >=? 0) (range_ents m b) = Some (first, t0) /\
        let baseU := Z.max b (first - 32766) in
        (* exactly the received entries of the range below the new start pointer are reported, none skipped *)
        Forall2 reports (filter (fun e => (snd e >=? 0) && (fst e <? next')) (range_ents m b)) rep /\
        fb_inv fb (syms_of baseU rep) /\
        f_base fb = baseU mod 65536 /\ f_ref fb = Z.quot t0 64000 /\
        baseU <= first < next' /\ next' <= m_end m /\
        next' = baseU + Z.of_nat (length (syms_of baseU rep)) /\
        Z.of_nat (length (syms_of baseU rep)) < 65536 /\
        (* decoded times: within 125 us of the arrival time of every reported entry *)
        times_ok fb (map snd (filter (fun e => (snd e >=? 0) && (fst e <? next')) (range_ents m b)))
  | (None, next', c) =>
      next' = b /\ c = r_fb r /\ ent_first (fun en => snd en >=? 0) (range_ents m b) = None
  end.
Proof.
  intros Hinv Hb. cbv zeta. set (m := r_map r) in *. pose proof Hinv as (Ha & Hbel & Hle & Hw).
  unfold rec_maybe_build. fold m. fold (range_ents m b).
  assert (Hs : m_begin m <= am_clamp m b <= m_end m /\ b <= am_clamp m b).
  { unfold am_clamp. destruct (b <? m_begin m) eqn:E1; [lia|]. destruct (m_end m <? b) eqn:E2; lia. }
  assert (HaR : asc (am_clamp m b) (range_ents m b)).
  { unfold range_ents.
    assert (H0 : asc (am_clamp m b) (ent_from (am_clamp m b) (m_ent m))).
    { pose proof (asc_from (am_clamp m b) _ _ Ha) as H. eapply asc_weaken; [|exact H]. lia. }
    replace (filter _ (m_ent m)) with (filter (fun en => fst en <? am_clamp m (m_end m)) (ent_from (am_clamp m b) (m_ent m))).
    - apply asc_filter, H0.
    - unfold ent_from. clear. induction (m_ent m) as [|e tl IH]; cbn [filter]; [reflexivity|].
      destruct (am_clamp m b <=? fst e); cbn [filter andb]; [destruct (fst e <? _); rewrite IH; reflexivity|exact IH]. }
  assert (HbR : below (m_end m) (range_ents m b)) by (apply below_filter, Hbel).
  destruct (ent_first (fun en => snd en >=? 0) (range_ents m b)) as [[first t0]|] eqn:Efirst; [|auto].
  pose proof (ent_first_some _ _ _ Efirst) as Ht0. cbn [snd] in Ht0.
  pose proof (ent_first_key_ge _ _ _ _ _ HaR Efirst) as Hk0.
  assert (Hfirst_lt : first < m_end m).
  { clear - Efirst HbR. induction (range_ents m b) as [|e tl IH]; cbn [ent_first] in Efirst; [discriminate|].
    inversion HbR; subst. destruct (snd e >=? 0); [inversion Efirst; subst; cbn [fst] in *; lia|auto]. }
  set (baseU := Z.max b (first - 32766)).
  pose proof (first_add_succeeds (u16 baseU) (u16 first) t0 ltac:(lia)) as Hne.
  destruct (fb_add_received (fb_new (u16 baseU) t0) (u16 first) t0) as [fb1|] eqn:Eadd; [|congruence].
  assert (Hinv0 : fb_inv (fb_new (u16 baseU) t0) []) by (apply fb_new_inv; unfold u16; lia).
  destruct (fb_add_inv _ _ _ _ _ Hinv0 Eadd) as (Hinv1 & _ & Hbase1 & Href1).
  assert (Hn1 : f_next fb1 = (first + 1) mod 65536).
  { rewrite (add_next _ _ _ _ Eadd) by (cbn [fb_new f_next]; unfold u16; lia). cbn [fb_new f_next]. unfold sub16, u16. lia. }
  assert (Hgap : sub16 (u16 first) (f_next (fb_new (u16 baseU) t0)) = first - baseU)
    by (cbn [fb_new f_next]; unfold sub16, u16; lia).
  unfold add_syms in Hinv1. rewrite Hgap in Hinv1. cbn [app] in Hinv1.
  set (sym0 := if (0 <=? round250 (t0 - f_last (fb_new (u16 baseU) t0))) && (round250 (t0 - f_last (fb_new (u16 baseU) t0)) <=? 255) then 1 else 2) in *.
  assert (HaW : asc (first + 1) (ent_from (first + 1) (range_ents m b))).
  { pose proof (asc_from (first + 1) _ _ HaR) as H. eapply asc_weaken; [|exact H]. lia. }
  pose proof (add_times _ _ [] _ _ _ Hinv0 (times_ok_new _ _) Eadd) as Hts1. cbn [app] in Hts1.
  destruct (walk_spec (m_end m) _ fb1 (first + 1) _ [t0] Hinv1 Hts1 Hn1 HaW (below_from _ _ _ HbR) ltac:(lia)) as (rep & Hrep).
  destruct (mb_walk (ent_from (first + 1) (range_ents m b)) fb1 (first + 1)) as [fb2 next'] eqn:Ewalk.
  destruct Hrep as (HF & Hinv2 & Hn2 & Hle2 & Hb2 & Hr2 & Hlen2 & Hts2).
  assert (Hnext_le : next' <= m_end m).
  { pose proof (walk_next_le (m_end m) _ fb1 (first + 1) (below_from (first + 1) _ _ HbR) ltac:(lia)) as H.
    rewrite Ewalk in H. exact H. }
  exists first, t0, ((first, sym0) :: rep).
  split; [reflexivity|]. cbv zeta. fold baseU.
  split.
  { rewrite (filter_split_first (fun e => snd e >=? 0) next' _ _ _ HaR Efirst) by (cbn [fst]; lia). cbn [fst].
    constructor; [|exact HF]. split; [reflexivity|]. cbn [snd]. unfold sym0. destruct (_ && _); auto. }
  assert (Hsyms : syms_of baseU ((first, sym0) :: rep) = (repeat 0 (Z.to_nat (first - baseU)) ++ [sym0]) ++ syms_of (first + 1) rep).
  { cbn [syms_of fst snd]. rewrite <- app_assoc. reflexivity. }
  split; [rewrite Hsyms; exact Hinv2|].
  split; [rewrite Hb2, Hbase1; cbn [fb_new f_base]; reflexivity|].
  split; [rewrite Hr2, Href1; cbn [fb_new f_ref]; reflexivity|].
  split; [unfold baseU; lia|]. split; [exact Hnext_le|].
  split.
  { rewrite Hsyms, app_length, app_length, repeat_length. cbn [length]. unfold baseU in *. lia. }
  (* fewer than 2^16 statuses: window 2^15 + at most 0x7FFE missing before the first *)
  assert (Hrep_asc : asc baseU ((first, sym0) :: rep)).
  { cbn [asc fst]. split; [unfold baseU; lia|].
    eapply reports_asc; [exact HF|]. apply asc_filter. exact HaW. }
  assert (Hrep_bel : below (m_end m) ((first, sym0) :: rep)).
  { constructor; [cbn [fst]; lia|].
    clear - HF HbR. assert (Hbw := below_filter (fun e => (snd e >=? 0) && (fst e <? next')) _ _ (below_from (first + 1) _ _ HbR)).
    revert HF Hbw. generalize (filter (fun e => (snd e >=? 0) && (fst e <? next')) (ent_from (first + 1) (range_ents m b))) as es.
    intros es HF. induction HF as [|e rr es' rep' [Hk _] _ IH]; intros Hbw; [constructor|].
    inversion Hbw; subst. constructor; [rewrite Hk; auto|apply IH; auto]. }
  pose proof (syms_of_length (m_end m) _ baseU Hrep_asc Hrep_bel ltac:(unfold baseU; lia)) as Hlen.
  split; [unfold baseU in *; lia|].
  rewrite (filter_split_first (fun e => snd e >=? 0) next' _ _ _ HaR Efirst) by (cbn [fst]; lia).
  cbn [map snd fst]. exact Hts2.
Qed.

(* ------------------------------------------------------------------ *)
(* the packet of maybeBuildFeedbackPacket in wire form                 *)
(* ------------------------------------------------------------------ *)
Lemma filter_nonzero_repeat0 n : filter nonzero (repeat 0 n) = [].
Proof. induction n; cbn [repeat filter nonzero Z.eqb negb]; auto. Qed.

Lemma filter_nonzero_syms_of : forall rep lo, Forall (fun r => snd r = 1 \/ snd r = 2) rep ->
  filter nonzero (syms_of lo rep) = map snd rep.
Proof.
  induction rep as [|e tl IH]; intros lo H; cbn [syms_of map]; [reflexivity|].
  inversion H as [|? ? He Htl]; subst. rewrite filter_app, filter_nonzero_repeat0. cbn [app filter].
  replace (nonzero (snd e)) with true by (unfold nonzero; destruct He as [-> | ->]; reflexivity).
  f_equal. apply IH, Htl.
Qed.

Lemma reports_syms es rep : Forall2 reports es rep -> Forall (fun r => snd r = 1 \/ snd r = 2) rep.
Proof. induction 1 as [|e r es' rep' [_ Hs] _ IH]; constructor; auto. Qed.

(* C05_build per packet, on the wire: the packet built from start pointer b
   reports, for the numbers baseU .. next'-1 (baseU = max(b, first - 0x7FFE)),
   exactly the retained arrivals of that range as received (symbol 1 or 2, one
   delta each, in order) and every other number as not received *)
Theorem build_packet_spec sender r b media fbc :
  am_inv (r_map r) -> b < m_end (r_map r) ->
  let m := r_map r in
  match rec_maybe_build sender r b (m_end m) with
  | (Some fb, next', _) =>
      let p := fb_get_rtcp sender media fbc fb in
      exists first t0 rep,
        ent_first (fun en => snd en >=? 0) (range_ents m b) = Some (first, t0) /\
        let baseU := Z.max b (first - 32766) in
        Forall2 reports (filter (fun e => (snd e >=? 0) && (fst e <? next')) (range_ents m b)) rep /\
        (exists k, (k < 7)%nat /\ statuses_wire (p_chunks p) = syms_of baseU rep ++ repeat 0 k) /\
        p_count p = Z.of_nat (length (syms_of baseU rep)) /\
        map fst (p_deltas p) = map snd rep /\
        p_base p = baseU mod 65536 /\
        p_ref p = (Z.quot t0 64000 mod 4294967296) mod 16777216 /\
        next' = baseU + p_count p /\ first < next' <= m_end m /\
        Forall2 (fun t T => Z.abs (t - T) <= 125)
                (map snd (filter (fun e => (snd e >=? 0) && (fst e <? next')) (range_ents m b)))
                (psums (Z.quot t0 64000 * 64000) (map snd (p_deltas p)))
  | (None, next', _) => next' = b
  end.
Proof.
  intros Hinv Hb. cbv zeta. pose proof (maybe_build_spec sender r b Hinv Hb) as H. cbv zeta in H.
  destruct (rec_maybe_build sender r b (m_end (r_map r))) as [[[fb|] next'] c]; [|tauto].
  destruct H as (first & t0 & rep & Hfirst & HF & Hfb & Hbase & Href & Hord & Hle & Hnext & Hlen & Hts).
  exists first, t0, rep. split; [exact Hfirst|]. split; [exact HF|].
  pose proof (fb_packet_ok sender media fbc fb _ Hfb Hlen) as Hp. cbv zeta in Hp.
  destruct Hp as (Hst & Hcnt & Hty & _ & Hpb & _).
  split; [exact Hst|]. split; [exact Hcnt|].
  split; [rewrite Hty; apply filter_nonzero_syms_of; eapply reports_syms; eauto|].
  split; [rewrite Hpb; exact Hbase|].
  split; [unfold fb_get_rtcp; cbn [p_ref]; rewrite Href; reflexivity|].
  split; [rewrite Hcnt; exact Hnext|]. split; [lia|].
  unfold times_ok in Hts. rewrite Href in Hts. exact Hts.
Qed.

(* ------------------------------------------------------------------ *)
(* packets of one build cover consecutive, non-overlapping ranges      *)
(* ------------------------------------------------------------------ *)
(* e = the base the next packet must have (None: any) *)
Fixpoint consec_from (e : option Z) (ps : list pkt) : Prop :=
  match ps with
  | [] => True
  | p :: tl => match e with None => True | Some x => p_base p = x end /\
               consec_from (Some ((p_base p + p_count p) mod 65536)) tl
  end.
Fixpoint end_of (e : option Z) (ps : list pkt) : option Z :=
  match ps with [] => e | p :: tl => end_of (Some ((p_base p + p_count p) mod 65536)) tl end.

Lemma consec_snoc ps : forall e p, consec_from e ps ->
  match end_of e ps with None => True | Some x => p_base p = x end ->
  consec_from e (ps ++ [p]) /\ end_of e (ps ++ [p]) = Some ((p_base p + p_count p) mod 65536).
Proof.
  induction ps as [|q tl IH]; intros e p Hc He; cbn [app consec_from end_of] in *.
  - split; [split; [exact He|exact I]|reflexivity].
  - destruct Hc as [Hq Hc]. destruct (IH _ p Hc He) as [H1 H2]. split; [split; auto|exact H2].
Qed.

Lemma build_loop_consec fuel sender : forall r acc,
  am_inv (r_map r) -> consec_from None acc ->
  match end_of None acc with
  | None => True
  | Some x => exists s, r_start r = Some s /\ m_begin (r_map r) < s /\ x = s mod 65536
  end ->
  consec_from None (snd (rec_build_loop fuel sender r (m_end (r_map r)) acc)).
Proof.
  induction fuel as [|fuel IH]; intros r acc Hinv Hc He; cbn [rec_build_loop]; [exact Hc|].
  destruct (r_start r) as [s|] eqn:Es; [|exact Hc].
  destruct (s <? m_end (r_map r)) eqn:Elt; [|exact Hc].
  pose proof (build_packet_spec sender r s (r_media r) (r_fb r) Hinv ltac:(lia)) as Hspec. cbv zeta in Hspec.
  destruct (rec_maybe_build sender r s (m_end (r_map r))) as [[[fb|] next'] c]; [|exact Hc].
  destruct Hspec as (first & t0 & rep & Hfirst & HF & _ & Hcnt & _ & Hbase & _ & Hnext & Hord & _).
  set (p := fb_get_rtcp sender (r_media r) (r_fb r) fb) in *.
  pose proof Hinv as (Ha & Hbel & Hle & Hw).
  (* the first received entry of the range is inside the window *)
  assert (Hfirst_ge : m_begin (r_map r) <= first).
  { assert (HaR : asc (m_begin (r_map r)) (range_ents (r_map r) s)) by (apply asc_filter, Ha).
    eapply ent_first_key_ge; eauto. }
  assert (Hp : match end_of None acc with None => True | Some x => p_base p = x end).
  { destruct (end_of None acc) as [x|]; [|exact I].
    destruct He as (s' & Hs' & Hlt & Hx). inversion Hs'; subst s'.
    rewrite Hbase, Hx. f_equal. lia. }
  destruct (consec_snoc acc None p Hc Hp) as [Hc' He'].
  change (m_end (r_map r)) with (m_end (r_map (mkRec (r_map r) (r_unw r) (Some next') (r_media r) c (r_held r)))).
  apply IH; cbn [r_map r_start]; auto.
  rewrite He'. exists next'. split; [reflexivity|]. split; [lia|].
  rewrite Hbase, Hnext. lia.
Qed.

(* every build of every history: consecutive ranges *)
Theorem run_consec sender ops : forall r, am_inv (r_map r) ->
  Forall (consec_from None) (rec_run sender r ops).
Proof.
  induction ops as [|o tl IH]; intros r Hinv; cbn [rec_run]; [constructor|].
  destruct o as [ssrc seq t|].
  - apply IH, record_inv, Hinv.
  - pose proof (build_map sender r) as Hmap.
    assert (Hcons : consec_from None (snd (rec_build sender r))).
    { unfold rec_build. destruct (r_start r) eqn:Es; [|exact I].
      pose proof (build_loop_consec (S (length (m_ent (r_map r)))) sender r [] Hinv I I) as H.
      destruct (rec_build_loop _ _ _ _ _) as [r' ps]. exact H. }
    destruct (rec_build sender r) as [r' ps]. cbn [fst snd] in *.
    constructor; [exact Hcons|]. apply IH. rewrite Hmap. exact Hinv.
Qed.

(* ------------------------------------------------------------------ *)
(* a build leaves nothing received at or after the start pointer       *)
(* ------------------------------------------------------------------ *)
Lemma ent_from_length_le a b l : a <= b -> (length (ent_from b l) <= length (ent_from a l))%nat.
Proof.
  intros Hab. unfold ent_from. induction l as [|e tl IH]; cbn [filter length]; [lia|].
  destruct (b <=? fst e) eqn:E1; destruct (a <=? fst e) eqn:E2; cbn [length]; lia.
Qed.

Lemma ent_from_length_lt a b l e : a <= b -> In e l -> a <= fst e < b ->
  (length (ent_from b l) < length (ent_from a l))%nat.
Proof.
  intros Hab Hin He. unfold ent_from. induction l as [|x tl IH]; cbn [filter length]; [destruct Hin|].
  destruct Hin as [->|Hin].
  - replace (b <=? fst e) with false by lia. replace (a <=? fst e) with true by lia. cbn [length].
    pose proof (ent_from_length_le a b tl Hab). unfold ent_from in H. lia.
  - specialize (IH Hin). destruct (b <=? fst x) eqn:E1; destruct (a <=? fst x) eqn:E2; cbn [length]; lia.
Qed.

Lemma ent_first_in p l e : ent_first p l = Some e -> In e l.
Proof.
  induction l as [|x tl IH]; cbn [ent_first]; [discriminate|].
  destruct (p x); [intros H; inversion H; left; reflexivity|intros H; right; auto].
Qed.

Lemma am_clamp_mono m a b : m_begin m <= m_end m -> a <= b -> am_clamp m a <= am_clamp m b.
Proof.
  intros Hle Hab. unfold am_clamp.
  destruct (a <? m_begin m) eqn:E1; destruct (b <? m_begin m) eqn:E2;
    destruct (m_end m <? a) eqn:E3; destruct (m_end m <? b) eqn:E4; lia.
Qed.

Definition nothing_left (m : amap) (s : Z) : Prop :=
  m_end m <= s \/ ent_first (fun en => snd en >=? 0) (range_ents m s) = None.

Lemma build_loop_complete fuel sender : forall r acc s,
  am_inv (r_map r) -> r_start r = Some s ->
  (length (ent_from (am_clamp (r_map r) s) (m_ent (r_map r))) < fuel)%nat ->
  exists s', r_start (fst (rec_build_loop fuel sender r (m_end (r_map r)) acc)) = Some s' /\
             nothing_left (r_map r) s'.
Proof.
  induction fuel as [|fuel IH]; intros r acc s Hinv Hs Hfuel; [lia|]. cbn [rec_build_loop]. rewrite Hs.
  destruct (s <? m_end (r_map r)) eqn:Elt; [|exists s; split; [exact Hs|left; lia]].
  pose proof (maybe_build_spec sender r s Hinv ltac:(lia)) as Hspec. cbv zeta in Hspec.
  destruct (rec_maybe_build sender r s (m_end (r_map r))) as [[[fb|] next'] c].
  - destruct Hspec as (first & t0 & rep & Hfirst & _ & _ & _ & _ & Hord & Hle & _ & _ & _).
    pose proof Hinv as (Ha & Hbel & Hle0 & Hw).
    set (r' := mkRec (r_map r) (r_unw r) (Some next') (r_media r) c (r_held r)).
    assert (Hlt : (length (ent_from (am_clamp (r_map r') next') (m_ent (r_map r'))) < fuel)%nat).
    { cbn [r' r_map].
      (* the entry `first` is at or after Clamp(s) and below Clamp(next') *)
      pose proof (ent_first_in _ _ _ Hfirst) as Hin. unfold range_ents in Hin. apply filter_In in Hin as [Hin Hrange].
      cbn [fst] in Hrange.
      assert (Hc1 : am_clamp (r_map r) s <= first) by lia.
      assert (Hc2 : first < am_clamp (r_map r) next').
      { unfold am_clamp. destruct (next' <? m_begin (r_map r)) eqn:E1; [|destruct (m_end (r_map r) <? next') eqn:E2; lia].
        pose proof (asc_keys_ge _ _ Ha) as Hk. eapply Forall_forall in Hk; [|exact Hin]. cbn [fst] in Hk. lia. }
      pose proof (ent_from_length_lt (am_clamp (r_map r) s) (am_clamp (r_map r) next') (m_ent (r_map r)) (first, t0)
                    ltac:(lia) Hin ltac:(cbn [fst]; lia)).
      lia. }
    destruct (IH r' (acc ++ [fb_get_rtcp sender (r_media r) (r_fb r) fb]) next' Hinv eq_refl Hlt) as (s' & Hs' & Hn).
    exists s'. split; [exact Hs'|exact Hn].
  - destruct Hspec as (Hn & _ & Hnone). subst next'. cbn [fst r_start]. exists s. split; [reflexivity|right; exact Hnone].
Qed.

(* after BuildFeedbackPacket no retained arrival (time >= 0) is left at or
   after the start pointer: every such arrival was put into one of the packets *)
Theorem build_complete sender r s : am_inv (r_map r) -> r_start r = Some s ->
  exists s', r_start (fst (rec_build sender r)) = Some s' /\ nothing_left (r_map r) s'.
Proof.
  intros Hinv Hs. unfold rec_build. rewrite Hs.
  assert (Hf : (length (ent_from (am_clamp (r_map r) s) (m_ent (r_map r))) < S (length (m_ent (r_map r))))%nat).
  { unfold ent_from. generalize (m_ent (r_map r)) as l. induction l as [|e tl IHl]; cbn [filter length]; [lia|].
    destruct (_ <=? _); cbn [length]; lia. }
  destruct (build_loop_complete (S (length (m_ent (r_map r)))) sender r [] s Hinv Hs Hf) as (s' & Hs' & Hn).
  destruct (rec_build_loop _ _ _ _ _) as [r' ps]. cbn [fst r_start] in *. exists s'. split; auto.
Qed.

(* ------------------------------------------------------------------ *)
(* Record keeps the start pointer at or below what is still to report   *)
(* ------------------------------------------------------------------ *)
(* After Record the start pointer is at or below the number just recorded (if
   it is in the map) and at or below every entry it was at or below before:
   so every arrival stored since the last build, and still retained, lies in
   the range the next build starts from. *)
Theorem record_start r ssrc seq t :
  am_inv (r_map r) ->
  let r' := rec_record r ssrc seq t in
  let u := snd (unwrap (r_unw r) seq) in
  exists s', r_start r' = Some s' /\
    forall k v, In (k, v) (m_ent (r_map r')) ->
      (k = u \/ exists s, r_start r = Some s /\ s <= k) -> s' <= k.
Proof.
  intros Hinv. cbv zeta. unfold rec_record.
  destruct (unwrap (r_unw r) seq) as [unw u] eqn:Eu. cbn [snd].
  pose proof (cull_inv r u t Hinv) as Hc.
  set (start1 := match r_start r with None => u | Some s => if u <? s then u else s end).
  assert (H1 : forall k, (k = u \/ exists s, r_start r = Some s /\ s <= k) -> start1 <= k).
  { intros k [->|(s & Hs & Hle)]; unfold start1.
    - destruct (r_start r) as [s|]; [destruct (u <? s) eqn:E; lia|lia].
    - rewrite Hs. destruct (u <? s) eqn:E; lia. }
  destruct (am_has (rec_cull r u t) u); cbn [r_start r_map].
  - exists start1. split; [reflexivity|]. intros k v _ Hk. apply H1, Hk.
  - pose proof (am_add_inv _ u t Hc) as (Ha2 & _).
    set (m2 := am_add (rec_cull r u t) u t) in *.
    exists (if start1 <? m_begin m2 then m_begin m2 else start1). split; [reflexivity|].
    intros k v Hin Hk. specialize (H1 k Hk).
    pose proof (asc_keys_ge _ _ Ha2) as Hge. eapply Forall_forall in Hge; [|exact Hin]. cbn [fst] in Hge.
    destruct (start1 <? m_begin m2); lia.
Qed.
