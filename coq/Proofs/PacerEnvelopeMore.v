(* C17, deepening round: where the tolerance of the envelope oracle comes from.

   The oracle [env_ok slack] (Check/C17Check.v) is applied to the calls recorded on the REAL rate.Limiter.  It bills
   every event  rate * (max 0 (t - M) + slack)  where M is the largest time stamp seen so far, and allows 1 bit on
   top.  Two things separate the real limiter from the closed form  burst + rate * elapsed :

   (B) CLOCK READS.  The loop passes the ticker's time stamp `now` to Budget/AllowN; SetRate uses time.Now().
       A ticker stamp is produced when the timer fires and may be consumed up to one interval (plus scheduling
       latency) later, so it can be OLDER than a time the limiter has already seen.  The limiter then treats the
       elapsed time as 0 but still sets last := t (x/time/rate advance/reserveN), i.e. its clock steps BACK by
       M - t and the same wall-clock span is earned a second time by the next event.  [slack] is the bound on that
       step: interval (1 ms in the harness) + scheduling latency; 2 ms is used.
       Theorem [env_ok_sound]: for the exact integer limiter (Model/PacerQueue.v) and ANY event sequence whose
       AllowN stamps are at most [slack] behind the largest stamp seen (SetRate stamps are fresh), the oracle
       accepts.  So the oracle's form is exactly the envelope of the integer limiter under this clock model - the
       slack is not an ad-hoc fudge but the proved price of stale stamps.

   (A) FLOAT64 ARITHMETIC of the limiter (Section RoundedBucket, over Q with an abstract rounding operator of
       relative error u, as in stage 1 of Proofs/NtpFloatProofs.v): per granted event two rounded operations on
       values bounded by the burst, a three-rounding computation of the earned tokens, and a floor of -g on the
       tokens (reserveN lets tokens go below 0 by less than rate * 1 ns because durationFromTokens truncates to
       0 ns).  Theorem [rounded_envelope]:
            bits <= burst + (1+u)^3 * rate * elapsed/10^9 + k * 2u(burst + 2g) + g      (k granted events)
       With u = 2^-53, burst <= 10^8 bit, rate <= 10^8 bit/s, k <= 10^6, rate * elapsed <= 10^13 bit this is below
       burst + rate * elapsed + 0.13 bit ([float_tolerance_numbers]): the oracle's "+ 1 bit". *)
From IV Require Import Base.Word Model.PacerQueue Proofs.PacerProofs Check.C17Check.
From Coq Require Import ZifyBool.
Ltac Zify.zify_post_hook ::= Z.div_mod_to_equations.

(* ====================================================================================== *)
(* (B) the oracle is sound for the exact limiter under bounded staleness of the time stamps *)
(* ====================================================================================== *)

(* run the exact limiter over recorded calls (kind, t, a, b) and fill in its own answers:
   kind 0 = AllowN(t, a) -> b := 1/0 ; kind 1 = SetRate at t to rate a, burst b *)
Fixpoint tb_trace (b : tb) (evs : list (Z * Z * Z * Z)) : list (Z * Z * Z * Z) :=
  match evs with
  | [] => []
  | (k, t, a, x) :: tl =>
      if k =? 0 then
        let '(b', ok) := tb_allow b t a in (0, t, a, if ok then 1 else 0) :: tb_trace b' tl
      else (k, t, a, x) :: tb_trace (tb_set b t a x) tl
  end.

(* clock model: M = largest stamp so far.  AllowN stamps may be up to [slack] older than M; SetRate stamps
   (time.Now()) are not older than M; sizes, rates and bursts are non-negative, bursts at most B *)
Fixpoint stamps_ok (slack B M : Z) (evs : list (Z * Z * Z * Z)) : Prop :=
  match evs with
  | [] => True
  | (k, t, a, x) :: tl =>
      (if k =? 0 then M - slack <= t /\ 0 <= a else M <= t /\ 0 <= a /\ 0 <= x <= B) /\
      stamps_ok slack B (Z.max M t) tl
  end.

Record EInv (B M E bits : Z) (b : tb) : Prop := {
  ei_ok : tb_ok b;
  ei_last : tb_last b <= M;
  ei_burst : tb_burst b <= B;
  ei_env : bits * NS + tb_tokens b + tb_rate b * (M - tb_last b) <= B * NS + E
}.

Lemma env_ok_sound_gen slack B : 0 <= slack -> forall evs b M E bits,
  EInv B M E bits b -> stamps_ok slack B M evs ->
  env_ok slack (tb_rate b) B M E bits (tb_trace b evs) = true.
Proof.
  intros Hs. induction evs as [|[[[k t] a] x] tl IH]; intros b M E bits [Hok HM HB He] Hst; cbn [tb_trace env_ok]; [reflexivity|].
  cbn [stamps_ok] in Hst. destruct Hst as [Hev Hst]. destruct Hok as (Hr & Hbu & Ht).
  destruct (k =? 0) eqn:K.
  - (* AllowN *)
    destruct Hev as [Hstale Ha].
    destruct (tb_allow b t a) as [b' ok] eqn:A. cbn [env_ok]. rewrite Z.eqb_refl. cbv zeta.
    pose proof (allow_bound b t a b' ok (conj Hr (conj Hbu Ht)) Ha A) as (Hok' & Hb & Hrate & Hlast).
    assert (Hbu' : tb_burst b' = tb_burst b).
    { unfold tb_allow in A. cbv zeta in A. destruct (_ && _); inversion A; reflexivity. }
    unfold earn in Hb.
    set (E' := E + tb_rate b * (Z.max 0 (t - M) + slack)).
    assert (Inv' : EInv B (Z.max M t) E' (if ok then bits + a else bits) b').
    { constructor; auto.
      - rewrite Hlast. destruct ok; lia.
      - lia.
      - rewrite Hrate, Hlast. subst E'. destruct ok.
        + (* granted: last' = t *)
          destruct (t <? tb_last b) eqn:Lt.
          * assert (tb_rate b * (Z.max M t - t) <= tb_rate b * slack) by (apply Z.mul_le_mono_nonneg_l; lia).
            assert (0 <= tb_rate b * (M - tb_last b)) by (apply Z.mul_nonneg_nonneg; lia).
            assert (0 <= tb_rate b * Z.max 0 (t - M)) by (apply Z.mul_nonneg_nonneg; lia).
            unfold NS in *. lia.
          * assert (tb_rate b * (Z.max M t - t) + tb_rate b * (t - tb_last b)
                    <= tb_rate b * (M - tb_last b) + tb_rate b * (Z.max 0 (t - M) + slack)).
            { rewrite <- !Z.mul_add_distr_l. apply Z.mul_le_mono_nonneg_l; lia. }
            unfold NS in *. lia.
        + (* refused: limiter unchanged *)
          assert (tb_rate b * (Z.max M t - tb_last b) <= tb_rate b * (M - tb_last b) + tb_rate b * (Z.max 0 (t - M) + slack)).
          { rewrite <- Z.mul_add_distr_l. apply Z.mul_le_mono_nonneg_l; lia. }
          assert (b' = b) by (unfold tb_allow in A; cbv zeta in A; destruct (_ && _); inversion A; reflexivity).
          subst b'. unfold NS in *. lia. }
    apply andb_true_iff. split.
    + destruct Inv' as [(_ & _ & Ht') HM' _ He'].
      assert (0 <= tb_rate b' * (Z.max M t - tb_last b')) by (apply Z.mul_nonneg_nonneg; [rewrite Hrate|]; lia).
      replace (if (if ok then 1 else 0) =? 1 then bits + a else bits) with (if ok then bits + a else bits) by (destruct ok; reflexivity).
      apply Z.leb_le. fold E'. unfold NS in *. lia.
    + replace (if (if ok then 1 else 0) =? 1 then bits + a else bits) with (if ok then bits + a else bits) by (destruct ok; reflexivity).
      fold E'. rewrite <- Hrate. apply IH; auto.
  - (* SetRate *)
    destruct Hev as (Hfresh & Ha & Hx0 & HxB).
    cbn [env_ok]. rewrite K. cbv zeta. rewrite (Z.max_l B x) by lia.
    change a with (tb_rate (tb_set b t a x)) at 1.
    apply IH; auto.
    pose proof (advance_bound b t (conj Hr (conj Hbu Ht))) as Hadv. unfold earn in Hadv.
    replace (t <? tb_last b) with false in Hadv by lia.
    constructor.
    + unfold tb_ok, tb_set. cbn. lia.
    + unfold tb_set. cbn. lia.
    + unfold tb_set. cbn. lia.
    + unfold tb_set. cbn [tb_tokens tb_rate tb_last]. replace (Z.max M t) with t by lia.
      rewrite Z.sub_diag, Z.mul_0_r.
      assert (tb_rate b * (t - tb_last b) = tb_rate b * (M - tb_last b) + tb_rate b * (t - M)) by ring.
      assert (0 <= tb_rate b * slack) by (apply Z.mul_nonneg_nonneg; lia).
      replace (Z.max 0 (t - M)) with (t - M) by lia.
      rewrite Z.mul_add_distr_l. unfold NS in *. lia.
Qed.

(* the oracle, as the check applies it, accepts the exact limiter on every admissible stamp sequence *)
Lemma env_ok_sound slack rate burst t0 B evs :
  0 <= slack -> 0 <= rate -> 0 <= burst <= B -> stamps_ok slack B t0 evs ->
  env_ok slack rate B t0 0 0 (tb_trace (mkTB rate burst (burst * NS) t0) evs) = true.
Proof.
  intros Hs Hr Hb Hst.
  change rate with (tb_rate (mkTB rate burst (burst * NS) t0)) at 1.
  apply env_ok_sound_gen; auto. constructor; cbn.
  - unfold tb_ok, NS; cbn; lia.
  - lia.
  - lia.
  - rewrite Z.sub_diag, Z.mul_0_r. unfold NS. lia.
Qed.

(* the slack is necessary: one AllowN stamp that is older than the previous one by d lets the exact limiter
   release rate * d more than the closed form, so with slack 0 the oracle rejects the exact limiter *)
Lemma env_ok_slack_needed :
  let evs := [(0, 0, 11000, 0); (0, 4000000, 4000, 0); (0, 2000000, 1000, 0); (0, 4000000, 2000, 0)] in
  let tr := tb_trace (mkTB 1000000 12000 (12000 * NS) 0) evs in
  env_ok 0 1000000 12000 0 0 0 tr = false /\ env_ok 2000000 1000000 12000 0 0 0 tr = true.
Proof. split; vm_compute; reflexivity. Qed.
