(* Stream-level monotonicity: the report cursor never moves backwards, and an
   arrival record stays in the log unchanged (first copy) until the cursor has
   passed it.  With the closed form of metricsAfter (entry k of a block is
   "received" iff k is in the log, and every block starts at or above the cursor)
   this is "a packet once reported received is never later reported lost". *)
From IV Require Import Base.Word Model.Unwrapper Model.StreamLog Proofs.StreamLogProofs.
From Coq Require Import ZifyBool.
Ltac Zify.zify_post_hook ::= Z.div_mod_to_equations.

Inductive slop := SA (ts seq ecn : Z) | SM (ref budget : Z).

Section Mono.
  Variable atok : Z -> bool * Z.

  Definition sl_step (s : slog) (o : slop) : slog :=
    match o with
    | SA ts seq ecn => sl_add s ts seq ecn
    | SM ref budget => fst (metrics_after atok s ref budget)
    end.

  Fixpoint sl_run (s : slog) (ops : list slop) : slog :=
    match ops with [] => s | o :: tl => sl_run (sl_step s o) tl end.

  Lemma add_props s ts seq ecn : sl_init s = true ->
    sl_init (sl_add s ts seq ecn) = true /\ sl_next (sl_add s ts seq ecn) = sl_next s /\
    (forall k v, lfind k (sl_log s) = Some v -> lfind k (sl_log (sl_add s ts seq ecn)) = Some v).
  Proof.
    intros Hi. unfold sl_add. destruct (unwrap (sl_seq s) seq) as [st' u]. rewrite Hi.
    destruct (u <? sl_next s); [cbn; auto|].
    destruct (lfind u (sl_log s)) eqn:E; cbn [sl_init sl_next sl_log]; [auto|].
    repeat match goal with |- _ /\ _ => split end; auto. intros k v Hk. cbn [lfind]. destruct (u =? k) eqn:E2; [|exact Hk].
    assert (u = k) by lia. subst. congruence.
  Qed.

  Lemma metrics_props s ref B : 0 <= B ->
    let s' := fst (metrics_after atok s ref B) in
    sl_init s' = sl_init s /\ sl_next s <= sl_next s' /\
    (forall k v, lfind k (sl_log s) = Some v -> sl_next s' <= k -> lfind k (sl_log s') = Some v).
  Proof.
    intros HB. cbv zeta.
    assert (Hd : sl_log s = [] \/ sl_log s <> []) by (destruct (sl_log s); [left; reflexivity|right; congruence]).
    destruct Hd as [El|El].
    - rewrite metrics_after_empty by exact El. cbn [fst]. repeat match goal with |- _ /\ _ => split end; auto; lia.
    - destruct (metrics_after_spec atok s ref B El) as (log2 & E & Hlog2). rewrite E. cbn [fst sl_init sl_next sl_log].
      assert (Hn : sl_next s <= trunc_next s B)
        by (unfold trunc_next; destruct (_ >? _) eqn:Et; [rewrite Z.gtb_ltb in Et; apply Z.ltb_lt in Et|]; lia).
      repeat match goal with |- _ /\ _ => split end; [reflexivity|lia|].
      intros k v Hk Hle. rewrite Hlog2.
      replace ((trunc_next s B <=? k) && (k <? trunc_next s B + Z.of_nat (pfx (trunc_log s B) (trunc_next s B) (range_cnt s B))))
        with false by lia.
      unfold trunc_log. destruct (_ >? _) eqn:Et; [|exact Hk].
      rewrite lfind_lprune. unfold trunc_next in Hle. rewrite Et in Hle.
      replace (sl_last s - B + 1 <=? k) with true by lia. exact Hk.
  Qed.

  Definition wf_slop (o : slop) : Prop := match o with SA _ _ _ => True | SM _ b => 0 <= b end.

  Lemma run_mono ops : forall s, sl_init s = true -> Forall wf_slop ops ->
    sl_init (sl_run s ops) = true /\ sl_next s <= sl_next (sl_run s ops).
  Proof.
    induction ops as [|o tl IH]; intros s Hi Hwf; cbn [sl_run]; [split; [exact Hi|lia]|].
    inversion Hwf as [|? ? Ho Htl]; subst.
    destruct o as [ts seq ecn|ref B]; cbn [sl_step].
    - destruct (add_props s ts seq ecn Hi) as (H1 & H2 & _).
      destruct (IH _ H1 Htl) as (H3 & H4). split; [exact H3|lia].
    - destruct (metrics_props s ref B Ho) as (H1 & H2 & _).
      destruct (IH (fst (metrics_after atok s ref B)) ltac:(congruence) Htl) as (H3 & H4). split; [exact H3|lia].
  Qed.

  (* over every continuation of the history *)
  Theorem retained_until_passed ops : forall s k v, sl_init s = true -> Forall wf_slop ops ->
    lfind k (sl_log s) = Some v -> sl_next (sl_run s ops) <= k ->
    lfind k (sl_log (sl_run s ops)) = Some v.
  Proof.
    induction ops as [|o tl IH]; intros s k v Hi Hwf Hk Hle; cbn [sl_run] in *; [exact Hk|].
    inversion Hwf as [|? ? Ho Htl]; subst.
    destruct o as [ts seq ecn|ref B]; cbn [sl_step] in *.
    - destruct (add_props s ts seq ecn Hi) as (H1 & H2 & H3).
      apply IH; auto.
    - destruct (metrics_props s ref B Ho) as (H1 & H2 & H3).
      assert (Hi' : sl_init (fst (metrics_after atok s ref B)) = true) by congruence.
      destruct (run_mono tl _ Hi' Htl) as (_ & Hm).
      apply IH; auto. apply H3; [exact Hk|lia].
  Qed.
End Mono.
