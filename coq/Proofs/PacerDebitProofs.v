(* C17, round 4 (follow-up): the envelope is about REAL bits iff the debit per packet covers the real marshalled size. *)
From IV Require Import Base.Word Model.PacerQueue Model.PacerDebit Proofs.PacerProofs.
From Coq Require Import ZifyBool.
Ltac Zify.zify_post_hook ::= Z.div_mod_to_equations.

(* cost = real_bits is the first-round LTS *)
Lemma drelease_real fuel now q b del bits : drelease real_bits fuel now q b del bits = release fuel now q b del bits.
Proof.
  revert q b del bits; induction fuel as [|f IH]; intros q b del bits; cbn [drelease release]; [reflexivity|].
  destruct q as [|p q0]; [reflexivity|]. unfold real_bits at 1 2.
  destruct (_ <? _); [|reflexivity]. destruct (tb_allow b now (8 * plen p)) as [b1 ok]. apply IH.
Qed.

Lemma dstep_real s o : dstep real_bits s o = pstep s o.
Proof. destruct o; cbn [dstep pstep]; try reflexivity. rewrite drelease_real. reflexivity. Qed.

Lemma drun_real s ops : drun real_bits s ops = prun s ops.
Proof.
  unfold drun, prun. revert s; induction ops as [|o tl IH]; intros s; cbn; [reflexivity|]. rewrite dstep_real. apply IH.
Qed.

(* FIFO / exactly once does not depend on the debit *)
Lemma drelease_fifo cost fuel now q b del bits q' b' del' bits' :
  drelease cost fuel now q b del bits = (q', b', del', bits') -> del' ++ q' = del ++ q.
Proof.
  revert q b del bits; induction fuel as [|f IH]; intros q b del bits H; cbn [drelease] in H.
  - inversion H; subst; auto.
  - destruct q as [|p q0]; [inversion H; subst; auto|].
    destruct (_ <? _); [|inversion H; subst; auto].
    destruct (tb_allow b now (cost p)) as [b1 ok].
    apply IH in H. rewrite H, <- app_assoc. reflexivity.
Qed.

Section Covering.
  Variable cost : pkt -> Z.
  Hypothesis covers : forall p, 8 * plen p <= cost p.

  Lemma drelease_envelope fuel now q b del bits q' b' del' bits' : tb_ok b ->
    drelease cost fuel now q b del bits = (q', b', del', bits') ->
    tb_ok b' /\ bits' * NS + tb_tokens b' <= bits * NS + tb_tokens b + drel_earned cost fuel now q b.
  Proof.
    revert q b del bits; induction fuel as [|f IH]; intros q b del bits Hok H; cbn [drelease drel_earned] in *.
    - inversion H; subst. split; auto. lia.
    - destruct q as [|p q0]; [inversion H; subst; split; auto; lia|].
      destruct (_ <? _) eqn:E; [|inversion H; subst; split; auto; lia].
      destruct (tb_allow b now (cost p)) as [b1 ok] eqn:A. cbn [fst].
      pose proof (plen_nonneg p). pose proof (covers p) as Hc.
      destruct (allow_bound b now (cost p) b1 ok Hok ltac:(lia) A) as (Hok1 & Hb & _ & _).
      assert (ok = true).
      { unfold tb_allow in A. cbv zeta in A. unfold tb_budget in E.
        pose proof (advance_bound b now Hok) as Hadv. unfold tb_advance in Hadv, E, A. cbv zeta in Hadv, E, A.
        destruct ((cost p <=? tb_burst b) && (cost p * NS <=? Z.min (tb_burst b * NS) (tb_tokens b + tb_rate b * (if now <? tb_last b then 0 else now - tb_last b)))) eqn:E2;
          inversion A; auto. unfold NS in *. lia. }
      subst ok. unfold earn in Hb.
      destruct (IH _ _ _ _ Hok1 H) as [Hok' Hle]. split; auto. unfold NS in *. lia.
  Qed.

  Lemma dstep_envelope s o : tb_ok (ps_tb s) ->
    match o with PSetRate _ r bu => 0 <= r /\ 0 <= bu | _ => True end ->
    tb_ok (ps_tb (dstep cost s o)) /\
    ps_bits (dstep cost s o) * NS + tb_tokens (ps_tb (dstep cost s o)) <=
    ps_bits s * NS + tb_tokens (ps_tb s) + dearned_total cost s [o].
  Proof.
    intros Hok Ho. destruct o as [p| |now|t r bu|]; cbn [dstep dearned_total].
    - simpl. destruct (ps_closed s); [split; auto; lia|]. destruct (_ <=? _); simpl; split; auto; lia.
    - simpl. destruct (ps_chan s); simpl; split; auto; lia.
    - destruct (drelease _ _ _ _ _ _ _) as [[[q b] del] bits] eqn:R. simpl.
      destruct (drelease_envelope _ _ _ _ _ _ _ _ _ _ Hok R) as [A B]. split; auto. lia.
    - pose proof (advance_bound (ps_tb s) t Hok) as Ha. unfold earn in Ha. unfold tb_ok in *. simpl. repeat split; try lia.
    - simpl. split; auto; lia.
  Qed.

  Lemma drun_envelope s ops : tb_ok (ps_tb s) -> rates_ok ops ->
    let s' := drun cost s ops in
    tb_ok (ps_tb s') /\
    ps_bits s' * NS + tb_tokens (ps_tb s') <= ps_bits s * NS + tb_tokens (ps_tb s) + dearned_total cost s ops.
  Proof.
    unfold drun. revert s; induction ops as [|o tl IH]; intros s Hok Hr; cbn [fold_left dearned_total].
    - split; auto; lia.
    - inversion Hr as [|? ? Ho Htl]; subst.
      destruct (dstep_envelope s o Hok Ho) as [Hok1 H1]. cbn [dearned_total] in H1.
      destruct (IH (dstep cost s o) Hok1 Htl) as [Hok2 H2]. split; auto. lia.
  Qed.

  (* REAL bits released never exceed the burst plus what the configured rates earn, for every debit that covers the
     real marshalled size *)
  Lemma debit_envelope rate burst t0 ops : 0 <= rate -> 0 <= burst -> rates_ok ops ->
    ps_bits (drun cost (pinit rate burst t0) ops) * NS <= burst * NS + dearned_total cost (pinit rate burst t0) ops.
  Proof.
    intros Hr Hb Hops.
    assert (Hok : tb_ok (ps_tb (pinit rate burst t0))) by (unfold tb_ok, pinit, NS; cbn [ps_tb tb_rate tb_burst tb_tokens]; lia).
    destruct (drun_envelope (pinit rate burst t0) ops Hok Hops) as [[_ [_ Ht]] H].
    unfold pinit in H at 3 4; cbn [ps_tb ps_bits tb_tokens] in H. unfold NS in *. lia.
  Qed.
End Covering.

Lemma real_bits_covers p : 8 * plen p <= real_bits p.
Proof. unfold real_bits. lia. Qed.

(* the code: debit = real bits *)
Lemma real_debit_envelope rate burst t0 ops : 0 <= rate -> 0 <= burst -> rates_ok ops ->
  ps_bits (drun real_bits (pinit rate burst t0) ops) * NS <= burst * NS + dearned_total real_bits (pinit rate burst t0) ops.
Proof. apply debit_envelope, real_bits_covers. Qed.

Lemma drun_fifo cost rate burst t0 ops :
  let s := drun cost (pinit rate burst t0) ops in
  ps_delivered s ++ ps_local s ++ ps_chan s = ps_accepted s.
Proof.
  cbv zeta. unfold drun.
  assert (G : forall s, PInv s -> PInv (fold_left (dstep cost) ops s)).
  { induction ops as [|o tl IH]; intros s H; cbn; [exact H|]. apply IH.
    destruct o as [p| |now|t r bu|]; try (apply (pstep_inv s _ H)).
    unfold PInv in *. cbn [dstep]. destruct (drelease _ _ _ _ _ _ _) as [[[q b] del] bits] eqn:R. simpl.
    apply drelease_fifo in R. rewrite app_assoc, R, <- app_assoc. exact H. }
  apply G, pinit_inv.
Qed.

(* a 12-byte-header debit: ten packets with 15 CSRCs and a 200-byte extension block (header 272 bytes) and no payload,
   queued at a bucket of 12000 bit, one tick at the very instant the pacer starts: all ten leave - 21760 real bits at
   elapsed time 0, against a burst of 12000 bit; the limiter was charged 96 bit each *)
Definition hp (k : Z) : pkt := mkP 0 (100 + k) 272 1 0.
Definition hops : list pop := map (fun k => PWrite (hp k)) (zrange 0 10) ++ repeat PRecv 10 ++ [PTick 0].

Lemma fixed_header_debit_breaks_envelope :
  let s := drun fixed_header_bits (pinit 1000000 12000 0) hops in
  ps_delivered s = map hp (zrange 0 10) /\ ps_bits s = 21760 /\
  dearned_total fixed_header_bits (pinit 1000000 12000 0) hops = 0 /\
  ps_bits s * NS > 12000 * NS + dearned_total fixed_header_bits (pinit 1000000 12000 0) hops.
Proof. vm_compute. repeat split; reflexivity. Qed.

(* the code on the same history: five packets (10880 bit <= 12000), the rest waits for tokens *)
Lemma real_debit_same_history :
  let s := drun real_bits (pinit 1000000 12000 0) hops in
  ps_delivered s = map hp (zrange 0 5) /\ ps_bits s = 10880 /\ length (ps_local s) = 5%nat.
Proof. vm_compute. repeat split; reflexivity. Qed.

(* the two debits agree on every history whose packets all have the fixed 12-byte header *)
Lemma fixed_agrees_plain_headers fuel now q b del bits : Forall (fun p => Z.abs (p_hlen p) = 12) q ->
  drelease fixed_header_bits fuel now q b del bits = drelease real_bits fuel now q b del bits.
Proof.
  revert q b del bits; induction fuel as [|f IH]; intros q b del bits H; cbn [drelease]; [reflexivity|].
  destruct q as [|p q0]; [reflexivity|]. inversion H as [|? ? Hp Hq]; subst.
  assert (E : fixed_header_bits p = real_bits p) by (unfold fixed_header_bits, real_bits, plen; rewrite Hp; reflexivity).
  rewrite E. destruct (_ <? _); [|reflexivity]. destruct (tb_allow b now (real_bits p)) as [b1 ok]. apply IH, Hq.
Qed.
