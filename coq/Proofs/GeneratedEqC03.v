(* Source ties of C03: pkg/nack/receive_log.go (every method of receiveLog).
   The hand-written model functions are EQUAL to (or REFINED BY, under a stated representation map)
   the definitions that `tools/go2coq -prop C03` regenerates from the Go source on every run
   (coq/Generated/GoCoresC03.v).
   Range hypotheses are exactly what the Go types guarantee (0 <= x < 2^16 for a uint16 ...), plus
   the constructor invariants of the Go objects where the model has them built in; every one is
   stated.  g_f_safe = true means: the Go function does not panic (index range, division by zero)
   on these inputs; the value equalities hold for the non-panicking executions.
   When the source of one of these functions changes its meaning, the regenerated definition
   changes and the lemma below no longer compiles: a broken obligation of THIS property only
   (no other property imports this file or Generated/GoCoresC03.v). *)
From IV Require Import Base.Word Base.GoPrelude Proofs.GoPreludeProofs.
From IV Require Model.ReceiveLog Proofs.ReceiveLogProofs Model.MemBound.
From IV Require Import Generated.GoCoresC03.
From Coq Require Import ZifyBool.
Ltac Zify.zify_post_hook ::= Z.div_mod_to_equations.

Import ReceiveLogProofs.

(* The proofs are SEMANTIC: gnorm unfolds every generated definition that is not made Opaque below (so
   also helpers a refactor extracts), the control structure is analysed one test at a time (split_ifs) and
   arithmetic is closed by lia; the loops are handled by loop lemmas whose hypotheses (what the condition
   and the body compute) are proved by tactic, not by syntactic match.  See design-notes/go2coq.md. *)
Ltac tie_side := intros; cbv beta iota zeta; first [ reflexivity | solve [gnorm; tie_cases] ].
Ltac rl_proj := cbn [ReceiveLog.started ReceiveLog.rsize ReceiveLog.rend ReceiveLog.lastc ReceiveLog.bits] in *.

Lemma nack_pos sz seq : valid_size sz -> 0 <= seq < 65536 ->
  seq mod sz = ReceiveLog.slot sz seq /\ 0 <= seq mod sz < sz /\ sz = 64 * (sz / 64).
Proof. intros H Hs. rewrite slot_mod by (auto; lia). each_size H; lia. Qed.

(* receiveLog.getReceived *)
Lemma gen_nack_getReceived_eq p f sz seq : valid_size sz -> 0 <= seq < 65536 -> nack_rep sz p f ->
  g_nack_receiveLog_getReceived p sz seq = ReceiveLog.get_recv f sz seq.
Proof.
  intros H Hs R. destruct (nack_pos sz seq H Hs) as (E & Hr & _).
  gnorm. unfold ReceiveLog.get_recv. rewrite <- E.
  rewrite bits_get by lia. apply R. lia.
Qed.

(* receiveLog.setReceived *)
Lemma gen_nack_setReceived_eq p f sz seq : valid_size sz -> 0 <= seq < 65536 -> g_len p = sz / 64 ->
  nack_rep sz p f -> nack_rep sz (g_nack_receiveLog_setReceived p sz seq) (ReceiveLog.set_recv f sz seq).
Proof.
  intros H Hs L R q Hq. destruct (nack_pos sz seq H Hs) as (E & Hr & Hm).
  gnorm. unfold ReceiveLog.set_recv. cbv zeta. rewrite <- E.
  rewrite bits_set by lia. rewrite R by lia. reflexivity.
Qed.

(* receiveLog.delReceived *)
Lemma gen_nack_delReceived_eq p f sz seq : valid_size sz -> 0 <= seq < 65536 -> g_len p = sz / 64 ->
  nack_rep sz p f -> nack_rep sz (g_nack_receiveLog_delReceived p sz seq) (ReceiveLog.del_recv f sz seq).
Proof.
  intros H Hs L R q Hq. destruct (nack_pos sz seq H Hs) as (E & Hr & Hm).
  gnorm. unfold ReceiveLog.del_recv. cbv zeta. rewrite <- E.
  rewrite bits_del by lia. rewrite R by lia. reflexivity.
Qed.

(* no index out of range, no division by zero in the three bit accessors *)
Lemma nack_bits_safe p sz seq : valid_size sz -> 0 <= seq < 65536 -> g_len p = sz / 64 ->
  g_nack_receiveLog_setReceived_safe p sz seq = true /\
  g_nack_receiveLog_delReceived_safe p sz seq = true /\
  g_nack_receiveLog_getReceived_safe p sz seq = true.
Proof.
  intros H Hs L. destruct (nack_pos sz seq H Hs) as (_ & Hr & Hm).
  assert (Z0 : (sz =? 0) = false) by lia.
  assert (B : (seq mod sz / 64 <? g_len p) = true) by lia.
  repeat split; gnorm; rewrite ?Z0; cbn [negb]; cbv beta iota zeta; rewrite ?B; tie_cases.
Qed.

(* the words stay uint64 and the slice keeps its length (C12: Model/MemBound.v rl_step) *)
Lemma gen_nack_setReceived_words p sz seq : words64 p -> 0 <= seq -> 0 < sz ->
  words64 (g_nack_receiveLog_setReceived p sz seq) /\ words64 (g_nack_receiveLog_delReceived p sz seq).
Proof.
  intros W Hs Hz. gnorm.
  assert (K : 0 <= (seq mod sz) mod 64 < 64) by lia.
  rewrite shl1_mod64 by exact K.
  assert (P : 0 <= 2 ^ ((seq mod sz) mod 64) < 18446744073709551616).
  { rewrite <- shl1_mod64 by exact K. lia. }
  split; apply words64_upd; auto; try lia.
  - pose proof (W (seq mod sz / 64)) as Hw. change 18446744073709551616 with (2 ^ 64) in *.
    apply lor_lt_pow2; lia.
  - pose proof (W (seq mod sz / 64)) as Hw. change 18446744073709551616 with (2 ^ 64) in *.
    apply ldiff_lt_pow2; lia.
Qed.

Lemma gen_nack_bitmap_length p sz seq :
  g_len (g_nack_receiveLog_setReceived p sz seq) = MemBound.rl_step (g_len p) seq /\
  g_len (g_nack_receiveLog_delReceived p sz seq) = MemBound.rl_step (g_len p) seq.
Proof. split; gnorm; unfold MemBound.rl_step; rewrite ?g_upd_length; reflexivity. Qed.

(* from here on the three accessors are used through the lemmas above: autounfold leaves them alone *)
#[local] Opaque g_nack_receiveLog_setReceived g_nack_receiveLog_delReceived g_nack_receiveLog_getReceived
  g_nack_receiveLog_setReceived_safe g_nack_receiveLog_delReceived_safe g_nack_receiveLog_getReceived_safe.

(* receiveLog.get (the mutex is not rendered) *)
Lemma gen_nack_get_eq p f sz e st lc seq : valid_size sz -> 0 <= seq < 65536 -> nack_rep sz p f ->
  g_nack_receiveLog_get p sz e seq = ReceiveLog.get (ReceiveLog.mk_rlog f sz e st lc) seq.
Proof.
  intros H Hs R. gnorm. unfold ReceiveLog.get, sub16. rl_proj.
  rewrite ?(gen_nack_getReceived_eq p f sz seq H Hs R). tie_cases.
Qed.

Lemma gen_nack_bitmap_safe p sz e seq : valid_size sz -> 0 <= seq < 65536 -> g_len p = sz / 64 ->
  g_nack_receiveLog_setReceived_safe p sz seq = true /\
  g_nack_receiveLog_delReceived_safe p sz seq = true /\
  g_nack_receiveLog_getReceived_safe p sz seq = true /\
  g_nack_receiveLog_get_safe p sz e seq = true.
Proof.
  intros H Hs L. destruct (nack_bits_safe p sz seq H Hs L) as (A & B & C).
  repeat split; auto. gnorm. rewrite ?C. tie_cases.
Qed.

(* fixLastConsecutive: loop specification.  Any g_while over the cursor i that continues while i <> e1 and
   bit i is set, and advances i by one (mod 2^16) *)
Lemma fix_while sz p fm e1 (c : Z -> bool) (f : Z -> Z) : valid_size sz -> nack_rep sz p fm ->
  (forall i, 0 <= i < 65536 -> c i = negb (i =? e1) && g_nack_receiveLog_getReceived p sz i) ->
  (forall i, 0 <= i < 65536 -> f i = (i + 1) mod 65536) ->
  forall n i, 0 <= i < 65536 -> g_while n c f i = ReceiveLog.fix_loop fm sz e1 i n.
Proof.
  intros H R Hc Hf. induction n as [|n IH]; intros i Hi; [reflexivity|].
  cbn [g_while ReceiveLog.fix_loop]. rewrite Hc, (gen_nack_getReceived_eq p fm sz i H Hi R) by exact Hi.
  destruct (negb (i =? e1) && ReceiveLog.get_recv fm sz i); [|reflexivity].
  rewrite Hf, IH by lia. rewrite inc16_add16 by lia. reflexivity.
Qed.

Lemma gen_nack_fixLastConsecutive_eq p fm sz e lc : valid_size sz -> 0 <= lc < 65536 -> nack_rep sz p fm ->
  g_nack_receiveLog_fixLastConsecutive p sz e lc = ReceiveLog.fix_last fm sz e lc.
Proof.
  intros H Hl R. gnorm. unfold ReceiveLog.fix_last, add16, sub16. cbv zeta.
  match goal with |- context [g_while ?n ?c ?f ?s] =>
    rewrite (fix_while sz p fm ((e + 1) mod 65536) c f H R ltac:(tie_side) ltac:(tie_side) n s) by lia
  end.
  tie_cases.
Qed.

Lemma gen_nack_fixLastConsecutive_safe p sz e lc : valid_size sz -> g_len p = sz / 64 ->
  g_nack_receiveLog_fixLastConsecutive_safe p sz e lc = true.
Proof.
  intros H L. gnorm.
  repeat match goal with |- context [g_while_safe ?n ?cs ?c ?fs ?f ?s] =>
    rewrite (g_while_safe_inv (fun i => 0 <= i < 65536) cs c fs f);
      [ | intros i Hi; cbv beta iota zeta;
          destruct (nack_bits_safe p sz i H Hi L) as (_ & _ & G); rewrite ?G;
          split; [ first [reflexivity | apply orb_true_r] | intros _; split; [reflexivity | tlia] ]
        | tlia ]
  end.
  tie_cases.
Qed.

#[local] Opaque g_nack_receiveLog_fixLastConsecutive g_nack_receiveLog_fixLastConsecutive_safe.

(* the clearing loop of add: loop specification.  Any g_while over (i, packets) that runs while i <> bound,
   clears bit i and advances i by one (mod 2^16) *)
Lemma del_while sz bound (c : Z * list Z -> bool) (f : Z * list Z -> Z * list Z) : valid_size sz ->
  (forall i p, 0 <= i < 65536 -> c (i, p) = negb (i =? bound)) ->
  (forall i p, 0 <= i < 65536 -> f (i, p) = ((i + 1) mod 65536, g_nack_receiveLog_delReceived p sz i)) ->
  forall n i p fm, 0 <= i < 65536 -> 0 <= bound < 65536 -> (bound - i) mod 65536 = Z.of_nat n ->
    g_len p = sz / 64 -> nack_rep sz p fm ->
    g_len (snd (g_while n c f (i, p))) = sz / 64 /\
    nack_rep sz (snd (g_while n c f (i, p))) (ReceiveLog.del_loop fm sz i n).
Proof.
  intros H Hc Hf. induction n as [|n IH]; intros i p fm Hi Hb E L R; [cbn; auto|].
  destruct (ne_step bound i n Hi Hb E) as (Ne & Hi' & E').
  cbn [g_while ReceiveLog.del_loop]. rewrite Hc, Ne by exact Hi. cbn [negb]. rewrite Hf by exact Hi.
  rewrite inc16_add16 by lia. unfold add16. apply IH; auto.
  - destruct (gen_nack_bitmap_length p sz i) as [_ ->]. exact L.
  - apply gen_nack_delReceived_eq; auto.
Qed.

(* receiveLog.add: the four fields it writes (packets up to the representation) *)
Lemma gen_nack_add_eq p fm sz e st lc seq : valid_size sz ->
  0 <= seq < 65536 -> 0 <= e < 65536 -> 0 <= lc < 65536 -> g_len p = sz / 64 -> nack_rep sz p fm ->
  let '(p', e', st', lc') := g_nack_receiveLog_add p sz e st lc seq in
  let m' := ReceiveLog.add (ReceiveLog.mk_rlog fm sz e st lc) seq in
  g_len p' = sz / 64 /\ nack_rep sz p' (ReceiveLog.bits m') /\ ReceiveLog.rsize m' = sz /\
  e' = ReceiveLog.rend m' /\ st' = ReceiveLog.started m' /\ lc' = ReceiveLog.lastc m'.
Proof.
  intros H Hs He Hl L R.
  assert (SetL : forall q, g_len q = sz / 64 -> g_len (g_nack_receiveLog_setReceived q sz seq) = sz / 64).
  { intros q Lq. destruct (gen_nack_bitmap_length q sz seq) as [-> _]. exact Lq. }
  assert (SetR : forall q g, g_len q = sz / 64 -> nack_rep sz q g ->
            nack_rep sz (g_nack_receiveLog_setReceived q sz seq) (ReceiveLog.set_recv g sz seq)).
  { intros q g Lq Rq. apply gen_nack_setReceived_eq; auto. }
  gnorm. unfold ReceiveLog.add, sub16, add16. rl_proj. cbv beta iota zeta.
  (* the clearing loop, wherever the refactoring put it *)
  repeat match goal with |- context [g_while ?n ?c ?f ?s] =>
    let L1 := fresh "L1" in let R1 := fresh "R1" in
    destruct (del_while sz seq c f H ltac:(tie_side) ltac:(tie_side) n ((e + 1) mod 65536) p fm) as [L1 R1];
      [tlia|tlia|tlia|exact L|exact R|];
    let i1 := fresh "i1" in let p1 := fresh "p1" in
    destruct (g_while n c f s) as [i1 p1]; cbn [snd] in L1, R1;
    assert (forall d, d = (seq - e) mod 65536 - 1 -> 0 <= d ->
              nack_rep sz p1 (ReceiveLog.clear_range fm sz e d))
      by (intros d -> Hd; eapply nack_rep_ext; [exact R1|]; intros q Hq;
          rewrite (del_loop_closed sz H _ fm e q Hq); rewrite (Z.mod_small e) by lia; f_equal; lia)
  end.
  destruct st; cbn [negb]; cbv beta iota zeta; split_ifs; rl_proj;
    first [ exfalso; tlia
          | repeat split;
            first [ reflexivity | assumption | tlia
                  | apply SetL; assumption
                  | apply SetR; first [assumption | match goal with K : forall d, _ |- _ => apply K; tlia end]
                  | apply gen_nack_fixLastConsecutive_eq;
                    first [assumption | tlia | match goal with K : forall d, _ |- _ => apply K; tlia end] ] ].
Qed.

(* missingSeqNumbers: loop specification.  Any g_while over (i, buf, k) that runs while i <> bound, writes i at
   buf[k] and advances k when bit i is clear, and advances i by one (mod 2^16) *)
Lemma miss_while sz p fm bound (c : Z * list Z * Z -> bool) (f : Z * list Z * Z -> Z * list Z * Z) :
  valid_size sz -> nack_rep sz p fm ->
  (forall i b k, 0 <= i < 65536 -> c (i, b, k) = negb (i =? bound)) ->
  (forall i b k, 0 <= i < 65536 -> f (i, b, k) = if negb (g_nack_receiveLog_getReceived p sz i)
                               then ((i + 1) mod 65536, g_upd b k i, k + 1) else ((i + 1) mod 65536, b, k)) ->
  forall n i b k, 0 <= i < 65536 -> 0 <= bound < 65536 -> (bound - i) mod 65536 = Z.of_nat n ->
    0 <= k -> k + g_len (ReceiveLog.miss_loop fm sz i n) <= g_len b ->
    let r := g_while n c f (i, b, k) in
    g_take (snd (fst r)) (snd r) = g_take b k ++ ReceiveLog.miss_loop fm sz i n /\
    snd r = k + g_len (ReceiveLog.miss_loop fm sz i n) /\ g_len (snd (fst r)) = g_len b.
Proof.
  intros H R Hc Hf. induction n as [|n IH]; intros i b k Hi Hb E Hk Room.
  - cbn. rewrite app_nil_r. repeat split; auto. unfold g_len. cbn. lia.
  - destruct (ne_step bound i n Hi Hb E) as (Ne & Hi' & E').
    cbn [g_while ReceiveLog.miss_loop] in *. rewrite Hc, Ne by exact Hi. cbn [negb]. rewrite Hf by exact Hi.
    rewrite (gen_nack_getReceived_eq p fm sz i H Hi R). rewrite inc16_add16 in * by lia. unfold add16 in *.
    destruct (ReceiveLog.get_recv fm sz i); cbn [negb].
    + apply IH; auto.
    + assert (Lc : g_len (i :: ReceiveLog.miss_loop fm sz ((i + 1) mod 65536) n) =
                   1 + g_len (ReceiveLog.miss_loop fm sz ((i + 1) mod 65536) n)) by (unfold g_len; cbn [length]; lia).
      rewrite Lc in Room.
      assert (Pos : 0 <= g_len (ReceiveLog.miss_loop fm sz ((i + 1) mod 65536) n)) by (unfold g_len; lia).
      destruct (IH ((i + 1) mod 65536) (g_upd b k i) (k + 1)) as (A & B & C); auto; try lia.
      { rewrite g_upd_length. lia. }
      rewrite A, B, C, g_upd_length, g_take_upd by lia. rewrite <- app_assoc. cbn [app]. repeat split; auto. lia.
Qed.

Lemma gen_nack_missing_eq p fm sz e st lc skip buf : valid_size sz ->
  0 <= e < 65536 -> 0 <= lc < 65536 -> 0 <= skip < 65536 -> nack_rep sz p fm ->
  g_len (ReceiveLog.missing (ReceiveLog.mk_rlog fm sz e st lc) skip) <= g_len buf ->
  g_nack_receiveLog_missingSeqNumbers p sz e lc skip buf = ReceiveLog.missing (ReceiveLog.mk_rlog fm sz e st lc) skip.
Proof.
  intros H He Hl Hk R Room. gnorm.
  unfold ReceiveLog.missing, sub16, add16 in *. rl_proj. cbv zeta in *.
  set (bound := (((e - skip) mod 65536 + 1) mod 65536)) in *.
  set (i0 := (lc + 1) mod 65536) in *.
  destruct (skip >? (e - lc) mod 65536) eqn:Sk.
  { split_ifs; tie_leaf. }
  repeat match goal with |- context [g_while ?n ?c ?f ?s] =>
    destruct (miss_while sz p fm bound c f H R ltac:(tie_side) ltac:(tie_side) n i0 buf 0) as (A & B & C);
      [unfold i0; tlia|unfold bound; tlia|unfold bound, i0; tlia|tlia|
       match type of Room with context [ReceiveLog.miss_loop _ _ _ ?m] => replace n with m by (unfold bound, i0; tlia) end; tlia|];
    destruct (g_while n c f s) as [[i1 b1] k1]; cbn [fst snd] in A, B, C
  end.
  split_ifs; try (exfalso; tlia). rewrite A.
  first [ reflexivity | change (g_take buf 0) with (@nil Z); cbn [app]; unfold bound, i0; f_equal; tlia ].
Qed.

Lemma gen_nack_add_safe p sz e st lc seq : valid_size sz -> 0 <= seq < 65536 -> g_len p = sz / 64 ->
  g_nack_receiveLog_add_safe p sz e st lc seq = true.
Proof.
  intros H Hs L.
  assert (SetS : forall q, g_len q = sz / 64 -> g_nack_receiveLog_setReceived_safe q sz seq = true).
  { intros q Lq. apply (nack_bits_safe q sz seq H Hs Lq). }
  assert (R : nack_rep sz p (bits_of p)) by (intros q _; reflexivity).
  gnorm.
  (* every trip of the clearing loop is safe *)
  repeat match goal with |- context [g_while_safe ?n ?cs ?c ?fs ?f ?s] =>
    rewrite (g_while_safe_inv (fun s' : Z * list Z => 0 <= fst s' < 65536 /\ g_len (snd s') = sz / 64) cs c fs f);
      [ | intros [i q] [Hi Lq]; cbn [fst snd] in *; cbv beta iota zeta;
          destruct (nack_bits_safe q sz i H Hi Lq) as (_ & D & _); rewrite ?D; cbv beta iota zeta;
          split; [ reflexivity | intros _; split; [ reflexivity | split; [ tlia | ] ] ];
          destruct (gen_nack_bitmap_length q sz i) as [_ ->]; exact Lq
        | cbn [fst snd]; split; [ tlia | exact L ] ]
  end.
  (* the loop keeps the length of the bitmap *)
  repeat match goal with |- context [g_while ?n ?c ?f ?s] =>
    let L1 := fresh "L1" in
    destruct (del_while sz seq c f H ltac:(tie_side) ltac:(tie_side) n ((e + 1) mod 65536) p (bits_of p)) as [L1 _];
      [tlia|tlia|tlia|exact L|exact R|];
    destruct (g_while n c f s) as [? ?]; cbn [snd] in L1
  end.
  rewrite ?SetS, ?gen_nack_fixLastConsecutive_safe by assumption.
  destruct st; cbn [negb]; cbv beta iota zeta; split_ifs;
    first [ tie_leaf
          | exfalso;
            match goal with
            | K : g_nack_receiveLog_setReceived_safe _ _ _ = false |- _ => rewrite SetS in K by assumption; discriminate
            | K : g_nack_receiveLog_fixLastConsecutive_safe _ _ _ _ = false |- _ =>
                rewrite gen_nack_fixLastConsecutive_safe in K by assumption; discriminate
            end ].
Qed.

Lemma gen_nack_missing_safe p fm sz e st lc skip buf : valid_size sz ->
  0 <= e < 65536 -> 0 <= lc < 65536 -> 0 <= skip < 65536 -> g_len p = sz / 64 -> nack_rep sz p fm ->
  g_len (ReceiveLog.missing (ReceiveLog.mk_rlog fm sz e st lc) skip) <= g_len buf ->
  g_nack_receiveLog_missingSeqNumbers_safe p sz e lc skip buf = true.
Proof.
  intros H He Hl Hk L R Room. gnorm.
  unfold ReceiveLog.missing, sub16, add16 in *. rl_proj. cbv zeta in *.
  set (bound := (((e - skip) mod 65536 + 1) mod 65536)) in *.
  set (i0 := (lc + 1) mod 65536) in *.
  assert (Hb : 0 <= bound < 65536) by (unfold bound; lia).
  destruct (skip >? (e - lc) mod 65536) eqn:Sk.
  { split_ifs; tie_leaf. }
  repeat match goal with |- context [g_while_safe ?n ?cs ?c ?fs ?f ?s] =>
    rewrite (g_while_safe_inv (fun s' : Z * list Z * Z => let '(i, b, k) := s' in
               0 <= i < 65536 /\ 0 <= k /\
               k + g_len (ReceiveLog.miss_loop fm sz i (Z.to_nat ((bound - i) mod 65536))) <= g_len b) cs c fs f);
    [ | intros [[i b] k] (Hi & Hk0 & Rm); cbv beta iota zeta;
        destruct (nack_bits_safe p sz i H Hi L) as (_ & _ & G); rewrite ?G;
        rewrite ?(gen_nack_getReceived_eq p fm sz i H Hi R);
        split; [ reflexivity | intros Cnd ];
        assert (Ne : (i =? bound) = false) by (destruct (i =? bound); [discriminate|reflexivity]);
        assert (Fu : Z.to_nat ((bound - i) mod 65536) = S (Z.to_nat ((bound - (i + 1) mod 65536) mod 65536))) by lia;
        rewrite Fu in Rm; cbn [ReceiveLog.miss_loop] in Rm; rewrite inc16_add16 in Rm by lia; unfold add16 in Rm;
        destruct (ReceiveLog.get_recv fm sz i); cbn [negb] in *; cbv beta iota zeta;
        [ split; [reflexivity|]; repeat split; try lia; exact Rm
        | assert (Lc : forall l, g_len (i :: l) = 1 + g_len l) by (intros; unfold g_len; cbn [length]; lia);
          rewrite Lc in Rm;
          assert (0 <= g_len (ReceiveLog.miss_loop fm sz ((i + 1) mod 65536) (Z.to_nat ((bound - (i + 1) mod 65536) mod 65536))))
            by (unfold g_len; lia);
          replace ((0 <=? k) && (k <? g_len b)) with true by lia; split; [reflexivity|];
          rewrite g_upd_length; repeat split; lia ]
      | cbv beta iota; repeat split; try (unfold i0; lia);
        match type of Room with context [ReceiveLog.miss_loop _ _ _ ?m] =>
          replace (Z.to_nat ((bound - i0) mod 65536)) with m by (unfold bound, i0; tlia) end; tlia ]
  end.
  repeat match goal with |- context [g_while ?n ?c ?f ?s] =>
    destruct (miss_while sz p fm bound c f H R ltac:(tie_side) ltac:(tie_side) n i0 buf 0) as (A & B & C);
      [unfold i0; tlia|exact Hb|unfold bound, i0; tlia|tlia|
       match type of Room with context [ReceiveLog.miss_loop _ _ _ ?m] => replace n with m by (unfold bound, i0; tlia) end; tlia|];
    destruct (g_while n c f s) as [[i1 b1] k1]; cbn [fst snd] in A, B, C
  end.
  assert (0 <= g_len (ReceiveLog.miss_loop fm sz i0 (Z.to_nat ((bound - i0) mod 65536)))) by (unfold g_len; lia).
  split_ifs; first [ reflexivity | tlia | exfalso; tlia ].
Qed.

(* ========================================================================================== *)
(* C03: whole histories.  Running the regenerated add over any arrival list from the state    *)
(* newReceiveLog builds is the model run add_all, field by field.                             *)
(* ========================================================================================== *)
Definition g_add_st (sz : Z) (s : list Z * Z * bool * Z) (seq : Z) : list Z * Z * bool * Z :=
  let '(p, e, st, lc) := s in g_nack_receiveLog_add p sz e st lc seq.

Lemma add_ranges m seq : 0 <= seq < 65536 -> 0 <= ReceiveLog.rend m < 65536 -> 0 <= ReceiveLog.lastc m < 65536 ->
  0 <= ReceiveLog.rend (ReceiveLog.add m seq) < 65536 /\ 0 <= ReceiveLog.lastc (ReceiveLog.add m seq) < 65536.
Proof.
  intros Hs He Hl. unfold ReceiveLog.add, ReceiveLog.fix_last. cbv zeta.
  repeat match goal with |- context [if ?c then _ else _] => destruct c end;
    cbn [ReceiveLog.rend ReceiveLog.lastc]; split; auto; apply sub16_range.
Qed.

Lemma gen_nack_add_all_eq sz l : valid_size sz -> Forall (fun s => 0 <= s < 65536) l ->
  forall p fm e st lc, 0 <= e < 65536 -> 0 <= lc < 65536 -> g_len p = sz / 64 -> nack_rep sz p fm ->
  let '(p', e', st', lc') := fold_left (g_add_st sz) l (p, e, st, lc) in
  let m' := ReceiveLog.add_all (ReceiveLog.mk_rlog fm sz e st lc) l in
  g_len p' = sz / 64 /\ nack_rep sz p' (ReceiveLog.bits m') /\ ReceiveLog.rsize m' = sz /\
  e' = ReceiveLog.rend m' /\ st' = ReceiveLog.started m' /\ lc' = ReceiveLog.lastc m'.
Proof.
  intros H F. induction F as [|seq l Hs F IH]; intros p fm e st lc He Hl L R.
  - cbn. repeat split; auto.
  - cbn [fold_left]. unfold ReceiveLog.add_all in *. cbn [fold_left].
    pose proof (gen_nack_add_eq p fm sz e st lc seq H Hs He Hl L R) as A.
    pose proof (add_ranges (ReceiveLog.mk_rlog fm sz e st lc) seq Hs He Hl) as [Re Rl].
    unfold g_add_st at 2. destruct (g_nack_receiveLog_add p sz e st lc seq) as [[[p1 e1] st1] lc1].
    destruct (ReceiveLog.add (ReceiveLog.mk_rlog fm sz e st lc) seq) as [f1 sz1 e1' st1' lc1'].
    cbn [ReceiveLog.bits ReceiveLog.rsize ReceiveLog.rend ReceiveLog.started ReceiveLog.lastc] in *.
    destruct A as (L1 & R1 & -> & -> & -> & ->). apply IH; auto.
Qed.

(* non-vacuity of the hypotheses used above *)
Lemma tie_hyps_nonvacuous :
  (valid_size 64 /\ g_len [0] = 64 / 64 /\ nack_rep 64 [0] (fun _ => false)) /\
  (g_len (repeat 0 128) = 128 /\ rs_rep (repeat 0 128) (fun _ => false)) /\
  (exists k, 0 <= k /\ g_len (repeat 0 128) = 2 ^ k).
Proof.
  split; [|split].
  - split; [left; reflexivity|]. split; [reflexivity|]. intros q Hq. unfold bits_of.
    replace (q / 64) with 0 by lia. apply Z.bits_0.
  - split; [reflexivity|]. intros q Hq. unfold bits_of, g_idx.
    assert (E : nth (Z.to_nat (q / 64)) (repeat 0 128) 0 = 0).
    { destruct (nth_in_or_default (Z.to_nat (q / 64)) (repeat 0 128) 0) as [I|D]; [|exact D].
      apply repeat_spec in I. exact I. }
    rewrite E. apply Z.bits_0.
  - exists 7. split; [lia|reflexivity].
Qed.

