(* Source ties of C03: pkg/nack/receive_log.go (every method of receiveLog).
   The hand-written model functions are EQUAL to (or REFINED BY, under a stated representation map)
   the definitions that `tools/go2coq -prop C03` regenerates from the Go source on every run
   (coq/Generated/GoCoresC03.v).
   Range hypotheses are exactly what the Go types guarantee (0 <= x < 2^16 for a uint16 ...), plus
   the constructor invariants of the Go objects where the model has them built in; every one is
   stated.  g_f_safe = true means: the Go function does not panic (index range, division by zero)
   on these inputs; the value equalities hold for the non-panicking executions.
   When the source of one of these functions changes its meaning, the regenerated definition
   changes and the lemma below no longer compiles: a broken obligation of THIS property only
   (no other property imports this file or Generated/GoCoresC03.v). *)
From IV Require Import Base.Word Base.GoPrelude Proofs.GoPreludeProofs.
From IV Require Model.ReceiveLog Proofs.ReceiveLogProofs Model.MemBound.
From IV Require Import Generated.GoCoresC03.
From Coq Require Import ZifyBool.
Ltac Zify.zify_post_hook ::= Z.div_mod_to_equations.

Import ReceiveLogProofs.

Lemma nack_pos sz seq : valid_size sz -> 0 <= seq < 65536 ->
  seq mod sz = ReceiveLog.slot sz seq /\ 0 <= seq mod sz < sz /\ sz = 64 * (sz / 64).
Proof. intros H Hs. rewrite slot_mod by (auto; lia). each_size H; lia. Qed.

(* receiveLog.getReceived *)
Lemma gen_nack_getReceived_eq p f sz seq : valid_size sz -> 0 <= seq < 65536 -> nack_rep sz p f ->
  g_nack_receiveLog_getReceived p sz seq = ReceiveLog.get_recv f sz seq.
Proof.
  intros H Hs R. destruct (nack_pos sz seq H Hs) as (E & Hr & _).
  unfold g_nack_receiveLog_getReceived, ReceiveLog.get_recv. cbv zeta. rewrite <- E.
  rewrite bits_get by lia. apply R. lia.
Qed.

(* receiveLog.setReceived *)
Lemma gen_nack_setReceived_eq p f sz seq : valid_size sz -> 0 <= seq < 65536 -> g_len p = sz / 64 ->
  nack_rep sz p f -> nack_rep sz (g_nack_receiveLog_setReceived p sz seq) (ReceiveLog.set_recv f sz seq).
Proof.
  intros H Hs L R q Hq. destruct (nack_pos sz seq H Hs) as (E & Hr & Hm).
  unfold g_nack_receiveLog_setReceived, ReceiveLog.set_recv. cbv zeta. rewrite <- E.
  rewrite bits_set by lia. rewrite R by lia. reflexivity.
Qed.

(* receiveLog.delReceived *)
Lemma gen_nack_delReceived_eq p f sz seq : valid_size sz -> 0 <= seq < 65536 -> g_len p = sz / 64 ->
  nack_rep sz p f -> nack_rep sz (g_nack_receiveLog_delReceived p sz seq) (ReceiveLog.del_recv f sz seq).
Proof.
  intros H Hs L R q Hq. destruct (nack_pos sz seq H Hs) as (E & Hr & Hm).
  unfold g_nack_receiveLog_delReceived, ReceiveLog.del_recv. cbv zeta. rewrite <- E.
  rewrite bits_del by lia. rewrite R by lia. reflexivity.
Qed.

(* receiveLog.get (the mutex is not rendered) *)
Lemma gen_nack_get_eq p f sz e st lc seq : valid_size sz -> 0 <= seq < 65536 -> nack_rep sz p f ->
  g_nack_receiveLog_get p sz e seq = ReceiveLog.get (ReceiveLog.mk_rlog f sz e st lc) seq.
Proof.
  intros H Hs R. unfold g_nack_receiveLog_get, ReceiveLog.get, sub16. cbn [ReceiveLog.rend ReceiveLog.rsize ReceiveLog.bits].
  cbv zeta. rewrite (gen_nack_getReceived_eq p f sz seq H Hs R). reflexivity.
Qed.

(* no index out of range, no division by zero, for every size newReceiveLog accepts *)
Lemma gen_nack_bitmap_safe p sz e seq : valid_size sz -> 0 <= seq < 65536 -> g_len p = sz / 64 ->
  g_nack_receiveLog_setReceived_safe p sz seq = true /\
  g_nack_receiveLog_delReceived_safe p sz seq = true /\
  g_nack_receiveLog_getReceived_safe p sz seq = true /\
  g_nack_receiveLog_get_safe p sz e seq = true.
Proof.
  intros H Hs L. destruct (nack_pos sz seq H Hs) as (_ & Hr & Hm).
  assert (G : g_nack_receiveLog_getReceived_safe p sz seq = true).
  { unfold g_nack_receiveLog_getReceived_safe. cbv zeta. destruct (sz =? 0) eqn:Z0; cbn [negb]; [lia|]. lia. }
  repeat split; auto.
  - unfold g_nack_receiveLog_setReceived_safe. cbv zeta. destruct (sz =? 0) eqn:Z0; cbn [negb]; [lia|].
    destruct (_ <? g_len p) eqn:B; [reflexivity|lia].
  - unfold g_nack_receiveLog_delReceived_safe. cbv zeta. destruct (sz =? 0) eqn:Z0; cbn [negb]; [lia|].
    destruct (_ <? g_len p) eqn:B; [reflexivity|lia].
  - unfold g_nack_receiveLog_get_safe. cbv zeta. rewrite G. repeat destruct (_ >=? _); reflexivity.
Qed.

(* the words stay uint64 and the slice keeps its length (C12: Model/MemBound.v rl_step) *)
Lemma gen_nack_setReceived_words p sz seq : words64 p -> 0 <= seq -> 0 < sz ->
  words64 (g_nack_receiveLog_setReceived p sz seq) /\ words64 (g_nack_receiveLog_delReceived p sz seq).
Proof.
  intros W Hs Hz. unfold g_nack_receiveLog_setReceived, g_nack_receiveLog_delReceived. cbv zeta.
  assert (K : 0 <= (seq mod sz) mod 64 < 64) by lia.
  rewrite shl1_mod64 by exact K.
  assert (P : 0 <= 2 ^ ((seq mod sz) mod 64) < 18446744073709551616).
  { rewrite <- shl1_mod64 by exact K. lia. }
  split; apply words64_upd; auto; try lia.
  - pose proof (W (seq mod sz / 64)) as Hw. change 18446744073709551616 with (2 ^ 64) in *.
    apply lor_lt_pow2; lia.
  - pose proof (W (seq mod sz / 64)) as Hw. change 18446744073709551616 with (2 ^ 64) in *.
    apply ldiff_lt_pow2; lia.
Qed.

Lemma gen_nack_bitmap_length p sz seq :
  g_len (g_nack_receiveLog_setReceived p sz seq) = MemBound.rl_step (g_len p) seq /\
  g_len (g_nack_receiveLog_delReceived p sz seq) = MemBound.rl_step (g_len p) seq.
Proof.
  unfold g_nack_receiveLog_setReceived, g_nack_receiveLog_delReceived, MemBound.rl_step. cbv zeta.
  rewrite !g_upd_length. auto.
Qed.

(* fixLastConsecutive *)
Lemma fix_while sz p fm e1 (c : Z -> bool) (f : Z -> Z) : valid_size sz -> nack_rep sz p fm ->
  (forall i, c i = negb (i =? e1) && g_nack_receiveLog_getReceived p sz i) -> (forall i, f i = (i + 1) mod 65536) ->
  forall n i, 0 <= i < 65536 -> g_while n c f i = ReceiveLog.fix_loop fm sz e1 i n.
Proof.
  intros H R Hc Hf. induction n as [|n IH]; intros i Hi; [reflexivity|].
  cbn [g_while ReceiveLog.fix_loop]. rewrite Hc, (gen_nack_getReceived_eq p fm sz i H Hi R).
  destruct (negb (i =? e1) && ReceiveLog.get_recv fm sz i); [|reflexivity].
  rewrite Hf, IH by lia. rewrite inc16_add16 by lia. reflexivity.
Qed.

Lemma gen_nack_fixLastConsecutive_eq p fm sz e lc : valid_size sz -> 0 <= lc < 65536 -> nack_rep sz p fm ->
  g_nack_receiveLog_fixLastConsecutive p sz e lc = ReceiveLog.fix_last fm sz e lc.
Proof.
  intros H Hl R. unfold g_nack_receiveLog_fixLastConsecutive, ReceiveLog.fix_last, add16, sub16. cbv zeta.
  erewrite (fix_while sz p fm ((e + 1) mod 65536)); [reflexivity|exact H|exact R| | |lia]; intros; reflexivity.
Qed.

(* the clearing loop of add *)
Lemma del_while sz bound (c : Z * list Z -> bool) (f : Z * list Z -> Z * list Z) : valid_size sz ->
  (forall i p, c (i, p) = negb (i =? bound)) ->
  (forall i p, f (i, p) = ((i + 1) mod 65536, g_nack_receiveLog_delReceived p sz i)) ->
  forall n i p fm, 0 <= i < 65536 -> 0 <= bound < 65536 -> (bound - i) mod 65536 = Z.of_nat n ->
    g_len p = sz / 64 -> nack_rep sz p fm ->
    g_len (snd (g_while n c f (i, p))) = sz / 64 /\
    nack_rep sz (snd (g_while n c f (i, p))) (ReceiveLog.del_loop fm sz i n).
Proof.
  intros H Hc Hf. induction n as [|n IH]; intros i p fm Hi Hb E L R; [cbn; auto|].
  destruct (ne_step bound i n Hi Hb E) as (Ne & Hi' & E').
  cbn [g_while ReceiveLog.del_loop]. rewrite Hc, Ne. cbn [negb]. rewrite Hf.
  rewrite inc16_add16 by lia. unfold add16. apply IH; auto.
  - destruct (gen_nack_bitmap_length p sz i) as [_ ->]. exact L.
  - apply gen_nack_delReceived_eq; auto.
Qed.

(* receiveLog.add: the four fields it writes (packets up to the representation) *)
Lemma gen_nack_add_eq p fm sz e st lc seq : valid_size sz ->
  0 <= seq < 65536 -> 0 <= e < 65536 -> 0 <= lc < 65536 -> g_len p = sz / 64 -> nack_rep sz p fm ->
  let '(p', e', st', lc') := g_nack_receiveLog_add p sz e st lc seq in
  let m' := ReceiveLog.add (ReceiveLog.mk_rlog fm sz e st lc) seq in
  g_len p' = sz / 64 /\ nack_rep sz p' (ReceiveLog.bits m') /\ ReceiveLog.rsize m' = sz /\
  e' = ReceiveLog.rend m' /\ st' = ReceiveLog.started m' /\ lc' = ReceiveLog.lastc m'.
Proof.
  intros H Hs He Hl L R.
  assert (SetL : forall q, g_len q = sz / 64 -> g_len (g_nack_receiveLog_setReceived q sz seq) = sz / 64).
  { intros q Lq. destruct (gen_nack_bitmap_length q sz seq) as [-> _]. exact Lq. }
  unfold g_nack_receiveLog_add, ReceiveLog.add, sub16, add16.
  cbn [ReceiveLog.started ReceiveLog.rsize ReceiveLog.rend ReceiveLog.lastc ReceiveLog.bits]. cbv zeta.
  destruct st; cbn [negb].
  2:{ cbn [ReceiveLog.started ReceiveLog.rsize ReceiveLog.rend ReceiveLog.lastc ReceiveLog.bits].
      repeat split; auto. apply gen_nack_setReceived_eq; auto. }
  destruct ((seq - e) mod 65536 =? 0) eqn:D0.
  { cbn [ReceiveLog.started ReceiveLog.rsize ReceiveLog.rend ReceiveLog.lastc ReceiveLog.bits]. repeat split; auto. }
  destruct ((seq - e) mod 65536 <? 32768) eqn:D1.
  - (* seq is ahead of end: clear, move end, re-anchor *)
    set (n := Z.to_nat ((seq - (e + 1) mod 65536) mod 65536)).
    assert (En : Z.of_nat n = (seq - e) mod 65536 - 1) by (unfold n; lia).
    match goal with |- context [g_while n ?c ?f ?s] =>
      destruct (del_while sz seq c f H (fun _ _ => eq_refl) (fun _ _ => eq_refl) n ((e + 1) mod 65536) p fm) as [L1 R1];
        [lia|lia|unfold n; lia|exact L|exact R|];
      destruct (g_while n c f s) as [i1 p1] end.
    cbn [snd] in L1, R1.
    assert (R2 : nack_rep sz p1 (ReceiveLog.clear_range fm sz e ((seq - e) mod 65536 - 1))).
    { eapply nack_rep_ext; [exact R1|]. intros q Hq.
      rewrite (del_loop_closed sz H n fm e q Hq). rewrite En. rewrite (Z.mod_small e) by lia. reflexivity. }
    destruct ((lc + 1) mod 65536 =? seq) eqn:C1.
    + cbn [ReceiveLog.started ReceiveLog.rsize ReceiveLog.rend ReceiveLog.lastc ReceiveLog.bits].
      repeat split; auto. apply gen_nack_setReceived_eq; auto.
    + destruct ((seq - lc) mod 65536 >? sz) eqn:C2;
        cbn [ReceiveLog.started ReceiveLog.rsize ReceiveLog.rend ReceiveLog.lastc ReceiveLog.bits];
        repeat split; auto; try (apply gen_nack_setReceived_eq; auto).
      apply gen_nack_fixLastConsecutive_eq; auto. lia.
  - destruct ((e - seq) mod 65536 >=? sz) eqn:D2.
    { cbn [ReceiveLog.started ReceiveLog.rsize ReceiveLog.rend ReceiveLog.lastc ReceiveLog.bits]. repeat split; auto. }
    destruct ((lc + 1) mod 65536 =? seq) eqn:C1;
      cbn [ReceiveLog.started ReceiveLog.rsize ReceiveLog.rend ReceiveLog.lastc ReceiveLog.bits];
      repeat split; auto; try (apply gen_nack_setReceived_eq; auto).
    apply gen_nack_fixLastConsecutive_eq; auto.
Qed.

Lemma miss_while sz p fm bound (c : Z * list Z * Z -> bool) (f : Z * list Z * Z -> Z * list Z * Z) :
  valid_size sz -> nack_rep sz p fm ->
  (forall i b k, c (i, b, k) = negb (i =? bound)) ->
  (forall i b k, f (i, b, k) = if negb (g_nack_receiveLog_getReceived p sz i)
                               then ((i + 1) mod 65536, g_upd b k i, k + 1) else ((i + 1) mod 65536, b, k)) ->
  forall n i b k, 0 <= i < 65536 -> 0 <= bound < 65536 -> (bound - i) mod 65536 = Z.of_nat n ->
    0 <= k -> k + g_len (ReceiveLog.miss_loop fm sz i n) <= g_len b ->
    let r := g_while n c f (i, b, k) in
    g_take (snd (fst r)) (snd r) = g_take b k ++ ReceiveLog.miss_loop fm sz i n /\
    snd r = k + g_len (ReceiveLog.miss_loop fm sz i n) /\ g_len (snd (fst r)) = g_len b.
Proof.
  intros H R Hc Hf. induction n as [|n IH]; intros i b k Hi Hb E Hk Room.
  - cbn. rewrite app_nil_r. repeat split; auto. unfold g_len. cbn. lia.
  - destruct (ne_step bound i n Hi Hb E) as (Ne & Hi' & E').
    cbn [g_while ReceiveLog.miss_loop] in *. rewrite Hc, Ne. cbn [negb]. rewrite Hf.
    rewrite (gen_nack_getReceived_eq p fm sz i H Hi R). rewrite inc16_add16 in * by lia. unfold add16 in *.
    destruct (ReceiveLog.get_recv fm sz i); cbn [negb].
    + apply IH; auto.
    + assert (Lc : g_len (i :: ReceiveLog.miss_loop fm sz ((i + 1) mod 65536) n) =
                   1 + g_len (ReceiveLog.miss_loop fm sz ((i + 1) mod 65536) n)) by (unfold g_len; cbn [length]; lia).
      rewrite Lc in Room.
      assert (Pos : 0 <= g_len (ReceiveLog.miss_loop fm sz ((i + 1) mod 65536) n)) by (unfold g_len; lia).
      destruct (IH ((i + 1) mod 65536) (g_upd b k i) (k + 1)) as (A & B & C); auto; try lia.
      { rewrite g_upd_length. lia. }
      rewrite A, B, C, g_upd_length, g_take_upd by lia. rewrite <- app_assoc. cbn [app]. repeat split; auto. lia.
Qed.

Lemma gen_nack_missing_eq p fm sz e st lc skip buf : valid_size sz ->
  0 <= e < 65536 -> 0 <= lc < 65536 -> 0 <= skip < 65536 -> nack_rep sz p fm ->
  g_len (ReceiveLog.missing (ReceiveLog.mk_rlog fm sz e st lc) skip) <= g_len buf ->
  g_nack_receiveLog_missingSeqNumbers p sz e lc skip buf = ReceiveLog.missing (ReceiveLog.mk_rlog fm sz e st lc) skip.
Proof.
  intros H He Hl Hk R Room.
  unfold g_nack_receiveLog_missingSeqNumbers, ReceiveLog.missing, sub16, add16 in *.
  cbn [ReceiveLog.rend ReceiveLog.lastc ReceiveLog.bits ReceiveLog.rsize] in *. cbv zeta in *.
  destruct (skip >? (e - lc) mod 65536); [reflexivity|].
  set (bound := (((e - skip) mod 65536 + 1) mod 65536)) in *.
  set (i0 := (lc + 1) mod 65536) in *.
  set (n := Z.to_nat ((bound - i0) mod 65536)) in *.
  match goal with |- context [g_while n ?c ?f ?s] =>
    destruct (miss_while sz p fm bound c f H R (fun _ _ _ => eq_refl) (fun _ _ _ => eq_refl) n i0 buf 0) as (A & B & C);
      [unfold i0; lia|unfold bound; lia|unfold n; lia|lia|lia|];
    destruct (g_while n c f s) as [[i1 b1] k1] end.
  cbn [fst snd] in A. rewrite A. reflexivity.
Qed.

Lemma gen_nack_fixLastConsecutive_safe p sz e lc : valid_size sz -> g_len p = sz / 64 ->
  g_nack_receiveLog_fixLastConsecutive_safe p sz e lc = true.
Proof.
  intros H L. unfold g_nack_receiveLog_fixLastConsecutive_safe. cbv zeta.
  rewrite (g_while_safe_inv (fun i => 0 <= i < 65536)); [reflexivity| |lia].
  intros i Hi. split; [|split; [reflexivity|lia]].
  destruct (gen_nack_bitmap_safe p sz 0 i H Hi L) as (_ & _ & G & _). rewrite G. apply orb_true_r.
Qed.

Lemma gen_nack_add_safe p sz e st lc seq : valid_size sz -> 0 <= seq < 65536 -> g_len p = sz / 64 ->
  g_nack_receiveLog_add_safe p sz e st lc seq = true.
Proof.
  intros H Hs L.
  assert (SetS : forall q, g_len q = sz / 64 -> g_nack_receiveLog_setReceived_safe q sz seq = true).
  { intros q Lq. apply (gen_nack_bitmap_safe q sz 0 seq H Hs Lq). }
  unfold g_nack_receiveLog_add_safe. cbv zeta.
  destruct (negb st); [rewrite SetS by auto; reflexivity|].
  destruct (_ =? 0); [reflexivity|]. destruct (_ <? 32768).
  - set (n := Z.to_nat ((seq - (e + 1) mod 65536) mod 65536)).
    match goal with |- context [g_while n ?c ?f ?s] =>
      assert (Inv : forall m s', 0 <= fst s' < 65536 /\ g_len (snd s') = sz / 64 ->
                0 <= fst (g_while m c f s') < 65536 /\ g_len (snd (g_while m c f s')) = sz / 64)
    end.
    { induction m as [|m IH]; intros [i q] [Hi Lq]; cbn [g_while fst snd] in *; [auto|].
      destruct (negb (i =? seq)); [|cbn [fst snd]; auto]. apply IH. cbn [fst snd]. split; [lia|].
      destruct (gen_nack_bitmap_length q sz i) as [_ ->]. exact Lq. }
    match goal with |- context [g_while_safe n ?cs ?c ?fs ?f ?s] =>
      rewrite (g_while_safe_inv (fun s' => 0 <= fst s' < 65536 /\ g_len (snd s') = sz / 64) cs c fs f)
    end.
    + match goal with |- context [g_while n ?c ?f ?s] =>
        destruct (Inv n s) as [_ L1]; [cbn [fst snd]; split; [lia|exact L]|]; destruct (g_while n c f s) as [i1 p1]
      end. cbn [snd] in L1.
      destruct (_ =? seq); [rewrite SetS by auto; reflexivity|].
      destruct (_ >? sz); [rewrite gen_nack_fixLastConsecutive_safe by auto|]; rewrite SetS by auto; reflexivity.
    + intros [i q] [Hi Lq]. cbn [fst snd] in *. split; [reflexivity|]. intros _.
      destruct (gen_nack_bitmap_safe q sz 0 i H Hi Lq) as (_ & D & _ & _). rewrite D. split; [reflexivity|].
      split; [lia|]. destruct (gen_nack_bitmap_length q sz i) as [_ ->]. exact Lq.
    + cbn [fst snd]. split; [lia|exact L].
  - destruct (_ >=? sz); [reflexivity|].
    destruct (_ =? seq); [rewrite gen_nack_fixLastConsecutive_safe by auto|]; rewrite SetS by auto; reflexivity.
Qed.

Lemma gen_nack_missing_safe p fm sz e st lc skip buf : valid_size sz ->
  0 <= e < 65536 -> 0 <= lc < 65536 -> 0 <= skip < 65536 -> g_len p = sz / 64 -> nack_rep sz p fm ->
  g_len (ReceiveLog.missing (ReceiveLog.mk_rlog fm sz e st lc) skip) <= g_len buf ->
  g_nack_receiveLog_missingSeqNumbers_safe p sz e lc skip buf = true.
Proof.
  intros H He Hl Hk L R Room.
  unfold g_nack_receiveLog_missingSeqNumbers_safe, ReceiveLog.missing, sub16, add16 in *.
  cbn [ReceiveLog.rend ReceiveLog.lastc ReceiveLog.bits ReceiveLog.rsize] in *. cbv zeta in *.
  destruct (skip >? (e - lc) mod 65536); [reflexivity|].
  set (bound := (((e - skip) mod 65536 + 1) mod 65536)) in *.
  set (i0 := (lc + 1) mod 65536) in *.
  set (n := Z.to_nat ((bound - i0) mod 65536)) in *.
  assert (Hb : 0 <= bound < 65536) by (unfold bound; lia).
  match goal with |- context [g_while_safe n ?cs ?c ?fs ?f ?s] =>
    rewrite (g_while_safe_inv (fun s' : Z * list Z * Z => let '(i, b, k) := s' in
               0 <= i < 65536 /\ 0 <= k /\
               k + g_len (ReceiveLog.miss_loop fm sz i (Z.to_nat ((bound - i) mod 65536))) <= g_len b) cs c fs f)
  end.
  - match goal with |- context [g_while n ?c ?f ?s] =>
      destruct (miss_while sz p fm bound c f H R (fun _ _ _ => eq_refl) (fun _ _ _ => eq_refl) n i0 buf 0) as (A & B & C);
        [unfold i0; lia|exact Hb|unfold n; lia|lia|lia|];
      destruct (g_while n c f s) as [[i1 b1] k1] end.
    cbn [fst snd] in B, C. subst k1. rewrite C.
    assert (0 <= g_len (ReceiveLog.miss_loop fm sz i0 n)) by (unfold g_len; lia). lia.
  - intros [[i b] k] (Hi & Hk0 & Rm). split; [reflexivity|]. intros Cnd.
    assert (Ne : (i =? bound) = false) by (destruct (i =? bound); [discriminate|reflexivity]).
    destruct (gen_nack_bitmap_safe p sz 0 i H Hi L) as (_ & _ & G & _). rewrite G.
    rewrite (gen_nack_getReceived_eq p fm sz i H Hi R).
    assert (Fu : Z.to_nat ((bound - i) mod 65536) = S (Z.to_nat ((bound - (i + 1) mod 65536) mod 65536))) by lia.
    rewrite Fu in Rm. cbn [ReceiveLog.miss_loop] in Rm. rewrite inc16_add16 in Rm by lia. unfold add16 in Rm.
    destruct (ReceiveLog.get_recv fm sz i); cbn [negb].
    + split; [reflexivity|]. repeat split; try lia; exact Rm.
    + assert (Lc : forall l, g_len (i :: l) = 1 + g_len l) by (intros; unfold g_len; cbn [length]; lia).
      rewrite Lc in Rm.
      assert (0 <= g_len (ReceiveLog.miss_loop fm sz ((i + 1) mod 65536) (Z.to_nat ((bound - (i + 1) mod 65536) mod 65536))))
        by (unfold g_len; lia).
      replace ((0 <=? k) && (k <? g_len b)) with true by lia. split; [reflexivity|].
      rewrite g_upd_length. repeat split; lia.
  - cbv beta iota. repeat split; try (unfold i0; lia). fold n. lia.
Qed.

Definition g_add_st (sz : Z) (s : list Z * Z * bool * Z) (seq : Z) : list Z * Z * bool * Z :=
  let '(p, e, st, lc) := s in g_nack_receiveLog_add p sz e st lc seq.

Lemma add_ranges m seq : 0 <= seq < 65536 -> 0 <= ReceiveLog.rend m < 65536 -> 0 <= ReceiveLog.lastc m < 65536 ->
  0 <= ReceiveLog.rend (ReceiveLog.add m seq) < 65536 /\ 0 <= ReceiveLog.lastc (ReceiveLog.add m seq) < 65536.
Proof.
  intros Hs He Hl. unfold ReceiveLog.add, ReceiveLog.fix_last. cbv zeta.
  repeat match goal with |- context [if ?c then _ else _] => destruct c end;
    cbn [ReceiveLog.rend ReceiveLog.lastc]; split; auto; apply sub16_range.
Qed.

Lemma gen_nack_add_all_eq sz l : valid_size sz -> Forall (fun s => 0 <= s < 65536) l ->
  forall p fm e st lc, 0 <= e < 65536 -> 0 <= lc < 65536 -> g_len p = sz / 64 -> nack_rep sz p fm ->
  let '(p', e', st', lc') := fold_left (g_add_st sz) l (p, e, st, lc) in
  let m' := ReceiveLog.add_all (ReceiveLog.mk_rlog fm sz e st lc) l in
  g_len p' = sz / 64 /\ nack_rep sz p' (ReceiveLog.bits m') /\ ReceiveLog.rsize m' = sz /\
  e' = ReceiveLog.rend m' /\ st' = ReceiveLog.started m' /\ lc' = ReceiveLog.lastc m'.
Proof.
  intros H F. induction F as [|seq l Hs F IH]; intros p fm e st lc He Hl L R.
  - cbn. repeat split; auto.
  - cbn [fold_left]. unfold ReceiveLog.add_all in *. cbn [fold_left].
    pose proof (gen_nack_add_eq p fm sz e st lc seq H Hs He Hl L R) as A.
    pose proof (add_ranges (ReceiveLog.mk_rlog fm sz e st lc) seq Hs He Hl) as [Re Rl].
    unfold g_add_st at 2. destruct (g_nack_receiveLog_add p sz e st lc seq) as [[[p1 e1] st1] lc1].
    destruct (ReceiveLog.add (ReceiveLog.mk_rlog fm sz e st lc) seq) as [f1 sz1 e1' st1' lc1'].
    cbn [ReceiveLog.bits ReceiveLog.rsize ReceiveLog.rend ReceiveLog.started ReceiveLog.lastc] in *.
    destruct A as (L1 & R1 & -> & -> & -> & ->). apply IH; auto.
Qed.

(* non-vacuity of the hypotheses used above *)
Lemma tie_hyps_nonvacuous :
  (valid_size 64 /\ g_len [0] = 64 / 64 /\ nack_rep 64 [0] (fun _ => false)) /\
  (g_len (repeat 0 128) = 128 /\ rs_rep (repeat 0 128) (fun _ => false)) /\
  (exists k, 0 <= k /\ g_len (repeat 0 128) = 2 ^ k).
Proof.
  split; [|split].
  - split; [left; reflexivity|]. split; [reflexivity|]. intros q Hq. unfold bits_of.
    replace (q / 64) with 0 by lia. apply Z.bits_0.
  - split; [reflexivity|]. intros q Hq. unfold bits_of, g_idx.
    assert (E : nth (Z.to_nat (q / 64)) (repeat 0 128) 0 = 0).
    { destruct (nth_in_or_default (Z.to_nat (q / 64)) (repeat 0 128) 0) as [I|D]; [|exact D].
      apply repeat_spec in I. exact I. }
    rewrite E. apply Z.bits_0.
  - exists 7. split; [lia|reflexivity].
Qed.

