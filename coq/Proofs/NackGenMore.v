(* C03 deepening round: the generator model over WHOLE histories refines Spec/NackGenSpec.v.
   Composes tick_at_stream (a tick is tick_one on each stream's own log and counters),
   missing_exact (the log's list is the recount's list), missing/spec NoDup, and the limit
   rule (filt/prune = the closed form spec_tick). *)
From IV Require Import Base.Word Model.ReceiveLog Model.NackGen Spec.NackSpec Spec.NackGenSpec
  Proofs.ReceiveLogProofs Proofs.NackGenProofs.
From Coq Require Import ZifyBool.
Ltac Zify.zify_post_hook ::= Z.div_mod_to_equations.

(* ---- the limit loop in closed form ---- *)

Lemma memz_contains x l : memz x l = contains l x.
Proof. reflexivity. Qed.

Lemma memz_false x l : memz x l = false <-> ~ In x l.
Proof.
  split.
  - intros E Hin. apply memz_In in Hin. congruence.
  - intros Hn. destruct (memz x l) eqn:E; auto. apply memz_In in E. contradiction.
Qed.

(* filteredMissingPacket[:count] is the plain filter "counter below the limit" *)
Lemma filt_filter mx miss : forall c, NoDup miss ->
  fst (filt mx miss c) = filter (fun x => cget c x <? mx) miss.
Proof.
  induction miss as [|m tl IH]; intros c Hnd; [reflexivity|].
  inversion Hnd as [|? ? Hnin Hnd']; subst. cbn [filt filter].
  destruct (cget c m <? mx) eqn:E.
  - destruct (filt mx tl (cset c m (u16 (cget c m + 1)))) as [r c'] eqn:E2. cbn [fst].
    f_equal. replace r with (fst (filt mx tl (cset c m (u16 (cget c m + 1))))) by (rewrite E2; reflexivity).
    rewrite IH by auto. apply filter_ext_in. intros x Hx.
    rewrite cget_cset_other; auto. intros ->. contradiction.
  - apply IH; auto.
Qed.

Lemma filt_cnt mx miss c x : NoDup miss ->
  cget (snd (filt mx miss c)) x =
  if memz x miss then (if cget c x <? mx then u16 (cget c x + 1) else cget c x) else cget c x.
Proof.
  intros Hnd. destruct (memz x miss) eqn:E.
  - apply memz_In in E. apply (filt_at mx miss c x Hnd E).
  - apply memz_false in E. apply (filt_other mx miss c x E).
Qed.

Lemma cget_prune c miss x : cget (prune c miss) x = if memz x miss then cget c x else 0.
Proof.
  destruct (memz x miss) eqn:E.
  - apply cget_prune_in. apply memz_In; auto.
  - induction c as [|[k v] c IH]; [reflexivity|]. cbn [prune filter fst].
    fold (prune c miss). destruct (contains miss k) eqn:Ek.
    + cbn [cget]. destruct (x =? k) eqn:Exk; [|exact IH].
      apply Z.eqb_eq in Exk. subst. rewrite <- memz_contains in Ek. congruence.
    + exact IH.
Qed.

(* one tick of one stream is the closed-form rule, for counters that agree pointwise *)
Lemma tick_one_spec mx m c cnt : 0 <= mx < 65536 -> NoDup m ->
  (forall x, cgetO c x = cnt x) -> (forall x, 0 <= cnt x <= mx) ->
  fst (tick_one mx m c) = fst (spec_tick mx m cnt) /\
  (forall x, cgetO (snd (tick_one mx m c)) x = snd (spec_tick mx m cnt) x) /\
  (forall x, 0 <= snd (spec_tick mx m cnt) x <= mx).
Proof.
  intros Hmx Hnd Hc Hr. unfold tick_one, spec_tick.
  destruct m as [|a tl]; [cbn [fst snd cgetO cget]; repeat split; auto; lia|].
  set (m := a :: tl) in *.
  set (c0 := match c with Some c => c | None => [] end).
  assert (Hc0 : forall x, cget c0 x = cnt x) by (intros x; rewrite <- Hc; destruct c; reflexivity).
  destruct (mx >? 0) eqn:Emx.
  - pose proof (filt_filter mx m c0 Hnd) as Hf.
    assert (Hfe : filter (fun x => cget c0 x <? mx) m = filter (fun x => cnt x <? mx) m)
      by (apply filter_ext; intros x; rewrite Hc0; reflexivity).
    rewrite Hfe in Hf.
    destruct (filt mx m c0) as [r c'] eqn:E. cbn [fst] in Hf. subst r.
    assert (Hc' : forall x, cget c' x =
              if memz x m then (if cnt x <? mx then cnt x + 1 else cnt x) else cnt x).
    { intros x. pose proof (filt_cnt mx m c0 x Hnd) as H. rewrite E in H. cbn [snd] in H.
      rewrite H, Hc0. destruct (memz x m); auto. destruct (cnt x <? mx) eqn:El; auto.
      specialize (Hr x). unfold u16. lia. }
    destruct (filter (fun x => cnt x <? mx) m) as [|b r'] eqn:Ef.
    + cbn [fst snd cgetO]. split; [reflexivity|]. split; [|exact Hr].
      intros x. rewrite Hc'. destruct (memz x m) eqn:Em; auto.
      destruct (cnt x <? mx) eqn:El; auto.
      assert (Hin : In x (filter (fun x => cnt x <? mx) m))
        by (apply filter_In; split; [apply memz_In; auto|auto]).
      rewrite Ef in Hin. destruct Hin.
    + cbn [fst snd]. split; [reflexivity|]. split.
      * intros x. rewrite cgetO_wrap, cget_prune, Hc'. destruct (memz x m); reflexivity.
      * intros x. specialize (Hr x). destruct (memz x m); [|lia]. destruct (cnt x <? mx) eqn:El; lia.
  - cbn [fst snd]. split; [reflexivity|]. split.
    + intros x. rewrite cgetO_wrap, cget_prune, Hc0. reflexivity.
    + intros x. specialize (Hr x). destruct (memz x m); lia.
Qed.

(* ---- the simulation ---- *)

Section Sim.
Variables (c : cfg) (s : Z).
Hypothesis Hcfg : cfg_ok c.

Let Hsz : valid_size (c_size c). Proof. exact (proj1 Hcfg). Qed.
Let Hskip : 0 <= c_skip c < 65536. Proof. exact (proj1 (proj2 Hcfg)). Qed.
Let Hmax : 0 <= c_max c < 65536. Proof. exact (proj2 (proj2 Hcfg)). Qed.

(* the part of the generator state that stream s can see, against the spec state of s *)
Record R (g : gen) (st : sstream) : Prop := {
  r_arr : match ss_arr st with
          | None => g_logs g s = None /\ has s (g_keys g) = false
          | Some l => all_u16 l /\ has s (g_keys g) = true /\
                      exists m0, new_log (c_size c) = Some m0 /\ g_logs g s = Some (add_all m0 l)
          end;
  r_cnt : forall x, cgetO (g_cnts g s) x = ss_cnt st x;
  r_rng : forall x, 0 <= ss_cnt st x <= c_max c
}.

Lemma R_init : R gen_init ss_init.
Proof. constructor; cbn; auto. intros; lia. Qed.

Lemma R_same g g' st : same_at s g g' -> R g' st -> R g st.
Proof.
  intros (A & B & C) [H1 H2 H3]. constructor; auto.
  - rewrite A, C. exact H1.
  - rewrite B. exact H2.
Qed.

Lemma add_all_snoc m l q : add_all m (l ++ [q]) = add (add_all m l) q.
Proof. unfold add_all. rewrite fold_left_app. reflexivity. Qed.

Lemma step_sim g st o : R g st -> op_u16 o ->
  R (fst (step c g o)) (fst (spec_step c s st o)) /\
  option_map (out_for s) (snd (step c g o)) = snd (spec_step c s st o).
Proof.
  intros HR Hu.
  assert (Hother : concerns s o = false -> spec_step c s st o = (st, None) ->
                   R (fst (step c g o)) (fst (spec_step c s st o)) /\
                   option_map (out_for s) (snd (step c g o)) = snd (spec_step c s st o)).
  { intros Hc He. destruct (step_other c g o s Hc) as [Hn HS]. rewrite He, Hn. cbn [fst snd option_map].
    split; auto. eapply R_same; eauto. }
  destruct o as [k nk|k|k q ok|].
  - (* Bind *)
    destruct nk.
    + destruct (k =? s) eqn:Ek.
      * apply Z.eqb_eq in Ek. subst k. cbn [step spec_step]. rewrite Z.eqb_refl.
        rewrite (new_log_some _ Hsz). cbn [fst snd option_map]. split; auto.
        destruct HR as [H1 H2 H3]. constructor; cbn [ss_arr ss_cnt g_logs g_keys g_cnts]; auto.
        -- split; [constructor|]. split; [rewrite has_ins, Z.eqb_refl; reflexivity|].
           eexists. split; [apply new_log_some; exact Hsz|]. rewrite upd_same. reflexivity.
        -- intros x. rewrite upd_same. reflexivity.
        -- intros x. lia.
      * apply Hother; cbn [concerns spec_step]; rewrite Ek; auto.
    + split; [exact HR|reflexivity].
  - (* Unbind *)
    destruct (k =? s) eqn:Ek.
    + apply Z.eqb_eq in Ek. subst k. cbn [step spec_step]. rewrite Z.eqb_refl.
      cbn [fst snd option_map]. split; auto.
      constructor; cbn [ss_init ss_arr ss_cnt g_logs g_keys g_cnts]; rewrite ?upd_same; auto.
      * split; auto. rewrite has_del, Z.eqb_refl. reflexivity.
      * intros; lia.
    + apply Hother; cbn [concerns spec_step]; rewrite Ek; auto.
  - (* Arrive *)
    destruct ok; [|split; [exact HR|reflexivity]].
    destruct (k =? s) eqn:Ek.
    + apply Z.eqb_eq in Ek. subst k. cbn [step spec_step]. rewrite Z.eqb_refl.
      destruct HR as [H1 H2 H3]. destruct (ss_arr st) as [l|] eqn:Ea.
      * destruct H1 as (Hl & Hk & m0 & Hn & Hg). rewrite Hg. cbn [fst snd option_map]. split; auto.
        constructor; cbn [ss_arr ss_cnt g_logs g_keys g_cnts]; auto.
        split; [apply Forall_app; split; auto|]. split; auto.
        exists m0. split; auto. rewrite upd_same, add_all_snoc. reflexivity.
      * destruct H1 as (Hg & Hk). rewrite Hg. cbn [fst snd option_map]. split; auto.
        constructor; auto. rewrite Ea. auto.
    + apply Hother; cbn [concerns spec_step]; rewrite Ek; auto.
  - (* Tick *)
    destruct HR as [H1 H2 H3]. cbn [spec_step]. destruct (ss_arr st) as [l|] eqn:Ea.
    + destruct H1 as (Hl & Hk & m0 & Hn & Hg).
      destruct (tick_at_stream c g s _ Hk Hg) as (Ho & Hc & Hlg).
      rewrite (missing_exact _ _ _ _ Hn Hl Hskip) in Ho, Hc.
      set (m := spec_missing (c_size c) (c_skip c) (s_add_all None l)) in *.
      assert (Hnd : NoDup m) by (apply spec_missing_NoDup; [exact Hsz|lia]).
      destruct (tick_one_spec (c_max c) m (g_cnts g s) (ss_cnt st) Hmax Hnd H2 H3) as (T1 & T2 & T3).
      cbn [fst snd]. split; [|rewrite Ho, T1; reflexivity].
      constructor; cbn [ss_arr ss_cnt]; auto.
      * split; auto. split; [exact Hk|]. exists m0. split; auto.
      * intros x. rewrite Hc. apply T2.
    + destruct H1 as (Hg & Hk). cbn [fst snd step option_map].
      rewrite out_for_tick, Hk. split; auto.
      constructor; cbn [g_logs g_keys g_cnts]; auto.
      * rewrite Ea. auto.
      * intros x. rewrite cnts_tick, Hk. apply H2.
Qed.

(* whole histories, from any pair of related states *)
Theorem run_refines_spec : forall ops g st, R g st -> ops_u16 ops ->
  map (out_for s) (run c g ops) = spec_stream c s st ops.
Proof.
  induction ops as [|o tl IH]; intros g st HR Hu; [reflexivity|].
  inversion Hu as [|? ? Ho Htl]; subst.
  destruct (step_sim g st o HR Ho) as [HR' Hout].
  cbn [run spec_stream]. destruct (step c g o) as [g' out]. cbn [fst snd] in *.
  rewrite <- Hout. destruct out as [t|]; cbn [option_map map]; [f_equal|]; apply IH; auto.
Qed.

Theorem generator_requests_exactly_missing ops : ops_u16 ops ->
  map (out_for s) (run c gen_init ops) = spec_stream c s ss_init ops.
Proof. intros. apply run_refines_spec; auto. apply R_init. Qed.

(* ---- reading the spec stream: the own arrival history at each tick ---- *)

(* invariant of the spec state: counts stay within [0, max] *)
Definition ss_ok (st : sstream) : Prop := forall x, 0 <= ss_cnt st x <= c_max c.

Lemma spec_tick_range m cnt : (forall x, 0 <= cnt x <= c_max c) ->
  forall x, 0 <= snd (spec_tick (c_max c) m cnt) x <= c_max c.
Proof.
  intros Hr x. unfold spec_tick. destruct m as [|a tl]; [cbn; lia|].
  destruct (c_max c >? 0).
  - destruct (filter _ _); cbn [snd]; [apply Hr|].
    specialize (Hr x). destruct (memz x _); [|lia]. destruct (_ <? _) eqn:E; lia.
  - cbn [snd]. specialize (Hr x). destruct (memz x _); lia.
Qed.

Lemma spec_step_ok st o : ss_ok st -> ss_ok (fst (spec_step c s st o)).
Proof.
  intros H. destruct o as [k nk|k|k q ok|]; cbn [spec_step].
  - destruct nk; [|exact H]. destruct (k =? s); [|exact H]. intros x; cbn; lia.
  - destruct (k =? s); [|exact H]. intros x; cbn; lia.
  - destruct ok; [|exact H]. destruct (k =? s); [|exact H]. destruct (ss_arr st); exact H.
  - destruct (ss_arr st); [|exact H]. cbn [fst]. intros x. cbn [ss_cnt]. apply spec_tick_range. exact H.
Qed.

(* what is sent is a sub-list of the missing list, never empty *)
Lemma spec_tick_sound mx m cnt r : fst (spec_tick mx m cnt) = Some r ->
  r <> [] /\ forall x, In x r -> In x m.
Proof.
  unfold spec_tick. destruct m as [|a tl]; [discriminate|].
  destruct (mx >? 0).
  - destruct (filter _ _) as [|b r'] eqn:E; [discriminate|]. cbn [fst]. intros H. injection H as <-.
    split; [discriminate|]. intros x Hx. rewrite <- E in Hx. apply filter_In in Hx. tauto.
  - cbn [fst]. intros H. injection H as <-. split; [discriminate|auto].
Qed.

Lemma spec_tick_nolimit m cnt : fst (spec_tick 0 m cnt) = nonempty m.
Proof. destruct m; reflexivity. Qed.

(* the arrival component of the spec state follows own_arrivals *)
Lemma spec_step_arr st o :
  ss_arr (fst (spec_step c s st o)) =
  match o with
  | Bind k true => if k =? s then Some [] else ss_arr st
  | Unbind k => if k =? s then None else ss_arr st
  | Arrive k q true => if k =? s then option_map (fun l => l ++ [q]) (ss_arr st) else ss_arr st
  | _ => ss_arr st
  end.
Proof.
  destruct o as [k nk|k|k q ok|]; cbn [spec_step].
  - destruct nk; auto. destruct (k =? s); auto.
  - destruct (k =? s); auto.
  - destruct ok; auto. destruct (k =? s); auto. destruct (ss_arr st) eqn:E; cbn; auto.
  - destruct (ss_arr st) eqn:E; cbn; auto.
Qed.

(* per tick: the output is the limit rule applied to the spec list of the own arrivals *)
Definition tick_rel (o : option (list Z)) (a : option (list Z)) : Prop :=
  match a with
  | None => o = None
  | Some l =>
      let m := spec_missing (c_size c) (c_skip c) (s_add_all None l) in
      (c_max c = 0 -> o = nonempty m) /\
      (forall r, o = Some r -> r <> [] /\ forall x, In x r -> In x m)
  end.

Lemma spec_stream_own : forall ops st,
  Forall2 tick_rel (spec_stream c s st ops) (own_arrivals s (ss_arr st) ops).
Proof.
  induction ops as [|o tl IH]; intros st; [constructor|].
  pose proof (spec_step_arr st o) as Ha.
  pose proof (IH (fst (spec_step c s st o))) as IH'. rewrite Ha in IH'.
  cbn [spec_stream].
  destruct o as [k nk|k|k q ok|].
  - destruct nk; cbn [spec_step own_arrivals] in *.
    + destruct (k =? s); cbn [snd] in *; exact IH'.
    + exact IH'.
  - cbn [spec_step own_arrivals] in *. destruct (k =? s); cbn [snd] in *; exact IH'.
  - destruct ok; cbn [spec_step own_arrivals] in *.
    + destruct (k =? s); cbn [snd] in *; [|exact IH']. destruct (ss_arr st); cbn [snd] in *; exact IH'.
    + exact IH'.
  - cbn [own_arrivals]. cbn [spec_step] in *. destruct (ss_arr st) as [l|] eqn:Ea; cbn [snd fst] in *.
    + constructor; [|exact IH']. unfold tick_rel. cbv zeta. split.
      * intros E0. rewrite E0. apply spec_tick_nolimit.
      * intros r Hr. eapply spec_tick_sound; eauto.
    + constructor; [reflexivity|exact IH'].
Qed.

(* ---- the limit over whole histories ---- *)

(* from any spec state: over a stretch of history without Unbind of s in which x is in the
   stream's missing list at every tick, x is requested at the first (limit - count so far)
   ticks and never again *)
Lemma n_ticks_cons o tl : n_ticks (o :: tl) = if is_tick o then S (n_ticks tl) else n_ticks tl.
Proof. unfold n_ticks. cbn [filter]. destruct (is_tick o); reflexivity. Qed.

Lemma spec_stream_limit_exact x : 0 < c_max c -> forall ops st, ss_ok st ->
  forallb (fun o => negb (ends_binding_of s o)) ops = true ->
  (forall a, In a (own_arrivals s (ss_arr st) ops) ->
     exists l, a = Some l /\ In x (spec_missing (c_size c) (c_skip c) (s_add_all None l))) ->
  req_count x (spec_stream c s st ops) = Z.min (Z.of_nat (n_ticks ops)) (c_max c - ss_cnt st x).
Proof.
  intros Hmx. induction ops as [|o tl IH]; intros st Hok Hnu Hin.
  - cbn. specialize (Hok x). lia.
  - cbn [forallb] in Hnu. apply andb_true_iff in Hnu as [Hnu1 Hnu2].
    pose proof (spec_step_arr st o) as Ha.
    pose proof (spec_step_ok st o Hok) as Hok'.
    specialize (IH (fst (spec_step c s st o)) Hok' Hnu2). rewrite Ha in IH.
    cbn [spec_stream]. rewrite n_ticks_cons.
    destruct o as [k nk|k|k q ok|]; cbn [is_tick].
    + assert (Hks : nk && (k =? s) = false)
        by (cbn [ends_binding_of] in Hnu1; destruct nk; [destruct (k =? s); [discriminate|]|]; reflexivity).
      assert (Hc : ss_cnt (fst (spec_step c s st (Bind k nk))) = ss_cnt st)
        by (cbn [spec_step]; destruct nk; auto; destruct (k =? s); [discriminate|auto]).
      assert (Hs : snd (spec_step c s st (Bind k nk)) = None)
        by (cbn [spec_step]; destruct nk; auto; destruct (k =? s); auto).
      rewrite Hs. rewrite Hc in IH. apply IH. intros a Hain. apply Hin.
      destruct nk; exact Hain.
    + cbn [ends_binding_of] in Hnu1. destruct (k =? s) eqn:Ek; [discriminate|].
      cbn [spec_step] in *. rewrite Ek in *. cbn [fst snd] in *. apply IH.
      intros a Hain. apply Hin. cbn [own_arrivals]. rewrite Ek. exact Hain.
    + assert (Hc : ss_cnt (fst (spec_step c s st (Arrive k q ok))) = ss_cnt st)
        by (cbn [spec_step]; destruct ok; auto; destruct (k =? s); auto; destruct (ss_arr st); auto).
      assert (Hs : snd (spec_step c s st (Arrive k q ok)) = None)
        by (cbn [spec_step]; destruct ok; auto; destruct (k =? s); auto; destruct (ss_arr st); auto).
      rewrite Hs. rewrite Hc in IH. apply IH. intros a Hain. apply Hin.
      destruct ok; exact Hain.
    + cbn [own_arrivals] in Hin.
      destruct (Hin (ss_arr st) (or_introl eq_refl)) as (l & El & Hx).
      cbn [spec_step] in *. rewrite El in *. cbn [fst snd ss_cnt] in *.
      set (m := spec_missing (c_size c) (c_skip c) (s_add_all None l)) in *.
      assert (IH' : req_count x (spec_stream c s (mk_ss (Some l) (snd (spec_tick (c_max c) m (ss_cnt st)))) tl)
                    = Z.min (Z.of_nat (n_ticks tl)) (c_max c - snd (spec_tick (c_max c) m (ss_cnt st)) x))
        by (apply IH; intros a Hain; apply Hin; right; exact Hain).
      cbn [req_count]. rewrite IH'. clear IH IH'. rewrite Nat2Z.inj_succ.
      specialize (Hok x).
      assert (Hm : memz x m = true) by (apply memz_In; exact Hx).
      unfold spec_tick in *. destruct m as [|a0 tl0] eqn:Em; [destruct Hx|]. rewrite <- Em in *.
      replace (c_max c >? 0) with true in * by lia.
      destruct (filter (fun y => ss_cnt st y <? c_max c) m) as [|b r'] eqn:Ef.
      * cbn [fst snd] in *.
        assert (ss_cnt st x <? c_max c = false).
        { destruct (ss_cnt st x <? c_max c) eqn:El2; auto.
          assert (Hf : In x (filter (fun y => ss_cnt st y <? c_max c) m))
            by (apply filter_In; split; auto).
          rewrite Ef in Hf. destruct Hf. }
        lia.
      * cbn [fst snd] in *. rewrite Hm.
        destruct (ss_cnt st x <? c_max c) eqn:El2.
        -- assert (Hc : contains (b :: r') x = true).
           { apply contains_In. rewrite <- Ef. apply filter_In. split; auto. }
           rewrite Hc. lia.
        -- assert (Hnc : contains (b :: r') x = false).
           { destruct (contains (b :: r') x) eqn:Ec; auto. apply contains_In in Ec.
             rewrite <- Ef in Ec. apply filter_In in Ec. destruct Ec as [_ Ec]. congruence. }
           rewrite Hnc. lia.
Qed.

Lemma spec_stream_limit x : 0 < c_max c -> forall ops st, ss_ok st ->
  forallb (fun o => negb (ends_binding_of s o)) ops = true ->
  (forall a, In a (own_arrivals s (ss_arr st) ops) ->
     exists l, a = Some l /\ In x (spec_missing (c_size c) (c_skip c) (s_add_all None l))) ->
  req_count x (spec_stream c s st ops) <= c_max c - ss_cnt st x.
Proof. intros Hmx ops st Hok Hnu Hin. rewrite spec_stream_limit_exact by auto. lia. Qed.

(* a stream that is not bound has no counts *)
Definition ss_clean (st : sstream) : Prop := ss_arr st = None -> forall x, ss_cnt st x = 0.

Lemma spec_step_clean st o : ss_clean st -> ss_clean (fst (spec_step c s st o)).
Proof.
  intros H. destruct o as [k nk|k|k q ok|]; cbn [spec_step].
  - destruct nk; [|exact H]. destruct (k =? s); [|exact H]. intros E; discriminate.
  - destruct (k =? s); [|exact H]. intros _ x. reflexivity.
  - destruct ok; [|exact H]. destruct (k =? s); [|exact H]. destruct (ss_arr st) eqn:E; [|exact H].
    intros E'; discriminate.
  - destruct (ss_arr st) eqn:E; [|exact H]. intros E'; discriminate.
Qed.

(* spec_stream and own_arrivals over a concatenation *)
Fixpoint spec_final (st : sstream) (ops : list op) : sstream :=
  match ops with
  | [] => st
  | o :: tl => spec_final (fst (spec_step c s st o)) tl
  end.

Lemma spec_stream_app a b : forall st,
  spec_stream c s st (a ++ b) = spec_stream c s st a ++ spec_stream c s (spec_final st a) b.
Proof.
  induction a as [|o tl IH]; intros st; [reflexivity|].
  cbn [app spec_stream spec_final]. destruct (snd (spec_step c s st o)); rewrite IH; reflexivity.
Qed.

Lemma spec_stream_length : forall ops st, length (spec_stream c s st ops) = n_ticks ops.
Proof.
  unfold n_ticks. induction ops as [|o tl IH]; intros st; [reflexivity|].
  cbn [spec_stream filter].
  destruct o as [k nk|k|k q ok|]; cbn [is_tick spec_step].
  - destruct nk; [destruct (k =? s)|]; cbn [snd]; apply IH.
  - destruct (k =? s); cbn [snd]; apply IH.
  - destruct ok; [destruct (k =? s); [destruct (ss_arr st)|]|]; cbn [snd]; apply IH.
  - destruct (ss_arr st); cbn [snd length]; rewrite IH; reflexivity.
Qed.

Lemma own_arrivals_app a b : forall cur,
  own_arrivals s cur (a ++ b) = own_arrivals s cur a ++ own_arrivals s (arr_after s cur a) b.
Proof.
  induction a as [|o tl IH]; intros cur; [reflexivity|].
  destruct o as [k nk|k|k q ok|]; cbn [app own_arrivals arr_after].
  - destruct nk; apply IH.
  - apply IH.
  - destruct ok; apply IH.
  - rewrite IH. reflexivity.
Qed.

Lemma own_arrivals_length : forall ops cur, length (own_arrivals s cur ops) = n_ticks ops.
Proof.
  unfold n_ticks. induction ops as [|o tl IH]; intros cur; [reflexivity|].
  destruct o as [k nk|k|k q ok|]; cbn [own_arrivals filter is_tick].
  - destruct nk; apply IH.
  - apply IH.
  - destruct ok; apply IH.
  - cbn [length]. rewrite IH. reflexivity.
Qed.

Lemma spec_final_arr : forall ops st, ss_arr (spec_final st ops) = arr_after s (ss_arr st) ops.
Proof.
  induction ops as [|o tl IH]; intros st; [reflexivity|].
  cbn [spec_final]. rewrite IH, spec_step_arr.
  destruct o as [k nk|k|k q ok|]; cbn [arr_after]; auto.
  - destruct nk; reflexivity.
  - destruct ok; reflexivity.
Qed.

Lemma spec_final_ok : forall ops st, ss_ok st -> ss_ok (spec_final st ops).
Proof.
  induction ops as [|o tl IH]; intros st H; [exact H|]. cbn [spec_final]. apply IH, spec_step_ok, H.
Qed.

Lemma skipn_app_exact {A} (a b : list A) n : length a = n -> skipn n (a ++ b) = b.
Proof. intros <-. rewrite skipn_app, skipn_all, Nat.sub_diag. reflexivity. Qed.

(* the limit over whole generator histories: in any stretch `mid` of a history (after any
   prefix `pre`) that contains no Unbind of s and at every tick of which x is in the missing
   list of s's own arrivals, x is requested at most maxNacksPerPacket times *)
Theorem generator_nack_limit pre mid x : 0 < c_max c -> ops_u16 (pre ++ mid) ->
  forallb (fun o => negb (ends_binding_of s o)) mid = true ->
  (forall a, In a (skipn (n_ticks pre) (own_missing c s (pre ++ mid))) -> exists m, a = Some m /\ In x m) ->
  req_count x (skipn (n_ticks pre) (map (out_for s) (run c gen_init (pre ++ mid)))) <= c_max c.
Proof.
  intros Hmx Hu Hnu Hin.
  rewrite generator_requests_exactly_missing by exact Hu.
  rewrite spec_stream_app, skipn_app_exact by apply spec_stream_length.
  assert (Hok0 : ss_ok ss_init) by (intros y; cbn; lia).
  pose proof (spec_final_ok pre ss_init Hok0) as Hok.
  pose proof (spec_stream_limit x Hmx mid (spec_final ss_init pre) Hok Hnu) as HL.
  specialize (Hok x).
  enough (req_count x (spec_stream c s (spec_final ss_init pre) mid) <=
          c_max c - ss_cnt (spec_final ss_init pre) x) by lia.
  apply HL. intros a Ha.
  unfold own_missing in Hin. rewrite own_arrivals_app, map_app, skipn_app_exact in Hin
    by (rewrite map_length; apply own_arrivals_length).
  rewrite spec_final_arr in Ha. cbn [ss_init ss_arr] in Ha.
  destruct (Hin (option_map (fun l => spec_missing (c_size c) (c_skip c) (s_add_all None l)) a))
    as (m & Em & Hx); [apply in_map; exact Ha|].
  destruct a as [l|]; [|discriminate]. exists l. split; auto. cbn [option_map] in Em.
  injection Em as <-. exact Hx.
Qed.

Lemma spec_final_clean : forall ops st, ss_clean st -> ss_clean (spec_final st ops).
Proof.
  induction ops as [|o tl IH]; intros st H; [exact H|]. cbn [spec_final]. apply IH, spec_step_clean, H.
Qed.

(* ... and exactly min(limit, number of ticks) times over the stretch that follows a
   BindRemoteStream of s (x is missing at every tick since the bind) *)
Theorem generator_nack_limit_exact_fresh pre mid x : 0 < c_max c -> ops_u16 (pre ++ Bind s true :: mid) ->
  forallb (fun o => negb (ends_binding_of s o)) mid = true ->
  (forall a, In a (skipn (n_ticks pre) (own_missing c s (pre ++ Bind s true :: mid))) ->
     exists m, a = Some m /\ In x m) ->
  req_count x (skipn (n_ticks pre) (map (out_for s) (run c gen_init (pre ++ Bind s true :: mid)))) =
  Z.min (Z.of_nat (n_ticks mid)) (c_max c).
Proof.
  intros Hmx Hu Hnu Hin.
  rewrite generator_requests_exactly_missing by exact Hu.
  rewrite spec_stream_app, skipn_app_exact by apply spec_stream_length.
  cbn [spec_stream spec_step]. rewrite Z.eqb_refl. cbn [fst snd].
  rewrite spec_stream_limit_exact; auto.
  - cbn [ss_cnt]. lia.
  - intros y; cbn; lia.
  - intros a Ha. cbn [ss_arr] in Ha.
    unfold own_missing in Hin. rewrite own_arrivals_app, map_app, skipn_app_exact in Hin
      by (rewrite map_length; apply own_arrivals_length).
    cbn [own_arrivals] in Hin. rewrite Z.eqb_refl in Hin.
    destruct (Hin (option_map (fun l => spec_missing (c_size c) (c_skip c) (s_add_all None l)) a))
      as (m & Em & Hx); [apply in_map; exact Ha|].
    destruct a as [l|]; [|discriminate]. exists l. split; auto. cbn [option_map] in Em.
    injection Em as <-. exact Hx.
Qed.

End Sim.

(* ---- corollaries in the words of the property text ---- *)

Lemma spec_missing_In sz skip st x :
  In x (spec_missing sz skip (Some st)) <-> exists u, x = u16 u /\ is_missing sz skip st u.
Proof.
  cbn [spec_missing]. rewrite in_map_iff. split.
  - intros (u & <- & Hu). exists u. split; auto. apply spec_missing_u_In; auto.
  - intros (u & -> & Hu). exists u. split; auto. apply spec_missing_u_In; auto.
Qed.

Lemma Forall2_nth {A B} (P : A -> B -> Prop) l1 l2 : Forall2 P l1 l2 ->
  forall n a, nth_error l1 n = Some a -> exists b, nth_error l2 n = Some b /\ P a b.
Proof.
  induction 1 as [|x y l1 l2 Hxy HF IH]; intros [|n] a Hn; cbn in *; try discriminate.
  - injection Hn as <-. eauto.
  - apply IH; auto.
Qed.

Lemma Forall2_nth_r {A B} (P : A -> B -> Prop) l1 l2 : Forall2 P l1 l2 ->
  forall n b, nth_error l2 n = Some b -> exists a, nth_error l1 n = Some a /\ P a b.
Proof.
  induction 1 as [|x y l1 l2 Hxy HF IH]; intros [|n] b Hn; cbn in *; try discriminate.
  - injection Hn as <-. eauto.
  - apply IH; auto.
Qed.

Section Words.
Variables (c : cfg) (s : Z) (ops : list op).
Hypothesis Hcfg : cfg_ok c.
Hypothesis Hu : ops_u16 ops.

Lemma outs_own : Forall2 (tick_rel c) (map (out_for s) (run c gen_init ops)) (own_arrivals s None ops).
Proof.
  rewrite (generator_requests_exactly_missing c s Hcfg ops Hu). apply (spec_stream_own c s Hcfg ops ss_init).
Qed.

(* whatever is requested for s at the n-th tick is (the 16-bit image of) a number that is
   missing, in the sense of the property text, in s's OWN arrival history at that tick *)
Theorem generator_requested_only_missing n r x :
  nth_error (map (out_for s) (run c gen_init ops)) n = Some (Some r) -> In x r ->
  exists l st u, nth_error (own_arrivals s None ops) n = Some (Some l) /\
    s_add_all None l = Some st /\ x = u16 u /\ is_missing (c_size c) (c_skip c) st u.
Proof.
  intros Hn Hx. destruct (Forall2_nth _ _ _ outs_own n _ Hn) as (a & Ha & Hrel).
  unfold tick_rel in Hrel. destruct a as [l|]; [|discriminate].
  cbv zeta in Hrel. destruct Hrel as [_ Hs]. destruct (Hs r eq_refl) as [_ Hsub].
  apply Hsub in Hx. destruct (s_add_all None l) as [st|] eqn:Est; [|destruct Hx].
  apply spec_missing_In in Hx as (u & Eu & Hu'). exists l, st, u. auto.
Qed.

(* without a limit, every number missing in s's own arrival history at a tick is requested *)
Theorem generator_no_limit_complete n l st u : c_max c = 0 ->
  nth_error (own_arrivals s None ops) n = Some (Some l) -> s_add_all None l = Some st ->
  is_missing (c_size c) (c_skip c) st u ->
  exists r, nth_error (map (out_for s) (run c gen_init ops)) n = Some (Some r) /\ In (u16 u) r.
Proof.
  intros H0 Hn Hst Hm. destruct (Forall2_nth_r _ _ _ outs_own n _ Hn) as (o & Ho & Hrel).
  unfold tick_rel in Hrel. cbv zeta in Hrel. destruct Hrel as [Hex _]. specialize (Hex H0).
  rewrite Hst in Hex.
  assert (Hin : In (u16 u) (spec_missing (c_size c) (c_skip c) (Some st)))
    by (apply spec_missing_In; eauto).
  destruct (spec_missing _ _ _) as [|a tl] eqn:E; [destruct Hin|].
  exists (a :: tl). subst o. split; auto.
Qed.

(* without a limit: list equality at every tick *)
Theorem generator_no_limit_exact : c_max c = 0 ->
  map (out_for s) (run c gen_init ops) =
  map (fun a => match a with Some m => nonempty m | None => None end) (own_missing c s ops).
Proof.
  intros H0. unfold own_missing. rewrite map_map.
  pose proof outs_own as HF. induction HF as [|o a l1 l2 Hoa HF IH]; [reflexivity|].
  cbn [map]. f_equal; [|exact IH].
  unfold tick_rel in Hoa. destruct a as [l|]; cbn [option_map]; [|exact Hoa].
  cbv zeta in Hoa. apply Hoa. exact H0.
Qed.

(* a stream that is not bound at a tick is sent nothing at that tick *)
Theorem generator_unbound_silent n :
  nth_error (own_arrivals s None ops) n = Some None ->
  nth_error (map (out_for s) (run c gen_init ops)) n = Some None.
Proof.
  intros Hn. destruct (Forall2_nth_r _ _ _ outs_own n _ Hn) as (o & Ho & Hrel).
  unfold tick_rel in Hrel. subst o. exact Ho.
Qed.
End Words.
