(* Proofs about Model/NackGen.v: the per-number NACK limit and the independence of streams. *)
From IV Require Import Base.Word Model.ReceiveLog Model.NackGen.
From Coq Require Import ZifyBool.
Ltac Zify.zify_post_hook ::= Z.div_mod_to_equations.

(* ---- counters ---- *)

Lemma cget_cset_same c k v : cget (cset c k v) k = v.
Proof.
  induction c as [|[k' v'] c IH]; simpl.
  - rewrite Z.eqb_refl. reflexivity.
  - destruct (k =? k') eqn:E; simpl; rewrite ?Z.eqb_refl, ?E; auto.
Qed.

Lemma cget_cset_other c k v x : x <> k -> cget (cset c k v) x = cget c x.
Proof.
  intros Hx. induction c as [|[k' v'] c IH]; simpl.
  - destruct (x =? k) eqn:E; [lia|reflexivity].
  - destruct (k =? k') eqn:E; simpl.
    + apply Z.eqb_eq in E. subst. destruct (x =? k') eqn:E2; [lia|reflexivity].
    + destruct (x =? k'); auto.
Qed.

Lemma contains_In l x : contains l x = true <-> In x l.
Proof.
  unfold contains. rewrite existsb_exists. split.
  - intros (y & Hy & E). apply Z.eqb_eq in E. subst; auto.
  - intros Hx. exists x. split; auto. apply Z.eqb_refl.
Qed.

Lemma cget_prune_in c miss x : In x miss -> cget (prune c miss) x = cget c x.
Proof.
  intros Hx. induction c as [|[k v] c IH]; simpl; auto.
  destruct (contains miss k) eqn:E; simpl.
  - destruct (x =? k); auto.
  - destruct (x =? k) eqn:E2; auto. apply Z.eqb_eq in E2. subst.
    apply contains_In in Hx. congruence.
Qed.

(* ---- the filter loop ---- *)

Lemma filt_other mx miss : forall c x, ~ In x miss ->
  ~ In x (fst (filt mx miss c)) /\ cget (snd (filt mx miss c)) x = cget c x.
Proof.
  induction miss as [|m tl IH]; intros c x Hx; simpl; [auto|].
  assert (x <> m /\ ~ In x tl) as [Hm Htl]
    by (split; [intros ->; apply Hx; left; auto|intros ?; apply Hx; right; auto]).
  destruct (cget c m <? mx).
  - destruct (filt mx tl (cset c m (u16 (cget c m + 1)))) as [r c'] eqn:E.
    destruct (IH (cset c m (u16 (cget c m + 1))) x Htl) as [H1 H2]. rewrite E in *. simpl in *.
    split; [intros [?|?]; [lia|auto]|]. rewrite H2. apply cget_cset_other; auto.
  - apply IH; auto.
Qed.

Lemma filt_at mx miss : forall c x, NoDup miss -> In x miss ->
  (In x (fst (filt mx miss c)) <-> cget c x < mx) /\
  cget (snd (filt mx miss c)) x = if cget c x <? mx then u16 (cget c x + 1) else cget c x.
Proof.
  induction miss as [|m tl IH]; intros c x Hnd Hx; [destruct Hx|].
  inversion Hnd as [|? ? Hnin Hnd']; subst. simpl.
  destruct (Z.eq_dec x m) as [->|Hne].
  - (* this element: later elements do not touch its counter *)
    destruct (cget c m <? mx) eqn:E.
    + destruct (filt mx tl (cset c m (u16 (cget c m + 1)))) as [r c'] eqn:E2.
      destruct (filt_other mx tl (cset c m (u16 (cget c m + 1))) m Hnin) as [H1 H2].
      rewrite E2 in *. simpl in *. split; [split; [lia|auto]|].
      rewrite H2. apply cget_cset_same.
    + destruct (filt_other mx tl c m Hnin) as [H1 H2]. split; [split; [tauto|lia]|auto].
  - assert (Hin : In x tl) by (destruct Hx; [congruence|auto]).
    destruct (cget c m <? mx) eqn:E.
    + destruct (filt mx tl (cset c m (u16 (cget c m + 1)))) as [r c'] eqn:E2.
      destruct (IH (cset c m (u16 (cget c m + 1))) x Hnd' Hin) as [H1 H2].
      rewrite E2 in *. simpl in *. rewrite cget_cset_other in * by auto.
      split; auto. rewrite <- H1. split; [intros [?|?]; [congruence|auto]|auto].
    + apply IH; auto.
Qed.

Lemma filt_subset mx miss : forall c x, In x (fst (filt mx miss c)) -> In x miss.
Proof.
  induction miss as [|m tl IH]; intros c x; simpl; auto.
  destruct (cget c m <? mx).
  - destruct (filt mx tl _) as [r c'] eqn:E. simpl. intros [?|Hin]; auto.
    right. apply (IH (cset c m (u16 (cget c m + 1)))). rewrite E. auto.
  - intros Hin. right. eapply IH; eauto.
Qed.

(* ---- one tick of one stream ---- *)

Definition cgetO (c : option cmap) (x : Z) : Z := match c with Some c => cget c x | None => 0 end.
Definition requested (o : option (list Z)) (x : Z) : Prop := exists r, o = Some r /\ In x r.

Lemma cgetO_wrap (c'' : cmap) x : cgetO (match c'' with [] => None | _ => Some c'' end) x = cget c'' x.
Proof. destruct c''; reflexivity. Qed.

(* what is sent is a sub-list of what is missing; without a limit it is all of it *)
Lemma tick_one_subset mx miss cnt r x : fst (tick_one mx miss cnt) = Some r -> In x r -> In x miss.
Proof.
  unfold tick_one. destruct miss as [|m tl]; [discriminate|].
  destruct (mx >? 0).
  - destruct (filt mx (m :: tl) _) as [r' c'] eqn:E. destruct r' as [|a r']; [discriminate|].
    simpl. intros H Hin. injection H as <-.
    apply (filt_subset mx (m :: tl) (match cnt with Some c => c | None => [] end)). rewrite E. auto.
  - simpl. intros H. injection H as <-. auto.
Qed.

Lemma tick_one_nolimit miss cnt : miss <> [] -> fst (tick_one 0 miss cnt) = Some miss.
Proof. destruct miss; [congruence|reflexivity]. Qed.

Lemma tick_one_empty mx cnt : tick_one mx [] cnt = (None, Some []).
Proof. reflexivity. Qed.

(* with a limit: a missing number is requested iff its counter is below the limit, and the
   counter then moves up by one; at the limit nothing changes (no wrap) *)
Lemma tick_one_at mx miss cnt x : 0 < mx < 65536 -> NoDup miss -> In x miss -> 0 <= cgetO cnt x ->
  let v := cgetO cnt x in
  (requested (fst (tick_one mx miss cnt)) x <-> v < mx) /\
  cgetO (snd (tick_one mx miss cnt)) x = if v <? mx then v + 1 else v.
Proof.
  intros Hmx Hnd Hin H0. cbv zeta. unfold tick_one.
  destruct miss as [|m tl]; [destruct Hin|].
  replace (mx >? 0) with true by lia.
  set (c := match cnt with Some c => c | None => [] end).
  assert (Hc : cgetO cnt x = cget c x) by (destruct cnt; reflexivity). rewrite Hc in *.
  destruct (filt_at mx (m :: tl) c x Hnd Hin) as [H1 H2].
  destruct (filt mx (m :: tl) c) as [r c'] eqn:E. cbn [fst snd] in H1, H2.
  assert (Hv : (if cget c x <? mx then u16 (cget c x + 1) else cget c x) =
               (if cget c x <? mx then cget c x + 1 else cget c x)).
  { destruct (cget c x <? mx) eqn:E3; auto. unfold u16. lia. }
  rewrite Hv in H2.
  destruct r as [|a r'].
  - cbn [fst snd cgetO]. split; [|exact H2].
    split; [intros (r & Hr & _); discriminate|]. intros Hlt. apply H1 in Hlt. destruct Hlt.
  - cbn [fst snd]. rewrite cgetO_wrap, cget_prune_in by auto. split; [|exact H2].
    rewrite <- H1. split.
    + intros (r & Hr & Hi). injection Hr as <-. auto.
    + intros Hi. exists (a :: r'). auto.
Qed.

(* ---- a run of ticks of one stream: ms = the missing lists at the successive ticks ---- *)

Fixpoint tick_run (mx : Z) (ms : list (list Z)) (c : option cmap) : list (option (list Z)) :=
  match ms with
  | [] => []
  | m :: tl => fst (tick_one mx m c) :: tick_run mx tl (snd (tick_one mx m c))
  end.

Fixpoint req_count (x : Z) (outs : list (option (list Z))) : Z :=
  match outs with
  | [] => 0
  | o :: tl => (match o with Some r => if contains r x then 1 else 0 | None => 0 end) + req_count x tl
  end.

(* while x stays in the missing list it is requested at the first (limit - count so far) ticks
   and never again *)
Theorem limit_exact mx x : 0 < mx < 65536 -> forall ms c,
  (forall m, In m ms -> NoDup m /\ In x m) -> 0 <= cgetO c x ->
  req_count x (tick_run mx ms c) = Z.min (Z.of_nat (length ms)) (Z.max 0 (mx - cgetO c x)).
Proof.
  intros Hmx. induction ms as [|m tl IH]; intros c Hms H0.
  - simpl. lia.
  - destruct (Hms m (or_introl eq_refl)) as [Hnd Hin].
    destruct (tick_one_at mx m c x Hmx Hnd Hin H0) as [H1 H2]. cbv zeta in H1, H2.
    cbn [tick_run req_count length]. rewrite Nat2Z.inj_succ.
    rewrite IH; [|intros; apply Hms; right; auto|rewrite H2; destruct (_ <? _); lia].
    rewrite H2.
    assert (Hb : (match fst (tick_one mx m c) with Some r => if contains r x then 1 else 0 | None => 0 end) =
                 if cgetO c x <? mx then 1 else 0).
    { destruct (fst (tick_one mx m c)) as [r|] eqn:Eo.
      - destruct (contains r x) eqn:Ec.
        + apply contains_In in Ec. assert (cgetO c x < mx) by (apply H1; exists r; auto).
          destruct (_ <? _) eqn:?; lia.
        + destruct (cgetO c x <? mx) eqn:El; auto.
          assert (Hr : requested (Some r) x) by (apply H1; lia).
          destruct Hr as (r' & Hr' & Hi). injection Hr' as <-. apply contains_In in Hi. congruence.
      - destruct (cgetO c x <? mx) eqn:El; auto.
        assert (Hr : requested None x) by (apply H1; lia). destruct Hr as (r' & Hr' & _). discriminate. }
    rewrite Hb. destruct (cgetO c x <? mx) eqn:El; lia.
Qed.

Corollary limit_le mx x ms c : 0 < mx < 65536 ->
  (forall m, In m ms -> NoDup m /\ In x m) -> 0 <= cgetO c x ->
  req_count x (tick_run mx ms c) <= mx.
Proof. intros. rewrite limit_exact by auto. lia. Qed.

Corollary limit_fresh mx x ms : 0 < mx < 65536 ->
  (forall m, In m ms -> NoDup m /\ In x m) ->
  req_count x (tick_run mx ms None) = Z.min (Z.of_nat (length ms)) mx.
Proof. intros. rewrite limit_exact by (simpl; auto; lia). simpl. lia. Qed.

(* counters stay non-negative *)
Definition cmap_nonneg (c : option cmap) : Prop := forall x, 0 <= cgetO c x.

(* ---- streams are independent ---- *)

Definition concerns (s : Z) (o : op) : bool :=
  match o with
  | Tick => true
  | Bind k _ => k =? s
  | Unbind k => k =? s
  | Arrive k _ _ => k =? s
  end.

Definition out_for (s : Z) (t : tick_out) : option (list Z) := afind t s.

Definition has (s : Z) (l : list Z) : bool := existsb (Z.eqb s) l.

Definition same_at (s : Z) (g g' : gen) : Prop :=
  g_logs g s = g_logs g' s /\ g_cnts g s = g_cnts g' s /\ has s (g_keys g) = has s (g_keys g').

Lemma afind_flat {A} (P : Z -> option A) ks s :
  afind (flat_map (fun k => match P k with Some a => [(k, a)] | None => [] end) ks) s =
  if has s ks then P s else None.
Proof.
  unfold has. induction ks as [|k tl IH]; [reflexivity|].
  cbn [flat_map existsb]. destruct (P k) as [a|] eqn:E.
  - cbn [app afind]. destruct (s =? k) eqn:E2.
    + apply Z.eqb_eq in E2. subst. simpl. auto.
    + simpl. exact IH.
  - cbn [app]. rewrite IH. destruct (s =? k) eqn:E2; simpl; auto.
    apply Z.eqb_eq in E2. subst. rewrite E. destruct (existsb _ tl); auto.
Qed.

Definition P_tick (c : cfg) (g : gen) (k : Z) : option (option (list Z) * option cmap) :=
  match g_logs g k with
  | None => None
  | Some lg => Some (tick_one (c_max c) (missing lg (c_skip c)) (g_cnts g k))
  end.

Definition P_out (c : cfg) (g : gen) (k : Z) : option (list Z) :=
  match P_tick c g k with Some r => fst r | None => None end.

Lemma tick_list_flat c g :
  tick_list c g = flat_map (fun k => match P_tick c g k with Some a => [(k, a)] | None => [] end) (g_keys g).
Proof.
  unfold tick_list, P_tick. apply flat_map_ext. intros k. destruct (g_logs g k); reflexivity.
Qed.

Lemma outs_list_flat c g :
  outs_of (tick_list c g) =
  flat_map (fun k => match P_out c g k with Some a => [(k, a)] | None => [] end) (g_keys g).
Proof.
  unfold tick_list, outs_of, P_out, P_tick.
  induction (g_keys g) as [|k tl IH]; [reflexivity|].
  cbn [flat_map]. rewrite flat_map_app, IH. f_equal.
  destruct (g_logs g k); [|reflexivity]. cbn [flat_map fst snd app].
  destruct (fst (tick_one _ _ _)); reflexivity.
Qed.

Lemma out_for_tick c g s :
  out_for s (outs_of (tick_list c g)) = if has s (g_keys g) then P_out c g s else None.
Proof. unfold out_for. rewrite outs_list_flat. apply afind_flat. Qed.

Lemma cnts_tick c g s :
  cnts_of (tick_list c g) (g_cnts g) s =
  match (if has s (g_keys g) then P_tick c g s else None) with Some r => snd r | None => g_cnts g s end.
Proof. unfold cnts_of. rewrite tick_list_flat, afind_flat. reflexivity. Qed.

Lemma P_tick_same c g g' s : same_at s g g' -> P_tick c g s = P_tick c g' s.
Proof. intros (H1 & H2 & _). unfold P_tick. rewrite H1, H2. reflexivity. Qed.

Lemma has_ins s k l : has s (ins_key k l) = (s =? k) || has s l.
Proof.
  unfold has. induction l as [|x tl IH]; simpl.
  - destruct (s =? k); reflexivity.
  - destruct (k <? x) eqn:E1; [reflexivity|].
    destruct (k =? x) eqn:E2.
    + apply Z.eqb_eq in E2. subst. simpl. destruct (s =? x); reflexivity.
    + simpl. rewrite IH. destruct (s =? x), (s =? k); reflexivity.
Qed.

Lemma has_del s k l : has s (del_key k l) = negb (s =? k) && has s l.
Proof.
  unfold has, del_key. induction l as [|x tl IH]; simpl.
  - destruct (s =? k); reflexivity.
  - destruct (x =? k) eqn:E; simpl.
    + rewrite IH. apply Z.eqb_eq in E. subst. destruct (s =? k); reflexivity.
    + rewrite IH. destruct (s =? x) eqn:E2; simpl.
      * apply Z.eqb_eq in E2. subst. rewrite E. reflexivity.
      * reflexivity.
Qed.

Lemma upd_same {A} (f : Z -> A) k v : upd f k v k = v.
Proof. unfold upd. rewrite Z.eqb_refl. reflexivity. Qed.
Lemma upd_other {A} (f : Z -> A) k v s : s <> k -> upd f k v s = f s.
Proof. unfold upd. intros H. destruct (s =? k) eqn:E; [lia|reflexivity]. Qed.

(* an operation of another stream changes nothing that stream s can see *)
Lemma step_other c g o s : concerns s o = false ->
  snd (step c g o) = None /\ same_at s (fst (step c g o)) g.
Proof.
  unfold same_at. destruct o as [k nk|k|k q ok|]; simpl; intros Hc; try discriminate;
    assert (Hne : s <> k) by lia.
  - destruct nk; [|auto]. destruct (new_log (c_size c)); [|auto].
    cbn [fst snd g_logs g_cnts g_keys]. rewrite !upd_other, has_ins by auto.
    replace (s =? k) with false by lia. auto.
  - cbn [fst snd g_logs g_cnts g_keys]. rewrite !upd_other, has_del by auto.
    replace (s =? k) with false by lia. auto.
  - destruct ok; [|auto]. destruct (g_logs g k); [|auto].
    cbn [fst snd g_logs g_cnts g_keys]. rewrite upd_other by auto. auto.
Qed.

(* an operation that concerns s acts on two generators that agree at s in the same way *)
Lemma step_same c g g' o s : same_at s g g' ->
  same_at s (fst (step c g o)) (fst (step c g' o)) /\
  option_map (out_for s) (snd (step c g o)) = option_map (out_for s) (snd (step c g' o)).
Proof.
  intros HS. pose proof HS as (H1 & H2 & H3). unfold same_at.
  destruct o as [k nk|k|k q ok|]; simpl.
  - destruct nk; [|auto]. destruct (new_log (c_size c)); [|auto].
    cbn [fst snd g_logs g_cnts g_keys]. rewrite !has_ins, H3.
    unfold upd. destruct (s =? k); auto.
  - cbn [fst snd g_logs g_cnts g_keys]. rewrite !has_del, H3. unfold upd. destruct (s =? k); auto.
  - destruct ok; [|auto].
    destruct (Z.eq_dec s k) as [->|Hne].
    + rewrite <- H1. destruct (g_logs g k); [|auto].
      cbn [fst snd g_logs g_cnts g_keys]. rewrite !upd_same. auto.
    + destruct (g_logs g k), (g_logs g' k); cbn [fst snd g_logs g_cnts g_keys];
        rewrite ?upd_other by auto; auto.
  - cbn [fst snd g_logs g_cnts g_keys option_map].
    rewrite !out_for_tick, !cnts_tick, H3. unfold P_out. rewrite (P_tick_same c g g' s HS), H2.
    auto.
Qed.

Theorem streams_independent c s : forall ops g g', same_at s g g' ->
  map (out_for s) (run c g ops) = map (out_for s) (run c g' (filter (concerns s) ops)).
Proof.
  induction ops as [|o tl IH]; intros g g' HS; [reflexivity|].
  cbn [filter]. destruct (concerns s o) eqn:Ec.
  - cbn [run]. destruct (step_same c g g' o s HS) as [HS' Ho].
    destruct (step c g o) as [g1 o1]. destruct (step c g' o) as [g1' o1']. cbn [fst snd] in *.
    destruct o1, o1'; try discriminate; cbn [map option_map] in *.
    + injection Ho as Ho. rewrite Ho. f_equal. apply IH; auto.
    + apply IH; auto.
  - cbn [run]. destruct (step_other c g o s Ec) as [Hn HS'].
    destruct (step c g o) as [g1 o1]. cbn [fst snd] in *. subst o1.
    apply IH. destruct HS' as (A & B & C), HS as (A' & B' & C'). unfold same_at.
    rewrite A, B, C. auto.
Qed.

Lemma same_at_refl s g : same_at s g g.
Proof. unfold same_at; auto. Qed.

(* a tick of the generator is tick_one applied to each bound stream's own log and counters *)
Lemma tick_at_stream c g s lg : has s (g_keys g) = true -> g_logs g s = Some lg ->
  option_map (out_for s) (snd (step c g Tick)) =
    Some (fst (tick_one (c_max c) (missing lg (c_skip c)) (g_cnts g s))) /\
  g_cnts (fst (step c g Tick)) s = snd (tick_one (c_max c) (missing lg (c_skip c)) (g_cnts g s)) /\
  g_logs (fst (step c g Tick)) s = Some lg.
Proof.
  intros Hk Hl. cbn [step fst snd option_map g_cnts g_logs].
  rewrite out_for_tick, cnts_tick, Hk. unfold P_out, P_tick. rewrite Hl. auto.
Qed.

(* the known under-request (counters keyed by the 16-bit number), on the model:
   limit 1; 5 is requested at the first tick; the stream then advances by exactly 2^16, so at
   the second tick the missing 16-bit number 5 is a different packet (65541), yet it is not requested *)
Definition stale_ops : list op :=
  [Bind 1111 true; Arrive 1111 4 true; Arrive 1111 6 true; Tick;
   Arrive 1111 21852 true; Arrive 1111 43698 true; Arrive 1111 6 true; Tick].

Lemma stale_counter_witness :
  exists r1 r2, map (out_for 1111) (run (mk_cfg 64 0 1) gen_init stale_ops) = [Some r1; Some r2] /\
    r1 = [5] /\ ~ In 5 r2 /\ In 65535 r2 /\
    In 5 (missing (add_all (mk_rlog (fun _ => false) 64 0 false 0) [4; 6; 21852; 43698; 6]) 0).
Proof.
  eexists. eexists. split; [vm_compute; reflexivity|].
  split; [reflexivity|]. split; [vm_compute; intuition discriminate|].
  split; vm_compute; tauto.
Qed.
