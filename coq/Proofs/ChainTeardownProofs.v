(* C01, round-3 strengthening: proofs about teardown histories of a chain
   (Model/ChainTeardown.v) and about the teardown oracle of Check/C01Check.v. *)
From IV Require Import Base.Word Model.TwccHdrExt Model.Chain Model.ChainTeardown.
From IV Require Import Proofs.ChainProofs Check.C01Check.
From Coq Require Import Lia.
Open Scope Z_scope.

(* ---- induction over trees of chains ---- *)
Lemma node_ind2 (P : node -> Prop) :
  (forall m, P (NLeaf m)) -> (forall l, Forall P l -> P (NChain l)) -> forall n, P n.
Proof.
  intros HL HC. fix IH 1. intros [m|l]; [apply HL|]. apply HC.
  induction l as [|x l IHl]; constructor; [apply IH|exact IHl].
Qed.

(* the loops written as nested fixpoints are deliver_all / leaves_all *)
Lemma deliver_chain o l :
  deliver o (NChain l) =
  (NChain (fst (deliver_all o l)), match o with TClose => flatten_errs (snd (deliver_all o l)) | _ => None end).
Proof.
  cbn [deliver].
  assert (H : (fix go (l0 : list node) : list node * list (option err) :=
                 match l0 with
                 | [] => ([], [])
                 | x :: tl => (fst (deliver o x) :: fst (go tl), snd (deliver o x) :: snd (go tl))
                 end) l = deliver_all o l).
  { induction l as [|x l IH]; [reflexivity|]. cbn [deliver_all]. rewrite <- IH. reflexivity. }
  rewrite H. reflexivity.
Qed.

Lemma leaves_chain l : leaves (NChain l) = leaves_all l.
Proof. cbn [leaves]. induction l as [|x l IH]; [reflexivity|]. cbn [leaves_all]. rewrite <- IH. reflexivity. Qed.

(* ---- one call: every leaf interceptor, at any nesting depth, receives it exactly once ---- *)
Lemma deliver_leaves o : forall n, leaves (fst (deliver o n)) = map (bump o) (leaves n).
Proof.
  induction n as [m|l IH] using node_ind2; [reflexivity|].
  rewrite deliver_chain. cbn [fst]. rewrite !leaves_chain.
  induction IH as [|x l Hx _ IHl]; [reflexivity|].
  cbn [deliver_all fst leaves_all]. rewrite map_app, Hx, IHl. reflexivity.
Qed.

Lemma deliver_all_leaves o l : leaves_all (fst (deliver_all o l)) = map (bump o) (leaves_all l).
Proof.
  induction l as [|x l IH]; [reflexivity|].
  cbn [deliver_all fst leaves_all]. rewrite map_app, deliver_leaves, IH. reflexivity.
Qed.

Lemma deliver_unbind_ret o n : o <> TClose -> snd (deliver o n) = None.
Proof. intros Ho. destruct n as [m|l]; [|rewrite deliver_chain]; destruct o; try reflexivity; congruence. Qed.

(* ---- the error a Close returns, over trees ---- *)
Definition node_nil (n : node) : Prop := Forall (fun m => m_close_err m = None) (leaves n).
Definition node_has (n : node) (t : Z) : Prop :=
  exists m x, In m (leaves n) /\ m_close_err m = Some x /\ err_is x t = true.

Lemma close_ret_none : forall n, snd (deliver TClose n) = None <-> node_nil n.
Proof.
  unfold node_nil. induction n as [m|l IH] using node_ind2.
  - cbn. split; [intros H; constructor; auto|intros H; inversion H; auto].
  - rewrite deliver_chain, leaves_chain. cbn [snd]. rewrite flatten_errs_none.
    induction IH as [|x l Hx _ IHl]; cbn [deliver_all snd leaves_all].
    + split; constructor.
    + rewrite Forall_app. split.
      * intros H. inversion H; subst. split; [apply Hx; assumption|apply IHl; assumption].
      * intros [H1 H2]. constructor; [apply Hx; assumption|apply IHl; assumption].
Qed.

Lemma close_ret_is t : forall n,
  (exists e, snd (deliver TClose n) = Some e /\ err_is e t = true) <-> node_has n t.
Proof.
  unfold node_has. induction n as [m|l IH] using node_ind2.
  - cbn. split.
    + intros (e & He & Ht). exists m, e. auto.
    + intros (m' & x & [Hm|[]] & Hx & Ht). subst m'. eauto.
  - rewrite deliver_chain, leaves_chain. cbn [snd]. rewrite flatten_errs_is.
    induction IH as [|y l Hy _ IHl]; cbn [deliver_all snd leaves_all].
    + split; [intros (e & [] & _)|intros (m & x & [] & _)].
    + split.
      * intros (e & [He|He] & Ht).
        -- destruct (proj1 Hy (ex_intro _ e (conj He Ht))) as (m & x & Hm & Hx & Hxt).
           exists m, x. rewrite in_app_iff. auto.
        -- destruct (proj1 IHl (ex_intro _ e (conj He Ht))) as (m & x & Hm & Hx & Hxt).
           exists m, x. rewrite in_app_iff. auto.
      * intros (m & x & Hm & Hx & Hxt). apply in_app_iff in Hm as [Hm|Hm].
        -- destruct (proj2 Hy (ex_intro _ m (ex_intro _ x (conj Hm (conj Hx Hxt))))) as (e & He & Ht).
           exists e. cbn. auto.
        -- destruct (proj2 IHl (ex_intro _ m (ex_intro _ x (conj Hm (conj Hx Hxt))))) as (e & He & Ht).
           exists e. cbn. auto.
Qed.

(* delivering a call changes no member's Close error: nil-ness and errors.Is are history independent *)
Lemma bump_err o m : m_close_err (bump o m) = m_close_err m.
Proof. destruct o; reflexivity. Qed.

Lemma node_nil_deliver o n : node_nil (fst (deliver o n)) <-> node_nil n.
Proof.
  unfold node_nil. rewrite deliver_leaves, Forall_map.
  split; intros H; eapply Forall_impl; try exact H; intros m; cbn; rewrite bump_err; auto.
Qed.

Lemma node_has_deliver o n t : node_has (fst (deliver o n)) t <-> node_has n t.
Proof.
  unfold node_has. rewrite deliver_leaves. split.
  - intros (m & x & Hm & Hx & Ht). apply in_map_iff in Hm as (m0 & <- & Hm0).
    rewrite bump_err in Hx. eauto.
  - intros (m & x & Hm & Hx & Ht). exists (bump o m), x. rewrite bump_err.
    split; [apply in_map; exact Hm|auto].
Qed.

Lemma node_nil_run h : forall n, node_nil (fst (run_td h n)) <-> node_nil n.
Proof. induction h as [|o h IH]; intros n; cbn [run_td fst]; [tauto|]. rewrite IH. apply node_nil_deliver. Qed.
Lemma node_has_run h t : forall n, node_has (fst (run_td h n)) t <-> node_has n t.
Proof. induction h as [|o h IH]; intros n; cbn [run_td fst]; [tauto|]. rewrite IH. apply node_has_deliver. Qed.

(* ---- a whole history ---- *)
Definition bump_all (h : list tdop) (m : member) : member :=
  mkM (m_closed m + count_op TClose h) (m_unbound_local m + count_op TUnbindLocal h)
      (m_unbound_remote m + count_op TUnbindRemote h) (m_close_err m).

Lemma bump_all_cons o h m : bump_all h (bump o m) = bump_all (o :: h) m.
Proof.
  destruct m as [a b c e].
  destruct o; unfold bump_all, bump;
    cbn [m_closed m_unbound_local m_unbound_remote m_close_err count_op is_op]; f_equal; lia.
Qed.

Lemma bump_all_nil m : bump_all [] m = m.
Proof.
  destruct m as [a b c e]. unfold bump_all.
  cbn [m_closed m_unbound_local m_unbound_remote m_close_err count_op]. f_equal; lia.
Qed.

Lemma run_td_leaves h : forall n, leaves (fst (run_td h n)) = map (bump_all h) (leaves n).
Proof.
  induction h as [|o h IH]; intros n; cbn [run_td fst].
  - rewrite <- (map_id (leaves n)) at 1. apply map_ext. intros m. symmetry. apply bump_all_nil.
  - rewrite IH, deliver_leaves, map_map. apply map_ext. intros m. apply bump_all_cons.
Qed.

Lemma run_td_rets_length h : forall n, length (snd (run_td h n)) = length h.
Proof. induction h as [|o h IH]; intros n; cbn; [reflexivity|]. rewrite IH. reflexivity. Qed.

(* the k-th call of a history returns what that call returns on the tree as it is then *)
Lemma run_td_nth h : forall n k o, nth_error h k = Some o ->
  nth_error (snd (run_td h n)) k = Some (snd (deliver o (fst (run_td (firstn k h) n)))).
Proof.
  induction h as [|a h IH]; intros n [|k] o Hk; try discriminate; cbn in *.
  - inversion Hk; subst. reflexivity.
  - apply IH. exact Hk.
Qed.

(* every Close of a history - first, last, between Unbinds, repeated - returns an error that is nil
   iff every member's is, and in which errors.Is finds exactly the members' errors; every Unbind
   returns nothing *)
Lemma close_in_history h n k : nth_error h k = Some TClose ->
  exists e, nth_error (snd (run_td h n)) k = Some e /\
    (e = None <-> node_nil n) /\
    (forall t, (exists x, e = Some x /\ err_is x t = true) <-> node_has n t).
Proof.
  intros Hk. eexists. split; [apply run_td_nth; exact Hk|]. split.
  - rewrite close_ret_none. apply node_nil_run.
  - intros t. rewrite close_ret_is. apply node_has_run.
Qed.

(* ---- flat chains: the tree operations are Model/Chain.v's ---- *)
Lemma deliver_all_flat_close l :
  deliver_all TClose (map NLeaf l) = (map NLeaf (fst (close_all l)), snd (close_all l)).
Proof.
  induction l as [|m l IH]; [reflexivity|].
  cbn [map deliver_all close_all]. rewrite IH. cbn. destruct (close_all l) as [l' es]. reflexivity.
Qed.

Lemma flat_close l :
  deliver TClose (NChain (map NLeaf l)) = (NChain (map NLeaf (fst (chain_close l))), snd (chain_close l)).
Proof.
  rewrite deliver_chain, deliver_all_flat_close. unfold chain_close. destruct (close_all l) as [l' es]. reflexivity.
Qed.

Lemma flat_unbind_local l :
  deliver TUnbindLocal (NChain (map NLeaf l)) = (NChain (map NLeaf (chain_unbind_local l)), None).
Proof.
  rewrite deliver_chain. f_equal. f_equal. unfold chain_unbind_local.
  induction l as [|m l IH]; [reflexivity|]. cbn [map deliver_all fst]. rewrite IH. reflexivity.
Qed.

Lemma flat_unbind_remote l :
  deliver TUnbindRemote (NChain (map NLeaf l)) = (NChain (map NLeaf (chain_unbind_remote l)), None).
Proof.
  rewrite deliver_chain. f_equal. f_equal. unfold chain_unbind_remote.
  induction l as [|m l IH]; [reflexivity|]. cbn [map deliver_all fst]. rewrite IH. reflexivity.
Qed.

(* ---- the forgetful Close (the seeded change) loses the Unbinds that follow it ---- *)
Definition m0 : member := mkM 0 0 0 None.
Lemma forgetful_loses_unbind :
  let n := NChain [NLeaf m0] in
  let h := [TClose; TUnbindLocal; TUnbindRemote] in
  map ctr_of (leaves (fst (run_td h n))) = [(1, 1, 1)] /\
  map ctr_of (leaves (fst (fst (run_forgetful h (n, true))))) = [(1, 0, 0)].
Proof. split; reflexivity. Qed.

(* in the usual order the two agree - which is why only a Close-first history tells them apart *)
Lemma forgetful_agrees_when_close_is_last h n :
  ~ In TClose h ->
  fst (fst (run_forgetful (h ++ [TClose]) (n, true))) = fst (run_td (h ++ [TClose]) n).
Proof.
  revert n. induction h as [|o h IH]; intros n Hin.
  - reflexivity.
  - cbn [app run_forgetful run_td fst deliver_forgetful].
    assert (Ho : o <> TClose) by (intros ->; apply Hin; left; reflexivity).
    replace (match o with TClose => false | _ => true end) with true by (destruct o; congruence).
    cbn [fst]. apply IH. intros H. apply Hin. right. exact H.
Qed.

(* ---- the oracle of Check/C01Check.v ---- *)
Lemma ctr3_eqb_eq a b : ctr3_eqb a b = true <-> a = b.
Proof.
  destruct a as [[a1 a2] a3], b as [[b1 b2] b3]. unfold ctr3_eqb.
  rewrite !Bool.andb_true_iff, !Z.eqb_eq. split; [intros [[-> ->] ->]; reflexivity|intros H; inversion H; auto].
Qed.

Lemma list_ctr3_eqb_eq l1 l2 : list_eqb ctr3_eqb l1 l2 = true <-> l1 = l2.
Proof.
  revert l2. induction l1 as [|x l1 IH]; intros [|y l2]; cbn; try (split; [discriminate|discriminate]); [tauto|].
  rewrite Bool.andb_true_iff, ctr3_eqb_eq, IH. split; [intros [-> ->]; reflexivity|intros H; inversion H; auto].
Qed.

(* what the oracle decides: every snapshot is the previous one with the call's counter bumped
   for every member *)
Fixpoint td_steps (prev : list ctr3) (tds : list tdobs) : Prop :=
  match tds with
  | [] => True
  | (oz, cur) :: tl => cur = map (ctr_bump (tdop_of oz)) prev /\ td_steps cur tl
  end.

Lemma td_spec_iff : forall tds prev, td_spec prev tds = 0%nat <-> td_steps prev tds.
Proof.
  induction tds as [|[oz cur] tl IH]; intros prev; cbn [td_spec td_steps]; [tauto|].
  destruct (list_eqb ctr3_eqb (map (ctr_bump (tdop_of oz)) prev) cur) eqn:E.
  - apply list_ctr3_eqb_eq in E. rewrite IH. split; [intros H; split; [symmetry; exact E|exact H]|tauto].
  - split; [destruct (tdop_of oz); discriminate|].
    intros [H _]. symmetry in H. apply list_ctr3_eqb_eq in H. congruence.
Qed.

Lemma ctr_of_bump o m : ctr_of (bump o m) = ctr_bump o (ctr_of m).
Proof. destruct o; reflexivity. Qed.

Lemma combine_map_r {A B C} (f : B -> C) (ks : list A) : forall l,
  combine ks (map f l) = map (fun x => (fst x, f (snd x))) (combine ks l).
Proof. induction ks as [|k ks IH]; intros [|b l]; cbn; [reflexivity..|]. rewrite IH. reflexivity. Qed.

Lemma filter_map_fst {A B C} (p : A -> bool) (f : B -> C) (l : list (A * B)) :
  filter (fun x => p (fst x)) (map (fun x => (fst x, f (snd x))) l) =
  map (fun x => (fst x, f (snd x))) (filter (fun x => p (fst x)) l).
Proof. induction l as [|[a b] l IH]; cbn; [reflexivity|]. destruct (p a); cbn; rewrite IH; reflexivity. Qed.

Lemma mock_ctrs_deliver kinds o n :
  mock_ctrs kinds (fst (deliver o n)) = map (ctr_bump o) (mock_ctrs kinds n).
Proof.
  unfold mock_ctrs. rewrite deliver_leaves, combine_map_r.
  rewrite (filter_map_fst (fun k => k =? 15) (bump o)). rewrite !map_map.
  apply map_ext. intros [k m]. cbn. apply ctr_of_bump.
Qed.

(* the codes the harness prints for a history *)
Definition code_of (o : tdop) : Z := match o with TUnbindLocal => 0 | TUnbindRemote => 1 | TClose => 2 end.
Lemma tdop_of_code o : tdop_of (code_of o) = o.
Proof. destruct o; reflexivity. Qed.

(* what a faithful chain shows the harness *)
Definition obs_of (kinds : list Z) (h : list tdop) (n : node) : list tdobs :=
  combine (map code_of h) (map (mock_ctrs kinds) (trace_td h n)).

(* no false alarm: on every tree of chains, for every history and every choice of instrumented
   members, the oracle accepts what the model of the unchanged chain.go produces *)
Lemma td_spec_accepts_model kinds : forall h n, td_spec (mock_ctrs kinds n) (obs_of kinds h n) = 0%nat.
Proof.
  unfold obs_of. induction h as [|o h IH]; intros n; [reflexivity|].
  cbn [map trace_td combine td_spec]. rewrite tdop_of_code, <- (mock_ctrs_deliver kinds o n).
  replace (list_eqb ctr3_eqb _ _) with true by (symmetry; apply list_ctr3_eqb_eq; reflexivity).
  apply IH.
Qed.

(* ... and so does the model side of the differential check, on its own output *)
Lemma obs_of_ops kinds : forall h n, map (fun t : tdobs => tdop_of (fst t)) (obs_of kinds h n) = h.
Proof.
  unfold obs_of. induction h as [|o h IH]; intros n; [reflexivity|].
  cbn [map trace_td combine fst]. rewrite tdop_of_code. f_equal. apply IH.
Qed.

(* the forgetful Close is rejected on the seed's history, with the code of the lost Unbind *)
Definition obs_forgetful (kinds : list Z) : list tdop -> node * bool -> list tdobs :=
  fix go h st := match h with
                 | [] => []
                 | o :: tl => let st' := fst (deliver_forgetful o st) in
                              (code_of o, mock_ctrs kinds (fst st')) :: go tl st'
                 end.
Lemma td_spec_rejects_forgetful :
  let n := NChain [NLeaf m0; NChain [NLeaf m0]] in
  td_spec [(0, 0, 0); (0, 0, 0)] (obs_forgetful [15; 15] [TClose; TUnbindLocal; TUnbindRemote] (n, true)) = 74%nat /\
  td_spec [(0, 0, 0); (0, 0, 0)] (obs_forgetful [15; 15] [TUnbindLocal; TClose; TUnbindRemote] (n, true)) = 75%nat /\
  td_spec [(0, 0, 0); (0, 0, 0)] (obs_forgetful [15; 15] [TUnbindLocal; TUnbindRemote; TClose] (n, true)) = 0%nat.
Proof. repeat split; reflexivity. Qed.

Lemma trace_td_length h : forall n, length (trace_td h n) = length h.
Proof. induction h as [|o h IH]; intros n; cbn; [reflexivity|]. rewrite IH. reflexivity. Qed.

Lemma map_snd_combine {A B} (a : list A) : forall (b : list B), length a = length b -> map snd (combine a b) = b.
Proof. induction a as [|x a IH]; intros [|y b] H; cbn in *; try discriminate; [reflexivity|]. rewrite IH; [reflexivity|lia]. Qed.

Lemma list_list_ctr3_eqb_refl (l : list (list ctr3)) : list_eqb (list_eqb ctr3_eqb) l l = true.
Proof.
  induction l as [|x l IH]; [reflexivity|]. cbn. rewrite IH.
  replace (list_eqb ctr3_eqb x x) with true by (symmetry; apply list_ctr3_eqb_eq; reflexivity). reflexivity.
Qed.

(* the model side of the differential check (mismatch code 9) accepts the model's own output *)
Lemma td_model_ok_on_model kinds cms h :
  td_model_ok kinds cms (obs_of kinds h (node_of (CChain cms))) = true.
Proof.
  unfold td_model_ok. rewrite obs_of_ops. unfold obs_of.
  rewrite map_snd_combine by (rewrite !map_length, trace_td_length; reflexivity).
  apply list_list_ctr3_eqb_refl.
Qed.
