(* Proofs about Model/ReceiveLog.v: the log refines the recount of Spec/NackSpec.v
   for every valid size, every arrival list and every skipLastN. *)
From IV Require Import Base.Word Model.ReceiveLog Spec.NackSpec.
From Coq Require Import ZifyBool.
Ltac Zify.zify_post_hook ::= Z.div_mod_to_equations.

Definition valid_size (sz : Z) : Prop := In sz valid_sizes.

Ltac each_size H :=
  unfold valid_size, valid_sizes in H; simpl in H;
  repeat (destruct H as [H|H]; [subst|]); [..|contradiction].

Lemma valid_size_range sz : valid_size sz -> 64 <= sz <= 32768.
Proof. intros H. each_size H; lia. Qed.

Lemma new_log_valid sz m : new_log sz = Some m -> valid_size sz.
Proof.
  unfold new_log. destruct (existsb _ _) eqn:E; [|discriminate]. intros _.
  apply existsb_exists in E as (x & Hin & Hx). apply Z.eqb_eq in Hx. subst. exact Hin.
Qed.

Lemma new_log_some sz : valid_size sz -> new_log sz = Some (mk_rlog (fun _ => false) sz 0 false 0).
Proof.
  intros H. unfold new_log.
  replace (existsb (Z.eqb sz) valid_sizes) with true; auto.
  symmetry. apply existsb_exists. exists sz. split; auto. apply Z.eqb_refl.
Qed.

(* ---- slots ---- *)

Lemma slot_mod sz x : valid_size sz -> 0 <= x -> slot sz x = x mod sz.
Proof.
  intros H Hx. unfold slot.
  each_size H.
  - change (64 - 1) with (Z.ones 6). rewrite Z.land_ones by lia. reflexivity.
  - change (128 - 1) with (Z.ones 7). rewrite Z.land_ones by lia. reflexivity.
  - change (256 - 1) with (Z.ones 8). rewrite Z.land_ones by lia. reflexivity.
  - change (512 - 1) with (Z.ones 9). rewrite Z.land_ones by lia. reflexivity.
  - change (1024 - 1) with (Z.ones 10). rewrite Z.land_ones by lia. reflexivity.
  - change (2048 - 1) with (Z.ones 11). rewrite Z.land_ones by lia. reflexivity.
  - change (4096 - 1) with (Z.ones 12). rewrite Z.land_ones by lia. reflexivity.
  - change (8192 - 1) with (Z.ones 13). rewrite Z.land_ones by lia. reflexivity.
  - change (16384 - 1) with (Z.ones 14). rewrite Z.land_ones by lia. reflexivity.
  - change (32768 - 1) with (Z.ones 15). rewrite Z.land_ones by lia. reflexivity.
Qed.

Lemma modmod sz x : valid_size sz -> (x mod 65536) mod sz = x mod sz.
Proof. intros H. each_size H; lia. Qed.

Lemma slot_u16 sz x : valid_size sz -> slot sz (x mod 65536) = x mod sz.
Proof. intros H. rewrite slot_mod by (auto; lia). apply modmod; auto. Qed.

Lemma mod_sz_inj sz u v : valid_size sz -> u mod sz = v mod sz -> - sz < u - v < sz -> u = v.
Proof. intros H. each_size H; lia. Qed.

Lemma mod_neg_window sz x : valid_size sz -> - sz <= x < 0 -> x mod sz = x + sz.
Proof. intros H. each_size H; lia. Qed.

Lemma clear_idx sz E u : valid_size sz ->
  (let t := u mod sz - slot sz (E mod 65536 + 1) in if t <? 0 then t + sz else t) = (u - E - 1) mod sz.
Proof.
  intros H. rewrite slot_mod by (auto; lia). cbv zeta.
  destruct (_ <? 0) eqn:?; each_size H; lia.
Qed.

Lemma inc16_add16 i : 0 <= i < 65536 -> inc16 i = add16 i 1.
Proof. intros H. unfold inc16, add16. destruct (_ =? _) eqn:?; lia. Qed.

Lemma inc16_u U : inc16 (U mod 65536) = (U + 1) mod 65536.
Proof. unfold inc16. destruct (_ =? _) eqn:?; lia. Qed.

Lemma clear_range_at sz f E n q : valid_size sz -> 0 <= q < sz ->
  clear_range f sz (E mod 65536) n q = if (q - E - 1) mod sz <? n then false else f q.
Proof.
  intros H Hq. unfold clear_range. cbv zeta.
  pose proof (clear_idx sz E q H) as C. cbv zeta in C.
  rewrite (Z.mod_small q sz) in C by lia. rewrite C. reflexivity.
Qed.

(* the literal clearing loop and its closed form agree on every slot *)
Lemma del_loop_closed sz : valid_size sz -> forall n f E q, 0 <= q < sz ->
  del_loop f sz ((E + 1) mod 65536) n q = clear_range f sz (E mod 65536) (Z.of_nat n) q.
Proof.
  intros H. induction n as [|n IH]; intros f E q Hq.
  - rewrite clear_range_at by auto. simpl.
    destruct (_ <? 0) eqn:?; [|reflexivity]. pose proof (valid_size_range _ H). lia.
  - cbn [del_loop]. rewrite inc16_u. rewrite (IH _ (E + 1) q Hq).
    rewrite !clear_range_at by auto. unfold del_recv. cbv zeta.
    rewrite slot_u16 by auto.
    rewrite Nat2Z.inj_succ.
    repeat match goal with |- context [if ?c then _ else _] => destruct c eqn:? end;
      try reflexivity; exfalso; each_size H; lia.
Qed.

(* ---- fixLastConsecutive ---- *)

Lemma fix_loop_spec sz f e1 : valid_size sz -> forall n U,
  exists k, 0 <= k <= Z.of_nat n /\
    fix_loop f sz e1 (U mod 65536) n = (U + k) mod 65536 /\
    forall u, U <= u < U + k -> f (u mod sz) = true.
Proof.
  intros H. induction n as [|n IH]; intros U.
  - exists 0. simpl. split; [lia|]. split; [f_equal; lia|]. intros; lia.
  - cbn [fix_loop]. destruct (negb _ && _) eqn:E.
    + apply andb_true_iff in E as [_ E]. unfold get_recv in E. rewrite slot_u16 in E by auto.
      rewrite inc16_u. destruct (IH (U + 1)) as (k & Hk & Heq & Hall).
      exists (k + 1). split; [lia|]. split; [rewrite Heq; f_equal; lia|].
      intros u Hu. destruct (Z.eq_dec u U); [subst; auto|]. apply Hall. lia.
    + exists 0. split; [lia|]. split; [f_equal; lia|]. intros; lia.
Qed.

(* unwrapped reading: starting from cursor Lc, with end E, 0 <= E - Lc < 2^16 *)
Lemma fix_last_spec sz f E Lc : valid_size sz -> 0 <= E - Lc < 65536 ->
  exists L', Lc <= L' <= E /\
    fix_last f sz (E mod 65536) (Lc mod 65536) = L' mod 65536 /\
    forall u, Lc < u <= L' -> f (u mod sz) = true.
Proof.
  intros H Hr. unfold fix_last. cbv zeta.
  replace (add16 (Lc mod 65536) 1) with ((Lc + 1) mod 65536) by (unfold add16; lia).
  destruct (fix_loop_spec sz f (add16 (E mod 65536) 1) H
              (Z.to_nat (sub16 (add16 (E mod 65536) 1) ((Lc + 1) mod 65536))) (Lc + 1))
    as (k & Hk & Heq & Hall).
  rewrite Heq.
  assert (sub16 (add16 (E mod 65536) 1) ((Lc + 1) mod 65536) = E - Lc) by (unfold sub16, add16; lia).
  exists (Lc + k). split; [lia|]. split; [unfold sub16; lia|].
  intros u Hu. apply Hall. lia.
Qed.

(* ---- the scan of missingSeqNumbers ---- *)

Lemma miss_loop_spec sz f : valid_size sz -> forall n U,
  miss_loop f sz (U mod 65536) n =
  map u16 (filter (fun u => negb (f (u mod sz))) (zrange U n)).
Proof.
  intros H. induction n as [|n IH]; intros U; [reflexivity|].
  cbn [miss_loop zrange filter]. unfold get_recv. rewrite slot_u16 by auto. rewrite inc16_u.
  destruct (f (U mod sz)); cbn [negb map]; rewrite IH; reflexivity.
Qed.

Lemma zrange_app a n m : zrange a (n + m) = zrange a n ++ zrange (a + Z.of_nat n) m.
Proof.
  revert a; induction n as [|n IH]; intros a.
  - simpl. f_equal. lia.
  - cbn [Nat.add zrange app]. rewrite IH. do 3 f_equal. lia.
Qed.

Lemma filter_nil {A} (p : A -> bool) l : (forall x, In x l -> p x = false) -> filter p l = [].
Proof.
  induction l as [|x l IH]; intros Hp; [reflexivity|]. simpl.
  rewrite (Hp x) by (left; auto). apply IH. intros; apply Hp; right; auto.
Qed.

Lemma memz_In x l : memz x l = true <-> In x l.
Proof.
  unfold memz. rewrite existsb_exists. split.
  - intros (y & Hy & E). apply Z.eqb_eq in E. subst; auto.
  - intros Hx. exists x. split; auto. apply Z.eqb_refl.
Qed.

(* ---- the refinement invariant ---- *)

Record Inv (sz : Z) (m : rlog) (s : sst) : Prop := {
  i_size : rsize m = sz;
  i_started : started m = true;
  i_end : rend m = s_hi s mod 65536;
  i_lc : 0 <= lastc m < 65536;
  (* L = hi - gap is the unwrapped cursor: max(first, hi - size) <= L <= hi *)
  i_gap : sub16 (rend m) (lastc m) <= sz;
  i_first : s_first s <= s_hi s - sub16 (rend m) (lastc m);
  (* the bitmap is the received set, for every number of the window *)
  i_bits : forall u, s_hi s - sz < u <= s_hi s -> (bits m (u mod sz) = true <-> In u (s_rcv s));
  (* everything between the lower edge and the cursor has been received *)
  i_cons : forall u, s_first s < u -> s_hi s - sz < u -> u <= s_hi s - sub16 (rend m) (lastc m) ->
                     In u (s_rcv s);
  i_le : forall u, In u (s_rcv s) -> u <= s_hi s
}.

Lemma inv_first sz seq m0 : valid_size sz -> 0 <= seq < 65536 ->
  new_log sz = Some m0 -> Inv sz (add m0 seq) (mk_sst seq seq [seq]).
Proof.
  intros H Hs Hn. rewrite (new_log_some sz H) in Hn. injection Hn as <-.
  pose proof (valid_size_range _ H).
  unfold add. cbn [started negb rsize bits].
  constructor; cbn [rsize started rend lastc bits s_hi s_first s_rcv]; unfold sub16; try lia.
  - intros u Hu. unfold set_recv. cbv zeta.
    replace (slot sz seq) with (seq mod sz) by (rewrite <- (slot_u16 sz seq H); f_equal; lia).
    destruct (_ =? _) eqn:E; simpl; split; try discriminate; auto.
    + intros _. left. apply Z.eqb_eq in E. symmetry. apply (mod_sz_inj sz); auto. lia.
    + intros [->|[]]. rewrite Z.eqb_refl in E. discriminate.
  - intros u [->|[]]. lia.
Qed.

Ltac inv_fields HI :=
  destruct HI as [Isz Ist Iend Ilc Igap Ifirst Ibits Icons Ile].

Lemma set_recv_at sz f seq q : set_recv f sz seq q = if q =? slot sz seq then true else f q.
Proof. reflexivity. Qed.

Lemma inv_step sz m s seq : valid_size sz -> 0 <= seq < 65536 -> Inv sz m s ->
  exists s', s_add (Some s) seq = Some s' /\ Inv sz (add m seq) s'.
Proof.
  intros H Hs HI. pose proof (valid_size_range _ H) as Hsz.
  inv_fields HI.
  destruct s as [fst hi rcv]. cbn [s_hi s_first s_rcv] in *.
  unfold add, s_add. rewrite Ist. cbn [negb s_hi s_first s_rcv]. rewrite Isz.
  assert (Ed : sub16 seq (rend m) = (seq - hi) mod 65536) by (unfold sub16; rewrite Iend; lia).
  rewrite Ed.
  set (G := sub16 (rend m) (lastc m)) in *.
  assert (HG : 0 <= G < 65536) by (unfold G, sub16; lia).
  assert (Elc : lastc m = (hi - G) mod 65536) by (unfold G, sub16; rewrite Iend; lia).
  destruct ((seq - hi) mod 65536 =? 0) eqn:E0.
  { (* duplicate of the highest *)
    eexists; split; [reflexivity|].
    constructor; cbn [s_hi s_first s_rcv]; auto. }
  destruct ((seq - hi) mod 65536 <? 32768) eqn:E1.
  - (* forward move *)
    set (d := (seq - hi) mod 65536) in *.
    assert (Hd : 0 < d < 32768) by (unfold d in *; lia).
    assert (Hseq : seq = (hi + d) mod 65536) by (unfold d; lia).
    eexists; split; [reflexivity|].
    (* bitmap after clearing, in terms of unwrapped numbers *)
    assert (Hclr : forall u, clear_range (bits m) sz (rend m) (d - 1) (u mod sz) =
                             if (u - hi - 1) mod sz <? d - 1 then false else bits m (u mod sz)).
    { intros u. unfold clear_range. cbv zeta. rewrite Iend.
      replace (slot sz (hi mod 65536 + 1)) with (slot sz (hi mod 65536 + 1)) by reflexivity.
      pose proof (clear_idx sz hi u H) as C. cbv zeta in C. rewrite C. reflexivity. }
    (* new bitmap = received set on the new window *)
    assert (Hbits' : forall f', (forall u, f' (u mod sz) =
                        if u mod sz =? (hi + d) mod sz then true
                        else if (u - hi - 1) mod sz <? d - 1 then false else bits m (u mod sz)) ->
              forall u, hi + d - sz < u <= hi + d ->
                (f' (u mod sz) = true <-> In u ((hi + d) :: rcv))).
    { intros f' Hf u Hu. rewrite Hf.
      destruct (u mod sz =? (hi + d) mod sz) eqn:Eu.
      - apply Z.eqb_eq in Eu. apply (mod_sz_inj sz) in Eu; auto; [|lia].
        split; auto. intros _. left. auto.
      - assert (u <> hi + d) by (intros ->; rewrite Z.eqb_refl in Eu; discriminate).
        destruct (Z_le_gt_dec u hi) as [Hle|Hgt].
        + (* old window member: slot untouched *)
          assert ((u - hi - 1) mod sz = u - hi - 1 + sz) by (apply mod_neg_window; auto; lia).
          destruct (_ <? d - 1) eqn:Ec; [lia|].
          rewrite Ibits by lia. simpl. split; auto. intros [?|?]; [lia|auto].
        + (* skipped number: cleared, never received *)
          assert ((u - hi - 1) mod sz <= u - hi - 1) by (apply Z.mod_le; lia).
          destruct (_ <? d - 1) eqn:Ec; [|lia].
          split; [discriminate|]. intros [?|Hin]; [lia|]. apply Ile in Hin. lia. }
    assert (Hset : forall f u, set_recv f sz seq (u mod sz) =
                      if u mod sz =? (hi + d) mod sz then true else f (u mod sz)).
    { intros f u. rewrite set_recv_at. rewrite Hseq, slot_u16 by auto. reflexivity. }
    assert (Hle' : forall u, In u ((hi + d) :: rcv) -> u <= hi + d).
    { intros u [<-|Hin]; [lia|]. apply Ile in Hin. lia. }
    destruct (add16 (lastc m) 1 =? seq) eqn:E2.
    + (* cursor was at the highest and the next number arrives *)
      assert (G = 0 /\ d = 1) as [HG0 Hd1] by (unfold add16 in E2; lia).
      constructor; cbn [rsize started rend lastc bits s_hi s_first s_rcv]; auto; try lia; try (unfold sub16; lia).
      * apply Hbits'. intros u. rewrite Hset, Hclr. reflexivity.
      * intros u H1 H2 H3. destruct (Z.eq_dec u (hi + d)); [left; lia|right].
        apply Icons; unfold sub16 in H3; lia.
    + destruct (sub16 seq (lastc m) >? sz) eqn:E3.
      * (* the window slid past the cursor: re-anchor at hi' - size and skip ahead *)
        assert (Hgap : hi + d - (hi - G) > sz) by (unfold sub16 in E3; lia).
        replace (sub16 seq sz) with ((hi + d - sz) mod 65536) by (unfold sub16; lia).
        rewrite Hseq.
        destruct (fix_last_spec sz (clear_range (bits m) sz (rend m) (d - 1)) (hi + d) (hi + d - sz) H)
          as (L' & HL' & Heq & Hall); [lia|].
        rewrite Heq.
        constructor; cbn [rsize started rend lastc bits s_hi s_first s_rcv]; auto; try lia; try (unfold sub16; lia).
        -- rewrite <- Hseq. apply Hbits'. intros u. rewrite Hset, Hclr. reflexivity.
        -- intros u H1 H2 H3.
           assert (u <= L') by (unfold sub16 in H3; lia).
           destruct (Z.eq_dec u (hi + d)); [left; lia|].
           apply (Hbits' (fun q => if q =? (hi + d) mod sz then true
                                   else clear_range (bits m) sz (rend m) (d - 1) q)); [|lia|].
           ++ intros v. rewrite Hclr. reflexivity.
           ++ cbv beta. rewrite Hall by lia. destruct (u mod sz =? (hi + d) mod sz); reflexivity.
      * (* cursor stays *)
        assert (Hgap : hi + d - (hi - G) <= sz) by (unfold sub16 in E3; lia).
        constructor; cbn [rsize started rend lastc bits s_hi s_first s_rcv]; auto; try lia; try (unfold sub16; lia).
        -- apply Hbits'. intros u. rewrite Hset, Hclr. reflexivity.
        -- intros u H1 H2 H3. right. apply Icons; unfold sub16 in H3; lia.
  - (* late packet: b numbers behind the highest *)
    set (d := (seq - hi) mod 65536) in *.
    assert (Hd : 32768 <= d < 65536) by (unfold d in *; lia).
    set (u0 := hi + d - 65536).
    assert (Hb : sub16 (rend m) seq = hi - u0) by (unfold sub16, u0, d; rewrite Iend; lia).
    assert (Hseq : seq = u0 mod 65536) by (unfold u0, d; lia).
    eexists; split; [reflexivity|]. fold u0.
    rewrite Hb.
    destruct (hi - u0 >=? sz) eqn:E4.
    + (* older than the window: ignored by the log, outside the window for the spec *)
      constructor; cbn [s_hi s_first s_rcv]; auto.
      * intros u Hu. rewrite Ibits by auto. simpl. split; auto. intros [?|?]; [lia|auto].
      * intros u H1 H2 H3. right. apply Icons; auto.
      * intros u [<-|Hin]; [unfold u0, d; lia|auto].
    + assert (Hwin : hi - sz < u0 < hi) by (unfold u0, d in *; lia).
      assert (Hset : forall u, set_recv (bits m) sz seq (u mod sz) =
                      if u mod sz =? u0 mod sz then true else bits m (u mod sz)).
      { intros u. rewrite set_recv_at. rewrite Hseq, slot_u16 by auto. reflexivity. }
      assert (Hbits' : forall u, hi - sz < u <= hi ->
                (set_recv (bits m) sz seq (u mod sz) = true <-> In u (u0 :: rcv))).
      { intros u Hu. rewrite Hset. destruct (u mod sz =? u0 mod sz) eqn:Eu.
        - apply Z.eqb_eq in Eu. apply (mod_sz_inj sz) in Eu; auto; [|lia].
          split; auto. intros _. left. auto.
        - assert (u <> u0) by (intros ->; rewrite Z.eqb_refl in Eu; discriminate).
          rewrite Ibits by auto. simpl. split; auto. intros [?|?]; [congruence|auto]. }
      assert (Hle' : forall u, In u (u0 :: rcv) -> u <= hi).
      { intros u [<-|Hin]; [lia|auto]. }
      destruct (add16 (lastc m) 1 =? seq) eqn:E2.
      * (* fills the first gap: move the cursor over it and what follows *)
        assert (Hu0 : u0 = hi - G + 1) by (unfold add16 in E2; lia).
        rewrite Iend, Hseq.
        destruct (fix_last_spec sz (bits m) hi u0 H) as (L' & HL' & Heq & Hall); [lia|].
        rewrite Heq.
        constructor; cbn [rsize started rend lastc bits s_hi s_first s_rcv]; auto; try lia; try (unfold sub16; lia).
        -- rewrite <- Hseq. exact Hbits'.
        -- intros u H1 H2 H3.
           assert (u <= L') by (unfold sub16 in H3; lia).
           destruct (Z_le_gt_dec u (hi - G)); [right; apply Icons; lia|].
           destruct (Z.eq_dec u u0); [left; auto|].
           right. apply Ibits; [lia|]. apply Hall. lia.
      * constructor; cbn [rsize started rend lastc bits s_hi s_first s_rcv]; auto.
        intros u H1 H2 H3. right. apply Icons; auto.
Qed.

(* arrivals are uint16 *)
Definition all_u16 (l : list Z) : Prop := Forall (fun x => 0 <= x < 65536) l.

Lemma inv_all sz : valid_size sz -> forall l m s, all_u16 l -> Inv sz m s ->
  exists s', s_add_all (Some s) l = Some s' /\ Inv sz (add_all m l) s'.
Proof.
  intros H. induction l as [|x l IH]; intros m s Hl HI.
  - exists s. split; auto.
  - inversion Hl; subst. destruct (inv_step sz m s x H H2 HI) as (s1 & E1 & I1).
    unfold s_add_all, add_all. cbn [fold_left]. rewrite E1. apply IH; auto.
Qed.

(* ---- missingSeqNumbers is the spec's list ---- *)

Lemma missing_inv sz m s skip : valid_size sz -> 0 <= skip < 65536 -> Inv sz m s ->
  missing m skip = map u16 (spec_missing_u sz skip s).
Proof.
  intros H Hk HI. pose proof (valid_size_range _ H) as Hsz. inv_fields HI.
  destruct s as [fst hi rcv]. cbn [s_hi s_first s_rcv] in *.
  unfold missing, spec_missing_u, s_lo. cbn [s_hi s_first s_rcv]. rewrite Isz.
  set (G := sub16 (rend m) (lastc m)) in *.
  assert (HG : 0 <= G < 65536) by (unfold G, sub16; lia).
  assert (Elc : lastc m = (hi - G) mod 65536) by (unfold G, sub16; rewrite Iend; lia).
  set (lo := Z.max fst (hi - sz)).
  assert (Hlo : lo <= hi - G) by lia.
  destruct (skip >? G) eqn:E.
  - (* nothing to scan; the spec's range lies at or below the cursor *)
    symmetry. rewrite filter_nil; [reflexivity|].
    intros u Hu. apply zrange_In in Hu.
    apply negb_false_iff. apply memz_In. apply Icons; lia.
  - replace (add16 (lastc m) 1) with ((hi - G + 1) mod 65536) by (unfold add16; lia).
    replace (sub16 (add16 (sub16 (rend m) skip) 1) ((hi - G + 1) mod 65536)) with (G - skip)
      by (unfold sub16, add16; rewrite Iend; lia).
    rewrite miss_loop_spec by auto. f_equal.
    replace (Z.to_nat (hi - skip - lo)) with (Z.to_nat (hi - G - lo) + Z.to_nat (G - skip))%nat by lia.
    rewrite zrange_app, filter_app.
    rewrite (filter_nil _ (zrange (lo + 1) _)).
    + cbn [app]. replace (lo + 1 + Z.of_nat (Z.to_nat (hi - G - lo))) with (hi - G + 1) by lia.
      apply filter_ext_in. intros u Hu. apply zrange_In in Hu. f_equal.
      destruct (memz u rcv) eqn:Em.
      * apply Ibits; [lia|]. apply memz_In; auto.
      * destruct (bits m (u mod sz)) eqn:Eb; auto.
        apply Ibits in Eb; [|lia]. apply memz_In in Eb. congruence.
    + intros u Hu. apply zrange_In in Hu.
      apply negb_false_iff. apply memz_In. apply Icons; lia.
Qed.

Lemma missing_unstarted sz m0 skip : new_log sz = Some m0 -> 0 <= skip < 65536 -> missing m0 skip = [].
Proof.
  intros Hn Hk. pose proof (new_log_valid _ _ Hn) as H. rewrite (new_log_some sz H) in Hn.
  injection Hn as <-. unfold missing. cbn [rend lastc bits rsize].
  destruct (skip >? sub16 0 0) eqn:E; auto.
  assert (skip = 0) by (unfold sub16 in E; lia). subst.
  reflexivity.
Qed.

(* main refinement theorem *)
Theorem missing_exact sz m0 l skip :
  new_log sz = Some m0 -> all_u16 l -> 0 <= skip < 65536 ->
  missing (add_all m0 l) skip = spec_missing sz skip (s_add_all None l).
Proof.
  intros Hn Hl Hk. pose proof (new_log_valid _ _ Hn) as H.
  destruct l as [|x l].
  - simpl. apply (missing_unstarted sz); auto.
  - inversion Hl; subst.
    pose proof (inv_first sz x m0 H H2 Hn) as I0.
    destruct (inv_all sz H l _ _ H3 I0) as (s' & E & I').
    unfold add_all, s_add_all in *. cbn [fold_left s_add]. rewrite E.
    cbn [spec_missing]. apply missing_inv; auto.
Qed.

(* ---- what membership in the spec's list means ---- *)

Lemma spec_missing_u_In sz skip s u :
  In u (spec_missing_u sz skip s) <-> is_missing sz skip s u.
Proof.
  unfold spec_missing_u, is_missing, s_lo. rewrite filter_In, zrange_In, negb_true_iff.
  split.
  - intros [Hr Hm]. assert (~ In u (s_rcv s)) by (intros Hc; apply memz_In in Hc; congruence).
    repeat split; auto; lia.
  - intros (H1 & H2 & H3 & H4). split; [lia|].
    destruct (memz u (s_rcv s)) eqn:E; auto. apply memz_In in E. contradiction.
Qed.

(* ---- pre-fix code: the witnesses of F1 and F2 on the old functions ---- *)

Definition log64 : rlog := mk_rlog (fun _ => false) 64 0 false 0.

(* F1: recv 0, 100, late 30: the old add marks slot 30 = slot of 94; 94 is lost from the list *)
Lemma f1_old_witness :
  In 94 (spec_missing 64 0 (s_add_all None [0; 100; 30])) /\
  ~ In 94 (missing (fold_left add_old [0; 100; 30] log64) 0) /\
  In 94 (missing (add_all log64 [0; 100; 30]) 0).
Proof.
  split; [vm_compute; tauto|]. split; [|vm_compute; tauto].
  vm_compute. intuition discriminate.
Qed.

(* F2: recv 10, skipLastN = 65535: the old scan requests 11; skipLastN = 65436 overruns the buffer *)
Lemma f2_old_witness :
  missing_old (add log64 10) 65535 = Some [11] /\
  missing_old (add log64 10) 65436 = None /\
  missing (add log64 10) 65535 = [] /\ missing (add log64 10) 65436 = [].
Proof. vm_compute. repeat split. Qed.

(* ---- consequences of missing_exact in the words of the property text ---- *)

Section Consequences.
Variables (sz : Z) (m0 : rlog) (l : list Z) (skip : Z) (s : sst).
Hypothesis Hn : new_log sz = Some m0.
Hypothesis Hl : all_u16 l.
Hypothesis Hk : 0 <= skip < 65536.
Hypothesis Hs : s_add_all None l = Some s.

Lemma requested_sound x : In x (missing (add_all m0 l) skip) ->
  exists u, x = u16 u /\ is_missing sz skip s u.
Proof.
  rewrite (missing_exact sz m0 l skip Hn Hl Hk), Hs. cbn [spec_missing].
  rewrite in_map_iff. intros (u & <- & Hu). exists u. split; auto. apply spec_missing_u_In; auto.
Qed.

Lemma requested_complete u : is_missing sz skip s u -> In (u16 u) (missing (add_all m0 l) skip).
Proof.
  intros Hu. rewrite (missing_exact sz m0 l skip Hn Hl Hk), Hs. cbn [spec_missing].
  apply in_map. apply spec_missing_u_In; auto.
Qed.

(* a number received inside the window is never requested (as a 16-bit number) *)
Lemma never_received_in_window u : In u (s_rcv s) -> s_hi s - sz < u <= s_hi s ->
  ~ In (u16 u) (missing (add_all m0 l) skip).
Proof.
  intros Hin Hw Hc. apply requested_sound in Hc as (u' & E & (H1 & H2 & H3 & H4)).
  pose proof (valid_size_range _ (new_log_valid _ _ Hn)).
  assert (u = u') by (unfold u16 in E; lia). subst. contradiction.
Qed.

(* nothing ahead of the highest received (half-range reading) is requested *)
Lemma never_ahead x : In x (missing (add_all m0 l) skip) ->
  ~ (0 < (x - s_hi s) mod 65536 < 32768).
Proof.
  intros Hc. apply requested_sound in Hc as (u' & -> & (H1 & H2 & H3 & H4)).
  pose proof (valid_size_range _ (new_log_valid _ _ Hn)). unfold u16. lia.
Qed.

(* nothing inside the skipLastN region is requested *)
Lemma never_in_skip x : In x (missing (add_all m0 l) skip) ->
  skip <= (s_hi s - x) mod 65536 < sz.
Proof.
  intros Hc. apply requested_sound in Hc as (u' & -> & (H1 & H2 & H3 & H4)).
  pose proof (valid_size_range _ (new_log_valid _ _ Hn)). unfold u16. lia.
Qed.
End Consequences.


(* ---- the list has no duplicates (hypothesis of the limit theorems in NackGenProofs) ---- *)

Lemma NoDup_zrange n : forall a, NoDup (zrange a n).
Proof.
  induction n as [|n IH]; intros a; simpl; constructor; auto.
  rewrite zrange_In. lia.
Qed.

Lemma NoDup_map_inj_in {A B} (f : A -> B) l :
  (forall x y, In x l -> In y l -> f x = f y -> x = y) -> NoDup l -> NoDup (map f l).
Proof.
  induction l as [|a l IH]; intros Hinj Hnd; simpl; [constructor|].
  inversion Hnd; subst. constructor.
  - rewrite in_map_iff. intros (y & Hy & Hin). apply Hinj in Hy; [subst; auto|right; auto|left; auto].
  - apply IH; auto. intros x y Hx Hy. apply Hinj; right; auto.
Qed.

Lemma spec_missing_NoDup sz skip st : valid_size sz -> 0 <= skip -> NoDup (spec_missing sz skip st).
Proof.
  intros H Hk. pose proof (valid_size_range _ H). destruct st as [s|]; [|constructor].
  cbn [spec_missing]. apply NoDup_map_inj_in.
  - intros x y Hx Hy. apply spec_missing_u_In in Hx, Hy.
    destruct Hx as (? & ? & ? & _), Hy as (? & ? & ? & _). unfold u16. lia.
  - unfold spec_missing_u. apply NoDup_filter, NoDup_zrange.
Qed.

Theorem missing_NoDup sz m0 l skip :
  new_log sz = Some m0 -> all_u16 l -> 0 <= skip < 65536 -> NoDup (missing (add_all m0 l) skip).
Proof.
  intros Hn Hl Hk. rewrite (missing_exact sz m0 l skip Hn Hl Hk).
  apply spec_missing_NoDup; [eapply new_log_valid; eauto|lia].
Qed.
