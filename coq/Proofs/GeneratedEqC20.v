(* Source ties of C20: internal/sequencenumber/unwrapper.go.
   The hand-written model functions are EQUAL to (or REFINED BY, under a stated representation map)
   the definitions that `tools/go2coq -prop C20` regenerates from the Go source on every run
   (coq/Generated/GoCoresC20.v).
   Range hypotheses are exactly what the Go types guarantee (0 <= x < 2^16 for a uint16 ...), plus
   the constructor invariants of the Go objects where the model has them built in; every one is
   stated.  g_f_safe = true means: the Go function does not panic (index range, division by zero)
   on these inputs; the value equalities hold for the non-panicking executions.
   When the source of one of these functions changes its meaning, the regenerated definition
   changes and the lemma below no longer compiles: a broken obligation of THIS property only
   (no other property imports this file or Generated/GoCoresC20.v). *)
From IV Require Import Base.Word Base.GoPrelude Proofs.GoPreludeProofs.
From IV Require Model.Unwrapper.
From IV Require Import Generated.GoCoresC20.
From Coq Require Import ZifyBool.
Ltac Zify.zify_post_hook ::= Z.div_mod_to_equations.

Import Unwrapper.

(* the proofs are by unfolding and case analysis on the tests (semantic), after a first attempt by
   computation; uint16 parameters carry their range *)
Lemma gen_isNewer_eq v p : 0 <= v < 65536 -> 0 <= p < 65536 -> g_sequencenumber_isNewer v p = is_newer v p.
Proof.
  intros Hv Hp. first [ reflexivity | gnorm; unfold is_newer, sub16; tie_cases ].
Qed.

(* Unwrap as a state transformer on (init, lastUnwrapped) *)
Definition st_of (init : bool) (last : Z) : option Z := if init then Some last else None.

Lemma gen_Unwrap_eq init last i : 0 <= i < 65536 ->
  g_sequencenumber_Unwrapper_Unwrap init last i =
    (snd (unwrap (st_of init last) i), true, snd (unwrap (st_of init last) i)) /\
  fst (unwrap (st_of init last) i) = Some (snd (unwrap (st_of init last) i)).
Proof.
  intros Hi. unfold unwrap, st_of, unwrap_next. destruct init; cbn [fst snd]; (split; [|reflexivity]).
  - gnorm. unfold is_newer, u16, sub16. tie_cases.
  - gnorm. tie_cases.
Qed.
