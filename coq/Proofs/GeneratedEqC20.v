(* Source ties of C20: internal/sequencenumber/unwrapper.go.
   The hand-written model functions are EQUAL to (or REFINED BY, under a stated representation map)
   the definitions that `tools/go2coq -prop C20` regenerates from the Go source on every run
   (coq/Generated/GoCoresC20.v).
   Range hypotheses are exactly what the Go types guarantee (0 <= x < 2^16 for a uint16 ...), plus
   the constructor invariants of the Go objects where the model has them built in; every one is
   stated.  g_f_safe = true means: the Go function does not panic (index range, division by zero)
   on these inputs; the value equalities hold for the non-panicking executions.
   When the source of one of these functions changes its meaning, the regenerated definition
   changes and the lemma below no longer compiles: a broken obligation of THIS property only
   (no other property imports this file or Generated/GoCoresC20.v). *)
From IV Require Import Base.Word Base.GoPrelude Proofs.GoPreludeProofs.
From IV Require Model.Unwrapper.
From IV Require Import Generated.GoCoresC20.
From Coq Require Import ZifyBool.
Ltac Zify.zify_post_hook ::= Z.div_mod_to_equations.

Import Unwrapper.

Lemma gen_isNewer_eq v p : g_sequencenumber_isNewer v p = is_newer v p.
Proof. reflexivity. Qed.

(* Unwrap as a state transformer on (init, lastUnwrapped) *)
Definition st_of (init : bool) (last : Z) : option Z := if init then Some last else None.

Lemma gen_Unwrap_eq init last i :
  g_sequencenumber_Unwrapper_Unwrap init last i =
    (snd (unwrap (st_of init last) i), true, snd (unwrap (st_of init last) i)) /\
  fst (unwrap (st_of init last) i) = Some (snd (unwrap (st_of init last) i)).
Proof.
  unfold g_sequencenumber_Unwrapper_Unwrap, unwrap, st_of, unwrap_next. rewrite gen_isNewer_eq.
  unfold u16, sub16. destruct init; cbn [negb fst snd]; [|split; reflexivity].
  split; [|reflexivity].
  repeat match goal with |- context [if ?c then _ else _] => destruct c end; reflexivity.
Qed.
