(* C03 deepening round: receiveLog.get refines the recount of Spec/NackSpec.v, in the style
   of missing_exact (same invariant Inv, proved over all arrival lists in ReceiveLogProofs.v). *)
From IV Require Import Base.Word Model.ReceiveLog Spec.NackSpec Spec.NackGenSpec Proofs.ReceiveLogProofs.
From Coq Require Import ZifyBool.
Ltac Zify.zify_post_hook ::= Z.div_mod_to_equations.

Lemma get_inv sz m s x : valid_size sz -> 0 <= x < 65536 -> Inv sz m s ->
  get m x = spec_get sz (Some s) x.
Proof.
  intros H Hx HI. pose proof (valid_size_range _ H) as Hsz. inv_fields HI.
  destruct s as [fst hi rcv]. cbn [s_hi s_first s_rcv] in *.
  unfold get, spec_get. cbn [s_hi s_rcv]. cbv zeta. rewrite Isz.
  assert (Ed : sub16 (rend m) x = (hi - x) mod 65536) by (unfold sub16; rewrite Iend; lia).
  rewrite Ed. set (b := (hi - x) mod 65536).
  assert (Hb : 0 <= b < 65536) by (unfold b; lia).
  destruct (b >=? 32768) eqn:E1; [replace (b <? sz) with false by lia; reflexivity|].
  destruct (b >=? sz) eqn:E2; [replace (b <? sz) with false by lia; reflexivity|].
  replace (b <? sz) with true by lia. cbn [andb].
  unfold get_recv.
  assert (Ex : x = (hi - b) mod 65536) by (unfold b; lia).
  rewrite Ex at 1. rewrite slot_u16 by auto.
  destruct (memz (hi - b) rcv) eqn:Em.
  - apply Ibits; [lia|]. apply memz_In; auto.
  - destruct (bits m ((hi - b) mod sz)) eqn:Eb; auto.
    apply Ibits in Eb; [|lia]. apply memz_In in Eb. congruence.
Qed.

Lemma get_unstarted sz m0 x : new_log sz = Some m0 -> get m0 x = false.
Proof.
  intros Hn. pose proof (new_log_valid _ _ Hn) as H. rewrite (new_log_some sz H) in Hn.
  injection Hn as <-. unfold get, get_recv. cbn [rend rsize bits].
  destruct (_ >=? 32768); [reflexivity|]. destruct (_ >=? sz); reflexivity.
Qed.

(* main theorem for get: for every valid size, every arrival list and every 16-bit number,
   get answers the recount's question *)
Theorem get_exact sz m0 l x :
  new_log sz = Some m0 -> all_u16 l -> 0 <= x < 65536 ->
  get (add_all m0 l) x = spec_get sz (s_add_all None l) x.
Proof.
  intros Hn Hl Hx. pose proof (new_log_valid _ _ Hn) as H.
  destruct l as [|y l].
  - cbn. apply (get_unstarted sz); auto.
  - inversion Hl; subst.
    pose proof (inv_first sz y m0 H H2 Hn) as I0.
    destruct (inv_all sz H l _ _ H3 I0) as (s' & E & I').
    unfold add_all, s_add_all in *. cbn [fold_left s_add]. rewrite E.
    apply get_inv; auto.
Qed.

(* Prop-level reading of spec_get: x is the 16-bit image of a received number that lies
   within `size` behind the highest received *)
Lemma spec_get_true sz s x : 64 <= sz <= 32768 -> 0 <= x < 65536 ->
  (spec_get sz (Some s) x = true <->
   exists u, x = u16 u /\ s_hi s - sz < u <= s_hi s /\ In u (s_rcv s)).
Proof.
  intros Hsz Hx. unfold spec_get. cbv zeta. rewrite andb_true_iff. split.
  - intros [Hb Hm]. apply memz_In in Hm. exists (s_hi s - (s_hi s - x) mod 65536).
    split; [unfold u16; lia|]. split; [lia|auto].
  - intros (u & -> & Hw & Hin).
    assert (E : s_hi s - (s_hi s - u16 u) mod 65536 = u) by (unfold u16; lia).
    rewrite E. split; [unfold u16; lia|]. apply memz_In; auto.
Qed.

Corollary get_true_iff sz m0 l x s :
  new_log sz = Some m0 -> all_u16 l -> 0 <= x < 65536 -> s_add_all None l = Some s ->
  (get (add_all m0 l) x = true <->
   exists u, x = u16 u /\ s_hi s - sz < u <= s_hi s /\ In u (s_rcv s)).
Proof.
  intros Hn Hl Hx Hs. rewrite (get_exact sz m0 l x Hn Hl Hx), Hs.
  apply spec_get_true; auto. apply valid_size_range. eapply new_log_valid; eauto.
Qed.

(* get and missingSeqNumbers never contradict each other: a number reported missing is not
   reported received *)
Corollary missing_not_get sz m0 l skip x :
  new_log sz = Some m0 -> all_u16 l -> 0 <= skip < 65536 ->
  In x (missing (add_all m0 l) skip) -> get (add_all m0 l) x = false.
Proof.
  intros Hn Hl Hk Hin.
  pose proof (valid_size_range _ (new_log_valid _ _ Hn)) as Hsz.
  destruct (s_add_all None l) as [s|] eqn:Es.
  - destruct (requested_sound sz m0 l skip s Hn Hl Hk Es x Hin) as (u & -> & (H1 & H2 & H3 & H4)).
    destruct (get (add_all m0 l) (u16 u)) eqn:Eg; auto.
    apply (get_true_iff sz m0 l (u16 u) s Hn Hl (u16_range u) Es) in Eg as (u' & Eu & Hw & Hin').
    assert (u = u') by (unfold u16 in Eu; lia). subst. contradiction.
  - rewrite (missing_exact sz m0 l skip Hn Hl Hk), Es in Hin. destruct Hin.
Qed.
