(* Refutation of C18 on the code before the F20 fix (Clear(true) keeps
   playoutReady). *)
From IV Require Import Base.Word Model.PriorityQueue Model.JitterBuffer Model.JitterBufferUnfixed
  Check.C18Check.

(* the witness of findings/C18/clear-reset-keeps-ready.json: after Clear(true)
   the first packet buffered (500) must fix the playout head; the unfixed code
   leaves it at 11 and the specification oracle rejects the history with the
   code F_head = 11 *)
Definition f20_ops : list op := [OPush 10 100; OPop; OClear true; OPush 500 5000; OHead].

Lemma f20_head_wrong :
  map fst (cjb_run_f20 1 f20_ops) = [RUnit; RPkt 0 10 100; RUnit; RUnit; RHead 11] /\
  jb_spec_code (1, f20_ops, cjb_run_f20 1 f20_ops) = F_head /\
  map fst (cjb_run 1 f20_ops) = [RUnit; RPkt 0 10 100; RUnit; RUnit; RHead 500].
Proof. vm_compute. repeat split; reflexivity. Qed.

(* ... and playback never recovers: after Clear(true) fifty consecutive packets
   500..549 are pushed (playback restarts, minimum count 50) and Pop() fails
   although the first packet buffered is there; the fixed code returns it *)
Definition f20_ops_long : list op := [OPush 10 100; OPop; OClear true] ++ pushes 500 50 ++ [OPop].

Lemma f20_pop_fails :
  last (map fst (cjb_run_f20 1 f20_ops_long)) RNil = RErr ErrNotFound /\
  jb_spec_code (1, f20_ops_long, cjb_run_f20 1 f20_ops_long) = F_lost /\
  last (map fst (cjb_run 1 f20_ops_long)) RNil = RPkt 1 500 5000.
Proof. vm_compute. repeat split; reflexivity. Qed.
