(* C06 deepening, interceptor glue: consequences of the table theorem
   ReceiverInterceptorProofs.tick_reports for several SSRCs, Unbind / rebind
   freshness and sender reports for an SSRC that is not bound.  Everything is
   phrased on [trackh s] (clock rate and event history of SSRC s), which by
   tick_reports determines the report written for s at every tick. *)
From IV Require Import Base.Word Base.KMap Model.SenderStream Model.ReceiverStream Proofs.ReceiverInterceptorProofs.

(* does the operation concern SSRC s?  (ticks concern every stream) *)
Definition concerns (s : Z) (op : riop) : bool :=
  match op with
  | RIBind s' _ | RIUnbind s' | RIRtp s' _ _ _ | RISr s' _ _ => s' =? s
  | RITick _ => true
  end.

Lemma trackh_other s cur op : concerns s op = false -> trackh s cur op = cur.
Proof. destruct op; cbn [concerns trackh]; intros H; try rewrite H; try reflexivity; discriminate. Qed.

(* SEVERAL SSRCs: the history of s - hence every report for s - depends only on the
   operations that concern s (its binds, unbinds, packets, sender reports) and the ticks *)
Lemma track_filter s : forall ops cur,
  fold_left (trackh s) ops cur = fold_left (trackh s) (filter (concerns s) ops) cur.
Proof.
  induction ops as [|op ops IH]; intros cur; [reflexivity|].
  cbn [fold_left filter]. destruct (concerns s op) eqn:E.
  - cbn [fold_left]. apply IH.
  - rewrite trackh_other by exact E. apply IH.
Qed.

(* REBIND FRESHNESS: after BindRemoteStream for s the history of s starts empty, whatever
   happened before (an earlier stream of the same SSRC, unbound or not) *)
Lemma track_rebind s r pre post :
  fold_left (trackh s) (pre ++ RIBind s r :: post) None = fold_left (trackh s) (RIBind s r :: post) None.
Proof.
  rewrite fold_left_app. cbn [fold_left trackh]. rewrite Z.eqb_refl. reflexivity.
Qed.

(* UNBIND: no history, so no report, until the next bind of s *)
Lemma track_unbound s : forall post, Forall (fun op => match op with RIBind s' _ => s' <> s | _ => True end) post ->
  fold_left (trackh s) post None = None.
Proof.
  induction post as [|op post IH]; intros HF; [reflexivity|].
  inversion HF as [|x l Hx Htl]; subst. cbn [fold_left].
  replace (trackh s None op) with (@None (Z * list rop)); [apply IH; exact Htl|].
  destruct op as [s' r|s'|s' now seq ts|s' now ntp|now]; cbn [trackh]; try (destruct (s' =? s) eqn:E); try reflexivity.
  apply Z.eqb_eq in E. contradiction.
Qed.

(* SENDER REPORT (or RTP packet) FOR AN SSRC THAT IS NOT BOUND: no effect on any stream *)
Lemma track_sr_unbound u now ntp pre post s :
  fold_left (trackh u) pre None = None ->
  fold_left (trackh s) (pre ++ RISr u now ntp :: post) None = fold_left (trackh s) (pre ++ post) None.
Proof.
  intros Hu. rewrite !fold_left_app. cbn [fold_left trackh].
  destruct (u =? s) eqn:E; [|reflexivity].
  apply Z.eqb_eq in E. subst u. rewrite Hu. reflexivity.
Qed.

Section Reports.
  Variable J : Type.
  Variable j0 : J.
  Variable jstep : J -> Z -> Z -> Z -> J.
  Variable jout : J -> Z.
  Variable dk : Z -> Z.

  Notation tick_out ops now := (snd (ri_step J j0 jstep jout dk (ri_final J j0 jstep jout dk [] ops) (RITick now))).

  (* two operation lists that give SSRC s the same history give it the same reports *)
  Lemma same_track_same_reports s ops1 ops2 now rep :
    fold_left (trackh s) ops1 None = fold_left (trackh s) ops2 None ->
    In (s, rep) (tick_out ops1 now) <-> In (s, rep) (tick_out ops2 now).
  Proof. intros H. rewrite !tick_reports, H. reflexivity. Qed.

  Theorem streams_independent s ops now rep :
    In (s, rep) (tick_out ops now) <-> In (s, rep) (tick_out (filter (concerns s) ops) now).
  Proof. apply same_track_same_reports. apply track_filter. Qed.

  Theorem rebind_fresh s r pre post now rep :
    In (s, rep) (tick_out (pre ++ RIBind s r :: post) now) <-> In (s, rep) (tick_out (RIBind s r :: post) now).
  Proof. apply same_track_same_reports. apply track_rebind. Qed.

  Theorem unbound_not_reported s pre post now rep :
    Forall (fun op => match op with RIBind s' _ => s' <> s | _ => True end) post ->
    ~ In (s, rep) (tick_out (pre ++ RIUnbind s :: post) now).
  Proof.
    intros HF H. apply tick_reports in H. destruct H as (rate & h & Hf & _).
    rewrite fold_left_app in Hf. cbn [fold_left trackh] in Hf. rewrite Z.eqb_refl in Hf.
    rewrite track_unbound in Hf by exact HF. discriminate.
  Qed.

  Theorem sr_for_unbound_ssrc_ignored u tnow ntp pre post now s rep :
    fold_left (trackh u) pre None = None ->
    In (s, rep) (tick_out (pre ++ RISr u tnow ntp :: post) now) <-> In (s, rep) (tick_out (pre ++ post) now).
  Proof. intros Hu. apply same_track_same_reports. apply track_sr_unbound. exact Hu. Qed.
End Reports.
