(* C09 round trip, TWCC, recorder level: every packet of every
   BuildFeedbackPacket of every Record/Build history of the C05 recorder model
   (Model/TwccRecorder.v) is a feedback built by newFeedback + accepted
   addReceived calls, so Proofs/FbRoundTrip.v applies to it. *)
From IV Require Import Base.Word Model.FbAdapter Spec.FbSpec.
From IV Require Import Model.TwccChunk Model.ArrivalMap Model.TwccRecorder Proofs.TwccChunkProofs Proofs.TwccFeedbackProofs
  Proofs.FbRoundTrip.
From Coq Require Import ZifyBool.
Ltac Zify.zify_post_hook ::= Z.div_mod_to_equations.

(* a packet made by getRTCP from a feedback that was fed (s0, t0) first and then tr, all accepted *)
Definition builder_pkt (p : pkt) : Prop :=
  exists sender media fbc b0 s0 t0 tr f,
    0 <= b0 < 65536 /\ 0 <= t0 /\
    Forall (fun e : Z * Z => 0 <= fst e < 65536) ((s0, t0) :: tr) /\
    fb_adds (fb_new b0 t0) ((s0, t0) :: tr) = Some f /\
    p = fb_get_rtcp sender media fbc f.

Lemma ent_first_some (q : Z * Z -> bool) l e : ent_first q l = Some e -> q e = true /\ In e l.
Proof.
  induction l as [|x l IH]; cbn [ent_first]; [discriminate|].
  destruct (q x) eqn:E.
  - intros H; inversion H; subst. split; [exact E|now left].
  - intros H. destruct (IH H). split; [assumption|now right].
Qed.

Lemma mb_walk_trace : forall ents fb next fb' next',
  mb_walk ents fb next = (fb', next') ->
  exists tr, fb_adds fb tr = Some fb' /\ Forall (fun e : Z * Z => 0 <= fst e < 65536) tr.
Proof.
  induction ents as [|[seq t] tl IH]; intros fb next fb' next' H; cbn [mb_walk] in H.
  - inversion H; subst. exists []. split; [reflexivity|constructor].
  - destruct (t >=? 0).
    + destruct (fb_add_received fb (u16 seq) t) as [fb1|] eqn:E.
      * destruct (IH _ _ _ _ H) as (tr & Htr & Hr). exists ((u16 seq, t) :: tr). split.
        -- cbn [fb_adds]. rewrite E. exact Htr.
        -- constructor; [cbn [fst]; apply u16_range|exact Hr].
      * inversion H; subst. exists []. split; [reflexivity|constructor].
    + apply (IH _ _ _ _ H).
Qed.

Lemma maybe_build_trace sender r b e fb nx c :
  rec_maybe_build sender r b e = (Some fb, nx, c) ->
  exists b0 s0 t0 tr, 0 <= b0 < 65536 /\ 0 <= t0 /\
    Forall (fun e : Z * Z => 0 <= fst e < 65536) ((s0, t0) :: tr) /\
    fb_adds (fb_new b0 t0) ((s0, t0) :: tr) = Some fb.
Proof.
  unfold rec_maybe_build. cbv zeta.
  destruct (ent_first _ _) as [[seq t]|] eqn:Ef; [|discriminate].
  apply ent_first_some in Ef as [Ht _]. cbn [snd] in Ht.
  destruct (fb_add_received _ (u16 seq) t) as [fb1|] eqn:E1; [|discriminate].
  destruct (mb_walk _ fb1 (seq + 1)) as [fb2 next] eqn:Ew. intros H. inversion H; subst.
  destruct (mb_walk_trace _ _ _ _ _ Ew) as (tr & Htr & Hr).
  exists (u16 (Z.max b (seq - 32766))), (u16 seq), t, tr.
  split; [apply u16_range|]. split; [lia|]. split.
  - constructor; [cbn [fst]; apply u16_range|exact Hr].
  - cbn [fb_adds]. rewrite E1. exact Htr.
Qed.

Lemma build_loop_pkts : forall fuel sender r endSN acc r' ps,
  rec_build_loop fuel sender r endSN acc = (r', ps) ->
  Forall builder_pkt acc -> Forall builder_pkt ps.
Proof.
  induction fuel as [|k IH]; intros sender r endSN acc r' ps H Hacc; cbn [rec_build_loop] in H.
  - inversion H; subst. exact Hacc.
  - destruct (r_start r) as [s|]; [|inversion H; subst; exact Hacc].
    destruct (s <? endSN); [|inversion H; subst; exact Hacc].
    destruct (rec_maybe_build sender r s endSN) as [[ofb start'] fbc'] eqn:Em.
    destruct ofb as [fb|]; [|inversion H; subst; exact Hacc].
    apply (IH _ _ _ _ _ _ H). apply Forall_app. split; [exact Hacc|]. constructor; [|constructor].
    destruct (maybe_build_trace _ _ _ _ _ _ _ Em) as (b0 & s0 & t0 & tr & H1 & H2 & H3 & H4).
    exists sender, (r_media r), (r_fb r), b0, s0, t0, tr, fb. auto.
Qed.

Lemma build_pkts sender r r' ps : rec_build sender r = (r', ps) -> Forall builder_pkt ps.
Proof.
  unfold rec_build. destruct (r_start r); [|intros H; inversion H; constructor].
  destruct (rec_build_loop _ _ _ _ _) as [r1 ps1] eqn:E. intros H; inversion H; subst.
  apply (build_loop_pkts _ _ _ _ _ _ _ E). constructor.
Qed.

Theorem run_builder_pkts sender : forall ops r, Forall (Forall builder_pkt) (rec_run sender r ops).
Proof.
  induction ops as [|o ops IH]; intros r; cbn [rec_run]; [constructor|].
  destruct o as [ssrc seq t|]; [apply IH|].
  destruct (rec_build sender r) as [r' ps] eqn:E. constructor; [apply (build_pkts _ _ _ _ E)|apply IH].
Qed.

(* the round trip for a builder packet whose first arrival fits the 24-bit reference time *)
Theorem roundtrip_twcc_builder_pkt p h :
  builder_pkt p ->
  exists t0 tr,
    tr <> [] /\ snd (hd (0, 0) tr) = t0 /\
    (t0 < 16777216 * 64000 ->
     exists acks,
       on_twcc h (p_base p) (p_ref p) (map chunk_of_wire (p_chunks p)) (map snd (p_deltas p)) = Some acks /\
       Forall (fun e : Z * Z =>
         let '(s, t) := e in
         exists k T, (k < length acks)%nat /\ (p_base p + Z.of_nat k) mod 65536 = s /\
           Z.abs (T - t * 1000) <= 125000 /\
           nth k acks zero_ack = match hget h 0 s with Some a => set_arr a T | None => zero_ack end) tr).
Proof.
  intros (sender & media & fbc & b0 & s0 & t0 & tr & f & Hb & Ht & Hr & Ha & ->).
  exists t0, ((s0, t0) :: tr). split; [discriminate|]. split; [reflexivity|]. intros Hlt.
  apply (roundtrip_twcc b0 t0 ((s0, t0) :: tr) f sender media fbc h Hb); [|exact Hr|exact Ha].
  rewrite Z.quot_div_nonneg by lia. lia.
Qed.

(* every packet of every build of every Record/Build history *)
Theorem roundtrip_twcc_recorder sender ops ps p h :
  In ps (rec_run sender rec_init ops) -> In p ps ->
  exists t0 tr,
    tr <> [] /\ snd (hd (0, 0) tr) = t0 /\
    (t0 < 16777216 * 64000 ->
     exists acks,
       on_twcc h (p_base p) (p_ref p) (map chunk_of_wire (p_chunks p)) (map snd (p_deltas p)) = Some acks /\
       Forall (fun e : Z * Z =>
         let '(s, t) := e in
         exists k T, (k < length acks)%nat /\ (p_base p + Z.of_nat k) mod 65536 = s /\
           Z.abs (T - t * 1000) <= 125000 /\
           nth k acks zero_ack = match hget h 0 s with Some a => set_arr a T | None => zero_ack end) tr).
Proof.
  intros Hps Hp. apply roundtrip_twcc_builder_pkt.
  pose proof (run_builder_pkts sender ops rec_init) as H.
  rewrite Forall_forall in H. specialize (H _ Hps). rewrite Forall_forall in H. apply H, Hp.
Qed.
