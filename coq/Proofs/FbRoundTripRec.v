(* C09 round trip, TWCC, recorder level: every packet of every
   BuildFeedbackPacket of every Record/Build history of the C05 recorder model
   (Model/TwccRecorder.v) is a feedback built by newFeedback + accepted
   addReceived calls, so Proofs/FbRoundTrip.v applies to it. *)
From IV Require Import Base.Word Model.FbAdapter Spec.FbSpec.
From IV Require Import Model.TwccChunk Model.ArrivalMap Model.TwccRecorder Proofs.TwccChunkProofs Proofs.TwccFeedbackProofs
  Proofs.FbRoundTrip.
From Coq Require Import ZifyBool.
Ltac Zify.zify_post_hook ::= Z.div_mod_to_equations.

(* a packet made by getRTCP from a feedback that was fed (s0, t0) first and then tr, all accepted *)
(* (sequence number, arrival time) is a received entry of the arrival map *)
Definition map_arrival (m : amap) (e : Z * Z) : Prop :=
  exists seq, In (seq, snd e) (m_ent m) /\ fst e = u16 seq /\ 0 <= snd e.

Definition builder_pkt_of (m : amap) (p : pkt) : Prop :=
  exists sender media fbc b0 s0 t0 tr f,
    0 <= b0 < 65536 /\ 0 <= t0 /\
    Forall (fun e : Z * Z => 0 <= fst e < 65536) ((s0, t0) :: tr) /\
    Forall (map_arrival m) ((s0, t0) :: tr) /\
    fb_adds (fb_new b0 t0) ((s0, t0) :: tr) = Some f /\
    p = fb_get_rtcp sender media fbc f.

Definition builder_pkt (p : pkt) : Prop := exists m, builder_pkt_of m p.

Lemma ent_first_some (q : Z * Z -> bool) l e : ent_first q l = Some e -> q e = true /\ In e l.
Proof.
  induction l as [|x l IH]; cbn [ent_first]; [discriminate|].
  destruct (q x) eqn:E.
  - intros H; inversion H; subst. split; [exact E|now left].
  - intros H. destruct (IH H). split; [assumption|now right].
Qed.

Lemma mb_walk_trace : forall ents fb next fb' next',
  mb_walk ents fb next = (fb', next') ->
  exists tr, fb_adds fb tr = Some fb' /\ Forall (fun e : Z * Z => 0 <= fst e < 65536) tr /\
    Forall (fun e : Z * Z => exists seq, In (seq, snd e) ents /\ fst e = u16 seq /\ 0 <= snd e) tr.
Proof.
  induction ents as [|[seq t] tl IH]; intros fb next fb' next' H; cbn [mb_walk] in H.
  - inversion H; subst. exists []. split; [reflexivity|split; constructor].
  - assert (Hw : forall tr, Forall (fun e : Z * Z => exists seq0, In (seq0, snd e) tl /\ fst e = u16 seq0 /\ 0 <= snd e) tr ->
                            Forall (fun e : Z * Z => exists seq0, In (seq0, snd e) ((seq, t) :: tl) /\ fst e = u16 seq0 /\ 0 <= snd e) tr).
    { intros tr0 H0. eapply Forall_impl; [|exact H0]. cbn. intros e (q & Hq & Hq'). exists q. split; [now right|exact Hq']. }
    destruct (t >=? 0) eqn:Et.
    + destruct (fb_add_received fb (u16 seq) t) as [fb1|] eqn:E.
      * destruct (IH _ _ _ _ H) as (tr & Htr & Hr & Hm). exists ((u16 seq, t) :: tr). split; [|split].
        -- cbn [fb_adds]. rewrite E. exact Htr.
        -- constructor; [cbn [fst]; apply u16_range|exact Hr].
        -- constructor; [exists seq; cbn [fst snd]; split; [now left|split; [reflexivity|lia]]|apply Hw, Hm].
      * inversion H; subst. exists []. split; [reflexivity|split; constructor].
    + destruct (IH _ _ _ _ H) as (tr & Htr & Hr & Hm). exists tr. split; [exact Htr|]. split; [exact Hr|apply Hw, Hm].
Qed.

Lemma maybe_build_trace sender r b e fb nx c :
  rec_maybe_build sender r b e = (Some fb, nx, c) ->
  exists b0 s0 t0 tr, 0 <= b0 < 65536 /\ 0 <= t0 /\
    Forall (fun e : Z * Z => 0 <= fst e < 65536) ((s0, t0) :: tr) /\
    Forall (map_arrival (r_map r)) ((s0, t0) :: tr) /\
    fb_adds (fb_new b0 t0) ((s0, t0) :: tr) = Some fb.
Proof.
  unfold rec_maybe_build. cbv zeta.
  destruct (ent_first _ _) as [[seq t]|] eqn:Ef; [|discriminate].
  apply ent_first_some in Ef as [Ht Hin]. cbn [snd] in Ht. apply filter_In in Hin as [Hin _].
  destruct (fb_add_received _ (u16 seq) t) as [fb1|] eqn:E1; [|discriminate].
  destruct (mb_walk _ fb1 (seq + 1)) as [fb2 next] eqn:Ew. intros H. inversion H; subst.
  destruct (mb_walk_trace _ _ _ _ _ Ew) as (tr & Htr & Hr & Hm).
  exists (u16 (Z.max b (seq - 32766))), (u16 seq), t, tr.
  split; [apply u16_range|]. split; [lia|]. split; [|split].
  - constructor; [cbn [fst]; apply u16_range|exact Hr].
  - constructor; [exists seq; cbn [fst snd]; split; [exact Hin|split; [reflexivity|lia]]|].
    eapply Forall_impl; [|exact Hm]. cbn. intros e0 (q & Hq & Hq'). exists q. split; [|exact Hq'].
    unfold ent_from in Hq. apply filter_In in Hq as [Hq _]. apply filter_In in Hq as [Hq _]. exact Hq.
  - cbn [fb_adds]. rewrite E1. exact Htr.
Qed.

Lemma build_loop_pkts : forall fuel sender r endSN acc r' ps,
  rec_build_loop fuel sender r endSN acc = (r', ps) ->
  Forall (builder_pkt_of (r_map r)) acc -> Forall (builder_pkt_of (r_map r)) ps.
Proof.
  induction fuel as [|k IH]; intros sender r endSN acc r' ps H Hacc; cbn [rec_build_loop] in H.
  - inversion H; subst. exact Hacc.
  - destruct (r_start r) as [s|]; [|inversion H; subst; exact Hacc].
    destruct (s <? endSN); [|inversion H; subst; exact Hacc].
    destruct (rec_maybe_build sender r s endSN) as [[ofb start'] fbc'] eqn:Em.
    destruct ofb as [fb|]; [|inversion H; subst; exact Hacc].
    apply (IH _ _ _ _ _ _ H). cbn [r_map]. apply Forall_app. split; [exact Hacc|]. constructor; [|constructor].
    destruct (maybe_build_trace _ _ _ _ _ _ _ Em) as (b0 & s0 & t0 & tr & H1 & H2 & H3 & H4 & H5).
    exists sender, (r_media r), (r_fb r), b0, s0, t0, tr, fb. auto 10.
Qed.

Lemma build_pkts sender r r' ps : rec_build sender r = (r', ps) -> Forall (builder_pkt_of (r_map r)) ps.
Proof.
  unfold rec_build. destruct (r_start r); [|intros H; inversion H; constructor].
  destruct (rec_build_loop _ _ _ _ _) as [r1 ps1] eqn:E. intros H; inversion H; subst.
  apply (build_loop_pkts _ _ _ _ _ _ _ E). constructor.
Qed.

Theorem run_builder_pkts sender : forall ops r, Forall (Forall builder_pkt) (rec_run sender r ops).
Proof.
  induction ops as [|o ops IH]; intros r; cbn [rec_run]; [constructor|].
  destruct o as [ssrc seq t|]; [apply IH|].
  destruct (rec_build sender r) as [r' ps] eqn:E. constructor; [|apply IH].
  eapply Forall_impl; [|apply (build_pkts _ _ _ _ E)]. intros p Hp. exists (r_map r). exact Hp.
Qed.

(* the round trip for a builder packet whose first arrival fits the 24-bit reference time *)
Theorem roundtrip_twcc_builder_pkt p h :
  builder_pkt p ->
  exists t0 tr,
    tr <> [] /\ snd (hd (0, 0) tr) = t0 /\
    (t0 < 16777216 * 64000 ->
     exists acks,
       on_twcc h (p_base p) (p_ref p) (map chunk_of_wire (p_chunks p)) (map snd (p_deltas p)) = Some acks /\
       Forall (fun e : Z * Z =>
         let '(s, t) := e in
         exists k T, (k < length acks)%nat /\ (p_base p + Z.of_nat k) mod 65536 = s /\
           Z.abs (T - t * 1000) <= 125000 /\
           nth k acks zero_ack = match hget h 0 s with Some a => set_arr a T | None => zero_ack end) tr).
Proof.
  intros (m & sender & media & fbc & b0 & s0 & t0 & tr & f & Hb & Ht & Hr & _ & Ha & ->).
  exists t0, ((s0, t0) :: tr). split; [discriminate|]. split; [reflexivity|]. intros Hlt.
  apply (roundtrip_twcc b0 t0 ((s0, t0) :: tr) f sender media fbc h Hb); [|exact Hr|exact Ha].
  rewrite Z.quot_div_nonneg by lia. lia.
Qed.

(* every packet of every build of every Record/Build history *)
Theorem roundtrip_twcc_recorder sender ops ps p h :
  In ps (rec_run sender rec_init ops) -> In p ps ->
  exists t0 tr,
    tr <> [] /\ snd (hd (0, 0) tr) = t0 /\
    (t0 < 16777216 * 64000 ->
     exists acks,
       on_twcc h (p_base p) (p_ref p) (map chunk_of_wire (p_chunks p)) (map snd (p_deltas p)) = Some acks /\
       Forall (fun e : Z * Z =>
         let '(s, t) := e in
         exists k T, (k < length acks)%nat /\ (p_base p + Z.of_nat k) mod 65536 = s /\
           Z.abs (T - t * 1000) <= 125000 /\
           nth k acks zero_ack = match hget h 0 s with Some a => set_arr a T | None => zero_ack end) tr).
Proof.
  intros Hps Hp. apply roundtrip_twcc_builder_pkt.
  pose proof (run_builder_pkts sender ops rec_init) as H.
  rewrite Forall_forall in H. specialize (H _ Hps). rewrite Forall_forall in H. apply H, Hp.
Qed.

(* the recorder states in which the builds of a history run *)
Fixpoint rec_states (sender : Z) (r : recorder) (ops : list op) : list recorder :=
  match ops with
  | [] => []
  | Rec ssrc seq t :: tl => rec_states sender (rec_record r ssrc seq t) tl
  | Build :: tl => r :: rec_states sender (fst (rec_build sender r)) tl
  end.

Lemma run_builder_pkts_of sender : forall ops r,
  Forall2 (fun st ps => Forall (builder_pkt_of (r_map st)) ps) (rec_states sender r ops) (rec_run sender r ops).
Proof.
  induction ops as [|o ops IH]; intros r; cbn [rec_run rec_states]; [constructor|].
  destruct o as [ssrc seq t|]; [apply IH|].
  destruct (rec_build sender r) as [r' ps] eqn:E. cbn [fst]. constructor; [apply (build_pkts _ _ _ _ E)|apply IH].
Qed.

Lemma Forall2_nth {A B} (R : A -> B -> Prop) l1 l2 da db i :
  Forall2 R l1 l2 -> (i < length l2)%nat -> R (nth i l1 da) (nth i l2 db).
Proof.
  intros H. revert i. induction H as [|a b l1 l2 Hab H IH]; intros i Hi; [cbn in Hi; lia|].
  destruct i as [|i]; [exact Hab|]. cbn [nth]. apply IH. cbn [length] in Hi. lia.
Qed.

(* every packet of the i-th build: the arrivals it round-trips are received entries of the
   recorder's arrival map at that build *)
Theorem roundtrip_twcc_recorder_map sender ops i p h :
  (i < length (rec_run sender rec_init ops))%nat ->
  In p (nth i (rec_run sender rec_init ops) []) ->
  let m := r_map (nth i (rec_states sender rec_init ops) rec_init) in
  exists t0 tr,
    tr <> [] /\ snd (hd (0, 0) tr) = t0 /\ Forall (map_arrival m) tr /\
    (t0 < 16777216 * 64000 ->
     exists acks,
       on_twcc h (p_base p) (p_ref p) (map chunk_of_wire (p_chunks p)) (map snd (p_deltas p)) = Some acks /\
       Forall (fun e : Z * Z =>
         let '(s, t) := e in
         exists k T, (k < length acks)%nat /\ (p_base p + Z.of_nat k) mod 65536 = s /\
           Z.abs (T - t * 1000) <= 125000 /\
           nth k acks zero_ack = match hget h 0 s with Some a => set_arr a T | None => zero_ack end) tr).
Proof.
  intros Hi Hp m.
  pose proof (Forall2_nth _ _ _ rec_init [] i (run_builder_pkts_of sender ops rec_init) Hi) as H.
  cbv beta in H. rewrite Forall_forall in H. specialize (H _ Hp). fold m in H.
  destruct H as (sd & media & fbc & b0 & s0 & t0 & tr & f & Hb & Ht & Hr & Hm & Ha & ->).
  exists t0, ((s0, t0) :: tr). split; [discriminate|]. split; [reflexivity|]. split; [exact Hm|]. intros Hlt.
  apply (roundtrip_twcc b0 t0 ((s0, t0) :: tr) f sd media fbc h Hb); [|exact Hr|exact Ha].
  rewrite Z.quot_div_nonneg by lia. lia.
Qed.
