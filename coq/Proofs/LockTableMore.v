(* C10, deepening round: what the two new lockscan rules mean on the abstract machine.

   1. SPLIT READ-MODIFY-WRITE.  The machine of LockTableProofs.v lets a thread release a lock
      only when it is outside every access (SRelease needs [active s t = None]).  A
      read-modify-write whose read and write-back sit in two critical sections of the same
      mutex M is an access during which M is dropped and taken again.  The generalised machine
      [gstep] below allows exactly that: while a thread is inside a row it may release (and
      re-acquire) every lock the row does NOT name.  lockscan's rule emits the split rmw as one
      KRmw row naming only the locks held continuously from the read to the write.
      [glockset_drf] / [grmw_not_lost]: on the generalised machine a table accepted by [drf_ok]
      still has no data race and loses no increment - so checking that row with the unchanged
      [drf_ok] is sound.  [step_gstep]: the generalised machine contains the old one.
      [split_rows_admit_lost_update]: the table the analyser printed BEFORE the rule (a read row
      under M, a write row under M) is accepted by [drf_ok], and the machine loses an update.
      [drf_ok_rejects_rmw_without_exclusive_lock]: the row the rule prints is rejected unless
      something other than M protects it.

   2. USE AFTER RELEASE.  The reference-count protocol is a read/write lock L = T#owner:
      Retain / creation = SAcquire L LR, Release = SRelease, the recycler (releaser of the last
      count) = SAcquire L LW, enabled only when nobody holds L.
      [reference_excludes_recycler]: while a thread holds a reference no other thread is inside a
      row that names (L, LW).  [row_needs_its_locks]: a row naming L cannot begin in a thread that
      does not hold L - the annotation is honoured only between Retain and Release; hence a use
      after Release is a row WITHOUT L, and [drf_ok_rejects_unlocked_read_of_locked_write] says
      that [drf_ok] rejects every table containing it next to the recycler's write.  *)
From Coq Require Import ZArith List Bool Lia Arith.
From IV Require Import Model.LockTable Proofs.LockTableProofs.
Import ListNotations.
Open Scope Z_scope.

Section GMachine.
Variable table : list row.
Variable creator : nat.
Variable cthread : Z -> nat.
Variable mem0 : Z -> Z.

Local Notation row_ok := (row_ok table creator cthread).
Local Notation Inv := (Inv table creator cthread).

(* a thread inside row r may release lock l iff r does not name l *)
Definition may_release (s : state) (t : nat) (l : Z) : Prop :=
  forall r, active s t = Some r -> forall m, ~ In (l, m) (r_locks r).

Inductive gstep : state -> state -> Prop :=
| GAcquire s t l m :
    (m = LW -> holders s l = []) ->
    (m = LR -> forall t', ~ In (t', LW) (holders s l)) ->
    gstep s (mkState (updZ (holders s) l ((t, m) :: holders s l)) (active s) (published s) (spawned s)
                     (mem s) (snap s) (incs s))
| GRelease s t l m :
    In (t, m) (holders s l) -> may_release s t l ->
    gstep s (mkState (updZ (holders s) l (remove pair_eq_dec (t, m) (holders s l))) (active s) (published s)
                     (spawned s) (mem s) (snap s) (incs s))
| GBegin s t r :
    active s t = None -> row_ok s t r ->
    gstep s (mkState (holders s) (upd (active s) t (Some r)) (published s) (spawned s)
                     (mem s) (upd (snap s) t (mem s (r_loc r))) (incs s))
| GEnd s t r v :
    active s t = Some r ->
    gstep s (mkState (holders s) (upd (active s) t None) (published s) (spawned s)
                     (end_mem s t r v) (snap s) (end_incs s r))
| GPublish s :
    published s = false -> active s creator = None ->
    gstep s (mkState (holders s) (active s) true (spawned s) (mem s) (snap s) (incs s))
| GSpawn s k :
    spawned s k = false ->
    (forall t r, active s t = Some r -> ~ In k (r_before r)) ->
    gstep s (mkState (holders s) (active s) (published s) (updZ (spawned s) k true) (mem s) (snap s) (incs s)).

Inductive greachable : state -> Prop :=
| GR0 : greachable (init mem0)
| GRS s s' : greachable s -> gstep s s' -> greachable s'.

(* the generalised machine contains the machine of LockTableProofs.v *)
Lemma step_gstep s s' : step table creator cthread s s' -> gstep s s'.
Proof.
  intros H. destruct H.
  - apply GAcquire; auto.
  - apply GRelease; auto. intros r Ha. congruence.
  - apply GBegin; auto.
  - apply GEnd; auto.
  - apply GPublish; auto.
  - apply GSpawn; auto.
Qed.

Lemma reachable_greachable s : reachable table creator cthread mem0 s -> greachable s.
Proof. induction 1; [apply GR0 | eapply GRS; eauto using step_gstep]. Qed.

Lemma ginv_step s s' : Inv s -> gstep s s' -> Inv s'.
Proof.
  intros [Hex Hact] Hs. destruct Hs.
  - (* acquire *)
    split; cbn.
    + intros l0 t1 t2 m1 m2 H1 H2 Hne. unfold updZ in *.
      destruct (Z.eqb_spec l0 l) as [->|]; [|eauto].
      destruct m.
      * assert (Hn : forall t' m', In (t', m') (holders s l) -> m' = LR).
        { intros t' m' Hin. destruct m'; auto. exfalso. eapply (H0 eq_refl); eauto. }
        destruct H1 as [E1|H1], H2 as [E2|H2].
        -- inversion E1; inversion E2; subst. congruence.
        -- inversion E1; subst. split; auto. eapply Hn; eauto.
        -- inversion E2; subst. split; auto. eapply Hn; eauto.
        -- eauto.
      * rewrite (H eq_refl) in *. destruct H1 as [E1|[]], H2 as [E2|[]].
        inversion E1; inversion E2; subst. congruence.
    + intros t0 r Ha. destruct (Hact _ _ Ha) as (Hi & Hl & Hc & Hb).
      split; [|split; [|split]]; auto.
      intros l0 m0 Hin. destruct (Hl _ _ Hin) as [m' [Hh Hm]]. exists m'. split; auto.
      cbn. unfold updZ. destruct (Z.eqb_spec l0 l) as [->|]; auto. now right.
  - (* release: possibly in the middle of an access, but never of a lock the access names *)
    split; cbn.
    + intros l0 t1 t2 m1 m2 H1 H2 Hne. unfold updZ in *.
      destruct (Z.eqb_spec l0 l) as [->|]; [|eauto].
      apply in_remove in H1. apply in_remove in H2. destruct H1, H2. eauto.
    + intros t0 r Ha. destruct (Hact _ _ Ha) as (Hi & Hl & Hc & Hb).
      split; [|split; [|split]]; auto.
      intros l0 m0 Hin. destruct (Hl _ _ Hin) as [m' [Hh Hm]]. exists m'. split; auto.
      cbn. unfold updZ. destruct (Z.eqb_spec l0 l) as [->|]; auto.
      apply in_in_remove; auto. intros E. inversion E; subst.
      exact (H0 _ Ha _ Hin).
  - (* begin *)
    split; cbn; [eauto|].
    intros t0 r0 Ha. unfold upd in Ha. destruct (Nat.eqb_spec t0 t) as [->|].
    + inversion Ha; subst. exact H0.
    + exact (Hact _ _ Ha).
  - (* end *)
    split; cbn; [eauto|].
    intros t0 r0 Ha. unfold upd in Ha. destruct (Nat.eqb_spec t0 t) as [->|]; [discriminate|].
    exact (Hact _ _ Ha).
  - (* publish *)
    split; cbn; [eauto|].
    intros t0 r0 Ha. exfalso.
    destruct (Hact _ _ Ha) as (_ & _ & Hc & _). unfold class_ok in Hc.
    destruct (r_class r0); try congruence.
    + destruct Hc as [_ ->]. congruence.
    + destruct Hc as [Hp _]. congruence.
  - (* spawn *)
    split; cbn; [eauto|].
    intros t0 r0 Ha. destruct (Hact _ _ Ha) as (Hi & Hl & Hc & Hb).
    split; [|split; [|split]]; auto.
    + unfold class_ok in *. cbn. destruct (r_class r0); auto.
      destruct Hc as (Hp & Hsp & Ht). split; [|split]; auto.
      unfold updZ. destruct (Z.eqb_spec k0 k); auto.
    + intros k0 Hk. cbn. unfold updZ. destruct (Z.eqb_spec k0 k) as [->|]; auto.
      exfalso. eapply H0; eauto.
Qed.

Lemma greachable_inv s : greachable s -> Inv s.
Proof. induction 1; [apply inv_init | eapply ginv_step; eauto]. Qed.

(* no data race on the generalised machine *)
Theorem glockset_drf :
  drf_ok table = true ->
  forall s, greachable s ->
  forall t1 t2 r1 r2, t1 <> t2 -> active s t1 = Some r1 -> active s t2 = Some r2 ->
  conflict r1 r2 = false.
Proof.
  intros Hok s Hr t1 t2 r1 r2 Hne A1 A2.
  pose proof (greachable_inv _ Hr) as HI.
  pose proof (inv_act _ _ _ _ HI _ _ A1) as O1. pose proof (inv_act _ _ _ _ HI _ _ A2) as O2.
  eapply pair_ok_excl; eauto.
  apply drf_ok_pair with (table := table); auto; [apply O1 | apply O2].
Qed.

(* increments are not lost on the generalised machine: in particular a read-modify-write during
   which the thread drops and re-takes locks the row does not name *)
Lemma gsnaps_step s s' :
  drf_ok table = true -> greachable s -> snaps_ok s -> gstep s s' -> snaps_ok s'.
Proof.
  intros Hok Hr Hs Hst. destruct Hst; unfold snaps_ok in *; cbn; eauto.
  - intros t0 r0 Ha K. unfold upd in *. destruct (Nat.eqb_spec t0 t) as [->|]; eauto.
    inversion Ha; subst. reflexivity.
  - intros t0 r0 Ha K. unfold upd in Ha. destruct (Nat.eqb_spec t0 t) as [->|]; [discriminate|].
    rewrite (Hs _ _ Ha K).
    assert (Hnw : is_write (r_kind r) = true -> r_loc r <> r_loc r0).
    { intros W E. pose proof (glockset_drf Hok _ Hr t0 t r0 r n Ha H) as C.
      rewrite (conflict_write_rmw r0 r K E W) in C. discriminate. }
    unfold end_mem. destruct (r_kind r) eqn:Kr; auto;
      rewrite updZ_other; auto; intros E; apply Hnw; auto.
Qed.

Lemma greachable_snaps s : drf_ok table = true -> greachable s -> snaps_ok s.
Proof.
  intros Hok. induction 1.
  - intros t r Ha. discriminate.
  - eapply gsnaps_step; eauto.
Qed.

Theorem grmw_not_lost :
  drf_ok table = true ->
  forall l, counter_loc table l = true ->
  forall s, greachable s -> mem s l = mem0 l + incs s l.
Proof.
  intros Hok l Hc s Hr. induction Hr as [|s s' Hr IH Hst]; [cbn; lia|].
  pose proof (greachable_snaps _ Hok Hr) as Hsn.
  pose proof (greachable_inv _ Hr) as HI.
  destruct Hst; cbn; auto.
  pose proof (inv_act _ _ _ _ HI _ _ H) as (Hin & _).
  unfold counter_loc in Hc. rewrite forallb_forall in Hc. specialize (Hc _ Hin).
  unfold end_mem, end_incs, updZ.
  destruct (Z.eqb_spec l (r_loc r)) as [E|NE].
  - subst l. rewrite Z.eqb_refl in Hc. cbn in Hc.
    destruct (r_kind r) eqn:K; cbn in Hc; try discriminate; cbn beta; rewrite ?Z.eqb_refl; auto.
    + rewrite (Hsn _ _ H K). lia.
    + lia.
  - apply Z.eqb_neq in NE. destruct (r_kind r); cbn beta; rewrite ?NE; auto.
Qed.

(* ---- the reference-count protocol as a read/write lock ---- *)

(* a row that names lock l can only begin / be in progress in a thread that holds l:
   the virtual lock is honoured only between Retain (acquire) and Release *)
Lemma row_needs_its_locks s t r l m :
  row_ok s t r -> In (l, m) (r_locks r) -> exists m', In (t, m') (holders s l).
Proof. intros (_ & Hl & _) Hin. destruct (Hl _ _ Hin) as [m' [Hh _]]. eauto. Qed.

(* while some thread holds a reference (the lock, in any mode) no OTHER thread is inside a row
   that needs the lock exclusively (the recycling writes of Release) *)
Theorem reference_excludes_recycler :
  forall s, greachable s ->
  forall l t1 m1 t2 r, In (t1, m1) (holders s l) -> t1 <> t2 ->
  active s t2 = Some r -> In (l, LW) (r_locks r) -> False.
Proof.
  intros s Hr l t1 m1 t2 r Hh Hne Ha Hin.
  pose proof (greachable_inv _ Hr) as HI.
  destruct (inv_act _ _ _ _ HI _ _ Ha) as (_ & Hl & _).
  destruct (Hl _ _ Hin) as [m' [Hh2 Hw]]. specialize (Hw eq_refl). subst m'.
  destruct (inv_excl _ _ _ _ HI _ _ _ _ _ Hh Hh2 Hne) as [_ E]. discriminate.
Qed.

End GMachine.

(* ---- what drf_ok does with the rows the two rules print ---- *)

Lemma drf_ok_false_of_bad_pair t r1 r2 :
  In r1 t -> In r2 t -> pair_ok r1 r2 = false -> drf_ok t = false.
Proof.
  intros H1 H2 Hp. destruct (drf_ok t) eqn:E; auto.
  rewrite (drf_ok_pair t r1 r2 E H1 H2) in Hp. discriminate.
Qed.

(* SPLIT-RMW: a read-modify-write row that any thread may execute and that holds no lock
   exclusively for its whole duration is rejected (it races with another instance of itself) *)
Theorem drf_ok_rejects_rmw_without_exclusive_lock t r :
  In r t -> r_kind r = KRmw -> r_class r = CAny ->
  (forall l m, In (l, m) (r_locks r) -> m = LR) ->
  drf_ok t = false.
Proof.
  intros Hin K C Hl. apply (drf_ok_false_of_bad_pair t r r Hin Hin).
  unfold pair_ok, conflict, same_single, is_setup, before_of. rewrite K, C, Z.eqb_refl. cbn.
  rewrite !orb_false_r.
  unfold share_lock. apply not_true_is_false. intros H.
  apply existsb_exists in H. destruct H as [[l1 m1] [H1 H]].
  apply existsb_exists in H. destruct H as [[l2 m2] [H2 H]]. cbn in H.
  apply andb_true_iff in H. destruct H as [_ H].
  rewrite (Hl _ _ H1), (Hl _ _ H2) in H. discriminate.
Qed.

(* USE-AFTER-RELEASE: a read without any lock, executable by any thread, next to a non-atomic
   write of the same location that any thread may execute, is rejected whatever locks the
   writer holds *)
Theorem drf_ok_rejects_unlocked_read_of_locked_write t rr rw :
  In rr t -> In rw t -> r_loc rr = r_loc rw ->
  r_kind rr = KRead -> r_locks rr = [] -> r_class rr = CAny ->
  (r_kind rw = KWrite \/ r_kind rw = KRmw) -> r_class rw = CAny ->
  drf_ok t = false.
Proof.
  intros Hr Hw L Kr Lr Cr Kw Cw. apply (drf_ok_false_of_bad_pair t rr rw Hr Hw).
  unfold pair_ok, conflict, share_lock, same_single, is_setup, before_of.
  rewrite Kr, Lr, Cr, Cw, L, Z.eqb_refl. destruct Kw as [-> | ->]; reflexivity.
Qed.

(* ---- why the split must be printed as ONE row ---- *)

(* The table as printed before the rule: the two halves of the split read-modify-write as a
   read row and a write row, each under the mutex 0 (plus an ordinary increment under the
   mutex).  drf_ok accepts it - every access is locked - and the machine loses an update:
   thread 1 reads 0 in its first critical section, thread 2 increments (value 1), thread 1
   writes back what it read plus one in its second critical section: two updates, value 1. *)
Definition split_rd := mkRow 0 1 KRead  [(0, LW)] CAny [] PTraffic [] String.EmptyString.
Definition split_wr := mkRow 0 1 KWrite [(0, LW)] CAny [] PTraffic [] String.EmptyString.
Definition split_inc := mkRow 0 1 KRmw  [(0, LW)] CAny [] PTraffic [] String.EmptyString.
Definition split_tbl := [split_rd; split_wr; split_inc].

Lemma holds_head s t l m rest : holders s l = (t, m) :: rest -> holds s t l m.
Proof. intros E. exists m. rewrite E. split; [now left | auto]. Qed.

Lemma reach_step tbl c ct m0 s s' :
  reachable tbl c ct m0 s -> step tbl c ct s s' -> reachable tbl c ct m0 s'.
Proof. intros; eapply RS; eauto. Qed.

Lemma greach_step tbl c ct m0 s s' :
  greachable tbl c ct m0 s -> gstep tbl c ct s s' -> greachable tbl c ct m0 s'.
Proof. intros; eapply GRS; eauto. Qed.

(* side conditions of SBegin for a CAny row of a two/three-row table under lock 0 held exclusively *)
Ltac begin_ok :=
  split; [cbn; auto|]; split; [|split; [reflexivity | intros ? []]];
  [intros ? ? [E|[]]; inversion E; subst; eapply holds_head; reflexivity].

Theorem split_rows_admit_lost_update :
  drf_ok split_tbl = true /\
  counter_loc split_tbl 0 = false /\   (* so rmw_not_lost is silent about this location *)
  exists s, reachable split_tbl 0%nat (fun _ => 0%nat) (fun _ => 0) s
            /\ incs s 0 = 1              (* thread 2 completed an increment ... *)
            /\ mem s 0 = 1               (* ... thread 1 stored (what it had read = 0) + 1: two updates, the value grew by one *)
            /\ (forall t, active s t = None) /\ (forall l, holders s l = []).
Proof.
  split; [reflexivity|]. split; [reflexivity|].
  assert (R : reachable split_tbl 0%nat (fun _ => 0%nat) (fun _ => 0) (init (fun _ => 0))) by apply R0.
  unfold init in R.
  eapply reach_step in R; [|apply SPublish; reflexivity]. cbn in R.
  (* thread 1, first critical section: read *)
  eapply reach_step in R; [|apply (SAcquire _ _ _ _ 1%nat 0 LW); [reflexivity | discriminate]]. cbn in R.
  eapply reach_step in R; [|apply (SBegin _ _ _ _ 1%nat split_rd); [reflexivity | begin_ok]]. cbn in R.
  eapply reach_step in R; [|apply (SEnd _ _ _ _ 1%nat split_rd 0); reflexivity]. cbn in R.
  eapply reach_step in R; [|apply (SRelease _ _ _ _ 1%nat 0 LW); [cbn; auto | reflexivity]]. cbn in R.
  (* thread 2: a whole increment *)
  eapply reach_step in R; [|apply (SAcquire _ _ _ _ 2%nat 0 LW); [reflexivity | discriminate]]. cbn in R.
  eapply reach_step in R; [|apply (SBegin _ _ _ _ 2%nat split_inc); [reflexivity | begin_ok]]. cbn in R.
  eapply reach_step in R; [|apply (SEnd _ _ _ _ 2%nat split_inc 0); reflexivity]. cbn in R.
  eapply reach_step in R; [|apply (SRelease _ _ _ _ 2%nat 0 LW); [cbn; auto | reflexivity]]. cbn in R.
  (* thread 1, second critical section: write back snapshot + 1 *)
  eapply reach_step in R; [|apply (SAcquire _ _ _ _ 1%nat 0 LW); [reflexivity | discriminate]]. cbn in R.
  eapply reach_step in R; [|apply (SBegin _ _ _ _ 1%nat split_wr); [reflexivity | begin_ok]]. cbn in R.
  eapply reach_step in R; [|apply (SEnd _ _ _ _ 1%nat split_wr 1); reflexivity]. cbn in R.
  eapply reach_step in R; [|apply (SRelease _ _ _ _ 1%nat 0 LW); [cbn; auto | reflexivity]]. cbn in R.
  eexists. split; [exact R|]. cbn.
  split; [reflexivity|]. split; [reflexivity|]. split.
  - intros t. unfold upd. repeat (destruct (Nat.eqb _ _); try reflexivity).
  - intros l. unfold updZ. repeat (destruct (Z.eqb _ _); try reflexivity).
Qed.

(* the row the rule prints instead: one rmw that names no lock (mutex 0 is not held
   continuously) - rejected *)
Example split_rule_row_rejected :
  drf_ok [mkRow 0 1 KRmw [] CAny [] PTraffic [] String.EmptyString; split_inc] = false.
Proof. reflexivity. Qed.

(* and on the generalised machine the split access exists as ONE access: thread 1 is inside the
   rmw row, has dropped mutex 0, and thread 2 is inside a conflicting access at the same time *)
Definition split_one := mkRow 0 1 KRmw [] CAny [] PTraffic [] String.EmptyString.

Example gmachine_split_access_is_a_race :
  exists s, greachable [split_one; split_inc] 0%nat (fun _ => 0%nat) (fun _ => 0) s
            /\ active s 1%nat = Some split_one /\ active s 2%nat = Some split_inc
            /\ conflict split_one split_inc = true.
Proof.
  assert (R : greachable [split_one; split_inc] 0%nat (fun _ => 0%nat) (fun _ => 0) (init (fun _ => 0))) by apply GR0.
  unfold init in R.
  eapply greach_step in R; [|apply GPublish; reflexivity]. cbn in R.
  eapply greach_step in R; [|apply (GAcquire _ _ _ _ 1%nat 0 LW); [reflexivity | discriminate]]. cbn in R.
  eapply greach_step in R; [|apply (GBegin _ _ _ _ 1%nat split_one); [reflexivity|];
    split; [cbn; auto|]; split; [intros ? ? []|split; [reflexivity | intros ? []]]]. cbn in R.
  (* released in the middle of the access *)
  eapply greach_step in R; [|apply (GRelease _ _ _ _ 1%nat 0 LW); [cbn; auto|];
    intros r Ha m Hin; cbn in Ha; inversion Ha; subst; destruct Hin]. cbn in R.
  eapply greach_step in R; [|apply (GAcquire _ _ _ _ 2%nat 0 LW); [reflexivity | discriminate]]. cbn in R.
  eapply greach_step in R; [|apply (GBegin _ _ _ _ 2%nat split_inc); [reflexivity | begin_ok]]. cbn in R.
  eexists. split; [exact R|]. repeat split; reflexivity.
Qed.

(* the same for two atomic operations: an atomic load row and an atomic store row never conflict
   (both atomic), so the table printed before the rule is accepted, the location is not a
   counter location, and nothing is claimed; the rule prints the pair as one NON-atomic rmw row,
   which is rejected *)
Example atomic_load_store_rows_accepted_but_not_counter :
  let ld := mkRow 0 1 KARead [] CAny [] PTraffic [] String.EmptyString in
  let st := mkRow 0 1 KAWrite [] CAny [] PTraffic [] String.EmptyString in
  drf_ok [ld; st] = true /\ counter_loc [ld; st] 0 = false
  /\ drf_ok [ld; st; split_one] = false.
Proof. repeat split; reflexivity. Qed.

(* ESCAPING-CALLER-MEMORY: the row the rule prints is the caller's next write to memory the interceptor
   has retained: any thread, no lock the interceptor knows of.  More generally every non-atomic writing
   row of class any without an exclusively held lock is rejected (it races with another instance of
   itself: two callers / the caller and whoever reads the retained memory). *)
Theorem drf_ok_rejects_write_any_without_exclusive_lock t r :
  In r t -> (r_kind r = KWrite \/ r_kind r = KRmw) -> r_class r = CAny ->
  (forall l m, In (l, m) (r_locks r) -> m = LR) ->
  drf_ok t = false.
Proof.
  intros Hin K C Hl. apply (drf_ok_false_of_bad_pair t r r Hin Hin).
  assert (Hc : conflict r r = true).
  { unfold conflict. rewrite Z.eqb_refl. destruct K as [K|K]; rewrite K; reflexivity. }
  unfold pair_ok, same_single, is_setup, before_of. rewrite Hc, C. cbn.
  rewrite !orb_false_r.
  unfold share_lock. apply not_true_is_false. intros H.
  apply existsb_exists in H. destruct H as [[l1 m1] [H1 H]].
  apply existsb_exists in H. destruct H as [[l2 m2] [H2 H]]. cbn in H.
  apply andb_true_iff in H. destruct H as [_ H].
  rewrite (Hl _ _ H1), (Hl _ _ H2) in H. discriminate.
Qed.

(* conversely, in an accepted table every non-atomic writing row of class any names a lock it holds
   exclusively - so, on the machine, no two threads are inside it at once (lockset_drf) *)
Corollary drf_ok_write_any_has_exclusive_lock t r :
  drf_ok t = true -> In r t -> (r_kind r = KWrite \/ r_kind r = KRmw) -> r_class r = CAny ->
  exists l, In (l, LW) (r_locks r).
Proof.
  intros Hok Hin K C.
  destruct (existsb (fun p => match snd p with LW => true | LR => false end) (r_locks r)) eqn:E.
  - apply existsb_exists in E. destruct E as [[l m] [Hl Hm]]. cbn in Hm. destruct m; [discriminate|]. eauto.
  - exfalso. rewrite (drf_ok_rejects_write_any_without_exclusive_lock t r Hin K C) in Hok; [discriminate|].
    intros l m Hl. destruct m; auto. exfalso.
    assert (X : existsb (fun p => match snd p with LW => true | LR => false end) (r_locks r) = true).
    { apply existsb_exists. exists (l, LW). split; auto. }
    congruence.
Qed.
