(* C11, deepening round: Chain.Close closes every member (Model/ChainClose.v). *)
From IV Require Import Base.Word Model.Lifecycle Model.ChainClose.

Lemma call_close_closed c s t : closed (call c s t OClose) = true.
Proof.
  cbn [call]. destruct (match f_close c with CloseIdem => false | CloseRaw => closed s end); [reflexivity|].
  destruct (_ && _); reflexivity.
Qed.

(* after Chain.Close every member has received exactly one more Close and its close channel is closed,
   whichever members' Close failed *)
Lemma chain_close_all_closes t ms :
  Forall2 (fun m m' => closed (m_st m') = true /\ m_closes m' = S (m_closes m) /\ m_cfg m' = m_cfg m)
          ms (chain_close_all t ms).
Proof.
  induction ms as [|m ms IH]; cbn; constructor; auto.
  cbn. split; [apply call_close_closed|auto].
Qed.

(* ... and the returned error holds the error of every member whose Close failed *)
Lemma errs_from_in ms : forall i k m, nth_error ms k = Some m -> m_fails m = true -> In (i + k)%nat (errs_from i ms).
Proof.
  induction ms as [|m0 ms IH]; intros i k m H F; [destruct k; discriminate|].
  destruct k as [|k]; cbn in H |- *.
  - inversion H; subst. rewrite F. left. lia.
  - specialize (IH (S i) k m H F). replace (i + S k)%nat with (S i + k)%nat by lia.
    destruct (m_fails m0); [right|]; exact IH.
Qed.

Lemma chain_errs_all_complete ms k m : nth_error ms k = Some m -> m_fails m = true -> In k (chain_errs_all ms).
Proof. intros H F. exact (errs_from_in ms 0 k m H F). Qed.

(* seeded change: Close stops at the first member whose Close fails.  Chain [mock whose Close fails;
   report receiver after BindRTCPWriter, Bind 1]: after Chain.Close the receiver has not received a Close,
   its close channel is open, and its loop ticks and writes a report *)
Lemma chain_close_stop_refuted : exists ms m' s',
  let after := chain_close_stop 0 ms in
  nth_error after 1 = Some m' /\ m_closes m' = 0%nat /\ closed (m_st m') = false /\
  run (m_cfg m') (m_st m') [LTick 1; LEmit 1] = Some s' /\ emitted s' = [1] /\
  (* while the same chain closed by chain.go's loop leaves the receiver closed and closed once *)
  (exists m2, nth_error (chain_close_all 0 ms) 1 = Some m2 /\ m_closes m2 = 1%nat /\ closed (m_st m2) = true).
Proof.
  exists [mock_failing; member_after report_receiver_cfg [Call 0 OBindW; Call 0 (OBind 1)]].
  eexists. eexists. cbn zeta.
  split; [vm_compute; reflexivity|]. split; [reflexivity|]. split; [reflexivity|].
  split; [vm_compute; reflexivity|]. split; [reflexivity|].
  eexists. split; [vm_compute; reflexivity|]. split; reflexivity.
Qed.
