(* C11, deepening round: the held schedule of the gated runs (Check/C11bCheck.v gate_model) evaluated on the
   feature records - by computation. *)
From IV Require Import Base.Word Model.Lifecycle Model.LifecycleX Check.C11Check Check.C11bCheck.

Lemma gate_model_clean_instances :
  forallb (fun iid => forallb (fun mode => gate_ok_b (gate_model_h (holdable_of iid) (plain (cfg_of iid)) mode)) [0; 1; 2; 3])
          [0; 1; 2; 3; 4; 5; 6; 7; 8; 9; 10; 11; 12; 13] = true.
Proof. vm_compute. reflexivity. Qed.

Lemma gate_model_fastclose :
  map (gate_model nack_responder_fastclose_xcfg) [0; 1; 2; 3] =
  [[1; 0; 0; 0; 0; 0; 0; 0; 0; 0]; [1; 1; 0; 1; 0; 0; 0; 1; 0; 0]; [1; 0; 1; 1; 0; 0; 0; 1; 0; 0]; [1; 1; 1; 1; 0; 0; 0; 1; 0; 0]].
Proof. vm_compute. reflexivity. Qed.
