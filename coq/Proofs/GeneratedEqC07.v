(* Source ties of C07: pkg/report/sender_stream.go.
   The hand-written model functions are EQUAL to (or REFINED BY, under a stated representation map)
   the definitions that `tools/go2coq -prop C07` regenerates from the Go source on every run
   (coq/Generated/GoCoresC07.v).
   Range hypotheses are exactly what the Go types guarantee (0 <= x < 2^16 for a uint16 ...), plus
   the constructor invariants of the Go objects where the model has them built in; every one is
   stated.  g_f_safe = true means: the Go function does not panic (index range, division by zero)
   on these inputs; the value equalities hold for the non-panicking executions.
   When the source of one of these functions changes its meaning, the regenerated definition
   changes and the lemma below no longer compiles: a broken obligation of THIS property only
   (no other property imports this file or Generated/GoCoresC07.v). *)
From IV Require Import Base.Word Base.GoPrelude Proofs.GoPreludeProofs.
From IV Require Model.SenderStream.
From IV Require Import Generated.GoCoresC07.
From Coq Require Import ZifyBool.
Ltac Zify.zify_post_hook ::= Z.div_mod_to_equations.

(* senderStream.processRTP as a transformer of the six fields it writes; time.Time is option Z,
   payload is any byte slice (only its length is read) *)
Lemma gen_report_sender_processRTP_eq use st now seq ts payload :
  g_report_senderStream_processRTP use (SenderStream.s_started st) (SenderStream.s_ref_rtp st) (SenderStream.s_ref_time st)
      (SenderStream.s_last_sn st) (SenderStream.s_pc st) (SenderStream.s_oc st) (Some now) seq ts payload =
    let st' := SenderStream.s_rtp use st now seq ts (g_len payload) in
    (SenderStream.s_started st', SenderStream.s_ref_rtp st', SenderStream.s_ref_time st',
     SenderStream.s_last_sn st', SenderStream.s_pc st', SenderStream.s_oc st').
Proof.
  (* semantic: unfold both sides, one case per test, arithmetic by lia *)
  destruct st as [started refrtp reftime lastsn pc oc].
  cbn [SenderStream.s_started SenderStream.s_ref_rtp SenderStream.s_ref_time SenderStream.s_last_sn SenderStream.s_pc SenderStream.s_oc].
  gnorm. unfold SenderStream.s_rtp, sub16, add32, u32.
  cbn [SenderStream.s_started SenderStream.s_ref_rtp SenderStream.s_ref_time SenderStream.s_last_sn SenderStream.s_pc SenderStream.s_oc].
  destruct use, started; cbn [negb orb andb]; tie_cases.
Qed.
