(* Source ties of C12: the bitmap updates of pkg/nack/receive_log.go and pkg/report/receiver_stream.go keep the slice length.
   The hand-written model functions are EQUAL to (or REFINED BY, under a stated representation map)
   the definitions that `tools/go2coq -prop C12` regenerates from the Go source on every run
   (coq/Generated/GoCoresC12.v).
   Range hypotheses are exactly what the Go types guarantee (0 <= x < 2^16 for a uint16 ...), plus
   the constructor invariants of the Go objects where the model has them built in; every one is
   stated.  g_f_safe = true means: the Go function does not panic (index range, division by zero)
   on these inputs; the value equalities hold for the non-panicking executions.
   When the source of one of these functions changes its meaning, the regenerated definition
   changes and the lemma below no longer compiles: a broken obligation of THIS property only
   (no other property imports this file or Generated/GoCoresC12.v). *)
From IV Require Import Base.Word Base.GoPrelude Proofs.GoPreludeProofs.
From IV Require Model.MemBound.
From IV Require Import Generated.GoCoresC12.
From Coq Require Import ZifyBool.
Ltac Zify.zify_post_hook ::= Z.div_mod_to_equations.

(* proved on this property's own regenerated copies of the four functions *)
Lemma gen_nack_bitmap_length p sz seq :
  g_len (g_nack_receiveLog_setReceived p sz seq) = MemBound.rl_step (g_len p) seq /\
  g_len (g_nack_receiveLog_delReceived p sz seq) = MemBound.rl_step (g_len p) seq.
Proof.
  split; gnorm; unfold MemBound.rl_step; rewrite ?g_upd_length; reflexivity.
Qed.

Lemma gen_report_bitmap_length p sz seq :
  g_len (g_report_receiverStream_setReceived sz p seq) = MemBound.rs_step (g_len p) seq /\
  g_len (g_report_receiverStream_delReceived sz p seq) = MemBound.rs_step (g_len p) seq.
Proof.
  split; gnorm; unfold MemBound.rs_step; rewrite ?g_upd_length; reflexivity.
Qed.
