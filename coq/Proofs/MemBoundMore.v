(* C12 deepening - more proofs about the size models of Model/MemBound.v:
   the two index maps of pkg/rtpfb/history.go (twccToCounter, ssrcSeqNrToCounter)
   never hold more entries than the packet map, for every history including
   re-used sequence numbers (retransmissions, wrap-around). *)
From IV Require Import Base.Word Model.Unwrapper Model.MemBound Proofs.MemBoundProofs.
Open Scope Z_scope.

(* ---------- association-list helpers ---------- *)
Lemma In_aget {A} k (v : A) l : NoDup (akeys l) -> In (k, v) l -> aget k l = Some v.
Proof.
  induction l as [|[k' v'] t IH]; cbn [aget akeys map fst In]; intros Hn Hin; [tauto|].
  inversion Hn as [|? ? Hnot Hn']; subst. destruct Hin as [E|Hin].
  - inversion E; subst. rewrite Z.eqb_refl. reflexivity.
  - destruct (k' =? k) eqn:G.
    + apply Z.eqb_eq in G. subst. exfalso. apply Hnot. unfold akeys in *. apply in_map_iff. exists (k, v). split; [reflexivity|assumption].
    + apply IH; assumption.
Qed.
Lemma aget_In {A} k (v : A) l : aget k l = Some v -> In (k, v) l.
Proof.
  induction l as [|[k' v'] t IH]; cbn [aget In]; intros H; [discriminate|].
  destruct (k' =? k) eqn:G; [apply Z.eqb_eq in G; inversion H; subst; left; reflexivity|right; apply IH, H].
Qed.
Lemma NoDup_app_intro {A} (l m : list A) : NoDup l -> NoDup m -> (forall x, In x l -> ~ In x m) -> NoDup (l ++ m).
Proof.
  induction l as [|a t IH]; cbn [app]; intros Hl Hm Hd; [assumption|].
  inversion Hl; subst. constructor.
  - intros Hin. apply in_app_or in Hin. destruct Hin as [Hin|Hin]; [tauto|]. apply (Hd a); [left; reflexivity|assumption].
  - apply IH; [assumption|assumption|]. intros x Hx. apply Hd. right. assumption.
Qed.
(* distinct keys whose values determine their key: distinct values *)
Lemma NoDup_snd (l : list (Z * Z)) (f : Z -> option Z) :
  NoDup (akeys l) -> (forall k c, In (k, c) l -> f c = Some k) -> NoDup (map snd l).
Proof.
  induction l as [|[k c] t IH]; cbn [map snd akeys fst]; intros Hn Hf; [constructor|].
  inversion Hn as [|? ? Hnot Hn']; subst. constructor.
  - intros Hin. apply in_map_iff in Hin. destruct Hin as [[k' c'] [E Hin]]. cbn [snd] in E. subst c'.
    assert (E1 : f c = Some k) by (apply Hf; left; reflexivity).
    assert (E2 : f c = Some k') by (apply Hf; right; assumption).
    rewrite E1 in E2. inversion E2; subst k'. apply Hnot. unfold akeys. apply in_map_iff. exists (k, c). split; [reflexivity|assumption].
  - apply IH; [assumption|]. intros k' c' Hin. apply Hf. right. assumption.
Qed.

(* ---------- idx_del ---------- *)
Lemma aget_idx_del k c idx k' :
  aget k' (idx_del k c idx) =
  match aget k idx with
  | Some c0 => if (c0 =? c) && (k =? k') then None else aget k' idx
  | None => aget k' idx
  end.
Proof.
  unfold idx_del. destruct (aget k idx) as [c0|] eqn:E; [|reflexivity].
  destruct (c0 =? c) eqn:G; cbn [andb]; [|reflexivity]. rewrite aget_adel. reflexivity.
Qed.
Lemma idx_del_NoDup k c idx : NoDup (akeys idx) -> NoDup (akeys (idx_del k c idx)).
Proof.
  intros H. unfold idx_del. destruct (aget k idx) as [c0|]; [|assumption].
  destruct (c0 =? c); [apply akeys_adel_NoDup, H|assumption].
Qed.
Lemma idx_del_length_le k c idx : zlen (idx_del k c idx) <= zlen idx.
Proof.
  unfold idx_del. destruct (aget k idx) as [c0|]; [|lia]. destruct (c0 =? c); [apply adel_length_le|lia].
Qed.

(* ---------- the index invariant of rtpfb history ---------- *)
Definition h_tw_ok (st : hist) : Prop := forall t c, aget t (h_tw st) = Some c ->
  exists p, aget c (h_packets st) = Some p /\ hp_isTw p = true /\ hp_tw p = t.
Definition h_ss_ok (st : hist) : Prop := forall k c, aget k (h_ss st) = Some c ->
  exists p, aget c (h_packets st) = Some p /\ hp_isTw p = false /\ hp_key p = k.
Definition h_idx_inv (st : hist) : Prop :=
  NoDup (akeys (h_packets st)) /\ NoDup (akeys (h_tw st)) /\ NoDup (akeys (h_ss st)) /\
  (forall k, In k (akeys (h_packets st)) -> k < h_counter st) /\ h_tw_ok st /\ h_ss_ok st.

Lemma h_delete_idx st i p : h_idx_inv st -> aget i (h_packets st) = Some p -> h_idx_inv (h_delete st i p).
Proof.
  intros [Hp [Ht [Hs [Hc [Htw Hss]]]]] Ei.
  split; [|split; [|split; [|split; [|split]]]]; cbn [h_delete h_packets h_tw h_ss h_counter].
  - apply akeys_adel_NoDup, Hp.
  - destruct (hp_isTw p); [apply idx_del_NoDup, Ht|assumption].
  - apply idx_del_NoDup, Hs.
  - intros k Hk. apply akeys_adel in Hk. apply Hc, Hk.
  - unfold h_tw_ok in *. cbn [h_delete h_packets h_tw h_ss]. destruct (hp_isTw p) eqn:Tw; intros t c E.
    + rewrite aget_idx_del in E.
      assert (E0 : aget t (h_tw st) = Some c).
      { destruct (aget (hp_tw p) (h_tw st)) as [c0|]; [|assumption]. destruct ((c0 =? i) && (hp_tw p =? t)); [discriminate|assumption]. }
      destruct (Htw t c E0) as [p' [A [B C]]]. exists p'. split; [|split; assumption].
      rewrite aget_adel. destruct (i =? c) eqn:G; [|assumption]. apply Z.eqb_eq in G. subst c. exfalso.
      rewrite Ei in A. inversion A; subst p'. rewrite C, E0, !Z.eqb_refl in E. cbn in E. discriminate.
    + destruct (Htw t c E) as [p' [A [B C]]]. exists p'. split; [|split; assumption].
      rewrite aget_adel. destruct (i =? c) eqn:G; [|assumption]. apply Z.eqb_eq in G. subst c. exfalso.
      rewrite Ei in A. inversion A; subst p'. congruence.
  - unfold h_ss_ok in *. cbn [h_delete h_packets h_tw h_ss]. intros k c E. rewrite aget_idx_del in E.
    assert (E0 : aget k (h_ss st) = Some c).
    { destruct (aget (hp_key p) (h_ss st)) as [c0|]; [|assumption]. destruct ((c0 =? i) && (hp_key p =? k)); [discriminate|assumption]. }
    destruct (Hss k c E0) as [p' [A [B C]]]. exists p'. split; [|split; assumption].
    rewrite aget_adel. destruct (i =? c) eqn:G; [|assumption]. apply Z.eqb_eq in G. subst c. exfalso.
    rewrite Ei in A. inversion A; subst p'. rewrite C, E0, !Z.eqb_refl in E. cbn in E. discriminate.
Qed.

Lemma h_set_next_idx st n : h_idx_inv st -> h_idx_inv (h_set_next st n).
Proof. intros H. exact H. Qed.
Lemma h_set_clean_idx st n : h_idx_inv st -> h_idx_inv (h_set_clean st n).
Proof. intros H. exact H. Qed.
Lemma h_report_one_idx st i : h_idx_inv st -> h_idx_inv (h_report_one st i).
Proof.
  intros H. unfold h_report_one. destruct (aget i (h_packets st)) as [p|] eqn:E; [|assumption].
  cbv zeta. destruct (i >=? h_next (h_delete st i p)); [apply h_set_next_idx|]; apply h_delete_idx; assumption.
Qed.
Lemma h_clean_one_idx st i : h_idx_inv st -> h_idx_inv (h_clean_one st i).
Proof.
  intros H. unfold h_clean_one. destruct (aget i (h_packets st)) as [p|] eqn:E; [|assumption].
  apply h_delete_idx; assumption.
Qed.
Lemma fold_idx (f : hist -> Z -> hist) (Hf : forall st i, h_idx_inv st -> h_idx_inv (f st i)) l :
  forall st, h_idx_inv st -> h_idx_inv (fold_left f l st).
Proof. induction l as [|i t IH]; intros st H; cbn [fold_left]; [assumption|]. apply IH, Hf, H. Qed.
Lemma h_report_idx st : h_idx_inv st -> h_idx_inv (h_report st).
Proof.
  intros H. unfold h_report. destruct (negb (h_acked st) || (h_next st >? h_hi st)); [assumption|].
  cbv zeta. apply h_set_clean_idx. apply (fold_idx h_clean_one h_clean_one_idx).
  apply (fold_idx h_report_one h_report_one_idx). assumption.
Qed.
Lemma h_on_feedback_idx st c a : h_idx_inv st -> h_idx_inv (h_on_feedback st c a).
Proof.
  intros H. unfold h_on_feedback. destruct (aget c (h_packets st)); [|assumption].
  destruct (a && _); [exact H|assumption].
Qed.
Lemma h_add_idx st ssrc sq isTw tw : h_idx_inv st -> h_idx_inv (h_add true st ssrc sq isTw tw).
Proof.
  intros [Hp [Ht [Hs [Hc [Htw Hss]]]]].
  assert (Fresh : forall c p, aget c (h_packets st) = Some p -> (h_counter st =? c) = false).
  { intros c p E. apply Z.eqb_neq. pose proof (Hc c (aget_In_keys _ _ _ E)). lia. }
  split; [|split; [|split; [|split; [|split]]]]; cbn [h_add h_packets h_tw h_ss h_counter andb].
  - apply akeys_aset_NoDup, Hp.
  - destruct isTw; [apply akeys_aset_NoDup, Ht|assumption].
  - destruct isTw; [assumption|apply akeys_aset_NoDup, Hs].
  - intros k Hk. apply akeys_aset in Hk. destruct Hk as [->|Hk]; [lia|]. specialize (Hc k Hk). lia.
  - unfold h_tw_ok in *. cbn [h_add h_packets h_tw h_ss andb]. destruct isTw; intros t c E.
    + rewrite aget_aset in E. destruct (tw =? t) eqn:G.
      * apply Z.eqb_eq in G. inversion E; subst. eexists. rewrite aget_aset, Z.eqb_refl. split; [reflexivity|split; reflexivity].
      * destruct (Htw t c E) as [p [A [B C]]]. exists p. rewrite aget_aset, (Fresh c p A). tauto.
    + destruct (Htw t c E) as [p [A [B C]]]. exists p. rewrite aget_aset, (Fresh c p A). tauto.
  - unfold h_ss_ok in *. cbn [h_add h_packets h_tw h_ss andb]. destruct isTw; intros k c E.
    + destruct (Hss k c E) as [p [A [B C]]]. exists p. rewrite aget_aset, (Fresh c p A). tauto.
    + rewrite aget_aset in E. destruct (sskey ssrc sq =? k) eqn:G.
      * apply Z.eqb_eq in G. inversion E; subst. eexists. rewrite aget_aset, Z.eqb_refl. split; [reflexivity|split; reflexivity].
      * destruct (Hss k c E) as [p [A [B C]]]. exists p. rewrite aget_aset, (Fresh c p A). tauto.
Qed.
Lemma h_step_idx st o : h_idx_inv st -> h_idx_inv (h_step true st o).
Proof.
  intros H. destruct o as [ssrc sq isTw tw|tw arrived|ssrc sq arrived|]; cbn [h_step].
  - apply h_add_idx, H.
  - destruct (aget tw (h_tw st)); [apply h_on_feedback_idx, H|assumption].
  - destruct (aget (sskey ssrc sq) (h_ss st)); [apply h_on_feedback_idx, H|assumption].
  - apply h_report_idx, H.
Qed.
Lemma h_run_idx ops : h_idx_inv (fold_left (h_step true) ops h_init).
Proof.
  assert (H : h_idx_inv h_init).
  { repeat split; try constructor; cbn; try tauto; intros ? ? E; discriminate. }
  revert H. generalize h_init. induction ops as [|o t IH]; cbn [fold_left]; intros st H; [assumption|].
  apply IH, h_step_idx, H.
Qed.

(* every index entry refers to its own packet record: the two indexes together are no larger than the packet map *)
Lemma h_idx_count st : h_idx_inv st -> zlen (h_tw st) + zlen (h_ss st) <= zlen (h_packets st).
Proof.
  intros [Hp [Ht [Hs [Hc [Htw Hss]]]]].
  set (refs := map snd (h_tw st) ++ map snd (h_ss st)).
  assert (L : zlen refs = zlen (h_tw st) + zlen (h_ss st)).
  { unfold refs, zlen. rewrite app_length, !map_length. lia. }
  assert (N : NoDup refs).
  { apply NoDup_app_intro.
    - apply (NoDup_snd _ (fun c => match aget c (h_packets st) with Some p => Some (hp_tw p) | None => None end) Ht).
      intros k c Hin. destruct (Htw k c (In_aget _ _ _ Ht Hin)) as [p [A [B C]]]. rewrite A, C. reflexivity.
    - apply (NoDup_snd _ (fun c => match aget c (h_packets st) with Some p => Some (hp_key p) | None => None end) Hs).
      intros k c Hin. destruct (Hss k c (In_aget _ _ _ Hs Hin)) as [p [A [B C]]]. rewrite A, C. reflexivity.
    - intros c H1 H2. apply in_map_iff in H1. destruct H1 as [[t c1] [E1 I1]]. cbn [snd] in E1. subst c1.
      apply in_map_iff in H2. destruct H2 as [[k c2] [E2 I2]]. cbn [snd] in E2. subst c2.
      destruct (Htw t c (In_aget _ _ _ Ht I1)) as [p [A [B _]]].
      destruct (Hss k c (In_aget _ _ _ Hs I2)) as [p' [A' [B' _]]]. rewrite A in A'. inversion A'; subst p'. congruence. }
  assert (I : incl refs (akeys (h_packets st))).
  { intros c Hin. apply in_app_or in Hin. destruct Hin as [Hin|Hin]; apply in_map_iff in Hin; destruct Hin as [[k c1] [E I1]];
      cbn [snd] in E; subst c1.
    - destruct (Htw k c (In_aget _ _ _ Ht I1)) as [p [A _]]. apply (aget_In_keys _ _ _ A).
    - destruct (Hss k c (In_aget _ _ _ Hs I1)) as [p [A _]]. apply (aget_In_keys _ _ _ A). }
  pose proof (NoDup_incl_zlen _ _ N I) as B. unfold akeys in B. unfold zlen in B at 2. rewrite map_length in B.
  fold (zlen (h_packets st)) in B. lia.
Qed.

Lemma h_indexes_bounded ops : let st := fold_left (h_step true) ops h_init in
  zlen (h_tw st) + zlen (h_ss st) <= zlen (h_packets st) /\ zlen (h_packets st) <= h_counter st - h_next st.
Proof. cbv zeta. split; [apply h_idx_count, h_run_idx|apply (h_bounded true ops)]. Qed.

(* every packet record below the report cursor is gone, whatever happened to its sequence numbers *)
Lemma h_reported_released ops k : let st := fold_left (h_step true) ops h_init in
  k < h_next st -> aget k (h_packets st) = None.
Proof.
  cbv zeta. intros Hk. destruct (h_run_inv true ops) as [_ [Hr _]].
  destruct (aget k (h_packets (fold_left (h_step true) ops h_init))) as [p|] eqn:E; [|reflexivity].
  pose proof (Hr k (aget_In_keys _ _ _ E)). lia.
Qed.

(* the regression seeded in round 2: a retransmission with the same SSRC / sequence number before the
   original is reported; the original is reported (as lost), then the retransmission *)
Example h_retransmission_released :
  let ops := [HAdd 1 10 false 0; HAdd 1 11 false 0; HAdd 1 12 false 0; HAdd 1 10 false 0;
              HAckSs 1 11 true; HAckSs 1 12 true; HReport] in
  h_sizes (fold_left (h_step true) ops h_init) = [1; 0; 1] /\
  h_sizes (fold_left (h_step true) (ops ++ [HAckSs 1 10 true; HReport]) h_init) = [0; 0; 0].
Proof. vm_compute. split; reflexivity. Qed.
