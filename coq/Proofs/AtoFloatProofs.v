(* C08, float layer: the EXECUTABLE primitive-float kernel [ato_kernel] of
   Model/StreamLog.v (Duration.Seconds() * 1024.0, compare with 0x1FFD, truncate)
   computes exactly what the specification asks for, for every duration
   0 <= d < 2^63 ns (the whole range of a Go time.Duration):

     fst (ato_kernel d) = (1024*d > 8189 * 10^9)                      every d
     snd (ato_kernel d) = floor (1024*d / 10^9)                        d < 8 * 10^9 ns

   (above 8 s the first component is true and getArrivalTimeOffset ignores the
   second), hence  ato ato_kernel now arrival = ato_spec now arrival  for every
   clock pair with now - arrival < 2^63 ns.

   The literal hypothesis [exact_kernel ato_kernel] of the round-1 theorem is
   FALSE ([ato_kernel_not_exact_everywhere]): for d = 10^17 - 1 ns float64
   rounding makes the (ignored) truncated value differ from the exact floor; this
   is why the result is stated on [ato].

   Proof.  With sec = d / 10^9, nsec = d mod 10^9 the kernel computes
   a = 1024 * rnd (sec + rnd (nsec / 10^9))  (the conversions and the
   multiplication by 2^10 are exact).  (i) For every integer m:
   m/1024 <= d/10^9 implies m <= a, and d/10^9 <= m/1024 implies a <= m, because
   m/1024 - sec and m/1024 are floats and rounding is monotone.  (ii) Below 8 s the
   two roundings lose at most 2^-54 + 2^-50, so |a - 1024 d/10^9| <= 2^-39, whereas
   a non-integral 1024 d/10^9 = 2d/5^9 is at least 1/5^9 > 2^-21 away from the next
   integer.  Link lemmas PrimFloat <-> Flocq <-> R are those of NtpFloatProofs.v.

   Trusted base (Print Assumptions): the std-lib primitive float / Uint63
   specification axioms and the axioms of the std-lib Reals / Flocq. *)
From IV Require Import Base.Word Base.F64 Model.StreamLog Spec.Rfc8888Spec
  Proofs.StreamLogProofs Proofs.Rfc8888Proofs Proofs.NtpFloatProofs.
From Coq Require Import ZArith Reals Floats Uint63 Lia Lra.
From Flocq Require Import Core.Core IEEE754.BinarySingleNaN.
Require Flocq.IEEE754.PrimFloat.
Ltac Zify.zify_post_hook ::= Z.div_mod_to_equations.
Open Scope R_scope.

Local Instance prec53' : Prec_gt_0 53 := eq_refl.

(* ---------- more link lemmas ---------- *)
Lemma ltb_link x y : fin x -> fin y -> PrimFloat.ltb x y = Rlt_bool (FR x) (FR y).
Proof.
  intros Hx Hy. rewrite FP.ltb_equiv. unfold FR. apply Bltb_correct; assumption.
Qed.

Lemma FR_c1024 : FR 1024%float = 1024.
Proof. fr_const. pow_const. lra. Qed.
Lemma FR_c8189 : FR 8189%float = 8189.
Proof. fr_const. pow_const. lra. Qed.
Lemma fin_c1024 : fin 1024%float. Proof. unfold fin. rewrite <- fin_f64. reflexivity. Qed.
Lemma fin_c8189 : fin 8189%float. Proof. unfold fin. rewrite <- fin_f64. reflexivity. Qed.

Lemma rnd64_nonneg x : 0 <= x -> 0 <= rnd64 x.
Proof. intros H. rewrite <- (rnd64_int 0) by (simpl; lia). now apply rnd64_mono. Qed.
Lemma rnd64_le_int x n : (Z.abs n < 9007199254740992)%Z -> x <= IZR n -> rnd64 x <= IZR n.
Proof. intros Hn H. rewrite <- (rnd64_int n Hn). now apply rnd64_mono. Qed.

(* m / 2^10 is a float for |m| < 2^53 *)
Lemma rnd64_dyadic m : (Z.abs m < 9007199254740992)%Z -> rnd64 (IZR m / 1024) = IZR m / 1024.
Proof.
  intros H. unfold rnd64. apply round_generic; auto with typeclass_instances.
  apply generic_format_FLT. apply (FLT_spec radix2 (-1074) 53 _ (Float radix2 m (-10))).
  - unfold F2R, Fnum, Fexp, bpow. pow_const. lra.
  - exact H.
  - simpl; lia.
Qed.

(* multiplication of a float by 2^10 is exact *)
Lemma rnd64_scale x : generic_format radix2 fexp64 x -> rnd64 (x * 1024) = x * 1024.
Proof.
  intros H. unfold rnd64. apply round_generic; auto with typeclass_instances.
  apply FLT_format_generic in H; [|exact prec53'].
  destruct H as [f Hf Hm He].
  apply generic_format_FLT. apply (FLT_spec radix2 (-1074) 53 _ (Float radix2 (Fnum f) (Fexp f + 10))).
  - rewrite Hf. unfold F2R, Fnum, Fexp. rewrite bpow_plus.
    replace (bpow radix2 10) with 1024 by (unfold bpow; pow_const; lra). ring.
  - exact Hm.
  - simpl; lia.
Qed.

(* ---------- the kernel as a real-number expression ---------- *)
Definition a_exec (d : Z) : PrimFloat.float :=
  PrimFloat.mul
    (PrimFloat.add (f64_of_Z (d / 1000000000))
                   (PrimFloat.div (f64_of_Z (d mod 1000000000)) 1000000000%float))
    1024%float.

Lemma ato_kernel_a d : ato_kernel d = (PrimFloat.ltb 8189%float (a_exec d), f64_trunc (a_exec d)).
Proof. reflexivity. Qed.

Definition qR (d : Z) : R := rnd64 (IZR (d mod 1000000000) / 1000000000).
Definition sR (d : Z) : R := rnd64 (IZR (d / 1000000000) + qR d).
Definition aR (d : Z) : R := sR d * 1024.

Definition Dmax : Z := 9223372036854775808.   (* 2^63 *)

Lemma bpow1 : bpow radix2 1 = 2. Proof. bp. Qed.
Lemma bpow50 : bpow radix2 50 = 1125899906842624. Proof. bp. Qed.

Lemma q_range d : (0 <= d)%Z -> 0 <= qR d <= 1.
Proof.
  intros H. unfold qR.
  assert (H0 : (0 <= d mod 1000000000 < 1000000000)%Z) by lia.
  assert (A : 0 <= IZR (d mod 1000000000)) by (apply IZR_le; lia).
  assert (B : IZR (d mod 1000000000) <= 1000000000) by (apply IZR_le; lia).
  split.
  - apply rnd64_nonneg. apply Rmult_le_pos; lra.
  - apply (rnd64_le_int _ 1); [lia|]. lra.
Qed.

Lemma a_link d : (0 <= d < Dmax)%Z -> fin (a_exec d) /\ FR (a_exec d) = aR d.
Proof.
  intros H. unfold Dmax in H.
  set (sec := (d / 1000000000)%Z). set (nsec := (d mod 1000000000)%Z).
  assert (Hs : (0 <= sec < 9223372037)%Z) by (unfold sec; lia).
  assert (Hn : (0 <= nsec < 1000000000)%Z) by (unfold nsec; lia).
  assert (S0 : 0 <= IZR sec) by (apply IZR_le; lia).
  assert (S1 : IZR sec <= 9223372037) by (apply IZR_le; lia).
  assert (N0 : 0 <= IZR nsec) by (apply IZR_le; lia).
  assert (N1 : IZR nsec <= 1000000000) by (apply IZR_le; lia).
  destruct (of_Z_link sec) as [F0 V0]; [lia|]. rewrite rnd64_int in V0 by lia.
  destruct (of_Z_link nsec) as [F1 V1]; [lia|]. rewrite rnd64_int in V1 by lia.
  destruct (div_link (f64_of_Z nsec) 1000000000%float 1 F1) as [F2 V2].
  { rewrite FR_c9; lra. } { lia. }
  { rewrite V1, FR_c9, bpow1, Rabs_pos_eq; [lra|]. apply Rmult_le_pos; lra. }
  rewrite V1, FR_c9 in V2. fold nsec in V2. change (rnd64 (IZR nsec / 1000000000)) with (qR d) in V2.
  assert (Q := q_range d ltac:(lia)).
  destruct (add_link (f64_of_Z sec) (f64_of_Z nsec / 1000000000)%float 40 F0 F2) as [F3 V3].
  { lia. } { rewrite V0, V2, bpow40, Rabs_pos_eq; lra. }
  rewrite V0, V2 in V3. change (rnd64 (IZR sec + qR d)) with (sR d) in V3.
  assert (SR0 : 0 <= sR d) by (unfold sR; apply rnd64_nonneg; fold sec; lra).
  assert (SR1 : sR d <= 9223372038).
  { unfold sR. apply (rnd64_le_int _ 9223372038); [lia|]. fold sec. lra. }
  destruct (mul_link (f64_of_Z sec + f64_of_Z nsec / 1000000000)%float 1024%float 50 F3 fin_c1024) as [F4 V4].
  { lia. } { rewrite V3, FR_c1024, bpow50, Rabs_pos_eq; lra. }
  rewrite FR_c1024 in V4. rewrite rnd64_scale in V4 by apply FR_format. rewrite V3 in V4.
  split; [exact F4|exact V4].
Qed.

(* (i) comparison with dyadic thresholds is exact *)
Lemma IZR_d d : IZR d = IZR (d / 1000000000) * 1000000000 + IZR (d mod 1000000000).
Proof. rewrite <- (mult_IZR _ 1000000000), <- plus_IZR. f_equal. lia. Qed.

Lemma a_ge_dyadic d m : (0 <= d < Dmax)%Z -> (Z.abs m < 1125899906842624)%Z ->
  (1000000000 * m <= 1024 * d)%Z -> IZR m <= aR d.
Proof.
  intros H Hm Hle. unfold Dmax in H.
  set (sec := (d / 1000000000)%Z). set (nsec := (d mod 1000000000)%Z).
  assert (Hs : (0 <= sec < 9223372037)%Z) by (unfold sec; lia).
  assert (L : IZR (m - 1024 * sec) / 1024 <= IZR nsec / 1000000000).
  { apply IZR_le in Hle. rewrite !mult_IZR, (IZR_d d) in Hle. fold sec nsec in Hle.
    rewrite minus_IZR, mult_IZR. lra. }
  apply rnd64_mono in L. rewrite rnd64_dyadic in L by lia. change (rnd64 (IZR nsec / 1000000000)) with (qR d) in L.
  assert (L2 : IZR m / 1024 <= IZR sec + qR d) by (rewrite minus_IZR, mult_IZR in L; lra).
  apply rnd64_mono in L2. rewrite rnd64_dyadic in L2 by lia. change (rnd64 (IZR sec + qR d)) with (sR d) in L2.
  unfold aR. lra.
Qed.

Lemma a_le_dyadic d m : (0 <= d < Dmax)%Z -> (Z.abs m < 1125899906842624)%Z ->
  (1024 * d <= 1000000000 * m)%Z -> aR d <= IZR m.
Proof.
  intros H Hm Hle. unfold Dmax in H.
  set (sec := (d / 1000000000)%Z). set (nsec := (d mod 1000000000)%Z).
  assert (Hs : (0 <= sec < 9223372037)%Z) by (unfold sec; lia).
  assert (L : IZR nsec / 1000000000 <= IZR (m - 1024 * sec) / 1024).
  { apply IZR_le in Hle. rewrite !mult_IZR, (IZR_d d) in Hle. fold sec nsec in Hle.
    rewrite minus_IZR, mult_IZR. lra. }
  apply rnd64_mono in L. rewrite rnd64_dyadic in L by lia. change (rnd64 (IZR nsec / 1000000000)) with (qR d) in L.
  assert (L2 : IZR sec + qR d <= IZR m / 1024) by (rewrite minus_IZR, mult_IZR in L; lra).
  apply rnd64_mono in L2. rewrite rnd64_dyadic in L2 by lia. change (rnd64 (IZR sec + qR d)) with (sR d) in L2.
  unfold aR. lra.
Qed.

(* (ii) below 8 s the accumulated rounding error is at most 2^-39 *)
Lemma bpow0 : bpow radix2 0 = 1. Proof. reflexivity. Qed.
Lemma bpowm54 : bpow radix2 (0 - 54) = / 18014398509481984. Proof. bp. Qed.
Lemma bpow4 : bpow radix2 4 = 16. Proof. bp. Qed.
Lemma bpowm50 : bpow radix2 (4 - 54) = / 1125899906842624. Proof. bp. Qed.

Lemma a_err_small d : (0 <= d < 8000000000)%Z ->
  IZR d * 1024 / 1000000000 - / 549755813888 <= aR d <= IZR d * 1024 / 1000000000 + / 549755813888.
Proof.
  intros H.
  set (sec := (d / 1000000000)%Z). set (nsec := (d mod 1000000000)%Z).
  assert (Hs : (0 <= sec < 8)%Z) by (unfold sec; lia).
  assert (Hn : (0 <= nsec < 1000000000)%Z) by (unfold nsec; lia).
  assert (S0 : 0 <= IZR sec) by (apply IZR_le; lia).
  assert (S1 : IZR sec <= 7) by (apply IZR_le; lia).
  assert (N0 : 0 <= IZR nsec) by (apply IZR_le; lia).
  assert (N1 : IZR nsec <= 999999999) by (apply IZR_le; lia).
  assert (Q := q_range d ltac:(lia)).
  assert (E1 := rnd64_err 0 (IZR nsec / 1000000000) ltac:(lia)).
  rewrite bpow0, bpowm54 in E1. change (rnd64 (IZR nsec / 1000000000)) with (qR d) in E1.
  rewrite (Rabs_pos_eq (IZR nsec / 1000000000)) in E1 by (apply Rmult_le_pos; lra).
  specialize (E1 ltac:(lra)). apply Rabs_le_inv in E1.
  assert (E2 := rnd64_err 4 (IZR sec + qR d) ltac:(lia)).
  rewrite bpow4, bpowm50 in E2. change (rnd64 (IZR sec + qR d)) with (sR d) in E2.
  rewrite (Rabs_pos_eq (IZR sec + qR d)) in E2 by lra.
  specialize (E2 ltac:(lra)). apply Rabs_le_inv in E2.
  unfold aR. rewrite (IZR_d d). fold sec nsec. lra.
Qed.

Open Scope Z_scope.

(* ---------- the kernel is exact ---------- *)
Theorem ato_kernel_over : forall d, 0 <= d < 9223372036854775808 ->
  fst (ato_kernel d) = (1024 * d >? 8189 * 1000000000).
Proof.
  intros d H. change 9223372036854775808 with Dmax in H.
  destruct (a_link d H) as [Fa Va].
  rewrite ato_kernel_a. cbn [fst]. rewrite ltb_link by (auto using fin_c8189).
  rewrite FR_c8189, Va.
  destruct (Z_lt_dec (8189 * 1000000000) (1024 * d)) as [Hgt|Hle].
  - rewrite (gtb_true _ _ Hgt).
    apply Rlt_bool_true.
    destruct (Z_le_dec 8000000000 d) as [Hbig|Hsmall].
    + assert (L := a_ge_dyadic d 8192 H ltac:(lia) ltac:(lia)). lra.
    + assert (E := a_err_small d ltac:(unfold Dmax in H; lia)).
      assert (G : (8189 * 1000000000 + 512 <= 1024 * d)%Z) by lia.
      apply IZR_le in G. rewrite plus_IZR, !mult_IZR in G. lra.
  - rewrite (gtb_false (1024 * d) (8189 * 1000000000)) by lia.
    apply Rlt_bool_false.
    exact (a_le_dyadic d 8189 H ltac:(lia) ltac:(lia)).
Qed.

Theorem ato_kernel_floor : forall d, 0 <= d < 8000000000 ->
  snd (ato_kernel d) = (1024 * d) / 1000000000.
Proof.
  intros d H.
  assert (HD : 0 <= d < Dmax) by (unfold Dmax; lia).
  destruct (a_link d HD) as [Fa Va].
  rewrite ato_kernel_a. cbn [snd]. rewrite trunc_link, Va.
  set (k := (1024 * d) / 1000000000).
  assert (Hk : 0 <= k < 8192) by (unfold k; lia).
  assert (L := a_ge_dyadic d k HD ltac:(lia) ltac:(unfold k; lia)).
  assert (E := a_err_small d H).
  assert (G : (1024 * d + 512 <= 1000000000 * (k + 1))%Z) by (unfold k; lia).
  apply IZR_le in G. rewrite plus_IZR, !mult_IZR, plus_IZR in G.
  assert (K0 : (0 <= IZR k)%R) by (apply IZR_le; lia).
  rewrite Ztrunc_floor by lra.
  apply Zfloor_imp. rewrite plus_IZR. split; lra.
Qed.

(* below 8 s the whole pair is the exact one; from 8 s on the first component is true *)
Corollary ato_kernel_eq_exact : forall d, 0 <= d < 8000000000 -> ato_kernel d = exact_atok d.
Proof.
  intros d H. unfold exact_atok.
  rewrite <- (ato_kernel_over d) by lia. rewrite <- (ato_kernel_floor d H).
  destruct (ato_kernel d); reflexivity.
Qed.

(* getArrivalTimeOffset with the float kernel = the specified offset, for every
   clock pair whose difference fits a time.Duration *)
Theorem ato_float_exact : forall now arrival, now - arrival < 9223372036854775808 ->
  ato ato_kernel now arrival = ato_spec now arrival.
Proof.
  intros now ts H. unfold ato, ato_spec.
  destruct (now <? ts) eqn:E; [reflexivity|]. apply Z.ltb_ge in E. cbv zeta.
  assert (Ho := ato_kernel_over (now - ts) ltac:(lia)).
  destruct (Z_lt_dec (now - ts) 8000000000) as [Hs|Hb].
  - rewrite ato_kernel_eq_exact by lia. unfold exact_atok.
    destruct (1024 * (now - ts) >? 8189 * 1000000000) eqn:E2; [reflexivity|].
    rewrite Z.gtb_ltb in E2. apply Z.ltb_ge in E2. unfold u16. lia.
  - destruct (ato_kernel (now - ts)) as [o v]. cbn [fst] in Ho. rewrite Ho.
    rewrite (gtb_true (1024 * (now - ts)) (8189 * 1000000000)) by lia. reflexivity.
Qed.

(* the literal "exact for every d >= 0" is false for the float kernel: for d = 10^17 - 1 ns
   the truncated value (ignored by getArrivalTimeOffset, since the offset is far above
   0x1FFD) differs from the exact floor *)
Theorem ato_kernel_not_exact_everywhere : ~ exact_kernel ato_kernel.
Proof.
  intros H. specialize (H 99999999999999999 ltac:(lia)). revert H.
  vm_compute. intros H. discriminate H.
Qed.
