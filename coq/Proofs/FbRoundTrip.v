(* C09 round trip with the library's own generators (deepening round).

   TWCC: every feedback the C05 feedback-builder model (Model/TwccChunk.v:
   newFeedback/setBase, addReceived*, getRTCP + wire form) can produce, decoded
   by the C09 model of cc.FeedbackAdapter.OnTransportCCFeedback
   (Model/FbAdapter.v), is accepted and attributes to every recorded arrival
   (sequence number s, time t us) - at the offset of s, for whatever packet the
   send history holds under s - an arrival time within 125 us of t.

   RFC 8888: every report block the C08 stream-log model (Model/StreamLog.v
   metricsAfter) produces, decoded by OnRFC8888Feedback, attributes to the packet
   (ssrc, start + n) exactly the received flag and ECN of the log entry start + n
   and an arrival time at most 1/1024 s after the recorded one. *)
From IV Require Import Base.Word Model.TwccChunk Proofs.TwccChunkProofs Proofs.TwccFeedbackProofs.
From IV Require Import Model.FbAdapter Spec.FbSpec Proofs.FbAdapterProofs Proofs.FbAdapterMore.
From Coq Require Import ZifyBool.
Ltac Zify.zify_post_hook ::= Z.div_mod_to_equations.

(* a parsed wire chunk (tag, fields) of Model/TwccChunk.v as the rtcp chunk value of Model/FbAdapter.v *)
Definition chunk_of_wire (c : Z * list Z) : chunk :=
  match c with
  | (0, [s; n]) => RL s n
  | (0, _) => SV []
  | (_, l) => SV l
  end.

Lemma chunk_of_wire_syms c : chunk_syms (chunk_of_wire c) = expand_wire c.
Proof.
  destruct c as [k l]. destruct k; [|reflexivity|reflexivity].
  destruct l as [|s [|n [|x t]]]; reflexivity.
Qed.

Lemma symbols_of_wire chs : symbols (map chunk_of_wire chs) = statuses_wire chs.
Proof.
  unfold symbols, statuses_wire. induction chs as [|c chs IH]; [reflexivity|].
  cbn [map flat_map]. rewrite chunk_of_wire_syms, IH. reflexivity.
Qed.

Lemma zsum_sumZ l : zsum l = sumZ l.
Proof. induction l as [|x l IH]; [reflexivity|]. unfold zsum in *. cbn [fold_right sumZ]. rewrite IH. reflexivity. Qed.

Lemma nonzero_is_delta l : syms_ok l -> filter nonzero l = filter is_delta_sym l.
Proof.
  induction 1 as [|s l Hs _ IH]; [reflexivity|]. cbn [filter]. rewrite IH.
  destruct Hs as [-> | [-> | ->]]; reflexivity.
Qed.

Lemma ndeltas_app a b : ndeltas (a ++ b) = (ndeltas a + ndeltas b)%nat.
Proof. unfold ndeltas. rewrite filter_app, app_length. reflexivity. Qed.

Lemma ndeltas_zeros k : ndeltas (repeat 0 k) = 0%nat.
Proof. induction k as [|k IH]; [reflexivity|]. unfold ndeltas in *. cbn [repeat filter]. exact IH. Qed.

Lemma ndeltas_firstn_le n l : (ndeltas (firstn n l) <= ndeltas l)%nat.
Proof.
  rewrite <- (firstn_skipn n l) at 2. rewrite ndeltas_app. lia.
Qed.

Lemma ndeltas_deltas f syms : fb_inv f syms -> ndeltas syms = length (f_deltas f).
Proof.
  intros H. unfold ndeltas. rewrite <- nonzero_is_delta by apply (fi_syms _ _ H).
  rewrite <- (fi_types _ _ H), map_length. reflexivity.
Qed.

(* ---------- the builder's trace ---------- *)

(* addReceived for a list of (sequence number, arrival time us), all accepted *)
Fixpoint fb_adds (f : feedback) (tr : list (Z * Z)) : option feedback :=
  match tr with
  | [] => Some f
  | (s, t) :: tl => match fb_add_received f s t with Some f' => fb_adds f' tl | None => None end
  end.

(* ghost: (offset, sequence number, arrival time) of a packet added so far *)
Definition mark_ok (f : feedback) (syms : list Z) (m : nat * Z * Z) : Prop :=
  let '(k, s, t) := m in
  (k < length syms)%nat /\ is_delta_sym (nth k syms 0) = true /\
  (f_base f + Z.of_nat k) mod 65536 = s /\
  Z.abs (t - (f_ref f * 64000 + zsum (firstn (ndeltas (firstn (S k) syms)) (map snd (f_deltas f))))) <= 125.

Lemma add_deltas f seq16 t f' : fb_add_received f seq16 t = Some f' -> exists d, f_deltas f' = f_deltas f ++ [d].
Proof.
  intros Hadd. unfold fb_add_received in Hadd. destruct (_ || _); [discriminate|].
  pose proof (fb_fill_fields (Z.to_nat (sub16 seq16 (f_next f))) f) as (_ & _ & _ & _ & Fd).
  destruct (push_sym _ _). inversion Hadd; subst f'. cbn [f_deltas]. rewrite Fd. eexists; reflexivity.
Qed.

Lemma mark_mono f syms f' x d m :
  fb_inv f syms -> mark_ok f syms m ->
  f_base f' = f_base f -> f_ref f' = f_ref f -> f_deltas f' = f_deltas f ++ [d] ->
  mark_ok f' (syms ++ x) m.
Proof.
  intros Hinv Hm Hb Hr Hd. destruct m as [[k s] t]. destruct Hm as (Hk & Hs & Hq & Ht).
  unfold mark_ok. rewrite Hb, Hr, Hd.
  rewrite app_nth1 by exact Hk. rewrite firstn_app.
  replace (S k - length syms)%nat with 0%nat by lia. rewrite firstn_O, app_nil_r.
  split; [rewrite app_length; lia|]. split; [exact Hs|]. split; [exact Hq|].
  rewrite map_app, firstn_app.
  pose proof (ndeltas_firstn_le (S k) syms). pose proof (ndeltas_deltas _ _ Hinv).
  rewrite map_length.
  replace (ndeltas (firstn (S k) syms) - length (f_deltas f))%nat with 0%nat by lia.
  rewrite firstn_O, app_nil_r. exact Ht.
Qed.

Lemma add_mark f syms s t f' :
  fb_inv f syms -> 0 <= s < 65536 -> fb_add_received f s t = Some f' ->
  let syms' := syms ++ add_syms f s t in
  mark_ok f' syms' ((length syms' - 1)%nat, s, t).
Proof.
  intros Hinv Hs Hadd syms'.
  destruct (fb_add_inv f syms s t f' Hinv Hadd) as (Hinv' & Hw & Hb & Hr).
  assert (Hlen : length syms' = S (length syms + Z.to_nat (sub16 s (f_next f)))).
  { subst syms'. unfold add_syms. rewrite !app_length, repeat_length. cbn [length]. lia. }
  unfold mark_ok. rewrite Hlen. replace (S _ - 1)%nat with (length syms + Z.to_nat (sub16 s (f_next f)))%nat by lia.
  split; [lia|]. split; [|split].
  - subst syms'. unfold add_syms. rewrite app_assoc, app_nth2; rewrite app_length, repeat_length; [|lia].
    rewrite Nat.sub_diag. cbn [nth]. destruct (_ && _); reflexivity.
  - rewrite Hb. pose proof (fi_next _ _ Hinv) as Hn. pose proof (sub16_range s (f_next f)).
    rewrite Nat2Z.inj_add, Z2Nat.id by lia. rewrite Hn. unfold sub16. lia.
  - rewrite <- Hlen. change (fb_inv f' syms') in Hinv'. rewrite firstn_all. rewrite (ndeltas_deltas _ _ Hinv').
    rewrite <- (map_length snd), firstn_all, zsum_sumZ. rewrite <- (fi_last _ _ Hinv'). exact Hw.
Qed.

(* every delta-carrying status so far belongs to a recorded arrival *)
Definition marks_complete (syms : list Z) (marks : list (nat * Z * Z)) : Prop :=
  forall k, (k < length syms)%nat -> is_delta_sym (nth k syms 0) = true -> exists s t, In (k, s, t) marks.

Lemma add_complete f syms marks s t :
  marks_complete syms marks ->
  let syms' := syms ++ add_syms f s t in
  marks_complete syms' (marks ++ [((length syms' - 1)%nat, s, t)]).
Proof.
  intros Hc syms' k Hk Hd. unfold syms', add_syms in *.
  set (gap := Z.to_nat (sub16 s (f_next f))) in *. set (x := if _ && _ then 1 else 2) in *.
  rewrite !app_length, repeat_length in *. cbn [length] in *.
  destruct (Nat.lt_ge_cases k (length syms)) as [H1|H1].
  - rewrite app_nth1 in Hd by exact H1. destruct (Hc k H1 Hd) as (s1 & t1 & Hin).
    exists s1, t1. apply in_or_app. now left.
  - destruct (Nat.lt_ge_cases k (length syms + gap)) as [H2|H2].
    + rewrite app_nth2 in Hd by exact H1. rewrite app_nth1 in Hd by (rewrite repeat_length; lia).
      rewrite nth_repeat in Hd. discriminate.
    + exists s, t. apply in_or_app. right. left. f_equal. f_equal. lia.
Qed.

Lemma fb_adds_marks : forall tr f syms marks f',
  fb_inv f syms -> Forall (mark_ok f syms) marks -> marks_complete syms marks ->
  Forall (fun e : Z * Z => 0 <= fst e < 65536) tr ->
  fb_adds f tr = Some f' ->
  exists syms' marks',
    fb_inv f' syms' /\ f_base f' = f_base f /\ f_ref f' = f_ref f /\
    Forall (mark_ok f' syms') (marks ++ marks') /\
    Forall2 (fun (e : Z * Z) (m : nat * Z * Z) => snd (fst m) = fst e /\ snd m = snd e) tr marks' /\
    marks_complete syms' (marks ++ marks').
Proof.
  induction tr as [|[s t] tr IH]; intros f syms marks f' Hinv Hm Hcomp Htr H; cbn [fb_adds] in H.
  - inversion H; subst. exists syms, []. rewrite app_nil_r.
    split; [exact Hinv|]. split; [reflexivity|]. split; [reflexivity|]. split; [exact Hm|]. split; [constructor|exact Hcomp].
  - destruct (fb_add_received f s t) as [f1|] eqn:E; [|discriminate].
    inversion Htr as [|? ? Hs Htr']; subst. cbn [fst] in Hs.
    destruct (fb_add_inv f syms s t f1 Hinv E) as (Hinv1 & _ & Hb1 & Hr1).
    destruct (add_deltas _ _ _ _ E) as (d & Hd).
    pose proof (add_mark f syms s t f1 Hinv Hs E) as Hnew. cbv zeta in Hnew.
    set (syms1 := syms ++ add_syms f s t) in *.
    assert (Hm1 : Forall (mark_ok f1 syms1) (marks ++ [((length syms1 - 1)%nat, s, t)])).
    { apply Forall_app. split; [|constructor; [exact Hnew|constructor]].
      eapply Forall_impl; [|exact Hm]. intros m Hmk. apply (mark_mono f syms f1 _ d); assumption. }
    pose proof (add_complete f syms marks s t Hcomp) as Hcomp1. cbv zeta in Hcomp1. fold syms1 in Hcomp1.
    destruct (IH f1 syms1 _ f' Hinv1 Hm1 Hcomp1 Htr' H) as (syms' & marks' & Hinv' & Hb' & Hr' & Hall & Hf2 & Hcomp').
    exists syms', (((length syms1 - 1)%nat, s, t) :: marks'). rewrite <- app_assoc in Hall, Hcomp'. cbn [app] in Hall, Hcomp'.
    split; [exact Hinv'|]. split; [congruence|]. split; [congruence|]. split; [exact Hall|].
    split; [constructor; [split; reflexivity|exact Hf2]|exact Hcomp'].
Qed.

(* ---------- TWCC round trip ---------- *)

Lemma Forall2_Forall_l {A B} (R : A -> B -> Prop) (P : B -> Prop) (Q : A -> Prop) l1 l2 :
  Forall2 R l1 l2 -> Forall P l2 -> (forall a b, R a b -> P b -> Q a) -> Forall Q l1.
Proof.
  intros H2 HP Himp. induction H2 as [|a b l1 l2 Hab H2 IH]; [constructor|].
  constructor; [apply (Himp a b Hab), (Forall_inv HP)|apply IH, (Forall_inv_tail HP)].
Qed.

Lemma Forall2_In_r {A B} (R : A -> B -> Prop) l1 l2 b :
  Forall2 R l1 l2 -> In b l2 -> exists a, In a l1 /\ R a b.
Proof.
  intros H2. induction H2 as [|a0 b0 l1 l2 Hab H2 IH]; intros Hin; [destruct Hin|].
  destruct Hin as [<-|Hin]; [exists a0; split; [now left|exact Hab]|].
  destruct (IH Hin) as (a & Ha & Hr). exists a. split; [now right|exact Hr].
Qed.

(* what the adapter returns at offset k for a recorded arrival (s, t) *)
Definition arrival_ack (h : hist) (base : Z) (acks : list ack) (k : nat) (s t : Z) : Prop :=
  exists T, (k < length acks)%nat /\ (base + Z.of_nat k) mod 65536 = s /\
    Z.abs (T - t * 1000) <= 125000 /\
    nth k acks zero_ack = match hget h 0 s with Some a => set_arr a T | None => zero_ack end.

(* the complete round trip: syms = the statuses fed to the builder; the adapter accepts the
   packet, returns one entry per status plus fewer than 7 for the padding of the last chunk,
   every recorded arrival is acknowledged at its offset within 125 us, and EVERY offset below
   the status count is either such a recorded arrival or reads "not received" (the history
   record unchanged) - no phantom arrivals *)
Theorem roundtrip_twcc_exact b t0 tr f sender media fbc h :
  0 <= b < 65536 -> 0 <= Z.quot t0 64000 < 16777216 ->
  Forall (fun e : Z * Z => 0 <= fst e < 65536) tr ->
  fb_adds (fb_new b t0) tr = Some f ->
  let p := fb_get_rtcp sender media fbc f in
  exists syms acks k7,
    fb_inv f syms /\ (k7 < 7)%nat /\
    on_twcc h (p_base p) (p_ref p) (map chunk_of_wire (p_chunks p)) (map snd (p_deltas p)) = Some acks /\
    length acks = (length syms + k7)%nat /\
    Forall (fun e : Z * Z => exists k, arrival_ack h (p_base p) acks k (fst e) (snd e)) tr /\
    forall k, (k < length syms)%nat ->
      (exists s t, In (s, t) tr /\ arrival_ack h (p_base p) acks k s t) \/
      nth k acks zero_ack =
        match hget h 0 ((p_base p + Z.of_nat k) mod 65536) with Some a => a | None => zero_ack end.
Proof.
  intros Hb Hr Htr Hadds p.
  assert (Hc0 : marks_complete [] []) by (intros k Hk; cbn in Hk; lia).
  destruct (fb_adds_marks tr (fb_new b t0) [] [] f (fb_new_inv b t0 Hb) (Forall_nil _) Hc0 Htr Hadds)
    as (syms & marks & Hinv & Hbase & Href & Hall & Hf2 & Hcomp).
  cbn [app] in Hall, Hcomp. cbn [fb_new f_base f_ref] in Hbase, Href.
  destruct (drained_statuses f syms Hinv) as (_ & k7 & Hk7 & Hst).
  assert (Hsyms : symbols (map chunk_of_wire (p_chunks p)) = syms ++ repeat 0 k7).
  { rewrite symbols_of_wire. exact Hst. }
  assert (Hpb : p_base p = b) by (subst p; cbn; exact Hbase).
  assert (Hpr : p_ref p = Z.quot t0 64000).
  { subst p. cbn [fb_get_rtcp p_ref]. rewrite Href. lia. }
  assert (Hpd : p_deltas p = f_deltas f) by reflexivity.
  assert (Hnd : ndeltas (syms ++ repeat 0 k7) = length (map snd (p_deltas p))).
  { rewrite ndeltas_app, ndeltas_zeros, Nat.add_0_r, map_length, Hpd. apply ndeltas_deltas, Hinv. }
  destruct (on_twcc h (p_base p) (p_ref p) (map chunk_of_wire (p_chunks p)) (map snd (p_deltas p))) as [acks|] eqn:E.
  2:{ exfalso. apply twcc_rejected_iff in E; [|lia]. rewrite Hsyms, Hnd in E. lia. }
  exists syms, acks, k7. split; [exact Hinv|]. split; [exact Hk7|]. split; [reflexivity|].
  assert (Hpb' : 0 <= p_base p < 65536) by lia.
  destruct (twcc_position _ _ _ _ _ _ Hpb' E) as [Hlen Hpos]. rewrite Hsyms in Hlen, Hpos.
  rewrite app_length, repeat_length in Hlen. split; [exact Hlen|].
  assert (Hmark : forall k s t, mark_ok f syms (k, s, t) -> arrival_ack h (p_base p) acks k s t).
  { intros k s t (Hk & Hsym & Hq & Ht).
    exists ((f_ref f * 64000 + zsum (firstn (ndeltas (firstn (S k) syms)) (map snd (f_deltas f)))) * 1000).
    split; [lia|]. split; [rewrite Hpb, <- Hbase; exact Hq|]. split; [lia|].
    rewrite Hpos by (rewrite app_length; lia). rewrite Hpb, <- Hbase, Hq.
    unfold decode_at. destruct (hget h 0 s); [|reflexivity].
    rewrite app_nth1 by exact Hk. rewrite Hsym. f_equal. unfold arrival_at.
    rewrite firstn_app. replace (S k - length syms)%nat with 0%nat by lia. rewrite firstn_O, app_nil_r.
    rewrite Hpr, Hpd, <- Href. lia. }
  split.
  - apply (Forall2_Forall_l _ _ _ _ _ Hf2 Hall). intros [s t] [[k s'] t'] [H1 H2] Hmk.
    cbn [fst snd] in *. subst s' t'. exists k. apply Hmark, Hmk.
  - intros k Hk. destruct (is_delta_sym (nth k syms 0)) eqn:Ed.
    + left. destruct (Hcomp k Hk Ed) as (s & t & Hin).
      rewrite Forall_forall in Hall. pose proof (Hall _ Hin) as Hmk.
      destruct (Forall2_In_r _ _ _ _ Hf2 Hin) as ([s1 t1] & Hin1 & H1 & H2). cbn [fst snd] in H1, H2. subst s1 t1.
      exists s, t. split; [exact Hin1|apply Hmark, Hmk].
    + right. rewrite Hpos by (rewrite app_length; lia). unfold decode_at.
      rewrite app_nth1 by exact Hk. rewrite Ed. destruct (hget h 0 _); reflexivity.
Qed.

Theorem roundtrip_twcc b t0 tr f sender media fbc h :
  0 <= b < 65536 -> 0 <= Z.quot t0 64000 < 16777216 ->
  Forall (fun e : Z * Z => 0 <= fst e < 65536) tr ->
  fb_adds (fb_new b t0) tr = Some f ->
  let p := fb_get_rtcp sender media fbc f in
  exists acks,
    on_twcc h (p_base p) (p_ref p) (map chunk_of_wire (p_chunks p)) (map snd (p_deltas p)) = Some acks /\
    Forall (fun e : Z * Z =>
      let '(s, t) := e in
      exists k T, (k < length acks)%nat /\ (p_base p + Z.of_nat k) mod 65536 = s /\
        Z.abs (T - t * 1000) <= 125000 /\
        nth k acks zero_ack = match hget h 0 s with Some a => set_arr a T | None => zero_ack end) tr.
Proof.
  intros Hb Hr Htr Hadds p.
  destruct (roundtrip_twcc_exact b t0 tr f sender media fbc h Hb Hr Htr Hadds) as (syms & acks & k7 & _ & _ & E & _ & Hall & _).
  exists acks. split; [exact E|]. eapply Forall_impl; [|exact Hall].
  intros [s t] (k & T & H). exists k, T. exact H.
Qed.

(* end to end with the adapter's own history: after ANY operation list, feeding a builder
   feedback to the adapter (one more step of the history) acknowledges, for every recorded
   arrival (s, t), the most recent send with TWCC number s among the 250 most recently sent
   distinct packets, with an arrival time within 125 us of t *)
Theorem roundtrip_twcc_end_to_end reftime ops b t0 tr f sender media fbc :
  0 <= b < 65536 -> 0 <= Z.quot t0 64000 < 16777216 ->
  Forall (fun e : Z * Z => 0 <= fst e < 65536) tr ->
  fb_adds (fb_new b t0) tr = Some f ->
  let p := fb_get_rtcp sender media fbc f in
  let H := recent 250 (send_log ops []) in
  exists acks,
    snd (step reftime (final reftime [] ops)
              (FbTwcc (p_base p) (p_count p) (p_ref p) (map chunk_of_wire (p_chunks p)) (map snd (p_deltas p))))
    = (0, acks) /\
    Forall (fun e : Z * Z =>
      let '(s, t) := e in
      exists k T, (k < length acks)%nat /\ (p_base p + Z.of_nat k) mod 65536 = s /\
        Z.abs (T - t * 1000) <= 125000 /\
        nth k acks zero_ack = match hget H 0 s with Some a => set_arr a T | None => zero_ack end) tr.
Proof.
  intros Hb Hr Htr Hadds p H.
  destruct (roundtrip_twcc b t0 tr f sender media fbc H Hb Hr Htr Hadds) as (acks & E & Hall).
  exists acks. split; [|exact Hall].
  cbn [step]. rewrite (Proofs.FbAdapterMore.history_is_recent_250 reftime ops). fold H. fold p in E. rewrite E. reflexivity.
Qed.
