(* C07 deepening: the EXECUTABLE RTP-time kernel (binary64, Model/SenderStream.v
   elapsed_kernel) satisfies the accuracy hypotheses of the oracle-soundness
   lemmas for elapsed times of BOTH signs, so that the history-level statements
   about the RTP time of a report hold for non-monotone clocks without any
   hypothesis on the kernel. *)
From IV Require Import Base.Word Base.F64 Model.Ntp Model.SenderStream Spec.SenderSpec
  Proofs.SenderStreamProofs Proofs.ReportFloatProofs Proofs.ReportFloatMore Check.C07Check.
From Coq Require Import ZifyBool.
Ltac Zify.zify_post_hook ::= Z.div_mod_to_equations.

Lemma kernel_range d rate : 0 <= elapsed_kernel d rate < 4294967296.
Proof.
  unfold elapsed_kernel, f64_to_u32. destruct (_ || _); [lia|]. apply Z.mod_pos_bound. lia.
Qed.

Lemma s32_small e : Z.abs e < 2147483648 -> forall k x, 0 <= k < 4294967296 ->
  s32 (k - x) = e -> k = (x + e) mod 4294967296.
Proof. intros He k x Hk. unfold s32. cbv zeta. destruct (_ <? 2147483648) eqn:?; lia. Qed.

Lemma s32_cong a b : a mod 4294967296 = b mod 4294967296 -> s32 a = s32 b.
Proof. intros H. unfold s32. rewrite H. reflexivity. Qed.

(* the two kernel hypotheses of Check/C07Check.v OracleSound / OracleSound2, for the executable kernel *)
Lemma exec_ek_accurate rate : 0 <= rate < 4294967296 ->
  forall d, 0 <= d <= MaxDur -> d * rate / 1000000000 < 4611686018427387904 ->
    exists e, Z.abs e <= 1 + (d * rate / 1000000000) / 1125899906842624 /\
              elapsed_kernel d rate = (d * rate / 1000000000 + e) mod 4294967296.
Proof.
  intros Hr d Hd He.
  assert (O := elapsed_kernel_oracle d rate Hd Hr He). cbv zeta in O.
  set (x := d * rate / 1000000000) in *.
  assert (X0 : 0 <= x) by (unfold x; apply Z.div_pos; nia).
  exists (s32 (elapsed_kernel d rate - x)). split. exact O.
  apply (s32_small (s32 (elapsed_kernel d rate - x))); [lia|apply kernel_range|reflexivity].
Qed.

Lemma exec_ek_accurate_neg rate : 0 <= rate < 4294967296 ->
  forall d, 0 < d <= MaxDur -> d * rate / 1000000000 < 4611686018427387904 ->
    exists e, Z.abs e <= 1 + (d * rate / 1000000000) / 1125899906842624 /\
              elapsed_kernel (- d) rate = (- (d * rate / 1000000000) + e) mod 4294967296.
Proof.
  intros Hr d Hd He.
  assert (X0 : 0 <= d * rate / 1000000000) by (apply Z.div_pos; nia).
  assert (O := elapsed_kernel_signed_oracle (- d) rate ltac:(lia) Hr). cbv zeta in O.
  rewrite exact_ticks_neg in O by lia. rewrite Z.abs_opp, Z.abs_eq in O by lia.
  specialize (O He).
  set (x := d * rate / 1000000000) in *.
  exists (s32 (elapsed_kernel (- d) rate - - x)). split. exact O.
  apply (s32_small (s32 (elapsed_kernel (- d) rate - - x))); [lia|apply kernel_range|reflexivity].
Qed.

(* the report the model produces with the executable RTP-time kernel passes the
   extended oracle (codes 1..4 and 6) after every history, at every report instant,
   monotone clock or not; only the NTP kernel keeps its accuracy hypothesis (C20Float) *)
Theorem exec_model_passes_oracle2 k1 rate ul : 0 <= rate < 4294967296 ->
  (forall now, 0 <= now < 2085978496 * 1000000000 -> Z.abs (to_ntp k1 now - ntp_exact now) <= 8192) ->
  forall h now, report_code2 rate ul h now (sp_report elapsed_kernel k1 rate ul h now) = 0%nat.
Proof.
  intros Hr Hk h now. apply model_passes_oracle2; auto. lia.
  apply exec_ek_accurate; assumption. apply exec_ek_accurate_neg; assumption.
Qed.

(* RTP time of the report after history h at instant now, whatever the sign of the
   elapsed time: reference timestamp + (now - t_ref) * rate / 1e9 (rounded toward
   zero), modulo 2^32, within 1 tick + 2^-50 relative *)
Theorem rtp_time_any_clock k1 rate ul h now ts t :
  0 <= rate < 4294967296 ->
  sp_ref (sp_accepted ul [] h) = Some (ts, t) ->
  - MaxDur <= now - t <= MaxDur ->
  let ex := exact_ticks (now - t) rate in
  Z.abs ex < 4611686018427387904 ->
  let '(_, rtp, _, _) := s_report elapsed_kernel k1 rate (s_final elapsed_kernel k1 rate ul s_init h) now in
  Z.abs (s32 (rtp - ts - ex)) <= 1 + Z.abs ex / 1125899906842624.
Proof.
  intros Hr Href Hd ex Hex.
  rewrite report_after. unfold sp_report. rewrite Href.
  assert (D : dur_sub now t = now - t).
  { unfold dur_sub, MinDur, MaxDur in *. destruct (now - t <? _) eqn:?; [lia|]. destruct (_ <? now - t) eqn:?; lia. }
  rewrite D.
  assert (O := elapsed_kernel_signed_oracle (now - t) rate Hd Hr Hex). fold ex in O.
  rewrite (s32_cong _ (elapsed_kernel (now - t) rate - ex)). exact O.
  set (K := elapsed_kernel (now - t) rate). clearbody K. clear O. clearbody ex. lia.
Qed.

(* hence, while the exact value stays below 2^31 ticks in magnitude, a clock that
   stepped back by b ns makes the report carry ts - b*rate/1e9 (within one tick,
   modulo 2^32): the RTP/NTP pair of the report still lies on the line through the
   reference point with slope rate - what a receiver needs for lip-sync *)
Example rtp_time_backward_clock_nonvacuous :
  s_run elapsed_kernel ntp_kernel 90000 false s_init
    [SRtp 1700000001000000000 7 1000000 100; SRep 1700000000000000000; SRep 1700000002500000000]
  = [(to_ntp ntp_kernel 1700000000000000000, 1000000 - 90000, 1, 100);
     (to_ntp ntp_kernel 1700000002500000000, 1000000 + 135000, 1, 100)].
Proof. vm_compute. reflexivity. Qed.
