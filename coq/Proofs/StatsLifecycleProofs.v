(* The interceptor with its life cycle (Model/StatsLifecycle.v) is, for every
   stream, the single-recorder model run on what the per-stream scan of the
   history (Spec/StatsLifeSpec.v) says the stream's current recorder has seen. *)
From IV Require Import Base.Word Model.StatsRecorder Model.StatsLifecycle Spec.StatsLifeSpec.

Lemma memz_In x l : memz x l = true <-> In x l.
Proof.
  unfold memz. rewrite existsb_exists. split.
  - intros (y & Hy & E). apply Z.eqb_eq in E. subst. exact Hy.
  - intros H. exists x. split; [exact H|apply Z.eqb_refl].
Qed.

Lemma memz_false x l : memz x l = false <-> ~ In x l.
Proof.
  rewrite <- memz_In. destruct (memz x l); split; intros H.
  - discriminate.
  - exfalso. apply H. reflexivity.
  - discriminate.
  - reflexivity.
Qed.

Section P.
  Context {F : Type} (fzero : F) (k_units : Z -> Z -> Z) (k_jitter : Z -> F -> Z -> F)
          (k_rjitter : Z -> Z -> F) (k_frac : Z -> F) (k_delay : Z -> Z) (k_ntpfrac : Z -> Z).
  Notation run := (run fzero k_units k_jitter k_rjitter k_frac k_delay k_ntpfrac).
  Notation step := (step k_units k_jitter k_rjitter k_frac k_delay k_ntpfrac).
  Notation lstep := (lstep fzero k_units k_jitter k_rjitter k_frac k_delay k_ntpfrac).
  Notation lrun := (lrun fzero k_units k_jitter k_rjitter k_frac k_delay k_ntpfrac).
  Notation deliver := (deliver k_units k_jitter k_rjitter k_frac k_delay k_ntpfrac).

  Lemma run_snoc1 s r l e : run s r (l ++ [e]) = step s r (run s r l) e.
  Proof. unfold StatsRecorder.run. rewrite fold_left_app. reflexivity. Qed.

  (* identifiers in use are below the number of binds *)
  Definition GI (g : gstate F) : Prop :=
    (forall hd rid, gs_handles g hd = Some rid -> hd < gs_nb g /\ rid < gs_nb g) /\
    (forall rid r, gs_recs g rid = Some r -> rid < gs_nb g).

  Definition InvS (s : Z) (g : gstate F) (v : view) : Prop :=
    gs_closed g = v_closed v /\ gs_nb g = v_nb v /\
    match v_cur v with
    | None => gs_map g s = None
    | Some r =>
        gs_map g s = Some (vr_id r) /\
        gs_recs g (vr_id r) =
          Some (mkG s (vr_rate r) (vr_pending r) (vr_running r) (run s (vr_rate r) (vr_evs r))) /\
        (forall hd, gs_handles g hd = Some (vr_id r) <-> In hd (vr_handles r))
    end.

  Lemma on_one_same (recs : Z -> option (grec F)) rid f r :
    recs rid = Some r -> on_one recs rid f rid = Some (f r).
  Proof. intros H. unfold on_one. rewrite H. unfold upd. rewrite Z.eqb_refl. reflexivity. Qed.

  Lemma on_one_other (recs : Z -> option (grec F)) rid f x : x <> rid -> on_one recs rid f x = recs x.
  Proof.
    intros H. unfold on_one. destruct (recs rid); [|reflexivity].
    unfold upd. destruct (Z.eqb_spec x rid); [contradiction|reflexivity].
  Qed.

  Lemma on_one_dom (recs : Z -> option (grec F)) rid f x r' :
    on_one recs rid f x = Some r' -> exists r, recs x = Some r.
  Proof.
    destruct (Z.eq_dec x rid) as [->|N].
    - unfold on_one. destruct (recs rid) eqn:E; [eauto|]. intros H. rewrite E in H. discriminate.
    - rewrite on_one_other by exact N. eauto.
  Qed.

  Lemma on_mapped_dom m (recs : Z -> option (grec F)) f x r' :
    on_mapped m recs f x = Some r' -> exists r, recs x = Some r.
  Proof. unfold on_mapped. destruct (recs x); [eauto|discriminate]. Qed.

  (* the recorder registered for a stream carries that stream's SSRC: two streams never share one *)
  Lemma owner (g : gstate F) (V : Z -> view) s s' rid :
    (forall t, InvS t g (V t)) -> gs_map g s = Some rid -> gs_map g s' = Some rid -> s = s'.
  Proof.
    intros H E1 E2.
    pose proof (H s) as (_ & _ & H1). pose proof (H s') as (_ & _ & H2).
    destruct (v_cur (V s)) as [r|]; [|congruence]. destruct (v_cur (V s')) as [r'|]; [|congruence].
    destruct H1 as (A1 & B1 & _). destruct H2 as (A2 & B2 & _).
    assert (vr_id r = rid) by congruence. assert (vr_id r' = rid) by congruence.
    rewrite H0 in B1. rewrite H1 in B2. rewrite B1 in B2. inversion B2. reflexivity.
  Qed.

  Lemma inv_step (g : gstate F) (V : Z -> view) ev :
    GI g -> (forall s, InvS s g (V s)) ->
    GI (lstep g ev) /\ forall s, InvS s (lstep g ev) (vstep s (V s) ev).
  Proof.
    intros [GH GR] HV.
    destruct ev as [s' rate|rid|s'|  |hd e|e]; simpl.
    - (* ---------------- Bind ---------------- *)
      destruct (gs_map g s') as [rid'|] eqn:Em.
      + (* the stream has a recorder: the new handle captures it *)
        split.
        * split; simpl.
          -- intros h0 r0. unfold upd. destruct (Z.eqb_spec h0 (gs_nb g)).
             ++ intros E. inversion E. subst.
                pose proof (HV s') as (_ & _ & H3). destruct (v_cur (V s')) as [r|]; [|congruence].
                destruct H3 as (A & B & _). assert (vr_id r = r0) by congruence. subst r0.
                apply GR in B. lia.
             ++ intros E. apply GH in E. lia.
          -- intros r0 x E. apply GR in E. lia.
        * intros s. pose proof (HV s) as (Hc & Hn & H3). unfold InvS. simpl.
          split; [exact Hc|]. split; [lia|].
          destruct (Z.eqb_spec s' s) as [->|Ns].
          -- destruct (v_cur (V s)) as [r|]; [|congruence]. destruct H3 as (A & B & C). simpl.
             assert (vr_id r = rid') by congruence.
             split; [exact A|]. split; [exact B|].
             intros h0. unfold upd. rewrite <- Hn. destruct (Z.eqb_spec h0 (gs_nb g)).
             ++ subst h0. split; [auto|]. intros _. congruence.
             ++ rewrite C. split; [auto|]. intros [E|E]; [congruence|exact E].
          -- destruct (v_cur (V s)) as [r|]; [|exact H3]. destruct H3 as (A & B & C).
             split; [exact A|]. split; [exact B|].
             intros h0. unfold upd. destruct (Z.eqb_spec h0 (gs_nb g)).
             ++ subst h0. split.
                ** intros E. inversion E. subst rid'. exfalso. apply Ns. eapply owner; eauto.
                ** intros E. apply C in E. apply GH in E. lia.
             ++ apply C.
      + (* no recorder for the stream: one is created *)
        split.
        * split; simpl.
          -- intros h0 r0. unfold upd. destruct (Z.eqb_spec h0 (gs_nb g)).
             ++ intros E. inversion E. lia.
             ++ intros E. apply GH in E. lia.
          -- intros r0 x. unfold upd. destruct (Z.eqb_spec r0 (gs_nb g)); [lia|].
             intros E. apply GR in E. lia.
        * intros s. pose proof (HV s) as (Hc & Hn & H3). unfold InvS. simpl.
          split; [exact Hc|]. split; [lia|].
          destruct (Z.eqb_spec s' s) as [->|Ns].
          -- destruct (v_cur (V s)) as [r|]; [destruct H3; congruence|].
             rewrite <- Hc. destruct (gs_closed g); simpl.
             ++ exact H3.
             ++ rewrite <- Hn. split; [unfold upd; rewrite Z.eqb_refl; reflexivity|].
                split; [unfold upd; rewrite Z.eqb_refl; reflexivity|].
                intros h0. unfold upd. destruct (Z.eqb_spec h0 (gs_nb g)).
                ** subst. split; auto.
                ** split.
                   --- intros E. apply GH in E. lia.
                   --- intros [E|[]]. congruence.
          -- destruct (v_cur (V s)) as [r|].
             ++ destruct H3 as (A & B & C).
                assert (Hlt : vr_id r < gs_nb g) by (apply GR in B; exact B).
                split; [destruct (gs_closed g); [exact A|]; unfold upd; destruct (Z.eqb_spec s s'); [congruence|exact A]|].
                split; [unfold upd; destruct (Z.eqb_spec (vr_id r) (gs_nb g)); [lia|exact B]|].
                intros h0. unfold upd. destruct (Z.eqb_spec h0 (gs_nb g)).
                ** subst h0. split.
                   --- intros E. inversion E. lia.
                   --- intros E. apply C in E. apply GH in E. lia.
                ** apply C.
             ++ destruct (gs_closed g); [exact H3|]. unfold upd. destruct (Z.eqb_spec s s'); [congruence|exact H3].
    - (* ---------------- the Start goroutine of recorder rid ---------------- *)
      split.
      + split; simpl; [exact GH|]. intros r0 x E. apply on_one_dom in E as [r1 E]. eapply GR; eauto.
      + intros s. pose proof (HV s) as (Hc & Hn & H3). unfold InvS. simpl.
        split; [exact Hc|]. split; [exact Hn|].
        destruct (v_cur (V s)) as [r|]; [|exact H3]. destruct H3 as (A & B & C).
        destruct (Z.eqb_spec (vr_id r) rid) as [E|N]; simpl.
        * subst rid. destruct (vr_pending r) eqn:Ep; simpl.
          -- split; [exact A|]. split; [|exact C].
             erewrite on_one_same by exact B. unfold start. simpl. reflexivity.
          -- split; [exact A|]. split; [|exact C].
             erewrite on_one_same by exact B. unfold start. simpl. rewrite ?Ep. reflexivity.
        * split; [exact A|]. split; [|exact C]. rewrite on_one_other by exact N. exact B.
    - (* ---------------- Unbind ---------------- *)
      destruct (gs_map g s') as [rid'|] eqn:Em.
      + split.
        * split; simpl; [exact GH|]. intros r0 x E. apply on_one_dom in E as [r1 E]. eapply GR; eauto.
        * intros s. pose proof (HV s) as (Hc & Hn & H3). unfold InvS. simpl.
          split; [exact Hc|]. split; [exact Hn|].
          destruct (Z.eqb_spec s' s) as [->|Ns].
          -- unfold upd. rewrite Z.eqb_refl. reflexivity.
          -- destruct (v_cur (V s)) as [r|].
             ++ destruct H3 as (A & B & C).
                split; [unfold upd; destruct (Z.eqb_spec s s'); [congruence|exact A]|].
                split; [|exact C]. rewrite on_one_other; [exact B|].
                intros E. apply Ns. symmetry. eapply owner; eauto. congruence.
             ++ unfold upd. destruct (Z.eqb_spec s s'); [congruence|exact H3].
      + split; [split; assumption|].
        intros s. pose proof (HV s) as (Hc & Hn & H3). unfold InvS. simpl.
        split; [exact Hc|]. split; [exact Hn|].
        destruct (Z.eqb_spec s' s) as [->|Ns]; [exact Em|exact H3].
    - (* ---------------- Close ---------------- *)
      split.
      + split; simpl; [exact GH|]. intros r0 x E. apply on_mapped_dom in E as [r1 E]. eapply GR; eauto.
      + intros s. pose proof (HV s) as (Hc & Hn & H3). unfold InvS. simpl.
        split; [reflexivity|]. split; [exact Hn|].
        destruct (v_cur (V s)) as [r|]; [|exact H3]. destruct H3 as (A & B & C). simpl.
        split; [exact A|]. split; [|exact C].
        unfold on_mapped. rewrite B. unfold in_map. simpl. rewrite A, Z.eqb_refl. reflexivity.
    - (* ---------------- RTP through handle hd ---------------- *)
      destruct (gs_handles g hd) as [rid|] eqn:Eh.
      + split.
        * split; simpl; [exact GH|]. intros r0 x E. apply on_one_dom in E as [r1 E]. eapply GR; eauto.
        * intros s. pose proof (HV s) as (Hc & Hn & H3). unfold InvS. simpl.
          split; [exact Hc|]. split; [exact Hn|].
          destruct (v_cur (V s)) as [r|]; [|exact H3]. destruct H3 as (A & B & C).
          destruct (Z.eq_dec rid (vr_id r)) as [->|N].
          -- assert (Hm : memz hd (vr_handles r) = true) by (apply memz_In, C; exact Eh).
             rewrite Hm, andb_true_r. destruct (vr_running r) eqn:Er; simpl.
             ++ split; [exact A|]. split; [|exact C].
                erewrite on_one_same by exact B. unfold StatsLifecycle.deliver. simpl. rewrite ?Er.
                rewrite run_snoc1. reflexivity.
             ++ split; [exact A|]. split; [|exact C].
                erewrite on_one_same by exact B. unfold StatsLifecycle.deliver. simpl. rewrite ?Er. reflexivity.
          -- assert (Hm : memz hd (vr_handles r) = false).
             { apply memz_false. intros E. apply C in E. congruence. }
             rewrite Hm, andb_false_r.
             split; [exact A|]. split; [|exact C]. rewrite on_one_other by auto. exact B.
      + split; [split; assumption|].
        intros s. pose proof (HV s) as (Hc & Hn & H3). unfold InvS. simpl.
        split; [exact Hc|]. split; [exact Hn|].
        destruct (v_cur (V s)) as [r|]; [|exact H3]. destruct H3 as (A & B & C).
        assert (Hm : memz hd (vr_handles r) = false).
        { apply memz_false. intros E. apply C in E. congruence. }
        rewrite Hm, andb_false_r. auto.
    - (* ---------------- RTCP: every recorder of the map ---------------- *)
      split.
      + split; simpl; [exact GH|]. intros r0 x E. apply on_mapped_dom in E as [r1 E]. eapply GR; eauto.
      + intros s. pose proof (HV s) as (Hc & Hn & H3). unfold InvS. simpl.
        split; [exact Hc|]. split; [exact Hn|].
        destruct (v_cur (V s)) as [r|]; [|exact H3]. destruct H3 as (A & B & C).
        assert (Hd : on_mapped (gs_map g) (gs_recs g) (deliver e) (vr_id r) =
                     Some (deliver e (mkG s (vr_rate r) (vr_pending r) (vr_running r) (run s (vr_rate r) (vr_evs r))))).
        { unfold on_mapped. rewrite B. unfold in_map. simpl. rewrite A, Z.eqb_refl. reflexivity. }
        destruct (vr_running r) eqn:Er; simpl.
        * split; [exact A|]. split; [|exact C]. rewrite Hd. unfold StatsLifecycle.deliver. simpl.
          rewrite run_snoc1. reflexivity.
        * split; [exact A|]. split; [|exact C]. rewrite Hd. unfold StatsLifecycle.deliver. simpl. rewrite ?Er. reflexivity.
  Qed.

  Lemma inv_fold h : forall (g : gstate F) (V : Z -> view),
    GI g -> (forall s, InvS s g (V s)) ->
    forall s, InvS s (fold_left lstep h g) (fold_left (vstep s) h (V s)).
  Proof.
    induction h as [|ev h IH]; intros g V HG HV s; simpl; [apply HV|].
    destruct (inv_step g V ev HG HV) as [HG' HV'].
    exact (IH (lstep g ev) (fun t => vstep t (V t) ev) HG' HV' s).
  Qed.

  Lemma inv_run h s : InvS s (lrun h) (view_of s h).
  Proof.
    unfold StatsLifecycle.lrun, view_of.
    apply (inv_fold h gs0 (fun _ => view0)).
    - split; intros ? ? E; discriminate.
    - intros t. repeat split.
  Qed.

  (* Get(ssrc) = the recorder model on what the stream's current recorder has seen *)
  Lemma lget_spec s h :
    lget fzero k_units k_jitter k_rjitter k_frac k_delay k_ntpfrac s h =
    match seen_by s h with
    | Some (rate, evs) => Some (run s rate evs)
    | None => None
    end.
  Proof.
    unfold lget, gget, seen_by. pose proof (inv_run h s) as (_ & _ & H).
    destruct (v_cur (view_of s h)) as [r|].
    - destruct H as (A & B & _). rewrite A, B. reflexivity.
    - rewrite H. reflexivity.
  Qed.
End P.

(* ---------------- the scan, read off the history ---------------- *)
Lemma view_snoc s h ev : view_of s (h ++ [ev]) = vstep s (view_of s h) ev.
Proof. unfold view_of. rewrite fold_left_app. reflexivity. Qed.

Lemma view_nb s h : v_nb (view_of s h) = nbinds h.
Proof.
  induction h as [|ev h IH] using rev_ind; [reflexivity|].
  rewrite view_snoc. unfold nbinds in *. rewrite filter_app, app_length, Nat2Z.inj_add, <- IH.
  destruct ev; simpl; lia.
Qed.

Lemma view_closed s h : v_closed (view_of s h) = closed_in h.
Proof.
  induction h as [|ev h IH] using rev_ind; [reflexivity|].
  rewrite view_snoc. unfold closed_in in *. rewrite existsb_app, <- IH.
  destruct ev; simpl; rewrite ?orb_false_r, ?orb_true_r; reflexivity.
Qed.

(* never bound, or unbound and not bound again: Get is nil *)
Lemma view_unbound s h : existsb (is_lbind s) h = false -> v_cur (view_of s h) = None.
Proof.
  induction h as [|ev h IH] using rev_ind; [reflexivity|].
  rewrite existsb_app. intros H. apply orb_false_iff in H as [H1 H2]. simpl in H2. rewrite orb_false_r in H2.
  rewrite view_snoc. specialize (IH H1).
  destruct ev; simpl in *; rewrite ?IH, ?H2; try reflexivity.
  destruct (s0 =? s); reflexivity.
Qed.

Lemma seen_never_bound s h : existsb (is_lbind s) h = false -> seen_by s h = None.
Proof. intros H. unfold seen_by. rewrite view_unbound by exact H. reflexivity. Qed.

(* the scan after an Unbind of s depends on what came before only through the
   number of binds and whether Close had begun *)
Lemma view_fold_cur_none s h2 : forall v v',
  v_cur v = None -> v_cur v' = None -> v_closed v = v_closed v' -> v_nb v = v_nb v' ->
  fold_left (vstep s) h2 v = fold_left (vstep s) h2 v'.
Proof.
  intros v v' A B C D. destruct v as [c n cur], v' as [c' n' cur']. simpl in *. subst. reflexivity.
Qed.

Lemma view_after_unbind s h1 h1' h2 :
  nbinds h1 = nbinds h1' -> closed_in h1 = closed_in h1' ->
  view_of s (h1 ++ LUnbind s :: h2) = view_of s (h1' ++ LUnbind s :: h2).
Proof.
  intros Hn Hc. unfold view_of. rewrite !fold_left_app. simpl.
  apply view_fold_cur_none; simpl; rewrite ?Z.eqb_refl; try reflexivity.
  - fold (view_of s h1). fold (view_of s h1'). rewrite !view_closed. exact Hc.
  - fold (view_of s h1). fold (view_of s h1'). rewrite !view_nb. exact Hn.
Qed.

Lemma seen_after_unbind s h1 h1' h2 :
  nbinds h1 = nbinds h1' -> closed_in h1 = closed_in h1' ->
  seen_by s (h1 ++ LUnbind s :: h2) = seen_by s (h1' ++ LUnbind s :: h2).
Proof. intros. unfold seen_by. rewrite (view_after_unbind s h1 h1' h2) by assumption. reflexivity. Qed.

(* unbound and not bound again *)
Lemma seen_unbound_tail s h1 h2 : existsb (is_lbind s) h2 = false -> seen_by s (h1 ++ LUnbind s :: h2) = None.
Proof.
  intros H. unfold seen_by, view_of. rewrite fold_left_app. simpl.
  set (v := mkView _ _ _).
  assert (G : forall h v, v_cur v = None -> existsb (is_lbind s) h = false -> v_cur (fold_left (vstep s) h v) = None).
  { clear. induction h as [|ev h IH]; intros v Hv Hb; simpl; [exact Hv|].
    simpl in Hb. apply orb_false_iff in Hb as [H1 H2]. apply IH; [|exact H2].
    destruct ev; simpl in *; rewrite ?Hv, ?H1; try reflexivity. destruct (s0 =? s); reflexivity. }
  rewrite G; [reflexivity| |exact H]. unfold v. simpl. rewrite Z.eqb_refl. reflexivity.
Qed.

(* a bind of s while it has no recorder and Close has not begun creates a fresh
   recorder with THAT bind's clock rate and an empty history *)
Lemma seen_fresh_bind s h rate :
  seen_by s h = None -> closed_in h = false -> seen_by s (h ++ [LBind s rate]) = Some (rate, []).
Proof.
  unfold seen_by. intros H Hc. rewrite view_snoc. simpl. rewrite Z.eqb_refl, view_closed, Hc.
  destruct (v_cur (view_of s h)); [discriminate|]. reflexivity.
Qed.

(* ... and a bind after Close has begun creates nothing *)
Lemma seen_bind_after_close s h rate :
  seen_by s h = None -> closed_in h = true -> seen_by s (h ++ [LBind s rate]) = None.
Proof.
  unfold seen_by. intros H Hc. rewrite view_snoc. simpl. rewrite Z.eqb_refl, view_closed, Hc.
  destruct (v_cur (view_of s h)); [discriminate|]. reflexivity.
Qed.

(* binding a stream that has a recorder keeps recorder, rate and history *)
Lemma seen_rebind_keeps s h rate x : seen_by s h = Some x -> seen_by s (h ++ [LBind s rate]) = Some x.
Proof.
  unfold seen_by. intros H. rewrite view_snoc. simpl. rewrite Z.eqb_refl.
  destruct (v_cur (view_of s h)); [exact H|discriminate].
Qed.

(* nothing is recorded before the Start goroutine has run: while the recorder is pending its history stays empty *)
Lemma pending_sees_nothing s h r :
  v_cur (view_of s h) = Some r -> vr_pending r = true -> vr_running r = false /\ vr_evs r = [].
Proof.
  revert r. induction h as [|ev h IH] using rev_ind; [discriminate|].
  intros r. rewrite view_snoc.
  destruct ev as [s' rate|rid|s'|  |hd e|e]; simpl.
  - destruct (s' =? s).
    + destruct (v_cur (view_of s h)) as [r0|] eqn:E.
      * intros H Hp. inversion H. subst r. simpl in *. apply (IH r0); auto.
      * destruct (v_closed (view_of s h)); [discriminate|]. intros H _. inversion H. auto.
    + apply IH.
  - destruct (v_cur (view_of s h)) as [r0|] eqn:E; [|discriminate].
    destruct ((vr_id r0 =? rid) && vr_pending r0).
    + intros H Hp. inversion H. subst r. discriminate.
    + intros H Hp. inversion H. subst r. apply (IH r0); auto.
  - destruct (s' =? s); [discriminate|apply IH].
  - destruct (v_cur (view_of s h)) as [r0|] eqn:E; [|discriminate].
    intros H Hp. inversion H. subst r. simpl in *. discriminate.
  - destruct (v_cur (view_of s h)) as [r0|] eqn:E; [|discriminate].
    destruct (vr_running r0 && memz hd (vr_handles r0)) eqn:Ec.
    + intros H Hp. inversion H. subst r. simpl in *.
      destruct (IH r0 eq_refl Hp) as [Hr _]. rewrite Hr in Ec. discriminate.
    + intros H Hp. inversion H. subst r. apply (IH r0); auto.
  - destruct (v_cur (view_of s h)) as [r0|] eqn:E; [|discriminate].
    destruct (vr_running r0) eqn:Ec.
    + intros H Hp. inversion H. subst r. simpl in *.
      destruct (IH r0 eq_refl Hp) as [Hr _]. congruence.
    + intros H Hp. inversion H. subst r. apply (IH r0); auto.
Qed.

(* Stop is final.  Once the stream's recorder is neither pending nor running (Close
   stopped it; an Unbind removes it from the map altogether) nothing that follows -
   in particular no Start goroutine that runs late, no traffic, no further Close -
   changes the recorder or what it has seen, as long as the stream is not unbound. *)
Definition vr_stopped (r : vrec) : bool := negb (vr_pending r) && negb (vr_running r).

Lemma stopped_step s v ev r :
  v_cur v = Some r -> vr_stopped r = true -> is_lunbind s ev = false ->
  exists r', v_cur (vstep s v ev) = Some r' /\ vr_stopped r' = true /\
             vr_id r' = vr_id r /\ vr_rate r' = vr_rate r /\ vr_evs r' = vr_evs r.
Proof.
  intros Hc Hs Hu. unfold vr_stopped in Hs. apply andb_true_iff in Hs as [Hp Hr].
  apply negb_true_iff in Hp. apply negb_true_iff in Hr.
  destruct ev as [s' rate|rid|s'|  |hd e|e]; simpl in *; rewrite Hc.
  - destruct (s' =? s).
    + eexists. split; [reflexivity|]. unfold vr_stopped. simpl. rewrite Hp, Hr. auto.
    + exists r. unfold vr_stopped. rewrite Hp, Hr. auto.
  - rewrite Hp, andb_false_r. exists r. unfold vr_stopped. rewrite Hp, Hr. auto.
  - rewrite Hu. exists r. unfold vr_stopped. rewrite Hp, Hr. auto.
  - eexists. split; [reflexivity|]. unfold vr_stopped. simpl. auto.
  - rewrite Hr. simpl. exists r. unfold vr_stopped. rewrite Hp, Hr. auto.
  - rewrite Hr. exists r. unfold vr_stopped. rewrite Hp, Hr. auto.
Qed.

Lemma stopped_fold s h2 : forall v r,
  v_cur v = Some r -> vr_stopped r = true -> existsb (is_lunbind s) h2 = false ->
  exists r', v_cur (fold_left (vstep s) h2 v) = Some r' /\ vr_rate r' = vr_rate r /\ vr_evs r' = vr_evs r.
Proof.
  induction h2 as [|ev h2 IH]; intros v r Hc Hs Hu; simpl.
  - exists r. auto.
  - simpl in Hu. apply orb_false_iff in Hu as [Hu1 Hu2].
    destruct (stopped_step s v ev r Hc Hs Hu1) as (r1 & A & B & _ & D & E).
    destruct (IH _ r1 A B Hu2) as (r2 & A2 & D2 & E2).
    exists r2. split; [exact A2|]. split; congruence.
Qed.

(* after Close, whatever follows (late Start goroutines included) leaves what Get(s) returns unchanged,
   until the stream is unbound *)
Lemma seen_frozen_after_close s h1 h2 :
  existsb (is_lunbind s) h2 = false ->
  seen_by s (h1 ++ LClose :: h2) = seen_by s (h1 ++ [LClose]).
Proof.
  intros Hu. unfold seen_by, view_of. rewrite !fold_left_app. simpl.
  set (v := fold_left (vstep s) h1 view0).
  destruct (v_cur v) as [r|] eqn:E.
  - set (v1 := mkView true (v_nb v) _).
    destruct (stopped_fold s h2 v1 _ eq_refl eq_refl Hu) as (r' & A & B & C).
    rewrite A. simpl in *. rewrite B, C. reflexivity.
  - assert (G : forall h v, v_closed v = true -> v_cur v = None ->
               v_cur (fold_left (vstep s) h v) = None).
    { clear. induction h as [|ev h IH]; intros v Hcl Hv; simpl; [exact Hv|].
      apply IH; destruct ev; simpl; rewrite ?Hv, ?Hcl; try reflexivity.
      - destruct (s0 =? s); reflexivity.
      - destruct (s0 =? s); reflexivity. }
    rewrite G; [reflexivity|reflexivity|reflexivity].
Qed.
