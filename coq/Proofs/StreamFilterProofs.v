(* C04, round 5: the responder's stream filter (Model/StreamFilter.v) against
   the meaning of "generic NACK was negotiated" (Spec/C04eSpec.v), and what a
   BindLocalStream call with a given RTCPFeedback list does to the API model. *)
From IV Require Import Base.Word Model.RtpBuffer Model.PacketFactory Model.Responder Model.StreamFilter
  Spec.C04Spec Spec.C04eSpec Check.C04Check Check.C04bCheck Check.C04eCheck
  Proofs.ResponderProofs Proofs.ResponderMore.
From Coq Require Import Permutation.

Lemma generic_nackb_iff f : generic_nackb f = true <-> generic_nack f.
Proof.
  unfold generic_nackb, generic_nack. rewrite andb_true_iff, list_eqb_Z_eq.
  destruct (snd f); split; intros [H1 H2]; split; auto; discriminate.
Qed.

Lemma negotiatedb_iff fbs : negotiatedb fbs = true <-> negotiated fbs.
Proof.
  unfold negotiatedb, negotiated. rewrite existsb_exists.
  split; intros [f [Hin Hf]]; exists f; split; auto; apply generic_nackb_iff; auto.
Qed.

(* the loop with its early return = "some entry is generic NACK" *)
Lemma filter_eq_negotiatedb fbs : stream_support_nack fbs = negotiatedb fbs.
Proof.
  induction fbs as [|f r IH]; simpl; auto.
  unfold generic_nackb, bytes_eqb, str_nack, s_nack. rewrite IH.
  destruct (snd f); simpl; destruct (list_eqb Z.eqb (fst f) [110; 97; 99; 107]); reflexivity.
Qed.

Theorem filter_iff_negotiated fbs : stream_support_nack fbs = true <-> negotiated fbs.
Proof. rewrite filter_eq_negotiatedb. apply negotiatedb_iff. Qed.

Theorem filter_anywhere l1 l2 : stream_support_nack (l1 ++ (str_nack, []) :: l2) = true.
Proof.
  apply filter_iff_negotiated. exists (str_nack, []). split.
  - apply in_or_app. right. left. reflexivity.
  - split; reflexivity.
Qed.

Theorem filter_permutation l l' : Permutation l l' -> stream_support_nack l = stream_support_nack l'.
Proof.
  intros HP. destruct (stream_support_nack l) eqn:E, (stream_support_nack l') eqn:E'; auto.
  - apply filter_iff_negotiated in E. destruct E as [f [Hin Hf]].
    assert (H : stream_support_nack l' = true).
    { apply filter_iff_negotiated. exists f. split; auto. eapply Permutation_in; eauto. }
    congruence.
  - apply filter_iff_negotiated in E'. destruct E' as [f [Hin Hf]].
    assert (H : stream_support_nack l = true).
    { apply filter_iff_negotiated. exists f. split; auto. eapply Permutation_in; [apply Permutation_sym|]; eauto. }
    congruence.
Qed.

Theorem filter_only_generic fbs : (forall f, In f fbs -> ~ generic_nack f) -> stream_support_nack fbs = false.
Proof.
  intros H. destruct (stream_support_nack fbs) eqn:E; auto.
  apply filter_iff_negotiated in E. destruct E as [f [Hin Hf]]. exfalso. eapply H; eauto.
Qed.

Lemma streams_filter_eq_spec flt fbs : streams_filter flt fbs = spec_served flt fbs.
Proof. unfold streams_filter, spec_served. rewrite filter_eq_negotiatedb. reflexivity. Qed.

(* the oracle's reading of a case and the model's reading are the same history *)
Theorem fop_op_eq_spec flt o : fop_op flt o = fop_spec_op flt o.
Proof. destruct o; simpl; auto. unfold finfo_sinfo. rewrite streams_filter_eq_spec. reflexivity. Qed.

(* ---- BindLocalStream through the extended model ---- *)
Definition frun_state (flt : Z) (s : rstate) (ops : list fop) : rstate := run_state s (map (fop_op flt) ops).

Lemma frun_state_app flt s ops1 ops2 :
  frun_state flt s (ops1 ++ ops2) = frun_state flt (frun_state flt s ops1) ops2.
Proof. unfold frun_state. rewrite map_app. apply run_state_app. Qed.

(* a served Bind registers the stream under a fresh handle *)
Theorem bind_served_registers flt s i wid :
  rs_closed s = false -> streams_filter flt (fi_fb i) = true ->
  let s' := fst (fstep flt s (FBind i wid)) in
  amap_find (fi_ssrc i) (rs_streams s') = Some (length (rs_handles s)) /\
  nth_error (rs_handles s') (length (rs_handles s)) =
    Some (mkHd (finfo_sinfo flt i) wid (empty_buf (rs_size s)) false) /\
  rs_closed s' = false.
Proof.
  intros Hc Hf. unfold fstep. simpl. rewrite Hf, Hc. simpl. rewrite Z.eqb_refl. split; [reflexivity|]. split; auto.
  rewrite nth_error_app2 by lia. rewrite Nat.sub_diag. reflexivity.
Qed.

(* a Bind the filter rejects registers nothing and returns the downstream writer itself *)
Theorem bind_rejected_passes flt s i wid :
  streams_filter flt (fi_fb i) = false ->
  let s' := fst (fstep flt s (FBind i wid)) in
  rs_streams s' = rs_streams s /\
  nth_error (rs_handles s') (length (rs_handles s)) =
    Some (mkHd (finfo_sinfo flt i) wid (empty_buf (rs_size s)) true).
Proof.
  intros Hf. unfold fstep. simpl. rewrite Hf. simpl. split; auto.
  rewrite nth_error_app2 by lia. rewrite Nat.sub_diag. reflexivity.
Qed.

(* operations that leave the binding of [ssrc] alone *)
Definition keeps (ssrc : Z) (o : fop) : Prop :=
  match o with
  | FBind i _ => fi_ssrc i <> ssrc
  | FUnbind s => s <> ssrc
  | FClose => False
  | _ => True
  end.

Lemma amap_find_remove_other {A} k k' (m : list (Z * A)) : k' <> k -> amap_find k (amap_remove k' m) = amap_find k m.
Proof.
  intros Hne. induction m as [|[k0 v] r IH]; simpl; auto.
  destruct (k0 =? k') eqn:E; simpl.
  - apply Z.eqb_eq in E. subst. destruct (k =? k') eqn:E2; [apply Z.eqb_eq in E2; congruence | exact IH].
  - destruct (k =? k0); auto.
Qed.

(* handle [n] is registered for [ssrc], is a real (non pass-through) handle for writer [wid] with info [si] *)
Definition bound_to (s : rstate) (ssrc : Z) (n : nat) (si : sinfo) (wid : Z) : Prop :=
  rs_closed s = false /\ amap_find ssrc (rs_streams s) = Some n /\
  exists hd, nth_error (rs_handles s) n = Some hd /\ hd_pass hd = false /\ hd_wid hd = wid /\ hd_info hd = si.

Lemma upd_nth_set_buf_keeps m (g : handle -> rbuf) l n hd :
  nth_error l n = Some hd ->
  exists hd', nth_error (upd_nth m (fun h => hd_set_buf (g h) h) l) n = Some hd' /\
              hd_pass hd' = hd_pass hd /\ hd_wid hd' = hd_wid hd /\ hd_info hd' = hd_info hd.
Proof.
  intros H. destruct (Nat.eq_dec m n) as [->|Hne].
  - rewrite nth_upd_nth_eq, H. simpl. eexists; split; [reflexivity|]. auto.
  - rewrite nth_upd_nth_neq by auto. exists hd; auto.
Qed.

Lemma keeps_step flt s ssrc n si wid o : keeps ssrc o -> bound_to s ssrc n si wid ->
  bound_to (fst (fstep flt s o)) ssrc n si wid.
Proof.
  intros Hk (Hc & Hf & hd & Hn & Hp & Hw & Hi). unfold fstep.
  destruct o as [i w|hid h pay|ss pairs|ss|]; simpl in *.
  - (* Bind of another SSRC *)
    rewrite Hc. rewrite orb_false_r.
    destruct (streams_filter flt (fi_fb i)) eqn:E; simpl.
    + split; auto. split.
      * cbn [rs_streams amap_set amap_find].
        assert (ssrc =? fi_ssrc i = false) as -> by (apply Z.eqb_neq; congruence).
        rewrite amap_find_remove_other; auto.
      * exists hd. cbn [rs_handles]. rewrite nth_error_app1; [auto | apply nth_error_Some; congruence].
    + split; auto. split; auto.
      exists hd. cbn [rs_handles]. rewrite nth_error_app1; [auto | apply nth_error_Some; congruence].
  - (* Write *)
    destruct (nth_error (rs_handles s) hid) as [hd0|] eqn:E0; [|repeat split; eauto].
    destruct (hd_pass hd0 || negb (h_ssrc h =? si_ssrc (hd_info hd0))); [repeat split; eauto|].
    destruct (if rs_copy s then _ else _) as [res sq]. destruct res as [p|c]; simpl.
    + split; auto. split; auto.
      destruct (upd_nth_set_buf_keeps hid (fun _ => rb_add (hd_buf hd0) p) (rs_handles s) n hd Hn)
        as (hd' & H1 & H2 & H3 & H4).
      exists hd'. cbn [rs_handles]. split; [exact H1|]. repeat split; congruence.
    + repeat split; eauto.
  - (* Nack *)
    rewrite Hc. destruct (amap_find ss (rs_streams s)) as [hid|]; [|repeat split; eauto].
    destruct (nth_error (rs_handles s) hid); repeat split; eauto.
  - (* Unbind of another SSRC *)
    destruct (amap_find ss (rs_streams s)) as [hid|] eqn:E; [|repeat split; eauto]. simpl.
    split; auto. split; [cbn [rs_streams]; rewrite amap_find_remove_other; auto|].
    destruct (upd_nth_set_buf_keeps hid (fun h => rb_clear (hd_buf h)) (rs_handles s) n hd Hn)
      as (hd' & H1 & H2 & H3 & H4).
    exists hd'. cbn [rs_handles]. split; [exact H1|]. repeat split; congruence.
  - contradiction.
Qed.

Lemma keeps_run flt ssrc n si wid ops : forall s, Forall (keeps ssrc) ops -> bound_to s ssrc n si wid ->
  bound_to (frun_state flt s ops) ssrc n si wid.
Proof.
  induction ops as [|o r IH]; intros s HF Hb; [exact Hb|].
  inversion HF; subst. unfold frun_state. simpl. apply IH; auto. apply (keeps_step flt); auto.
Qed.

Lemma no_close_open flt ops : forall s, rs_closed s = false -> Forall (fun o => o <> FClose) ops ->
  rs_closed (frun_state flt s ops) = false.
Proof.
  induction ops as [|o r IH]; intros s Hc HF; [exact Hc|].
  inversion HF; subst. unfold frun_state. simpl. apply IH; auto.
  destruct o as [i w|hid h pay|ss pairs|ss|]; simpl; try congruence.
  - destruct (negb _ || rs_closed s); simpl; auto.
  - destruct (nth_error (rs_handles s) hid) as [hd0|]; auto.
    destruct (hd_pass hd0 || _); auto.
    destruct (if rs_copy s then _ else _) as [res sq]. destruct res; simpl; auto.
  - rewrite Hc. destruct (amap_find ss (rs_streams s)) as [hid|]; auto.
    destruct (nth_error (rs_handles s) hid); auto.
  - destruct (amap_find ss (rs_streams s)); auto.
Qed.

(* A stream that negotiated generic NACK - wherever the entry stands in its
   feedback list - bound on a responder that has not been closed is served:
   after any further operations that do not re-bind/unbind that SSRC or close
   the interceptor, the SSRC is still mapped to the handle that Bind call
   created, a real (buffering) handle for the writer given to that call. *)
Theorem negotiated_stream_is_served size copy start ops1 i wid ops2 :
  Forall (fun o => o <> FClose) ops1 -> Forall (keeps (fi_ssrc i)) ops2 -> negotiated (fi_fb i) ->
  let s1 := frun_state 0 (rinit size copy start) ops1 in
  let s := frun_state 0 (rinit size copy start) (ops1 ++ FBind i wid :: ops2) in
  bound_to s (fi_ssrc i) (length (rs_handles s1)) (finfo_sinfo 0 i) wid.
Proof.
  intros H1 H2 Hn s1 s. subst s. rewrite frun_state_app. fold s1.
  change (FBind i wid :: ops2) with ([FBind i wid] ++ ops2). rewrite frun_state_app.
  apply keeps_run; auto.
  assert (Hc : rs_closed s1 = false) by (apply no_close_open; auto).
  assert (Hf : streams_filter 0 (fi_fb i) = true) by (apply filter_iff_negotiated; exact Hn).
  destruct (bind_served_registers 0 s1 i wid Hc Hf) as (Ha & Hb & Hd).
  unfold frun_state, run_state. simpl. unfold fstep in *. simpl in *.
  split; auto. split; auto. eexists. split; [exact Hb|]. auto.
Qed.

(* the same for a user filter that accepts the stream *)
Theorem accepted_stream_is_served flt size copy start ops1 i wid ops2 :
  Forall (fun o => o <> FClose) ops1 -> Forall (keeps (fi_ssrc i)) ops2 -> streams_filter flt (fi_fb i) = true ->
  let s1 := frun_state flt (rinit size copy start) ops1 in
  let s := frun_state flt (rinit size copy start) (ops1 ++ FBind i wid :: ops2) in
  bound_to s (fi_ssrc i) (length (rs_handles s1)) (finfo_sinfo flt i) wid.
Proof.
  intros H1 H2 Hf s1 s. subst s. rewrite frun_state_app. fold s1.
  change (FBind i wid :: ops2) with ([FBind i wid] ++ ops2). rewrite frun_state_app.
  apply keeps_run; auto.
  assert (Hc : rs_closed s1 = false) by (apply no_close_open; auto).
  destruct (bind_served_registers flt s1 i wid Hc Hf) as (Ha & Hb & Hd).
  unfold frun_state, run_state. simpl. unfold fstep in *. simpl in *.
  split; auto. split; auto. eexists. split; [exact Hb|]. auto.
Qed.

(* histories of the extended model are histories of Model/Responder.v: every theorem of C04.v / C04b.v about
   [rfold]/[run_state] over an op list applies to [map (fop_op flt) fops] *)
Definition fop_ok (o : fop) : Prop := match o with FWrite _ h _ => 0 <= h_seq h < 65536 | _ => True end.

Lemma fop_ok_map flt fops : Forall fop_ok fops -> Forall op_ok (map (fop_op flt) fops).
Proof. intros H. apply Forall_map. eapply Forall_impl; [|exact H]. intros [] Ho; simpl in *; auto. Qed.

Lemma frun_state_rfold flt s fops :
  frun_state flt s fops = fst (rfold s [] (map (fop_op flt) fops)).
Proof. unfold frun_state, run_state. symmetry. apply rfold_state. Qed.

(* C04_nack_answer over histories of the extended model *)
Theorem fnack_answer flt size copy start fops ssrc pairs :
  valid_size size = true -> Forall fop_ok fops -> pairs_ok pairs ->
  let s := fst (rfold (rinit size copy start) [] (map (fop_op flt) fops)) in
  let al := snd (rfold (rinit size copy start) [] (map (fop_op flt) fops)) in
  fstep flt s (FNack ssrc pairs) =
  (s, (0, match amap_find ssrc (rs_streams s) with
          | None => []
          | Some hid =>
              match nth_error (rs_handles s) hid, nth_error al hid with
              | Some hd, Some a => nack_answer (rs_size s) (hd_wid hd) a (nack_seqs pairs)
              | _, _ => []
              end
          end)).
Proof. intros. apply nack_response; auto. apply reachable_RInv; auto. apply fop_ok_map; auto. Qed.
