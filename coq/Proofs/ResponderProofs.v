(* The responder interceptor (Model/Responder.v) answers a NACK with exactly one
   write per requested number that designates a packet of the bound stream's
   send history, in request order, on that stream's writer - and with nothing
   for an SSRC that is not bound.  The send history of a BindLocalStream call
   (astep) consists of the packets the factory stored for the accepted writes
   through the writer it returned, since the call or the last Unbind/Close. *)
From IV Require Import Base.Word Model.RtpBuffer Model.PacketFactory Model.Responder Spec.C04Spec
  Proofs.RtpBufferProofs Proofs.PacketFactoryProofs.
From Coq Require Import ZifyBool.
Ltac Zify.zify_post_hook ::= Z.div_mod_to_equations.

Notation ah := (ahist rp).

Definition stored (s : rstate) (hd : handle) (h : hdr) (pay : list Z) : np_res :=
  fst (if rs_copy s then new_packet (rs_seqr s) h pay (si_rtxssrc (hd_info hd)) (si_rtxpt (hd_info hd))
       else (new_packet_noop h pay, rs_seqr s)).

(* the send histories, one per BindLocalStream call *)
Definition astep (al : list ah) (s : rstate) (o : op) : list ah :=
  match o with
  | OBind _ _ => al ++ [ah_empty]
  | OWrite hid h pay =>
      match nth_error (rs_handles s) hid with
      | None => al
      | Some hd =>
          if hd_pass hd || negb (h_ssrc h =? si_ssrc (hd_info hd)) then al
          else match stored s hd h pay with
               | NPErr _ => al
               | NPOk p => upd_nth hid (fun a => ah_add_x a (rp_seq p) p) al
               end
      end
  | ONack _ _ => al
  | OUnbind ssrc =>
      match amap_find ssrc (rs_streams s) with
      | None => al
      | Some hid => upd_nth hid (fun _ => ah_empty) al
      end
  | OClose => fold_left (fun l kv => upd_nth (snd kv) (fun _ : ah => ah_empty) l) (rs_streams s) al
  end.

Fixpoint rfold (s : rstate) (al : list ah) (ops : list op) : rstate * list ah :=
  match ops with
  | [] => (s, al)
  | o :: r => rfold (fst (rstep s o)) (astep al s o) r
  end.

Definition op_ok (o : op) : Prop :=
  match o with OWrite _ h _ => 0 <= h_seq h < 65536 | _ => True end.

Definition RInv (s : rstate) (al : list ah) : Prop :=
  In (rs_size s) valid_sizes /\
  Forall2 (fun hd a => Inv (rs_size s) (hd_buf hd) a) (rs_handles s) al /\
  (rs_closed s = true -> rs_streams s = []).      (* Close empties n.streams and Bind registers nothing afterwards *)

Lemma Forall2_upd_nth {A B} (R : A -> B -> Prop) f g n : forall l1 l2,
  Forall2 R l1 l2 ->
  (forall x y, nth_error l1 n = Some x -> nth_error l2 n = Some y -> R x y -> R (f x) (g y)) ->
  Forall2 R (upd_nth n f l1) (upd_nth n g l2).
Proof.
  induction n as [|n IH]; intros l1 l2 H Hfg; destruct H; simpl; constructor; auto.
Qed.

Lemma Forall2_nth {A B} (R : A -> B -> Prop) l1 l2 n x :
  Forall2 R l1 l2 -> nth_error l1 n = Some x -> exists y, nth_error l2 n = Some y /\ R x y.
Proof.
  intros H. revert n. induction H as [|a b l1 l2 Hab H IH]; intros [|n] Hn; simpl in *; try discriminate.
  - inversion Hn; subst. eauto.
  - apply IH; auto.
Qed.

Lemma stored_seq s hd h pay p : stored s hd h pay = NPOk p -> rp_seq p = h_seq h.
Proof.
  unfold stored. destruct (rs_copy s).
  - destruct (new_packet _ _ _ _ _) as [r sq] eqn:E. simpl. intros ->.
    apply new_packet_form in E. tauto.
  - simpl. unfold new_packet_noop. intros H; inversion H; reflexivity.
Qed.

Lemma rstep_RInv s al o : RInv s al -> op_ok o -> RInv (fst (rstep s o)) (astep al s o).
Proof.
  intros HI Hok. pose proof HI as (HS & HF & HC). destruct o as [i wid|hid h pay|ssrc pairs|ssrc|]; simpl.
  - (* Bind *)
    destruct (rs_closed s) eqn:Ec.
    + rewrite Bool.orb_true_r. simpl. split; [exact HS|]. split; [|intros _; exact (HC eq_refl)].
      apply Forall2_app; auto. constructor; auto. apply Inv_new; auto.
    + rewrite Bool.orb_false_r.
      destruct (negb (si_nack i)); simpl; (split; [exact HS|]); (split; [|discriminate]);
        apply Forall2_app; auto; constructor; auto; apply Inv_new; auto.
  - (* Write *)
    destruct (nth_error (rs_handles s) hid) as [hd|] eqn:Eh; [|exact HI].
    destruct (hd_pass hd || negb (h_ssrc h =? si_ssrc (hd_info hd))); [exact HI|].
    pose proof (stored_seq s hd h pay) as Hseq. unfold stored in *.
    destruct (if rs_copy s then _ else _) as [res sq]. simpl in *.
    destruct res as [p|c]; simpl; (split; [exact HS|]); (split; [|exact HC]); auto.
    apply Forall2_upd_nth; auto. intros x y Hx Hy Hxy. rewrite Eh in Hx. inversion Hx; subst x. simpl.
    apply Inv_add; auto. rewrite (Hseq p eq_refl). exact Hok.
  - destruct (rs_closed s); simpl; [exact HI|].
    destruct (amap_find ssrc (rs_streams s)); [destruct (nth_error _ _)|]; simpl; exact HI.
  - destruct (amap_find ssrc (rs_streams s)) as [hid|] eqn:Ef; simpl; (split; [exact HS|]); (split; [|]); auto.
    + apply Forall2_upd_nth; auto. intros x y _ _ Hxy. simpl. eapply Inv_clear; eauto.
    + intros Hc. rewrite (HC Hc) in Ef. discriminate.
  - split; [exact HS|]. split; [|reflexivity]. simpl. clear HC HI. revert HF. generalize (rs_handles s) al.
    induction (rs_streams s) as [|kv m IH]; intros l1 l2 HF; simpl; auto.
    apply IH. apply Forall2_upd_nth; auto. intros x y _ _ Hxy. simpl. eapply Inv_clear; eauto.
Qed.

Lemma rfold_RInv ops : forall s al, RInv s al -> Forall op_ok ops ->
  RInv (fst (rfold s al ops)) (snd (rfold s al ops)).
Proof.
  induction ops as [|o ops IH]; intros s al HI Hok; simpl; auto.
  inversion Hok; subst. apply IH; auto. apply rstep_RInv; auto.
Qed.

Lemma RInv_init size copy start : valid_size size = true -> RInv (rinit size copy start) [].
Proof. intros H. split; simpl; [apply valid_size_In; auto|split; [constructor|discriminate]]. Qed.

Definition pairs_ok (pairs : list (Z * Z)) : Prop := Forall (fun p => 0 <= fst p < 65536) pairs.

Lemma nack_seqs_range pairs seq : pairs_ok pairs -> In seq (nack_seqs pairs) -> 0 <= seq < 65536.
Proof.
  unfold nack_seqs. intros Hp Hin. apply in_flat_map in Hin as [[pid blp] [Hpin Hin]].
  unfold pairs_ok in Hp. rewrite Forall_forall in Hp. specialize (Hp _ Hpin). simpl in *.
  destruct Hin as [<-|Hin]; [exact Hp|]. apply in_map_iff in Hin as [i [<- _]]. apply add16_range.
Qed.

(* what a NACK must produce, in the vocabulary of the specification *)
Definition nack_answer (size : Z) (wid : Z) (a : ah) (seqs : list Z) : list emit :=
  flat_map (fun seq => match designated size a seq with
                       | Some p => [(wid, rp_hdr p, rp_pay p)]
                       | None => [] end) seqs.

Lemma flat_map_ext_in {A B} (f g : A -> list B) l : (forall x, In x l -> f x = g x) -> flat_map f l = flat_map g l.
Proof.
  induction l as [|x l IH]; intros H; simpl; auto.
  rewrite (H x) by (left; reflexivity). f_equal. apply IH. intros y Hy. apply H. right; exact Hy.
Qed.

Theorem nack_response s al ssrc pairs : RInv s al -> pairs_ok pairs ->
  rstep s (ONack ssrc pairs) =
  (s, (0, match amap_find ssrc (rs_streams s) with
          | None => []                                   (* not bound: nothing *)
          | Some hid =>
              match nth_error (rs_handles s) hid, nth_error al hid with
              | Some hd, Some a => nack_answer (rs_size s) (hd_wid hd) a (nack_seqs pairs)
              | _, _ => []
              end
          end)).
Proof.
  intros (HS & HF & HC) Hp. unfold rstep.
  destruct (rs_closed s) eqn:Ec; [rewrite (HC eq_refl); reflexivity|].
  destruct (amap_find ssrc (rs_streams s)) as [hid|]; [|reflexivity].
  destruct (nth_error (rs_handles s) hid) as [hd|] eqn:Eh; [|reflexivity].
  destruct (Forall2_nth _ _ _ _ _ HF Eh) as (a & Ea & HI). rewrite Ea.
  unfold resend, nack_answer. f_equal. f_equal. apply flat_map_ext_in. intros seq Hin.
  rewrite (Inv_get (rs_size s) (hd_buf hd) a seq HS (nack_seqs_range pairs seq Hp Hin) HI). reflexivity.
Qed.

(* every state reachable through the public API satisfies the relation *)
Theorem reachable_RInv size copy start ops : valid_size size = true -> Forall op_ok ops ->
  RInv (fst (rfold (rinit size copy start) [] ops)) (snd (rfold (rinit size copy start) [] ops)).
Proof. intros. apply rfold_RInv; auto. apply RInv_init; auto. Qed.

(* the state the model reaches is the one rfold reaches *)
Lemma rfold_state ops : forall s al,
  fst (rfold s al ops) = fold_left (fun st o => fst (rstep st o)) ops s.
Proof. induction ops as [|o ops IH]; intros s al; simpl; auto. Qed.

(* the entries of a send history are the packet as sent, or its RFC 4588 form *)
Theorem stored_form s hd h pay p : stored s hd h pay = NPOk p ->
  let rtx := rs_copy s && is_rtx (si_rtxssrc (hd_info hd)) (si_rtxpt (hd_info hd)) in
  rp_seq p = h_seq h /\
  is_resend_of rtx (si_rtxssrc (hd_info hd)) (si_rtxpt (hd_info hd)) h pay (rp_hdr p) (rp_pay p).
Proof.
  unfold stored. destruct (rs_copy s); simpl.
  - destruct (new_packet _ _ _ _ _) as [r sq] eqn:E. simpl. intros ->.
    apply new_packet_form in E. tauto.
  - unfold new_packet_noop. intros H; inversion H; subst. simpl. auto.
Qed.

(* one write per request at most, in request order: the answer is a
   concatenation over the requested numbers of lists of length <= 1 *)
Lemma nack_answer_one_per_request size wid a seqs :
  nack_answer size wid a seqs =
  concat (map (fun seq => match designated size a seq with
                          | Some p => [(wid, rp_hdr p, rp_pay p)] | None => [] end) seqs) /\
  (length (nack_answer size wid a seqs) <= length seqs)%nat.
Proof.
  split; [unfold nack_answer; apply flat_map_concat_map|].
  unfold nack_answer. induction seqs as [|x l IH]; simpl; auto.
  rewrite app_length. destruct (designated size a x); simpl; [apply le_n_S; exact IH|apply le_S; exact IH].
Qed.
