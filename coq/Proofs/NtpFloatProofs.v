(* C20, NTP float layer: ToNTP is monotone and ToTime (ToNTP t) is within 1 us
   (in fact 487 ns) of t, for the EXECUTABLE primitive-float kernels of
   Model/Ntp.v ([ntp_kernel], [frac_kernel]), for every nanosecond instant
   0 <= t <= 2085978495999999616 (= 2036-02-07T06:28:16Z minus 384 ns).

   The bound is exact: for the last 383 ns of the NTP era,
   float64(ns)/1e9 + 2208988800 rounds to exactly 2^32, uint32(s) wraps to 0 and
   ToNTP returns 0 (see [to_ntp_wraps_after] and the two [_era_end_refuted]
   theorems: the literal statement "for all 0 <= ns < 2085978496 * 10^9" is false
   in the faithful model).

   Structure (all three stages of DESIGN.md "C20" are complete, nothing is assumed):
   - link layer: each PrimFloat operation on finite inputs without overflow
     returns the finite float whose real value is [rnd64] of the exact result
     (Flocq.IEEE754.PrimFloat [add_equiv] ... + BinarySingleNaN [Bplus_correct] ...);
     [f64_trunc] is [Ztrunc] of the real value; int->float is [rnd64 (IZR n)].
   - stage 1 (Section Stage1): both theorems for the real-number model [k1R]/[k2R]
     built from ANY [rnd : R -> R] that is monotone, has the half-ulp absolute
     error law and fixes integers below 2^53, provided [sR Tmax < 2^32].
   - stage 2: Flocq's [round radix2 (FLT_exp (-1074) 53) ZnearestE] satisfies the laws.
   - stage 3: on the ranges involved the executable kernels EQUAL the real-number
     model ([ntp_kernel_link], [frac_kernel_link]); [sR Tmax < 2^32] is obtained by
     evaluating the executable kernel at Tmax.

   Trusted base (Print Assumptions): the std-lib primitive float / Uint63
   specification axioms (FloatAxioms, Uint63), and the axioms of the std-lib
   Reals / Flocq (sig_forall_dec, sig_not_dec, functional_extensionality_dep,
   classic). *)
From IV Require Import Base.Word Base.F64 Model.Ntp Proofs.NtpProofs.
From Coq Require Import ZArith Reals Floats Uint63 Lia Lra.
From Flocq Require Import Core.Core IEEE754.BinarySingleNaN.
Require Flocq.IEEE754.PrimFloat.
Module FP := Flocq.IEEE754.PrimFloat.
Ltac Zify.zify_post_hook ::= Z.div_mod_to_equations.
Open Scope R_scope.

(* ---------- link layer: PrimFloat <-> Flocq binary64 <-> R ---------- *)
Notation fexp64 := (FLT_exp (-1074) 53).
Local Instance prec53 : Prec_gt_0 53 := eq_refl.
Definition rnd64 (x : R) : R := round radix2 fexp64 ZnearestE x.

Definition FR (f : Coq.Floats.PrimFloat.float) : R := B2R (FP.Prim2B f).
Definition fin (f : Coq.Floats.PrimFloat.float) : Prop := is_finite (FP.Prim2B f) = true.

Lemma FR_SF f : FR f = SF2R radix2 (Prim2SF f).
Proof. unfold FR, FP.Prim2B. apply B2R_SF2B. Qed.

Lemma fin_f64 f : f64_is_finite f = is_finite (FP.Prim2B f).
Proof. unfold FP.Prim2B. rewrite is_finite_SF2B. unfold f64_is_finite. now destruct (Prim2SF f). Qed.

Lemma lt_bpow_emax e x : (-1000 <= e <= 1023)%Z -> Rabs x <= bpow radix2 e ->
  Rabs (rnd64 x) < bpow radix2 1024.
Proof.
  intros He Hx. apply Rle_lt_trans with (bpow radix2 e).
  - apply abs_round_le_generic; auto with typeclass_instances.
    apply (generic_format_bpow radix2 fexp64 e). unfold FLT_exp. lia.
  - apply bpow_lt. lia.
Qed.

Lemma add_link x y e : fin x -> fin y -> (-1000 <= e <= 1023)%Z -> Rabs (FR x + FR y) <= bpow radix2 e ->
  fin (x + y)%float /\ FR (x + y)%float = rnd64 (FR x + FR y).
Proof.
  intros Hx Hy He Hb. unfold fin, FR. rewrite FP.add_equiv.
  generalize (Bplus_correct prec emax FP.Hprec FP.Hmax mode_NE _ _ Hx Hy).
  rewrite Rlt_bool_true. tauto. exact (lt_bpow_emax e _ He Hb).
Qed.

Lemma sub_link x y e : fin x -> fin y -> (-1000 <= e <= 1023)%Z -> Rabs (FR x - FR y) <= bpow radix2 e ->
  fin (x - y)%float /\ FR (x - y)%float = rnd64 (FR x - FR y).
Proof.
  intros Hx Hy He Hb. unfold fin, FR. rewrite FP.sub_equiv.
  generalize (Bminus_correct prec emax FP.Hprec FP.Hmax mode_NE _ _ Hx Hy).
  rewrite Rlt_bool_true. tauto. exact (lt_bpow_emax e _ He Hb).
Qed.

Lemma mul_link x y e : fin x -> fin y -> (-1000 <= e <= 1023)%Z -> Rabs (FR x * FR y) <= bpow radix2 e ->
  fin (x * y)%float /\ FR (x * y)%float = rnd64 (FR x * FR y).
Proof.
  intros Hx Hy He Hb. unfold fin, FR. rewrite FP.mul_equiv.
  generalize (Bmult_correct prec emax FP.Hprec FP.Hmax mode_NE (FP.Prim2B x) (FP.Prim2B y)).
  rewrite Rlt_bool_true. unfold fin in Hx, Hy. rewrite Hx, Hy. tauto. exact (lt_bpow_emax e _ He Hb).
Qed.

Lemma div_link x y e : fin x -> FR y <> 0 -> (-1000 <= e <= 1023)%Z -> Rabs (FR x / FR y) <= bpow radix2 e ->
  fin (x / y)%float /\ FR (x / y)%float = rnd64 (FR x / FR y).
Proof.
  intros Hx Hy He Hb. unfold fin, FR. rewrite FP.div_equiv.
  generalize (Bdiv_correct prec emax FP.Hprec FP.Hmax mode_NE (FP.Prim2B x) (FP.Prim2B y) Hy).
  rewrite Rlt_bool_true. unfold fin in Hx. rewrite Hx. tauto. exact (lt_bpow_emax e _ He Hb).
Qed.

Lemma of_Z_link n : (0 <= n < 9223372036854775808)%Z ->
  fin (f64_of_Z n) /\ FR (f64_of_Z n) = rnd64 (IZR n).
Proof.
  intros Hn. unfold f64_of_Z. replace (n <? 0)%Z with false by lia.
  unfold f64_of_Z_pos, fin, FR. rewrite FP.of_int63_equiv.
  rewrite Uint63.of_Z_spec. rewrite Z.mod_small by (change wB with 9223372036854775808%Z; lia).
  generalize (binary_normalize_correct prec emax FP.Hprec FP.Hmax mode_NE n 0 false).
  cbv zeta. replace (F2R (Float radix2 n 0)) with (IZR n) by (unfold F2R; simpl; ring).
  rewrite Rlt_bool_true. tauto.
  apply (lt_bpow_emax 63). lia. rewrite Rabs_pos_eq by (apply IZR_le; lia).
  change (bpow radix2 63) with (IZR (Z.pow_pos 2 63)). apply IZR_le. change (Z.pow_pos 2 63) with 9223372036854775808%Z. lia.
Qed.

Lemma trunc_link f : f64_trunc f = Ztrunc (FR f).
Proof.
  rewrite FR_SF. unfold f64_trunc. destruct (Prim2SF f) as [s|s| |s m e]; simpl SF2R;
    try (symmetry; exact (Ztrunc_IZR 0)).
  unfold F2R; simpl Fnum; simpl Fexp.
  destruct (Z.leb_spec 0 e) as [He|He].
  - rewrite <- (IZR_Zpower radix2 e He), <- mult_IZR, Ztrunc_IZR.
    change (Zpower radix2 e) with (2 ^ e)%Z. destruct s; simpl cond_Zopp; lia.
  - assert (Hb : bpow radix2 e = / IZR (2 ^ (- e))).
    { rewrite <- (Z.opp_involutive e) at 1. rewrite bpow_opp.
      rewrite <- (IZR_Zpower radix2 (- e)) by lia. reflexivity. }
    rewrite Hb.
    assert (Hp : (0 < 2 ^ (- e))%Z) by (apply Z.pow_pos_nonneg; lia).
    fold (Rdiv (IZR (cond_Zopp s (Z.pos m))) (IZR (2 ^ (- e)))).
    rewrite Ztrunc_div by lia.
    destruct s; simpl cond_Zopp.
    + change (Z.neg m) with (- Z.pos m)%Z. rewrite Z.quot_opp_l by lia.
      rewrite Z.quot_div_nonneg by lia. reflexivity.
    + rewrite Z.quot_div_nonneg by lia. reflexivity.
Qed.

Lemma FR_format f : generic_format radix2 fexp64 (FR f).
Proof. exact (generic_format_B2R prec emax (FP.Prim2B f)). Qed.

Ltac fr_const :=
  rewrite FR_SF;
  match goal with |- SF2R radix2 (Prim2SF ?c) = _ =>
    let v := eval vm_compute in (Prim2SF c) in change (Prim2SF c) with v end;
  unfold SF2R, F2R, cond_Zopp, Fnum, Fexp, bpow.

Ltac pow_const :=
  repeat match goal with |- context[Z.pow_pos ?r ?k] =>
    let v := eval vm_compute in (Z.pow_pos r k) in change (Z.pow_pos r k) with v end.

Lemma FR_c9 : FR 1000000000%float = 1000000000.
Proof. fr_const. pow_const. lra. Qed.
Lemma FR_cC : FR 2208988800%float = 2208988800.
Proof. fr_const. pow_const. lra. Qed.
Lemma FR_cM : FR 4294967295%float = 4294967295.
Proof. fr_const. pow_const. lra. Qed.
Lemma fin_c9 : fin 1000000000%float. Proof. unfold fin. rewrite <- fin_f64. reflexivity. Qed.
Lemma fin_cC : fin 2208988800%float. Proof. unfold fin. rewrite <- fin_f64. reflexivity. Qed.
Lemma fin_cM : fin 4294967295%float. Proof. unfold fin. rewrite <- fin_f64. reflexivity. Qed.

(* ---------- stage 1: any rounding function satisfying the laws ---------- *)
Ltac bp :=
  match goal with |- bpow radix2 ?e = _ =>
    let v := eval vm_compute in e in change e with v end;
  unfold bpow; pow_const; lra.

Section Stage1.
  Variable rnd : R -> R.
  Hypothesis rnd_mono : forall x y, x <= y -> rnd x <= rnd y.
  Hypothesis rnd_err : forall e x, (-1020 <= e)%Z -> Rabs x < bpow radix2 e ->
     Rabs (rnd x - x) <= bpow radix2 (e - 54).
  Hypothesis rnd_int : forall n, (Z.abs n < 9007199254740992)%Z -> rnd (IZR n) = IZR n.

  Lemma err_nn e B E x : (-1020 <= e)%Z -> bpow radix2 e = B -> bpow radix2 (e - 54) = E ->
    0 <= x < B -> x - E <= rnd x <= x + E.
  Proof.
    intros He HB HE Hx. assert (H := rnd_err e x He). rewrite HB, HE in H.
    rewrite (Rabs_pos_eq x) in H by lra. apply Rabs_le_inv in H; lra.
  Qed.

  Lemma err61 x : 0 <= x < 2305843009213693952 -> x - 128 <= rnd x <= x + 128.
  Proof. apply (err_nn 61); [lia | bp | bp]. Qed.
  Lemma err31 x : 0 <= x < 2147483648 -> x - / 8388608 <= rnd x <= x + / 8388608.
  Proof. apply (err_nn 31); [lia | bp | bp]. Qed.
  Lemma err32 x : 0 <= x < 4294967296 -> x - / 4194304 <= rnd x <= x + / 4194304.
  Proof. apply (err_nn 32); [lia | bp | bp]. Qed.
  Lemma err0 x : 0 <= x < 1 -> x - / 18014398509481984 <= rnd x <= x + / 18014398509481984.
  Proof. apply (err_nn 0); [lia | bp | bp]. Qed.
  Lemma err1 x : 0 <= x < 2 -> x - / 9007199254740992 <= rnd x <= x + / 9007199254740992.
  Proof. apply (err_nn 1); [lia | bp | bp]. Qed.
  Lemma err30 x : 0 <= x < 1073741824 -> x - / 16777216 <= rnd x <= x + / 16777216.
  Proof. apply (err_nn 30); [lia | bp | bp]. Qed.

  Lemma rnd_0 : rnd 0 = 0. Proof. apply (rnd_int 0). lia. Qed.
  Lemma rnd_1 : rnd 1 = 1. Proof. apply (rnd_int 1). lia. Qed.
  Lemma rnd_nonneg x : 0 <= x -> 0 <= rnd x.
  Proof. intros H. rewrite <- rnd_0. now apply rnd_mono. Qed.

  Lemma rnd_le_int x n : (Z.abs n < 9007199254740992)%Z -> x <= IZR n -> rnd x <= IZR n.
  Proof. intros Hn H. rewrite <- (rnd_int n Hn). now apply rnd_mono. Qed.
  Lemma rnd_ge_int x n : (Z.abs n < 9007199254740992)%Z -> IZR n <= x -> IZR n <= rnd x.
  Proof. intros Hn H. rewrite <- (rnd_int n Hn). now apply rnd_mono. Qed.

  (* real-number model of the two kernels: one [rnd] per float operation *)
  Definition aR (ns : Z) : R := rnd (IZR ns).
  Definition bR (ns : Z) : R := rnd (aR ns / 1000000000).
  Definition sR (ns : Z) : R := rnd (bR ns + 2208988800).
  Definition ipR (ns : Z) : Z := Zfloor (sR ns).
  Definition dR (ns : Z) : R := rnd (sR ns - rnd (IZR (ipR ns))).
  Definition pR (ns : Z) : R := rnd (dR ns * 4294967295).
  Definition k1R (ns : Z) : Z * Z := (ipR ns, Zfloor (pR ns)).
  Definition qR (fr : Z) : R := rnd (IZR fr).
  Definition rR (fr : Z) : R := rnd (qR fr / 4294967295).
  Definition wR (fr : Z) : R := rnd (rR fr * 1000000000).
  Definition k2R (fr : Z) : Z := Zfloor (wR fr).

  (* last instant (ns since 1970) for which s stays below 2^32: 2036-02-07T06:28:16Z minus 384 ns *)
  Definition Tmax : Z := 2085978495999999616.

  Lemma sR_mono t1 t2 : (t1 <= t2)%Z -> sR t1 <= sR t2.
  Proof.
    intros H. unfold sR, bR, aR. apply rnd_mono.
    assert (H1 := rnd_mono _ _ (IZR_le _ _ H)).
    assert (H2 : rnd (IZR t1) / 1000000000 <= rnd (IZR t2) / 1000000000) by lra.
    assert (H3 := rnd_mono _ _ H2). lra.
  Qed.

  Lemma ab_range ns : (0 <= ns <= Tmax)%Z ->
    IZR ns - 128 <= aR ns <= IZR ns + 128 /\ 0 <= aR ns < 2305843009213693952 /\
    aR ns / 1000000000 - / 8388608 <= bR ns <= aR ns / 1000000000 + / 8388608 /\
    0 <= bR ns < 2147483648 /\ 0 <= bR ns + 2208988800 < 4294967296 /\
    bR ns + 2208988800 - / 4194304 <= sR ns <= bR ns + 2208988800 + / 4194304 /\
    2208988800 <= sR ns.
  Proof.
    intros [H0 H1]. apply IZR_le in H0, H1. unfold Tmax in H1.
    assert (Ha := err61 (IZR ns)). fold (aR ns) in Ha.
    assert (Ha0 : 0 <= aR ns) by (apply rnd_nonneg; lra).
    assert (Hb := err31 (aR ns / 1000000000)). fold (bR ns) in Hb.
    assert (Hb0 : 0 <= bR ns) by (apply rnd_nonneg; lra).
    assert (Hs := err32 (bR ns + 2208988800)). fold (sR ns) in Hs.
    assert (Hs0 : 2208988800 <= sR ns).
    { apply rnd_ge_int. lia. lra. }
    lra.
  Qed.

  Hypothesis s_below : sR Tmax < 4294967296.

  Lemma s_range ns : (0 <= ns <= Tmax)%Z -> 2208988800 <= sR ns < 4294967296.
  Proof.
    intros H. split. apply ab_range, H.
    apply Rle_lt_trans with (2 := s_below). apply sR_mono, H.
  Qed.

  Lemma ip_range ns : (0 <= ns <= Tmax)%Z ->
    (2208988800 <= ipR ns < 4294967296)%Z /\ IZR (ipR ns) <= sR ns < IZR (ipR ns) + 1 /\ rnd (IZR (ipR ns)) = IZR (ipR ns).
  Proof.
    intros H. destruct (s_range ns H) as [H1 H2]. unfold ipR.
    assert (L := Zfloor_lb (sR ns)). assert (U := Zfloor_ub (sR ns)).
    assert (A : (2208988800 <= Zfloor (sR ns))%Z).
    { rewrite <- (Zfloor_IZR 2208988800). now apply Zfloor_le. }
    assert (B : (Zfloor (sR ns) < 4294967296)%Z) by (apply lt_IZR; lra).
    repeat split; try assumption. apply rnd_int. lia.
  Qed.

  Lemma dp_range ns : (0 <= ns <= Tmax)%Z ->
    0 <= dR ns <= 1 /\ 0 <= pR ns <= 4294967295 /\ (0 <= Zfloor (pR ns) < 4294967296)%Z.
  Proof.
    intros H. destruct (ip_range ns H) as (_ & [H1 H2] & H3).
    assert (D0 : 0 <= dR ns) by (unfold dR; rewrite H3; apply rnd_nonneg; lra).
    assert (D1 : dR ns <= 1) by (unfold dR; rewrite H3; apply (rnd_le_int _ 1); [lia|lra]).
    assert (P0 : 0 <= pR ns) by (unfold pR; apply rnd_nonneg; lra).
    assert (P1 : pR ns <= 4294967295).
    { unfold pR. apply rnd_le_int. lia. lra. }
    repeat split; try assumption.
    - rewrite <- (Zfloor_IZR 0). now apply Zfloor_le.
    - apply lt_IZR. assert (L := Zfloor_lb (pR ns)). lra.
  Qed.

  (* stage 1, monotonicity *)
  Theorem to_ntp_R_monotone t1 t2 : (0 <= t1 <= t2)%Z -> (t2 <= Tmax)%Z ->
    (to_ntp k1R t1 <= to_ntp k1R t2)%Z.
  Proof.
    intros H12 H2.
    assert (R1 : (0 <= t1 <= Tmax)%Z) by lia. assert (R2 : (0 <= t2 <= Tmax)%Z) by lia.
    destruct (ip_range t1 R1) as (I1 & _ & _). destruct (ip_range t2 R2) as (I2 & _ & J2).
    destruct (dp_range t1 R1) as (_ & _ & F1). destruct (dp_range t2 R2) as (_ & _ & F2).
    assert (S := sR_mono t1 t2 (proj2 H12)).
    assert (IP : (ipR t1 <= ipR t2)%Z) by (now apply Zfloor_le).
    unfold to_ntp, k1R, u32. rewrite !Z.mod_small by lia.
    destruct (Z.eq_dec (ipR t1) (ipR t2)) as [E|NE]; [|lia].
    assert (FP : (Zfloor (pR t1) <= Zfloor (pR t2))%Z).
    { apply Zfloor_le. unfold pR. apply rnd_mono.
      assert (D : dR t1 <= dR t2) by (unfold dR; rewrite E; apply rnd_mono; lra). lra. }
    lia.
  Qed.

  Lemma frac_range fr : (0 <= fr < 4294967296)%Z ->
    qR fr = IZR fr /\ 0 <= rR fr <= 1 /\ 0 <= wR fr <= 1000000000 /\ qR fr / 4294967295 - / 9007199254740992 <= rR fr <= qR fr / 4294967295 + / 9007199254740992 /\ rR fr * 1000000000 - / 16777216 <= wR fr <= rR fr * 1000000000 + / 16777216.
  Proof.
    intros H. assert (Q : qR fr = IZR fr) by (apply rnd_int; lia).
    assert (H0 : 0 <= IZR fr) by (apply IZR_le; lia).
    assert (H1 : IZR fr <= 4294967295) by (apply IZR_le; lia).
    assert (R0 : 0 <= rR fr) by (unfold rR; rewrite Q; apply rnd_nonneg; lra).
    assert (R1 : rR fr <= 1) by (unfold rR; rewrite Q; apply (rnd_le_int _ 1); [lia|lra]).
    assert (W0 : 0 <= wR fr) by (unfold wR; apply rnd_nonneg; lra).
    assert (W1 : wR fr <= 1000000000).
    { unfold wR. apply rnd_le_int. lia. lra. }
    assert (E1 := err1 (qR fr / 4294967295)). fold (rR fr) in E1.
    assert (E2 := err30 (rR fr * 1000000000)). fold (wR fr) in E2.
    rewrite Q in *. repeat split; try assumption; lra.
  Qed.

  (* stage 1, round trip: the error is at most 487 ns *)
  Theorem ntp_R_roundtrip t : (0 <= t <= Tmax)%Z ->
    (Z.abs (to_time k2R (to_ntp k1R t) - t) <= 487)%Z.
  Proof.
    intros H.
    destruct (ab_range t H) as (A & _ & B & _ & _ & S & _).
    destruct (ip_range t H) as (I & IB & IR).
    destruct (dp_range t H) as (D & P & F).
    rewrite (to_time_seconds k1R k2R (to_ntp k1R t) (to_ntp_range k1R t)).
    unfold to_ntp, k1R, u32. rewrite !Z.mod_small by lia.
    set (ip := ipR t) in *. set (fp := Zfloor (pR t)) in *.
    replace ((ip * 4294967296 + fp) / 4294967296)%Z with ip by lia.
    replace ((ip * 4294967296 + fp) mod 4294967296)%Z with fp by lia.
    destruct (frac_range fp F) as (Q & _ & _ & RR & W).
    assert (ED := err0 (sR t - rnd (IZR ip))). fold ip in IR. rewrite IR in ED. 
    assert (EP := err32 (dR t * 4294967295)). fold (pR t) in EP.
    assert (FL := Zfloor_lb (pR t)). assert (FU := Zfloor_ub (pR t)). fold fp in FL, FU.
    unfold k2R. assert (KL := Zfloor_lb (wR fp)). assert (KU := Zfloor_ub (wR fp)).
    set (k := Zfloor (wR fp)) in *.
    assert (ED' : sR t - IZR ip - / 18014398509481984 <= dR t <= sR t - IZR ip + / 18014398509481984).
    { unfold dR. fold ip. rewrite IR. apply ED. lra. }
    apply Z.abs_le. split.
    - apply le_IZR. rewrite opp_IZR, minus_IZR, plus_IZR, mult_IZR, minus_IZR. rewrite Q in RR. lra.
    - apply le_IZR. rewrite minus_IZR, plus_IZR, mult_IZR, minus_IZR. rewrite Q in RR. lra.
  Qed.
End Stage1.

(* ---------- stage 2: the laws hold for Flocq's binary64 round-to-nearest-even ---------- *)
Lemma rnd64_mono x y : x <= y -> rnd64 x <= rnd64 y.
Proof. intros H. unfold rnd64. apply round_le; auto with typeclass_instances. Qed.

Lemma rnd64_err e x : (-1020 <= e)%Z -> Rabs x < bpow radix2 e ->
  Rabs (rnd64 x - x) <= bpow radix2 (e - 54).
Proof.
  intros He Hx. unfold rnd64.
  apply Rle_trans with (1 := error_le_half_ulp radix2 fexp64 _ x).
  assert (U : ulp radix2 fexp64 x <= bpow radix2 (e - 53)).
  { destruct (Req_dec x 0) as [Z|NZ].
    - rewrite Z, ulp_FLT_0 by exact prec53. apply bpow_le. lia.
    - rewrite ulp_neq_0 by exact NZ. apply bpow_le. unfold cexp, FLT_exp.
      assert (M := mag_le_bpow radix2 x e NZ Hx). lia. }
  replace (e - 53)%Z with (e - 54 + 1)%Z in U by lia. rewrite bpow_plus in U.
  change (bpow radix2 1) with 2 in U. lra.
Qed.

Lemma rnd64_int n : (Z.abs n < 9007199254740992)%Z -> rnd64 (IZR n) = IZR n.
Proof.
  intros H. unfold rnd64. apply round_generic; auto with typeclass_instances.
  apply generic_format_FLT. apply (FLT_spec radix2 (-1074) 53 (IZR n) (Float radix2 n 0)).
  - unfold F2R; simpl; ring.
  - exact H.
  - simpl; lia.
Qed.

(* ---------- stage 3: the executable PrimFloat kernels equal the real-number model ---------- *)
Lemma bpow40 : bpow radix2 40 = 1099511627776. Proof. bp. Qed.
Lemma bpow62 : bpow radix2 62 = 4611686018427387904. Proof. bp. Qed.

Lemma to_u32_link f : fin f -> 0 <= FR f < 4294967296 -> f64_to_u32 f = Zfloor (FR f).
Proof.
  intros Hf Hr. unfold f64_to_u32. rewrite trunc_link, fin_f64, Hf, Ztrunc_floor by lra.
  assert (L := Zfloor_lb (FR f)).
  assert (Z0 : (0 <= Zfloor (FR f))%Z) by (rewrite <- (Zfloor_IZR 0); apply Zfloor_le; lra).
  assert (Z1 : (Zfloor (FR f) < 4294967296)%Z) by (apply lt_IZR; lra).
  destruct (Z.ltb_spec (Zfloor (FR f)) (-9223372036854775808)); [lia|].
  destruct (Z.ltb_spec 9223372036854775807 (Zfloor (FR f))); [lia|].
  cbn [orb negb]. apply Z.mod_small. lia.
Qed.

Lemma to_i64_link f : fin f -> 0 <= FR f < 4294967296 -> f64_to_i64 f = Zfloor (FR f).
Proof.
  intros Hf Hr. unfold f64_to_i64. rewrite trunc_link, fin_f64, Hf, Ztrunc_floor by lra.
  assert (L := Zfloor_lb (FR f)).
  assert (Z0 : (0 <= Zfloor (FR f))%Z) by (rewrite <- (Zfloor_IZR 0); apply Zfloor_le; lra).
  assert (Z1 : (Zfloor (FR f) < 4294967296)%Z) by (apply lt_IZR; lra).
  destruct (Z.ltb_spec (Zfloor (FR f)) (-9223372036854775808)); [lia|].
  destruct (Z.ltb_spec 9223372036854775807 (Zfloor (FR f))); [lia|].
  reflexivity.
Qed.

Definition s_exec (ns : Z) : Coq.Floats.PrimFloat.float :=
  ((f64_of_Z ns / 1000000000) + 2208988800)%float.

Lemma s_link ns : (0 <= ns <= Tmax)%Z -> fin (s_exec ns) /\ FR (s_exec ns) = sR rnd64 ns.
Proof.
  intros H.
  destruct (ab_range rnd64 rnd64_mono rnd64_err rnd64_int ns H) as (A & A0 & B & B0 & S0 & _).
  destruct (of_Z_link ns) as [F0 V0]. { unfold Tmax in H; lia. }
  fold (aR rnd64 ns) in V0.
  destruct (div_link (f64_of_Z ns) 1000000000%float 62 F0) as [F1 V1].
  { rewrite FR_c9; lra. } { lia. }
  { rewrite V0, FR_c9, bpow62, Rabs_pos_eq; lra. }
  rewrite V0, FR_c9 in V1. fold (bR rnd64 ns) in V1.
  destruct (add_link (f64_of_Z ns / 1000000000)%float 2208988800%float 40 F1 fin_cC) as [F2 V2].
  { lia. } { rewrite V1, FR_cC, bpow40, Rabs_pos_eq; lra. }
  rewrite V1, FR_cC in V2. split; assumption.
Qed.

Lemma s_below64 : sR rnd64 Tmax < 4294967296.
Proof.
  rewrite <- (proj2 (s_link Tmax ltac:(unfold Tmax; lia))).
  rewrite FR_SF.
  match goal with |- SF2R radix2 (Prim2SF ?c) < _ =>
    let v := eval vm_compute in (Prim2SF c) in change (Prim2SF c) with v end.
  unfold SF2R, F2R, cond_Zopp, Fnum, Fexp, bpow. pow_const. lra.
Qed.

Lemma ntp_kernel_link ns : (0 <= ns <= Tmax)%Z -> ntp_kernel ns = k1R rnd64 ns.
Proof.
  intros H. destruct (s_link ns H) as [Fs Vs].
  destruct (s_range rnd64 rnd64_mono rnd64_err rnd64_int s_below64 ns H) as [S0 S1].
  destruct (ip_range rnd64 rnd64_mono rnd64_err rnd64_int s_below64 ns H) as (I & IB & IR).
  destruct (dp_range rnd64 rnd64_mono rnd64_err rnd64_int s_below64 ns H) as (D & P & F).
  unfold ntp_kernel. fold (s_exec ns). cbv zeta.
  assert (IP : f64_to_u32 (s_exec ns) = ipR rnd64 ns).
  { rewrite to_u32_link by (rewrite ?Vs; auto; lra). now rewrite Vs. }
  rewrite IP. unfold k1R. f_equal.
  destruct (of_Z_link (ipR rnd64 ns)) as [F0 V0]. { lia. }
  rewrite IR in V0.
  destruct (sub_link (s_exec ns) (f64_of_Z (ipR rnd64 ns)) 40 Fs F0) as [F1 V1].
  { lia. } { rewrite Vs, V0, bpow40, Rabs_pos_eq; lra. }
  rewrite Vs, V0, <- IR in V1. fold (dR rnd64 ns) in V1.
  destruct (mul_link (s_exec ns - f64_of_Z (ipR rnd64 ns))%float 4294967295%float 40 F1 fin_cM) as [F2 V2].
  { lia. } { rewrite V1, FR_cM, bpow40, Rabs_pos_eq; lra. }
  rewrite V1, FR_cM in V2. fold (pR rnd64 ns) in V2.
  rewrite to_u32_link by (rewrite ?V2; auto; lra). now rewrite V2.
Qed.

Lemma frac_kernel_link fr : (0 <= fr < 4294967296)%Z -> frac_kernel fr = k2R rnd64 fr.
Proof.
  intros H.
  destruct (frac_range rnd64 rnd64_mono rnd64_err rnd64_int fr H) as (Q & R & W & _).
  unfold frac_kernel.
  destruct (of_Z_link fr) as [F0 V0]. { lia. }
  fold (qR rnd64 fr) in V0.
  assert (H0 : 0 <= IZR fr) by (apply IZR_le; lia).
  assert (H1 : IZR fr <= 4294967295) by (apply IZR_le; lia).
  destruct (div_link (f64_of_Z fr) 4294967295%float 40 F0) as [F1 V1].
  { rewrite FR_cM; lra. } { lia. }
  { rewrite V0, Q, FR_cM, bpow40, Rabs_pos_eq; lra. }
  rewrite V0, FR_cM in V1. fold (rR rnd64 fr) in V1.
  destruct (mul_link (f64_of_Z fr / 4294967295)%float 1000000000%float 40 F1 fin_c9) as [F2 V2].
  { lia. } { rewrite V1, FR_c9, bpow40, Rabs_pos_eq; lra. }
  rewrite V1, FR_c9 in V2. fold (wR rnd64 fr) in V2.
  rewrite to_i64_link by (rewrite ?V2; auto; lra). now rewrite V2.
Qed.

Open Scope Z_scope.

Lemma ToNTP_R t : 0 <= t <= Tmax -> ToNTP t = to_ntp (k1R rnd64) t.
Proof. intros H. unfold ToNTP, to_ntp. now rewrite ntp_kernel_link. Qed.

Lemma ToTime_R v : ToTime v = to_time (k2R rnd64) v.
Proof. unfold ToTime, to_time. rewrite frac_kernel_link. reflexivity. lia. Qed.

(* (1) monotone up to the last instant before float64 seconds-since-1900 rounds to 2^32 *)
Theorem to_ntp_monotone : forall t1 t2, 0 <= t1 <= t2 -> t2 <= 2085978495999999616 ->
  ToNTP t1 <= ToNTP t2.
Proof.
  intros t1 t2 H1 H2. change 2085978495999999616 with Tmax in H2.
  rewrite !ToNTP_R by lia.
  exact (to_ntp_R_monotone rnd64 rnd64_mono rnd64_err rnd64_int s_below64 t1 t2 H1 H2).
Qed.

(* (2) round trip, sharp form: at most 487 ns *)
Theorem ntp_roundtrip_487ns : forall t, 0 <= t <= 2085978495999999616 ->
  Z.abs (ToTime (ToNTP t) - t) <= 487.
Proof.
  intros t H. change 2085978495999999616 with Tmax in H.
  rewrite ToTime_R, ToNTP_R by lia.
  exact (ntp_R_roundtrip rnd64 rnd64_mono rnd64_err rnd64_int s_below64 t H).
Qed.

Theorem ntp_roundtrip_1us : forall t, 0 <= t <= 2085978495999999616 ->
  Z.abs (ToTime (ToNTP t) - t) <= 1000.
Proof. intros t H. pose proof (ntp_roundtrip_487ns t H). lia. Qed.

(* the threshold is exact: from the next nanosecond to the era end ToNTP wraps to 0 *)
Lemma to_ntp_wraps_after : ToNTP 2085978495999999617 = 0 /\ ToNTP 2085978495999999999 = 0.
Proof. split; vm_compute; reflexivity. Qed.

Theorem to_ntp_monotone_era_end_refuted :
  ~ (forall t1 t2, 0 <= t1 <= t2 -> t2 < 2085978496000000000 -> ToNTP t1 <= ToNTP t2).
Proof.
  intros H. specialize (H 0 2085978495999999999 ltac:(lia) ltac:(lia)).
  revert H. vm_compute. intros H. apply H. reflexivity.
Qed.

Theorem ntp_roundtrip_era_end_refuted :
  ~ (forall t, 0 <= t < 2085978496000000000 -> Z.abs (ToTime (ToNTP t) - t) <= 1000).
Proof.
  intros H. specialize (H 2085978495999999999 ltac:(lia)).
  revert H. vm_compute. intros H. apply H. reflexivity.
Qed.

Example to_ntp_monotone_nonvacuous :
  ToNTP 1700000000123456789 <= ToNTP 1700000000123457789 /\ ToNTP 1700000000123456789 <> ToNTP 1700000000123457789.
Proof. split. apply to_ntp_monotone; lia. vm_compute. discriminate. Qed.
