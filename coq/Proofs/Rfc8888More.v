(* C08, deepening round.
   (1) A history in which no packet older than the first packet of its stream
       arrives ([no_older_than_first], a boolean on the history computed with the
       unwrapper only) never makes the specification oracle return code 7, whatever
       the reports are; with [model_meets_spec] the model's reports get code 0.
   (2) The model run depends on the float kernel only through
       getArrivalTimeOffset at (report clock, arrival clock) pairs of the history:
       two kernels that agree there produce the same reports.  With
       Proofs/AtoFloatProofs.v ([ato_float_exact]) the model with the EXECUTABLE
       primitive-float kernel [ato_kernel] equals the model with the exact
       kernel on every history whose clocks lie in [-2^62, 2^62) ns. *)
From IV Require Import Base.Word Model.Unwrapper Model.StreamLog Model.Rfc8888Recorder
  Spec.Rfc8888Spec Proofs.StreamLogProofs Proofs.Rfc8888Proofs Proofs.AtoFloatProofs.
From Coq Require Import ZifyBool.
Ltac Zify.zify_post_hook ::= Z.div_mod_to_equations.

(* ================= (1) no packet older than the first of its stream ================= *)

(* per SSRC (sorted): unwrapper state and unwrapped number of the first packet of the stream *)
Definition fstate := list (Z * (option Z * Z)).

(* one arrival: (is the packet at or above the first packet of its stream?, new state) *)
Fixpoint nof_add (r : fstate) (ssrc seq : Z) : bool * fstate :=
  match r with
  | [] => (true, [(ssrc, unwrap None seq)])
  | (k, (uw, first)) :: tl =>
      if ssrc <? k then (true, (ssrc, unwrap None seq) :: r)
      else if ssrc =? k then
        let '(uw', u) := unwrap uw seq in (first <=? u, (k, (uw', first)) :: tl)
      else let '(ok, tl') := nof_add tl ssrc seq in (ok, (k, (uw, first)) :: tl')
  end.

Fixpoint nof_walk (r : fstate) (ops : list c08op) : bool :=
  match ops with
  | [] => true
  | Add _ ssrc seq _ :: tl => let '(ok, r') := nof_add r ssrc seq in ok && nof_walk r' tl
  | _ :: tl => nof_walk r tl
  end.

(* the hypothesis of the full-strength main theorem *)
Definition no_older_than_first (ops : list c08op) : bool := nof_walk [] ops.

(* link between the tracking state and the oracle's stream state *)
Definition J (a : Z * (option Z * Z)) (b : Z * ost) : Prop :=
  fst a = fst b /\ fst (snd a) = o_uw (snd b) /\ snd (snd a) = o_first (snd b) /\
  o_uw (snd b) <> None /\ (forall s, In s (o_fresh (snd b)) -> o_first (snd b) <= s).

Lemma J_new ssrc ts seq ecn : J (ssrc, unwrap None seq) (ssrc, o_add o_new ts seq ecn).
Proof.
  unfold J, o_add, o_new; cbn. repeat split; try congruence.
  intros s [<-|[]]. lia.
Qed.

Lemma J_add k uw first o ts seq ecn uw' u :
  J (k, (uw, first)) (k, o) -> unwrap uw seq = (uw', u) -> (first <=? u) = true ->
  J (k, (uw', first)) (k, o_add o ts seq ecn).
Proof.
  intros (_ & Huw & Hf & Hne & Hfr) Eu Hle. cbn [fst snd] in *. subst uw first.
  unfold o_add. rewrite Eu.
  destruct (o_uw o) as [l|] eqn:El; [|congruence].
  assert (Huw' : uw' <> None) by (cbn in Eu; inversion Eu; congruence).
  destruct (lfind u (o_arr o)); unfold J; cbn [fst snd o_uw o_first o_fresh]; repeat split; auto.
  intros s [<-|Hin]; [lia|auto].
Qed.

Lemma nof_add_J fs os ts ssrc seq ecn ok fs' :
  Forall2 J fs os -> nof_add fs ssrc seq = (ok, fs') -> ok = true ->
  Forall2 J fs' (os_add os ts ssrc seq ecn).
Proof.
  intros H. revert ok fs'. induction H as [|[k [uw first]] [k' o] tl otl HJ Htl IH]; intros ok fs' E Hok; cbn [nof_add os_add] in *.
  - inversion E; subst. constructor; [apply J_new|constructor].
  - assert (k' = k) by (destruct HJ as (Hk & _); cbn in Hk; congruence). subst k'.
    destruct (ssrc <? k) eqn:E1.
    + inversion E; subst. constructor; [apply J_new|]. constructor; assumption.
    + destruct (ssrc =? k) eqn:E2.
      * destruct (unwrap uw seq) as [uw' u] eqn:Eu. inversion E; subst.
        constructor; [|exact Htl]. eapply J_add; eauto.
      * destruct (nof_add tl ssrc seq) as [ok1 tl'] eqn:Et. inversion E; subst.
        constructor; [exact HJ|]. eapply IH; eauto.
Qed.

Lemma check_entries_not7 o now : forall mbs s, check_entries o now s mbs <> 7%nat.
Proof.
  induction mbs as [|m tl IH]; intros s; cbn [check_entries]; [congruence|].
  destruct (entry_code o now s m) eqn:E; [apply IH|].
  unfold entry_code in E. rewrite <- E.
  destruct (_ =? _); [congruence|]. destruct (negb _); [congruence|]. destruct (_ =? _); congruence.
Qed.

Lemma check_fresh_not7 o start n B : forall fr,
  (forall s, In s fr -> o_first o <= s) -> check_fresh o start n B fr <> 7%nat.
Proof.
  induction fr as [|s tl IH]; intros H; cbn [check_fresh]; [congruence|].
  assert (Hs : o_first o <= s) by (apply H; left; reflexivity).
  assert (Htl : forall x, In x tl -> o_first o <= x) by (intros x Hx; apply H; right; exact Hx).
  unfold fresh_code.
  destruct (start <=? s); [apply IH, Htl|].
  destruct (n >=? B); [apply IH, Htl|].
  replace (s <? o_first o) with false by lia.
  destruct (s <? o_tfloor o); [apply IH, Htl|congruence].
Qed.

Lemma o_report_J a k o now B begin mbs c o' :
  J a (k, o) -> o_report o now B begin mbs = (c, o') -> c <> 7%nat /\ J a (k, o').
Proof.
  intros (Hk & Huw & Hf & Hne & Hfr) E. cbn [fst snd] in *.
  unfold o_report in E. inversion E; subst c o'. clear E. split.
  - destruct (negb _); [congruence|]. destruct (_ <? _); [congruence|].
    destruct (check_entries o now _ mbs) eqn:Ec.
    + apply check_fresh_not7. exact Hfr.
    + rewrite <- Ec. apply check_entries_not7.
  - unfold J; cbn [fst snd o_uw o_first o_fresh]. repeat split; auto. intros s [].
Qed.

Lemma defer7_not7 c c2 : c <> 7%nat -> c2 <> 7%nat -> defer7 c c2 <> 7%nat.
Proof.
  intros H1 H2. unfold defer7.
  destruct c as [|[|[|[|[|[|[|[|c]]]]]]]]; try congruence.
Qed.

Lemma os_report_J now B : forall fs os, Forall2 J fs os -> forall blocks c os',
  os_report os now B blocks = (c, os') -> c <> 7%nat /\ Forall2 J fs os'.
Proof.
  intros fs os H. induction H as [|a [k o] tl otl HJ Htl IH]; intros blocks c os' E.
  - destruct blocks; cbn in E; inversion E; subst; split; (congruence || constructor).
  - cbn [os_report] in E. destruct blocks as [|[[ssrc begin] mbs] btl].
    + inversion E; subst. split; [congruence|constructor; assumption].
    + destruct (negb (ssrc =? k)).
      * inversion E; subst. split; [congruence|constructor; assumption].
      * destruct (o_report o now B begin mbs) as [c1 o1] eqn:E1.
        destruct (os_report otl now B btl) as [c2 otl'] eqn:E2.
        inversion E; subst c os'.
        destruct (o_report_J a k o now B begin mbs c1 o1 HJ E1) as (Hc1 & HJ1).
        destruct (IH btl c2 otl' E2) as (Hc2 & Htl').
        split; [apply defer7_not7; assumption|constructor; assumption].
Qed.

Lemma size_code_not7 maxSize k mlen blocks : size_code maxSize k mlen blocks <> 7%nat.
Proof. unfold size_code. destruct (_ || _); [congruence|]. destruct (_ && _); congruence. Qed.

(* whatever the reports are: no older-than-first arrival, no code 7 *)
Theorem no_older_no_code7 : forall ops fs os outs,
  Forall2 J fs os -> nof_walk fs ops = true -> spec_walk os ops outs <> 7%nat.
Proof.
  induction ops as [|op tl IH]; intros fs os outs HJ Hn; cbn [spec_walk].
  - destruct outs; congruence.
  - destruct op as [ts ssrc seq ecn|now maxSize|now budget]; cbn [nof_walk] in Hn.
    + destruct (nof_add fs ssrc seq) as [ok fs'] eqn:Ea.
      apply andb_prop in Hn. destruct Hn as [Hok Hn].
      eapply IH; [|exact Hn]. eapply nof_add_J; eauto.
    + destruct outs as [|[mlen blocks] otl]; [congruence|].
      destruct (os_report os now (fair_share maxSize (Z.of_nat (length os))) blocks) as [c os'] eqn:Eo.
      destruct (os_report_J now _ fs os HJ blocks c os' Eo) as (Hc & HJ').
      pose proof (size_code_not7 maxSize (Z.of_nat (length os)) mlen blocks) as Hsz.
      destruct (size_code maxSize (Z.of_nat (length os)) mlen blocks) eqn:Es.
      * apply defer7_not7; [exact Hc|]. eapply IH; eauto.
      * destruct c as [|[|[|[|[|[|[|[|c]]]]]]]]; congruence.
    + destruct outs as [|[mlen blocks] otl]; [congruence|].
      destruct (os_report os now budget blocks) as [c os'] eqn:Eo.
      destruct (os_report_J now _ fs os HJ blocks c os' Eo) as (Hc & HJ').
      apply defer7_not7; [exact Hc|]. eapply IH; eauto.
Qed.

(* the model's reports get code 0 on such histories, for every exact kernel *)
Theorem model_meets_spec_full atok : exact_kernel atok -> forall ops,
  Forall wf_op ops -> no_older_than_first ops = true ->
  spec_walk [] ops (model_outs atok [] ops) = 0%nat.
Proof.
  intros Hk ops Hwf Hn.
  destruct (model_meets_spec atok Hk ops Hwf) as [H|H]; [exact H|].
  exfalso. exact (no_older_no_code7 ops [] [] _ (Forall2_nil _) Hn H).
Qed.

(* ================= (2) the model depends on the kernel only through ato ================= *)
Section Congr.
  Variables k1 k2 : Z -> bool * Z.
  Variables Pn Pt : Z -> Prop.      (* report clocks, arrival clocks *)
  Hypothesis Hagree : forall now ts, Pn now -> Pt ts -> ato k1 now ts = ato k2 now ts.

  Definition log_ok (log : list entry) : Prop := forall k ts ecn, In (k, (ts, ecn)) log -> Pt ts.

  Lemma lfind_In i : forall log v, lfind i log = Some v -> In (i, v) log.
  Proof.
    induction log as [|[k v'] tl IH]; intros v H; cbn [lfind] in H; [discriminate|].
    destruct (k =? i) eqn:E.
    - inversion H; subst. left. f_equal. lia.
    - right. apply IH. exact H.
  Qed.

  Lemma log_ok_filter f log : log_ok log -> log_ok (filter f log).
  Proof. intros H k ts ecn Hin. apply filter_In in Hin. eapply H. exact (proj1 Hin). Qed.

  Definition st_log (st : lstate) : list entry := let '(log, _, _, _) := st in log.

  Lemma loop_step_congr ref st i : Pn ref -> log_ok (st_log st) ->
    loop_step k1 ref st i = loop_step k2 ref st i /\ log_ok (st_log (fst (loop_step k1 ref st i))).
  Proof.
    intros Hn Hl. destruct st as [[[log next] lr] gap]. cbn [st_log] in Hl.
    unfold loop_step.
    destruct (lfind i log) as [[ts ecn]|] eqn:E.
    - rewrite (Hagree ref ts Hn (Hl i ts ecn (lfind_In i log _ E))).
      split; [reflexivity|]. cbn [fst snd].
      destruct gap; [exact Hl|].
      destruct (true && (i =? next)); cbn [fst st_log]; [apply log_ok_filter|]; exact Hl.
    - split; [reflexivity|]. cbn [fst snd].
      destruct gap; [exact Hl|]. cbn [andb fst st_log]. exact Hl.
  Qed.

  Lemma loop_congr ref : forall is st, Pn ref -> log_ok (st_log st) ->
    loop k1 ref st is = loop k2 ref st is /\ log_ok (st_log (fst (loop k1 ref st is))).
  Proof.
    induction is as [|i tl IH]; intros st Hn Hl; cbn [loop].
    - split; [reflexivity|exact Hl].
    - destruct (loop_step_congr ref st i Hn Hl) as (E & Hl1). rewrite <- E.
      destruct (loop_step k1 ref st i) as [st1 mb]. cbn [fst] in Hl1.
      destruct (IH st1 Hn Hl1) as (E2 & Hl2). rewrite <- E2.
      destruct (loop k1 ref st1 tl) as [st2 mbs]. cbn [fst] in *. split; [reflexivity|exact Hl2].
  Qed.

  Lemma metrics_after_congr s ref budget : Pn ref -> log_ok (sl_log s) ->
    metrics_after k1 s ref budget = metrics_after k2 s ref budget /\
    log_ok (sl_log (fst (metrics_after k1 s ref budget))).
  Proof.
    intros Hn Hl. unfold metrics_after.
    destruct (sl_log s) as [|e tl] eqn:El; [split; [reflexivity|cbn [fst]; rewrite El; exact Hl]|].
    rewrite <- El in *. clear El e tl.
    set (tr := if sl_last s - sl_next s + 1 >? budget
               then (sl_last s - budget + 1, lprune (sl_last s - budget + 1) (sl_log s))
               else (sl_next s, sl_log s)).
    assert (Ht : log_ok (snd tr)).
    { unfold tr. destruct (_ >? _); cbn [snd]; [apply log_ok_filter|]; exact Hl. }
    destruct tr as [next1 log1]. cbn [snd] in Ht.
    destruct (loop_congr ref (zrange next1 (Z.to_nat (sl_last s - next1 + 1))) (log1, next1, next1, false) Hn Ht)
      as (E & Hl2).
    rewrite <- E.
    destruct (loop k1 ref (log1, next1, next1, false) (zrange next1 (Z.to_nat (sl_last s - next1 + 1))))
      as [[[[log2 next2] lr2] gap2] mbs].
    cbn [fst st_log] in Hl2. split; [reflexivity|exact Hl2].
  Qed.

  Lemma sl_add_log_ok s ts seq ecn : Pt ts -> log_ok (sl_log s) -> log_ok (sl_log (sl_add s ts seq ecn)).
  Proof.
    intros Ht Hl. unfold sl_add. destruct (unwrap (sl_seq s) seq) as [st' u].
    destruct (u <? _); [exact Hl|].
    destruct (lfind u (sl_log s)); [exact Hl|]. cbn [sl_log].
    intros k ts0 ecn0 [H|H]; [inversion H; subst; exact Ht|eapply Hl; exact H].
  Qed.

  Definition rec_ok (r : recorder) : Prop := Forall (fun p : Z * slog => log_ok (sl_log (snd p))) r.

  Lemma rec_add_ok r ts ssrc seq ecn : Pt ts -> rec_ok r -> rec_ok (rec_add r ts ssrc seq ecn).
  Proof.
    intros Ht H. induction H as [|[k s] tl Hs Htl IH]; cbn [rec_add].
    - constructor; [|constructor]. cbn [snd]. apply sl_add_log_ok; [exact Ht|]. intros k ts0 ecn0 [].
    - destruct (ssrc <? k).
      + constructor; [|constructor; assumption]. cbn [snd]. apply sl_add_log_ok; [exact Ht|]. intros k0 ts0 ecn0 [].
      + destruct (ssrc =? k).
        * constructor; [|exact Htl]. cbn [snd] in *. apply sl_add_log_ok; assumption.
        * constructor; assumption.
  Qed.

  Lemma rec_metrics_congr now budget : Pn now -> forall r, rec_ok r ->
    rec_metrics k1 r now budget = rec_metrics k2 r now budget /\
    rec_ok (fst (rec_metrics k1 r now budget)).
  Proof.
    intros Hn r H. induction H as [|[k s] tl Hs Htl IH]; cbn [rec_metrics].
    - split; [reflexivity|constructor].
    - cbn [snd] in Hs. destruct (metrics_after_congr s now budget Hn Hs) as (E & Hl). rewrite <- E.
      destruct (metrics_after k1 s now budget) as [s' b]. cbn [fst] in Hl.
      destruct IH as (E2 & Hr). rewrite <- E2.
      destruct (rec_metrics k1 tl now budget) as [tl' bs]. cbn [fst] in *.
      split; [reflexivity|constructor; assumption].
  Qed.

  Definition op_ok (o : c08op) : Prop :=
    match o with Add ts _ _ _ => Pt ts | Build now _ => Pn now | BuildRaw now _ => Pn now end.

  Theorem rec_run_congr : forall ops r, rec_ok r -> Forall op_ok ops ->
    rec_run k1 r ops = rec_run k2 r ops.
  Proof.
    induction ops as [|o tl IH]; intros r Hr Hops; [reflexivity|].
    inversion Hops as [|? ? Ho Htl]; subst.
    destruct o as [ts ssrc seq ecn|now maxSize|now budget]; cbn [rec_run rec_step op_ok] in *.
    - apply IH; [apply rec_add_ok; assumption|exact Htl].
    - unfold rec_build. destruct r as [|x r0] eqn:Er.
      + f_equal. apply IH; [constructor|exact Htl].
      + rewrite <- Er in *. clear Er x r0.
        destruct (rec_metrics_congr now (per_stream_budget maxSize (Z.of_nat (length r))) Ho r Hr) as (E & Hr').
        rewrite <- E. destruct (rec_metrics k1 r now _) as [r' rep]. cbn [fst] in Hr'.
        f_equal. apply IH; assumption.
    - destruct (rec_metrics_congr now budget Ho r Hr) as (E & Hr').
      rewrite <- E. destruct (rec_metrics k1 r now budget) as [r' rep]. cbn [fst] in Hr'.
      f_equal. apply IH; assumption.
  Qed.
End Congr.

(* every clock of the history (arrival and report) lies in [-2^62, 2^62) ns, so that every
   report-minus-arrival difference fits a Go time.Duration (int64 ns) *)
Definition clock_ok (t : Z) : bool := (-4611686018427387904 <=? t) && (t <? 4611686018427387904).

Definition op_clock (o : c08op) : Z :=
  match o with Add ts _ _ _ => ts | Build now _ => now | BuildRaw now _ => now end.

Definition clocks_in_range (ops : list c08op) : bool := forallb (fun o => clock_ok (op_clock o)) ops.

Lemma ato_float_agree now ts : clock_ok now = true -> clock_ok ts = true ->
  ato ato_kernel now ts = ato exact_atok now ts.
Proof.
  unfold clock_ok. intros Hn Ht.
  rewrite ato_float_exact by lia. symmetry. apply ato_exact. exact exact_atok_exact.
Qed.

(* the model with the float kernel IS the model with the exact kernel *)
Theorem float_model_eq_exact_model ops : clocks_in_range ops = true ->
  model_outs ato_kernel [] ops = model_outs exact_atok [] ops.
Proof.
  intros H. unfold model_outs. f_equal.
  apply (rec_run_congr ato_kernel exact_atok (fun t => clock_ok t = true) (fun t => clock_ok t = true) ato_float_agree).
  - constructor.
  - unfold clocks_in_range in H. rewrite forallb_forall in H. apply Forall_forall.
    intros o Ho. specialize (H o Ho). destruct o; exact H.
Qed.

Theorem float_model_meets_spec ops : Forall wf_op ops -> clocks_in_range ops = true ->
  code_ok (spec_walk [] ops (model_outs ato_kernel [] ops)).
Proof.
  intros Hwf Hc. rewrite float_model_eq_exact_model by exact Hc.
  exact (model_meets_spec exact_atok exact_atok_exact ops Hwf).
Qed.

Theorem float_model_meets_spec_full ops : Forall wf_op ops -> clocks_in_range ops = true ->
  no_older_than_first ops = true ->
  spec_walk [] ops (model_outs ato_kernel [] ops) = 0%nat.
Proof.
  intros Hwf Hc Hn. rewrite float_model_eq_exact_model by exact Hc.
  exact (model_meets_spec_full exact_atok exact_atok_exact ops Hwf Hn).
Qed.

(* ================= (3) the fair share is the size limit ================= *)
(* "Pushed out by the size limit" in the oracle means: the block holds at least
   fair_share maxSize k entries.  fair_share is characterised without its formula: it is
   the LARGEST even count p <= 16384 such that k blocks of p entries fit the maximum
   size (12 + k * (8 + 2p) <= maxSize); two more entries per stream would not fit. *)
Theorem fair_share_maximal maxSize k : 0 < k -> 12 + 8 * k <= maxSize ->
  let p := fair_share maxSize k in
  0 <= p <= 16384 /\ p mod 2 = 0 /\ 12 + k * (8 + 2 * p) <= maxSize /\
  (forall p', p' mod 2 = 0 -> p < p' <= 16384 -> maxSize < 12 + k * (8 + 2 * p')).
Proof.
  intros Hk Hm. cbv zeta.
  destruct (fair_share_props maxSize k Hk) as (H1 & H2 & H3).
  split; [lia|]. split; [exact H2|]. split; [exact (H3 Hm)|].
  intros p' He Hp.
  assert (Hp2 : fair_share maxSize k + 2 <= p') by lia.
  revert Hp Hp2 H1. unfold fair_share. cbv zeta.
  set (t := Z.max ((maxSize - 12 - 8 * k) / 2) 0).
  assert (Ht : 2 * t <= maxSize - 12 - 8 * k < 2 * t + 2) by (unfold t; lia).
  assert (Hq : k * (t / k) <= t < k * (t / k) + k).
  { pose proof (Z.mul_div_le t k Hk). pose proof (Z.mul_succ_div_gt t k Hk). lia. }
  set (q := t / k) in *.
  intros Hp Hp2 H1.
  assert (Hq1 : q + 1 <= p') by lia.
  assert (k * (q + 1) <= k * p') by (apply Z.mul_le_mono_nonneg_l; lia).
  lia.
Qed.
