(* C17, round 4: proofs about the pacers with next writers that return errors (Model/PacerFail.v). *)
From IV Require Import Base.Word Model.PacerQueue Model.PacerFail Proofs.PacerProofs.
From Coq Require Import ZifyBool.
Ltac Zify.zify_post_hook ::= Z.div_mod_to_equations.

(* ================= leaky bucket ================= *)

(* the code as it is projects, step by step, onto the first-round LTS: the outcome of a call is invisible *)
Lemma estep_proj s o : eproj (estep MoveOn s o) = lstep (eproj s) (eop_lop o).
Proof.
  destruct s as [q i b k a d]. destruct o as [p|x|bu| |n ok]; cbn; try reflexivity.
  - destruct i; reflexivity.
  - destruct i; [reflexivity|]. destruct q; [reflexivity|]. destruct (0 <? b); reflexivity.
  - destruct i as [p|]; [|reflexivity]. destruct (existsb _ k); unfold eproj; cbn.
    + rewrite map_app. destruct ok; reflexivity.
    + rewrite map_app. reflexivity.
Qed.

Lemma erun_proj s ops : eproj (erun MoveOn s ops) = lrun (eproj s) (map eop_lop ops).
Proof.
  unfold erun, lrun. revert s; induction ops as [|o tl IH]; intros s; cbn; [reflexivity|].
  rewrite IH, estep_proj. reflexivity.
Qed.

Lemma leaky_fail_embeds known ops :
  eproj (erun MoveOn (einit known) ops) = lrun (linit known) (map eop_lop ops).
Proof. apply erun_proj. Qed.

Lemma map_fst_proj (d : list (pkt * hres)) : map fst (map (fun e => (fst e, hcalled (snd e))) d) = map fst d.
Proof. rewrite map_map. reflexivity. Qed.

(* every accepted packet leaves the queue exactly once, in acceptance order, whatever the next writers return *)
Lemma leaky_fail_fifo known ops :
  let s := erun MoveOn (einit known) ops in
  map fst (es_done s) ++ opt_list (es_inflight s) ++ es_queue s = es_accepted s.
Proof.
  intros s. pose proof (leaky_fifo known (map eop_lop ops)) as H. cbv zeta in H.
  rewrite <- leaky_fail_embeds in H. cbn in H. rewrite map_fst_proj in H. exact H.
Qed.

Lemma eops_known_ok k ops : eops_known k ops -> ops_ok k (map eop_lop ops).
Proof.
  revert k; induction ops as [|o tl IH]; intros k H; cbn; [exact I|].
  destruct o; cbn in *; auto. destruct H; split; auto.
Qed.

Lemma filter_proj (d : list (pkt * hres)) :
  map fst (filter snd (map (fun e => (fst e, hcalled (snd e))) d)) = map fst (filter (fun e => hcalled (snd e)) d).
Proof.
  induction d as [|[p r] d IH]; cbn; [reflexivity|]. destruct (hcalled r); cbn; rewrite IH; reflexivity.
Qed.

(* ... and, when streams are added before use, it is HANDED TO ITS NEXT WRITER exactly once: the calls the next
   writers received (failed ones included), then the packet in flight, then the queue = the accepted sequence *)
Lemma leaky_fail_calls_fifo known ops : eops_known known ops ->
  let s := erun MoveOn (einit known) ops in
  map fst (es_calls s) ++ opt_list (es_inflight s) ++ es_queue s = es_accepted s.
Proof.
  intros Hk s. pose proof (leaky_delivered_fifo known (map eop_lop ops) (eops_known_ok _ _ Hk)) as H. cbv zeta in H.
  rewrite <- leaky_fail_embeds in H. unfold ls_delivered in H. cbn in H. rewrite filter_proj in H. exact H.
Qed.

(* no packet is handed to a next writer twice: the calls are a duplicate-free list whenever the accepted packets are
   pairwise different values *)
Lemma NoDup_app_l {A} (l1 l2 : list A) : NoDup (l1 ++ l2) -> NoDup l1.
Proof.
  induction l1 as [|x l1 IH]; cbn; intros H; [constructor|]. inversion H; subst. constructor.
  - intros Hin. apply H2. apply in_or_app. left; exact Hin.
  - apply IH, H3.
Qed.

Lemma leaky_fail_no_second_call known ops : eops_known known ops ->
  let s := erun MoveOn (einit known) ops in
  NoDup (es_accepted s) -> NoDup (map fst (es_calls s)).
Proof.
  intros Hk s Hn. pose proof (leaky_fail_calls_fifo known ops Hk) as H. cbv zeta in H. fold s in H.
  rewrite <- H in Hn. apply NoDup_app_l in Hn. exact Hn.
Qed.

(* the outcome of the calls has no influence on what is handed over: histories that differ only in what the next
   writers return hand over the same packets in the same order and leave the same queue *)
Lemma leaky_fail_outcome_irrelevant known ops1 ops2 : map eop_lop ops1 = map eop_lop ops2 ->
  let s1 := erun MoveOn (einit known) ops1 in
  let s2 := erun MoveOn (einit known) ops2 in
  map fst (es_done s1) = map fst (es_done s2) /\ map fst (es_calls s1) = map fst (es_calls s2) /\
  es_queue s1 = es_queue s2 /\ es_inflight s1 = es_inflight s2 /\ es_budget s1 = es_budget s2 /\
  es_accepted s1 = es_accepted s2.
Proof.
  intros H s1 s2.
  assert (E : eproj s1 = eproj s2) by (unfold s1, s2; rewrite !leaky_fail_embeds, H; reflexivity).
  unfold eproj in E. inversion E as [[Eq Ei Eb Ek Ea Ed]].
  repeat split; auto.
  - rewrite <- (map_fst_proj (es_done s1)), <- (map_fst_proj (es_done s2)), Ed. reflexivity.
  - unfold es_calls. rewrite <- !filter_proj, Ed. reflexivity.
Qed.

(* the alternative design and the code are the same LTS on histories without a failing next writer *)
Lemma estep_agree s o : eop_ok o -> estep RetryHead s o = estep MoveOn s o.
Proof.
  destruct o as [p|x|b| |n ok]; cbn; try reflexivity. intros ->. reflexivity.
Qed.

Lemma erun_agree s ops : Forall eop_ok ops -> erun RetryHead s ops = erun MoveOn s ops.
Proof.
  unfold erun. revert s; induction ops as [|o tl IH]; intros s H; cbn; [reflexivity|].
  inversion H; subst. rewrite estep_agree by assumption. apply IH. assumption.
Qed.

(* witnesses for the alternative design *)
Definition ea : pkt := mkP 0 1 12 2 100.
Definition eb : pkt := mkP 1 3 12 4 100.

Lemma retry_duplicates :
  let s := erun RetryHead (einit [0; 1])
             [EWrite ea; EWrite eb; ETickStart 1; EPop; ESend 0 false; ETickStart 1; EPop; ESend 112 true;
              ETickStart 1; EPop; ESend 112 true] in
  es_accepted s = [ea; eb] /\ es_calls s = [(ea, HErr); (ea, HOk); (eb, HOk)] /\ es_queue s = [] /\ es_inflight s = None.
Proof. cbn. repeat split; reflexivity. Qed.

(* the same history under the code as it is: each packet once *)
Lemma moveon_same_history :
  let s := erun MoveOn (einit [0; 1])
             [EWrite ea; EWrite eb; ETickStart 1; EPop; ESend 0 false; ETickStart 1; EPop; ESend 112 true;
              ETickStart 1; EPop; ESend 112 true] in
  es_accepted s = [ea; eb] /\ es_calls s = [(ea, HErr); (eb, HOk)] /\ es_queue s = [] /\ es_inflight s = None.
Proof. cbn. repeat split; reflexivity. Qed.

(* a stream whose next writer keeps failing blocks every other stream: after k pacing intervals the failing packet
   was handed over k times and the healthy stream's packet behind it is still queued *)
Definition retry_round : list eop := [ETickStart 1; EPop; ESend 0 false].

Fixpoint rounds (k : nat) : list eop := match k with O => [] | S k' => retry_round ++ rounds k' end.

Lemma retry_blocks_from d k :
  erun RetryHead (mkES [ea; eb] None 0 [0; 1] [ea; eb] d) (rounds k) =
  mkES [ea; eb] None 0 [0; 1] [ea; eb] (d ++ repeat (ea, HErr) k).
Proof.
  revert d; induction k as [|k IH]; intros d; cbn [rounds repeat].
  - rewrite app_nil_r. reflexivity.
  - unfold erun in *. rewrite fold_left_app. cbn [retry_round fold_left]. cbn.
    rewrite IH. rewrite <- app_assoc. reflexivity.
Qed.

Lemma calls_repeat k : filter (fun e : pkt * hres => hcalled (snd e)) (repeat (ea, HErr) k) = repeat (ea, HErr) k.
Proof. induction k as [|k IH]; cbn; [reflexivity|]. rewrite IH. reflexivity. Qed.

Lemma retry_blocks k :
  let s := erun RetryHead (einit [0; 1]) ([EWrite ea; EWrite eb] ++ rounds k) in
  es_accepted s = [ea; eb] /\ es_calls s = repeat (ea, HErr) k /\ es_queue s = [ea; eb].
Proof.
  cbv zeta. unfold erun. rewrite fold_left_app.
  change (fold_left (estep RetryHead) [EWrite ea; EWrite eb] (einit [0; 1])) with (mkES [ea; eb] None 0 [0; 1] [ea; eb] []).
  pose proof (retry_blocks_from [] k) as H. unfold erun in H. rewrite H. unfold es_calls. cbn [es_accepted es_queue es_done app].
  repeat split. apply calls_repeat.
Qed.

Lemma moveon_does_not_block :
  let s := erun MoveOn (einit [0; 1]) ([EWrite ea; EWrite eb] ++ [ETickStart 1; EPop; ESend 0 false; ETickStart 1; EPop; ESend 112 true]) in
  es_calls s = [(ea, HErr); (eb, HOk)] /\ es_queue s = [].
Proof. cbn. split; reflexivity. Qed.

(* ================= pacing interceptor ================= *)

Lemma grelease_proj fuel now q b done bits outs q' b' done' bits' :
  grelease MoveOn fuel now q b done bits outs = (q', b', done', bits') ->
  release fuel now q b (map fst done) bits = (q', b', map fst done', bits').
Proof.
  revert q b done bits outs; induction fuel as [|f IH]; intros q b done bits outs H; cbn [grelease release] in *.
  - inversion H; subst. reflexivity.
  - destruct q as [|p q0]; [inversion H; subst; reflexivity|].
    destruct (_ <? _); [|inversion H; subst; reflexivity].
    destruct (tb_allow b now (8 * plen p)) as [b1 okk].
    assert (H' : grelease MoveOn f now q0 b1 (done ++ [(p, hd true outs)]) (bits + 8 * plen p) (tl outs) = (q', b', done', bits')).
    { destruct (hd true outs); exact H. }
    apply IH in H'. rewrite map_app in H'. exact H'.
Qed.

Lemma gstep_proj s o : gproj (gstep MoveOn s o) = pstep (gproj s) (gop_pop o).
Proof.
  destruct s as [c l b a d bits]. destruct o as [p| |now outs|t r bu]; cbn [gstep gop_pop pstep gproj g_chan g_local g_tb g_accepted g_done g_bits ps_closed ps_chan ps_local ps_tb ps_accepted ps_delivered ps_bits].
  - destruct (_ <=? _); reflexivity.
  - destruct c; reflexivity.
  - destruct (grelease _ _ _ _ _ _ _ _) as [[[q b1] d1] bits1] eqn:R. apply grelease_proj in R. rewrite R. reflexivity.
  - reflexivity.
Qed.

Lemma grun_proj s ops : gproj (grun MoveOn s ops) = prun (gproj s) (map gop_pop ops).
Proof.
  unfold grun, prun. revert s; induction ops as [|o tl IH]; intros s; cbn; [reflexivity|].
  rewrite IH, gstep_proj. reflexivity.
Qed.

Lemma pacing_fail_embeds rate burst t0 ops :
  gproj (grun MoveOn (ginit rate burst t0) ops) = prun (pinit rate burst t0) (map gop_pop ops).
Proof. apply grun_proj. Qed.

Lemma pacing_fail_fifo rate burst t0 ops :
  let s := grun MoveOn (ginit rate burst t0) ops in
  map fst (g_done s) ++ g_local s ++ g_chan s = g_accepted s.
Proof.
  intros s. pose proof (pacing_fifo rate burst t0 (map gop_pop ops)) as H. cbv zeta in H.
  rewrite <- pacing_fail_embeds in H. exact H.
Qed.

Lemma pacing_fail_no_second_call rate burst t0 ops :
  let s := grun MoveOn (ginit rate burst t0) ops in
  NoDup (g_accepted s) -> NoDup (map fst (g_done s)).
Proof.
  intros s Hn. pose proof (pacing_fail_fifo rate burst t0 ops) as H. cbv zeta in H. fold s in H.
  rewrite <- H in Hn. apply NoDup_app_l in Hn. exact Hn.
Qed.

Lemma pacing_fail_outcome_irrelevant rate burst t0 ops1 ops2 : map gop_pop ops1 = map gop_pop ops2 ->
  let s1 := grun MoveOn (ginit rate burst t0) ops1 in
  let s2 := grun MoveOn (ginit rate burst t0) ops2 in
  map fst (g_done s1) = map fst (g_done s2) /\ g_local s1 = g_local s2 /\ g_chan s1 = g_chan s2 /\
  g_tb s1 = g_tb s2 /\ g_bits s1 = g_bits s2 /\ g_accepted s1 = g_accepted s2.
Proof.
  intros H s1 s2.
  assert (E : gproj s1 = gproj s2) by (unfold s1, s2; rewrite !pacing_fail_embeds, H; reflexivity).
  unfold gproj in E. inversion E. repeat split; auto.
Qed.

(* the envelope of the first round holds with failing next writers: a failed hand-off is billed like any other *)
Lemma pacing_fail_envelope rate burst t0 ops : 0 <= rate -> 0 <= burst -> rates_ok (map gop_pop ops) ->
  g_bits (grun MoveOn (ginit rate burst t0) ops) * NS <=
  burst * NS + earned_total (pinit rate burst t0) (map gop_pop ops).
Proof.
  intros Hr Hb Hok. pose proof (pacing_envelope rate burst t0 (map gop_pop ops) Hr Hb Hok) as H. cbv zeta in H.
  rewrite <- pacing_fail_embeds in H. exact H.
Qed.

Lemma grelease_agree fuel now q b done bits outs : Forall (fun x => x = true) outs ->
  grelease RetryHead fuel now q b done bits outs = grelease MoveOn fuel now q b done bits outs.
Proof.
  revert q b done bits outs; induction fuel as [|f IH]; intros q b done bits outs H; cbn [grelease]; [reflexivity|].
  destruct q as [|p q0]; [reflexivity|]. destruct (_ <? _); [|reflexivity].
  destruct (tb_allow b now (8 * plen p)) as [b1 okk].
  assert (Hh : hd true outs = true) by (destruct outs; [reflexivity|inversion H; subst; reflexivity]).
  rewrite Hh. apply IH. destruct outs; [constructor|inversion H; assumption].
Qed.

Lemma gstep_agree s o : gop_ok o -> gstep RetryHead s o = gstep MoveOn s o.
Proof.
  destruct o as [p| |now outs|t r bu]; cbn [gstep gop_ok]; try reflexivity.
  intros H. rewrite grelease_agree by exact H. reflexivity.
Qed.

Lemma grun_agree s ops : Forall gop_ok ops -> grun RetryHead s ops = grun MoveOn s ops.
Proof.
  unfold grun. revert s; induction ops as [|o tl IH]; intros s H; cbn; [reflexivity|].
  inversion H; subst. rewrite gstep_agree by assumption. apply IH. assumption.
Qed.

Lemma pacing_retry_duplicates :
  let s := grun RetryHead (ginit 1 12000 0)
             [GWrite ea; GWrite eb; GRecv; GRecv; GTick (12000 * NS) [false]; GTick (24000 * NS) []] in
  g_accepted s = [ea; eb] /\ g_done s = [(ea, false); (ea, true); (eb, true)] /\ g_local s = [] /\ g_chan s = [].
Proof. vm_compute. repeat split; reflexivity. Qed.

Lemma pacing_moveon_same_history :
  let s := grun MoveOn (ginit 1 12000 0)
             [GWrite ea; GWrite eb; GRecv; GRecv; GTick (12000 * NS) [false]; GTick (24000 * NS) []] in
  g_accepted s = [ea; eb] /\ g_done s = [(ea, false); (eb, true)] /\ g_local s = [] /\ g_chan s = [].
Proof. vm_compute. repeat split; reflexivity. Qed.
