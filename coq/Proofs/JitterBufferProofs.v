(* Proofs about the jitter buffer model.
   Part A: the buffer over the pointer-level queue and the buffer over the
           abstract list queue produce the same outputs on every history
           (so the pointer-level run never panics or diverges).
   Part B: the abstract buffer satisfies the specification oracle of
           Check/C18Check.v on every history. *)
From IV Require Import Base.Word Model.PriorityQueue Model.JitterBuffer Proofs.PriorityQueueProofs Check.C18Check.
From Coq Require Import ZifyBool PeanoNat Permutation.
Ltac Zify.zify_post_hook ::= Z.div_mod_to_equations.

(* ================= Part A ================= *)
Definition RQ (q : pq) (L : aq) : Prop :=
  exists l, Rep q l /\ Vals q l /\ absl (qheap q) l = L.

Lemma RQ_new : RQ pq_new [].
Proof. exists []. split; [apply Rep_new|]. split; [intros i []|reflexivity]. Qed.

Lemma RQ_len q L : RQ q L -> pq_length q = aq_len L.
Proof.
  intros (l & (_ & _ & Hlen) & _ & <-). unfold pq_length, aq_len, absl. rewrite map_length. exact Hlen.
Qed.

Lemma RQ_find q L sq : RQ q L -> pq_find q sq = aq_find L sq.
Proof. intros (l & HR & _ & <-). apply pq_find_refines. exact HR. Qed.

Lemma RQ_push q L p prio : RQ q L ->
  exists q', pq_push q (Some p) prio = Ok q' /\ RQ q' (aq_push L (Some p) prio).
Proof.
  intros (l & HR & Hv & <-).
  destruct (pq_push_refines q l (Some p) prio HR) as (q' & l' & E & HR' & Habs & Hin & Hold & Hnew).
  exists q'. split; [exact E|]. exists l'. split; [exact HR'|]. split; [|exact Habs].
  intros i Hi. destruct (Hin i Hi) as [Ho| ->].
  - rewrite Hold by exact Ho. apply Hv. exact Ho.
  - rewrite Hnew. discriminate.
Qed.

Lemma RQ_popat q L k : RQ q L ->
  match aq_popat L k with
  | Ok (w, t) => exists q', pq_popat q k = Ok (w, q') /\ RQ q' t
  | Err e => pq_popat q k = Err e
  | _ => False
  end.
Proof.
  intros (l & HR & Hv & <-).
  pose proof (pq_popat_refines q l k HR Hv) as H.
  destruct (aq_popat (absl (qheap q) l) k) as [[w t]|e| |]; auto.
  destruct H as (q' & l' & E & HR' & Habs & Hincl & Hsame).
  exists q'. split; [exact E|]. exists l'. split; [exact HR'|]. split; [|exact Habs].
  intros i Hi. rewrite Hsame by exact Hi. apply Hv. apply Hincl. exact Hi.
Qed.

Lemma RQ_clear q L : RQ q L -> exists q', pq_clear q = Ok q' /\ RQ q' [].
Proof.
  intros (l & HR & _ & _). destruct (pq_clear_refines q l HR) as (q' & E & HR').
  exists q'. split; [exact E|]. exists []. split; [exact HR'|]. split; [intros i []|reflexivity].
Qed.

(* the two buffers agree on every field but the queue, and the queues are related *)
Definition RJ (s : jb pq) (a : jb aq) : Prop :=
  RQ (jpackets s) (jpackets a) /\ jmin s = jmin a /\ joverflow s = joverflow a /\ jlast s = jlast a /\
  jhead s = jhead a /\ jready s = jready a /\ jemit s = jemit a /\ jooo s = jooo a /\
  junder s = junder a /\ jover s = jover a /\ jnextid s = jnextid a.

Definition good (r : out) : Prop := r <> RPanic /\ r <> RDiverge.

Lemma good_out_of w : good (out_of w).
Proof. destruct w; split; discriminate. Qed.

Lemma update_state_sim s a : RJ s a ->
  snd (update_state ptr_ops s) = snd (update_state list_ops a) /\
  RJ (fst (update_state ptr_ops s)) (fst (update_state list_ops a)).
Proof.
  intros H. assert (H' := H). destruct H' as (HQ & Hmin & Hov & Hl & Hh & Hr & He & Ho & Hu & Hovr & Hn).
  unfold update_state. cbn [o_len ptr_ops list_ops].
  rewrite (RQ_len _ _ HQ), Hmin, He.
  destruct ((aq_len (jpackets a) >=? jmin a)%Z && negb (jemit a)); cbn [fst snd]; split; auto.
  unfold RJ. cbn. repeat split; auto.
Qed.

Ltac us_sim Hsim :=
  match goal with
  | |- context [update_state ptr_ops ?s1] =>
      match goal with
      | |- context [update_state list_ops ?a1] =>
          let H := fresh "Hus" in
          assert (H : RJ s1 a1) by (unfold RJ; cbn; repeat split; auto);
          apply update_state_sim in H; destruct H as [Hev Hst];
          destruct (update_state ptr_ops s1) as [s2 ev2];
          destruct (update_state list_ops a1) as [a2 ev2']; cbn [fst snd] in Hev, Hst; subst
      end
  end.

Ltac fin := split; [reflexivity|split; [reflexivity|split;
  [first [assumption | unfold RJ, with_packets; cbn; repeat split; auto]
  |first [apply good_out_of | split; discriminate]]]].

Theorem jb_step_sim s a o : RJ s a ->
  let '(s', r, ev) := jb_step ptr_ops s o in
  let '(a', r', ev') := jb_step list_ops a o in
  r = r' /\ ev = ev' /\ RJ s' a' /\ good r'.
Proof.
  intros H. assert (H' := H). destruct H' as (HQ & Hmin & Hov & Hl & Hh & Hr & He & Ho & Hu & Hovr & Hn).
  destruct o; unfold jb_step; cbn [o_len o_push o_find o_popat o_clear ptr_ops list_ops].
  - (* push *)
    rewrite (RQ_len _ _ HQ), Hov, Hovr, Hr, Hh, Hl, Ho, Hn.
    destruct (RQ_push _ _ (mkPkt (jnextid a) sq ts) sq HQ) as (q' & -> & HQ').
    destruct (aq_len (jpackets a) >? joverflow a)%Z.
    + us_sim H. fin.
    + us_sim H. fin.
  - (* pop *)
    rewrite He, Hh. destruct (negb (jemit a)); [fin|].
    pose proof (RQ_popat _ _ (KSeq (jhead a)) HQ) as Hp.
    destruct (aq_popat (jpackets a) (KSeq (jhead a))) as [[w t]|e| |]; try contradiction.
    + destruct Hp as (q' & -> & HQ'). us_sim H. fin.
    + rewrite Hp. unfold underflow. rewrite Hu. fin.
  - (* pop at sequence *)
    rewrite He, Hh. destruct (negb (jemit a)); [fin|].
    pose proof (RQ_popat _ _ (KSeq sq) HQ) as Hp.
    destruct (aq_popat (jpackets a) (KSeq sq)) as [[w t]|e| |]; try contradiction.
    + destruct Hp as (q' & -> & HQ'). us_sim H. fin.
    + rewrite Hp. unfold underflow. rewrite Hu. fin.
  - (* pop at timestamp *)
    rewrite He. destruct (negb (jemit a)); [fin|].
    pose proof (RQ_popat _ _ (KTs ts) HQ) as Hp.
    destruct (aq_popat (jpackets a) (KTs ts)) as [[w t]|e| |]; try contradiction.
    + destruct Hp as (q' & -> & HQ'). unfold with_packets. us_sim H. fin.
    + rewrite Hp. unfold underflow. rewrite Hu. fin.
  - (* peek *)
    rewrite (RQ_len _ _ HQ). destruct (aq_len (jpackets a) <? 1)%Z; [fin|].
    rewrite He, Hh, Hl. rewrite (RQ_find _ _ _ HQ).
    destruct (aq_find (jpackets a) _) as [w|e| |] eqn:Ef; [fin|fin| |].
    all: exfalso; revert Ef; clear; generalize (if ph && jemit a then jhead a else jlast a);
      induction (jpackets a) as [|[p w] t IH]; simpl; intros z; try discriminate;
      destruct (p =? z)%Z; try discriminate; apply IH.
  - (* peek at sequence *)
    rewrite (RQ_find _ _ _ HQ).
    destruct (aq_find (jpackets a) sq) as [w|e| |] eqn:Ef; [fin|fin| |].
    all: exfalso; revert Ef; clear;
      induction (jpackets a) as [|[p w] t IH]; simpl; try discriminate;
      destruct (p =? sq)%Z; try discriminate; apply IH.
  - (* set head *)
    fin.
  - (* head *)
    rewrite Hh. fin.
  - (* clear *)
    destruct (RQ_clear _ _ HQ) as (q' & -> & HQ').
    destruct reset; fin.
Qed.

Lemma RJ_new min : RJ (cjb_new min) (ajb_new min).
Proof. unfold RJ, cjb_new, ajb_new, jb_new. cbn. repeat split; auto. apply RQ_new. Qed.

Lemma jb_run_sim : forall ops s a, RJ s a -> jb_run ptr_ops s ops = jb_run list_ops a ops.
Proof.
  induction ops as [|o ops IH]; intros s a H; [reflexivity|].
  cbn [jb_run]. pose proof (jb_step_sim s a o H) as Hs.
  destruct (jb_step ptr_ops s o) as [[s' r] ev]. destruct (jb_step list_ops a o) as [[a' r'] ev'].
  destruct Hs as (-> & -> & HR & Hg1 & Hg2).
  destruct r'; try congruence; f_equal; apply IH; exact HR.
Qed.

Theorem cjb_run_eq_ajb_run min ops : cjb_run min ops = ajb_run min ops.
Proof. apply jb_run_sim. apply RJ_new. Qed.

(* ================= Part B ================= *)
(* the abstract queue of a jitter buffer always has the form [enc P] *)
Definition enc (P : list packet) : aq := map (fun p => (pseq p, Some p)) P.

Fixpoint ins (p : packet) (P : list packet) : list packet :=
  match P with
  | [] => [p]
  | x :: t => if pseq p <=? pseq x then p :: P else x :: ins p t
  end.

Lemma aq_push_enc P p : aq_push (enc P) (Some p) (pseq p) = enc (ins p P).
Proof.
  induction P as [|x t IH]; simpl; [reflexivity|].
  destruct (pseq p <=? pseq x); simpl; [reflexivity|]. rewrite IH. reflexivity.
Qed.

Lemma ins_perm p P : Permutation (ins p P) (p :: P).
Proof.
  induction P as [|x t IH]; simpl; [apply Permutation_refl|].
  destruct (pseq p <=? pseq x); [apply Permutation_refl|].
  eapply perm_trans; [apply perm_skip; exact IH|apply perm_swap].
Qed.

Definition kf (k : key) (p : packet) : bool :=
  match k with KSeq sq => pseq p =? sq | KTs ts => pts p =? ts end.

Fixpoint rm (f : packet -> bool) (P : list packet) : option (packet * list packet) :=
  match P with
  | [] => None
  | x :: t => if f x then Some (x, t)
              else match rm f t with Some (p, t') => Some (p, x :: t') | None => None end
  end.

Lemma aq_remove_enc k P :
  aq_remove (enc P) k =
  match rm (kf k) P with Some (p, P') => Ok (Some p, enc P') | None => Err ErrNotFound end.
Proof.
  induction P as [|x t IH]; [reflexivity|].
  cbn [enc map aq_remove rm]. fold (enc t).
  assert (E : entry_match k (pseq x, Some x) = Some (kf k x)) by (destruct k; reflexivity).
  rewrite E. destruct (kf k x); [reflexivity|]. rewrite IH.
  destruct (rm (kf k) t) as [[p t']|]; reflexivity.
Qed.

Lemma aq_popat_enc k P :
  aq_popat (enc P) k =
  match P with
  | [] => Err ErrInvalidOperation
  | _ => match rm (kf k) P with Some (p, P') => Ok (Some p, enc P') | None => Err ErrNotFound end
  end.
Proof. destruct P as [|x t]; [reflexivity|]. rewrite <- aq_remove_enc. reflexivity. Qed.

Lemma rm_some f : forall P p P', rm f P = Some (p, P') -> f p = true /\ Permutation P (p :: P').
Proof.
  induction P as [|x t IH]; simpl; intros p P' H; [discriminate|].
  destruct (f x) eqn:E.
  - inversion H; subst. split; [exact E|apply Permutation_refl].
  - destruct (rm f t) as [[q t']|]; [|discriminate]. inversion H; subst.
    destruct (IH p t' eq_refl) as [Hf Hp]. split; [exact Hf|].
    eapply perm_trans; [apply perm_skip; exact Hp|apply perm_swap].
Qed.

Lemma rm_none f : forall P, rm f P = None -> existsb f P = false.
Proof.
  induction P as [|x t IH]; simpl; intros H; [reflexivity|].
  destruct (f x); [discriminate|]. destruct (rm f t) as [[q t']|]; [discriminate|]. simpl. auto.
Qed.

Lemma aq_find_enc sq : forall P,
  aq_find (enc P) sq =
  match find (fun p => pseq p =? sq) P with Some p => Ok (Some p) | None => Err ErrNotFound end.
Proof.
  induction P as [|x t IH]; simpl; [reflexivity|]. destruct (pseq x =? sq); [reflexivity|exact IH].
Qed.

Lemma aq_len_enc P : aq_len (enc P) = u16 (Z.of_nat (length P)).
Proof. unfold aq_len, enc. rewrite map_length. reflexivity. Qed.

(* permutation-invariance of what the oracle computes on its buffer *)
Lemma existsb_perm {A} (f : A -> bool) P B : Permutation P B -> existsb f P = existsb f B.
Proof.
  induction 1; simpl; auto.
  - rewrite IHPermutation. reflexivity.
  - destruct (f x), (f y); reflexivity.
  - congruence.
Qed.

Lemma filter_perm {A} (f : A -> bool) P B : Permutation P B -> Permutation (filter f P) (filter f B).
Proof.
  induction 1; simpl; auto.
  - destruct (f x); auto.
  - destruct (f x), (f y); auto. apply perm_swap.
  - eapply perm_trans; eauto.
Qed.

Lemma remove_id_head p P : ~ In (pid p) (map pid P) -> remove_id (p :: P) (pid p) = P.
Proof.
  intros H. unfold remove_id. simpl. rewrite Z.eqb_refl. simpl.
  induction P as [|x t IH]; simpl; [reflexivity|].
  simpl in H. destruct (pid x =? pid p) eqn:E.
  - exfalso. apply H. left. lia.
  - simpl. f_equal. apply IH. intros Hin. apply H. right. exact Hin.
Qed.

Lemma remove_id_in B id p : In p (remove_id B id) -> In p B /\ pid p <> id.
Proof. unfold remove_id. rewrite filter_In. intros [H1 H2]. split; [exact H1|]. lia. Qed.

Lemma NoDup_map_filter (f : packet -> bool) B : NoDup (map pid B) -> NoDup (map pid (filter f B)).
Proof.
  induction B as [|x t IH]; simpl; intros H; [constructor|].
  apply NoDup_cons_iff in H as [Hni Hnd]. destruct (f x); simpl; auto.
  constructor; auto. intros Hin. apply Hni. apply in_map_iff in Hin as (y & Ey & Hy).
  apply filter_In in Hy as [Hy _]. apply in_map_iff. eauto.
Qed.

Lemma pkt_eta p : mkPkt (pid p) (pseq p) (pts p) = p.
Proof. destruct p; reflexivity. Qed.

Lemma memZ_false x l : ~ In x l -> memZ x l = false.
Proof.
  intros H. unfold memZ. destruct (existsb (Z.eqb x) l) eqn:E; [|reflexivity].
  apply existsb_exists in E as (y & Hy & Ey). apply Z.eqb_eq in Ey. subst. contradiction.
Qed.

Lemma in_buf_true B p : In p B -> in_buf B p = true.
Proof.
  intros H. unfold in_buf. apply existsb_exists. exists p. split; [exact H|].
  unfold pkt_eqb. rewrite !Z.eqb_refl. reflexivity.
Qed.

(* ---------- the invariant tying the abstract buffer to the oracle state ---------- *)
Definition Inv (a : jb aq) (t : sp) : Prop :=
  exists P, jpackets a = enc P /\ Permutation P (sbuf t) /\ NoDup (map pid (sbuf t)) /\
    (forall p, In p (sbuf t) -> pid p < snext t /\ ~ In (pid p) (sret t) /\ ~ In (pid p) (sold t)) /\
    (forall id, In id (sret t) \/ In id (sold t) -> id < snext t) /\
    jhead a = shead t /\ jemit a = sstarted t /\ jready a = sstarted t /\ jmin a = smin t /\
    jlast a = slast t /\ jnextid a = snext t /\ 0 <= smin t < 65536 /\
    (sstarted t = false -> Z.of_nat (length (sbuf t)) < smin t \/ sbuf t = []).

Lemma Inv_new min : 0 <= min < 65536 -> Inv (ajb_new min) (sp_new min).
Proof.
  intros H. exists []. unfold ajb_new, jb_new, sp_new. cbn.
  repeat split; auto; try lia; try constructor; try (intros p []); try (intros id [[]|[]]).
Qed.

Lemma classify_ok t p :
  In p (sbuf t) ->
  (forall p, In p (sbuf t) -> pid p < snext t /\ ~ In (pid p) (sret t) /\ ~ In (pid p) (sold t)) ->
  classify t p = None.
Proof.
  intros Hin H. destruct (H p Hin) as (_ & H1 & H2). unfold classify.
  rewrite (memZ_false _ _ H2), (memZ_false _ _ H1), (in_buf_true _ _ Hin). reflexivity.
Qed.

Lemma update_state_emit {Q} (O : pq_ops Q) (s : jb Q) : jemit s = true -> update_state O s = (s, []).
Proof. intros H. unfold update_state. rewrite H, andb_false_r. reflexivity. Qed.

(* what a pop with key k does, in oracle terms *)
Lemma popat_spec a t k : Inv a t ->
  match aq_popat (jpackets a) k with
  | Ok (w, L') => exists p P', w = Some p /\ L' = enc P' /\ kf k p = true /\ classify t p = None /\
                    In p (sbuf t) /\ Permutation P' (remove_id (sbuf t) (pid p))
  | Err e => (e = ErrInvalidOperation \/ e = ErrNotFound) /\ existsb (kf k) (sbuf t) = false
  | _ => False
  end.
Proof.
  intros (P & -> & Hperm & Hnd & Hids & _).
  rewrite aq_popat_enc. destruct P as [|x P0].
  - apply Permutation_nil in Hperm. rewrite Hperm. simpl. auto.
  - remember (x :: P0) as P. clear HeqP x P0.
    destruct (rm (kf k) P) as [[p P']|] eqn:E.
    + destruct (rm_some _ _ _ _ E) as [Hf Hp].
      assert (Hin : In p (sbuf t)).
      { eapply Permutation_in; [exact Hperm|]. eapply Permutation_in; [apply Permutation_sym; exact Hp|]. left. auto. }
      exists p, P'. repeat split; auto.
      * apply classify_ok; auto.
      * assert (Hp2 : Permutation (sbuf t) (p :: P')).
        { eapply perm_trans; [apply Permutation_sym; exact Hperm|exact Hp]. }
        assert (Hnd2 : NoDup (map pid (p :: P'))).
        { eapply Permutation_NoDup; [apply Permutation_map; exact Hp2|exact Hnd]. }
        simpl in Hnd2. apply NoDup_cons_iff in Hnd2 as [Hni _].
        rewrite <- (remove_id_head p P' Hni).
        apply filter_perm. apply Permutation_sym. exact Hp2.
    + split; [auto|]. rewrite <- (existsb_perm _ _ _ Hperm). apply rm_none. exact E.
Qed.

Lemma Inv_take a t p P' (adv : bool) rd em ooo under over :
  Inv a t -> sstarted t = true -> In p (sbuf t) -> Permutation P' (remove_id (sbuf t) (pid p)) ->
  rd = true -> em = true ->
  Inv (@mkJB aq (enc P') (jmin a) (joverflow a) (jlast a) (if adv then add16 (jhead a) 1 else jhead a)
            rd em ooo under over (jnextid a))
      (sp_take t (pid p) adv).
Proof.
  intros (P & _ & Hperm & Hnd & Hids & Hold & Hh & He & Hr & Hm & Hl & Hn & Hmin & Hlt) Hst Hin Hp' -> ->.
  exists P'. unfold sp_take. cbn. repeat split; auto; try lia.
  - unfold remove_id. apply NoDup_map_filter. exact Hnd.
  - apply remove_id_in in H as [H _]. apply Hids. exact H.
  - apply remove_id_in in H as [H Hne]. intros [E|Hr']; [congruence|]. destruct (Hids p0 H) as (_ & Hnr & _). apply Hnr. exact Hr'.
  - apply remove_id_in in H as [H _]. apply Hids. exact H.
  - intros id [[<-|H]|H]; [apply Hids; exact Hin|apply Hold; auto|apply Hold; auto].
  - rewrite Hh. reflexivity.
  - congruence.
Qed.

Lemma Inv_stats a t o u v :
  Inv a t -> Inv (@mkJB aq (jpackets a) (jmin a) (joverflow a) (jlast a) (jhead a) (jready a) (jemit a) o u v (jnextid a)) t.
Proof. intros (P & H). exists P. exact H. Qed.

(* the three pop operations share this shape *)
Lemma pop_step a t k (adv : bool) wrong :
  Inv a t ->
  (forall p, kf k p = true -> kf k p = true) ->
  let res :=
    if negb (jemit a) then (a, RErr ErrPopWhileBuffering, [])
    else match aq_popat (jpackets a) k with
         | Ok (w, q') =>
             let s1 := @mkJB aq q' (jmin a) (joverflow a) (jlast a) (if adv then add16 (jhead a) 1 else jhead a)
                            (jready a) (jemit a) (jooo a) (junder a) (jover a) (jnextid a) in
             let '(s2, ev) := update_state list_ops s1 in (s2, out_of w, ev)
         | Err e => underflow a e
         | r => stuck a r
         end in
  exists t', check_pop t (kf k) (existsb (kf k) (sbuf t)) adv wrong (snd (fst res)) = inl t' /\ Inv (fst (fst res)) t'.
Proof.
  intros HI _. assert (HI' := HI).
  destruct HI' as (P & HP & Hperm & Hnd & Hids & Hold & Hh & He & Hr & Hm & Hl & Hn & Hmin & Hlt).
  cbv zeta. unfold check_pop. rewrite He. destruct (sstarted t) eqn:Est; cbn [negb].
  2:{ cbn. exists t. split; [reflexivity|exact HI]. }
  pose proof (popat_spec a t k HI) as Hp.
  destruct (aq_popat (jpackets a) k) as [[w L']|e| |]; try contradiction.
  - destruct Hp as (p & P' & -> & -> & Hf & Hc & Hin & Hp').
    rewrite update_state_emit by (cbn; congruence). cbn [fst snd out_of].
    rewrite pkt_eta, Hc, Hf.
    eexists. split; [reflexivity|]. apply Inv_take; auto.
  - destruct Hp as [He' Hex]. unfold underflow. cbn [fst snd]. rewrite Hex.
    assert ((e =? ErrPopWhileBuffering) = false) as -> by (destruct He'; subst; reflexivity).
    assert (((e =? ErrInvalidOperation) || (e =? ErrNotFound)) = true) as -> by (destruct He'; subst; reflexivity).
    exists t. split; [reflexivity|]. apply Inv_stats. exact HI.
Qed.

Lemma push_flags n min (st : bool) :
  0 <= min < 65536 -> 0 <= n -> (st = false -> n < min \/ n = 0) ->
  ((u16 (n + 1) >=? min) && negb st) = (negb st && (n + 1 >=? min)) /\
  (negb st && (u16 n =? 0)) = (negb st && (n =? 0)).
Proof.
  intros Hmin Hn Hst. destruct st; simpl; [rewrite andb_false_r; auto|].
  specialize (Hst eq_refl). rewrite andb_true_r. unfold u16.
  assert ((n + 1) mod 65536 = n + 1) as -> by lia.
  assert (n mod 65536 = n) as -> by lia. auto.
Qed.

Lemma find_in_buf t P sq :
  Permutation P (sbuf t) ->
  (forall p, In p (sbuf t) -> pid p < snext t /\ ~ In (pid p) (sret t) /\ ~ In (pid p) (sold t)) ->
  match find (fun p => pseq p =? sq) P with
  | Some p => classify t p = None /\ pseq p = sq
  | None => has_seq (sbuf t) sq = false
  end.
Proof.
  intros Hperm Hids. destruct (find _ P) as [p|] eqn:E.
  - apply find_some in E as [Hin Hsq]. split; [|lia].
    apply classify_ok; auto. eapply Permutation_in; eauto.
  - unfold has_seq. rewrite <- (existsb_perm _ _ _ Hperm).
    destruct (existsb _ P) eqn:Ex; [|reflexivity].
    apply existsb_exists in Ex as (x & Hx & Hsq). pose proof (find_none _ _ E x Hx) as Hn.
    cbv beta in Hn. congruence.
Qed.

Lemma check_find_ok t P target :
  Permutation P (sbuf t) ->
  (forall p, In p (sbuf t) -> pid p < snext t /\ ~ In (pid p) (sret t) /\ ~ In (pid p) (sold t)) ->
  check_find t target
    (match aq_find (enc P) target with Ok w => out_of w | Err e => RErr e | _ => RPanic end) = inl t.
Proof.
  intros Hperm Hids. rewrite aq_find_enc. pose proof (find_in_buf t P target Hperm Hids) as H.
  destruct (find _ P) as [p|].
  - destruct H as [Hc Hs]. cbn [out_of check_find]. rewrite pkt_eta, Hc, Hs, Z.eqb_refl. reflexivity.
  - cbn [check_find]. rewrite H. reflexivity.
Qed.

Theorem ajb_step_spec a t o :
  Inv a t ->
  exists t', sp_step t o (snd (fst (jb_step list_ops a o))) = inl t' /\
             Inv (fst (fst (jb_step list_ops a o))) t'.
Proof.
  intros HI. assert (HI' := HI).
  destruct HI' as (P & HP & Hperm & Hnd & Hids & Hold & Hh & He & Hr & Hm & Hl & Hn & Hmin & Hlt).
  destruct o.
  - (* push *)
    set (p := mkPkt (snext t) sq ts).
    assert (Epush : aq_push (enc P) (Some p) sq = enc (ins p P)) by apply (aq_push_enc P p).
    assert (Hlen : length (sbuf t) = length P) by (symmetry; apply Permutation_length; exact Hperm).
    assert (Hlen' : length (ins p P) = S (length P)) by (apply (Permutation_length (ins_perm p P))).
    set (n := Z.of_nat (length P)).
    assert (Hl3 : Z.of_nat (length (p :: sbuf t)) = n + 1) by (cbn [length]; rewrite Hlen; unfold n; lia).
    destruct (push_flags n (smin t) (sstarted t) Hmin ltac:(unfold n; lia)
                ltac:(intros Hs; destruct (Hlt Hs) as [H|H]; [left; unfold n; lia|right; unfold n; rewrite <- Hlen, H; reflexivity]))
      as [Hf1 Hf2].
    assert (Hnew : ~ In (pid p) (map pid (sbuf t))).
    { intros Hin. apply in_map_iff in Hin as (x & Ex & Hx). apply Hids in Hx. cbn in Ex. lia. }
    assert (HINV : forall em hdj hds ooo under over,
      em = (sstarted t || (n + 1 >=? smin t)) -> hdj = hds ->
      Inv (@mkJB aq (enc (ins p P)) (smin t) (joverflow a) sq hdj em em ooo under over (snext t + 1))
          (mkSp (p :: sbuf t) hds em (smin t) sq (sret t) (sold t) (snext t + 1))).
    { intros em hdj hds ooo under over Hem ->. exists (ins p P). cbn [jpackets jmin jlast jhead jready jemit jnextid
        sbuf shead sstarted smin slast sret sold snext].
      split; [reflexivity|]. split; [eapply perm_trans; [apply ins_perm|apply perm_skip; exact Hperm]|].
      split; [cbn [map]; constructor; auto|].
      split.
      { intros x [<-|Hx].
        - cbn [pid p]. split; [lia|].
          split; intros Hin; [pose proof (Hold _ (or_introl Hin))|pose proof (Hold _ (or_intror Hin))]; lia.
        - destruct (Hids x Hx) as (H1 & H2 & H3). repeat split; auto; lia. }
      split; [intros id Hid; apply Hold in Hid; lia|].
      split; [reflexivity|]. split; [reflexivity|]. split; [reflexivity|]. split; [reflexivity|].
      split; [reflexivity|]. split; [reflexivity|]. split; [exact Hmin|].
      intros Hs. rewrite Hem in Hs. apply orb_false_iff in Hs as [Hs1 Hs2]. left. rewrite Hl3. lia. }
    unfold jb_step. cbn [o_len o_push list_ops]. rewrite HP, aq_len_enc, Hn. fold p. rewrite Epush.
    unfold update_state. cbn [jpackets jmin jemit o_len list_ops]. rewrite aq_len_enc, Hlen'.
    rewrite Nat2Z.inj_succ, <- Z.add_1_r. fold n. rewrite Hm, He, Hr, Hf1.
    cbn [sp_step]. unfold blen. rewrite Hlen. fold p. rewrite Hl3. fold n.
    assert (FIN : forall ov ev1 ev2,
      exists t',
        expect_unit (mkSp (p :: sbuf t) (if negb (sstarted t) && (n =? 0) then sq else shead t)
                       (sstarted t || (n + 1 >=? smin t)) (smin t) sq (sret t) (sold t) (snext t + 1))
          (snd (fst (let '(s2, ev3) :=
                   if negb (sstarted t) && (n + 1 >=? smin t)
                   then (@mkJB aq (enc (ins p P)) (smin t) (joverflow a) sq
                           (if negb (sstarted t) && (u16 n =? 0) then sq else jhead a) true true
                           (if (u16 n >? 0) && negb (sq =? add16 (jlast a) 1) then u32 (jooo a + 1) else jooo a)
                           (junder a) ov (snext t + 1), [EvBeginPlayback])
                   else (@mkJB aq (enc (ins p P)) (smin t) (joverflow a) sq
                           (if negb (sstarted t) && (u16 n =? 0) then sq else jhead a) (sstarted t) (sstarted t)
                           (if (u16 n >? 0) && negb (sq =? add16 (jlast a) 1) then u32 (jooo a + 1) else jooo a)
                           (junder a) ov (snext t + 1), [])
                 in (s2, RUnit, ev1 ++ ev2 ++ ev3)))) = inl t' /\
        Inv (fst (fst (let '(s2, ev3) :=
                   if negb (sstarted t) && (n + 1 >=? smin t)
                   then (@mkJB aq (enc (ins p P)) (smin t) (joverflow a) sq
                           (if negb (sstarted t) && (u16 n =? 0) then sq else jhead a) true true
                           (if (u16 n >? 0) && negb (sq =? add16 (jlast a) 1) then u32 (jooo a + 1) else jooo a)
                           (junder a) ov (snext t + 1), [EvBeginPlayback])
                   else (@mkJB aq (enc (ins p P)) (smin t) (joverflow a) sq
                           (if negb (sstarted t) && (u16 n =? 0) then sq else jhead a) (sstarted t) (sstarted t)
                           (if (u16 n >? 0) && negb (sq =? add16 (jlast a) 1) then u32 (jooo a + 1) else jooo a)
                           (junder a) ov (snext t + 1), [])
                 in (s2, RUnit, ev1 ++ ev2 ++ ev3)))) t').
    { intros ov ev1 ev2. clear Hf1. destruct (sstarted t) eqn:Est; cbn [negb andb orb] in *.
      - cbn [fst snd expect_unit]. eexists. split; [reflexivity|]. apply HINV; [reflexivity|exact Hh].
      - destruct (n + 1 >=? smin t) eqn:Ege; cbn [fst snd expect_unit]; eexists.
        + split; [reflexivity|]. apply HINV; [reflexivity|rewrite Hf2, Hh; reflexivity].
        + split; [reflexivity|]. apply HINV; [reflexivity|rewrite Hf2, Hh; reflexivity]. }
    destruct (u16 n >? joverflow a); apply FIN.
  - (* pop *)
    cbn [sp_step]. rewrite <- Hh.
    exact (pop_step a t (KSeq (jhead a)) true F_not_consecutive HI (fun _ h => h)).
  - (* pop at sequence *)
    cbn [sp_step].
    exact (pop_step a t (KSeq sq) true F_not_pushed_object HI (fun _ h => h)).
  - (* pop at timestamp *)
    cbn [sp_step].
    exact (pop_step a t (KTs ts) false F_not_pushed_object HI (fun _ h => h)).
  - (* peek *)
    unfold jb_step. cbn [o_len o_find list_ops]. rewrite HP, aq_len_enc.
    assert (Hlen : length (sbuf t) = length P) by (symmetry; apply Permutation_length; exact Hperm).
    destruct (u16 (Z.of_nat (length P)) <? 1) eqn:Elen.
    + cbn [fst snd sp_step]. unfold blen. rewrite Hlen.
      assert (Z.of_nat (length P) mod 65536 =? 0 = true) as -> by (unfold u16 in Elen; lia).
      exists t. split; [reflexivity|exact HI].
    + rewrite He, Hh, Hl.
      pose proof (check_find_ok t P (if ph && sstarted t then shead t else slast t) Hperm Hids) as Hc.
      assert (Hb : (blen t =? 0) = false).
      { unfold blen. rewrite Hlen. unfold u16 in Elen. lia. }
      rewrite aq_find_enc in *.
      destruct (find _ P) as [x|]; cbn [fst snd sp_step out_of] in *; rewrite Hb.
      * exists t. split; [exact Hc|exact HI].
      * exists t. split; [exact Hc|exact HI].
  - (* peek at sequence *)
    unfold jb_step. cbn [o_find list_ops]. rewrite HP.
    pose proof (check_find_ok t P sq Hperm Hids) as Hc. rewrite aq_find_enc in *.
    destruct (find _ P) as [x|]; cbn [fst snd sp_step] in *; exists t; (split; [exact Hc|exact HI]).
  - (* set head *)
    cbn. eexists. split; [reflexivity|]. exists P. cbn. repeat split; auto; try lia; apply Hids; auto.
  - (* head *)
    cbn. rewrite Hh, Z.eqb_refl. exists t. split; [reflexivity|exact HI].
  - (* clear *)
    assert (Hold' : forall id, In id (sret t) \/ In id (map pid (sbuf t) ++ sold t) -> id < snext t).
    { intros id [H|H]; [apply Hold; auto|]. apply in_app_or in H as [H|H]; [|apply Hold; auto].
      apply in_map_iff in H as (x & <- & Hx). apply Hids. exact Hx. }
    destruct reset; cbn; eexists; (split; [reflexivity|]); exists []; cbn;
      repeat split; auto; try lia; try constructor; try (intros p []).
Qed.

Lemma sp_step_bad t o :
  (exists c, sp_step t o RPanic = inr c) /\ (exists c, sp_step t o RDiverge = inr c).
Proof.
  destruct o; cbn; unfold check_pop, check_find, expect_unit; cbn;
    try destruct (sstarted t); try destruct (blen t =? 0); try destruct reset; cbn; split; eauto.
Qed.

Theorem ajb_run_spec : forall ops a t, Inv a t -> sp_run t ops (jb_run list_ops a ops) = 0%nat.
Proof.
  induction ops as [|o ops IH]; intros a t HI; [reflexivity|].
  cbn [jb_run]. destruct (ajb_step_spec a t o HI) as (t' & E & HI').
  destruct (jb_step list_ops a o) as [[a' r] ev]. cbn [fst snd] in *.
  destruct (sp_step_bad t o) as [[c1 B1] [c2 B2]].
  destruct r; cbn [sp_run]; rewrite ?E; try (apply IH; exact HI'); congruence.
Qed.

(* the pointer-level model satisfies the specification oracle on every history *)
Theorem cjb_run_spec min ops : 0 <= min < 65536 -> jb_spec_code (min, ops, cjb_run min ops) = 0%nat.
Proof.
  intros H. unfold jb_spec_code. rewrite cjb_run_eq_ajb_run. apply ajb_run_spec. apply Inv_new. exact H.
Qed.

(* never a panic or a non-terminating walk, on any history *)
Theorem cjb_run_good min ops : Forall (fun re => good (fst re)) (cjb_run min ops).
Proof.
  rewrite cjb_run_eq_ajb_run. unfold ajb_run.
  assert (G : forall ops s a, RJ s a -> Forall (fun re => good (fst re)) (jb_run list_ops a ops)).
  { induction ops0 as [|o ops0 IH]; intros s a H; [constructor|].
    cbn [jb_run]. pose proof (jb_step_sim s a o H) as Hs.
    destruct (jb_step ptr_ops s o) as [[s' r] ev]. destruct (jb_step list_ops a o) as [[a' r'] ev'].
    destruct Hs as (-> & -> & HR & Hg).
    destruct r'; try (constructor; [exact Hg|eapply IH; exact HR]); destruct Hg; congruence. }
  apply (G ops (cjb_new min) (ajb_new min)). apply RJ_new.
Qed.

(* ---------- readable consequences of the oracle ---------- *)
(* If the oracle accepts a history, then at every successful Pop() the returned
   sequence number is the oracle's playout head, the returned object is in the
   oracle's buffer (pushed, not yet returned, not cleared), and the head then
   advances by one modulo 2^16. *)
Lemma oracle_pop_sound t r t' :
  sp_step t OPop r = inl t' ->
  match r with
  | RPkt id sq ts =>
      sstarted t = true /\ sq = shead t /\ In (mkPkt id sq ts) (sbuf t) /\
      ~ In id (sret t) /\ ~ In id (sold t) /\
      shead t' = add16 (shead t) 1 /\ In id (sret t') /\ ~ In id (map pid (sbuf t'))
  | RErr e => t' = t /\ (sstarted t = false -> e = ErrPopWhileBuffering) /\
              (sstarted t = true -> has_seq (sbuf t) (shead t) = false)
  | _ => False
  end.
Proof.
  cbn [sp_step]. unfold check_pop. destruct (sstarted t) eqn:Est; cbn [negb].
  - destruct r; try (intros; discriminate).
    + unfold classify. cbn [pid pseq pts].
      destruct (memZ id (sold t)) eqn:E1; [intros; discriminate|].
      destruct (memZ id (sret t)) eqn:E2; [intros; discriminate|].
      destruct (in_buf (sbuf t) (mkPkt id sq ts)) eqn:E3; [|intros; discriminate]. cbn [negb pid pseq].
      destruct (sq =? shead t) eqn:E4; [|intros; discriminate]. intros H. inversion H; subst. clear H.
      unfold sp_take. cbn [shead sret sbuf].
      assert (Hin : In (mkPkt id sq ts) (sbuf t)).
      { unfold in_buf in E3. apply existsb_exists in E3 as (x & Hx & Ex). unfold pkt_eqb in Ex. cbn in Ex.
        destruct x as [i s0 t0]. cbn in Ex. assert (id = i /\ sq = s0 /\ ts = t0) as (-> & -> & ->) by lia. exact Hx. }
      repeat split; auto; try lia.
      * intros Hi. unfold memZ in E2. assert (existsb (Z.eqb id) (sret t) = true); [|congruence].
        apply existsb_exists. exists id. split; auto. apply Z.eqb_refl.
      * intros Hi. unfold memZ in E1. assert (existsb (Z.eqb id) (sold t) = true); [|congruence].
        apply existsb_exists. exists id. split; auto. apply Z.eqb_refl.
      * left. reflexivity.
      * intros Hi. apply in_map_iff in Hi as (x & Ex & Hx). apply remove_id_in in Hx as [_ Hne]. congruence.
    + destruct (e =? ErrPopWhileBuffering); [intros; discriminate|].
      destruct (has_seq (sbuf t) (shead t)) eqn:Eh; [intros; discriminate|].
      destruct ((e =? ErrInvalidOperation) || (e =? ErrNotFound)); [|intros; discriminate].
      intros H. inversion H; subst. repeat split; auto. intros; discriminate.
  - destruct r; try (intros; discriminate).
    destruct (e =? ErrPopWhileBuffering) eqn:Ee; [|intros; discriminate].
    intros H. inversion H; subst. repeat split; auto; try (intros; discriminate). intros _. unfold ErrPopWhileBuffering in *. lia.
Qed.

(* ---------- the queue driven directly: refinement over whole histories ---------- *)
Lemma RQ_pop q L : RQ q L ->
  match aq_pop L with
  | Ok (w, t) => exists q', pq_pop q = Ok (w, q') /\ RQ q' t
  | Err e => pq_pop q = Err e
  | _ => False
  end.
Proof.
  intros (l & HR & Hv & <-). pose proof (pq_pop_refines q l HR) as H.
  destruct (aq_pop (absl (qheap q) l)) as [[w t]|e| |]; auto.
  destruct H as (q' & l' & E & HR' & Habs & Hincl & Hsame).
  exists q'. split; [exact E|]. exists l'. split; [exact HR'|]. split; [|exact Habs].
  intros i Hi. rewrite Hsame by exact Hi. apply Hv. apply Hincl. exact Hi.
Qed.

Theorem pq_run_refines : forall ops q L nid, RQ q L -> pq_run q nid ops = aq_run L nid ops.
Proof.
  induction ops as [|o ops IH]; intros q L nid HQ; [reflexivity|].
  destruct o; cbn [pq_run aq_run].
  - destruct (RQ_push q L (mkPkt nid sq ts) prio HQ) as (q' & -> & HQ'). f_equal. apply IH. exact HQ'.
  - rewrite (RQ_find q L sq HQ). destruct (aq_find L sq); try reflexivity; f_equal; apply IH; exact HQ.
  - pose proof (RQ_pop q L HQ) as H. destruct (aq_pop L) as [[w t]|e| |]; try contradiction.
    + destruct H as (q' & -> & HQ'). f_equal. apply IH. exact HQ'.
    + rewrite H. f_equal. apply IH. exact HQ.
  - pose proof (RQ_popat q L (KSeq sq) HQ) as H. destruct (aq_popat L (KSeq sq)) as [[w t]|e| |]; try contradiction.
    + destruct H as (q' & -> & HQ'). f_equal. apply IH. exact HQ'.
    + rewrite H. f_equal. apply IH. exact HQ.
  - pose proof (RQ_popat q L (KTs ts) HQ) as H. destruct (aq_popat L (KTs ts)) as [[w t]|e| |]; try contradiction.
    + destruct H as (q' & -> & HQ'). f_equal. apply IH. exact HQ'.
    + rewrite H. f_equal. apply IH. exact HQ.
  - destruct (RQ_clear q L HQ) as (q' & -> & HQ'). f_equal. apply IH. exact HQ'.
  - rewrite (RQ_len q L HQ). f_equal. apply IH. exact HQ.
Qed.

Theorem pq_run_eq_aq_run ops : pq_run pq_new 0 ops = aq_run [] 0 ops.
Proof. apply pq_run_refines. apply RQ_new. Qed.
