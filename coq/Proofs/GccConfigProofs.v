(* C16, round-5 strengthening: proofs about the construction model (Model/GccConfig.v) and the oracle of
   Check/C16eCheck.v. *)
From IV Require Import Base.Word Model.GccDecision Model.GccConfig Proofs.GccDecisionProofs Check.C16eCheck.
From Coq Require Import ZifyBool.
Ltac Zify.zify_post_hook ::= Z.div_mod_to_equations.

(* ---- options: the last one of each kind counts, whatever the order ---- *)

Lemma cbuild_snoc opts o : cbuild (opts ++ [o]) = capply (cbuild opts) o.
Proof. unfold cbuild. rewrite fold_left_app. reflexivity. Qed.

Lemma configured_snoc f opts o d :
  configured f (opts ++ [o]) d = match f o with Some r => r | None => configured f opts d end.
Proof. unfold configured. rewrite rev_unit. reflexivity. Qed.

Lemma cbuild_is_configured opts :
  c_latest (cbuild opts) = configured pick_init opts 10000 /\
  c_min (cbuild opts) = configured pick_min opts 5000 /\
  c_max (cbuild opts) = configured pick_max opts 50000000 /\
  c_user_pacer (cbuild opts) = has_pacer_opt opts.
Proof.
  induction opts as [|o opts IH] using rev_ind.
  - repeat split.
  - destruct IH as (A & B & C & D). rewrite cbuild_snoc, !configured_snoc.
    unfold has_pacer_opt in *. rewrite existsb_app. cbn [existsb].
    destruct o; cbn; rewrite ?A, ?B, ?C, ?D, ?Bool.orb_false_r, ?Bool.orb_true_r; auto.
Qed.

(* ---- construction ---- *)

Lemma default_pacer_told_getter opts :
  c_user_pacer (cbuild opts) = false ->
  n_pacer_told (cnew_of FromField opts) = Some (n_getter (cnew_of FromField opts)).
Proof. intros H. unfold cnew_of. cbn. rewrite H. reflexivity. Qed.

Lemma components_agree opts :
  let n := cnew_of FromField opts in
  n_getter n = configured pick_init opts 10000 /\ n_loss n = n_getter n /\ n_delay n = n_getter n /\
  n_min n = configured pick_min opts 5000 /\ n_max n = configured pick_max opts 50000000.
Proof.
  destruct (cbuild_is_configured opts) as (A & B & C & _). unfold cnew_of. cbn. auto.
Qed.

Lemma const_ctor_refuted :
  let opts := [OInit 8000000] in
  c_user_pacer (cbuild opts) = false /\
  c_min (cbuild opts) <= c_latest (cbuild opts) <= c_max (cbuild opts) /\
  n_getter (cnew_of FromConst opts) = 8000000 /\
  n_pacer_told (cnew_of FromConst opts) = Some 10000 /\
  cfg_spec (model_cfg_case FromConst opts (-1) []) = 1%nat /\
  cfg_spec (model_cfg_case FromField opts (-1) []) = 0%nat.
Proof. vm_compute. repeat split; congruence. Qed.

(* ---- the pacer's rate follows the getter through every history ---- *)

Lemma lb_target_nil t : lb_target t [] = t.
Proof. reflexivity. Qed.

Lemma lb_target_snoc t l x : lb_target t (l ++ [x]) = lb_set x.
Proof. unfold lb_target. rewrite rev_unit. reflexivity. Qed.

Lemma lb_target_nonempty t l d : l <> [] -> lb_target t l = lb_set (last l d).
Proof.
  intros H. destruct (exists_last H) as (l' & x & ->). rewrite lb_target_snoc, last_last. reflexivity.
Qed.

Lemma gstep_cases cmin cmax s o :
  let s' := gstep cmin cmax true s o in
  (g_latest s' = g_latest s /\ g_pacer s' = g_pacer s) \/
  (g_latest s' <> g_latest s /\ g_pacer s' = g_pacer s ++ [g_latest s']).
Proof.
  destruct o as [use st raw|[raw|]]; cbn; auto.
  destruct (negb (g_init s)); cbn; auto.
  destruct (transition st use =? 2); auto.
  unfold on_delay_update; cbv zeta; cbn.
  destruct (_ =? g_latest s) eqn:E; cbn; auto. right. split; auto. lia.
Qed.

Lemma pacer_follows_getter opts ops :
  let c := cbuild opts in
  c_min c <= c_latest c <= c_max c ->
  let s := crun opts ops in
  told_last (c_latest c) (g_pacer s) = g_latest s /\
  (g_pacer s = [] -> lb_target (c_latest c) (g_pacer s) = g_latest s) /\
  (g_pacer s <> [] -> lb_target (c_latest c) (g_pacer s) = lb_set (g_latest s)).
Proof.
  intros c Hc s.
  assert (Hmm : c_min c <= c_max c) by lia.
  destruct (consistent_all (c_min c) (c_max c) Hmm (c_latest c) ops Hc) as [_ L].
  fold c in s. change (grun (c_min c) (c_max c) true (ginit (c_latest c)) ops) with s in L.
  unfold told_last. repeat split.
  - auto.
  - intros E. rewrite E in *. cbn in *. auto.
  - intros E. rewrite (lb_target_nonempty _ _ (c_latest c) E). congruence.
Qed.

(* ---- the model of the code is accepted by the oracle ---- *)

Section Trace.
  Variable cmin cmax : Z.
  Hypothesis Hmm : cmin <= cmax.
  Variable told0 : Z.

  Lemma trace_spec_model s ops changed :
    GInv cmin cmax s ->
    changed = negb (match g_pacer s with [] => true | _ => false end) ->
    cfg_trace_spec cmin cmax told0 (g_latest s) changed
      (map (fun q => (fst q, snd q, -1)) (ctrace cmin cmax told0 s ops)) = 0%nat.
  Proof.
    revert s changed. induction ops as [|o tl IH]; intros s changed HI HC; [reflexivity|].
    cbn [ctrace map cfg_trace_spec fst snd].
    pose proof (gstep_inv cmin cmax Hmm s o HI) as HI'.
    set (s' := gstep cmin cmax true s o) in *.
    destruct (gi_latest _ _ _ HI') as [R1 R2]. unfold inb2.
    replace ((cmin <=? g_latest s') && (g_latest s' <=? cmax)) with true by lia. cbn [negb].
    assert (W : (if changed || negb (g_latest s' =? g_latest s) then lb_set (g_latest s') else told0)
                = lb_target told0 (g_pacer s')).
    { destruct (gstep_cases cmin cmax s o) as [[A B]|[A B]]; fold s' in A, B.
      - rewrite A, Z.eqb_refl, Bool.orb_false_r, B. subst changed.
        destruct (g_pacer s) as [|x l] eqn:E; cbn [negb]; [reflexivity|].
        rewrite (lb_target_nonempty told0 (x :: l) (g_latest s)) by discriminate.
        rewrite <- E, <- (gi_last _ _ _ HI). congruence.
      - rewrite B, lb_target_snoc. replace (g_latest s' =? g_latest s) with false by lia.
        rewrite Bool.orb_true_r. reflexivity. }
    rewrite W. unfold seen_ok at 1 2. rewrite !Z.eqb_refl, !Bool.orb_true_r. cbn [andb negb].
    apply IH; auto.
    destruct (gstep_cases cmin cmax s o) as [[A B]|[A B]]; fold s' in A, B.
    - rewrite A, Z.eqb_refl, Bool.orb_false_r, B. exact HC.
    - rewrite B. replace (g_latest s' =? g_latest s) with false by lia.
      rewrite Bool.orb_true_r. destruct (g_pacer s); reflexivity.
  Qed.
End Trace.

Lemma model_meets_oracle opts px ops :
  let c := cbuild opts in
  c_min c <= c_latest c <= c_max c ->
  cfg_spec (model_cfg_case FromField opts px ops) = 0%nat.
Proof.
  intros c Hc. destruct (cbuild_is_configured opts) as (A & B & C & D). fold c in A, B, C, D.
  unfold cfg_spec, model_cfg_case. cbv zeta. cbn [n_getter n_loss n_delay n_pacer_told cnew_of]. fold c.
  rewrite <- A, <- B, <- C, <- D.
  replace ((c_min c <=? c_latest c) && (c_latest c <=? c_max c)) with true by lia. cbn [negb].
  rewrite Z.eqb_refl. cbn [negb]. unfold inb2.
  replace ((c_min c <=? c_latest c) && (c_latest c <=? c_max c)) with true by lia. cbn [negb].
  assert (Hmm : c_min c <= c_max c) by lia.
  destruct (c_user_pacer c) eqn:U; cbn [negb andb].
  - apply (trace_spec_model (c_min c) (c_max c) Hmm px (ginit (c_latest c)) ops false); auto.
    apply ginit_inv; auto.
  - unfold seen_ok at 1 2. rewrite Z.eqb_refl, Bool.orb_true_r. cbn [andb negb orb Z.eqb].
    apply (trace_spec_model (c_min c) (c_max c) Hmm (c_latest c) (ginit (c_latest c)) ops false); auto.
    apply ginit_inv; auto.
Qed.

(* ---- what an accepted observation says (soundness of the oracle's first clauses) ---- *)

Lemma oracle_sound opts px ops g0 l0 d0 th tl obs :
  cfg_spec (opts, px, ops, (g0, l0, d0), (th, tl), obs) = 0%nat ->
  let c := cbuild opts in
  c_min c <= c_latest c <= c_max c ->
  g0 = c_latest c /\ c_min c <= g0 <= c_max c /\
  (c_user_pacer c = false -> (th = -1 \/ th = g0) /\ (tl = -1 \/ tl = g0)).
Proof.
  intros H c Hc. destruct (cbuild_is_configured opts) as (A & B & C & D). fold c in A, B, C, D.
  unfold cfg_spec in H. rewrite <- A, <- B, <- C, <- D in H.
  replace ((c_min c <=? c_latest c) && (c_latest c <=? c_max c)) with true in H by lia. cbn [negb] in H.
  destruct (g0 =? c_latest c) eqn:E1; cbn [negb] in H; [|discriminate].
  destruct (inb2 (c_min c) (c_max c) g0) eqn:E2; cbn [negb] in H; [|discriminate].
  unfold inb2 in E2. repeat split; try lia.
  - destruct (c_user_pacer c); [discriminate|]. cbn [negb andb] in H.
    destruct (seen_ok g0 th) eqn:E3; [|discriminate]. unfold seen_ok in E3. lia.
  - destruct (c_user_pacer c); [discriminate|]. cbn [negb andb] in H.
    destruct (seen_ok g0 th) eqn:E3; [|discriminate].
    destruct (seen_ok g0 tl) eqn:E4; [|discriminate]. unfold seen_ok in E4. lia.
Qed.
