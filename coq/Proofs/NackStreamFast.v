(* C03 (deepening round): an efficient executable form of Spec/NackGenSpec.v's spec_stream
   (recount state kept incrementally, counts as an association list over the current missing
   list) and the proof that it computes the same outputs.  Used by Check/C03StreamCheck.v. *)
From IV Require Import Base.Word Model.NackGen Spec.NackSpec Spec.NackGenSpec.
From Coq Require Import ZifyBool.

Record fstream := mk_fs { fs_st : option (option sst); fs_cnt : cmap }.

Definition fs_init : fstream := mk_fs None [].

Definition fast_tick (mx : Z) (m : list Z) (cnt : cmap) : option (list Z) * cmap :=
  match m with
  | [] => (None, [])
  | _ :: _ =>
      if mx >? 0 then
        match filter (fun x => cget cnt x <? mx) m with
        | [] => (None, cnt)
        | r => (Some r, map (fun x => (x, if cget cnt x <? mx then cget cnt x + 1 else cget cnt x)) m)
        end
      else (Some m, map (fun x => (x, cget cnt x)) m)
  end.

Definition fast_step (c : cfg) (s : Z) (st : fstream) (o : op) : fstream * option (option (list Z)) :=
  match o with
  | Bind k true => if k =? s then (mk_fs (Some None) [], None) else (st, None)
  | Bind _ false => (st, None)
  | Unbind k => if k =? s then (fs_init, None) else (st, None)
  | Arrive k seq true =>
      if k =? s then
        match fs_st st with
        | Some r => (mk_fs (Some (s_add r seq)) (fs_cnt st), None)
        | None => (st, None)
        end
      else (st, None)
  | Arrive _ _ false => (st, None)
  | Tick =>
      match fs_st st with
      | None => (st, Some None)
      | Some r =>
          let t := fast_tick (c_max c) (spec_missing (c_size c) (c_skip c) r) (fs_cnt st) in
          (mk_fs (Some r) (snd t), Some (fst t))
      end
  end.

Fixpoint fast_stream (c : cfg) (s : Z) (st : fstream) (ops : list op) : list (option (list Z)) :=
  match ops with
  | [] => []
  | o :: tl =>
      let '(st', out) := fast_step c s st o in
      match out with
      | Some r => r :: fast_stream c s st' tl
      | None => fast_stream c s st' tl
      end
  end.

(* ---- equivalence ---- *)

Lemma cget_map_over (g : Z -> Z) m x :
  cget (map (fun y => (y, g y)) m) x = if memz x m then g x else 0.
Proof.
  induction m as [|y tl IH]; [reflexivity|]. cbn [map cget memz existsb].
  destruct (x =? y) eqn:E; cbn [orb]; [|exact IH]. apply Z.eqb_eq in E. subst. reflexivity.
Qed.

Lemma fast_tick_spec mx m cnt f : (forall x, cget cnt x = f x) ->
  fst (fast_tick mx m cnt) = fst (spec_tick mx m f) /\
  forall x, cget (snd (fast_tick mx m cnt)) x = snd (spec_tick mx m f) x.
Proof.
  intros H. unfold fast_tick, spec_tick. destruct m as [|a tl]; [split; reflexivity|].
  set (m := a :: tl).
  assert (Hf : filter (fun x => cget cnt x <? mx) m = filter (fun x => f x <? mx) m)
    by (apply filter_ext; intros x; rewrite H; reflexivity).
  rewrite Hf. destruct (mx >? 0).
  - destruct (filter (fun x => f x <? mx) m); cbn [fst snd]; split; auto.
    intros x. rewrite (cget_map_over (fun y => if cget cnt y <? mx then cget cnt y + 1 else cget cnt y)).
    rewrite H. reflexivity.
  - cbn [fst snd]. split; auto. intros x. rewrite (cget_map_over (fun y => cget cnt y)), H. reflexivity.
Qed.

Definition frel (fs : fstream) (st : sstream) : Prop :=
  fs_st fs = option_map (fun l => s_add_all None l) (ss_arr st) /\
  forall x, cget (fs_cnt fs) x = ss_cnt st x.

Lemma frel_init : frel fs_init ss_init.
Proof. split; reflexivity. Qed.

Lemma fast_step_spec c s fs st o : frel fs st ->
  frel (fst (fast_step c s fs o)) (fst (spec_step c s st o)) /\
  snd (fast_step c s fs o) = snd (spec_step c s st o).
Proof.
  intros [H1 H2]. unfold frel.
  destruct o as [k nk|k|k q ok|]; cbn [fast_step spec_step].
  - destruct nk; [|auto]. destruct (k =? s); cbn [fst snd fs_st fs_cnt ss_arr ss_cnt option_map]; auto.
  - destruct (k =? s); cbn [fst snd fs_init ss_init fs_st fs_cnt ss_arr ss_cnt option_map]; auto.
  - destruct ok; [|auto]. destruct (k =? s); [|auto].
    rewrite H1. destruct (ss_arr st) as [l|] eqn:Ea; cbn [option_map fst snd].
    + cbn [fs_st fs_cnt ss_arr ss_cnt option_map]. split; [split|]; auto.
      unfold s_add_all. rewrite fold_left_app. reflexivity.
    + rewrite Ea. auto.
  - rewrite H1. destruct (ss_arr st) as [l|] eqn:Ea; cbn [option_map fst snd].
    + destruct (fast_tick_spec (c_max c) (spec_missing (c_size c) (c_skip c) (s_add_all None l))
                  (fs_cnt fs) (ss_cnt st) H2) as [T1 T2].
      cbn [fs_st fs_cnt ss_arr ss_cnt option_map]. split; [split|]; auto. f_equal. exact T1.
    + rewrite Ea. auto.
Qed.

Theorem fast_stream_eq c s : forall ops fs st, frel fs st ->
  fast_stream c s fs ops = spec_stream c s st ops.
Proof.
  induction ops as [|o tl IH]; intros fs st HR; [reflexivity|].
  destruct (fast_step_spec c s fs st o HR) as [HR' Ho].
  cbn [fast_stream spec_stream]. destruct (fast_step c s fs o) as [fs' out]. cbn [fst snd] in *.
  rewrite <- Ho. destruct out; [f_equal|]; apply IH; auto.
Qed.
