(* C08, round 5: the glue of pkg/rfc8888/interceptor.go (Model/Rfc8888Sender.v).
   - the sender loop is the Recorder run on the history [snd_ops] (arrival time and
     report time = readings of the configured clock);
   - the values delivered on the ticker channel have no influence on any report;
   - hence the reports written to the RTCP writer pass the specification oracle;
   - a report is fixed by the operations up to its build (later operations, in
     particular later builds, do not change a report already handed out). *)
From IV Require Import Base.Word Model.Unwrapper Model.StreamLog Model.Rfc8888Recorder Model.Rfc8888Sender
  Spec.Rfc8888Spec Proofs.StreamLogProofs Proofs.Rfc8888Proofs Proofs.Rfc8888SpecProofs
  Proofs.AtoFloatProofs Proofs.Rfc8888More.

Section S.
  Variable atok : Z -> bool * Z.

  Lemma snd_run_rec_run evs : forall s,
    snd_run atok s evs = rec_run atok (s_rec s) (snd_ops (s_now s) (s_started s) evs).
  Proof.
    induction evs as [|e tl IH]; intros s; [reflexivity|].
    destruct e as [t|ssrc seq|v].
    - cbn [snd_run snd_step snd_ops]. rewrite IH. reflexivity.
    - cbn [snd_run snd_step snd_ops rec_run rec_step]. rewrite IH. reflexivity.
    - cbn [snd_run snd_step snd_ops]. destruct (s_started s) eqn:Hst.
      + cbn [rec_run rec_step].
        destruct (rec_build atok (s_rec s) (s_now s) snd_max_report_size) as [r' rep].
        rewrite IH. reflexivity.
      + rewrite IH, Hst. reflexivity.
  Qed.

  Lemma snd_ops_ticks a b : same_but_ticks a b -> forall now st, snd_ops now st a = snd_ops now st b.
  Proof.
    induction 1 as [|t a b _ IH|ssrc seq a b _ IH|v w a b _ IH]; intros now st; cbn [snd_ops];
      [reflexivity|apply IH|rewrite IH; reflexivity|destruct st; rewrite IH; reflexivity].
  Qed.

  Lemma snd_run_ticks a b s : same_but_ticks a b -> snd_run atok s a = snd_run atok s b.
  Proof. intros H. rewrite !snd_run_rec_run, (snd_ops_ticks a b H). reflexivity. Qed.

  (* reports are values: the reports of a history are a prefix of the reports of every
     continuation *)
  Lemma rec_run_app ops : forall r more, exists r',
    rec_run atok r (ops ++ more) = rec_run atok r ops ++ rec_run atok r' more.
  Proof.
    induction ops as [|o tl IH]; intros r more.
    - exists r. reflexivity.
    - cbn [app rec_run]. destruct (rec_step atok r o) as [r1 [rep|]].
      + destruct (IH r1 more) as [r' E]. exists r'. rewrite E. reflexivity.
      + destruct (IH r1 more) as [r' E]. exists r'. exact E.
  Qed.

  Lemma rec_run_prefix r ops more :
    firstn (length (rec_run atok r ops)) (rec_run atok r (ops ++ more)) = rec_run atok r ops.
  Proof.
    destruct (rec_run_app ops r more) as [r' E]. rewrite E.
    rewrite firstn_app, Nat.sub_diag, firstn_all. cbn [firstn]. apply app_nil_r.
  Qed.

  Lemma snd_run_app evs : forall s more, exists s',
    snd_run atok s (evs ++ more) = snd_run atok s evs ++ snd_run atok s' more.
  Proof.
    induction evs as [|e tl IH]; intros s more.
    - exists s. reflexivity.
    - cbn [app snd_run]. destruct (snd_step atok s e) as [s1 [rep|]].
      + destruct (IH s1 more) as [s' E]. exists s'. rewrite E. reflexivity.
      + destruct (IH s1 more) as [s' E]. exists s'. exact E.
  Qed.

  Lemma snd_run_prefix s evs more :
    firstn (length (snd_run atok s evs)) (snd_run atok s (evs ++ more)) = snd_run atok s evs.
  Proof.
    destruct (snd_run_app evs s more) as [s' E]. rewrite E.
    rewrite firstn_app, Nat.sub_diag, firstn_all. cbn [firstn]. apply app_nil_r.
  Qed.
End S.

(* well-formed events: clock readings in [-2^62, 2^62) ns, uint16 sequence numbers; the
   value delivered on the ticker channel is ANY integer *)
Definition wf_sev (e : sev) : Prop :=
  match e with
  | SNow t => clock_ok t = true
  | SPacket _ seq => 0 <= seq < 65536
  | STick _ => True
  end.

Lemma snd_ops_wf evs : Forall wf_sev evs -> forall now st, Forall wf_op (snd_ops now st evs).
Proof.
  induction 1 as [|e tl He _ IH]; intros now st; [constructor|].
  destruct e as [t|ssrc seq|v]; cbn [snd_ops].
  - apply IH.
  - constructor; [|apply IH]. cbn in He |- *. lia.
  - destruct st; [constructor; [exact I|]|]; apply IH.
Qed.

Lemma snd_ops_clocks evs : Forall wf_sev evs -> forall now st, clock_ok now = true ->
  clocks_in_range (snd_ops now st evs) = true.
Proof.
  unfold clocks_in_range.
  induction 1 as [|e tl He _ IH]; intros now st Hn; [reflexivity|].
  destruct e as [t|ssrc seq|v]; cbn [snd_ops].
  - apply IH. exact He.
  - cbn [forallb op_clock]. rewrite Hn. apply IH. exact Hn.
  - destruct st; [cbn [forallb op_clock]; rewrite Hn|]; apply IH; exact Hn.
Qed.

Definition sender_outs (evs : list sev) : list oreport :=
  map (fun rep : report => (marshal_len rep, map enc_block rep)) (snd_run ato_kernel new_sender evs).

Lemma sender_outs_model evs :
  sender_outs evs = model_outs ato_kernel [] (snd_ops 0 false evs).
Proof. unfold sender_outs, model_outs. rewrite snd_run_rec_run. reflexivity. Qed.

Lemma sender_meets_spec evs : Forall wf_sev evs ->
  no_older_than_first (snd_ops 0 false evs) = true ->
  spec_walk [] (snd_ops 0 false evs) (sender_outs evs) = 0%nat.
Proof.
  intros Hwf Hno. rewrite sender_outs_model.
  apply float_model_meets_spec_full; [apply snd_ops_wf; exact Hwf| |exact Hno].
  apply snd_ops_clocks; [exact Hwf|reflexivity].
Qed.

Lemma sender_meets_spec_0_or_7 evs : Forall wf_sev evs ->
  let c := spec_walk [] (snd_ops 0 false evs) (sender_outs evs) in c = 0%nat \/ c = 7%nat.
Proof.
  intros Hwf. cbv zeta. rewrite sender_outs_model.
  apply float_model_meets_spec; [apply snd_ops_wf; exact Hwf|].
  apply snd_ops_clocks; [exact Hwf|reflexivity].
Qed.

Lemma sender_ticks_irrelevant a b : same_but_ticks a b -> sender_outs a = sender_outs b.
Proof. intros H. unfold sender_outs. rewrite (snd_run_ticks ato_kernel a b new_sender H). reflexivity. Qed.

(* every report time of the sender's history is a reading of the configured clock
   (a value set by SNow, or the initial 0), never a ticker value *)
Fixpoint clock_readings (evs : list sev) : list Z :=
  match evs with
  | [] => []
  | SNow t :: tl => t :: clock_readings tl
  | _ :: tl => clock_readings tl
  end.

Lemma snd_ops_times evs : forall now st o, In o (snd_ops now st evs) ->
  op_clock o = now \/ In (op_clock o) (clock_readings evs).
Proof.
  induction evs as [|e tl IH]; intros now st o Hin; [destruct Hin|].
  destruct e as [t|ssrc seq|v]; cbn [snd_ops clock_readings] in *.
  - destruct (IH _ _ _ Hin) as [E|E]; right; [left; symmetry; exact E|right; exact E].
  - destruct Hin as [<-|Hin]; [left; reflexivity|]. apply (IH _ _ _ Hin).
  - destruct st.
    + destruct Hin as [<-|Hin]; [left; reflexivity|]. apply (IH _ _ _ Hin).
    + apply (IH _ _ _ Hin).
Qed.
