(* C18, round-4 strengthening: two clauses of the property stated directly over
   the outputs of the pointer-level model, for every history - in particular for
   histories that buffer 2^16 packets and more (the queue's uint16 length counter
   wraps) and for every minimum-start count up to 65535 (far above the buffer's
   overflow length of 100):

   A. after Clear, every pop, peek and find fails until the next Push, whatever
      was buffered and however much of it;
   B. with a minimum-start count [min], every pop is refused while fewer than
      [min] packets have been pushed, and once [min] (at least one) have been
      pushed Pop() returns a packet carrying the number of the first packet
      buffered. *)
From IV Require Import Base.Word Model.PriorityQueue Model.JitterBuffer Model.FastQueue
  Proofs.PriorityQueueProofs Proofs.JitterBufferProofs Proofs.PriorityQueueSorted
  Check.C18Check Check.C18dCheck Proofs.FastQueueProofs.
From Coq Require Import ZifyBool PeanoNat.
Ltac Zify.zify_post_hook ::= Z.div_mod_to_equations.

(* ---------- the list model never wedges ---------- *)
Definition vals (L : aq) : Prop := Forall (fun e => snd e <> None) L.

Lemma ajb_step_good (a : jb aq) o : vals (jpackets a) ->
  good (snd (fst (jb_step list_ops a o))) /\ vals (jpackets (fst (fst (jb_step list_ops a o)))).
Proof.
  intros Hv.
  assert (H : RJg (fun (q L : aq) => q = L /\ vals L) a a) by (unfold RJg; repeat split; auto).
  pose proof (jb_step_simg list_ops (fun (q L : aq) => q = L /\ vals L)) as S.
  specialize (S ltac:(intros q L [-> _]; reflexivity)).
  specialize (S ltac:(intros q L sq [-> _]; reflexivity)).
  specialize (S ltac:(intros q L p prio [-> Hq]; eexists; split; [reflexivity|];
                      split; [reflexivity|apply aq_push_vals; [exact Hq|discriminate]])).
  assert (Hpop : forall (q L : aq) k, q = L /\ vals L ->
    match aq_popat L k with
    | Ok (w, t) => exists q', o_popat list_ops q k = Ok (w, q') /\ q' = t /\ vals t
    | Err e => o_popat list_ops q k = Err e
    | _ => False
    end).
  { intros q L k [-> Hq]. cbn [o_popat list_ops].
    pose proof (aq_remove_vals k L Hq) as Hr. destruct L as [|e L]; [reflexivity|].
    cbn [aq_popat] in *. destruct (aq_remove (e :: L) k) as [[w t]|x| |]; auto.
    exists t. auto. }
  specialize (S Hpop).
  specialize (S ltac:(intros q L _; exists []; split; [reflexivity|split; [reflexivity|constructor]])).
  specialize (S a a o H).
  destruct (jb_step list_ops a o) as [[a' r] ev]. cbn [fst snd].
  destruct S as (_ & _ & HR & Hg). split; [exact Hg|]. destruct HR as ((_ & Hv') & _). exact Hv'.
Qed.

Lemma jb_exec_app {Q} (O : pq_ops Q) : forall x (s : jb Q) y, jb_exec O s (x ++ y) = jb_exec O (jb_exec O s x) y.
Proof. induction x as [|o x IH]; intros s y; [reflexivity|]. cbn [app jb_exec]. apply IH. Qed.

Lemma ajb_run_app : forall x (a : jb aq) y, vals (jpackets a) ->
  jb_run list_ops a (x ++ y) = jb_run list_ops a x ++ jb_run list_ops (jb_exec list_ops a x) y /\
  length (jb_run list_ops a x) = length x /\
  vals (jpackets (jb_exec list_ops a x)).
Proof.
  induction x as [|o x IH]; intros a y Hv; [auto|].
  cbn [app jb_run jb_exec]. destruct (ajb_step_good a o Hv) as [[Hg1 Hg2] Hv'].
  destruct (jb_step list_ops a o) as [[a' r] ev]. cbn [fst snd] in *.
  destruct (IH a' y Hv') as (E1 & E2 & E3).
  destruct r; try congruence; cbn [app length]; rewrite E1, E2; auto.
Qed.

Lemma ajb_run_one (a : jb aq) o :
  jb_run list_ops a [o] = [(snd (fst (jb_step list_ops a o)), snd (jb_step list_ops a o))].
Proof. cbn [jb_run]. destruct (jb_step list_ops a o) as [[a' r] ev]. destruct r; reflexivity. Qed.

(* ---------- A: after Clear ---------- *)
Definition is_pushb (o : op) : bool := match o with OPush _ _ => true | _ => false end.
(* every way of asking the buffer for a packet *)
Definition is_queryb (o : op) : bool :=
  match o with OPop | OPopAtSeq _ | OPopAtTs _ | OPeek _ | OPeekAtSeq _ => true | _ => false end.

Lemma empty_step (a : jb aq) o : jpackets a = [] -> is_pushb o = false ->
  jpackets (fst (fst (jb_step list_ops a o))) = [] /\
  (is_queryb o = true -> exists e, snd (fst (jb_step list_ops a o)) = RErr e).
Proof.
  intros E Hp. destruct o; try discriminate; unfold jb_step; cbn [o_len o_find o_popat o_clear list_ops]; rewrite ?E.
  - destruct (negb (jemit a)); cbn; eauto.
  - destruct (negb (jemit a)); cbn; eauto.
  - destruct (negb (jemit a)); cbn; eauto.
  - cbn. eauto.
  - cbn. eauto.
  - cbn. split; [first [reflexivity|exact E]|discriminate].
  - cbn. split; [first [reflexivity|exact E]|discriminate].
  - destruct reset; cbn; split; auto; discriminate.
Qed.

Lemma empty_exec : forall qs (a : jb aq), jpackets a = [] -> Forall (fun o => is_pushb o = false) qs ->
  jpackets (jb_exec list_ops a qs) = [].
Proof.
  induction qs as [|o qs IH]; intros a E H; [exact E|]. inversion H; subst.
  cbn [jb_exec]. apply IH; [|assumption]. apply empty_step; assumption.
Qed.

Lemma clear_empties (a : jb aq) reset : jpackets (fst (fst (jb_step list_ops a (OClear reset)))) = [].
Proof. unfold jb_step. cbn [o_clear list_ops]. destruct reset; reflexivity. Qed.

Theorem after_clear_every_query_fails min ops reset qs o :
  Forall (fun o => is_pushb o = false) qs -> is_queryb o = true ->
  exists e ev,
    nth_error (cjb_run min (ops ++ OClear reset :: qs ++ [o])) (length ops + 1 + length qs) = Some (RErr e, ev).
Proof.
  intros Hq Ho. rewrite cjb_run_eq_ajb_run. unfold ajb_run.
  replace (ops ++ OClear reset :: qs ++ [o]) with ((ops ++ OClear reset :: qs) ++ [o])
    by (rewrite <- app_assoc; reflexivity).
  assert (Hv0 : vals (jpackets (ajb_new min))) by constructor.
  destruct (ajb_run_app (ops ++ OClear reset :: qs) (ajb_new min) [o] Hv0) as (E1 & E2 & _).
  rewrite E1. rewrite nth_error_app2 by (rewrite E2, app_length; cbn [length]; lia).
  rewrite E2, app_length. cbn [length].
  replace (length ops + 1 + length qs - (length ops + S (length qs)))%nat with O by lia.
  rewrite ajb_run_one. cbn [nth_error].
  set (a := jb_exec list_ops (ajb_new min) (ops ++ OClear reset :: qs)).
  assert (Ea : jpackets a = []).
  { unfold a. rewrite jb_exec_app. cbn [jb_exec]. apply empty_exec; [apply clear_empties|exact Hq]. }
  assert (Hp : is_pushb o = false) by (destruct o; try reflexivity; discriminate).
  destruct (empty_step a o Ea Hp) as [_ H]. destruct (H Ho) as [e He]. rewrite He. eauto.
Qed.

(* ---------- B: the minimum-start count ---------- *)
Definition push_ops (ps : list (Z * Z)) : list op := map (fun p => OPush (fst p) (snd p)) ps.

(* oracle state after a run of pushes *)
Fixpoint sp_pushes (t : sp) (ps : list (Z * Z)) : sp :=
  match ps with
  | [] => t
  | p :: tl =>
      sp_pushes (mkSp (mkPkt (snext t) (fst p) (snd p) :: sbuf t)
                      (if negb (sstarted t) && (blen t =? 0) then fst p else shead t)
                      (sstarted t || (Z.of_nat (length (mkPkt (snext t) (fst p) (snd p) :: sbuf t)) >=? smin t))
                      (smin t) (fst p) (sret t) (sold t) (snext t + 1)) tl
  end.

Lemma sp_run_pushes : forall ps t rest outs,
  sp_run t (push_ops ps ++ rest) outs = 0%nat ->
  exists outs2, skipn (length ps) outs = outs2 /\ (length ps <= length outs)%nat /\
                sp_run (sp_pushes t ps) rest outs2 = 0%nat.
Proof.
  induction ps as [|p ps IH]; intros t rest outs H.
  - exists outs. cbn. auto with arith.
  - cbn [push_ops map app] in H. destruct outs as [|[r ev] outs]; [discriminate|].
    cbn [sp_run sp_step] in H.
    destruct r; cbn [expect_unit] in H; try discriminate.
    apply IH in H as (outs2 & E & Hl & H). exists outs2. cbn [length skipn sp_pushes]. auto with arith.
Qed.

(* invariants of a run of pushes into a fresh buffer *)
Definition pre_start (t : sp) : Prop :=
  0 <= smin t /\ (sstarted t = true <-> (smin t <= blen t /\ 1 <= blen t)) /\ sold t = [] /\ sret t = [] /\
  NoDup (map pid (sbuf t)) /\ (forall p, In p (sbuf t) -> pid p < snext t).

Lemma pre_start_push t p : pre_start t -> pre_start (sp_pushes t [p]).
Proof.
  intros (Hm & Hs & Ho & Hr & Hn & Hi). unfold pre_start, blen in *. cbn [sp_pushes sstarted smin sbuf sold sret snext length map pid].
  rewrite Nat2Z.inj_succ. split; [exact Hm|]. split; [|split; [exact Ho|split; [exact Hr|split]]].
  - split.
    + intros H. apply Bool.orb_true_iff in H as [H|H]; [apply Hs in H; lia|lia].
    + intros [H1 H2]. apply Bool.orb_true_iff. right. lia.
  - constructor; [|exact Hn]. intros Hin. apply in_map_iff in Hin as (q & Eq & Hq). apply Hi in Hq. lia.
  - intros q [<-|H]; cbn [pid]; [lia|]. apply Hi in H. lia.
Qed.

Lemma sp_pushes_app t a b : sp_pushes t (a ++ b) = sp_pushes (sp_pushes t a) b.
Proof. revert t. induction a as [|p a IH]; intros t; [reflexivity|]. cbn [app sp_pushes]. apply IH. Qed.

Lemma pre_start_pushes : forall ps t, pre_start t -> pre_start (sp_pushes t ps) /\
  blen (sp_pushes t ps) = blen t + Z.of_nat (length ps) /\ smin (sp_pushes t ps) = smin t.
Proof.
  induction ps as [|p ps IH]; intros t H.
  - cbn. split; [exact H|]. split; [lia|reflexivity].
  - change (p :: ps) with ([p] ++ ps). rewrite sp_pushes_app.
    destruct (IH _ (pre_start_push t p H)) as (H1 & H2 & H3). split; [exact H1|]. split.
    + rewrite H2. unfold blen. cbn [sp_pushes sbuf length]. rewrite !Nat2Z.inj_succ. cbn [app length]. lia.
    + rewrite H3. reflexivity.
Qed.

Lemma pre_start_new min : 0 <= min -> pre_start (sp_new min).
Proof.
  intros H. unfold pre_start, sp_new, blen. cbn. repeat split; auto; try lia; try discriminate; try constructor.
  all: try (intros p []).
Qed.

(* B1: refused below the minimum *)
Theorem refused_below_min min ps o : 0 <= min < 65536 -> is_queryb o = true -> (forall ph, o <> OPeek ph) ->
  (forall sq, o <> OPeekAtSeq sq) ->
  Z.of_nat (length ps) < min ->
  exists ev, nth_error (cjb_run min (push_ops ps ++ [o])) (length ps) = Some (RErr ErrPopWhileBuffering, ev).
Proof.
  intros Hm Ho Hnp Hnf Hlt.
  pose proof (cjb_run_spec min (push_ops ps ++ [o]) Hm) as HS. unfold jb_spec_code in HS.
  apply sp_run_pushes in HS as (outs2 & E & Hl & HS).
  destruct (pre_start_pushes ps (sp_new min) (pre_start_new min ltac:(lia))) as ((_ & Hst & _) & Hb & Hmin).
  set (t := sp_pushes (sp_new min) ps) in *.
  assert (Hns : sstarted t = false).
  { destruct (sstarted t); [|reflexivity]. destruct Hst as [Hst _]. specialize (Hst eq_refl).
    rewrite Hmin, Hb in Hst. unfold blen, sp_new in Hst. cbn in Hst. lia. }
  destruct outs2 as [|[r ev] outs2]; [discriminate|].
  assert (Hn : nth_error (cjb_run min (push_ops ps ++ [o])) (length ps) = Some (r, ev)).
  { rewrite <- (firstn_skipn (length ps) (cjb_run min (push_ops ps ++ [o]))), E.
    rewrite nth_error_app2 by (rewrite firstn_length; lia).
    rewrite firstn_length, Nat.min_l by exact Hl. rewrite Nat.sub_diag. reflexivity. }
  exists ev. rewrite Hn. f_equal. f_equal.
  cbn [sp_run] in HS.
  destruct o; try discriminate; try (exfalso; eapply Hnp; reflexivity); try (exfalso; eapply Hnf; reflexivity);
    cbn [sp_step] in HS; unfold check_pop in HS; rewrite Hns in HS; cbn [negb] in HS;
    destruct r; try discriminate;
    destruct (e =? ErrPopWhileBuffering) eqn:Ee; try discriminate; f_equal; lia.
Qed.

(* B2: playing from the first packet buffered once the minimum is reached *)
Theorem plays_from_first_at_min min sq0 ts0 ps : 0 <= min < 65536 ->
  min <= 1 + Z.of_nat (length ps) ->
  exists id ts ev,
    nth_error (cjb_run min (push_ops ((sq0, ts0) :: ps) ++ [OPop])) (S (length ps)) = Some (RPkt id sq0 ts, ev).
Proof.
  intros Hm Hge.
  pose proof (cjb_run_spec min (push_ops ((sq0, ts0) :: ps) ++ [OPop]) Hm) as HS. unfold jb_spec_code in HS.
  apply sp_run_pushes in HS as (outs2 & E & Hl & HS).
  change ((sq0, ts0) :: ps) with ([(sq0, ts0)] ++ ps) in HS. rewrite sp_pushes_app in HS.
  set (t1 := sp_pushes (sp_new min) [(sq0, ts0)]) in *.
  assert (H1 : pre_start t1) by (apply pre_start_push, pre_start_new; lia).
  destruct (pre_start_pushes ps t1 H1) as ((_ & Hst & Hold & Hret & Hnd & _) & Hb & Hmin).
  set (t := sp_pushes t1 ps) in *.
  assert (Hb1 : blen t1 = 1) by reflexivity.
  assert (Hm1 : smin t1 = min) by reflexivity.
  assert (Hs : sstarted t = true) by (apply Hst; rewrite Hmin, Hb, Hb1, Hm1; lia).
  (* the head is still the first packet's number and that packet is still buffered *)
  assert (Hkeep : forall qs u, blen u >= 1 -> shead (sp_pushes u qs) = shead u /\
                                (forall p, In p (sbuf u) -> In p (sbuf (sp_pushes u qs)))).
  { induction qs as [|q qs IH]; intros u Hu; [cbn; auto|].
    cbn [sp_pushes]. match goal with |- context [sp_pushes ?u' qs] => destruct (IH u') as [I1 I2] end.
    - unfold blen in *. cbn [sbuf length]. rewrite Nat2Z.inj_succ. lia.
    - rewrite I1. cbn [shead]. split.
      + destruct (blen u =? 0) eqn:Eb; [lia|]. rewrite Bool.andb_false_r. reflexivity.
      + intros p Hp. apply I2. cbn [sbuf]. right. exact Hp. }
  destruct (Hkeep ps t1 ltac:(lia)) as [Hh Hin]. fold t in Hh, Hin.
  assert (Hh1 : shead t1 = sq0) by reflexivity.
  assert (Hin0 : In (mkPkt 0 sq0 ts0) (sbuf t)) by (apply Hin; left; reflexivity).
  assert (Hhas : has_seq (sbuf t) (shead t) = true).
  { unfold has_seq. apply existsb_exists. exists (mkPkt 0 sq0 ts0). split; [exact Hin0|].
    cbn [pseq]. rewrite Hh, Hh1. apply Z.eqb_refl. }
  destruct outs2 as [|[r ev] outs2]; [discriminate|].
  assert (Hn : nth_error (cjb_run min (push_ops ((sq0, ts0) :: ps) ++ [OPop])) (S (length ps)) = Some (r, ev)).
  { rewrite <- (firstn_skipn (length ((sq0, ts0) :: ps)) (cjb_run min _)), E.
    rewrite nth_error_app2 by (rewrite firstn_length; cbn [length] in *; lia).
    rewrite firstn_length, Nat.min_l by exact Hl. cbn [length]. rewrite Nat.sub_diag. reflexivity. }
  rewrite Hn. cbn [sp_run sp_step] in HS. unfold check_pop in HS. rewrite Hs, Hhas in HS. cbn [negb] in HS.
  destruct r; try discriminate.
  - assert (Hc : classify t (mkPkt id sq ts) = None).
    { destruct (classify t (mkPkt id sq ts)) as [c|] eqn:Ec; [|reflexivity]. exfalso. subst c.
      unfold classify in Ec.
      destruct (memZ _ (sold t)); [inversion Ec|]. destruct (memZ _ (sret t)); [inversion Ec|].
      destruct (negb _); [inversion Ec|discriminate]. }
    rewrite Hc in HS.
    cbn [pseq] in HS. destruct (sq =? shead t) eqn:Esq; [|vm_compute in HS; discriminate].
    assert (Hq : sq = sq0) by lia. rewrite Hq. eauto.
  - destruct (e =? ErrPopWhileBuffering); cbn in HS; discriminate.
Qed.

(* ---------- non-vacuity ---------- *)
(* 2^16 packets buffered (descending arrival): the uint16 length reads 0, so Peek
   answers ErrBufferUnderrun although the head is buffered, PeekAtSequence still
   finds it; after Clear it is gone; the finger-queue model and (by the theorem
   above) the pointer-level model agree *)
Lemma long_example :
  let ops := expand_ops [LPushRun 65536 65535 65535 0 0; LOne (OPeek true); LOne (OPeekAtSeq 65535);
                         LOne (OClear false); LOne (OPeekAtSeq 65535); LOne OPop] in
  skipn (Z.to_nat 65536) (cjb_run 1 ops) =
  [(RErr ErrBufferUnderrun, []); (RPkt 0 65535 0, []); (RUnit, []); (RErr ErrNotFound, []);
   (RErr ErrInvalidOperation, [EvBufferUnderflow])].
Proof. intros ops. rewrite <- fjb_run_eq_cjb_run. vm_compute. reflexivity. Qed.

(* minimum-start count 150 > overflow length 100: refused with 149 buffered, playing with 150 *)
Lemma min_example :
  let ps := map (fun k => (u16 (65500 + Z.of_nat k), Z.of_nat k)) (seq 0 149) in
  nth_error (cjb_run 150 (push_ops ps ++ [OPop])) 149 = Some (RErr ErrPopWhileBuffering, []) /\
  nth_error (cjb_run 150 (push_ops (ps ++ [(113, 149)]) ++ [OPop])) 150 = Some (RPkt 0 65500 0, []).
Proof. vm_compute. split; reflexivity. Qed.
