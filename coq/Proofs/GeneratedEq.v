(* The hand-written models are EQUAL to the definitions that tools/go2coq regenerates from the
   Go source on every run (coq/Generated/GoCores.v).  When the source of one of these functions
   changes its meaning, the regenerated definition changes and the lemma below no longer
   compiles: a broken proof obligation, reported by bin/check. *)
From IV Require Import Base.Word Model.Unwrapper Model.GccDecision Generated.GoCores.
From Coq Require Import ZifyBool.
Ltac Zify.zify_post_hook ::= Z.div_mod_to_equations.

Lemma gen_isNewer_eq v p : g_sequencenumber_isNewer v p = is_newer v p.
Proof. reflexivity. Qed.

(* Unwrap as a state transformer on (init, lastUnwrapped) *)
Definition st_of (init : bool) (last : Z) : option Z := if init then Some last else None.

Lemma gen_Unwrap_eq init last i :
  g_sequencenumber_Unwrapper_Unwrap init last i =
    (snd (unwrap (st_of init last) i), true, snd (unwrap (st_of init last) i)) /\
  fst (unwrap (st_of init last) i) = Some (snd (unwrap (st_of init last) i)).
Proof.
  unfold g_sequencenumber_Unwrapper_Unwrap, unwrap, st_of, unwrap_next. rewrite gen_isNewer_eq.
  unfold u16, sub16. destruct init; cbn [negb fst snd]; [|split; reflexivity].
  split; [|reflexivity].
  repeat match goal with |- context [if ?c then _ else _] => destruct c end; reflexivity.
Qed.

Lemma gen_clampInt_eq b lo hi : g_gcc_clampInt b lo hi = clampInt b lo hi.
Proof. reflexivity. Qed.

Lemma gen_transition_eq s u : g_gcc_state_transition s u = transition s u.
Proof. reflexivity. Qed.
