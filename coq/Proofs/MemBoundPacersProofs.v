(* C12 round-4 strengthening - proofs about Model/MemBoundPacers.v *)
From IV Require Import Base.Word Model.Unwrapper Model.MemBound Model.MemBoundPacers Proofs.MemBoundProofs.
Open Scope Z_scope.
Ltac Zify.zify_post_hook ::= Z.div_mod_to_equations.

(* ====================================================================== *)
(* A. leaky-bucket pacer with streams *)
Definition lb_sizes_ok (q : list (Z * Z)) : Prop := Forall (fun p => 0 <= snd p <= 1460) q.

Lemma lb_qbytes_nonneg q : lb_sizes_ok q -> 0 <= lb_qbytes q.
Proof.
  induction q as [|p t IH]; intros H; cbn [lb_qbytes fold_right]; [lia|].
  inversion H; subst. specialize (IH H3). unfold lb_qbytes in IH. lia.
Qed.
Lemma lb_qbytes_le q : lb_sizes_ok q -> lb_qbytes q <= 1472 * zlen q.
Proof.
  induction q as [|p t IH]; intros H; cbn [lb_qbytes fold_right]; [unfold zlen; cbn [length]; lia|].
  inversion H; subst. specialize (IH H3). rewrite zlen_cons. unfold lb_qbytes in IH. lia.
Qed.

(* a tick whose budget covers the queued bytes empties the queue, WHATEVER the writer map is:
   a packet without writer is dropped and does not stop the loop *)
Lemma lb_drain_empties w : forall q b calls, lb_sizes_ok q -> lb_qbytes q <= b -> fst (lb_drain w b q calls) = [].
Proof.
  induction q as [|[s sz] t IH]; intros b calls H Hb; cbn [lb_drain]; [reflexivity|].
  inversion H; subst. cbn [snd] in *. pose proof (lb_qbytes_nonneg t H3) as Hn.
  cbn [lb_qbytes fold_right snd] in Hb. fold (lb_qbytes t) in Hb.
  assert (Hp : (b >? 0) = true) by (apply Z.gtb_lt; lia). rewrite Hp.
  destruct (aget s w) as [k|]; [|apply IH; [assumption|lia]].
  apply IH; [assumption|]. destruct (k =? 1); lia.
Qed.

Lemma lb_drain_suffix w : forall q b calls, exists pre, q = pre ++ fst (lb_drain w b q calls).
Proof.
  induction q as [|[s sz] t IH]; intros b calls; cbn [lb_drain]; [exists []; reflexivity|].
  destruct (b >? 0); [|exists []; reflexivity].
  destruct (aget s w) as [k|].
  - destruct (IH (b - (if k =? 1 then 12 + sz else 0)) (lb_bump s calls)) as [pre E]. exists ((s, sz) :: pre).
    cbn [app]. rewrite <- E. reflexivity.
  - destruct (IH b calls) as [pre E]. exists ((s, sz) :: pre). cbn [app]. rewrite <- E. reflexivity.
Qed.
Lemma lb_drain_block_suffix w : forall q b calls, exists pre, q = pre ++ fst (lb_drain_block w b q calls).
Proof.
  induction q as [|[s sz] t IH]; intros b calls; cbn [lb_drain_block]; [exists []; reflexivity|].
  destruct (b >? 0); [|exists []; reflexivity].
  destruct (aget s w) as [k|]; [|exists []; reflexivity].
  destruct (IH (b - (if k =? 1 then 12 + sz else 0)) (lb_bump s calls)) as [pre E]. exists ((s, sz) :: pre).
  cbn [app]. rewrite <- E. reflexivity.
Qed.

Lemma suffix_sizes_ok pre q : lb_sizes_ok (pre ++ q) -> lb_sizes_ok q.
Proof. unfold lb_sizes_ok. rewrite Forall_app. tauto. Qed.
Lemma suffix_zlen {A} (pre q : list A) : zlen q <= zlen (pre ++ q).
Proof. unfold zlen. rewrite app_length. lia. Qed.

(* every queued payload size is within [0, 1460] *)
Lemma lbs_step_sizes st o : lb_sizes_ok (lb_q st) -> lb_sizes_ok (lb_q (lbs_step st o)).
Proof.
  intros H. destruct o as [s k|s|s sz|b|]; cbn [lbs_step lbs_step_gen lb_q]; try assumption.
  - destruct (lb_closed st); cbn [orb]; [assumption|].
    destruct (sz <? 0) eqn:E1; cbn [orb]; [assumption|]. destruct (sz >? 1460) eqn:E2; [assumption|].
    cbn [lb_q]. unfold lb_sizes_ok. rewrite Forall_app. split; [assumption|]. constructor; [|constructor].
    cbn [snd]. apply Z.ltb_ge in E1. rewrite Z.gtb_ltb in E2. apply Z.ltb_ge in E2. lia.
  - destruct (lb_closed st); [assumption|]. cbn [lb_q].
    destruct (lb_drain_suffix (lb_w st) (lb_q st) b (lb_calls st)) as [pre E].
    apply (suffix_sizes_ok pre). rewrite <- E. assumption.
Qed.
Lemma lbs_run_sizes ops : forall st, lb_sizes_ok (lb_q st) -> lb_sizes_ok (lb_q (fold_left lbs_step ops st)).
Proof. induction ops as [|o t IH]; intros st H; cbn [fold_left]; [assumption|]. apply IH, lbs_step_sizes, H. Qed.

Lemma lbs_release_drains ops budget :
  let st := fold_left lbs_step ops lbs_init in
  lb_closed st = false -> 1472 * zlen (lb_q st) <= budget -> lb_q (lbs_step st (LbRelease budget)) = [].
Proof.
  cbv zeta. intros Hc Hb. cbn [lbs_step lbs_step_gen]. rewrite Hc. cbn [lb_q].
  assert (Hs : lb_sizes_ok (lb_q (fold_left lbs_step ops lbs_init))) by (apply lbs_run_sizes; constructor).
  apply lb_drain_empties; [assumption|]. pose proof (lb_qbytes_le _ Hs). lia.
Qed.

(* RemoveStream followed by a covering tick: nothing of the stream is held, in the map or in the queue *)
Lemma lbs_removed_released ops s budget :
  let st := fold_left lbs_step ops lbs_init in
  lb_closed st = false -> 1472 * zlen (lb_q st) <= budget ->
  let st' := lbs_step (lbs_step st (LbRemove s)) (LbRelease budget) in
  lb_q st' = [] /\ aget s (lb_w st') = None.
Proof.
  cbv zeta. intros Hc Hb.
  assert (Hs : lb_sizes_ok (lb_q (fold_left lbs_step ops lbs_init))) by (apply lbs_run_sizes; constructor).
  cbn [lbs_step lbs_step_gen lb_closed lb_q lb_w lb_calls]. rewrite Hc. cbn [lb_q lb_w]. split.
  - apply lb_drain_empties; [assumption|]. pose proof (lb_qbytes_le _ Hs). lia.
  - rewrite aget_adel, Z.eqb_refl. reflexivity.
Qed.

(* relative to the workload: never more entries than packets written *)
Lemma lbs_step_len st o :
  zlen (lb_q (lbs_step st o)) <= zlen (lb_q st) + match o with LbEnq _ _ => 1 | _ => 0 end.
Proof.
  destruct o as [s k|s|s sz|b|]; cbn [lbs_step lbs_step_gen lb_q]; try lia.
  - destruct (lb_closed st || (sz <? 0) || (sz >? 1460)); [lia|]. cbn [lb_q].
    unfold zlen. rewrite app_length. cbn [length]. lia.
  - destruct (lb_closed st); [lia|]. cbn [lb_q].
    destruct (lb_drain_suffix (lb_w st) (lb_q st) b (lb_calls st)) as [pre E].
    pose proof (suffix_zlen pre (fst (lb_drain (lb_w st) b (lb_q st) (lb_calls st)))) as H. rewrite <- E in H. lia.
Qed.
Lemma lbs_len_le_enqs ops : forall st,
  zlen (lb_q (fold_left lbs_step ops st)) <= zlen (lb_q st) + lbs_enqs ops.
Proof.
  induction ops as [|o t IH]; intros st; cbn [fold_left lbs_enqs fold_right]; [lia|].
  specialize (IH (lbs_step st o)). pose proof (lbs_step_len st o) as H. fold (lbs_enqs t).
  destruct o; lia.
Qed.

(* --- the head-of-line block (variant lb_drain_block): linear growth --- *)
Lemma repeat_snoc {A} (x : A) n : repeat x n ++ [x] = x :: repeat x n.
Proof. induction n as [|n IH]; cbn [repeat app]; [reflexivity|]. rewrite IH. reflexivity. Qed.

Definition blk_state (k : nat) (calls : list (Z * Z)) (dirty : list Z) : lbs :=
  {| lb_q := (1, 100) :: repeat (2, 100) k; lb_w := [(2, 1)]; lb_closed := false; lb_calls := calls; lb_dirty := dirty |}.

Lemma lbs_block_round b k calls dirty :
  lbs_step_block (lbs_step_block (blk_state k calls dirty) (LbEnq 2 100)) (LbRelease b) = blk_state (S k) calls dirty.
Proof.
  unfold blk_state. cbn [lbs_step_block lbs_step_gen lb_closed lb_q lb_w lb_calls lb_dirty orb].
  replace (100 <? 0) with false by reflexivity. replace (100 >? 1460) with false by reflexivity. cbn [orb].
  cbn [lb_closed lb_q lb_w lb_calls lb_dirty aget]. replace (2 =? 2) with true by reflexivity.
  cbn [app]. rewrite repeat_snoc. cbn [lb_drain_block aget]. replace (2 =? 1) with false by reflexivity.
  destruct (b >? 0); cbn [fst snd repeat]; reflexivity.
Qed.
Lemma lbs_block_run b n : forall k calls dirty,
  fold_left lbs_step_block (lbs_block_hist b n) (blk_state k calls dirty) = blk_state (k + n) calls dirty.
Proof.
  induction n as [|n IH]; intros k calls dirty; cbn [lbs_block_hist fold_left].
  - rewrite Nat.add_0_r. reflexivity.
  - rewrite lbs_block_round, IH. f_equal. lia.
Qed.
Lemma lbs_headblock_grows b n :
  zlen (lb_q (fold_left lbs_step_block (LbAdd 2 1 :: LbEnq 1 100 :: lbs_block_hist b n) lbs_init)) = Z.of_nat n + 1.
Proof.
  cbn [fold_left].
  assert (E : lbs_step_block (lbs_step_block lbs_init (LbAdd 2 1)) (LbEnq 1 100) = blk_state 0 [] [1]) by reflexivity.
  rewrite E, lbs_block_run. cbn [blk_state lb_q Nat.add]. rewrite zlen_cons. unfold zlen. rewrite repeat_length. lia.
Qed.

(* the code on the same history: the packet without writer is dropped by the first tick, the queue
   is empty after every tick with a positive budget of at least two packets *)
Lemma lbs_code_round b st : 224 <= b -> lb_closed st = false -> lb_w st = [(2, 1)] ->
  (lb_q st = [] \/ lb_q st = [(1, 100)]) ->
  let st' := lbs_step (lbs_step st (LbEnq 2 100)) (LbRelease b) in
  lb_closed st' = false /\ lb_w st' = [(2, 1)] /\ lb_q st' = [].
Proof.
  cbv zeta. intros Hb Hc Hw Hq. cbn [lbs_step lbs_step_gen]. rewrite Hc.
  replace (100 <? 0) with false by reflexivity. replace (100 >? 1460) with false by reflexivity. cbn [orb].
  cbn [lb_closed lb_q lb_w lb_calls]. repeat split; try assumption.
  apply lb_drain_empties.
  - destruct Hq as [-> | ->]; cbn [app]; repeat constructor; cbn [snd]; lia.
  - destruct Hq as [-> | ->]; cbn [app lb_qbytes fold_right snd]; lia.
Qed.
Lemma lbs_code_run b n : 224 <= b -> forall st, lb_closed st = false -> lb_w st = [(2, 1)] ->
  (lb_q st = [] \/ lb_q st = [(1, 100)]) ->
  let st' := fold_left lbs_step (lbs_block_hist b (S n)) st in lb_q st' = [].
Proof.
  intros Hb. induction n as [|n IH]; intros st Hc Hw Hq; cbv zeta.
  - cbn [lbs_block_hist fold_left]. apply (lbs_code_round b st Hb Hc Hw Hq).
  - change (lbs_block_hist b (S (S n))) with (LbEnq 2 100 :: LbRelease b :: lbs_block_hist b (S n)).
    cbn [fold_left]. destruct (lbs_code_round b st Hb Hc Hw Hq) as [A [B C]].
    apply IH; [assumption|assumption|left; assumption].
Qed.
Lemma lbs_code_no_headblock b n : 224 <= b ->
  lb_q (fold_left lbs_step (LbAdd 2 1 :: LbEnq 1 100 :: lbs_block_hist b (S n)) lbs_init) = [].
Proof.
  intros Hb. cbn [fold_left]. apply (lbs_code_run b n Hb); [reflexivity|reflexivity|right; reflexivity].
Qed.

(* ====================================================================== *)
(* B. pacing interceptor: bucket depth and the release loop *)
Lemma pc_burst_ge rate iv : 1 <= iv <= 1000 -> 0 <= rate ->
  12000 <= pc_burst rate iv /\ rate * iv / 1000 <= pc_burst rate iv.
Proof.
  intros Hiv Hr. unfold pc_burst. assert (E : (iv =? 0) = false) by (apply Z.eqb_neq; lia). rewrite E.
  split; [lia|]. apply Z.le_trans with (rate / (1000 / iv)); [|lia].
  assert (Hf : 1 <= 1000 / iv) by (apply Z.div_le_lower_bound; lia).
  apply Z.div_le_lower_bound; [lia|].
  pose proof (Z.mul_div_le (rate * iv) 1000 ltac:(lia)) as H1.
  pose proof (Z.mul_div_le 1000 iv ltac:(lia)) as H2.
  set (x := rate * iv / 1000) in *. set (f := 1000 / iv) in *.
  assert (0 <= x) by (apply Z.div_pos; nia).
  assert (H3 : (f * x) * iv <= rate * iv) by nia. nia.
Qed.

Lemma zsum_nonneg l : Forall (fun b => 0 <= b) l -> 0 <= zsum l.
Proof. induction 1; cbn [zsum fold_right]; [lia|]. unfold zsum in IHForall. lia. Qed.

Lemma pc_loop_all : forall q tokens, Forall (fun b => 0 <= b) q -> zsum q < tokens ->
  pc_loop tokens q = (tokens - zsum q, []).
Proof.
  induction q as [|b t IH]; intros tokens H Hs; cbn [pc_loop zsum fold_right]; [f_equal; lia|].
  inversion H; subst. pose proof (zsum_nonneg t H3) as Hn. cbn [zsum fold_right] in Hs. fold (zsum t) in Hs.
  assert (E : (tokens >? b) = true) by (apply Z.gtb_lt; lia). rewrite E.
  rewrite IH; [|assumption|lia]. fold (zsum t). f_equal. lia.
Qed.

(* load below the configured rate (every tick brings less than R bits), bucket at least R deep:
   the queue is empty after every tick *)
Lemma pc_below_rate_empty R depth : R <= depth -> forall ticks t0, 0 <= t0 ->
  Forall (fun a => Forall (fun b => 0 <= b) a /\ zsum a < R) ticks ->
  let st := fold_left (pc_tick R depth) ticks (t0, []) in snd st = [] /\ 0 <= fst st.
Proof.
  intros Hd. induction ticks as [|a t IH]; intros t0 H0 H; cbv zeta; cbn [fold_left]; [split; [reflexivity|assumption]|].
  inversion H as [|a' t' Hh Ht]; subst. destruct Hh as [Ha Hs].
  pose proof (zsum_nonneg a Ha) as Hn.
  assert (E : pc_tick R depth (t0, []) a = (Z.min depth (t0 + R) - zsum a, [])).
  { unfold pc_tick. cbn [fst snd app]. apply pc_loop_all; [assumption|lia]. }
  rewrite E. apply IH; [lia|assumption].
Qed.

Lemma pc_loop_spec : forall q tokens, 0 <= tokens -> Forall (fun b => 0 <= b) q ->
  0 <= fst (pc_loop tokens q) /\ exists pre, q = pre ++ snd (pc_loop tokens q).
Proof.
  induction q as [|b t IH]; intros tokens H0 H; cbn [pc_loop]; [split; [assumption|exists []; reflexivity]|].
  inversion H as [|b' t' Hb Ht]; subst. destruct (tokens >? b) eqn:E.
  - apply Z.gtb_lt in E. destruct (IH (tokens - b) ltac:(lia) Ht) as [A [pre B]]. split; [assumption|].
    exists (b :: pre). cbn [app]. rewrite <- B. reflexivity.
  - split; [assumption|exists []; reflexivity].
Qed.

(* a backlog of packets below 1500 bytes, bucket depth >= 12000 bits and R >= 12000: at least one
   packet leaves per tick, so the backlog is gone after (number of packets) ticks *)
Lemma pc_tick_progress R depth tokens q : 12000 <= R -> 12000 <= depth -> 0 <= tokens ->
  Forall (fun b => 0 <= b < 12000) q ->
  let st := pc_tick R depth (tokens, q) [] in
  0 <= fst st /\ Forall (fun b => 0 <= b < 12000) (snd st) /\ (length (snd st) <= pred (length q))%nat.
Proof.
  cbv zeta. intros HR Hd H0 H. unfold pc_tick. cbn [fst snd]. rewrite app_nil_r.
  assert (Hnn : Forall (fun b => 0 <= b) q) by (eapply Forall_impl; [|exact H]; cbv beta; intros; lia).
  assert (Ht : 12000 <= Z.min depth (tokens + R)) by lia.
  destruct q as [|b t]; cbn [pc_loop]; [cbn [fst snd length pred]; repeat split; [lia|constructor|lia]|].
  inversion H as [|b' t' Hb Hq]; subst. inversion Hnn as [|b' t' Hb' Hq']; subst.
  assert (E : (Z.min depth (tokens + R) >? b) = true) by (apply Z.gtb_lt; lia). rewrite E.
  destruct (pc_loop_spec t (Z.min depth (tokens + R) - b) ltac:(lia) Hq') as [A [pre B]].
  split; [assumption|]. split.
  - rewrite B in Hq. apply Forall_app in Hq. tauto.
  - cbn [length pred]. rewrite B at 2. rewrite app_length. lia.
Qed.
Lemma pc_backlog_drains R depth : 12000 <= R -> 12000 <= depth -> forall n tokens q, 0 <= tokens ->
  Forall (fun b => 0 <= b < 12000) q -> (length q <= n)%nat ->
  snd (fold_left (pc_tick R depth) (repeat [] n) (tokens, q)) = [].
Proof.
  intros HR Hd. induction n as [|n IH]; intros tokens q H0 H Hl; cbn [repeat fold_left].
  - destruct q; [reflexivity|cbn [length] in Hl; lia].
  - destruct (pc_tick_progress R depth tokens q HR Hd H0 H) as [A [B C]].
    destruct (pc_tick R depth (tokens, q) []) as [t' q'] eqn:E. cbn [fst snd] in *.
    apply IH; [assumption|assumption|lia].
Qed.

(* bucket depth stuck at the 12000-bit floor while the rate is R per tick: two 1200-byte packets per
   tick (19200 bits < R) - one leaves per tick, the backlog grows by one per tick *)
Lemma repeat_two_snoc {A} (x : A) k : repeat x k ++ [x; x] = x :: repeat x (S k).
Proof.
  induction k as [|k IH]; cbn [repeat app]; [reflexivity|]. rewrite IH. reflexivity.
Qed.
Lemma pc_stale_round R k : 19200 < R ->
  pc_tick R 12000 (2400, 9600 :: repeat 9600 k) [9600; 9600] = (2400, 9600 :: repeat 9600 (S k)).
Proof.
  intros HR. unfold pc_tick. cbn [fst snd app]. replace (Z.min 12000 (2400 + R)) with 12000 by lia.
  rewrite repeat_two_snoc. cbn [pc_loop]. replace (12000 >? 9600) with true by reflexivity.
  replace (12000 - 9600) with 2400 by reflexivity. replace (2400 >? 9600) with false by reflexivity. reflexivity.
Qed.
Lemma pc_stale_run R n : 19200 < R -> forall k,
  fold_left (pc_tick R 12000) (repeat [9600; 9600] n) (2400, 9600 :: repeat 9600 k) = (2400, 9600 :: repeat 9600 (k + n)).
Proof.
  intros HR. induction n as [|n IH]; intros k; cbn [repeat fold_left].
  - rewrite Nat.add_0_r. reflexivity.
  - rewrite pc_stale_round by assumption. rewrite IH. do 3 f_equal. lia.
Qed.
Lemma pc_stale_depth_grows R n : 19200 < R ->
  zlen (snd (fold_left (pc_tick R 12000) (repeat [9600; 9600] (S n)) (12000, []))) = Z.of_nat (S n).
Proof.
  intros HR. cbn [repeat fold_left].
  assert (E : pc_tick R 12000 (12000, []) [9600; 9600] = (2400, 9600 :: repeat 9600 0)).
  { unfold pc_tick. cbn [fst snd app]. replace (Z.min 12000 (12000 + R)) with 12000 by lia. reflexivity. }
  rewrite E, pc_stale_run by assumption. cbn [snd Nat.add]. unfold zlen. cbn [length]. rewrite repeat_length. reflexivity.
Qed.
