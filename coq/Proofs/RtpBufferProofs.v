From IV Require Import Base.Word Model.RtpBuffer Spec.C04Spec.
From Coq Require Import ZifyBool.
Ltac Zify.zify_post_hook ::= Z.div_mod_to_equations.

Lemma rb_get_seq b seq p : rb_get b seq = Some p -> rp_seq p = seq.
Proof.
  unfold rb_get. cbv zeta.
  destruct (_ >=? H16); [discriminate|]. destruct (_ >=? rb_size b); [discriminate|].
  destruct (slot_get _ _ _) as [q|]; [|discriminate].
  destruct (rp_seq q =? seq) eqn:E; [|discriminate]. intros H; inversion H; subst. lia.
Qed.
