(* RTPBuffer refines "the designated packet of the send history inside the
   window" (Spec/C04Spec.v), for every history of Add/Clear and every size. *)
From IV Require Import Base.Word Model.RtpBuffer Spec.C04Spec.
From Coq Require Import ZifyBool.
Ltac Zify.zify_post_hook ::= Z.div_mod_to_equations.

Lemma valid_size_In S : valid_size S = true -> In S valid_sizes.
Proof.
  unfold valid_size. rewrite existsb_exists. intros [x [Hin Heq]].
  apply Z.eqb_eq in Heq. subst; auto.
Qed.

Ltac proj := cbn [ah_hi ah_sent rb_started rb_hi rb_pkts rb_size].
Ltac sizes H := simpl in H; repeat (destruct H as [H|H]; [subst|]); try contradiction.

(* ---- arithmetic of slots: size divides 2^16 (case analysis on the 16 sizes) ---- *)
Lemma size_pos S : In S valid_sizes -> 0 < S <= 32768.
Proof. intros H. sizes H; lia. Qed.
Lemma mod_mod_size S x : In S valid_sizes -> (x mod 65536) mod S = x mod S.
Proof. intros H. sizes H; lia. Qed.
Lemma window_inj S h k1 k2 : In S valid_sizes -> 0 <= k1 < S -> 0 <= k2 < S ->
  (h - k1) mod S = (h - k2) mod S -> k1 = k2.
Proof. intros H. sizes H; lia. Qed.
Lemma in_cleared S h diff k : In S valid_sizes -> 0 < k < diff -> k < S ->
  (((h + diff - k) mod S) - (h mod 65536 + 1)) mod S < diff - 1.
Proof. intros H. sizes H; lia. Qed.
Lemma not_cleared S h diff k : In S valid_sizes -> 0 < diff <= k -> k < S ->
  ~ (((h + diff - k) mod S) - (h mod 65536 + 1)) mod S < diff - 1.
Proof. intros H. sizes H; lia. Qed.

(* ---- slots as a finite map ---- *)
Lemma find_filter_slot S (g : Z -> bool) l j :
  find (fun p => slot S p =? j) (filter (fun p => g (slot S p)) l) =
  if g j then find (fun p => slot S p =? j) l else None.
Proof.
  induction l as [|a l IH]; simpl.
  - destruct (g j); reflexivity.
  - destruct (g (slot S a)) eqn:Ga; simpl.
    + destruct (slot S a =? j) eqn:E.
      * apply Z.eqb_eq in E. rewrite <- E, Ga. reflexivity.
      * exact IH.
    + destruct (slot S a =? j) eqn:E.
      * apply Z.eqb_eq in E. rewrite <- E, Ga in *. exact IH.
      * exact IH.
Qed.

Lemma slot_get_clear S l i j :
  slot_get S (slot_clear S l i) j = if i =? j then None else slot_get S l j.
Proof.
  unfold slot_get, slot_clear.
  rewrite (find_filter_slot S (fun s => negb (s =? i)) l j).
  rewrite (Z.eqb_sym j i). destruct (i =? j); reflexivity.
Qed.

Lemma slot_get_set S l p j :
  slot_get S (slot_set S l p) j = if slot S p =? j then Some p else slot_get S l j.
Proof.
  unfold slot_set. unfold slot_get at 1. simpl.
  destruct (slot S p =? j) eqn:E; [reflexivity|].
  fold (slot_get S (slot_clear S l (slot S p)) j). rewrite slot_get_clear, E. reflexivity.
Qed.

Lemma slot_get_between S l hi diff j :
  slot_get S (clear_between S l hi diff) j =
  if (j - (hi + 1)) mod S <? diff - 1 then None else slot_get S l j.
Proof.
  unfold slot_get, clear_between.
  rewrite (find_filter_slot S (fun s => negb ((s - (hi + 1)) mod S <? diff - 1)) l j).
  destruct (_ <? _); reflexivity.
Qed.

(* ---- the refinement relation ---- *)
Definition sent_ok (h : Z) (sent : list (Z * rp)) : Prop :=
  forall u x, In (u, x) sent -> u <= h /\ rp_seq x = u mod 65536.

Definition Inv (S : Z) (b : rbuf) (a : ahist rp) : Prop :=
  rb_size b = S /\
  match ah_hi a with
  | None => rb_started b = false /\ rb_pkts b = [] /\ ah_sent a = []
  | Some h => rb_started b = true /\ rb_hi b = h mod 65536 /\ sent_ok h (ah_sent a) /\
              forall k, 0 <= k < S -> slot_get S (rb_pkts b) ((h - k) mod S) = lookup (h - k) (ah_sent a)
  end.

Lemma lookup_cons u v (x : rp) sent :
  lookup u ((v, x) :: sent) = if v =? u then Some x else lookup u sent.
Proof. unfold lookup. simpl. destruct (v =? u); reflexivity. Qed.

Lemma lookup_In u sent (x : rp) : lookup u sent = Some x -> In (u, x) sent.
Proof.
  unfold lookup. induction sent as [|[v y] r IH]; simpl; [discriminate|].
  destruct (v =? u) eqn:E; simpl.
  - intros H; inversion H; subst. apply Z.eqb_eq in E; subst. auto.
  - intros H. right. apply IH. exact H.
Qed.

Lemma lookup_above h sent u : sent_ok h sent -> h < u -> lookup u sent = None.
Proof.
  intros Hs Hu. destruct (lookup u sent) eqn:E; [|reflexivity].
  apply lookup_In in E. apply Hs in E. lia.
Qed.

Lemma Inv_new S : In S valid_sizes -> Inv S (mkRB S [] 0 false) ah_empty.
Proof. intros. split; simpl; auto. Qed.

Lemma Inv_clear S b a : Inv S b a -> Inv S (rb_clear b) ah_empty.
Proof. intros [H _]. split; simpl; auto. Qed.

Lemma Inv_add S b a p : In S valid_sizes -> 0 <= rp_seq p < 65536 ->
  Inv S b a -> Inv S (rb_add b p) (ah_add_x a (rp_seq p) p).
Proof.
  intros HS Hp [Hsz HI]. pose proof (size_pos S HS) as HSp.
  unfold rb_add, ah_add_x. cbv zeta. rewrite Hsz.
  destruct (ah_hi a) as [h|] eqn:Hh.
  - destruct HI as (Hst & Hhi & Hsent & Hwin). rewrite Hst. simpl negb. cbv iota.
    unfold sub16. rewrite Hhi.
    assert (Ed : (rp_seq p - h mod 65536) mod 65536 = (rp_seq p - h) mod 65536) by lia.
    rewrite Ed. set (d := (rp_seq p - h) mod 65536) in *.
    assert (Hd : 0 <= d < 65536) by (unfold d; lia).
    destruct (d =? 0) eqn:E0.
    { split; [exact Hsz|]. rewrite Hh. auto. }
    unfold unwrap_to. cbv zeta. fold d. unfold H16.
    destruct (d <? 32768) eqn:Eh.
    + (* forward: the window advances to h + d *)
      split; [reflexivity|]. proj. replace (Z.max h (h + d)) with (h + d) by lia.
      proj. split; [reflexivity|]. split; [unfold d; lia|]. split.
      * intros u x [Hin|Hin]; [inversion Hin; subst; split; [lia|unfold d; lia]|].
        apply Hsent in Hin. lia.
      * intros k Hk. rewrite slot_get_set, lookup_cons.
        destruct (Z.eq_dec k 0) as [->|Hk0].
        { replace (h + d - 0) with (h + d) by lia.
          replace (slot S p =? (h + d) mod S) with true; [rewrite Z.eqb_refl; reflexivity|].
          symmetry. apply Z.eqb_eq. unfold slot.
          rewrite <- (mod_mod_size S (h + d) HS). f_equal. unfold d. lia. }
        replace (h + d =? h + d - k) with false by lia.
        replace (slot S p =? (h + d - k) mod S) with false.
        2:{ symmetry. apply Z.eqb_neq. intros Heq. apply Hk0.
            assert (Es : slot S p = (h + d - 0) mod S).
            { unfold slot. replace (h + d - 0) with (h + d) by lia.
              rewrite <- (mod_mod_size S (h + d) HS). f_equal. unfold d. lia. }
            rewrite Es in Heq. symmetry. apply (window_inj S (h + d) 0 k HS); try lia. }
        rewrite slot_get_between.
        destruct (Z_lt_dec k d) as [Hlt|Hge].
        { replace ((((h + d - k) mod S) - (h mod 65536 + 1)) mod S <? d - 1) with true.
          2:{ symmetry. apply Z.ltb_lt. apply in_cleared; auto; lia. }
          symmetry. apply (lookup_above h); auto. lia. }
        { replace ((((h + d - k) mod S) - (h mod 65536 + 1)) mod S <? d - 1) with false.
          2:{ symmetry. apply Z.ltb_ge. apply Z.nlt_ge. apply not_cleared; auto; lia. }
          replace (h + d - k) with (h - (k - d)) by lia. apply Hwin. lia. }
    + (* late *)
      assert (Ek : (h mod 65536 - rp_seq p) mod 65536 = 65536 - d) by (unfold d in *; lia).
      rewrite Ek.
      destruct (65536 - d >=? S) eqn:Eo.
      * (* older than the window: ignored *)
        split; [exact Hsz|]. proj. replace (Z.max h (h + d - 65536)) with h by lia.
        proj. split; [exact Hst|]. split; [exact Hhi|]. split.
        { intros u x [Hin|Hin]; [inversion Hin; subst; split; [lia|unfold d; lia]|]. apply Hsent; auto. }
        { intros k Hk. rewrite lookup_cons. replace (h + d - 65536 =? h - k) with false by lia. apply Hwin; auto. }
      * split; [reflexivity|]. proj. replace (Z.max h (h + d - 65536)) with h by lia.
        proj. split; [reflexivity|]. split; [reflexivity|]. split.
        { intros u x [Hin|Hin]; [inversion Hin; subst; split; [lia|unfold d; lia]|]. apply Hsent; auto. }
        { intros k Hk. rewrite slot_get_set, lookup_cons.
          assert (Es : slot S p = (h - (65536 - d)) mod S).
          { unfold slot. rewrite <- (mod_mod_size S (h - (65536 - d)) HS). f_equal. unfold d. lia. }
          destruct (Z.eq_dec k (65536 - d)) as [->|Hne].
          - rewrite Es, Z.eqb_refl. replace (h + d - 65536 =? h - (65536 - d)) with true by lia. reflexivity.
          - replace (h + d - 65536 =? h - k) with false by lia.
            replace (slot S p =? (h - k) mod S) with false; [apply Hwin; auto|].
            symmetry. apply Z.eqb_neq. intros Heq. apply Hne. rewrite Es in Heq.
            symmetry. apply (window_inj S h (65536 - d) k HS); try lia. }
  - (* first packet *)
    destruct HI as (Hst & Hpk & Hse). rewrite Hst, Hpk. simpl negb. cbv iota.
    split; [reflexivity|]. proj. split; [reflexivity|]. split; [lia|]. split.
    + intros u x [Hin|[]]. inversion Hin; subst. lia.
    + intros k Hk. rewrite slot_get_set, lookup_cons.
      assert (Es : slot S p = (rp_seq p - 0) mod S) by (unfold slot; f_equal; lia).
      destruct (Z.eq_dec k 0) as [->|Hk0].
      * rewrite Es, !Z.eqb_refl. replace (rp_seq p =? rp_seq p - 0) with true by lia. reflexivity.
      * replace (rp_seq p =? rp_seq p - k) with false by lia.
        replace (slot S p =? (rp_seq p - k) mod S) with false; [reflexivity|].
        symmetry. apply Z.eqb_neq. intros Heq. apply Hk0. rewrite Es in Heq.
        symmetry. apply (window_inj S (rp_seq p) 0 k HS); try lia.
Qed.

(* Get returns exactly the designated packet of the history *)
Lemma Inv_get S b a seq : In S valid_sizes -> 0 <= seq < 65536 ->
  Inv S b a -> rb_get b seq = designated S a seq.
Proof.
  intros HS Hq [Hsz HI]. pose proof (size_pos S HS) as HSp.
  unfold rb_get, designated, in_window. cbv zeta. rewrite Hsz.
  destruct (ah_hi a) as [h|] eqn:Hh.
  - destruct HI as (Hst & Hhi & Hsent & Hwin). unfold sub16. rewrite Hhi.
    assert (Ed : (h mod 65536 - seq) mod 65536 = (h - seq) mod 65536) by lia.
    rewrite Ed. set (k := (h - seq) mod 65536) in *.
    assert (Hk : 0 <= k < 65536) by (unfold k; lia). unfold H16.
    destruct (k <? S) eqn:Ek.
    + replace (k >=? 32768) with false by lia. replace (k >=? S) with false by lia.
      assert (Es : seq mod S = (h - k) mod S).
      { rewrite <- (mod_mod_size S (h - k) HS). f_equal. unfold k. lia. }
      rewrite Es, Hwin by lia.
      destruct (lookup (h - k) (ah_sent a)) as [p|] eqn:El; [|reflexivity].
      apply lookup_In in El. apply Hsent in El. destruct El as [_ El].
      replace (rp_seq p =? seq) with true; [reflexivity|]. symmetry. apply Z.eqb_eq. unfold k in *. lia.
    + destruct (k >=? 32768); [reflexivity|]. replace (k >=? S) with true by lia. reflexivity.
  - destruct HI as (_ & Hpk & _). rewrite Hpk. simpl.
    destruct (_ >=? H16); [reflexivity|]. destruct (_ >=? S); reflexivity.
Qed.

(* ---- histories ---- *)
Inductive hop := HAdd (p : rp) | HClear.

Definition hop_ok (o : hop) : Prop := match o with HAdd p => 0 <= rp_seq p < 65536 | HClear => True end.

Definition rb_step (b : rbuf) (o : hop) : rbuf :=
  match o with HAdd p => rb_add b p | HClear => rb_clear b end.
Definition ah_step_x (a : ahist rp) (o : hop) : ahist rp :=
  match o with HAdd p => ah_add_x a (rp_seq p) p | HClear => ah_empty end.
Definition ah_step (a : ahist rp) (o : hop) : ahist rp :=
  match o with HAdd p => ah_add a (rp_seq p) p | HClear => ah_empty end.

Lemma Inv_run S ops : In S valid_sizes -> Forall hop_ok ops -> forall b a,
  Inv S b a -> Inv S (fold_left rb_step ops b) (fold_left ah_step_x ops a).
Proof.
  intros HS. induction 1 as [|o ops Ho _ IH]; intros b a HI; simpl; auto.
  apply IH. destruct o; simpl; [apply Inv_add; auto|eapply Inv_clear; eauto].
Qed.

Theorem get_exact S ops seq : valid_size S = true -> Forall hop_ok ops -> 0 <= seq < 65536 ->
  rb_get (fold_left rb_step ops (mkRB S [] 0 false)) seq =
  designated S (fold_left ah_step_x ops ah_empty) seq.
Proof.
  intros HS Hops Hq. apply valid_size_In in HS.
  apply Inv_get; auto. apply Inv_run; auto. apply Inv_new; auto.
Qed.

Lemma rb_get_seq b seq p : rb_get b seq = Some p -> rp_seq p = seq.
Proof.
  unfold rb_get. cbv zeta.
  destruct (_ >=? H16); [discriminate|]. destruct (_ >=? rb_size b); [discriminate|].
  destruct (slot_get _ _ _) as [q|]; [|discriminate].
  destruct (rp_seq q =? seq) eqn:E; [|discriminate]. intros H; inversion H; subst. lia.
Qed.

(* ---- the designated packet in the vocabulary of the full send history ---- *)
Definition RelX (ax a : ahist rp) : Prop :=
  ah_hi ax = ah_hi a /\ incl (ah_sent ax) (ah_sent a) /\
  (forall u x, In (u, x) (ah_sent a) -> exists y, In (u, y) (ah_sent ax)) /\
  (forall h, ah_hi a = Some h -> exists y, In (h, y) (ah_sent ax)).

Lemma RelX_empty : RelX ah_empty ah_empty.
Proof.
  split; [reflexivity|]. split; [intros e []|]. split; [intros ? ? []|discriminate].
Qed.

Lemma RelX_step ax a o : RelX ax a -> RelX (ah_step_x ax o) (ah_step a o).
Proof.
  intros (Hhi & Hinc & Hex & Htop). destruct o as [p|]; simpl.
  2:{ apply RelX_empty. }
  unfold ah_add_x, ah_add. rewrite Hhi. destruct (ah_hi a) as [h|] eqn:Hh.
  - destruct ((rp_seq p - h) mod 65536 =? 0) eqn:E0.
    + assert (Eu : unwrap_to h (rp_seq p) = h) by (unfold unwrap_to; cbv zeta; destruct (_ <? _) eqn:?; lia).
      rewrite Eu. replace (Z.max h h) with h by lia.
      split; [simpl; congruence|]. split; [simpl; intros e He; right; auto|]. split; simpl.
      * intros u x [Hin|Hin]; [inversion Hin; subst; apply Htop; auto|eapply Hex; eauto].
      * intros h' Hh'. inversion Hh'; subst. apply Htop; auto.
    + split; [reflexivity|]. split; [simpl; intros e [He|He]; [left; auto|right; auto]|]. split; simpl.
      * intros u x [Hin|Hin]; [inversion Hin; subst; eexists; left; reflexivity|].
        destruct (Hex u x Hin) as [y Hy]. exists y; auto.
      * intros h' Hh'. inversion Hh'; subst.
        destruct (Z.max_spec h (unwrap_to h (rp_seq p))) as [[_ ->]|[_ ->]].
        { eexists; left; reflexivity. }
        { destruct (Htop h eq_refl) as [y Hy]. exists y; auto. }
  - split; [reflexivity|]. split; [simpl; intros e He; auto|]. split; simpl.
    + intros u x [Hin|[]]. inversion Hin; subst. eexists; left; reflexivity.
    + intros h' Hh'. inversion Hh'; subst. eexists; left; reflexivity.
Qed.

Lemma RelX_run ops : forall ax a, RelX ax a -> RelX (fold_left ah_step_x ops ax) (fold_left ah_step ops a).
Proof. induction ops as [|o ops IH]; intros; simpl; auto. apply IH, RelX_step; auto. Qed.

Lemma lookup_none_iff u (sent : list (Z * rp)) : lookup u sent = None <-> forall x, ~ In (u, x) sent.
Proof.
  induction sent as [|[v y] r IH]; simpl.
  - split; auto.
  - rewrite lookup_cons. destruct (v =? u) eqn:E.
    + apply Z.eqb_eq in E; subst. split; [discriminate|]. intros H. exfalso. apply (H y). auto.
    + rewrite IH. split; intros H x.
      * intros [Hin|Hin]; [inversion Hin; lia|apply (H x); auto].
      * intros Hin. apply (H x). auto.
Qed.

Lemma candidates_In S (a : ahist rp) seq x :
  In x (candidates S a seq) <-> exists u, in_window S a seq = Some u /\ In (u, x) (ah_sent a).
Proof.
  unfold candidates. destruct (in_window S a seq) as [u|].
  - rewrite in_map_iff. split.
    + intros [[v y] [Hy Hin]]. simpl in Hy; subst. apply filter_In in Hin as [Hin Hv]. simpl in Hv.
      apply Z.eqb_eq in Hv; subst. eauto.
    + intros [u' [Hu Hin]]. inversion Hu; subst. exists (u', x). split; auto.
      apply filter_In. split; auto. simpl. lia.
  - simpl. split; [tauto|]. intros [u [H _]]. discriminate.
Qed.

(* the retransmitted packet is one of the packets sent with the requested
   number inside the window; nothing is retransmitted iff there is none *)
Lemma designated_candidates S ax a seq : RelX ax a ->
  (forall p, designated S ax seq = Some p -> In p (candidates S a seq)) /\
  (designated S ax seq = None <-> candidates S a seq = []).
Proof.
  intros (Hhi & Hinc & Hex & _).
  assert (Hw : in_window S ax seq = in_window S a seq) by (unfold in_window; rewrite Hhi; reflexivity).
  split.
  - intros p. unfold designated. rewrite Hw. intros H. apply candidates_In.
    destruct (in_window S a seq) as [u|]; [|discriminate]. exists u. split; auto.
    apply Hinc. apply lookup_In. exact H.
  - unfold designated. rewrite Hw. split.
    + intros H. destruct (candidates S a seq) as [|x l] eqn:Ec; [reflexivity|]. exfalso.
      assert (Hx : In x (candidates S a seq)) by (rewrite Ec; left; reflexivity).
      apply candidates_In in Hx as [u [Hu Hin]]. rewrite Hu in H.
      destruct (Hex u x Hin) as [y Hy]. rewrite lookup_none_iff in H. apply (H y Hy).
    + intros Hc. destruct (in_window S a seq) as [u|] eqn:Hu; [|reflexivity].
      apply lookup_none_iff. intros x Hin. apply Hinc in Hin.
      assert (Hx : In x (candidates S a seq)) by (apply candidates_In; exists u; rewrite Hu; auto).
      rewrite Hc in Hx. destruct Hx.
Qed.

(* every recorded send is an Add of the history *)
Lemma sent_from_ops ops : forall a u x, In (u, x) (ah_sent (fold_left ah_step ops a)) ->
  In (u, x) (ah_sent a) \/ In (HAdd x) ops.
Proof.
  induction ops as [|o ops IH]; intros a u x H; simpl in *; auto.
  apply IH in H as [H|H]; auto. destruct o as [p|]; simpl in H.
  - unfold ah_add in H. destruct (ah_hi a); simpl in H.
    + destruct H as [H|H]; auto. inversion H; subst; auto.
    + destruct H as [H|[]]. inversion H; subst; auto.
  - destruct H.
Qed.

Theorem get_sent S ops seq p : valid_size S = true -> Forall hop_ok ops -> 0 <= seq < 65536 ->
  rb_get (fold_left rb_step ops (mkRB S [] 0 false)) seq = Some p ->
  In (HAdd p) ops /\ rp_seq p = seq /\ In p (candidates S (fold_left ah_step ops ah_empty) seq).
Proof.
  intros HS Hops Hq H. pose proof (rb_get_seq _ _ _ H) as Hs.
  rewrite get_exact in H by auto.
  destruct (designated_candidates S _ _ seq (RelX_run ops _ _ RelX_empty)) as [Hc _].
  apply Hc in H. split; [|split; auto].
  apply candidates_In in H as [u [_ Hin]]. apply sent_from_ops in Hin as [[]|Hin]. exact Hin.
Qed.

Theorem get_none_iff S ops seq : valid_size S = true -> Forall hop_ok ops -> 0 <= seq < 65536 ->
  (rb_get (fold_left rb_step ops (mkRB S [] 0 false)) seq = None <->
   candidates S (fold_left ah_step ops ah_empty) seq = []).
Proof.
  intros HS Hops Hq. rewrite get_exact by auto.
  apply (designated_candidates S _ _ seq (RelX_run ops _ _ RelX_empty)).
Qed.

(* ---- the clearing loop of Add, run literally, is its closed form ---- *)
Lemma filter_filter {A} (f g : A -> bool) l : filter f (filter g l) = filter (fun x => g x && f x) l.
Proof.
  induction l as [|a l IH]; simpl; auto. destruct (g a) eqn:G; simpl; [|exact IH].
  destruct (f a); simpl; rewrite IH; reflexivity.
Qed.

Lemma filter_true {A} (l : list A) : filter (fun _ => true) l = l.
Proof. induction l; simpl; congruence. Qed.

Lemma clear_loop_gen S hi n : forall a pkts,
  fold_left (fun pk k => slot_clear S pk (add16 hi (k + 1) mod S)) (zrange a n) pkts =
  filter (fun p => negb (existsb (fun k => slot S p =? add16 hi (k + 1) mod S) (zrange a n))) pkts.
Proof.
  induction n as [|n IH]; intros a pkts; simpl.
  - symmetry. apply filter_true.
  - rewrite IH. unfold slot_clear. rewrite filter_filter. apply filter_ext. intros p.
    destruct (slot S p =? add16 hi (a + 1) mod S); reflexivity.
Qed.

Lemma loop_hits S hi k s d : In S valid_sizes -> 0 <= k < d - 1 ->
  s = add16 hi (k + 1) mod S -> (s - (hi + 1)) mod S < d - 1.
Proof. intros H. unfold add16. sizes H; lia. Qed.

Lemma loop_reaches S hi s : In S valid_sizes -> 0 <= s < S ->
  s = add16 hi ((s - (hi + 1)) mod S + 1) mod S.
Proof. intros H. unfold add16. sizes H; lia. Qed.

Theorem clear_loop_closed S pkts hi diff : In S valid_sizes -> 0 < diff ->
  clear_loop S pkts hi (Z.to_nat (diff - 1)) = clear_between S pkts hi diff.
Proof.
  intros HS Hd. pose proof (size_pos S HS) as HSp.
  unfold clear_loop, clear_between. rewrite clear_loop_gen. apply filter_ext. intros p. f_equal.
  assert (Hs : 0 <= slot S p < S) by (unfold slot; apply Z.mod_pos_bound; lia).
  destruct ((slot S p - (hi + 1)) mod S <? diff - 1) eqn:E.
  - apply existsb_exists. exists ((slot S p - (hi + 1)) mod S). split.
    + apply zrange_In. lia.
    + apply Z.eqb_eq. apply loop_reaches; auto.
  - destruct (existsb _ _) eqn:Ex; [|reflexivity]. exfalso.
    apply existsb_exists in Ex as [k [Hk Hq]]. apply zrange_In in Hk. apply Z.eqb_eq in Hq.
    pose proof (loop_hits S hi k (slot S p) diff HS) as L. lia.
Qed.

(* Add with the loop run literally = Add with the closed form *)
Theorem rb_add_loop_eq b p : In (rb_size b) valid_sizes -> rb_add_loop b p = rb_add b p.
Proof.
  intros HS. unfold rb_add_loop, rb_add. cbv zeta.
  destruct (negb (rb_started b)); [reflexivity|].
  destruct (sub16 (rp_seq p) (rb_hi b) =? 0) eqn:E0; [reflexivity|].
  destruct (sub16 (rp_seq p) (rb_hi b) <? H16); [|reflexivity].
  rewrite clear_loop_closed; auto. pose proof (sub16_range (rp_seq p) (rb_hi b)). lia.
Qed.
