(* RTPBuffer refines "the designated packet of the send history inside the
   window" (Spec/C04Spec.v), for every history of Add/Clear and every size. *)
From IV Require Import Base.Word Model.RtpBuffer Spec.C04Spec.
From Coq Require Import ZifyBool.
Ltac Zify.zify_post_hook ::= Z.div_mod_to_equations.

Lemma valid_size_In S : valid_size S = true -> In S valid_sizes.
Proof.
  unfold valid_size. rewrite existsb_exists. intros [x [Hin Heq]].
  apply Z.eqb_eq in Heq. subst; auto.
Qed.

Ltac sizes H := simpl in H; repeat (destruct H as [H|H]; [subst|]); try contradiction.

(* ---- arithmetic of slots: size divides 2^16 (case analysis on the 16 sizes) ---- *)
Lemma size_pos S : In S valid_sizes -> 0 < S <= 32768.
Proof. intros H. sizes H; lia. Qed.
Lemma mod_mod_size S x : In S valid_sizes -> (x mod 65536) mod S = x mod S.
Proof. intros H. sizes H; lia. Qed.
Lemma window_inj S h k1 k2 : In S valid_sizes -> 0 <= k1 < S -> 0 <= k2 < S ->
  (h - k1) mod S = (h - k2) mod S -> k1 = k2.
Proof. intros H. sizes H; lia. Qed.
Lemma in_cleared S h diff k : In S valid_sizes -> 0 < k < diff -> k < S ->
  (((h + diff - k) mod S) - (h mod 65536 + 1)) mod S < diff - 1.
Proof. intros H. sizes H; lia. Qed.
Lemma not_cleared S h diff k : In S valid_sizes -> 0 < diff <= k -> k < S ->
  ~ (((h + diff - k) mod S) - (h mod 65536 + 1)) mod S < diff - 1.
Proof. intros H. sizes H; lia. Qed.

(* ---- slots as a finite map ---- *)
Lemma find_filter_slot S (g : Z -> bool) l j :
  find (fun p => slot S p =? j) (filter (fun p => g (slot S p)) l) =
  if g j then find (fun p => slot S p =? j) l else None.
Proof.
  induction l as [|a l IH]; simpl.
  - destruct (g j); reflexivity.
  - destruct (g (slot S a)) eqn:Ga; simpl.
    + destruct (slot S a =? j) eqn:E.
      * apply Z.eqb_eq in E. rewrite <- E, Ga. reflexivity.
      * exact IH.
    + destruct (slot S a =? j) eqn:E.
      * apply Z.eqb_eq in E. rewrite <- E, Ga in *. exact IH.
      * exact IH.
Qed.

Lemma slot_get_clear S l i j :
  slot_get S (slot_clear S l i) j = if i =? j then None else slot_get S l j.
Proof.
  unfold slot_get, slot_clear.
  rewrite (find_filter_slot S (fun s => negb (s =? i)) l j).
  rewrite (Z.eqb_sym j i). destruct (i =? j); reflexivity.
Qed.

Lemma slot_get_set S l p j :
  slot_get S (slot_set S l p) j = if slot S p =? j then Some p else slot_get S l j.
Proof.
  unfold slot_set. unfold slot_get at 1. simpl.
  destruct (slot S p =? j) eqn:E; [reflexivity|].
  fold (slot_get S (slot_clear S l (slot S p)) j). rewrite slot_get_clear, E. reflexivity.
Qed.

Lemma slot_get_between S l hi diff j :
  slot_get S (clear_between S l hi diff) j =
  if (j - (hi + 1)) mod S <? diff - 1 then None else slot_get S l j.
Proof.
  unfold slot_get, clear_between.
  rewrite (find_filter_slot S (fun s => negb ((s - (hi + 1)) mod S <? diff - 1)) l j).
  destruct (_ <? _); reflexivity.
Qed.

(* ---- the refinement relation ---- *)
Definition sent_ok (h : Z) (sent : list (Z * rp)) : Prop :=
  forall u x, In (u, x) sent -> u <= h /\ rp_seq x = u mod 65536.

Definition Inv (S : Z) (b : rbuf) (a : ahist rp) : Prop :=
  rb_size b = S /\
  match ah_hi a with
  | None => rb_started b = false /\ rb_pkts b = [] /\ ah_sent a = []
  | Some h => rb_started b = true /\ rb_hi b = h mod 65536 /\ sent_ok h (ah_sent a) /\
              forall k, 0 <= k < S -> slot_get S (rb_pkts b) ((h - k) mod S) = lookup (h - k) (ah_sent a)
  end.

Lemma lookup_cons u v (x : rp) sent :
  lookup u ((v, x) :: sent) = if v =? u then Some x else lookup u sent.
Proof. unfold lookup. simpl. destruct (v =? u); reflexivity. Qed.

Lemma lookup_In u sent (x : rp) : lookup u sent = Some x -> In (u, x) sent.
Proof.
  unfold lookup. induction sent as [|[v y] r IH]; simpl; [discriminate|].
  destruct (v =? u) eqn:E; simpl.
  - intros H; inversion H; subst. apply Z.eqb_eq in E; subst. auto.
  - intros H. right. apply IH. exact H.
Qed.

Lemma lookup_above h sent u : sent_ok h sent -> h < u -> lookup u sent = None.
Proof.
  intros Hs Hu. destruct (lookup u sent) eqn:E; [|reflexivity].
  apply lookup_In in E. apply Hs in E. lia.
Qed.

Lemma Inv_new S : In S valid_sizes -> Inv S (mkRB S [] 0 false) ah_empty.
Proof. intros. split; simpl; auto. Qed.

Lemma Inv_clear S b a : Inv S b a -> Inv S (rb_clear b) ah_empty.
Proof. intros [H _]. split; simpl; auto. Qed.

Lemma Inv_add S b a p : In S valid_sizes -> 0 <= rp_seq p < 65536 ->
  Inv S b a -> Inv S (rb_add b p) (ah_add_x a (rp_seq p) p).
Proof.
  intros HS Hp [Hsz HI]. pose proof (size_pos S HS) as HSp.
  unfold rb_add, ah_add_x. cbv zeta. rewrite Hsz.
  destruct (ah_hi a) as [h|] eqn:Hh.
  - destruct HI as (Hst & Hhi & Hsent & Hwin). rewrite Hst. simpl negb. cbv iota.
    unfold sub16. rewrite Hhi.
    assert (Ed : (rp_seq p - h mod 65536) mod 65536 = (rp_seq p - h) mod 65536) by lia.
    rewrite Ed. set (d := (rp_seq p - h) mod 65536) in *.
    assert (Hd : 0 <= d < 65536) by (unfold d; lia).
    destruct (d =? 0) eqn:E0.
    { split; [exact Hsz|]. rewrite Hh. auto. }
    unfold unwrap_to. cbv zeta. fold d. unfold H16.
    destruct (d <? 32768) eqn:Eh.
    + (* forward: the window advances to h + d *)
      split; [reflexivity|]. simpl ah_hi. replace (Z.max h (h + d)) with (h + d) by lia.
      simpl. split; [reflexivity|]. split; [unfold d; lia|]. split.
      * intros u x [Hin|Hin]; [inversion Hin; subst; split; [lia|unfold d; lia]|].
        apply Hsent in Hin. lia.
      * intros k Hk. rewrite slot_get_set, lookup_cons.
        destruct (Z.eq_dec k 0) as [->|Hk0].
        { replace (h + d - 0) with (h + d) by lia.
          replace (slot S p =? (h + d) mod S) with true; [rewrite Z.eqb_refl; reflexivity|].
          symmetry. apply Z.eqb_eq. unfold slot.
          rewrite <- (mod_mod_size S (h + d) HS). f_equal. unfold d. lia. }
        replace (h + d =? h + d - k) with false by lia.
        replace (slot S p =? (h + d - k) mod S) with false.
        2:{ symmetry. apply Z.eqb_neq. intros Heq. apply Hk0.
            assert (Es : slot S p = (h + d - 0) mod S).
            { unfold slot. replace (h + d - 0) with (h + d) by lia.
              rewrite <- (mod_mod_size S (h + d) HS). f_equal. unfold d. lia. }
            rewrite Es in Heq. symmetry. apply (window_inj S (h + d) 0 k HS); try lia. }
        rewrite slot_get_between.
        destruct (Z_lt_dec k d) as [Hlt|Hge].
        { replace ((((h + d - k) mod S) - (h mod 65536 + 1)) mod S <? d - 1) with true.
          2:{ symmetry. apply Z.ltb_lt. apply in_cleared; auto; lia. }
          symmetry. apply (lookup_above h); auto. lia. }
        { replace ((((h + d - k) mod S) - (h mod 65536 + 1)) mod S <? d - 1) with false.
          2:{ symmetry. apply Z.ltb_ge. apply Z.nlt_ge. apply not_cleared; auto; lia. }
          replace (h + d - k) with (h - (k - d)) by lia. apply Hwin. lia. }
    + (* late *)
      assert (Ek : (h mod 65536 - rp_seq p) mod 65536 = 65536 - d) by (unfold d in *; lia).
      rewrite Ek.
      destruct (65536 - d >=? S) eqn:Eo.
      * (* older than the window: ignored *)
        split; [exact Hsz|]. simpl ah_hi. replace (Z.max h (h + d - 65536)) with h by lia.
        simpl. split; [exact Hst|]. split; [exact Hhi|]. split.
        { intros u x [Hin|Hin]; [inversion Hin; subst; split; [lia|unfold d; lia]|]. apply Hsent; auto. }
        { intros k Hk. rewrite lookup_cons. replace (h + d - 65536 =? h - k) with false by lia. apply Hwin; auto. }
      * split; [reflexivity|]. simpl ah_hi. replace (Z.max h (h + d - 65536)) with h by lia.
        simpl. split; [reflexivity|]. split; [exact Hhi|]. split.
        { intros u x [Hin|Hin]; [inversion Hin; subst; split; [lia|unfold d; lia]|]. apply Hsent; auto. }
        { intros k Hk. rewrite slot_get_set, lookup_cons.
          assert (Es : slot S p = (h - (65536 - d)) mod S).
          { unfold slot. rewrite <- (mod_mod_size S (h - (65536 - d)) HS). f_equal. unfold d. lia. }
          destruct (Z.eq_dec k (65536 - d)) as [->|Hne].
          - rewrite Es, Z.eqb_refl. replace (h + d - 65536 =? h - (65536 - d)) with true by lia. reflexivity.
          - replace (h + d - 65536 =? h - k) with false by lia.
            replace (slot S p =? (h - k) mod S) with false; [apply Hwin; auto|].
            symmetry. apply Z.eqb_neq. intros Heq. apply Hne. rewrite Es in Heq.
            symmetry. apply (window_inj S h (65536 - d) k HS); try lia. }
  - (* first packet *)
    destruct HI as (Hst & Hpk & Hse). rewrite Hst, Hpk. simpl negb. cbv iota.
    split; [reflexivity|]. simpl. split; [reflexivity|]. split; [lia|]. split.
    + intros u x [Hin|[]]. inversion Hin; subst. lia.
    + intros k Hk. rewrite slot_get_set, lookup_cons.
      assert (Es : slot S p = (rp_seq p - 0) mod S) by (unfold slot; f_equal; lia).
      destruct (Z.eq_dec k 0) as [->|Hk0].
      * rewrite Es, !Z.eqb_refl. replace (rp_seq p =? rp_seq p - 0) with true by lia. reflexivity.
      * replace (rp_seq p =? rp_seq p - k) with false by lia.
        replace (slot S p =? (rp_seq p - k) mod S) with false; [reflexivity|].
        symmetry. apply Z.eqb_neq. intros Heq. apply Hk0. rewrite Es in Heq.
        symmetry. apply (window_inj S (rp_seq p) 0 k HS); try lia.
Qed.

(* Get returns exactly the designated packet of the history *)
Lemma Inv_get S b a seq : In S valid_sizes -> 0 <= seq < 65536 ->
  Inv S b a -> rb_get b seq = designated S a seq.
Proof.
  intros HS Hq [Hsz HI]. pose proof (size_pos S HS) as HSp.
  unfold rb_get, designated, in_window. cbv zeta. rewrite Hsz.
  destruct (ah_hi a) as [h|] eqn:Hh.
  - destruct HI as (Hst & Hhi & Hsent & Hwin). unfold sub16. rewrite Hhi.
    assert (Ed : (h mod 65536 - seq) mod 65536 = (h - seq) mod 65536) by lia.
    rewrite Ed. set (k := (h - seq) mod 65536) in *.
    assert (Hk : 0 <= k < 65536) by (unfold k; lia). unfold H16.
    destruct (k <? S) eqn:Ek.
    + replace (k >=? 32768) with false by lia. replace (k >=? S) with false by lia.
      assert (Es : seq mod S = (h - k) mod S).
      { rewrite <- (mod_mod_size S (h - k) HS). f_equal. unfold k. lia. }
      rewrite Es, Hwin by lia.
      destruct (lookup (h - k) (ah_sent a)) as [p|] eqn:El; [|reflexivity].
      apply lookup_In in El. apply Hsent in El. destruct El as [_ El].
      replace (rp_seq p =? seq) with true; [reflexivity|]. symmetry. apply Z.eqb_eq. unfold k in *. lia.
    + destruct (k >=? 32768); [reflexivity|]. replace (k >=? S) with true by lia. reflexivity.
  - destruct HI as (_ & Hpk & _). rewrite Hpk. simpl.
    destruct (_ >=? H16); [reflexivity|]. destruct (_ >=? S); reflexivity.
Qed.

(* ---- histories ---- *)
Inductive hop := HAdd (p : rp) | HClear.

Definition hop_ok (o : hop) : Prop := match o with HAdd p => 0 <= rp_seq p < 65536 | HClear => True end.

Definition rb_step (b : rbuf) (o : hop) : rbuf :=
  match o with HAdd p => rb_add b p | HClear => rb_clear b end.
Definition ah_step_x (a : ahist rp) (o : hop) : ahist rp :=
  match o with HAdd p => ah_add_x a (rp_seq p) p | HClear => ah_empty end.
Definition ah_step (a : ahist rp) (o : hop) : ahist rp :=
  match o with HAdd p => ah_add a (rp_seq p) p | HClear => ah_empty end.

Lemma Inv_run S ops : In S valid_sizes -> Forall hop_ok ops -> forall b a,
  Inv S b a -> Inv S (fold_left rb_step ops b) (fold_left ah_step_x ops a).
Proof.
  intros HS. induction 1 as [|o ops Ho _ IH]; intros b a HI; simpl; auto.
  apply IH. destruct o; simpl; [apply Inv_add; auto|eapply Inv_clear; eauto].
Qed.

Theorem get_exact S ops seq : valid_size S = true -> Forall hop_ok ops -> 0 <= seq < 65536 ->
  rb_get (fold_left rb_step ops (mkRB S [] 0 false)) seq =
  designated S (fold_left ah_step_x ops ah_empty) seq.
Proof.
  intros HS Hops Hq. apply valid_size_In in HS.
  apply Inv_get; auto. apply Inv_run; auto. apply Inv_new; auto.
Qed.

Lemma rb_get_seq b seq p : rb_get b seq = Some p -> rp_seq p = seq.
Proof.
  unfold rb_get. cbv zeta.
  destruct (_ >=? H16); [discriminate|]. destruct (_ >=? rb_size b); [discriminate|].
  destruct (slot_get _ _ _) as [q|]; [|discriminate].
  destruct (rp_seq q =? seq) eqn:E; [|discriminate]. intros H; inversion H; subst. lia.
Qed.
