(* C03 (round-4 strengthening): the send phase of a tick hands EVERY packet of the tick to the RTCP
   writer, whatever the writer returns; hence the whole-history theorem of the generator model
   (Proofs/NackGenMore.v, generator_requests_exactly_missing) holds for every schedule of writer
   errors.  Model: Model/NackSend.v. *)
From IV Require Import Base.Word Model.ReceiveLog Model.NackGen Model.NackSend Spec.NackSpec Spec.NackGenSpec
  Proofs.NackGenProofs Proofs.NackGenMore.

Lemma send_loop_all (w : writer) : forall t i, fst (send_loop w i t) = t.
Proof.
  induction t as [|p tl IH]; intros i; cbn [send_loop]; [reflexivity|].
  specialize (IH (S i)). destruct (send_loop w (S i) tl) as [h e]. cbn [fst] in *. congruence.
Qed.

Lemma handed_all (w : writer) (t : tick_out) : handed w t = t.
Proof. apply send_loop_all. Qed.

(* the warnings are exactly the failing calls *)
Lemma send_loop_warnings (w : writer) : forall t i,
  snd (send_loop w i t) =
  length (filter (fun ip => w (fst ip) (snd ip)) (combine (seq i (length t)) t)).
Proof.
  induction t as [|p tl IH]; intros i; cbn [send_loop length seq combine filter]; [reflexivity|].
  specialize (IH (S i)). destruct (send_loop w (S i) tl) as [h e]. cbn [fst snd] in *.
  destruct (w i p); cbn [length]; congruence.
Qed.

Lemma out_for_handed (w : writer) (s : Z) (t : tick_out) : out_for s (handed w t) = out_for s t.
Proof. rewrite handed_all. reflexivity. Qed.

Lemma wstep_erase c g o : wstep c g o = step c g (erase o).
Proof.
  destruct o as [o|w]; cbn [wstep erase]; [reflexivity|].
  destruct (step c g Tick) as [g' [t|]]; cbn [option_map]; [rewrite handed_all|]; reflexivity.
Qed.

Lemma wrun_erase c : forall ops g, wrun c g ops = run c g (map erase ops).
Proof.
  induction ops as [|o tl IH]; intros g; cbn [wrun run map]; [reflexivity|].
  rewrite wstep_erase. destruct (step c g (erase o)) as [g' [t|]]; rewrite IH; reflexivity.
Qed.

Theorem generator_exact_any_writer c s (Hc : cfg_ok c) ops : ops_u16 (map erase ops) ->
  map (out_for s) (wrun c gen_init ops) = spec_stream c s ss_init (map erase ops).
Proof. intros H. rewrite wrun_erase. apply generator_requests_exactly_missing; assumption. Qed.

(* two histories that differ only in the writers of their ticks hand over the same packets *)
Theorem writer_irrelevant c ops1 ops2 : map erase ops1 = map erase ops2 ->
  wrun c gen_init ops1 = wrun c gen_init ops2.
Proof. intros H. rewrite !wrun_erase, H. reflexivity. Qed.

(* what the theorem excludes: a send loop that stops at the first failing Write loses the
   request of another stream *)
Theorem send_break_refuted :
  exists (w : writer) (t : tick_out) (s : Z) (q : list Z),
    out_for s t = Some q /\ out_for s (handed w t) = Some q /\ out_for s (send_loop_break w O t) = None.
Proof.
  exists (plan_writer 1 0), [(1, [65535]); (2, [101; 102])], 2, [101; 102].
  repeat split; vm_compute; reflexivity.
Qed.
