From IV Require Import Base.Word Model.GccDecision.
From Coq Require Import ZifyBool.
Ltac Zify.zify_post_hook ::= Z.div_mod_to_equations.

Lemma clampInt_range b lo hi : lo <= hi -> lo <= clampInt b lo hi <= hi.
Proof. unfold clampInt. lia. Qed.

Lemma clampInt_id b lo hi : lo <= b <= hi -> clampInt b lo hi = b.
Proof. unfold clampInt. lia. Qed.

(* the transition function is total: always one of the three states *)
Lemma transition_total s u : transition s u = 0 \/ transition s u = 1 \/ transition s u = 2.
Proof.
  unfold transition.
  repeat match goal with |- context [if ?c then _ else _] => destruct c end; auto.
Qed.

(* the 3x3 table, by complete enumeration *)
Lemma transition_table :
  map (fun su => transition (fst su) (snd su)) [(0,0);(0,1);(0,2);(1,0);(1,1);(1,2);(2,0);(2,1);(2,2)]
  = [1;2;0; 1;2;2; 1;2;0].
Proof. vm_compute. reflexivity. Qed.

Lemma last_default_irrel (l : list Z) d d' : l <> [] -> last l d = last l d'.
Proof.
  induction l as [|x l IH]; intros H; [congruence|]. destruct l as [|y l]; simpl; auto.
  apply IH. discriminate.
Qed.

Definition in_range (lo hi x : Z) : Prop := lo <= x <= hi.

Section Bounds.
  Variable cmin cmax : Z.
  Hypothesis Hmm : cmin <= cmax.

  (* invariant of the fixed code *)
  Record GInv (s : gst) : Prop := {
    gi_latest : in_range cmin cmax (g_latest s);
    gi_pacer : Forall (in_range cmin cmax) (g_pacer s);
    gi_cb : g_cb s = g_pacer s;
    gi_last : g_latest s = last (g_pacer s) (g_latest s)
  }.

  Lemma on_delay_update_inv s wanted : GInv s -> GInv (on_delay_update cmin cmax true s wanted).
  Proof.
    intros [H1 H2 H3 H4]. unfold on_delay_update. cbv zeta.
    destruct (_ =? g_latest s) eqn:E; constructor; simpl; auto.
    - apply clampInt_range; auto.
    - apply Forall_app; split; auto. constructor; [apply clampInt_range; auto|constructor].
    - congruence.
    - rewrite last_last. reflexivity.
  Qed.

  Lemma gstep_inv s o : GInv s -> GInv (gstep cmin cmax true s o).
  Proof.
    intros H. destruct o as [use st raw|[raw|]]; simpl; auto.
    - destruct (negb (g_init s)); [destruct H; constructor; auto|].
      destruct (transition st use =? 2); auto.
      apply on_delay_update_inv. destruct H; constructor; auto.
    - destruct H; constructor; auto.
  Qed.

  Lemma grun_inv s ops : GInv s -> GInv (grun cmin cmax true s ops).
  Proof.
    unfold grun. revert s; induction ops as [|o tl IH]; simpl; intros s H; auto.
    apply IH, gstep_inv, H.
  Qed.

  Lemma ginit_inv initial : cmin <= initial <= cmax -> GInv (ginit initial).
  Proof. intros H. constructor; simpl; auto. Qed.

  (* every prefix: the published rate, everything told to the pacer and to the callback *)
  Lemma bounds_all initial ops : cmin <= initial <= cmax ->
    let s := grun cmin cmax true (ginit initial) ops in
    in_range cmin cmax (g_latest s) /\ Forall (in_range cmin cmax) (g_pacer s) /\
    Forall (in_range cmin cmax) (g_cb s).
  Proof.
    intros Hi s. destruct (grun_inv (ginit initial) ops (ginit_inv initial Hi)) as [H1 H2 H3 H4].
    fold s in H1, H2, H3. rewrite H3. auto.
  Qed.

  Lemma consistent_all initial ops : cmin <= initial <= cmax ->
    let s := grun cmin cmax true (ginit initial) ops in
    g_cb s = g_pacer s /\ g_latest s = last (g_pacer s) initial.
  Proof.
    intros Hi s. destruct (grun_inv (ginit initial) ops (ginit_inv initial Hi)) as [H1 H2 H3 H4].
    fold s in H3, H4. split; auto.
    (* latest only changes together with a pacer call *)
    clear H1 H2 H3 H4. subst s.
    assert (G : forall s0, (g_pacer s0 = [] -> g_latest s0 = initial) ->
                g_latest s0 = last (g_pacer s0) (g_latest s0) ->
                let s := grun cmin cmax true s0 ops in
                (g_pacer s = [] -> g_latest s = initial) /\ g_latest s = last (g_pacer s) (g_latest s)).
    { unfold grun. induction ops as [|o tl IH]; simpl; intros s0 A B; auto.
      apply IH.
      - destruct o as [use st raw|[raw|]]; simpl; auto.
        destruct (negb (g_init s0)); simpl; auto.
        destruct (transition st use =? 2); auto.
        unfold on_delay_update; cbv zeta; simpl. destruct (_ =? g_latest s0); simpl; auto.
        intros C. destruct (g_pacer s0); discriminate.
      - destruct o as [use st raw|[raw|]]; simpl; auto.
        destruct (negb (g_init s0)); simpl; auto.
        destruct (transition st use =? 2); auto.
        unfold on_delay_update; cbv zeta; simpl. destruct (_ =? g_latest s0); simpl; auto.
        rewrite last_last. reflexivity. }
    destruct (G (ginit initial)) as [A B]; simpl; auto.
    destruct (g_pacer (grun cmin cmax true (ginit initial) ops)) eqn:E.
    - simpl. apply A. reflexivity.
    - rewrite B. apply last_default_irrel. discriminate.
  Qed.
End Bounds.

(* ---- the code before the fix ---- *)

(* with the default configuration range (min <= 100 kbit/s) the unfixed code also stays in bounds ... *)
Section Unfixed.
  Variable cmin cmax : Z.
  Hypothesis Hmm : cmin <= cmax.
  Hypothesis Hlow : cmin <= LOSS_MIN.

  Record UInv (s : gst) : Prop := {
    ui_latest : in_range cmin cmax (g_latest s);
    ui_pacer : Forall (in_range cmin cmax) (g_pacer s);
    ui_loss : g_loss s <= 0 \/ cmin <= g_loss s
  }.

  Lemma ustep_inv s o : UInv s -> UInv (gstep cmin cmax false s o).
  Proof.
    intros [H1 H2 H3]. destruct o as [use st raw|[raw|]]; simpl.
    - destruct (negb (g_init s)); [constructor; auto|].
      destruct (transition st use =? 2); [constructor; auto|].
      pose proof (clampInt_range raw cmin cmax Hmm) as Hc.
      set (t := clampInt raw cmin cmax) in *.
      unfold on_delay_update; cbv zeta; simpl.
      assert (Hl : cmin <= get_estimate (g_loss s) t <= cmax).
      { unfold get_estimate, clampInt, LOSS_MIN, LOSS_MAX in *. destruct (g_loss s <=? 0) eqn:E; lia. }
      destruct (_ =? g_latest s) eqn:E; constructor; simpl; auto; try lia.
      + unfold in_range. lia.
      + apply Forall_app; split; auto. constructor; [unfold in_range; lia|constructor].
    - constructor; simpl; auto. right. unfold clampInt, LOSS_MIN, LOSS_MAX in *. lia.
    - constructor; auto.
  Qed.

  Lemma urun_inv s ops : UInv s -> UInv (grun cmin cmax false s ops).
  Proof.
    unfold grun. revert s; induction ops as [|o tl IH]; simpl; intros s H; auto.
    apply IH, ustep_inv, H.
  Qed.
End Unfixed.

(* ... but with a configured minimum above 100 kbit/s it publishes a rate below the minimum *)
Lemma unfixed_below_min :
  let s := grun 200000 1000000 false (ginit 300000)
             [DelayStats 2 0 300000; LossUpdate (Some 0); DelayStats 2 0 300000] in
  g_latest s = 100000 /\ g_pacer s = [100000].
Proof. vm_compute. auto. Qed.
