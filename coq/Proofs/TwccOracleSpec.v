(* The boolean per-packet checks of the specification oracle (Check/C05Check.v:
   sem_code = failure codes 6, 7, 8; all_pending_reported = code 9) are
   EQUIVALENT to the Prop-level specification used by C05_build
   (Proofs/TwccBuildMore.v: pkt_reports, "every pending arrival is covered"). *)
From IV Require Import Base.Word Model.Unwrapper Model.TwccChunk Model.ArrivalMap Model.TwccRecorder
  Proofs.ArrivalMapProofs Proofs.TwccRecorderProofs Check.C05Check Proofs.TwccTruthProofs Proofs.TwccBuildMore.
From Coq Require Import ZifyBool Permutation.
Ltac Zify.zify_post_hook ::= Z.div_mod_to_equations.

(* whatever the packet: decoding numbers the received statuses in strictly
   ascending order inside [U, U + number of statuses) *)
Lemma decode_keys : forall st U T ds,
  asc U (decode_recv U T st ds) /\ below (U + Z.of_nat (length st)) (decode_recv U T st ds).
Proof.
  induction st as [|s tl IH]; intros U T ds; cbn [decode_recv length]; [split; [exact I|constructor]|].
  destruct (s =? 0).
  - destruct (IH (U + 1) T ds) as [H1 H2]. split; [eapply asc_weaken; [|exact H1]; lia|].
    eapply below_weaken; [|exact H2]. lia.
  - destruct ds as [|d ds]; [split; [exact I|constructor]|].
    destruct (IH (U + 1) (T + snd d) ds) as [H1 H2]. split; [cbn [asc fst]; split; [lia|exact H1]|].
    constructor; [cbn [fst]; lia|]. eapply below_weaken; [|exact H2]. lia.
Qed.

Lemma pkt_recv_keys UB p : 0 <= p_count p ->
  NoDup (map fst (pkt_recv UB p)) /\ forall k T, In (k, T) (pkt_recv UB p) -> UB <= k < UB + p_count p.
Proof.
  intros Hc. unfold pkt_recv.
  destruct (decode_keys (firstn (Z.to_nat (p_count p)) (statuses (p_chunks p))) UB (p_ref p * 64000) (p_deltas p)) as [H1 H2].
  split; [eapply asc_nodup; exact H1|]. intros k T Hin.
  pose proof (asc_in_ge _ _ _ H1 Hin) as Hge. eapply Forall_forall in H2; [|exact Hin]. cbn [fst] in *.
  pose proof (firstn_le_length (Z.to_nat (p_count p)) (statuses (p_chunks p))). lia.
Qed.

Lemma r_find_in : forall R k t, NoDup (map fst R) -> (r_find k R = Some t <-> In (k, t) R).
Proof.
  unfold r_find. induction R as [|[k0 t0] tl IH]; intros k t Hnd; cbn [find In map fst] in *.
  - split; [discriminate|intros []].
  - inversion Hnd as [|? ? Hnin Hnd']; subst. destruct (k0 =? k) eqn:E.
    + assert (k0 = k) by lia. subst k0. cbn [snd]. split.
      * intros H; inversion H; subst. left; reflexivity.
      * intros [H|H]; [inversion H; reflexivity|]. exfalso. apply Hnin. apply in_map_iff. exists (k, t). auto.
    + rewrite (IH k t Hnd'). split; [intros H; right; exact H|intros [H|H]; [inversion H; lia|exact H]].
Qed.

Lemma r_find_none : forall R k, r_find k R = None -> forall t, ~ In (k, t) R.
Proof.
  unfold r_find. intros R k H t Hin. destruct (find (fun e => fst e =? k) R) eqn:E; [discriminate|].
  pose proof (find_none _ _ E _ Hin) as Hn. cbn [fst] in Hn. lia.
Qed.

Lemma existsb_false {A} (f : A -> bool) l : existsb f l = false <-> forall x, In x l -> f x = false.
Proof.
  split.
  - intros H x Hin. destruct (f x) eqn:E; [|reflexivity]. rewrite <- H. symmetry. apply existsb_exists. exists x. auto.
  - intros H. destruct (existsb f l) eqn:E; [|reflexivity]. apply existsb_exists in E as (x & Hin & Hx).
    rewrite (H x Hin) in Hx. discriminate.
Qed.

(* codes 6 / 7 / 8 of the oracle <-> the Prop-level "reports exactly" *)
Theorem sem_code_spec R UB p :
  NoDup (map fst R) -> Forall (fun e => 0 <= snd e) R -> 0 <= p_count p ->
  (sem_code R UB p (pkt_recv UB p) = 0%nat <-> pkt_reports R UB p).
Proof.
  intros Hnd Hnn Hc. destruct (pkt_recv_keys UB p Hc) as [Hk1 Hk2].
  unfold pkt_reports, sem_code. cbv zeta. set (recv := pkt_recv UB p) in *.
  set (c6 := existsb _ recv). set (c7 := forallb _ recv). set (c8 := existsb _ R).
  assert (H6 : c6 = false <-> forall k T, In (k, T) recv -> exists t, In (k, t) R).
  { unfold c6. rewrite existsb_false. split.
    - intros H k T Hin. specialize (H _ Hin). cbn [fst] in H. destruct (r_find k R) as [t|] eqn:E; [|discriminate].
      exists t. apply r_find_in; auto.
    - intros H [k T] Hin. cbn [fst]. destruct (H k T Hin) as (t & Ht). pose proof Ht as Ht'.
      apply r_find_in in Ht; auto. rewrite Ht. eapply Forall_forall in Hnn; [|exact Ht']. cbn [snd] in Hnn. lia. }
  assert (H7 : c7 = true <-> forall k T, In (k, T) recv -> exists t, In (k, t) R /\ near T t = true).
  { unfold c7. rewrite forallb_forall. split.
    - intros H k T Hin. specialize (H _ Hin). cbn [fst snd] in H. destruct (r_find k R) as [t|] eqn:E; [|discriminate].
      exists t. split; [apply r_find_in; auto|exact H].
    - intros H [k T] Hin. cbn [fst snd]. destruct (H k T Hin) as (t & Ht & Hn).
      apply r_find_in in Ht; auto. rewrite Ht. exact Hn. }
  assert (H8 : c8 = false <-> forall k t, In (k, t) R -> UB <= k < UB + p_count p -> exists T, In (k, T) recv).
  { unfold c8. rewrite existsb_false. split.
    - intros H k t Hin Hr. specialize (H _ Hin). cbn [fst snd] in H.
      eapply Forall_forall in Hnn; [|exact Hin]. cbn [snd] in Hnn.
      replace (t >=? 0) with true in H by lia. replace (UB <=? k) with true in H by lia.
      replace (k <? UB + p_count p) with true in H by lia.
      destruct (existsb (fun r => fst r =? k) recv) eqn:E; [|discriminate].
      apply existsb_exists in E as ([k' T] & Hin' & Hk). cbn [fst] in Hk. assert (k' = k) by lia. subst k'.
      exists T. exact Hin'.
    - intros H [k t] Hin. cbn [fst snd]. destruct (t >=? 0); [|reflexivity].
      destruct (UB <=? k) eqn:E1; [|reflexivity]. destruct (k <? UB + p_count p) eqn:E2; [|reflexivity].
      destruct (H k t Hin ltac:(lia)) as (T & HT).
      replace (existsb (fun r => fst r =? k) recv) with true; [reflexivity|]. symmetry.
      apply existsb_exists. exists (k, T). split; [exact HT|cbn [fst]; lia]. }
  split.
  - intros H. destruct c6 eqn:E6; [discriminate|]. destruct c7 eqn:E7; cbn [negb] in H; [|discriminate].
    destruct c8 eqn:E8; [discriminate|].
    split; [exact Hk1|]. split.
    + intros k T Hin. split; [apply (Hk2 k T Hin)|]. apply (proj1 H7 eq_refl k T Hin).
    + apply H8. reflexivity.
  - intros (_ & Ha & Hb).
    assert (E7 : c7 = true) by (apply H7; intros k T Hin; apply (Ha k T Hin)).
    assert (E6 : c6 = false) by (apply H6; intros k T Hin; destruct (Ha k T Hin) as (_ & t & Ht & _); exists t; exact Ht).
    assert (E8 : c8 = false) by (apply H8; exact Hb).
    rewrite E6, E7, E8. reflexivity.
Qed.

(* code 9 of the oracle <-> every retained arrival at or after the frontier S
   is among the reported numbers *)
Theorem all_pending_spec g reported s :
  t_S g = Some s -> Forall (fun e => 0 <= snd e) (t_R g) ->
  (all_pending_reported g reported = true <->
   forall k t, In (k, t) (t_R g) -> s <= k -> exists T, In (k, T) reported).
Proof.
  intros HS Hnn. unfold all_pending_reported. rewrite HS, forallb_forall. split.
  - intros H k t Hin Hk. specialize (H _ Hin). cbn [fst snd] in H.
    eapply Forall_forall in Hnn; [|exact Hin]. cbn [snd] in Hnn.
    replace (t >=? 0) with true in H by lia. replace (s <=? k) with true in H by lia.
    apply existsb_exists in H as ([k' T] & Hin' & Hk'). cbn [fst] in Hk'. assert (k' = k) by lia. subst k'.
    exists T. exact Hin'.
  - intros H [k t] Hin. cbn [fst snd]. destruct (t >=? 0); [|reflexivity]. destruct (s <=? k) eqn:E; [|reflexivity].
    destruct (H k t Hin ltac:(lia)) as (T & HT). apply existsb_exists. exists (k, T). split; [exact HT|cbn [fst]; lia].
Qed.

(* on every history the oracle's retained set has one arrival per number and
   only times >= 0 - the side conditions of sem_code_spec / all_pending_spec *)
Theorem truth_wf sender ops : ops_nonneg ops ->
  let g := o_truth (ost_state ost0 ops (rec_run sender rec_init ops)) in
  NoDup (map fst (t_R g)) /\ Forall (fun e => 0 <= snd e) (t_R g).
Proof.
  intros Hnn. cbv zeta.
  destruct (history_ok sender ops ost0 rec_init rec_ok_init st_rel_init Hnn)
    as (_ & (((_ & _ & _ & HP) & _) & _) & ((((Ha & _) & Hn & _) & _) & _)).
  split.
  - eapply Permutation_NoDup; [apply Permutation_sym, Permutation_map, HP|]. eapply asc_nodup. exact Ha.
  - apply Forall_forall. intros e He. eapply Forall_forall in Hn; [exact Hn|]. eapply Permutation_in; eauto.
Qed.

(* ------------------------------------------------------------------ *)
(* soundness of the oracle: acceptance => the Prop-level specification  *)
(* ------------------------------------------------------------------ *)
(* pkts_chain without the model-specific clause (the packet is the marshalled
   form of a builder state): what can be asked of ANY implementation *)
Fixpoint chain_spec (sender media : Z) (R : list (Z * Z)) (UB fb : Z) (ps : list pkt) : Prop :=
  match ps with
  | [] => True
  | p :: tl =>
      p_sender p = sender /\ p_media p = media /\ p_fb p = fb /\ p_base p = UB mod 65536 /\ 0 < p_count p /\
      pkt_reports R UB p /\
      chain_spec sender media R (UB + p_count p) ((fb + 1) mod 256) tl
  end.

Lemma pkts_chain_spec sender media R : forall ps UB fb,
  pkts_chain sender media R UB fb ps -> chain_spec sender media R UB fb ps.
Proof.
  induction ps as [|p tl IH]; intros UB fb H; cbn [pkts_chain chain_spec] in *; [exact I|].
  destruct H as (A & B & C & D & E & F & _ & G). repeat (split; [assumption|]). apply IH, G.
Qed.

(* the retained set is well formed: one arrival per number, times >= 0 *)
Definition truth_wf0 (g : truth) : Prop := NoDup (map fst (t_R g)) /\ Forall (fun e => 0 <= snd e) (t_R g).

Lemma nodup_filter_keys (f : Z * Z -> bool) : forall l, NoDup (map fst l) -> NoDup (map fst (filter f l)).
Proof.
  induction l as [|e tl IH]; intros H; cbn [filter map] in *; [constructor|].
  inversion H as [|? ? Hn Hd]; subst. destruct (f e); cbn [map]; [|apply IH, Hd].
  constructor; [|apply IH, Hd]. intros Hin. apply Hn. apply in_map_iff in Hin as (x & Hx & Hin).
  apply in_map_iff. exists x. split; [exact Hx|]. apply filter_In in Hin. tauto.
Qed.

Lemma forall_filter {A} (P : A -> Prop) f l : Forall P l -> Forall P (filter f l).
Proof. intros H. apply Forall_forall. intros x Hx. apply filter_In in Hx as [Hx _]. eapply Forall_forall in H; eauto. Qed.

Lemma truth_cull_wf g U t : truth_wf0 g -> truth_wf0 (truth_cull g U t).
Proof.
  intros [H1 H2]. unfold truth_cull. destruct (t_S g); [|split; auto].
  destruct (_ && _); [|split; auto]. destruct (_ <? _); [|split; auto].
  split; cbn [t_R]; [apply nodup_filter_keys, H1|apply forall_filter, H2].
Qed.

Lemma truth_record_wf g U t : 0 <= t -> truth_wf0 g -> truth_wf0 (truth_record g U t).
Proof.
  intros Ht Hg. rewrite truth_record_unfold. cbv zeta. pose proof (truth_cull_wf g U t Hg) as [H1 H2].
  set (g1 := truth_cull g U t) in *.
  destruct (match r_find U (t_R g1) with Some t0 => t0 >=? 0 | None => false end); [split; cbn [t_R]; auto|].
  unfold truth_wf0. cbn [t_R].
  assert (Hnew : forall l, NoDup (map fst l) -> Forall (fun e => 0 <= snd e) l ->
            NoDup (map fst ((U, t) :: filter (fun e => negb (fst e =? U)) l)) /\
            Forall (fun e => 0 <= snd e) ((U, t) :: filter (fun e => negb (fst e =? U)) l)).
  { intros l Hd Hn. split.
    - cbn [map fst]. constructor; [|apply nodup_filter_keys, Hd].
      intros Hin. apply in_map_iff in Hin as (x & Hx & Hin). apply filter_In in Hin as [_ Hf]. lia.
    - constructor; [cbn [snd]; lia|apply forall_filter, Hn]. }
  assert (Hone : NoDup (map fst [(U, t)]) /\ Forall (fun e => 0 <= snd e) [(U, t)]).
  { split; [cbn; constructor; [intros []|constructor]|constructor; [cbn [snd]; lia|constructor]]. }
  unfold truth_add. destruct (negb (t_any g1)); [exact Hone|].
  destruct (_ && _); [cbn [t_R]; apply Hnew; auto|].
  destruct (U <? t_lo g1); [destruct (_ >? _); [split; auto|cbn [t_R]; apply Hnew; auto]|].
  destruct (_ >=? _); [exact Hone|]. cbv zeta. cbn [t_R]. rewrite filter_comm.
  apply Hnew; [apply nodup_filter_keys, H1|apply forall_filter, H2].
Qed.

(* the packets of one build accepted by check_pkts *)
Lemma check_pkts_sound sender media R maxU : NoDup (map fst R) -> Forall (fun e => 0 <= snd e) R ->
  forall ps UB fb reported,
  check_pkts sender media R maxU (Some UB) fb ps = (0%nat, reported) ->
  chain_spec sender media R UB fb ps /\ (forall k T, In (k, T) reported -> UB <= k < chain_end UB ps).
Proof.
  intros Hnd Hnn. induction ps as [|p tl IH]; intros UB fb reported H; cbn [check_pkts chain_spec chain_end] in *.
  - inversion H; subst. split; [exact I|intros k T []].
  - cbv zeta in H. fold (pkt_recv UB p) in H.
    destruct ((p_sender p =? sender) && (p_media p =? media)) eqn:E1; cbn [negb] in H; [|inversion H].
    destruct (p_fb p =? fb) eqn:E2; cbn [negb] in H; [|inversion H].
    destruct (UB mod 65536 =? p_base p) eqn:E3; cbn [negb] in H; [|inversion H].
    destruct (wire_fields_ok p); cbn [negb] in H; [|inversion H].
    destruct (struct_code p) eqn:E4; cbn [first_nonzero] in H; [|inversion H].
    destruct (bytes_ok p); cbn [negb] in H; [|inversion H].
    destruct (sem_code R UB p (pkt_recv UB p)) eqn:E5; [|inversion H].
    destruct (check_pkts sender media R maxU (Some (UB + p_count p)) ((fb + 1) mod 256) tl) as [c rs] eqn:Ecp.
    inversion H; subst c reported. clear H.
    assert (Hc : 0 < p_count p).
    { unfold struct_code in E4. destruct (p_count p <=? 0) eqn:E; [discriminate|lia]. }
    destruct (IH _ _ _ Ecp) as (Hch & Hrs).
    assert (Hrep : pkt_reports R UB p) by (apply sem_code_spec; auto; lia).
    split.
    + split; [lia|]. split; [lia|]. split; [lia|]. split; [lia|]. split; [exact Hc|]. split; [exact Hrep|exact Hch].
    + intros k T Hin. apply in_app_or in Hin as [Hin|Hin].
      * destruct Hrep as (_ & Ha & _). destruct (Ha k T Hin) as (Hr & _).
        assert (Hmono : forall l u, (forall q, In q l -> 0 < p_count q) -> u <= chain_end u l).
        { induction l as [|q l IHl]; intros u Hq; cbn [chain_end]; [lia|].
          pose proof (Hq q (or_introl eq_refl)). specialize (IHl (u + p_count q) (fun x Hx => Hq x (or_intror Hx))). lia. }
        assert (Hpos : forall q, In q tl -> 0 < p_count q).
        { clear - Hch. revert Hch. generalize (UB + p_count p) as u, ((fb + 1) mod 256) as f.
          induction tl as [|q tl IHt]; intros u f Hch x Hx; [destruct Hx|]. cbn [chain_spec] in Hch.
          destruct Hx as [<-|Hx]; [tauto|]. eapply IHt; [|exact Hx]. apply Hch. }
        pose proof (Hmono tl (UB + p_count p) Hpos). lia.
      * pose proof (Hrs k T Hin). lia.
Qed.

(* what ANY implementation's build must satisfy in oracle state st *)
Definition build_spec (sender : Z) (st : ost) (ps : list pkt) : Prop :=
  let g := o_truth st in
  if t_any g then
    exists UB, chain_spec sender (o_media st) (t_R g) UB (o_fb st) ps /\
      forall s, t_S g = Some s -> forall k t, In (k, t) (t_R g) -> s <= k -> UB <= k < chain_end UB ps
  else ps = [].

Fixpoint hist_spec (sender : Z) (st : ost) (ops : list op) (outs : list (list pkt)) : Prop :=
  match ops with
  | [] => outs = []
  | Rec ssrc seq t :: tl => hist_spec sender (ost_record st ssrc seq t) tl outs
  | Build :: tl =>
      match outs with
      | [] => False
      | ps :: outs' => build_spec sender st ps /\ hist_spec sender (ost_built st (length ps)) tl outs'
      end
  end.

(* oracle soundness: if rec_spec_failures reports nothing for a history and
   the packets an implementation returned, those packets satisfy hist_spec *)
Theorem oracle_sound sender ops : forall st outs, truth_wf0 (o_truth st) -> ops_nonneg ops ->
  oracle sender st ops outs = 0%nat -> hist_spec sender st ops outs.
Proof.
  induction ops as [|o tl IH]; intros st outs Hwf Hnn H.
  - cbn [oracle] in H. cbn [hist_spec]. destruct outs; [reflexivity|discriminate].
  - destruct o as [ssrc seq t|].
    + cbn [ops_nonneg] in Hnn. destruct Hnn as [Ht Hnn]. rewrite oracle_rec in H. cbn [hist_spec].
      apply IH; auto. unfold ost_record. cbn [o_truth]. apply truth_record_wf; auto.
    + cbn [ops_nonneg] in Hnn. destruct outs as [|ps outs']; [cbn [oracle] in H; discriminate|].
      pose proof (oracle_build sender st tl ps outs' H) as H'. rewrite H in H'. symmetry in H'.
      cbn [hist_spec]. split; [|apply IH; auto; unfold ost_built; cbn [o_truth]; exact Hwf].
      clear H' IH. cbn [oracle] in H. cbv zeta in H. unfold build_spec. cbv zeta.
      destruct Hwf as [Hnd Hn0]. set (g := o_truth st) in *.
      destruct (t_any g); cbn [negb] in H.
      * destruct (check_pkts sender (o_media st) (t_R g) (t_hi g - 1) None (o_fb st) ps) as [c reported] eqn:Ecp.
        destruct c; cbn [first_nonzero] in H; [|discriminate].
        destruct (all_pending_reported g reported) eqn:Eap; [|discriminate].
        destruct ps as [|p ps'].
        { exists 0. split; [exact I|]. intros s Hs k t Hin Hk. cbn [check_pkts] in Ecp. inversion Ecp; subst reported.
          destruct (proj1 (all_pending_spec g [] s Hs Hn0) Eap k t Hin Hk) as (T & []). }
        set (UB := (t_hi g - 1) - ((t_hi g - 1 - p_base p) mod 65536)).
        assert (Ecp' : check_pkts sender (o_media st) (t_R g) (t_hi g - 1) (Some UB) (o_fb st) (p :: ps') = (0%nat, reported))
          by exact Ecp.
        destruct (check_pkts_sound sender (o_media st) (t_R g) (t_hi g - 1) Hnd Hn0 _ _ _ _ Ecp') as (Hch & Hrs).
        exists UB. split; [exact Hch|]. intros s Hs k t Hin Hk.
        destruct (proj1 (all_pending_spec g reported s Hs Hn0) Eap k t Hin Hk) as (T & HT). apply (Hrs k T HT).
      * destruct ps; [reflexivity|discriminate].
Qed.

Theorem oracle_sound_case sender ops outs : ops_nonneg ops ->
  rec_spec_code (sender, ops, outs) = 0%nat -> hist_spec sender ost0 ops outs.
Proof.
  intros Hnn H. apply oracle_sound; auto. split; cbn; constructor.
Qed.

(* ... and the model meets that same specification on every history *)
Lemma build_ok_spec sender st r ps : rec_ok r -> st_rel st r -> build_ok sender st ps -> build_spec sender st ps.
Proof.
  intros (_ & Hst & _) (((Hany & _) & HS) & _) H. unfold build_ok, build_spec in *. cbv zeta in *.
  rewrite Hany. rewrite HS in *. destruct (r_start r) as [s|] eqn:Es.
  - destruct (m_alloc (r_map r)) eqn:Ea; [|destruct Hst as [_ Hx]; specialize (Hx eq_refl); discriminate].
    destruct H as (UB & _ & Hch & Hcov & _). exists UB. split; [apply pkts_chain_spec, Hch|].
    intros s' Hs'. inversion Hs'; subst s'. exact Hcov.
  - destruct Hst as [Hx _]. rewrite (Hx eq_refl). exact H.
Qed.

Theorem model_meets_spec sender ops : forall st r, rec_ok r -> st_rel st r -> ops_nonneg ops ->
  hist_spec sender st ops (rec_run sender r ops).
Proof.
  induction ops as [|o tl IH]; intros st r Hok Hrel Hnn; cbn [hist_spec rec_run]; [reflexivity|].
  destruct o as [ssrc seq t|].
  - cbn [ops_nonneg] in Hnn. destruct Hnn as [Ht Hnn].
    destruct (record_step st r ssrc seq t Hok Hrel Ht) as (Hrel' & Hok'). apply IH; auto.
  - cbn [ops_nonneg] in Hnn. pose proof (build_step sender st r Hok Hrel) as Hb. cbv zeta in Hb.
    destruct (rec_build sender r) as [r' ps]. cbn [fst snd] in *. destruct Hb as (Hbok & Hrel' & Hok').
    split; [exact (build_ok_spec sender st r ps Hok Hrel Hbok)|apply IH; auto].
Qed.

(* ------------------------------------------------------------------ *)
(* codes 3 / 4 / 5: the wire form of an accepted packet, in Prop        *)
(* ------------------------------------------------------------------ *)
(* "marshals to its declared length ... one status per sequence number from
   its base up to its status count with exactly one delta per received status" *)
Definition pkt_form (p : pkt) : Prop :=
  let st := statuses (p_chunks p) in
  let cnt := Z.to_nat (p_count p) in
  let content := 20 + 2 * Z.of_nat (length (p_chunks p)) + C05Check.sumZ (map delta_size (p_deltas p)) in
  0 < p_count p /\
  (* marshalled length = 4 * (header Length + 1) = content rounded up to 32 bits; padding bit; that many bytes *)
  p_mlen p = 4 * (p_hlen p + 1) /\ p_mlen p = (content + 3) / 4 * 4 /\
  p_pad p = (if content mod 4 =? 0 then 0 else 1) /\ Z.of_nat (length (p_bytes p)) = p_mlen p /\
  (* the chunks expand to count statuses plus fewer than 14 padding symbols, all zero; no chunk beyond the count *)
  (cnt <= length st)%nat /\ (length st - cnt < 14)%nat /\
  (length (statuses (removelast (p_chunks p))) < cnt)%nat /\
  Forall (fun s => s = 0) (skipn cnt st) /\
  (* statuses are 0 (not received), 1 (small delta), 2 (large delta) *)
  Forall (fun s => 0 <= s <= 2) (firstn cnt st) /\
  (* exactly one delta per received status, of the type the status names *)
  filter (fun s => negb (s =? 0)) (firstn cnt st) = map fst (p_deltas p) /\
  (* every delta is a multiple of 250 us that fits its wire size *)
  Forall (fun d => snd d mod 250 = 0 /\
                   ((fst d = 1 /\ 0 <= snd d <= 63750) \/ (fst d = 2 /\ -8192000 <= snd d <= 8191750))) (p_deltas p).

Lemma struct_wire_form p : wire_fields_ok p = true -> struct_code p = 0%nat -> pkt_form p.
Proof.
  intros Hw Hs. unfold pkt_form. cbv zeta.
  unfold wire_fields_ok in Hw. cbv zeta in Hw.
  apply andb_true_iff in Hw as [Hw W4]. apply andb_true_iff in Hw as [Hw W3]. apply andb_true_iff in Hw as [W1 W2].
  unfold struct_code in Hs. cbv zeta in Hs.
  destruct (p_count p <=? 0) eqn:E0; [discriminate|].
  destruct (length (statuses (p_chunks p)) <? Z.to_nat (p_count p))%nat eqn:E1; [discriminate|].
  destruct (length (statuses (p_chunks p)) - Z.to_nat (p_count p) <? 14)%nat eqn:E2; cbn [negb] in Hs; [|discriminate].
  destruct (length (statuses (removelast (p_chunks p))) <? Z.to_nat (p_count p))%nat eqn:E3; cbn [negb] in Hs; [|discriminate].
  destruct (existsb (fun s => negb (s =? 0)) (skipn (Z.to_nat (p_count p)) (statuses (p_chunks p)))) eqn:E4; [discriminate|].
  destruct (forallb (fun s => (0 <=? s) && (s <=? 2)) (firstn (Z.to_nat (p_count p)) (statuses (p_chunks p)))) eqn:E5;
    cbn [negb] in Hs; [|discriminate].
  destruct (list_eqb Z.eqb (filter (fun s => negb (s =? 0)) (firstn (Z.to_nat (p_count p)) (statuses (p_chunks p))))
              (map fst (p_deltas p))) eqn:E6; cbn [negb] in Hs; [|discriminate].
  destruct (forallb delta_ok (p_deltas p)) eqn:E7; cbn [negb] in Hs; [|discriminate].
  apply Nat.ltb_ge in E1. apply Nat.ltb_lt in E2. apply Nat.ltb_lt in E3.
  split; [lia|]. split; [lia|]. split; [lia|]. split; [lia|]. split; [lia|].
  split; [exact E1|]. split; [exact E2|]. split; [exact E3|].
  split.
  { apply Forall_forall. intros s Hin. pose proof (proj1 (existsb_false _ _) E4 s Hin) as H. cbn beta in H. lia. }
  split.
  { apply Forall_forall. intros s Hin. pose proof (proj1 (forallb_forall _ _) E5 s Hin) as H. cbn beta in H. lia. }
  split; [apply list_eqb_Z_eq, E6|].
  apply Forall_forall. intros d Hin. pose proof (proj1 (forallb_forall _ _) E7 d Hin) as H.
  unfold delta_ok in H. destruct (fst d =? 1) eqn:Ed; lia.
Qed.

Lemma check_pkts_form sender media R maxU : forall ps eb fb reported,
  check_pkts sender media R maxU eb fb ps = (0%nat, reported) -> Forall pkt_form ps.
Proof.
  induction ps as [|p tl IH]; intros eb fb reported H; [constructor|]. cbn [check_pkts] in H. cbv zeta in H.
  set (UB := match eb with Some b => b | None => maxU - (maxU - p_base p) mod 65536 end) in *.
  destruct ((p_sender p =? sender) && (p_media p =? media)); cbn [negb] in H; [|inversion H].
  destruct (p_fb p =? fb); cbn [negb] in H; [|inversion H].
  destruct (UB mod 65536 =? p_base p); cbn [negb] in H; [|inversion H].
  destruct (wire_fields_ok p) eqn:Ew; cbn [negb] in H; [|inversion H].
  destruct (struct_code p) eqn:Es; cbn [first_nonzero] in H; [|inversion H].
  destruct (bytes_ok p); cbn [negb] in H; [|inversion H].
  destruct (sem_code R UB p _); [|inversion H].
  destruct (check_pkts sender media R maxU (Some (UB + p_count p)) ((fb + 1) mod 256) tl) as [c rs] eqn:Ecp.
  inversion H; subst c. constructor; [apply struct_wire_form; auto|eapply IH; eauto].
Qed.

(* every packet of a history the oracle accepts has the wire form *)
Theorem oracle_sound_form sender ops : forall st outs,
  oracle sender st ops outs = 0%nat -> Forall (Forall pkt_form) outs.
Proof.
  induction ops as [|o tl IH]; intros st outs H.
  - cbn [oracle] in H. destruct outs; [constructor|discriminate].
  - destruct o as [ssrc seq t|].
    + rewrite oracle_rec in H. eapply IH; eauto.
    + destruct outs as [|ps outs']; [cbn [oracle] in H; discriminate|].
      pose proof (oracle_build sender st tl ps outs' H) as H'. rewrite H in H'. symmetry in H'.
      constructor; [|eapply IH; eauto]. clear H' IH. cbn [oracle] in H. cbv zeta in H.
      destruct (t_any (o_truth st)); cbn [negb] in H.
      * destruct (check_pkts sender (o_media st) (t_R (o_truth st)) (t_hi (o_truth st) - 1) None (o_fb st) ps) as [c reported] eqn:Ecp.
        destruct c; cbn [first_nonzero] in H; [|discriminate]. eapply check_pkts_form; eauto.
      * destruct ps; [constructor|discriminate].
Qed.
